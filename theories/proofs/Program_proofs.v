(* C13: store_line / delete / erase / rebuild_line_dict refine the finite map line number -> body *)
From Coq Require Import ZArith List Bool Lia Sorting.Sorted Sorting.Permutation.
From PCB Require Import lib.Result lib.PyInt gen.Gen_program model.Program model.ProgramSpec.
Import ListNotations.
Open Scope Z_scope.

(* ------------------------------------------------------------------ byte-list primitives *)
Lemma zlen_nonneg {A} (l : list A) : 0 <= zlen l.
Proof. unfold zlen. lia. Qed.
Lemma zlen_nil {A} : zlen (@nil A) = 0.
Proof. reflexivity. Qed.
Lemma zlen_cons {A} (x : A) l : zlen (x :: l) = 1 + zlen l.
Proof. unfold zlen. cbn [length]. lia. Qed.
Lemma zlen_app {A} (a b : list A) : zlen (a ++ b) = zlen a + zlen b.
Proof. unfold zlen. rewrite app_length. lia. Qed.
Lemma zlen_le2 x : zlen (le2 x) = 2.
Proof. reflexivity. Qed.

Lemma ztake_app_exact a b n : zlen a = n -> ztake n (a ++ b) = a.
Proof.
  revert n; induction a as [|x a IH]; intros n H.
  - rewrite zlen_nil in H. subst. destruct b; reflexivity.
  - rewrite zlen_cons in H. pose proof (zlen_nonneg a). cbn [app ztake].
    destruct (n <=? 0) eqn:E; [lia|]. f_equal. apply IH. lia.
Qed.
Lemma zdrop_app_exact a b n : zlen a = n -> zdrop n (a ++ b) = b.
Proof.
  revert n; induction a as [|x a IH]; intros n H.
  - rewrite zlen_nil in H. subst. destruct b; reflexivity.
  - rewrite zlen_cons in H. pose proof (zlen_nonneg a). cbn [app zdrop].
    destruct (n <=? 0) eqn:E; [lia|]. apply IH. lia.
Qed.
Lemma zdrop_0 l : zdrop 0 l = l.
Proof. destruct l; reflexivity. Qed.
Lemma ztake_0 l : ztake 0 l = [].
Proof. destruct l; reflexivity. Qed.

Lemma unpack_le2 x : unpack_H (x mod 256) (x / 256) = x.
Proof. unfold unpack_H. pose proof (Z.div_mod x 256). lia. Qed.

Lemma pack_H_ok x : 0 <= x <= 65535 -> pack_H x = Ok (le2 x).
Proof.
  intros H. unfold pack_H. destruct (0 <=? x) eqn:E1; destruct (x <=? 65535) eqn:E2; try lia. reflexivity.
Qed.

(* ------------------------------------------------------------------ layout *)
Lemma size_nonneg ls : 0 <= size ls.
Proof. induction ls as [|l r IH]; cbn [size]; [lia|]. pose proof (zlen_nonneg (snd l)). lia. Qed.
Lemma size_app a b : size (a ++ b) = size a + size b.
Proof. induction a as [|l r IH]; cbn [app size]; lia. Qed.
Lemma lay_app c0 p a b : lay c0 p (a ++ b) = lay c0 p a ++ lay c0 (p + size a) b.
Proof.
  revert p; induction a as [|l r IH]; intros p; cbn [app lay size].
  - f_equal. lia.
  - rewrite IH. rewrite <- !app_assoc.
    replace (p + (5 + zlen (snd l) + size r)) with (p + 5 + zlen (snd l) + size r) by lia. reflexivity.
Qed.
Lemma zlen_lay c0 p ls : zlen (lay c0 p ls) = size ls.
Proof.
  revert p; induction ls as [|l r IH]; intros p; cbn [lay size]; [reflexivity|].
  rewrite zlen_app, zlen_cons, !zlen_app, !zlen_le2, IH. lia.
Qed.
Lemma idx_app p a b : idx p (a ++ b) = idx p a ++ idx (p + size a) b.
Proof.
  revert p; induction a as [|l r IH]; intros p; cbn [app idx size].
  - f_equal. lia.
  - rewrite IH.
    replace (p + (5 + zlen (snd l) + size r)) with (p + 5 + zlen (snd l) + size r) by lia. reflexivity.
Qed.
Lemma idx_shift p d ls : idx (p + d) ls = map (fun kv => (fst kv, snd kv + d)) (idx p ls).
Proof.
  revert p; induction ls as [|l r IH]; intros p; cbn [idx map]; [reflexivity|].
  cbn [fst snd]. f_equal. rewrite <- IH.
  replace (p + d + 5 + zlen (snd l)) with (p + 5 + zlen (snd l) + d) by lia. reflexivity.
Qed.
Lemma idx_keys p ls : map fst (idx p ls) = nums ls.
Proof. revert p; induction ls as [|l r IH]; intros p; cbn [idx map nums]; [reflexivity|]. f_equal. apply IH. Qed.
Lemma In_idx_num k v p ls : In (k, v) (idx p ls) -> In k (nums ls).
Proof. intros H. rewrite <- (idx_keys p). change k with (fst (k, v)). apply in_map. exact H. Qed.
Lemma In_idx_ge k v p ls : In (k, v) (idx p ls) -> p <= v.
Proof.
  revert p; induction ls as [|l r IH]; intros p H; cbn [idx] in H; [contradiction|].
  destruct H as [H|H]; [inversion H; lia|]. apply IH in H. pose proof (zlen_nonneg (snd l)). lia.
Qed.

(* ------------------------------------------------------------------ the pointer fix-up walk *)
Definition img_tl (c0 p : Z) (r : list line) (tail : list Z) : list Z :=
  tl (lay c0 p r ++ 0 :: 0 :: 0 :: tail).
Lemma img_cons c0 p r tail : lay c0 p r ++ 0 :: 0 :: 0 :: tail = 0 :: img_tl c0 p r tail.
Proof. unfold img_tl. destruct r; reflexivity. Qed.

Lemma rmap_id_app {A} (r : res (list A)) : rmap (app []) r = r.
Proof. destruct r; reflexivity. Qed.
Lemma rmap_rmap {A B C} (f : A -> B) (g : B -> C) (r : res A) : rmap g (rmap f r) = rmap (fun x => g (f x)) r.
Proof. destruct r; reflexivity. Qed.

Lemma fix_links_skip pre l addr delta :
  fix_links (pre ++ l) (zlen pre) addr delta = rmap (app pre) (fix_links l 0 addr delta).
Proof.
  induction pre as [|x pre IH].
  - cbn [app]. rewrite zlen_nil, rmap_id_app. reflexivity.
  - cbn [app fix_links]. rewrite zlen_cons. pose proof (zlen_nonneg pre) as Hn.
    destruct (0 <? 1 + zlen pre) eqn:E; [|lia].
    replace (1 + zlen pre - 1) with (zlen pre) by lia. rewrite IH, rmap_rmap. reflexivity.
Qed.

Lemma fix_links_step a b r' addr delta :
  fix_links (a :: b :: r') 0 addr delta =
    if (a =? 0) && (b =? 0) then Ok (a :: b :: r') else
    bind (pack_H (unpack_H a b + delta)) (fun w =>
      if unpack_H a b - addr - 2 <? 0 then Ok (w ++ r')
      else bind (fix_links r' (unpack_H a b - addr - 2) (unpack_H a b) delta) (fun t => Ok (w ++ t))).
Proof. reflexivity. Qed.

Lemma le2_nonzero x : 0 < x -> (x mod 256 =? 0) && (x / 256 =? 0) = false.
Proof.
  intros H. destruct (x mod 256 =? 0) eqn:E1; [|reflexivity]. destruct (x / 256 =? 0) eqn:E2; [|reflexivity].
  pose proof (Z.div_mod x 256). lia.
Qed.

Lemma fix_links_img c0 r : forall q0 delta tail,
  0 <= c0 -> 0 <= q0 -> 0 <= q0 + delta ->
  c0 + 1 + q0 + size r <= 65535 -> c0 + 1 + q0 + delta + size r <= 65535 ->
  fix_links (img_tl c0 q0 r tail) 0 (c0 + 1 + q0) delta = Ok (img_tl c0 (q0 + delta) r tail).
Proof.
  induction r as [|l r IH]; intros q0 delta tail Hc Hq Hq' Hb Hb'.
  - reflexivity.
  - unfold img_tl. cbn [lay app tl size] in *. pose proof (zlen_nonneg (snd l)) as Hl.
    pose proof (size_nonneg r) as Hs.
    set (L0 := c0 + 1 + q0 + 5 + zlen (snd l)).
    rewrite <- !app_assoc. cbn [le2 app].
    rewrite fix_links_step. rewrite le2_nonzero by (unfold L0; lia).
    rewrite unpack_le2. rewrite pack_H_ok by (unfold L0; lia). cbn [bind].
    replace (L0 - (c0 + 1 + q0) - 2) with (3 + zlen (snd l)) by (unfold L0; lia).
    destruct (3 + zlen (snd l) <? 0) eqn:E; [lia|].
    rewrite (img_cons c0 (q0 + 5 + zlen (snd l)) r tail).
    replace (fst l mod 256 :: fst l / 256 :: snd l ++ 0 :: img_tl c0 (q0 + 5 + zlen (snd l)) r tail)
      with ((fst l mod 256 :: fst l / 256 :: snd l ++ [0]) ++ img_tl c0 (q0 + 5 + zlen (snd l)) r tail)
      by (cbn [app]; rewrite <- app_assoc; reflexivity).
    replace (3 + zlen (snd l)) with (zlen (fst l mod 256 :: fst l / 256 :: snd l ++ [0])).
    2:{ rewrite !zlen_cons, zlen_app, zlen_cons, zlen_nil. lia. }
    rewrite fix_links_skip.
    replace L0 with (c0 + 1 + (q0 + 5 + zlen (snd l))) by (unfold L0; lia).
    rewrite IH by lia. cbn [rmap bind].
    rewrite (img_cons c0 (q0 + delta + 5 + zlen (snd l)) r tail).
    replace (q0 + 5 + zlen (snd l) + delta) with (q0 + delta + 5 + zlen (snd l)) by lia.
    replace (c0 + 1 + (q0 + 5 + zlen (snd l)) + delta) with (c0 + 1 + (q0 + delta) + 5 + zlen (snd l)) by lia.
    cbn [le2 app]. rewrite <- app_assoc. reflexivity.
Qed.

(* ------------------------------------------------------------------ dict primitives *)
Lemma lmin_spec l m : lmin l = Some m -> In m l /\ Forall (fun x => m <= x) l.
Proof.
  revert m; induction l as [|x r IH]; intros m H; cbn [lmin] in H; [discriminate|].
  destruct (lmin r) as [m'|] eqn:E.
  - inversion H; subst. destruct (IH m' eq_refl) as [Hin Hall]. split.
    + destruct (Z.min_spec x m') as [[_ Hm]|[_ Hm]]; rewrite Hm; [left; reflexivity | right; exact Hin].
    + constructor; [lia|]. eapply Forall_impl; [|exact Hall]. cbn. intros; lia.
  - inversion H; subst. destruct r; [|cbn [lmin] in E; destruct (lmin r); discriminate].
    split; [left; reflexivity | constructor; [lia | constructor]].
Qed.
Lemma lmin_none l : lmin l = None -> l = [].
Proof. destruct l as [|x r]; [reflexivity|]. cbn [lmin]. destruct (lmin r); discriminate. Qed.
Lemma lmin_some l : l <> [] -> exists m, lmin l = Some m.
Proof. destruct (lmin l) eqn:E; [eauto|]. apply lmin_none in E. contradiction. Qed.

Lemma lookup_In d k v : NoDup (keys d) -> (lookup k d = Some v <-> In (k, v) d).
Proof.
  induction d as [|[k' v'] r IH]; intros Hnd; cbn [lookup In].
  - split; [discriminate | contradiction].
  - cbn [keys map fst] in Hnd. inversion Hnd as [|? ? Hnot Hnd']; subst.
    destruct (k =? k') eqn:E.
    + apply Z.eqb_eq in E. subst k'. split.
      * intros H; inversion H; left; reflexivity.
      * intros [H|H]; [inversion H; reflexivity|]. exfalso. apply Hnot.
        change k with (fst (k, v)). apply in_map. exact H.
    + apply Z.eqb_neq in E. rewrite (IH Hnd'). split.
      * intros H; right; exact H.
      * intros [H|H]; [inversion H; congruence | exact H].
Qed.
Lemma In_keys d k : In k (keys d) -> exists v, In (k, v) d.
Proof. unfold keys. intros H. apply in_map_iff in H as [[k' v] [H1 H2]]. cbn in H1. subst. eauto. Qed.
Lemma keys_In d k v : In (k, v) d -> In k (keys d).
Proof. intros H. unfold keys. change k with (fst (k, v)). apply in_map. exact H. Qed.

Lemma member_In k l : member k l = true <-> In k l.
Proof.
  unfold member. rewrite existsb_exists. split.
  - intros [x [H1 H2]]. apply Z.eqb_eq in H2. subst. exact H1.
  - intros H. exists k. split; [exact H | apply Z.eqb_refl].
Qed.
Lemma member_filter k P l : member k (filter P l) = true <-> In k l /\ P k = true.
Proof. rewrite member_In, filter_In. tauto. Qed.

Lemma NoDup_keys_filter P d : NoDup (keys d) -> NoDup (keys (filter P d)).
Proof.
  induction d as [|kv r IH]; intros H; cbn [filter keys map]; [constructor|].
  cbn [keys map] in H. inversion H as [|? ? Hnot Hnd]; subst.
  destruct (P kv); [|apply IH; exact Hnd]. cbn [keys map]. constructor; [|apply IH; exact Hnd].
  intros Hin. apply Hnot. unfold keys in Hin. apply in_map_iff in Hin as [x [H1 H2]].
  apply filter_In in H2 as [H2 _]. rewrite <- H1. apply in_map. exact H2.
Qed.
Lemma keys_map_fst (f : Z * Z -> Z * Z) d : (forall kv, fst (f kv) = fst kv) -> keys (map f d) = keys d.
Proof. intros H. unfold keys. rewrite map_map. apply map_ext. exact H. Qed.

Lemma dict_set_In k v d k' v' : NoDup (keys d) ->
  (In (k', v') (dict_set k v d) <-> (k' = k /\ v' = v) \/ (k' <> k /\ In (k', v') d)).
Proof.
  induction d as [|[k0 v0] r IH]; intros Hnd; cbn [dict_set In].
  - split; [intros [H|[]]; inversion H; left; split; reflexivity | intros [[-> ->]|[_ []]]; left; reflexivity].
  - cbn [keys map fst] in Hnd. inversion Hnd as [|? ? Hnot Hnd']; subst.
    destruct (k =? k0) eqn:E.
    + apply Z.eqb_eq in E. subst k0. cbn [In]. split.
      * intros [H|H]; [inversion H; left; split; reflexivity|]. right. split; [|right; exact H].
        intros ->. apply Hnot. eapply keys_In; exact H.
      * intros [[-> ->]|[Hne [H|H]]]; [left; reflexivity | inversion H; congruence | right; exact H].
    + apply Z.eqb_neq in E. cbn [In]. rewrite (IH Hnd'). split.
      * intros [H|[H|H]]; [inversion H; subst; right; split; [congruence | left; reflexivity] | left; exact H |].
        destruct H as [H1 H2]. right. split; [exact H1 | right; exact H2].
      * intros [H|[Hne [H|H]]]; [right; left; exact H | left; exact H | right; right; split; assumption].
Qed.
Lemma dict_set_keys_NoDup k v d : NoDup (keys d) -> NoDup (keys (dict_set k v d)).
Proof.
  induction d as [|[k0 v0] r IH]; intros Hnd; cbn [dict_set].
  - cbn. constructor; [intros [] | constructor].
  - cbn [keys map fst] in Hnd. inversion Hnd as [|? ? Hnot Hnd']; subst.
    destruct (k =? k0) eqn:E.
    + apply Z.eqb_eq in E. subst. cbn [keys map fst]. constructor; assumption.
    + apply Z.eqb_neq in E. cbn [keys map fst]. constructor; [|apply IH; exact Hnd'].
      intros Hin. apply In_keys in Hin as [v' Hin]. apply dict_set_In in Hin; [|exact Hnd'].
      destruct Hin as [[H1 _]|[_ H2]]; [congruence|]. apply Hnot. eapply keys_In; exact H2.
Qed.

(* ------------------------------------------------------------------ index of a split program *)
Lemma index_split pre mid post :
  index (pre ++ mid ++ post) =
  idx 0 pre ++ idx (size pre) mid ++ idx (size pre + size mid) post
  ++ [(65536, size pre + size mid + size post)].
Proof.
  unfold index. rewrite !idx_app, !size_app, <- !app_assoc.
  replace (0 + size pre) with (size pre) by lia.
  replace (size pre + (size mid + size post)) with (size pre + size mid + size post) by lia. reflexivity.
Qed.

Lemma idx_min k v p ls :
  StronglySorted Z.lt (nums ls) -> In (k, v) (idx p ls) -> Forall (fun x => k <= x) (nums ls) -> v = p.
Proof.
  destruct ls as [|l r]; cbn [idx nums map]; intros Hs Hin Hall; [contradiction|].
  destruct Hin as [Hin|Hin]; [inversion Hin; reflexivity|].
  exfalso. apply In_idx_num in Hin. inversion Hs as [|? ? _ Hlt]; subst. inversion Hall as [|? ? Hle _]; subst.
  rewrite Forall_forall in Hlt. specialize (Hlt k Hin). lia.
Qed.

Lemma list_case {A} (l : list A) : l = [] \/ exists x r, l = x :: r.
Proof. destruct l; eauto. Qed.

(* ------------------------------------------------------------------ one edit: the lines [mid] with
   numbers in f..t are replaced by [new]; [pre] lies before, [post] behind *)
Section Edit.
Variables (d : list (Z * Z)) (pre mid post : list line) (f t : Z).
Hypothesis Hnd : NoDup (keys d).
Hypothesis Hd : forall k v, In (k, v) d <-> In (k, v) (index (pre ++ mid ++ post)).
Hypothesis Hft : f <= t <= 65535.
Hypothesis Hpre : Forall (fun l : line => fst l < f) pre.
Hypothesis Hmid : Forall (fun l : line => f <= fst l <= t) mid.
Hypothesis Hpost : Forall (fun l : line => t < fst l <= 65535) post.
Hypothesis Hsmid : StronglySorted Z.lt (nums mid).
Hypothesis Hspost : StronglySorted Z.lt (nums post).

Let P := size pre.
Let A := size pre + size mid.

Lemma In_d_cases k v :
  In (k, v) d <-> In (k, v) (idx 0 pre) \/ In (k, v) (idx P mid) \/ In (k, v) (idx A post)
                  \/ (k, v) = (65536, A + size post).
Proof.
  rewrite Hd, index_split. rewrite !in_app_iff. cbn [In]. unfold P, A. intuition.
Qed.

Lemma key_in_pre k v p : In (k, v) (idx p pre) -> k < f.
Proof.
  intros H. apply In_idx_num in H. unfold nums in H. apply in_map_iff in H as [l [H1 H2]].
  rewrite Forall_forall in Hpre. specialize (Hpre l H2). lia.
Qed.
Lemma key_in_mid k v p : In (k, v) (idx p mid) -> f <= k <= t.
Proof.
  intros H. apply In_idx_num in H. unfold nums in H. apply in_map_iff in H as [l [H1 H2]].
  rewrite Forall_forall in Hmid. specialize (Hmid l H2). lia.
Qed.
Lemma key_in_post k v p : In (k, v) (idx p post) -> t < k <= 65535.
Proof.
  intros H. apply In_idx_num in H. unfold nums in H. apply in_map_iff in H as [l [H1 H2]].
  rewrite Forall_forall in Hpost. specialize (Hpost l H2). lia.
Qed.

Lemma num_in_d l ls p : In l ls -> exists v, In (fst l, v) (idx p ls).
Proof.
  revert p; induction ls as [|x r IH]; intros p H; [contradiction|]. destruct H as [H|H].
  - subst. exists p. left. reflexivity.
  - destruct (IH (p + 5 + zlen (snd x)) H) as [v Hv]. exists v. right. exact Hv.
Qed.

Definition deleteable := filter (in_range f t) (keys d).
Definition beyond := filter (fun k => t <? k) (keys d).

Lemma in_deleteable k : In k deleteable <-> exists v, In (k, v) (idx P mid).
Proof.
  unfold deleteable. rewrite filter_In. unfold in_range. split.
  - intros [Hk Hr]. apply In_keys in Hk as [v Hv]. apply In_d_cases in Hv.
    destruct Hv as [Hv|[Hv|[Hv|Hv]]].
    + apply key_in_pre in Hv. lia.
    + eauto.
    + apply key_in_post in Hv. lia.
    + inversion Hv. subst. lia.
  - intros [v Hv]. pose proof (key_in_mid _ _ _ Hv). split; [|lia].
    eapply keys_In. apply In_d_cases. right. left. exact Hv.
Qed.
Lemma in_beyond k : In k beyond <-> (exists v, In (k, v) (idx A post)) \/ k = 65536.
Proof.
  unfold beyond. rewrite filter_In. split.
  - intros [Hk Hr]. apply In_keys in Hk as [v Hv]. apply In_d_cases in Hv.
    destruct Hv as [Hv|[Hv|[Hv|Hv]]].
    + apply key_in_pre in Hv. lia.
    + apply key_in_mid in Hv. lia.
    + eauto.
    + inversion Hv. right. reflexivity.
  - intros [[v Hv]| ->].
    + pose proof (key_in_post _ _ _ Hv). split; [|lia].
      eapply keys_In. apply In_d_cases. right. right. left. exact Hv.
    + split; [|lia]. eapply keys_In. apply In_d_cases. right. right. right. reflexivity.
Qed.

Lemma deleteable_nil : deleteable = [] <-> mid = [].
Proof.
  split.
  - intros H. destruct (list_case mid) as [E|[l [r E]]]; [exact E|]. exfalso.
    assert (Hin : In (fst l) deleteable).
    { apply in_deleteable. exists P. rewrite E. left. reflexivity. }
    rewrite H in Hin. contradiction.
  - intros H. destruct deleteable as [|k r] eqn:E; [reflexivity|]. exfalso.
    assert (Hin : In k deleteable) by (rewrite E; left; reflexivity).
    apply in_deleteable in Hin as [v Hv]. rewrite H in Hv. contradiction.
Qed.

Lemma find_pos_ok : find_pos d f t = Ok (P, A, deleteable, beyond).
Proof.
  unfold find_pos. fold deleteable. fold beyond.
  assert (Hb : beyond <> []).
  { intros H. assert (Hin : In 65536 beyond) by (apply in_beyond; right; reflexivity).
    rewrite H in Hin. contradiction. }
  destruct (lmin_some _ Hb) as [mb Hmb]. rewrite Hmb.
  destruct (lmin_spec _ _ Hmb) as [Hin Hall]. rewrite Forall_forall in Hall.
  (* afterpos *)
  assert (Hafter : In (mb, A) d).
  { apply in_beyond in Hin. destruct Hin as [[v Hv]| ->].
    - assert (v = A); [|subst v; apply In_d_cases; right; right; left; exact Hv].
      eapply idx_min; [exact Hspost | exact Hv |].
      apply Forall_forall. intros x Hx. unfold nums in Hx. apply in_map_iff in Hx as [l [H1 H2]]. subst x.
      apply Hall. apply in_beyond. left. apply num_in_d. exact H2.
    - destruct (list_case post) as [E|[l [r E]]].
      + apply In_d_cases. right. right. right. rewrite E. cbn [size]. f_equal. lia.
      + exfalso. assert (H1 : In (fst l) beyond).
        { apply in_beyond. left. exists A. rewrite E. left. reflexivity. }
        apply Hall in H1. pose proof Hpost as Hp. rewrite E in Hp. inversion Hp as [|? ? Hl _]; subst. lia. }
  apply (lookup_In d mb A Hnd) in Hafter. rewrite Hafter.
  destruct (lmin deleteable) as [md|] eqn:Emd.
  - destruct (lmin_spec _ _ Emd) as [Hin2 Hall2]. rewrite Forall_forall in Hall2.
    apply in_deleteable in Hin2 as [v Hv].
    assert (v = P).
    { eapply idx_min; [exact Hsmid | exact Hv |].
      apply Forall_forall. intros x Hx. unfold nums in Hx. apply in_map_iff in Hx as [l [H1 H2]]. subst x.
      apply Hall2. apply in_deleteable. apply num_in_d. exact H2. }
    subst v. assert (Hs : In (md, P) d) by (apply In_d_cases; right; left; exact Hv).
    apply (lookup_In d md P Hnd) in Hs. rewrite Hs. reflexivity.
  - apply lmin_none in Emd. apply deleteable_nil in Emd. unfold A. rewrite Emd. cbn [size].
    replace (size pre + 0) with P by (unfold P; lia). reflexivity.
Qed.

(* the dict after update_line_dict: the removed lines are gone, the ones behind are shifted *)
Lemma dict_update_ok delta :
  let d2 := map (fun kv => if member (fst kv) beyond then (fst kv, snd kv + delta) else kv)
                (filter (fun kv => negb (member (fst kv) deleteable)) d) in
  NoDup (keys d2) /\
  forall k v, In (k, v) d2 <-> In (k, v) (idx 0 pre) \/ In (k, v) (idx (A + delta) post)
                               \/ (k, v) = (65536, A + delta + size post).
Proof.
  intros d2. split.
  - unfold d2. rewrite keys_map_fst; [apply NoDup_keys_filter; exact Hnd|].
    intros kv. destruct (member (fst kv) beyond); reflexivity.
  - intros k v. unfold d2. rewrite in_map_iff. split.
    + intros [[k0 v0] [Heq Hin]]. apply filter_In in Hin as [Hin Hnot]. cbn [fst snd] in *.
      apply negb_true_iff in Hnot.
      apply In_d_cases in Hin. destruct Hin as [Hin|[Hin|[Hin|Hin]]].
      * assert (Hm : member k0 beyond = false).
        { destruct (member k0 beyond) eqn:E; [|reflexivity]. apply member_In in E.
          apply key_in_pre in Hin. unfold beyond in E. apply filter_In in E as [_ E]. lia. }
        rewrite Hm in Heq. inversion Heq; subst. left. exact Hin.
      * exfalso. assert (member k0 deleteable = true); [|congruence].
        apply member_In. apply in_deleteable. eauto.
      * assert (Hm : member k0 beyond = true) by (apply member_In, in_beyond; eauto).
        rewrite Hm in Heq. inversion Heq; subst. right. left.
        rewrite idx_shift. apply in_map_iff. exists (k, v0). split; [reflexivity | exact Hin].
      * inversion Hin; subst.
        assert (Hm : member 65536 beyond = true) by (apply member_In, in_beyond; right; reflexivity).
        rewrite Hm in Heq. inversion Heq; subst. right. right. f_equal. lia.
    + intros [Hin|[Hin|Hin]].
      * exists (k, v). cbn [fst snd]. pose proof (key_in_pre _ _ _ Hin) as Hk.
        assert (Hm : member k beyond = false).
        { destruct (member k beyond) eqn:E; [|reflexivity]. apply member_In in E.
          unfold beyond in E. apply filter_In in E as [_ E]. lia. }
        rewrite Hm. split; [reflexivity|]. apply filter_In. split.
        -- apply In_d_cases. left. exact Hin.
        -- cbn [fst]. apply negb_true_iff. destruct (member k deleteable) eqn:E; [|reflexivity].
           apply member_In, in_deleteable in E as [v' Hv']. apply key_in_mid in Hv'. lia.
      * rewrite idx_shift in Hin. apply in_map_iff in Hin as [[k0 v0] [Heq Hin]]. cbn [fst snd] in Heq.
        inversion Heq; subst. exists (k, v0). cbn [fst snd].
        assert (Hm : member k beyond = true) by (apply member_In, in_beyond; eauto).
        rewrite Hm. split; [reflexivity|]. apply filter_In. split.
        -- apply In_d_cases. right. right. left. exact Hin.
        -- cbn [fst]. apply negb_true_iff. destruct (member k deleteable) eqn:E; [|reflexivity].
           apply member_In, in_deleteable in E as [v' Hv']. apply key_in_mid in Hv'.
           apply key_in_post in Hin. lia.
      * inversion Hin; subst. exists (65536, A + size post). cbn [fst snd].
        assert (Hm : member 65536 beyond = true) by (apply member_In, in_beyond; right; reflexivity).
        rewrite Hm. split; [f_equal; lia|]. apply filter_In. split.
        -- apply In_d_cases. right. right. right. reflexivity.
        -- cbn [fst]. apply negb_true_iff. destruct (member 65536 deleteable) eqn:E; [|reflexivity].
           apply member_In, in_deleteable in E as [v' Hv']. apply key_in_mid in Hv'. lia.
Qed.
End Edit.

(* ------------------------------------------------------------------ update_line_dict on the spliced code *)
Lemma update_line_dict_ok c d pre new post tail msize del bey :
  0 <= cs c -> 0 <= msize ->
  cs c + 1 + size pre + msize + size post <= 65535 ->
  cs c + 1 + size pre + size new + size post <= 65535 ->
  update_line_dict c (lay (cs c) 0 pre ++ lay (cs c) (size pre) new
                      ++ lay (cs c) (size pre + msize) post ++ 0 :: 0 :: 0 :: tail)
                   d (size pre) (size pre + msize) (size new) del bey
  = Ok (image (cs c) (pre ++ new ++ post) tail,
        map (fun kv => if member (fst kv) bey then (fst kv, snd kv + (size new - msize)) else kv)
            (filter (fun kv => negb (member (fst kv) del)) d)).
Proof.
  intros Hc Hm Hold Hnew. unfold update_line_dict.
  pose proof (size_nonneg pre) as Hp. pose proof (size_nonneg new) as Hn. pose proof (size_nonneg post) as Hq.
  replace (size new - (size pre + msize - size pre)) with (size new - msize) by lia.
  set (delta := size new - msize).
  replace (size pre + msize + delta + 1) with (size pre + size new + 1) by (unfold delta; lia).
  rewrite (img_cons (cs c) (size pre + msize) post tail).
  replace (lay (cs c) 0 pre ++ lay (cs c) (size pre) new ++ 0 :: img_tl (cs c) (size pre + msize) post tail)
    with ((lay (cs c) 0 pre ++ lay (cs c) (size pre) new ++ [0]) ++ img_tl (cs c) (size pre + msize) post tail)
    by (rewrite <- !app_assoc; reflexivity).
  assert (Hlen : zlen (lay (cs c) 0 pre ++ lay (cs c) (size pre) new ++ [0]) = size pre + size new + 1).
  { rewrite !zlen_app, !zlen_lay, zlen_cons, zlen_nil. lia. }
  rewrite (zdrop_app_exact _ _ _ Hlen), (ztake_app_exact _ _ _ Hlen).
  rewrite fix_links_img by (unfold delta; lia). cbn [bind]. f_equal. f_equal.
  unfold image. rewrite !lay_app. replace (0 + size pre) with (size pre) by lia.
  rewrite <- !app_assoc. cbn [app].
  replace (size pre + msize + delta) with (size pre + size new) by (unfold delta; lia).
  rewrite <- (img_cons (cs c) (size pre + size new) post tail). reflexivity.
Qed.

(* ------------------------------------------------------------------ splitting a sorted program at f..t *)
Definition ppre (f : Z) (ls : list line) := filter (fun l : line => fst l <? f) ls.
Definition pmid (f t : Z) (ls : list line) := filter (fun l : line => in_range f t (fst l)) ls.
Definition ppost (t : Z) (ls : list line) := filter (fun l : line => t <? fst l) ls.

Lemma filter_all {A} (P : A -> bool) l : Forall (fun x => P x = true) l -> filter P l = l.
Proof. induction 1 as [|x r Hx _ IH]; cbn [filter]; [reflexivity|]. rewrite Hx, IH. reflexivity. Qed.
Lemma filter_none {A} (P : A -> bool) l : Forall (fun x => P x = false) l -> filter P l = [].
Proof. induction 1 as [|x r Hx _ IH]; cbn [filter]; [reflexivity|]. rewrite Hx, IH. reflexivity. Qed.

Lemma sorted_tail_gt (x : line) r :
  StronglySorted Z.lt (nums (x :: r)) -> Forall (fun l : line => fst x < fst l) r.
Proof.
  cbn [nums map]. intros H. inversion H as [|? ? _ Hall]; subst.
  apply Forall_forall. intros l Hl. rewrite Forall_forall in Hall. apply Hall. unfold nums. apply in_map. exact Hl.
Qed.

Lemma split3 ls f t : StronglySorted Z.lt (nums ls) -> f <= t ->
  ls = ppre f ls ++ pmid f t ls ++ ppost t ls.
Proof.
  intros Hs Hft. unfold ppre, pmid, ppost, in_range. induction ls as [|x r IH]; [reflexivity|].
  pose proof (sorted_tail_gt x r Hs) as Hgt.
  assert (Hs' : StronglySorted Z.lt (nums r)) by (cbn [nums map] in Hs; inversion Hs; assumption).
  specialize (IH Hs'). cbn [filter].
  destruct (fst x <? f) eqn:E1.
  - destruct (f <=? fst x) eqn:E2; [lia|]. cbn [andb]. destruct (t <? fst x) eqn:E3; [lia|].
    cbn [app]. f_equal. exact IH.
  - destruct (f <=? fst x) eqn:E2; [|lia]. cbn [andb].
    assert (Hpre : filter (fun l : line => fst l <? f) r = []).
    { apply filter_none. eapply Forall_impl; [|exact Hgt]. cbn. intros l Hl. lia. }
    destruct (fst x <=? t) eqn:E3.
    + destruct (t <? fst x) eqn:E4; [lia|]. rewrite Hpre in *. cbn [app] in *. f_equal. exact IH.
    + destruct (t <? fst x) eqn:E4; [|lia]. rewrite Hpre. cbn [app].
      assert (Hmid : filter (fun l : line => (f <=? fst l) && (fst l <=? t)) r = []).
      { apply filter_none. eapply Forall_impl; [|exact Hgt]. cbn. intros l Hl.
        destruct (fst l <=? t) eqn:E5; [lia|]. apply andb_false_r. }
      rewrite Hmid. cbn [app]. f_equal. symmetry. apply filter_all.
      eapply Forall_impl; [|exact Hgt]. cbn. intros l Hl. lia.
Qed.

Lemma sorted_filter P ls : StronglySorted Z.lt (nums ls) -> StronglySorted Z.lt (nums (filter P ls)).
Proof.
  induction ls as [|x r IH]; intros Hs; cbn [filter]; [constructor|].
  pose proof (sorted_tail_gt x r Hs) as Hgt.
  assert (Hs' : StronglySorted Z.lt (nums r)) by (cbn [nums map] in Hs; inversion Hs; assumption).
  destruct (P x); [|apply IH; exact Hs']. cbn [nums map]. constructor; [apply IH; exact Hs'|].
  apply Forall_forall. intros k Hk. unfold nums in Hk. apply in_map_iff in Hk as [l [H1 H2]]. subst k.
  apply filter_In in H2 as [H2 _]. rewrite Forall_forall in Hgt. apply Hgt. exact H2.
Qed.

Lemma sorted_app a b :
  StronglySorted Z.lt (nums a) -> StronglySorted Z.lt (nums b) ->
  (forall x y, In x (nums a) -> In y (nums b) -> x < y) -> StronglySorted Z.lt (nums (a ++ b)).
Proof.
  induction a as [|x r IH]; intros Ha Hb Hlt; cbn [app]; [exact Hb|].
  cbn [nums map] in *. inversion Ha as [|? ? Ha' Hall]; subst. constructor.
  - apply IH; [exact Ha' | exact Hb |]. intros u v Hu Hv. apply Hlt; [right; exact Hu | exact Hv].
  - fold (nums (r ++ b)). unfold nums. rewrite map_app. apply Forall_app. split; [exact Hall|].
    apply Forall_forall. intros y Hy. apply Hlt; [left; reflexivity | exact Hy].
Qed.

Lemma ppre_lt f ls : Forall (fun l : line => fst l < f) (ppre f ls).
Proof. apply Forall_forall. intros l H. apply filter_In in H as [_ H]. lia. Qed.
Lemma pmid_in f t ls : Forall (fun l : line => f <= fst l <= t) (pmid f t ls).
Proof. apply Forall_forall. intros l H. apply filter_In in H as [_ H]. unfold in_range in H. lia. Qed.
Lemma ppost_gt t ls : Forall (fun l : line => 0 <= fst l <= 65535) ls ->
  Forall (fun l : line => t < fst l <= 65535) (ppost t ls).
Proof.
  intros Hn. apply Forall_forall. intros l H. apply filter_In in H as [H1 H]. rewrite Forall_forall in Hn.
  specialize (Hn l H1). lia.
Qed.
Lemma Forall_filter {A} (Q : A -> Prop) P l : Forall Q l -> Forall Q (filter P l).
Proof. intros H. apply Forall_forall. intros x Hx. apply filter_In in Hx as [Hx _]. rewrite Forall_forall in H. auto. Qed.

Lemma spec_remove_split ls f t : StronglySorted Z.lt (nums ls) -> f <= t ->
  spec_remove f t ls = ppre f ls ++ ppost t ls.
Proof.
  intros Hs Hft. unfold spec_remove. rewrite (split3 ls f t Hs Hft) at 1. rewrite !filter_app.
  rewrite (filter_all _ (ppre f ls)), (filter_none _ (pmid f t ls)), (filter_all _ (ppost t ls)); [reflexivity| | |].
  - apply Forall_forall. intros l H. apply filter_In in H as [_ H]. unfold in_range.
    destruct (fst l <=? t) eqn:E; [lia|]. rewrite andb_false_r. reflexivity.
  - apply Forall_forall. intros l H. apply filter_In in H as [_ H]. rewrite H. reflexivity.
  - apply Forall_forall. intros l H. apply filter_In in H as [_ H]. unfold in_range.
    destruct (f <=? fst l) eqn:E; [lia|]. reflexivity.
Qed.

(* ------------------------------------------------------------------ the edit on a WF state *)
Lemma size_split ls f t : StronglySorted Z.lt (nums ls) -> f <= t ->
  size ls = size (ppre f ls) + size (pmid f t ls) + size (ppost t ls).
Proof. intros Hs Hft. rewrite (split3 ls f t Hs Hft) at 1. rewrite !size_app. lia. Qed.

Lemma edit_abs c s ls tail f t new lastst :
  cfg_ok c -> abs_ok c s ls tail -> f <= t <= 65535 ->
  (new = [] \/ exists b, new = [(f, b)] /\ t = f /\ 0 <= f /\ wf_body b = true) ->
  cs c + size (ppre f ls ++ new ++ ppost t ls) + 3 + zlen tail <= limit c ->
  exists u,
    update_line_dict c (ztake (size (ppre f ls)) (code s) ++ lay (cs c) (size (ppre f ls)) new
                        ++ seal (zdrop (size (ppre f ls) + size (pmid f t ls)) (code s)))
                     (lines s) (size (ppre f ls)) (size (ppre f ls) + size (pmid f t ls)) (size new)
                     (deleteable (lines s) f t) (beyond (lines s) t) = Ok u /\
    abs_ok c {| code := fst u;
                lines := match new with [] => snd u | _ => dict_set f (size (ppre f ls)) (snd u) end;
                last_stored := lastst |}
           (ppre f ls ++ new ++ ppost t ls) tail.
Proof.
  intros [Hc0 [Hc1 Hc2]] Habs Hft Hnew Hfit.
  destruct Habs as [Hs Hn Hb Hcode Hnd Hlines Hfit0].
  set (pre := ppre f ls) in *. set (mid := pmid f t ls) in *. set (post := ppost t ls) in *.
  assert (Hsplit : ls = pre ++ mid ++ post) by (apply split3; [exact Hs | lia]).
  assert (Hsz : size ls = size pre + size mid + size post) by (apply size_split; [exact Hs | lia]).
  pose proof (size_nonneg pre) as Hp0. pose proof (size_nonneg mid) as Hm0.
  pose proof (size_nonneg post) as Hq0. pose proof (size_nonneg new) as Hn0. pose proof (zlen_nonneg tail) as Ht0.
  rewrite !size_app in Hfit.
  (* the code before the walk *)
  assert (Hbytes : ztake (size pre) (code s) ++ lay (cs c) (size pre) new
                   ++ seal (zdrop (size pre + size mid) (code s))
                   = lay (cs c) 0 pre ++ lay (cs c) (size pre) new
                     ++ lay (cs c) (size pre + size mid) post ++ 0 :: 0 :: 0 :: tail).
  { assert (Hcode2 : code s = lay (cs c) 0 pre ++ lay (cs c) (size pre) mid
                              ++ lay (cs c) (size pre + size mid) post ++ 0 :: 0 :: 0 :: tail).
    { rewrite Hcode. unfold image. rewrite Hsplit at 1. rewrite !lay_app.
      replace (0 + size pre) with (size pre) by lia. rewrite <- !app_assoc. reflexivity. }
    assert (Htake : ztake (size pre) (code s) = lay (cs c) 0 pre).
    { rewrite Hcode2. apply ztake_app_exact, zlen_lay. }
    assert (Hdrop : zdrop (size pre + size mid) (code s)
                    = lay (cs c) (size pre + size mid) post ++ 0 :: 0 :: 0 :: tail).
    { rewrite Hcode2, app_assoc. apply zdrop_app_exact. rewrite zlen_app, !zlen_lay. lia. }
    rewrite Htake, Hdrop, (img_cons (cs c) (size pre + size mid) post tail). reflexivity. }
  rewrite Hbytes. rewrite update_line_dict_ok by lia.
  eexists. split; [reflexivity|]. cbn [fst snd].
  (* facts about the pieces *)
  assert (Hpre : Forall (fun l : line => fst l < f) pre) by apply ppre_lt.
  assert (Hmid : Forall (fun l : line => f <= fst l <= t) mid) by apply pmid_in.
  assert (Hpost : Forall (fun l : line => t < fst l <= 65535) post) by (apply ppost_gt; exact Hn).
  assert (Hsmid : StronglySorted Z.lt (nums mid)) by (apply sorted_filter; exact Hs).
  assert (Hspost : StronglySorted Z.lt (nums post)) by (apply sorted_filter; exact Hs).
  assert (Hspre : StronglySorted Z.lt (nums pre)) by (apply sorted_filter; exact Hs).
  assert (Hlines' : forall k v, In (k, v) (lines s) <-> In (k, v) (index (pre ++ mid ++ post))).
  { rewrite <- Hsplit. exact Hlines. }
  destruct (dict_update_ok (lines s) pre mid post f t Hnd Hlines' Hft Hpre Hmid Hpost (size new - size mid))
    as [Hnd2 Hin2].
  fold (deleteable (lines s) f t) in Hnd2, Hin2. fold (beyond (lines s) t) in Hnd2, Hin2.
  set (d2 := map _ _) in *.
  replace (size pre + size mid + (size new - size mid)) with (size pre + size new) in Hin2 by lia.
  assert (Hpre_n : forall x, In x (nums pre) -> x < f).
  { intros x Hx. unfold nums in Hx. apply in_map_iff in Hx as [l [H1 H2]]. subst x.
    rewrite Forall_forall in Hpre. apply Hpre. exact H2. }
  assert (Hpost_n : forall x, In x (nums post) -> t < x).
  { intros x Hx. unfold nums in Hx. apply in_map_iff in Hx as [l [H1 H2]]. subst x.
    rewrite Forall_forall in Hpost. apply Hpost. exact H2. }
  destruct Hnew as [-> | [b [-> [-> [Hf0 Hwb]]]]].
  - (* lines removed *)
    cbn [app size] in *. constructor; cbn [code lines].
    + apply sorted_app; [exact Hspre | exact Hspost |]. intros x y Hx Hy.
      specialize (Hpre_n x Hx). specialize (Hpost_n y Hy). lia.
    + apply Forall_app. split; apply Forall_filter; exact Hn.
    + apply Forall_app. split; apply Forall_filter; exact Hb.
    + reflexivity.
    + exact Hnd2.
    + intros k v. rewrite Hin2. unfold index. rewrite idx_app, size_app, !in_app_iff. cbn [In].
      replace (0 + size pre) with (size pre + 0) by lia.
      replace (size pre + 0 + size post) with (size pre + size post) by lia.
      split; [intros [H|[H|H]]; [left; left; exact H | left; right; exact H | right; left; symmetry; exact H]
             | intros [[H|H]|[H|[]]]; [left; exact H | right; left; exact H | right; right; symmetry; exact H]].
    + rewrite size_app. lia.
  - (* line f stored *)
    cbn [size snd] in *. constructor; cbn [code lines].
    + apply sorted_app; [exact Hspre | |].
      * change ((f, b) :: post) with ([(f, b)] ++ post). apply sorted_app; [repeat constructor | exact Hspost |].
        intros x y [<-|[]] Hy. apply Hpost_n. exact Hy.
      * intros x y Hx [<-|Hy]; [apply Hpre_n; exact Hx|].
        specialize (Hpre_n x Hx). specialize (Hpost_n y Hy). lia.
    + apply Forall_app. split; [apply Forall_filter; exact Hn|]. constructor; [cbn [fst]; lia|].
      apply Forall_filter; exact Hn.
    + apply Forall_app. split; [apply Forall_filter; exact Hb|]. constructor; [exact Hwb|].
      apply Forall_filter; exact Hb.
    + reflexivity.
    + apply dict_set_keys_NoDup. exact Hnd2.
    + intros k v. rewrite (dict_set_In f (size pre) d2 k v Hnd2). rewrite Hin2.
      change ((f, b) :: post) with ([(f, b)] ++ post). rewrite index_split. rewrite !in_app_iff.
      cbn [idx In size fst snd].
      split.
      * intros [[-> ->]|[Hne [H|[H|H]]]].
        -- right. left. left. reflexivity.
        -- left. exact H.
        -- right. right. left. exact H.
        -- right. right. right. left. symmetry. exact H.
      * intros [H|[[H|[]]|[H|[H|[]]]]].
        -- right. split; [|left; exact H]. apply In_idx_num in H. specialize (Hpre_n k H). lia.
        -- inversion H; subst k v. left. split; reflexivity.
        -- right. split.
           ++ apply In_idx_num in H. specialize (Hpost_n k H). lia.
           ++ right. left. exact H.
        -- inversion H; subst k v. right. split; [lia|]. right. right. reflexivity.
    + rewrite !size_app. cbn [size snd]. lia.
Qed.

Lemma find_pos_abs c s ls tail f t :
  abs_ok c s ls tail -> f <= t <= 65535 ->
  find_pos (lines s) f t = Ok (size (ppre f ls), size (ppre f ls) + size (pmid f t ls),
                               deleteable (lines s) f t, beyond (lines s) t)
  /\ (deleteable (lines s) f t = [] <-> pmid f t ls = []).
Proof.
  intros Habs Hft. destruct Habs as [Hs Hn Hb Hcode Hnd Hlines Hfit0].
  assert (Hsplit : ls = ppre f ls ++ pmid f t ls ++ ppost t ls) by (apply split3; [exact Hs | lia]).
  assert (Hlines' : forall k v, In (k, v) (lines s) <-> In (k, v) (index (ppre f ls ++ pmid f t ls ++ ppost t ls))).
  { rewrite <- Hsplit. exact Hlines. }
  split.
  - apply (find_pos_ok (lines s) (ppre f ls) (pmid f t ls) (ppost t ls) f t Hnd Hlines' Hft
             (ppre_lt f ls) (pmid_in f t ls) (ppost_gt t ls Hn)
             (sorted_filter _ ls Hs) (sorted_filter _ ls Hs)).
  - apply (deleteable_nil (lines s) (ppre f ls) (pmid f t ls) (ppost t ls) f t Hlines' Hft
             (ppre_lt f ls) (pmid_in f t ls) (ppost_gt t ls Hn)).
Qed.

Lemma zlen_rest c s ls tail f t : abs_ok c s ls tail -> f <= t ->
  zlen (zdrop (size (ppre f ls) + size (pmid f t ls)) (code s)) = size (ppost t ls) + 3 + zlen tail.
Proof.
  intros Habs Hft. destruct Habs as [Hs Hn Hb Hcode Hnd Hlines Hfit0].
  rewrite Hcode. unfold image. rewrite (split3 ls f t Hs Hft) at 3. rewrite !lay_app, <- !app_assoc.
  rewrite app_assoc. rewrite zdrop_app_exact by (rewrite zlen_app, !zlen_lay; lia).
  rewrite zlen_app, zlen_lay, !zlen_cons. lia.
Qed.

(* ------------------------------------------------------------------ store_line *)
Lemma skip_blank_blank_body b : (match skip_blank b with [] => true | x :: _ => x =? 0 end) = blank_body b.
Proof. reflexivity. Qed.

Lemma spec_store_eq n b ls : spec_store n b ls = ppre n ls ++ [(n, b)] ++ ppost n ls.
Proof. reflexivity. Qed.

Lemma store_line_ok c s ls tail n b :
  cfg_ok c -> abs_ok c s ls tail -> 0 <= n <= 65535 -> wf_body b = true ->
  abs_ok c (step_keep c s (OStore (mk_linebuf n b))) (spec_step c tail ls (OStore (mk_linebuf n b))) tail.
Proof.
  intros Hcfg Habs Hn Hwb.
  destruct (find_pos_abs c s ls tail n n Habs ltac:(lia)) as [Hfind Hdel].
  pose proof (zlen_rest c s ls tail n n Habs ltac:(lia)) as Hrest.
  pose proof Habs as [Hs Hnn Hb Hcode Hnd Hlines Hfit0].
  unfold step_keep, step, store_line, spec_step, mk_linebuf, le2.
  cbn [app]. change ((192 =? 0) && (222 =? 0)) with false. cbv iota.
  rewrite unpack_le2, Hfind. cbn [bind]. rewrite skip_blank_blank_body.
  destruct (blank_body b) eqn:Eblank.
  - (* empty line: delete *)
    rewrite (spec_remove_split ls n n Hs ltac:(lia)).
    destruct (deleteable (lines s) n n) as [|k0 dr] eqn:Edel.
    + cbn [andb]. assert (Hm : pmid n n ls = []) by (apply Hdel; reflexivity).
      rewrite (split3 ls n n Hs ltac:(lia)) in Habs at 1. rewrite Hm in Habs. exact Habs.
    + cbn [andb]. rewrite <- Edel.
      destruct (edit_abs c s ls tail n n [] n Hcfg Habs ltac:(lia) (or_introl eq_refl)) as [u [Hu Habs']].
      { cbn [app]. rewrite size_app. pose proof (size_split ls n n Hs ltac:(lia)).
        pose proof (size_nonneg (pmid n n ls)). lia. }
      cbn [lay app size] in Hu. rewrite Hu. cbn [bind]. exact Habs'.
  - cbn [andb]. rewrite spec_store_eq.
    rewrite Hrest. rewrite !zlen_cons.
    replace (cs c + size (ppre n ls) + (1 + (1 + (1 + (1 + (1 + zlen b))))) + (size (ppost n ls) + 3 + zlen tail))
      with (cs c + size (ppre n ls ++ [(n, b)] ++ ppost n ls) + 3 + zlen tail)
      by (rewrite !size_app; cbn [size snd]; lia).
    destruct (cs c + size (ppre n ls ++ [(n, b)] ++ ppost n ls) + 3 + zlen tail >? limit c) eqn:Eoom.
    + exact Habs.
    + destruct (edit_abs c s ls tail n n [(n, b)] n Hcfg Habs ltac:(lia)) as [u [Hu Habs']].
      { right. exists b. repeat split; try reflexivity; try lia. exact Hwb. }
      { lia. }
      destruct Hcfg as [Hc0 [Hc1 Hc2]].
      pose proof (size_nonneg (ppre n ls)). pose proof (size_nonneg (ppost n ls)). pose proof (zlen_nonneg b).
      pose proof (zlen_nonneg tail).
      rewrite !size_app in Eoom. cbn [size snd] in Eoom.
      rewrite pack_H_ok by lia. cbn [bind].
      cbn [lay size snd fst] in Hu. rewrite app_nil_r in Hu. unfold le2 in Hu. cbn [app] in Hu.
      replace (cs c + 1 + size (ppre n ls) + (1 + (1 + (1 + (1 + (1 + zlen b))))))
        with (cs c + 1 + size (ppre n ls) + 5 + zlen b) by lia.
      replace (1 + (1 + (1 + (1 + (1 + zlen b))))) with (5 + zlen b + 0) by lia.
      unfold le2. cbn [app]. rewrite Hu. cbn [bind]. exact Habs'.
Qed.

(* ------------------------------------------------------------------ delete *)
Lemma spec_remove_ext a a' t ls :
  (forall l, In l ls -> in_range a t (fst l) = in_range a' t (fst l)) -> spec_remove a t ls = spec_remove a' t ls.
Proof. intros H. unfold spec_remove. apply filter_ext_in. intros l Hl. rewrite (H l Hl). reflexivity. Qed.

Lemma delete_core c s ls tail f t :
  cfg_ok c -> abs_ok c s ls tail -> t <= 65535 ->
  abs_ok c (match (do r <- find_pos (lines s) f t;
                   let '(startpos, afterpos, deleteable, beyond) := r in
                   match deleteable with
                   | [] => Err err_IFC
                   | _ => do u <- update_line_dict c (ztake startpos (code s) ++ seal (zdrop afterpos (code s)))
                                    (lines s) startpos afterpos 0 deleteable beyond;
                          Ok {| code := fst u; lines := snd u; last_stored := last_stored s |}
                   end) with Ok s' => s' | _ => s end)
           (spec_remove f t ls) tail.
Proof.
  intros Hcfg Habs Ht. pose proof Habs as [Hs Hnn Hb Hcode Hnd Hlines Hfit0].
  destruct (Z_le_gt_dec f t) as [Hft|Hft].
  - destruct (find_pos_abs c s ls tail f t Habs ltac:(lia)) as [Hfind Hdel].
    rewrite Hfind. cbn [bind]. rewrite (spec_remove_split ls f t Hs Hft).
    destruct (deleteable (lines s) f t) as [|k0 dr] eqn:Edel.
    + assert (Hm : pmid f t ls = []) by (apply Hdel; reflexivity).
      rewrite (split3 ls f t Hs Hft) in Habs at 1. rewrite Hm in Habs. exact Habs.
    + rewrite <- Edel.
      destruct (edit_abs c s ls tail f t [] (last_stored s) Hcfg Habs ltac:(lia) (or_introl eq_refl)) as [u [Hu Habs']].
      { cbn [app]. rewrite size_app. pose proof (size_split ls f t Hs Hft).
        pose proof (size_nonneg (pmid f t ls)). lia. }
      cbn [lay app size] in Hu. rewrite Hu. cbn [bind]. exact Habs'.
  - assert (Hsame : spec_remove f t ls = ls).
    { unfold spec_remove. apply filter_all. apply Forall_forall. intros l _. unfold in_range.
      destruct (f <=? fst l) eqn:E1; destruct (fst l <=? t) eqn:E2; try reflexivity. lia. }
    rewrite Hsame. unfold find_pos.
    assert (Hd : filter (in_range f t) (keys (lines s)) = []).
    { apply filter_none. apply Forall_forall. intros k _. unfold in_range.
      destruct (f <=? k) eqn:E1; destruct (k <=? t) eqn:E2; try reflexivity. lia. }
    rewrite Hd. destruct (lmin (filter (fun k => t <? k) (keys (lines s)))) as [mb|]; [|exact Habs].
    destruct (lookup mb (lines s)); [|exact Habs]. cbn [bind lmin]. exact Habs.
Qed.

Lemma delete_ok c s ls tail fo to :
  cfg_ok c -> abs_ok c s ls tail -> op_ok (ODelete fo to) ->
  abs_ok c (step_keep c s (ODelete fo to)) (spec_step c tail ls (ODelete fo to)) tail.
Proof.
  intros Hcfg Habs [Hf Ht]. pose proof Habs as [Hs Hnn Hb Hcode Hnd Hlines Hfit0].
  unfold step_keep, step, delete, spec_step.
  set (t := match to with Some t => t | None => 65535 end).
  assert (Ht' : t <= 65535) by (unfold t; destruct to; lia).
  destruct fo as [f|].
  - apply delete_core; assumption.
  - destruct (lmin (keys (lines s))) as [m|] eqn:Em.
    + destruct (lmin_spec _ _ Em) as [Hin Hall]. rewrite Forall_forall in Hall.
      rewrite (spec_remove_ext 0 m t ls); [apply delete_core; assumption|].
      intros l Hl. unfold in_range.
      assert (H0 : 0 <= fst l) by (rewrite Forall_forall in Hnn; specialize (Hnn l Hl); lia).
      assert (Hm : m <= fst l).
      { apply Hall. destruct (num_in_d l ls 0 Hl) as [v Hv]. eapply keys_In. apply Hlines.
        unfold index. apply in_app_iff. left. exact Hv. }
      destruct (0 <=? fst l) eqn:E1; destruct (m <=? fst l) eqn:E2; try lia; try reflexivity.
    + apply delete_core; assumption.
Qed.

(* ------------------------------------------------------------------ erase *)
Lemma erase_ok c : cfg_ok c -> abs_ok c erase [] [].
Proof.
  intros [Hc0 [Hc1 Hc2]]. constructor; cbn.
  - constructor.
  - constructor.
  - constructor.
  - reflexivity.
  - constructor; [intros [] | constructor].
  - intros k v. reflexivity.
  - unfold zlen. cbn. lia.
Qed.

(* ------------------------------------------------------------------ the line scanner on tokeniser output *)
Lemma skip_to_body b : forall X lit rem skip,
  body_ok b lit rem skip = true ->
  skip_to is_end_line (b ++ 0 :: X) lit rem skip = zlen b.
Proof.
  induction b as [|c r IH]; intros X lit rem skip H.
  - cbn [body_ok] in H. cbn [app skip_to]. destruct (0 <? skip) eqn:E; [lia|]. reflexivity.
  - cbn [body_ok] in H. cbn [app skip_to]. rewrite zlen_cons. destruct (0 <? skip) eqn:E.
    + rewrite (IH X lit rem (skip - 1) H). reflexivity.
    + destruct (c =? 0) eqn:E0; [discriminate|].
      change (is_end_line c) with (c =? 0). rewrite E0.
      destruct (c =? 34) eqn:E34.
      * destruct (negb lit || rem) eqn:Es; rewrite (IH X _ _ _ H); reflexivity.
      * destruct ((c =? tk_REM) && negb lit) eqn:Er.
        -- destruct (lit || true) eqn:Es; [|destruct lit; discriminate]. rewrite (IH X _ _ _ H). reflexivity.
        -- destruct (lit || rem) eqn:Es; rewrite (IH X _ _ _ H); reflexivity.
Qed.

Lemma skip_line_body b X : wf_body b = true -> skip_line (b ++ 0 :: X) = zlen b.
Proof. unfold wf_body, skip_line. intros H. apply andb_true_iff in H as [_ H]. apply skip_to_body. exact H. Qed.

(* ------------------------------------------------------------------ rebuild_line_dict on a WF image *)
Lemma rescan_image c0 tail ls : forall fuel p q,
  (length ls < fuel)%nat -> 0 <= c0 -> 0 <= p ->
  Forall (fun l : line => wf_body (snd l) = true) ls ->
  rescan fuel (lay c0 p ls ++ 0 :: 0 :: 0 :: tail) q = Ok (idx q ls, q + size ls).
Proof.
  induction ls as [|l r IH]; intros fuel p q Hf Hc Hp Hb.
  - destruct fuel as [|fuel]; [cbn in Hf; lia|]. cbn [lay app rescan size].
    replace (q + 0) with q by lia. destruct tail as [|x [|y tail']]; reflexivity.
  - destruct fuel as [|fuel]; [cbn in Hf; lia|]. cbn [length] in Hf.
    inversion Hb as [|? ? Hb1 Hb2]; subst. pose proof (zlen_nonneg (snd l)) as Hl.
    cbn [lay size idx]. rewrite <- !app_assoc. cbn [app le2 rescan].
    rewrite le2_nonzero by lia.
    rewrite (img_cons c0 (p + 5 + zlen (snd l)) r tail).
    rewrite (skip_line_body _ _ Hb1). rewrite zdrop_app_exact by reflexivity.
    rewrite <- (img_cons c0 (p + 5 + zlen (snd l)) r tail).
    rewrite (IH fuel (p + 5 + zlen (snd l)) (q + 5 + zlen (snd l))) by (try lia; assumption).
    cbn [bind fst snd]. rewrite unpack_le2. f_equal. f_equal. lia.
Qed.

Lemma dict_set_new k v d : ~ In k (keys d) -> dict_set k v d = d ++ [(k, v)].
Proof.
  induction d as [|[k0 v0] r IH]; intros H; cbn [dict_set app]; [reflexivity|].
  cbn [keys map fst In] in H. destruct (k =? k0) eqn:E; [apply Z.eqb_eq in E; subst k0; tauto|].
  rewrite IH by tauto. reflexivity.
Qed.
Lemma fold_dict_set entries : forall d, NoDup (keys (d ++ entries)) ->
  fold_left (fun d kv => dict_set (fst kv) (snd kv) d) entries d = d ++ entries.
Proof.
  induction entries as [|[k v] r IH]; intros d H; cbn [fold_left]; [rewrite app_nil_r; reflexivity|].
  cbn [fst snd]. rewrite dict_set_new.
  - rewrite IH; rewrite <- app_assoc; [reflexivity | exact H].
  - unfold keys in H. rewrite map_app in H. apply NoDup_remove_2 in H. intros Hin. apply H.
    apply in_app_iff. left. exact Hin.
Qed.

Fixpoint offs (p : Z) (ls : list line) : list Z :=
  match ls with [] => [] | l :: r => (p + 5 + zlen (snd l)) :: offs (p + 5 + zlen (snd l)) r end.
Lemma offs_idx p l r : map (fun kv : Z * Z => snd kv) (tl (idx p (l :: r))) ++ [p + size (l :: r)] = offs p (l :: r).
Proof.
  revert p l; induction r as [|l' r IH]; intros p l.
  - cbn [idx tl map snd app size offs]. f_equal. lia.
  - specialize (IH (p + 5 + zlen (snd l)) l'). cbn [idx tl map snd app size offs] in *.
    f_equal. rewrite <- IH. f_equal. f_equal. lia.
Qed.

Lemma write_at_same pre L Y p : zlen pre = p ->
  write_at (p + 1) (le2 L) (pre ++ 0 :: le2 L ++ Y) = pre ++ 0 :: le2 L ++ Y.
Proof.
  intros H. unfold write_at. rewrite zlen_le2.
  replace (pre ++ 0 :: le2 L ++ Y) with ((pre ++ [0]) ++ le2 L ++ Y) by (rewrite <- app_assoc; reflexivity).
  rewrite ztake_app_exact by (rewrite zlen_app, H; reflexivity).
  rewrite (app_assoc (pre ++ [0]) (le2 L) Y).
  rewrite zdrop_app_exact by (rewrite !zlen_app, zlen_le2, H; cbn; lia).
  rewrite <- !app_assoc. reflexivity.
Qed.

Lemma relink_id c tail ls : forall pre p,
  zlen pre = p -> 0 <= cs c -> 0 <= p -> cs c + 1 + p + size ls <= 65535 ->
  relink c (pre ++ lay (cs c) p ls ++ 0 :: 0 :: 0 :: tail) p (offs p ls)
  = Ok (pre ++ lay (cs c) p ls ++ 0 :: 0 :: 0 :: tail).
Proof.
  induction ls as [|l r IH]; intros pre p Hlen Hc Hp Hfit.
  - cbn [lay app offs relink]. unfold write_at. rewrite ztake_app_exact by exact Hlen.
    replace (p + zlen [0; 0; 0]) with (zlen (pre ++ [0; 0; 0])) by (rewrite zlen_app, Hlen; reflexivity).
    replace (pre ++ 0 :: 0 :: 0 :: tail) with ((pre ++ [0; 0; 0]) ++ tail) at 1 by (rewrite <- app_assoc; reflexivity).
    rewrite zdrop_app_exact by reflexivity. reflexivity.
  - pose proof (zlen_nonneg (snd l)) as Hl. pose proof (size_nonneg r) as Hr. cbn [size] in Hfit.
    cbn [lay offs relink]. rewrite pack_H_ok by lia. cbn [bind].
    replace (cs c + 1 + (p + 5 + zlen (snd l))) with (cs c + 1 + p + 5 + zlen (snd l)) by lia.
    rewrite <- !app_assoc. cbn [app]. rewrite <- !app_assoc.
    rewrite write_at_same by exact Hlen.
    replace (pre ++ 0 :: le2 (cs c + 1 + p + 5 + zlen (snd l)) ++ le2 (fst l) ++ snd l
                 ++ lay (cs c) (p + 5 + zlen (snd l)) r ++ 0 :: 0 :: 0 :: tail)
      with ((pre ++ 0 :: le2 (cs c + 1 + p + 5 + zlen (snd l)) ++ le2 (fst l) ++ snd l)
            ++ lay (cs c) (p + 5 + zlen (snd l)) r ++ 0 :: 0 :: 0 :: tail)
      by (rewrite <- !app_assoc; cbn [app]; rewrite <- !app_assoc; reflexivity).
    apply IH; try lia.
    rewrite zlen_app, zlen_cons, !zlen_app, !zlen_le2, Hlen. lia.
Qed.

Lemma sorted_NoDup l : StronglySorted Z.lt l -> NoDup l.
Proof.
  induction 1 as [|x r Hs IH Hall]; constructor; [|exact IH].
  intros Hin. rewrite Forall_forall in Hall. specialize (Hall x Hin). lia.
Qed.

Lemma length_lay c0 p ls : (length ls <= length (lay c0 p ls))%nat.
Proof.
  revert p; induction ls as [|l r IH]; intros p; cbn [lay length]; [lia|].
  rewrite app_length. cbn [length]. specialize (IH (p + 5 + zlen (snd l))). lia.
Qed.

Lemma NoDup_snoc {A} (l : list A) x : NoDup l -> ~ In x l -> NoDup (l ++ [x]).
Proof.
  induction l as [|y r IH]; intros Hnd Hx; cbn [app].
  - constructor; [intros [] | constructor].
  - inversion Hnd as [|? ? Hy Hr]; subst. constructor.
    + intros Hin. apply in_app_iff in Hin as [Hin|[Hin|[]]]; [exact (Hy Hin)|]. subst. apply Hx. left. reflexivity.
    + apply IH; [exact Hr|]. intros Hin. apply Hx. right. exact Hin.
Qed.

Lemma index_NoDup ls : StronglySorted Z.lt (nums ls) -> Forall (fun l : line => 0 <= fst l <= 65535) ls ->
  NoDup (keys (index ls)).
Proof.
  intros Hs Hn. unfold index, keys. rewrite map_app, idx_keys. cbn [map fst].
  apply NoDup_snoc; [apply sorted_NoDup; exact Hs|].
  intros Hin. unfold nums in Hin. apply in_map_iff in Hin as [l [H1 H2]]. rewrite Forall_forall in Hn.
  specialize (Hn l H2). lia.
Qed.

Lemma rebuild_ok c s ls tail :
  cfg_ok c -> abs_ok c s ls tail ->
  exists s', rebuild_line_dict c s = Ok s' /\ code s' = code s /\ lines s' = index ls
             /\ last_stored s' = last_stored s /\ abs_ok c s' ls tail.
Proof.
  intros [Hc0 [Hc1 Hc2]] Habs. pose proof Habs as [Hs Hn Hb Hcode Hnd Hlines Hfit].
  unfold rebuild_line_dict. rewrite Hcode. unfold image.
  rewrite (rescan_image (cs c) tail ls _ 0 0); try lia; try assumption.
  2:{ rewrite app_length. pose proof (length_lay (cs c) 0 ls). lia. }
  cbn [bind fst snd]. replace (0 + size ls) with (size ls) by lia.
  assert (Hkn : NoDup (keys (idx 0 ls))).
  { unfold keys. rewrite idx_keys. apply sorted_NoDup. exact Hs. }
  rewrite (fold_dict_set (idx 0 ls) []) by exact Hkn. cbn [app].
  assert (Hoff : (map (fun kv : Z * Z => snd kv) (tl (idx 0 ls)) ++ match idx 0 ls with [] => [] | _ => [size ls] end)
                 = offs 0 ls).
  { destruct ls as [|l r]; [reflexivity|]. rewrite <- (offs_idx 0 l r). cbn [idx]. f_equal. }
  rewrite Hoff.
  pose proof (size_nonneg ls) as Hsz. pose proof (zlen_nonneg tail) as Htl.
  pose proof (relink_id c tail ls [] 0 eq_refl ltac:(lia) ltac:(lia) ltac:(lia)) as Hrl. cbn [app] in Hrl.
  rewrite Hrl. cbn [bind].
  assert (Hds : dict_set 65536 (size ls) (idx 0 ls) = index ls).
  { unfold index. apply dict_set_new. unfold keys. rewrite idx_keys. intros Hin.
    unfold nums in Hin. apply in_map_iff in Hin as [l [H1 H2]]. rewrite Forall_forall in Hn.
    specialize (Hn l H2). lia. }
  rewrite Hds. eexists. split; [reflexivity|]. cbn [code lines last_stored].
  split; [reflexivity|]. split; [reflexivity|]. split; [reflexivity|].
  constructor; cbn [code lines]; try assumption.
  - reflexivity.
  - apply index_NoDup; assumption.
  - intros k v. reflexivity.
Qed.

(* ------------------------------------------------------------------ every command preserves WF and refines the map *)
Lemma step_ok c s ls tail o :
  cfg_ok c -> abs_ok c s ls tail -> op_ok o ->
  abs_ok c (step_keep c s o) (spec_step c tail ls o) (tail_step tail o).
Proof.
  intros Hcfg Habs Hop. destruct o as [lb|fo to| |].
  - destruct Hop as [n [b [-> [Hn Hb]]]]. apply store_line_ok; assumption.
  - apply delete_ok; assumption.
  - apply erase_ok. exact Hcfg.
  - destruct (rebuild_ok c s ls tail Hcfg Habs) as [s' [Hr [_ [_ [_ Habs']]]]].
    unfold step_keep, step. rewrite Hr. exact Habs'.
Qed.

Lemma run_from_ok c ops : forall s ls,
  cfg_ok c -> abs_ok c s ls [] -> Forall op_ok ops ->
  abs_ok c (fold_left (step_keep c) ops s) (fold_left (spec_step c []) ops ls) [].
Proof.
  induction ops as [|o r IH]; intros s ls Hcfg Habs Hops; cbn [fold_left]; [exact Habs|].
  inversion Hops as [|? ? Ho Hr]; subst. apply IH; [exact Hcfg | | exact Hr].
  pose proof (step_ok c s ls [] o Hcfg Habs Ho) as H. destruct o; exact H.
Qed.

Theorem refinement c ops : cfg_ok c -> Forall op_ok ops -> abs_ok c (run c ops) (spec_run c ops) [].
Proof. intros Hcfg Hops. apply run_from_ok; [exact Hcfg | apply erase_ok; exact Hcfg | exact Hops]. Qed.

(* ------------------------------------------------------------------ consequences of WF *)
Lemma lookup_ext d1 d2 k : NoDup (keys d1) -> NoDup (keys d2) ->
  (forall k v, In (k, v) d1 <-> In (k, v) d2) -> lookup k d1 = lookup k d2.
Proof.
  intros H1 H2 H. destruct (lookup k d1) as [v|] eqn:E1.
  - apply (lookup_In d1 k v H1) in E1. apply H in E1. apply (lookup_In d2 k v H2) in E1. symmetry. exact E1.
  - destruct (lookup k d2) as [v|] eqn:E2; [|reflexivity].
    apply (lookup_In d2 k v H2) in E2. apply H in E2. apply (lookup_In d1 k v H1) in E2. congruence.
Qed.

(* (1) the incremental index equals a fresh rescan, and the rescan leaves the code alone *)
Lemma wf_rescan c s ls tail : cfg_ok c -> abs_ok c s ls tail ->
  exists s', rebuild_line_dict c s = Ok s' /\ code s' = code s /\ forall k, lookup k (lines s') = lookup k (lines s).
Proof.
  intros Hcfg Habs. destruct (rebuild_ok c s ls tail Hcfg Habs) as [s' [Hr [Hc [Hl [_ Habs']]]]].
  exists s'. split; [exact Hr|]. split; [exact Hc|]. intros k.
  apply lookup_ext; [apply (a_keys _ _ _ _ Habs') | apply (a_keys _ _ _ _ Habs) |].
  intros k0 v. rewrite (a_lines _ _ _ _ Habs'), (a_lines _ _ _ _ Habs). reflexivity.
Qed.

(* (2) offsets increase strictly with line numbers *)
Lemma idx_mono ls : forall p k1 v1 k2 v2, StronglySorted Z.lt (nums ls) ->
  In (k1, v1) (idx p ls) -> In (k2, v2) (idx p ls) -> k1 < k2 -> v1 < v2.
Proof.
  induction ls as [|l r IH]; intros p k1 v1 k2 v2 Hs H1 H2 Hlt; cbn [idx] in *; [contradiction|].
  cbn [nums map] in Hs. inversion Hs as [|? ? Hs' Hall]; subst. rewrite Forall_forall in Hall.
  pose proof (zlen_nonneg (snd l)) as Hl.
  destruct H1 as [H1|H1]; destruct H2 as [H2|H2].
  - inversion H1; inversion H2; subst. lia.
  - inversion H1; subst. apply In_idx_ge in H2. lia.
  - inversion H2; subst. apply In_idx_num in H1. specialize (Hall k1 H1). lia.
  - eapply IH; eassumption.
Qed.

Lemma wf_positions_increase c s ls tail k1 p1 k2 p2 : abs_ok c s ls tail ->
  lookup k1 (lines s) = Some p1 -> lookup k2 (lines s) = Some p2 -> k1 < k2 -> p1 < p2.
Proof.
  intros Habs H1 H2 Hlt. pose proof Habs as [Hs Hn Hb Hcode Hnd Hlines Hfit].
  apply (lookup_In _ _ _ Hnd) in H1, H2. apply Hlines in H1, H2. unfold index in H1, H2.
  apply in_app_iff in H1, H2. cbn [In] in H1, H2.
  destruct H1 as [H1|[H1|[]]]; destruct H2 as [H2|[H2|[]]].
  - eapply idx_mono; eassumption.
  - inversion H2; subst. clear H2.
    assert (Hlast : forall ls p k v, In (k, v) (idx p ls) -> v < p + size ls).
    { clear. induction ls as [|l r IH]; intros p k v H; cbn [idx size] in *; [contradiction|].
      pose proof (zlen_nonneg (snd l)). pose proof (size_nonneg r). destruct H as [H|H]; [inversion H; lia|].
      apply IH in H. lia. }
    apply Hlast in H1. lia.
  - inversion H1; subst. apply In_idx_num in H2. unfold nums in H2. apply in_map_iff in H2 as [l [E1 E2]].
    rewrite Forall_forall in Hn. specialize (Hn l E2). lia.
  - inversion H1; inversion H2; subst. lia.
Qed.

(* the line stored at the head of a layout *)
Lemma line_at_head c0 tail l r pre q :
  zlen pre = q -> 0 <= c0 -> 0 <= q -> wf_body (snd l) = true ->
  line_at (pre ++ lay c0 q (l :: r) ++ 0 :: 0 :: 0 :: tail) q = Some (fst l, snd l).
Proof.
  intros Hlen Hc Hq Hb. unfold line_at. rewrite zdrop_app_exact by exact Hlen.
  pose proof (zlen_nonneg (snd l)) as Hl.
  cbn [lay]. rewrite <- !app_assoc. cbn [app le2]. rewrite le2_nonzero by lia.
  rewrite (img_cons c0 (q + 5 + zlen (snd l)) r tail). rewrite (skip_line_body _ _ Hb).
  rewrite ztake_app_exact by reflexivity. rewrite unpack_le2. reflexivity.
Qed.

Lemma lay_cons_assoc c0 q l r pre X :
  pre ++ lay c0 q (l :: r) ++ X
  = (pre ++ 0 :: le2 (c0 + 1 + q + 5 + zlen (snd l)) ++ le2 (fst l) ++ snd l) ++ lay c0 (q + 5 + zlen (snd l)) r ++ X.
Proof. cbn [lay]. rewrite <- !app_assoc. cbn [app]. rewrite <- !app_assoc. reflexivity. Qed.
Lemma zlen_line_prefix c0 q (l : line) pre : zlen pre = q ->
  zlen (pre ++ 0 :: le2 (c0 + 1 + q + 5 + zlen (snd l)) ++ le2 (fst l) ++ snd l) = q + 5 + zlen (snd l).
Proof. intros H. rewrite zlen_app, zlen_cons, !zlen_app, !zlen_le2, H. lia. Qed.

Lemma line_at_all c0 tail ls : forall pre q,
  zlen pre = q -> 0 <= c0 -> 0 <= q -> Forall (fun l : line => wf_body (snd l) = true) ls ->
  map (line_at (pre ++ lay c0 q ls ++ 0 :: 0 :: 0 :: tail)) (map snd (idx q ls)) = map Some ls.
Proof.
  induction ls as [|l r IH]; intros pre q Hlen Hc Hq Hb; [reflexivity|].
  pose proof (Forall_inv Hb) as Hb1. pose proof (Forall_inv_tail Hb) as Hb2. cbn beta in Hb1. cbn [idx map snd]. f_equal.
  - rewrite line_at_head by assumption. destruct l; reflexivity.
  - rewrite lay_cons_assoc. pose proof (zlen_nonneg (snd l)).
    apply IH; try assumption; [apply zlen_line_prefix; exact Hlen | lia].
Qed.

Lemma line_at_in c0 tail ls : forall pre q n p,
  zlen pre = q -> 0 <= c0 -> 0 <= q -> Forall (fun l : line => wf_body (snd l) = true) ls ->
  In (n, p) (idx q ls) ->
  exists b, In (n, b) ls /\ line_at (pre ++ lay c0 q ls ++ 0 :: 0 :: 0 :: tail) p = Some (n, b).
Proof.
  induction ls as [|l r IH]; intros pre q n p Hlen Hc Hq Hb Hin; [contradiction|].
  pose proof (Forall_inv Hb) as Hb1. pose proof (Forall_inv_tail Hb) as Hb2. cbn beta in Hb1. cbn [idx] in Hin. destruct Hin as [Hin|Hin].
  - inversion Hin; subst n p. exists (snd l). split; [left; destruct l; reflexivity|].
    apply line_at_head; assumption.
  - rewrite lay_cons_assoc. pose proof (zlen_nonneg (snd l)).
    destruct (IH _ (q + 5 + zlen (snd l)) n p (zlen_line_prefix c0 q l pre Hlen) Hc ltac:(lia) Hb2 Hin)
      as [b [H1 H2]].
    exists b. split; [right; exact H1 | exact H2].
Qed.

(* GOTO n lands on line n *)
Lemma wf_goto c s ls tail n p : cfg_ok c -> abs_ok c s ls tail -> 0 <= n <= 65535 ->
  jump s n = Ok p -> exists b, In (n, b) ls /\ line_at (code s) p = Some (n, b).
Proof.
  intros [Hc0 _] Habs Hn Hj. pose proof Habs as [Hs Hnn Hb Hcode Hnd Hlines Hfit].
  unfold jump in Hj. destruct (lookup n (lines s)) as [p'|] eqn:E; [|discriminate]. inversion Hj; subst p'.
  apply (lookup_In _ _ _ Hnd) in E. apply Hlines in E. unfold index in E. apply in_app_iff in E.
  destruct E as [E|[E|[]]]; [|inversion E; lia].
  rewrite Hcode. unfold image.
  apply (line_at_in (cs c) tail ls [] 0 n p eq_refl Hc0 ltac:(lia) Hb E).
Qed.
Lemma wf_goto_exists c s ls tail n b : abs_ok c s ls tail -> In (n, b) ls -> exists p, jump s n = Ok p.
Proof.
  intros Habs Hin. pose proof Habs as [Hs Hnn Hb Hcode Hnd Hlines Hfit].
  destruct (num_in_d (n, b) ls 0 Hin) as [v Hv]. cbn [fst] in Hv.
  assert (H : In (n, v) (lines s)) by (apply Hlines; unfold index; apply in_app_iff; left; exact Hv).
  apply (lookup_In _ _ _ Hnd) in H. exists v. unfold jump. rewrite H. reflexivity.
Qed.

(* ------------------------------------------------------------------ listing: sorted by position = ascending numbers *)
Lemma insert_sorted_perm x l : Permutation (x :: l) (insert_sorted x l).
Proof.
  induction l as [|y r IH]; cbn [insert_sorted]; [apply Permutation_refl|].
  destruct (x <=? y); [apply Permutation_refl|].
  eapply Permutation_trans; [apply perm_swap|]. apply perm_skip. exact IH.
Qed.
Lemma sort_perm l : Permutation l (sort_Z l).
Proof.
  induction l as [|x r IH]; cbn [sort_Z fold_right]; [constructor|].
  eapply Permutation_trans; [|apply insert_sorted_perm]. apply perm_skip. exact IH.
Qed.
Lemma insert_sorted_sorted x l : StronglySorted Z.le l -> StronglySorted Z.le (insert_sorted x l).
Proof.
  induction l as [|y r IH]; intros Hs; cbn [insert_sorted]; [repeat constructor|].
  inversion Hs as [|? ? Hs' Hall]; subst. destruct (x <=? y) eqn:E.
  - constructor; [exact Hs|]. constructor; [lia|]. eapply Forall_impl; [|exact Hall]. cbn. intros; lia.
  - constructor; [apply IH; exact Hs'|].
    eapply Permutation_Forall; [apply insert_sorted_perm|]. constructor; [lia | exact Hall].
Qed.
Lemma sort_sorted l : StronglySorted Z.le (sort_Z l).
Proof. induction l as [|x r IH]; cbn [sort_Z fold_right]; [constructor|]. apply insert_sorted_sorted. exact IH. Qed.

Lemma sorted_unique l1 : forall l2,
  StronglySorted Z.le l1 -> StronglySorted Z.le l2 -> Permutation l1 l2 -> l1 = l2.
Proof.
  induction l1 as [|x r IH]; intros l2 H1 H2 Hp.
  - apply Permutation_nil in Hp. symmetry. exact Hp.
  - destruct l2 as [|y r2]; [apply Permutation_sym, Permutation_nil in Hp; discriminate|].
    inversion H1 as [|? ? H1' Hall1]; subst. inversion H2 as [|? ? H2' Hall2]; subst.
    rewrite Forall_forall in Hall1, Hall2.
    assert (x = y).
    { assert (Hy : In y (x :: r)) by (eapply Permutation_in; [apply Permutation_sym; exact Hp | left; reflexivity]).
      assert (Hx : In x (y :: r2)) by (eapply Permutation_in; [exact Hp | left; reflexivity]).
      destruct Hy as [Hy|Hy]; [congruence|]. destruct Hx as [Hx|Hx]; [congruence|].
      specialize (Hall1 y Hy). specialize (Hall2 x Hx). lia. }
    subst y. f_equal. apply IH; [exact H1' | exact H2' |]. eapply Permutation_cons_inv. exact Hp.
Qed.

Lemma sort_of_perm l l' : Permutation l l' -> StronglySorted Z.lt l' -> sort_Z l = l'.
Proof.
  intros Hp Hs. apply sorted_unique.
  - apply sort_sorted.
  - clear Hp. induction Hs as [|x r Hs IH Hall]; constructor; [exact IH|].
    eapply Forall_impl; [|exact Hall]. cbn. intros; lia.
  - eapply Permutation_trans; [apply Permutation_sym, sort_perm | exact Hp].
Qed.

Lemma idx_pos_sorted ls : forall p, StronglySorted Z.lt (map snd (idx p ls)).
Proof.
  induction ls as [|l r IH]; intros p; cbn [idx map snd]; constructor; [apply IH|].
  apply Forall_forall. intros v Hv. apply in_map_iff in Hv as [[k v'] [E Hin]]. cbn in E. subst v'.
  apply In_idx_ge in Hin. pose proof (zlen_nonneg (snd l)). lia.
Qed.

Lemma wf_list_all c s ls tail : cfg_ok c -> abs_ok c s ls tail ->
  list_positions s None None = map snd (idx 0 ls) /\ list_lines s None None = map Some ls.
Proof.
  intros [Hc0 _] Habs. pose proof Habs as [Hs Hn Hb Hcode Hnd Hlines Hfit].
  assert (Hpos : list_positions s None None = map snd (idx 0 ls)).
  { unfold list_positions. apply sort_of_perm; [|apply idx_pos_sorted]. apply Permutation_map.
    apply NoDup_Permutation.
    - apply NoDup_filter. eapply NoDup_map_inv. exact Hnd.
    - eapply NoDup_map_inv. rewrite idx_keys. apply sorted_NoDup. exact Hs.
    - intros [k v]. rewrite filter_In. cbn [fst andb]. rewrite Hlines. unfold index. rewrite in_app_iff. cbn [In].
      split.
      + intros [[H|[H|[]]] Hk]; [exact H|]. inversion H; subst. apply Z.leb_le in Hk. lia.
      + intros H. split; [left; exact H|]. apply Z.leb_le. apply In_idx_num in H. unfold nums in H.
        apply in_map_iff in H as [l [E1 E2]]. rewrite Forall_forall in Hn. specialize (Hn l E2). lia. }
  split; [exact Hpos|]. unfold list_lines. rewrite Hpos, Hcode. unfold image.
  apply (line_at_all (cs c) tail ls [] 0 eq_refl Hc0 ltac:(lia) Hb).
Qed.

(* ------------------------------------------------------------------ (3) the link chain *)
Lemma chain_from c tail r : forall a fuel,
  (length r < fuel)%nat -> 0 <= cs c ->
  chain c fuel (lay (cs c) 0 (a ++ r) ++ 0 :: 0 :: 0 :: tail) (size a)
  = (map (fun kv : Z * Z => (snd kv, fst kv)) (idx (size a) r), true).
Proof.
  induction r as [|l r IH]; intros a fuel Hf Hc.
  - destruct fuel as [|fuel]; [cbn in Hf; lia|]. cbn [chain]. rewrite app_nil_r.
    rewrite zdrop_app_exact by apply zlen_lay. reflexivity.
  - destruct fuel as [|fuel]; [cbn in Hf; lia|]. cbn [length] in Hf. cbn [chain].
    rewrite lay_app. replace (0 + size a) with (size a) by lia. rewrite <- app_assoc.
    rewrite zdrop_app_exact by apply zlen_lay.
    pose proof (size_nonneg a) as Ha. pose proof (zlen_nonneg (snd l)) as Hl.
    cbn [lay]. rewrite <- !app_assoc. cbn [app le2]. rewrite le2_nonzero by lia.
    rewrite (img_cons (cs c) (size a + 5 + zlen (snd l)) r tail).
    rewrite !unpack_le2.
    replace (cs c + 1 + size a + 5 + zlen (snd l) - (cs c + 1)) with (size (a ++ [l])) by (rewrite size_app; cbn [size]; lia).
    specialize (IH (a ++ [l]) fuel ltac:(lia) Hc). rewrite <- app_assoc in IH. cbn [app] in IH.
    rewrite lay_app in IH. replace (0 + size a) with (size a) in IH by lia.
    cbn [lay] in IH. rewrite <- !app_assoc in IH. cbn [app le2] in IH.
    rewrite (img_cons (cs c) (size a + 5 + zlen (snd l)) r tail) in IH. rewrite IH.
    cbn [idx map fst snd].
    replace (size (a ++ [l])) with (size a + 5 + zlen (snd l)) by (rewrite size_app; cbn [size]; lia). reflexivity.
Qed.

Lemma wf_chain c s ls tail : cfg_ok c -> abs_ok c s ls tail ->
  chain c (S (length ls)) (code s) 0 = (map (fun kv : Z * Z => (snd kv, fst kv)) (idx 0 ls), true).
Proof.
  intros [Hc0 _] Habs. rewrite (a_code _ _ _ _ Habs). unfold image.
  apply (chain_from c tail ls [] (S (length ls))); [lia | exact Hc0].
Qed.

(* (4) the sentinel maps to the terminator *)
Lemma wf_sentinel c s ls tail : abs_ok c s ls tail ->
  lookup 65536 (lines s) = Some (size ls) /\ zdrop (size ls) (code s) = 0 :: 0 :: 0 :: tail.
Proof.
  intros Habs. pose proof Habs as [Hs Hn Hb Hcode Hnd Hlines Hfit]. split.
  - apply (lookup_In _ _ _ Hnd). apply Hlines. unfold index. apply in_app_iff. right. left. reflexivity.
  - rewrite Hcode. unfold image. apply zdrop_app_exact, zlen_lay.
Qed.

(* ------------------------------------------------------------------ the abstract commands are finite-map updates *)
Lemma spec_store_In n b ls k b' :
  In (k, b') (spec_store n b ls) <-> (k = n /\ b' = b) \/ (k <> n /\ In (k, b') ls).
Proof.
  unfold spec_store. rewrite in_app_iff. cbn [In]. rewrite !filter_In. cbn [fst]. split.
  - intros [[H1 H2]|[H|[H1 H2]]].
    + right. split; [lia | exact H1].
    + inversion H. left. split; reflexivity.
    + right. split; [lia | exact H1].
  - intros [[-> ->]|[Hne H]]; [right; left; reflexivity|].
    destruct (Z_lt_ge_dec k n) as [Hlt|Hge]; [left; split; [exact H | lia]|].
    right. right. split; [exact H | lia].
Qed.
Lemma spec_remove_In a b ls k b' :
  In (k, b') (spec_remove a b ls) <-> In (k, b') ls /\ ~ (a <= k <= b).
Proof.
  unfold spec_remove. rewrite filter_In. cbn [fst]. unfold in_range. split.
  - intros [H1 H2]. split; [exact H1|]. apply negb_true_iff in H2. lia.
  - intros [H1 H2]. split; [exact H1|]. apply negb_true_iff.
    destruct (a <=? k) eqn:E1; destruct (k <=? b) eqn:E2; try reflexivity. lia.
Qed.
