(* C08: the format string of PRINT USING is consumed cyclically: values left to right, each by the next
   field; the format restarts exactly when it is exhausted and values remain. *)
From Coq Require Import ZArith List Bool Lia.
From PCB Require Import lib.Result lib.PyInt lib.Harness gen.Gen_using model.Using proofs.Using_proofs.
Import ListNotations.
Open Scope Z_scope.

(* ------------------------------------------------------------------ specification *)
Definition seg := (item * list Z)%type.          (* a field and the literal text that follows it *)

(* literal text before the first field, and the fields with the literal text following each *)
Fixpoint segs (its : list item) : list Z * list seg :=
  match its with
  | [] => ([], [])
  | ILit c :: r => (c :: fst (segs r), snd (segs r))
  | fld :: r => ([], (fld, fst (segs r)) :: snd (segs r))
  end.

Definition prep (p : list Z) (x : list Z * res bool) : list Z * res bool := (p ++ fst x, snd x).

(* what PRINT USING writes: `cur` = the fields left in the current cycle ([] = start a new cycle: the
   text before the first field is written, then the first field is used) *)
Fixpoint spec_run (tr : bool) (h0 : list Z) (all cur : list seg) (vals : list uval) : list Z * res bool :=
  match vals with
  | [] => ([], Ok (negb tr))
  | v :: vs =>
      let pre := match cur with [] => h0 | _ => [] end in
      let s := match cur with [] => hd (ILit 0, []) all | s :: _ => s end in
      let rest := match cur with [] => tl all | _ :: r => r end in
      match format_item (fst s) v with
      | Ok t => prep (pre ++ t ++ snd s) (spec_run tr h0 all rest vs)
      | Err e => (pre, Err e)
      | Host x => (pre, Host x)
      | OutOfFuel => (pre, OutOfFuel)
      end
  end.

(* ------------------------------------------------------------------ one pass in terms of segments *)
Inductive sres := SEnd (out : list Z) (vals : list uval) | SStop (out : list Z) (r : res bool).

Fixpoint seg_pass (tr : bool) (sg : list seg) (out : list Z) (vals : list uval) : sres :=
  match sg with
  | [] => SEnd out vals
  | (fld, lits) :: sg' =>
      match vals with
      | [] => SStop out (Ok (negb tr))
      | v :: vs =>
          match format_item fld v with
          | Ok t => seg_pass tr sg' (out ++ t ++ lits) vs
          | Err e => SStop out (Err e)
          | Host x => SStop out (Host x)
          | OutOfFuel => SStop out OutOfFuel
          end
      end
  end.

Definition lift (ini : list Z) (s : sres) : pres :=
  match s with SEnd o vs => PEnd true ini o vs | SStop o r => PStop o r end.

Definition is_lit (it : item) : bool := match it with ILit _ => true | _ => false end.

Lemma pass_nosc tr cur : forall fc ini out vals,
  pass tr cur fc false ini out vals =
  match snd (segs cur) with
  | [] => PEnd fc ini (out ++ fst (segs cur)) vals
  | sg => lift ini (seg_pass tr sg (out ++ fst (segs cur)) vals)
  end.
Proof.
  induction cur as [|it r IH]; intros fc ini out vals.
  - simpl. rewrite app_nil_r. reflexivity.
  - destruct it as [c|w|f].
    + cbn [pass segs fst snd]. rewrite IH. rewrite <- app_assoc. reflexivity.
    + cbn [pass segs fst snd seg_pass]. rewrite app_nil_r.
      destruct vals as [|v vs]; [reflexivity|].
      destruct (format_item (IStr w) v) as [t|e|x|]; try reflexivity.
      rewrite IH. rewrite <- !app_assoc.
      destruct (snd (segs r)); reflexivity.
    + cbn [pass segs fst snd seg_pass]. rewrite app_nil_r.
      destruct vals as [|v vs]; [reflexivity|].
      destruct (format_item (INum f) v) as [t|e|x|]; try reflexivity.
      rewrite IH. rewrite <- !app_assoc.
      destruct (snd (segs r)); reflexivity.
Qed.

Lemma pass_sc tr cur : forall fc ini out vals,
  pass tr cur fc true ini out vals =
  match snd (segs cur) with
  | [] => PEnd fc (ini ++ fst (segs cur)) out vals
  | sg => match vals with
          | [] => PStop out (Ok (negb tr))
          | _ => lift (ini ++ fst (segs cur)) (seg_pass tr sg (out ++ ini ++ fst (segs cur)) vals)
          end
  end.
Proof.
  induction cur as [|it r IH]; intros fc ini out vals.
  - simpl. rewrite app_nil_r. reflexivity.
  - destruct it as [c|w|f].
    + cbn [pass segs fst snd]. rewrite IH. rewrite <- !app_assoc. reflexivity.
    + cbn [pass segs fst snd seg_pass]. rewrite !app_nil_r.
      destruct vals as [|v vs]; [reflexivity|].
      destruct (format_item (IStr w) v) as [t|e|x|]; try reflexivity.
      rewrite pass_nosc. rewrite <- !app_assoc.
      destruct (snd (segs r)); reflexivity.
    + cbn [pass segs fst snd seg_pass]. rewrite !app_nil_r.
      destruct vals as [|v vs]; [reflexivity|].
      destruct (format_item (INum f) v) as [t|e|x|]; try reflexivity.
      rewrite pass_nosc. rewrite <- !app_assoc.
      destruct (snd (segs r)); reflexivity.
Qed.

(* ------------------------------------------------------------------ segments vs the cyclic specification *)
Definition sprep (p : list Z) (s : sres) : sres :=
  match s with SEnd o vs => SEnd (p ++ o) vs | SStop o r => SStop (p ++ o) r end.

Lemma seg_pass_out tr sg : forall out vals, seg_pass tr sg out vals = sprep out (seg_pass tr sg [] vals).
Proof.
  induction sg as [|[fld lits] sg IH]; intros out vals.
  - simpl. rewrite app_nil_r. reflexivity.
  - cbn [seg_pass]. destruct vals as [|v vs]; [simpl; rewrite app_nil_r; reflexivity|].
    destruct (format_item fld v) as [t|e|x|]; try (simpl; rewrite app_nil_r; reflexivity).
    rewrite IH. rewrite (IH ([] ++ t ++ lits)). cbn [app].
    destruct (seg_pass tr sg [] vs); simpl; rewrite <- app_assoc; reflexivity.
Qed.

Lemma seg_pass_shorter tr sg : forall out vals o vs,
  sg <> [] -> vals <> [] -> seg_pass tr sg out vals = SEnd o vs -> (length vs < length vals)%nat.
Proof.
  induction sg as [|[fld lits] sg IH]; intros out vals o vs Hsg Hv H; [contradiction|].
  cbn [seg_pass] in H. destruct vals as [|v vs0]; [contradiction|].
  destruct (format_item fld v) as [t|e|x|]; try discriminate.
  destruct sg as [|s sg'].
  - simpl in H. injection H as _ <-. simpl. lia.
  - destruct vs0 as [|v1 vs1]; [destruct s; simpl in H; discriminate H|].
    specialize (IH (out ++ t ++ lits) (v1 :: vs1) o vs ltac:(neq_disc) ltac:(neq_disc) H). simpl in *. lia.
Qed.

Definition of_sres tr h0 all (s : sres) : list Z * res bool :=
  match s with
  | SStop o r => (o, r)
  | SEnd o vs => prep o (spec_run tr h0 all [] vs)
  end.

Lemma prep_prep a b x : prep a (prep b x) = prep (a ++ b) x.
Proof. unfold prep. simpl. rewrite app_assoc. reflexivity. Qed.

Lemma prep_nil x : prep [] x = x.
Proof. destruct x. reflexivity. Qed.

Lemma of_sres_sprep tr h0 all p s : of_sres tr h0 all (sprep p s) = prep p (of_sres tr h0 all s).
Proof. destruct s; simpl; [rewrite prep_prep|]; reflexivity. Qed.

(* within a cycle the specification follows the segments; at their end it starts a new cycle *)
Lemma spec_run_segs tr h0 all cur : forall vals,
  cur <> [] -> spec_run tr h0 all cur vals = of_sres tr h0 all (seg_pass tr cur [] vals).
Proof.
  induction cur as [|[fld lits] cur IH]; intros vals Hc; [contradiction|].
  destruct vals as [|v vs]; [reflexivity|].
  cbn [spec_run seg_pass fst snd]. destruct (format_item fld v) as [t|e|x|]; try reflexivity.
  cbn [app]. rewrite seg_pass_out, of_sres_sprep.
  destruct cur as [|s cur'].
  - reflexivity.
  - rewrite IH by neq_disc. reflexivity.
Qed.

Lemma spec_run_restart tr h0 all vals :
  all <> [] -> vals <> [] -> spec_run tr h0 all [] vals = prep h0 (spec_run tr h0 all all vals).
Proof.
  intros Ha Hv. destruct all as [|s all']; [contradiction|]. destruct vals as [|v vs]; [contradiction|].
  cbn [spec_run hd tl]. destruct (format_item (fst s) v); try (unfold prep; simpl; rewrite app_nil_r; reflexivity).
  rewrite prep_prep. cbn [app]. reflexivity.
Qed.

(* ------------------------------------------------------------------ the whole statement *)
Lemma cycles_spec tr items h0 sg : forall n out vals fc,
  segs items = (h0, sg) -> sg <> [] -> (length vals < n)%nat ->
  cycles n tr items fc out vals = prep out (spec_run tr h0 sg [] vals).
Proof.
  intros n. induction n as [|n IH]; intros out vals fc Hs Hsg Hn; [lia|].
  cbn [cycles]. rewrite pass_sc, Hs. cbn [fst snd app].
  destruct vals as [|v vs].
  - destruct sg; [contradiction|]. unfold prep. simpl. rewrite app_nil_r. reflexivity.
  - assert (Hv : v :: vs <> []) by neq_disc.
    destruct sg as [|s0 sg0] eqn:Esg; [contradiction|]. cbv iota.
    rewrite <- Esg in *. clear Esg s0 sg0.
    rewrite spec_run_restart, spec_run_segs by assumption.
    rewrite seg_pass_out.
    destruct (seg_pass tr sg [] (v :: vs)) as [o vs'|o r] eqn:Esp.
    + cbn [sprep lift of_sres negb].
      assert (Hlt : (length vs' < length (v :: vs))%nat) by (eapply seg_pass_shorter; eauto).
      rewrite (IH _ _ true Hs Hsg) by lia.
      rewrite !prep_prep. reflexivity.
    + cbn [sprep lift of_sres]. unfold prep. simpl. rewrite app_assoc. reflexivity.
Qed.

Lemma cycles_nofield tr items h0 n out vals :
  segs items = (h0, []) -> cycles (S n) tr items false out vals = (out ++ h0, Err err_IFC).
Proof. intros Hs. cbn [cycles]. rewrite pass_sc, Hs. reflexivity. Qed.

(* PRINT USING fmt; vals *)
Theorem print_using_spec fmt vals tr :
  fmt <> [] ->
  print_using fmt vals tr =
  match snd (segs (tokenize fmt)) with
  | [] => (fst (segs (tokenize fmt)), Err err_IFC)                          (* no field in the format *)
  | sg => spec_run tr (fst (segs (tokenize fmt))) sg [] vals
  end.
Proof.
  intros Hf. unfold print_using. destruct fmt as [|c fmt']; [contradiction|].
  set (items := tokenize (c :: fmt')).
  destruct (segs items) as [h0 sg] eqn:Es. cbn [fst snd].
  destruct sg as [|s sg'].
  - rewrite (cycles_nofield tr items h0 _ [] vals Es). reflexivity.
  - rewrite (cycles_spec tr items h0 (s :: sg') _ [] vals false Es) by (try neq_disc; lia).
    apply prep_nil.
Qed.

Theorem print_using_empty vals tr : print_using [] vals tr = ([], Err err_IFC).
Proof. reflexivity. Qed.

(* the model never runs out of fuel *)
Lemma spec_run_fuel tr h0 all : forall vals cur, snd (spec_run tr h0 all cur vals) <> OutOfFuel \/
  exists it v, In v vals /\ format_item it v = OutOfFuel.
Proof.
  induction vals as [|v vs IH]; intros cur; [left; discriminate|].
  cbn [spec_run].
  set (s := match cur with [] => hd (ILit 0, []) all | s :: _ => s end).
  destruct (format_item (fst s) v) eqn:E; try (left; neq_disc).
  - destruct (IH (match cur with [] => tl all | _ :: r => r end)) as [H|[it [v' [Hin Hf]]]].
    + left. exact H.
    + right. exists it, v'. split; [right; exact Hin|exact Hf].
  - right. exists (fst s), v. split; [left; reflexivity|exact E].
Qed.

(* ------------------------------------------------------------------ tokenisation: the fuel suffices *)
Lemma tokens_nonempty sh : shape_ok sh -> shape_tokens sh <> [].
Proof.
  intros Hok. destruct (shape_body_chars sh Hok) as [_ [Hne _]]. unfold shape_tokens.
  intros H. apply Hne.
  destruct (sh_plus sh); [discriminate H|]. cbn [app] in H.
  repeat rewrite app_assoc in H. apply app_eq_nil in H as [H _].
  repeat rewrite <- app_assoc in H. exact H.
Qed.

Lemma next_item_shorter s it r : next_item s = Some (it, r) -> (length r < length s)%nat.
Proof.
  unfold next_item. destruct s as [|c s']; [discriminate|].
  destruct (c =? cUSCORE).
  - destruct s' as [|x r']; intros H; injection H as _ <-; simpl; lia.
  - destruct (parse_string_field (c :: s')) as [[w r']|] eqn:E1.
    + intros H. injection H as _ <-. apply parse_string_field_spec in E1 as [Hs Hw].
      rewrite Hs, app_length.
      destruct Hw as [->|[->|[n ->]]]; simpl; lia.
    + destruct (parse_number_field (c :: s')) as [[f r']|] eqn:E2.
      * intros H. injection H as _ <-.
        apply parse_number_field_shape in E2 as [sh [Hok [Hf Hs]]].
        rewrite Hs, app_length. subst f. cbn [field_of_shape nf_tokens].
        pose proof (tokens_nonempty sh Hok). destruct (shape_tokens sh); [contradiction|]. simpl. lia.
      * intros H. injection H as _ <-. simpl. lia.
Qed.

Lemma tokenize_fuel_any : forall f1 f2 s, (length s <= f1)%nat -> (length s <= f2)%nat ->
  tokenize_fuel f1 s = tokenize_fuel f2 s.
Proof.
  induction f1 as [|f1 IH]; intros f2 s H1 H2.
  - destruct s; [|simpl in H1; lia]. destruct f2; reflexivity.
  - destruct s as [|c s']; [destruct f2; reflexivity|].
    destruct f2 as [|f2]; [simpl in H2; lia|].
    cbn [tokenize_fuel]. destruct (next_item (c :: s')) as [[it r]|] eqn:E; [|reflexivity].
    apply next_item_shorter in E. cbn [length] in E, H1, H2.
    rewrite (IH f2 r) by lia. reflexivity.
Qed.

Lemma tokenize_fuel_enough fuel s : (length s <= fuel)%nat ->
  tokenize_fuel fuel s = tokenize_fuel (length s) s.
Proof. intros H. apply tokenize_fuel_any; lia. Qed.

(* tokenize is the iteration of next_item over the whole format string *)
Theorem tokenize_unfold s :
  tokenize s = match next_item s with Some (it, r) => it :: tokenize r | None => [] end.
Proof.
  unfold tokenize. destruct s as [|c s']; [reflexivity|].
  cbn [tokenize_fuel length]. destruct (next_item (c :: s')) as [[it r]|] eqn:E; [|reflexivity].
  apply next_item_shorter in E. cbn [length] in E.
  rewrite (tokenize_fuel_enough (length s') r) by lia. reflexivity.
Qed.

Lemma next_item_some s : s <> [] -> exists it r, next_item s = Some (it, r).
Proof.
  destruct s as [|c s']; [contradiction|]. intros _. unfold next_item.
  destruct (c =? cUSCORE); [destruct s'; eauto|].
  destruct (parse_string_field (c :: s')) as [[w r]|]; [eauto|].
  destruct (parse_number_field (c :: s')) as [[f r]|]; eauto.
Qed.
