(* MBFArith_add.v - Float.iadd / isub (C05 identities): _add_den is commutative up to _normalise,
   x + 0 = x, 0 + x = x, x - x = 0. *)
From Coq Require Import ZArith List Bool Lia ZifyBool.
From PCB Require Import lib.Result lib.PyInt lib.Harness lib.MBFPrims gen.Gen_mbf model.MBF
  proofs.MBF_base proofs.MBF_compare proofs.MBF_convert proofs.MBF_round proofs.MBFArith_norm
  proofs.MBFArith_mul.
Import ListNotations.
Open Scope Z_scope.
Ltac Zify.zify_post_hook ::= Z.to_euclidean_division_equations.

Lemma normalise_man0 C buf exp neg : mbf_normalise C buf exp 0 neg = Ok (zeros (c_size C)).
Proof. rewrite normalise_unfold. reflexivity. Qed.

Lemma normalise_exp0 C buf exp man neg : exp <= 0 -> mbf_normalise C buf exp man neg = Ok (zeros (c_size C)).
Proof. intros H. rewrite normalise_unfold. destruct (Z.leb_spec exp 0); [|lia]. rewrite orb_true_r. reflexivity. Qed.

(* _normalise applied to the result triple of _add_den *)
Definition norm3 (C : fconst) (buf : list Z) (t : Z * Z * bool) : res (list Z) :=
  let '(e, m, n) := t in mbf_normalise C buf e m n.

Lemma iadd_norm3 C a b : mbf_iadd C a b = norm3 C a (mbf_add_den C (mbf_denormalise C a) (mbf_denormalise C b)).
Proof.
  unfold mbf_iadd, norm3. destruct (mbf_add_den C (mbf_denormalise C a) (mbf_denormalise C b)) as [[e m] n].
  apply bind_ret.
Qed.

Lemma isub_norm3 C a b :
  mbf_isub C a b = norm3 C a (mbf_add_den C (mbf_denormalise C a)
                                (let '(e, m, n) := mbf_denormalise C b in (e, m, negb n))).
Proof.
  unfold mbf_isub, norm3. destruct (mbf_denormalise C b) as [[re rm] rn].
  destruct (mbf_add_den C (mbf_denormalise C a) (re, rm, negb rn)) as [[e m] n].
  apply bind_ret.
Qed.

(* ------------------------------------------------------------------------------------------------ *)
(* commutativity *)

(* the part of _add_den after the operands have been ordered (right is the larger one) *)
Definition add_core (C : fconst) (v_lexp v_lman : Z) (v_lneg : bool) (v_rexp v_rman : Z) (v_rneg : bool) : Z * Z * bool :=
  let v_zero_flag := (Z.eqb (Z.land v_lman (Z.sub (Z.shiftl 1 (Z.sub v_rexp v_lexp)) 1)) 0) in
  let v_sub_flag := (negb (Bool.eqb v_lneg v_rneg)) in
  let v_lman := (Z.shiftr v_lman (Z.sub v_rexp v_lexp)) in
  let v_lexp := v_rexp in
  if (andb (orb (Z.ltb v_lman 128) (andb (Z.eqb v_lman 128) v_zero_flag)) v_sub_flag) then (
  (v_rexp, v_rman, v_rneg)
  ) else (
  let '(v_man, v_neg, v_lexp) := if (negb v_sub_flag) then (
  let '(v_man, v_neg) := ((Z.add v_lman v_rman), v_lneg) in
  let '(v_lexp, v_man) := if (Z.geb v_man (c_den_upper C)) then (
  let v_lexp := (Z.add v_lexp 1) in
  let v_man := (Z.shiftr v_man 1) in
  (v_lexp, v_man)
  ) else (
  (v_lexp, v_man)
  ) in
  (v_man, v_neg, v_lexp)
  ) else (
  let '(v_man, v_neg) := ((Z.sub v_rman v_lman), v_rneg) in
  (v_man, v_neg, v_lexp)
  ) in
  let v_man := if (andb (negb v_zero_flag) (negb v_sub_flag)) then (
  let v_man := (Z.lor v_man 1) in
  v_man
  ) else (
  v_man
  ) in
  let v_man := if (andb v_sub_flag (andb (Z.eqb (Z.land v_man 448) 128) (negb (Z.eqb (Z.land v_man 479) 128)))) then (
  let v_man := (Z.land v_man (Z.add (c_carrymask C) 127)) in
  v_man
  ) else (
  v_man
  ) in
  (v_lexp, v_man, v_neg)
  ).

Lemma add_den_unfold C le lm ln re rm rn :
  mbf_add_den C (le, lm, ln) (re, rm, rn) =
    if re =? 0 then (le, lm, ln) else if le =? 0 then (re, rm, rn)
    else if (le >? re) || ((le =? re) && (lm >? rm)) then add_core C re rm rn le lm ln
    else add_core C le lm ln re rm rn.
Proof.
  unfold mbf_add_den. destruct (re =? 0); [reflexivity|]. destruct (le =? 0); [reflexivity|].
  destruct ((le >? re) || ((le =? re) && (lm >? rm))); reflexivity.
Qed.

(* equal magnitudes: the two orders differ at most in the sign of a zero mantissa *)
Lemma add_core_same C e m ln rn :
  256 <= m ->
  (exists man, add_core C e m ln e m rn = (e, man, rn) /\ add_core C e m rn e m ln = (e, man, ln) /\ (ln <> rn -> man = 0))
  \/ (ln = rn /\ add_core C e m ln e m rn = add_core C e m rn e m ln).
Proof.
  intros Hm. destruct (Bool.eqb ln rn) eqn:Eb.
  - right. apply eqb_prop in Eb. subst. split; reflexivity.
  - left. assert (Hne : ln <> rn) by (intro; subst; rewrite eqb_reflx in Eb; discriminate).
    assert (Eb' : Bool.eqb rn ln = false) by (destruct rn, ln; try reflexivity; discriminate).
    unfold add_core. rewrite Eb, Eb'. cbn [negb andb]. rewrite Z.sub_diag. cbn [Z.shiftl].
    change (Z.land m (1 - 1)) with (Z.land m 0). rewrite Z.land_0_r. cbn [Z.eqb].
    rewrite Z.shiftr_0_r. destruct (Z.ltb_spec m 128); [lia|]. destruct (Z.eqb_spec m 128); [lia|].
    cbn [orb andb]. rewrite Z.sub_diag. cbn. exists 0. repeat split; reflexivity.
Qed.

Lemma add_den_comm C a b : fmt_ok C -> buf_ok C a -> buf_ok C b ->
  let t1 := mbf_add_den C (mbf_denormalise C a) (mbf_denormalise C b) in
  let t2 := mbf_add_den C (mbf_denormalise C b) (mbf_denormalise C a) in
  t1 = t2 \/ (norm3 C a t1 = Ok (zeros (c_size C)) /\ norm3 C b t2 = Ok (zeros (c_size C))).
Proof.
  intros HC Ha Hb. cbv zeta. rewrite !denormalise_spec by assumption.
  rewrite !add_den_unfold.
  pose proof (f_man_bound C a HC) as Hma. pose proof (f_man_bound C b HC) as Hmb.
  pose proof (mbits_ge C HC) as Hg. assert (HP : 0 < 2 ^ (mbits C - 1)) by (apply pow2_pos; lia).
  set (ea := f_exp a). set (eb := f_exp b). set (ma := 256 * f_man C a). set (mb := 256 * f_man C b).
  destruct (Z.eqb_spec eb 0) as [Eb0|Eb0].
  - destruct (Z.eqb_spec ea 0) as [Ea0|Ea0].
    + right. unfold norm3. rewrite Ea0, Eb0. rewrite !normalise_exp0 by lia. split; reflexivity.
    + left. reflexivity.
  - destruct (Z.eqb_spec ea 0) as [Ea0|Ea0]; [left; reflexivity|].
    destruct (Z.gtb_spec ea eb) as [Hgt|Hle]; cbn [orb].
    + destruct (Z.gtb_spec eb ea); [lia|]. destruct (Z.eqb_spec eb ea); [lia|]. cbn [orb andb]. left. reflexivity.
    + destruct (Z.eqb_spec ea eb) as [Eeq|Ene]; cbn [andb].
      * destruct (Z.gtb_spec eb ea); [lia|]. destruct (Z.eqb_spec eb ea); [|lia]. cbn [orb andb].
        destruct (Z.gtb_spec ma mb) as [Hm1|Hm1].
        -- destruct (Z.gtb_spec mb ma); [lia|]. left. reflexivity.
        -- destruct (Z.gtb_spec mb ma) as [Hm2|Hm2]; [left; reflexivity|].
           assert (Em : ma = mb) by lia. rewrite <- Em, <- Eeq.
           destruct (add_core_same C ea ma (f_neg C a) (f_neg C b) ltac:(unfold ma; lia))
             as [(man & E1 & E2 & Hz)|(En & E1)].
           ++ rewrite E1, E2. unfold norm3.
              destruct (Bool.eqb (f_neg C a) (f_neg C b)) eqn:En.
              ** apply eqb_prop in En. rewrite En. left. reflexivity.
              ** right. rewrite Hz by (intro En'; rewrite En', eqb_reflx in En; discriminate).
                 rewrite !normalise_man0. split; reflexivity.
           ++ rewrite E1. left. reflexivity.
      * destruct (Z.gtb_spec eb ea); [|lia]. cbn [orb]. left. reflexivity.
Qed.

Theorem iadd_comm C a b : fmt_ok C -> buf_ok C a -> buf_ok C b -> mbf_iadd C a b = mbf_iadd C b a.
Proof.
  intros HC Ha Hb. rewrite !iadd_norm3.
  destruct (add_den_comm C a b HC Ha Hb) as [E|[E1 E2]].
  - cbv zeta in E. rewrite E.
    destruct (mbf_add_den C (mbf_denormalise C b) (mbf_denormalise C a)) as [[e m] n].
    apply normalise_buf_indep; [assumption | apply Ha | apply Hb].
  - rewrite E1, E2. reflexivity.
Qed.

(* ------------------------------------------------------------------------------------------------ *)
(* adding a zero: the other operand comes back (a zero encoding becomes the canonical zero) *)

Lemma normalise_self C buf a : fmt_ok C -> zlen buf = c_size C -> buf_ok C a ->
  mbf_normalise C buf (f_exp a) (256 * f_man C a) (f_neg C a) = Ok (if f_zero a then zeros (c_size C) else a).
Proof.
  intros HC Hlen Ha. pose proof (mbits_ge C HC) as Hg.
  pose proof (f_man_bound C a HC) as Hma. pose proof (f_exp_bound C a HC Ha) as Hea.
  set (P := 2 ^ (mbits C - 1)) in *. assert (HP : 0 < P) by (apply pow2_pos; lia).
  assert (H2P : 2 ^ mbits C = 2 * P) by (apply pow2_pred; lia). rewrite H2P in Hma.
  unfold f_zero. destruct (Z.eqb_spec (f_exp a) 0) as [E0|E0].
  - apply normalise_exp0. lia.
  - rewrite normalise_norm_spec; [| assumption | assumption | lia |].
    2:{ rewrite (ok_den_mask C HC), (ok_den_upper C HC).
        replace (mbits C + 7) with (8 + (mbits C - 1)) by lia. replace (mbits C + 8) with (9 + (mbits C - 1)) by lia.
        rewrite !pow2_split by lia. fold P. change (2 ^ 8) with 256. change (2 ^ 9) with 512. lia. }
    unfold norm_result. rewrite round_even8_exact, H2P.
    destruct (Z.eqb_spec (f_man C a) (2 * P)); [lia|]. destruct (Z.gtb_spec (f_exp a) 255); [lia|].
    f_equal. apply f_encode_self; assumption.
Qed.

Theorem iadd_zero C a z : fmt_ok C -> buf_ok C a -> buf_ok C z -> f_zero z = true ->
  mbf_iadd C a z = Ok (if f_zero a then zeros (c_size C) else a) /\
  mbf_iadd C z a = Ok (if f_zero a then zeros (c_size C) else a).
Proof.
  intros HC Ha Hz Hzz.
  assert (H1 : mbf_iadd C a z = Ok (if f_zero a then zeros (c_size C) else a)).
  { rewrite iadd_norm3, !denormalise_spec by assumption. rewrite add_den_unfold.
    unfold f_zero in Hzz. rewrite Hzz. unfold norm3. apply normalise_self; [assumption | apply Ha | assumption]. }
  split; [exact H1|]. rewrite <- H1. apply iadd_comm; assumption.
Qed.

Theorem isub_zero C a z : fmt_ok C -> buf_ok C a -> buf_ok C z -> f_zero z = true ->
  mbf_isub C a z = Ok (if f_zero a then zeros (c_size C) else a).
Proof.
  intros HC Ha Hz Hzz. rewrite isub_norm3, !denormalise_spec by assumption. rewrite add_den_unfold.
  unfold f_zero in Hzz. rewrite Hzz. unfold norm3. apply normalise_self; [assumption | apply Ha | assumption].
Qed.

(* ------------------------------------------------------------------------------------------------ *)
(* x - x = 0 *)

Theorem isub_self C a : fmt_ok C -> buf_ok C a -> mbf_isub C a a = Ok (zeros (c_size C)).
Proof.
  intros HC Ha. rewrite isub_norm3, !denormalise_spec by assumption. rewrite add_den_unfold.
  pose proof (f_man_bound C a HC) as Hma. pose proof (mbits_ge C HC) as Hg.
  assert (HP : 0 < 2 ^ (mbits C - 1)) by (apply pow2_pos; lia).
  destruct (Z.eqb_spec (f_exp a) 0) as [E0|E0].
  - unfold norm3. apply normalise_exp0. lia.
  - destruct (Z.gtb_spec (f_exp a) (f_exp a)); [lia|].
    destruct (Z.gtb_spec (256 * f_man C a) (256 * f_man C a)); [lia|]. rewrite andb_false_r. cbn [orb].
    destruct (add_core_same C (f_exp a) (256 * f_man C a) (f_neg C a) (negb (f_neg C a)) ltac:(lia))
      as [(man & E1 & E2 & Hz)|(En & E1)].
    + rewrite E1. unfold norm3. rewrite Hz by (destruct (f_neg C a); discriminate). apply normalise_man0.
    + destruct (f_neg C a); discriminate.
Qed.
