(* C31: what the page looks like after PSET / LINE / LINE B / LINE BF - exactly the specified cells carry the
   attribute and every other cell keeps its value.  (Positive counterpart of the funnel theorem.) *)
From Coq Require Import ZArith List Bool Lia ZifyBool.
From PCB Require Import lib.Result lib.PyInt lib.GfxPrims gen.Gen_viewport gen.Gen_raster
  model.Matrix model.Viewport model.Raster
  proofs.Matrix_proofs proofs.Viewport_proofs proofs.Raster_bridge proofs.Raster_proofs proofs.Raster_geom.
Import ListNotations.
Open Scope Z_scope.

(* ---------- one pixel *)

Lemma cell_dec : forall (a b : option Z), {a = b} + {a <> b}.
Proof. decide equality. apply Z.eq_dec. Qed.

Lemma upd_rows_nil : forall m k, upd_rows m k [] = m.
Proof. induction m as [|r m IH]; intros [|k]; cbn [upd_rows]; try reflexivity. rewrite IH. reflexivity. Qed.

Lemma mat_pixel_spec : forall m y x v h w,
  zlen m = h -> width_is w m -> 0 <= y < h -> 0 <= x < w ->
  exists m', mat_setitem m (IInt y) (IInt x) (Fill v) = Ok m'
    /\ cellZ m' y x = Some v
    /\ forall cy cx, (cy, cx) <> (y, x) -> cellZ m' cy cx = cellZ m cy cx.
Proof.
  intros m y x v h w Hh Hw Hy Hx.
  destruct (mat_setitem_pixel_ok m y x v h w Hh Hw Hy Hx) as [m' Hm]. exists m'. split; [exact Hm|].
  split.
  - rewrite cellZ_cell by lia. pose proof Hm as Hm2. cbn [mat_setitem] in Hm2. unfold py_index in Hm2.
    destruct (y <? 0) eqn:E1; [lia|]. destruct (y <? zlen m) eqn:E2; [|lia].
    destruct (nth_error m (Z.to_nat y)) as [r|] eqn:En.
    2:{ apply nth_error_None in En. unfold zlen in *. lia. }
    assert (Hr : zlen r = w) by (eapply width_nth_error; eauto).
    rewrite (nth_error_nth _ _ _ En) in Hm2. rewrite Hr in Hm2.
    destruct (x <? 0) eqn:E3; [lia|]. destruct (x <? w) eqn:E4; [|lia].
    assert (Em : m' = upd_rows m (Z.to_nat y) [fun r => set_nth r (Z.to_nat x) v]) by congruence.
    subst m'. unfold cell. rewrite nth_error_upd_rows, En. cbn [length].
    replace ((Z.to_nat y <=? Z.to_nat y)%nat && (Z.to_nat y <? Z.to_nat y + 1)%nat) with true by lia.
    replace (Z.to_nat y - Z.to_nat y)%nat with 0%nat by lia. cbn [nth].
    rewrite nth_error_set_nth, Nat.eqb_refl.
    destruct (Z.to_nat x <? length r)%nat eqn:E5; [reflexivity | unfold zlen in *; lia].
  - intros cy cx Hne. destruct (cell_dec (cellZ m' cy cx) (cellZ m cy cx)) as [E|E]; [exact E|].
    exfalso. destruct (cellZ_neg _ _ _ _ E) as [Hcy Hcx]. rewrite !cellZ_cell in E by assumption.
    destruct (mat_setitem_pixel m y x v m' _ _ (proj1 Hy) (proj1 Hx) Hm E) as [E1 E2].
    apply Hne. f_equal; lia.
Qed.

Lemma convert_coords_inj : forall vp x y x' y',
  vp_convert_coords vp x y = vp_convert_coords vp x' y' -> (x, y) = (x', y').
Proof.
  intros [ab vx0 vy0 vx1 vy1 mw mh] x y x' y' H. unfold_vp. cbn [vp_abs vp_x0 vp_y0] in H.
  destruct ab; injection H as H1 H2; f_equal; lia.
Qed.

(* a pixel request inside the viewport sets that cell and nothing else; outside it does nothing *)
Lemma vp_pixel_spec : forall vp m x y a,
  wf_vp vp -> same_dims vp m ->
  exists m', vp_setitem vp m (pix_req a (x, y)) = Ok m' /\ same_dims vp m'
    /\ (vp_contains vp x y = true -> vp_cell vp m' x y = Some a)
    /\ (vp_contains vp x y = false -> m' = m)
    /\ forall x' y', (x', y') <> (x, y) -> vp_cell vp m' x' y' = vp_cell vp m x' y'.
Proof.
  intros vp m x y a Hwf [Hh Hw]. unfold vp_setitem, pix_req. cbn [rq_y rq_x rq_data fst snd].
  destruct (convert_slice_pixel vp y x) as [[Hc Hcv] | [Hc [ay [ax [Hcv [Hin Hxy]]]]]]; rewrite Hcv.
  - cbn [mat_setitem]. unfold slice_bounds, norm_bound. cbn [Z.ltb Z.compare].
    rewrite Z.min_l by (unfold zlen; lia). cbn [Z.max Z.compare Z.to_nat Nat.sub repeat].
    rewrite upd_rows_nil. exists m. split; [reflexivity|]. split; [split; assumption|].
    split; [congruence|]. split; [reflexivity|]. reflexivity.
  - assert (Hay : 0 <= ay < vp_maxh vp) by (unfold wf_vp, in_rect in *; lia).
    assert (Hax : 0 <= ax < vp_maxw vp) by (unfold wf_vp, in_rect in *; lia).
    destruct (mat_pixel_spec m ay ax a _ _ Hh Hw Hay Hax) as [m' [Hm [Hset Hoth]]].
    exists m'. split; [exact Hm|].
    destruct (mat_setitem_pixel_shape m ay ax a m' _ Hm Hw) as [Hl Hw'].
    split; [split; [unfold zlen in *; lia | exact Hw']|].
    split; [intros _; unfold vp_cell; rewrite <- Hxy; exact Hset|].
    split; [congruence|].
    intros x' y' Hne. unfold vp_cell. destruct (vp_convert_coords vp x' y') as [ax' ay'] eqn:Ec.
    apply Hoth. intros E. injection E as E1 E2. subst ax' ay'. apply Hne.
    apply (convert_coords_inj vp). rewrite Ec. exact Hxy.
Qed.

(* a list of pixel requests: the cells of the listed pixels that lie inside the viewport get the attribute,
   all other cells keep their value *)
Theorem vp_run_pixels : forall vp a l m,
  wf_vp vp -> same_dims vp m ->
  exists m', vp_run vp m (map (pix_req a) l) = Ok m' /\ same_dims vp m'
    /\ forall x y,
         (In (x, y) l /\ vp_contains vp x y = true -> vp_cell vp m' x y = Some a)
         /\ (~ (In (x, y) l /\ vp_contains vp x y = true) -> vp_cell vp m' x y = vp_cell vp m x y).
Proof.
  intros vp a l. induction l as [|[px py] rest IH]; intros m Hwf Hd.
  - exists m. split; [reflexivity|]. split; [exact Hd|]. intros x y. split; [intros [[] _] | reflexivity].
  - destruct (vp_pixel_spec vp m px py a Hwf Hd) as [m1 [Hm1 [Hd1 [Hin1 [Hout1 Hoth1]]]]].
    destruct (IH m1 Hwf Hd1) as [m' [Hrun [Hd' Hspec]]].
    exists m'. split; [cbn [map vp_run]; rewrite Hm1; exact Hrun|]. split; [exact Hd'|].
    intros x y. destruct (Hspec x y) as [Hs1 Hs2].
    assert (Hdec : {In (x, y) rest /\ vp_contains vp x y = true} + {~ (In (x, y) rest /\ vp_contains vp x y = true)}).
    { destruct (in_dec (fun p q : Z * Z => ltac:(decide equality; apply Z.eq_dec)) (x, y) rest) as [I|I];
        destruct (vp_contains vp x y); try (left; split; [assumption | reflexivity]); right; intros [H1 H2];
        congruence. }
    assert (Hpdec : {(x, y) = (px, py)} + {(x, y) <> (px, py)}) by (decide equality; apply Z.eq_dec).
    split.
    + intros [Hin Hc]. destruct Hdec as [Hr|Hr]; [apply Hs1; exact Hr|].
      rewrite (Hs2 Hr). destruct Hin as [E|Hin]; [|exfalso; apply Hr; split; assumption].
      injection E as E1 E2. subst px py. apply Hin1. exact Hc.
    + intros Hn. destruct Hdec as [Hr|Hr]; [exfalso; apply Hn; split; [right; apply Hr | apply Hr]|].
      rewrite (Hs2 Hr). destruct Hpdec as [E|E].
      * injection E as E1 E2. subst px py.
        destruct (vp_contains vp x y) eqn:Ec; [exfalso; apply Hn; split; [left; reflexivity | reflexivity]|].
        rewrite (Hout1 eq_refl). reflexivity.
      * apply Hoth1. exact E.
Qed.

(* ---------- solid style: every pixel of the primitive is requested *)
Lemma land_mask : forall mask, 1 <= mask <= 32768 -> Z.land 65535 mask = mask.
Proof.
  intros mask H. rewrite Z.land_comm. change 65535 with (Z.ones 16). rewrite Z.land_ones by lia.
  apply Z.mod_small. change (2 ^ 16) with 65536. lia.
Qed.

Lemma next_mask_range : forall mask, 1 <= mask <= 32768 -> 1 <= next_mask mask <= 32768.
Proof.
  intros mask H. unfold next_mask. rewrite Z.shiftr_div_pow2 by lia. change (2 ^ 1) with 2.
  destruct (mask / 2 =? 0) eqn:E; [lia|].
  assert (0 <= mask / 2) by (apply Z.div_pos; lia).
  assert (mask / 2 <= 32768 / 2) by (apply Z.div_le_mono; lia). change (32768 / 2) with 16384 in *. lia.
Qed.

Lemma masked_solid : forall {A} (l : list A) mask, 1 <= mask <= 32768 ->
  fst (masked 65535 mask l) = l /\ 1 <= snd (masked 65535 mask l) <= 32768.
Proof.
  intros A l. induction l as [|p r IH]; intros mask H; [cbn; split; [reflexivity | exact H]|].
  cbn [masked]. destruct (IH (next_mask mask) (next_mask_range mask H)) as [H1 H2].
  destruct (masked 65535 (next_mask mask) r) as [k m']. cbn [fst snd] in *.
  rewrite land_mask by exact H. destruct (mask =? 0) eqn:E; [lia|]. cbn [negb]. subst k. split; [reflexivity | exact H2].
Qed.

(* ---------- the rectangle fill *)
Lemma nth_error_repeat' : forall {A} (a : A) n k, (k < n)%nat -> nth_error (repeat a n) k = Some a.
Proof. intros A a n. induction n; intros k Hk; [lia|]. destruct k; cbn; [reflexivity | apply IHn; lia]. Qed.

Lemma row_fill_inside : forall row lo hi v a b x,
  slice_bounds (zlen row) lo hi = (a, b) -> (a <= x < b)%nat -> nth_error (row_fill row lo hi v) x = Some v.
Proof.
  intros row lo hi v a b x Hs Hx. unfold row_fill. rewrite Hs.
  destruct (slice_bounds_le (zlen row) lo hi a b) as [Hab Hb]; [unfold zlen; lia | exact Hs |].
  unfold zlen in Hb. rewrite nth_error_replace; [| lia | lia | apply repeat_length].
  replace ((a <=? x)%nat && (x <? b)%nat) with true by lia. apply nth_error_repeat'. lia.
Qed.

Lemma mat_fill_inside : forall m y0 y1 x0 x1 v w cy cx,
  0 <= y0 -> 0 <= x0 -> 0 <= w -> width_is w m ->
  y0 <= cy < y1 -> cy < zlen m -> x0 <= cx < x1 -> cx < w ->
  exists m', mat_setitem m (ISlice (Some y0) (Some y1)) (ISlice (Some x0) (Some x1)) (Fill v) = Ok m'
             /\ cellZ m' cy cx = Some v.
Proof.
  intros m y0 y1 x0 x1 v w cy cx Hy0 Hx0 Hw0 Hw Hcy Hcyl Hcx Hcxl.
  cbn [mat_setitem]. assert (Hlen : 0 <= zlen m) by (unfold zlen; lia).
  rewrite (slice_bounds_nonneg (zlen m) y0 y1) by lia.
  eexists. split; [reflexivity|].
  rewrite cellZ_cell by lia. unfold cell. rewrite nth_error_upd_rows.
  destruct (nth_error m (Z.to_nat cy)) as [r|] eqn:En.
  2:{ apply nth_error_None in En. unfold zlen in *. lia. }
  rewrite repeat_length.
  replace ((Z.to_nat (Z.min y0 (zlen m)) <=? Z.to_nat cy)%nat &&
           (Z.to_nat cy <? Z.to_nat (Z.min y0 (zlen m)) +
              (Z.to_nat (Z.max (Z.min y0 (zlen m)) (Z.min y1 (zlen m))) - Z.to_nat (Z.min y0 (zlen m))))%nat)
    with true by lia.
  rewrite nth_repeat_in by lia.
  assert (Hr : zlen r = w) by (eapply width_nth_error; eauto).
  eapply row_fill_inside.
  - rewrite Hr. apply slice_bounds_nonneg; lia.
  - lia.
Qed.
