(* C11: the variable area never reaches the bottom of the string space: if every operation sees a string
   space bottom `limit` <= L (L = memory top, at most 64K), then after every history
   var_start <= scalars <= var_current <= arrays <= var_current + arrays.current < L,
   so every address VARPTR hands out lies below L *)
From Coq Require Import ZArith List Bool Lia.
From PCB Require Import lib.Result lib.PyInt lib.Harness lib.ArraysLib gen.Gen_arrays model.Arrays model.VarMem.
From PCB Require Import proofs.Arrays_index_proofs proofs.Arrays_list_proofs proofs.Arrays_proofs
  proofs.VarMem_proofs proofs.VarMem_peek_proofs proofs.VarMem_disjoint_proofs proofs.VarMem_history_proofs.
Import ListNotations.
Open Scope Z_scope.

Definition vend (st : vstate) : Z := var_current st + a_cur (v_arr st).

(* ---------- array table: `current` only grows while the Out of memory test lets it ---------- *)

Definition grow_le (st : astate) (free : Z) (st' : astate) : Prop :=
  a_cur st' <= Z.max (a_cur st) (free - 1).

Lemma grow_le_refl st free : grow_le st free st.
Proof. unfold grow_le. lia. Qed.

Lemma grow_le_trans st st1 st2 free : grow_le st free st1 -> grow_le st1 free st2 -> grow_le st free st2.
Proof. unfold grow_le. lia. Qed.

Lemma allocate_grow st free n dims : grow_le st free (fst (allocate st free n dims)).
Proof.
  destruct (allocate_result st free n dims); simpl; unfold grow_le; rewrite ?defaulted_cur; try lia.
  unfold push; simpl. rewrite base_of_defaulted, defaulted_cur. lia.
Qed.

Lemma dim_grow args : forall st free, grow_le st free (fst (dim_ st free args)).
Proof.
  induction args as [|[n dims] args IH]; intros st free; simpl; [apply grow_le_refl|].
  pose proof (allocate_grow st free n dims) as G.
  destruct (allocate st free n dims) as [st1 [[]| | |]]; simpl in *; try exact G.
  eapply grow_le_trans; [exact G | apply IH].
Qed.

Lemma check_dim_grow st free n idx : grow_le st free (fst (check_dim st free n idx)).
Proof.
  destruct (lookup (a_list st) n) as [a|] eqn:La.
  - rewrite (check_dim_declared _ _ _ _ _ La). apply grow_le_refl.
  - rewrite (check_dim_undeclared _ _ _ _ La).
    pose proof (allocate_grow st free n (repeat 10 (length idx))) as G.
    destruct (allocate st free n (repeat 10 (length idx))) as [st1 [[]| | |]]; simpl in *; try exact G.
    destruct (lookup (a_list st1) n); exact G.
Qed.

Lemma elem_set_grow st free n idx v : grow_le st free (fst (elem_set st free n idx v)).
Proof.
  rewrite elem_set_unfold. pose proof (check_dim_grow st free n idx) as G.
  destruct (check_dim st free n idx) as [st1 [dims| | |]]; simpl in *; try exact G.
  destruct (lookup (a_list st1) n) as [a|]; [|exact G].
  destruct (elem_range st1 n idx dims) as [[lo hi]| | |]; simpl; try exact G.
  destruct (negb _); exact G.
Qed.

Lemma erase_shrinks st names : AInv st -> a_cur (fst (erase_ st names)) <= a_cur st.
Proof.
  intros I. unfold erase_.
  assert (K : forall names st, AInv st -> a_cur (fst (erase_names st names)) <= a_cur st).
  { induction names0 as [|n names0 IH]; intros st0 I0; simpl; [lia|].
    destruct (lookup (a_list st0) n) as [a|] eqn:La.
    - destruct (erase_one_spec st0 n a I0 La) as (l1 & l2 & E1 & E2 & I'). rewrite E2. cbn [bindS].
      specialize (IH _ I'). unfold erased in IH at 2. simpl in IH.
      destruct (lookup_some _ _ _ La) as [Ha _].
      assert (Hok : arr_ok (base_of st0) a) by (eapply Forall_forall; [apply inv_arrs, I0 | exact Ha]).
      pose proof (msize_pos (base_of st0) a ltac:(apply Hok) ltac:(apply Hok)). lia.
    - unfold erase_one. rewrite La. simpl. lia. }
  specialize (K names st I). destruct (erase_names st names) as [st1 [[]| | |]]; simpl in *; try exact K.
  destruct (is_nil (a_list st1) && a_bydim st1); simpl; exact K.
Qed.

Lemma option_base_cur st b : a_cur (fst (option_base_ st b)) = a_cur st.
Proof. unfold option_base_. destruct (a_base st); [destruct (negb _)|]; reflexivity. Qed.

(* ---------- the variable area ---------- *)

(* st' keeps var_start, and stays below L if st was below L *)
Definition keeps (L : Z) (st st' : vstate) : Prop :=
  v_start st' = v_start st /\ (vend st < L -> vend st' < L).

Lemma keeps_refl L st : keeps L st st.
Proof. split; auto. Qed.

Lemma keeps_trans L st st1 st2 : keeps L st st1 -> keeps L st1 st2 -> keeps L st st2.
Proof. intros [A1 A2] [B1 B2]. split; [congruence | auto]. Qed.

Lemma keeps_with_arr L st limit a' : limit <= L -> grow_le (v_arr st) (afree st limit) a' ->
  keeps L st (with_arr st a').
Proof.
  intros Hl G. split; [reflexivity|]. unfold vend, grow_le, afree, var_current in *. simpl. lia.
Qed.

Lemma keeps_with_arr_le L st a' : a_cur a' <= a_cur (v_arr st) -> keeps L st (with_arr st a').
Proof. intros G. split; [reflexivity|]. unfold vend, var_current in *. simpl. lia. Qed.

Lemma scalar_set_keeps L st limit n v : limit <= L -> keeps L st (fst (scalar_set st limit n v)).
Proof.
  intros Hl. pose proof (scalar_set_cases st limit n v) as C.
  destruct (slookup (v_svars st) n) as [s|] eqn:E.
  - rewrite C. simpl. destruct v; apply keeps_refl || (split; [reflexivity | unfold vend, var_current; simpl; auto]).
  - destruct (Z.leb_spec (limit - var_current st - a_cur (v_arr st)) (scalars_memory_size n)) as [D|D];
      rewrite C; simpl; [apply keeps_refl|].
    split; [reflexivity|]. unfold vend, var_current, spush, new_svar, ssize in *. simpl. lia.
Qed.

Lemma let_scalar_keeps L st limit n v : limit <= L -> keeps L st (fst (let_scalar st limit n v)).
Proof.
  intros Hl. unfold let_scalar. pose proof (scalar_set_keeps L st limit n None Hl) as K1.
  destruct (scalar_set st limit n None) as [st1 [[]| | |]]; simpl in *; try exact K1.
  eapply keeps_trans; [exact K1 | apply scalar_set_keeps, Hl].
Qed.

Lemma lift_check_dim_keeps L st limit n idx : limit <= L ->
  keeps L st (fst (lift st (check_dim (v_arr st) (afree st limit) n idx))).
Proof. intros Hl. unfold lift. simpl. eapply keeps_with_arr; [exact Hl | apply check_dim_grow]. Qed.

Lemma let_elem_keeps L st limit n idx v : limit <= L -> keeps L st (fst (let_elem st limit n idx v)).
Proof.
  intros Hl. unfold let_elem. pose proof (lift_check_dim_keeps L st limit n idx Hl) as K1.
  destruct (lift st (check_dim (v_arr st) (afree st limit) n idx)) as [st1 [d| | |]]; simpl in *; try exact K1.
  eapply keeps_trans; [exact K1|]. eapply keeps_with_arr; [exact Hl | apply elem_set_grow].
Qed.

Lemma view_place_keeps L st limit n idx e : limit <= L -> keeps L st (fst (view_place st limit n idx e)).
Proof.
  intros Hl. unfold view_place. destruct idx as [|i0 idx'].
  - destruct (slookup (v_svars st) n); [apply keeps_refl|].
    pose proof (scalar_set_keeps L st limit n None Hl) as K1.
    destruct (scalar_set st limit n None) as [st1 [[]| | |]]; simpl in *; try exact K1.
    destruct e; exact K1.
  - pose proof (lift_check_dim_keeps L st limit n (i0 :: idx') Hl) as K1.
    destruct (lift st (check_dim (v_arr st) (afree st limit) n (i0 :: idx'))) as [st1 [d| | |]]; exact K1.
Qed.

Lemma write_place_keeps L st p b : keeps L st (write_place st p b).
Proof.
  destruct p as [m|m lo hi]; simpl.
  - split; [reflexivity | unfold vend, var_current; simpl; auto].
  - destruct (lookup (a_list (v_arr st)) m); [|apply keeps_refl].
    split; [reflexivity | unfold vend, var_current; simpl; auto].
Qed.

Lemma swap_keeps L st limit n1 i1 n2 i2 : limit <= L -> keeps L st (fst (swap_ st limit n1 i1 n2 i2)).
Proof.
  intros Hl. unfold swap_. destruct (negb _); [apply keeps_refl|].
  pose proof (view_place_keeps L st limit n1 i1 false Hl) as K1.
  destruct (view_place st limit n1 i1 false) as [st1 [left| | |]]; simpl in *; try exact K1.
  pose proof (view_place_keeps L st1 limit n2 i2 true Hl) as K2.
  destruct (view_place st1 limit n2 i2 true) as [st2 [right| | |]]; simpl in *;
    try exact (keeps_trans _ _ _ _ K1 K2).
  destruct (read_place st2 right) as [rb| | |]; simpl; try exact (keeps_trans _ _ _ _ K1 K2).
  destruct (read_place st2 left) as [lb| | |]; simpl; try exact (keeps_trans _ _ _ _ K1 K2).
  eapply keeps_trans; [exact K1|]. eapply keeps_trans; [exact K2|].
  eapply keeps_trans; apply write_place_keeps.
Qed.

Lemma varptr_keeps L st limit n idx : limit <= L -> keeps L st (fst (varptr_ st limit n idx)).
Proof.
  intros Hl. unfold varptr_. destruct idx as [|i0 idx']; [apply keeps_refl|].
  pose proof (lift_check_dim_keeps L st limit n (i0 :: idx') Hl) as K1.
  destruct (lift st (check_dim (v_arr st) (afree st limit) n (i0 :: idx'))) as [st1 [d| | |]]; exact K1.
Qed.

(* the string space bottom an operation is given *)
Definition vop_limit (o : vop) : option Z :=
  match o with
  | VLetS l _ _ | VLetE l _ _ _ | VDim l _ | VSwap l _ _ _ _ | VVarptr l _ _ | VVarptrS l _ _ => Some l
  | _ => None
  end.

Definition limit_ok (L : Z) (o : vop) : Prop :=
  match vop_limit o with Some l => l <= L | None => True end.

Lemma vstep_keeps L st o : VInv st -> v_start st < L -> limit_ok L o -> keeps L st (fst (vstep st o)).
Proof.
  intros V Hs Hl. destruct o; unfold limit_ok in Hl; simpl in *.
  - pose proof (let_scalar_keeps L st limit n v Hl) as K. destruct (let_scalar st limit n v); exact K.
  - pose proof (let_elem_keeps L st limit n idx v Hl) as K. destruct (let_elem st limit n idx v); exact K.
  - eapply keeps_with_arr; [exact Hl | apply dim_grow].
  - apply keeps_with_arr_le. apply erase_shrinks, V.
  - apply keeps_with_arr_le. rewrite option_base_cur. lia.
  - split; [reflexivity|]. intros _. unfold vend, var_current. simpl. lia.
  - pose proof (swap_keeps L st limit n1 i1 n2 i2 Hl) as K. destruct (swap_ st limit n1 i1 n2 i2); exact K.
  - pose proof (varptr_keeps L st limit n idx Hl) as K. destruct (varptr_ st limit n idx); exact K.
  - pose proof (varptr_keeps L st limit n idx Hl) as K. unfold varptr_str_.
    destruct (varptr_ st limit n idx) as [s [p| | |]]; exact K.
  - apply keeps_refl.
  - apply keeps_refl.
Qed.

Theorem bound_inv L ops : forall st, VInv st -> v_start st < L -> vend st < L ->
  Forall vop_ok ops -> Forall (limit_ok L) ops ->
  VInv (vfinal st ops) /\ v_start (vfinal st ops) = v_start st /\ vend (vfinal st ops) < L.
Proof.
  induction ops as [|o ops IH]; intros st V Hs He F1 F2; [auto|].
  inversion F1 as [|? ? O1 F1']; subst. inversion F2 as [|? ? O2 F2']; subst.
  destruct (vstep_keeps L st o V Hs O2) as [K1 K2].
  pose proof (vstep_inv st o V O1) as V'. simpl.
  destruct (IH (fst (vstep st o)) V' ltac:(lia) (K2 He) F1' F2') as (A & B & C).
  split; [exact A|]. split; [congruence | exact C].
Qed.

(* ---------- order of the areas ---------- *)

Theorem area_order st n idx p z : VInv st -> cell_at st n idx p z ->
  v_start st <= p /\ p + z <= vend st /\
  (idx = [] -> p + z <= var_current st) /\ (idx <> [] -> var_current st <= p).
Proof.
  intros V C. destruct (cells_inside st n idx p z V C) as (Hz & H1 & H2). fold (vend st) in H2.
  split; [exact H1|]. split; [exact H2|].
  destruct C as [n s Ls | n a idx p La Hin Hp].
  - split; [|intros C; contradiction C; reflexivity]. intros _.
    destruct (cell_scalar_range st n s V Ls) as (A1 & A2 & A3 & A4 & A5). lia.
  - split.
    + intros E. subst idx. exfalso.
      destruct (lookup_some _ _ _ La) as [Ha _]. pose proof (vi_arr st V) as A.
      pose proof (inv_arrs _ A) as F. rewrite Forall_forall in F. destruct (F a Ha) as (_ & Hd & _).
      inversion Hin as [E|]. congruence.
    + intros _. destruct (cell_elem_range st n a idx p V La Hin Hp) as (B1 & B2 & B3 & B4 & B5 & B6 & B7).
      pose proof (arrays_record_size_pos n (a_dims a)). nia.
Qed.

(* ---------- all together, for every history ---------- *)

Theorem address_bound L start ops : 0 <= start < L -> Forall vop_ok ops -> Forall (limit_ok L) ops ->
  let st := vfinal (v_init start) ops in
  VInv st /\ v_start st = start /\ vend st < L /\
  (forall n idx p z, cell_at st n idx p z ->
     start <= p /\ p + z < L /\ (idx = [] -> p + z <= var_current st) /\ (idx <> [] -> var_current st <= p)) /\
  (forall n1 i1 p1 z1 n2 i2 p2 z2, cell_at st n1 i1 p1 z1 -> cell_at st n2 i2 p2 z2 ->
     (n1, i1) <> (n2, i2) -> p1 + z1 <= p2 \/ p2 + z2 <= p1).
Proof.
  intros Hs F1 F2 st.
  destruct (bound_inv L ops (v_init start) (VInv_init start ltac:(lia)) ltac:(simpl; lia)
              ltac:(unfold vend, var_current; simpl; lia) F1 F2) as (V & E & B).
  fold st in V, E, B. simpl in E.
  split; [exact V|]. split; [exact E|]. split; [exact B|]. split.
  - intros n idx p z C. destruct (area_order st n idx p z V C) as (A1 & A2 & A3 & A4).
    rewrite E in A1. repeat split; auto; lia.
  - intros n1 i1 p1 z1 n2 i2 p2 z2 C1 C2 Hne. exact (cells_disjoint st _ _ _ _ _ _ _ _ V C1 C2 Hne).
Qed.
