(* C11: every byte of the variable area [var_start, var_current + arrays.current) is characterised:
   PEEK returns the byte that the record layout assigns to that address *)
From Coq Require Import ZArith List Bool Lia.
From PCB Require Import lib.Result lib.PyInt lib.Harness lib.ArraysLib gen.Gen_arrays model.Arrays model.VarMem.
From PCB Require Import proofs.Arrays_index_proofs proofs.Arrays_list_proofs proofs.Arrays_proofs
  proofs.VarMem_proofs proofs.VarMem_peek_proofs.
Import ListNotations.
Open Scope Z_scope.

(* ---------- the layout function ---------- *)

(* type size, first / second character, length byte, remaining characters: as PEEK shows them *)
Definition name_image (n : list Z) (len : Z) : list Z :=
  map (fun j => Z.max 0 (get_name_in_memory n j)) (zrange_from 0 (Z.to_nat len)).

(* scalar record: name part, then the value bytes *)
Definition scalar_image (s : svar) : list Z :=
  name_image (s_name s) (scalars_record_size (s_name s)) ++ s_buf s.

(* array record: name part, size word (bytes that follow it), rank byte, one word per dimension
   (number of elements in that dimension), then the element bytes *)
Definition array_image (b : Z) (a : arr) : list Z :=
  name_image (a_name a) (Z.max 3 (zlen (a_name a)) + 1) ++
  array_header b (radix_prod b (a_dims a) * size_bytes (a_name a)) a ++ a_buf a.

Definition area_image (st : vstate) : list Z :=
  flat_map scalar_image (v_svars st) ++ flat_map (array_image (base_of (v_arr st))) (a_list (v_arr st)).

(* ---------- lengths ---------- *)

Lemma zrange_from_length lo n : length (zrange_from lo n) = n.
Proof. revert lo; induction n; intros lo; simpl; auto. Qed.

Lemma nth_zrange_from : forall n lo i d, (i < n)%nat -> nth i (zrange_from lo n) d = lo + Z.of_nat i.
Proof.
  induction n as [|n IH]; intros lo i d H; [lia|]. destruct i as [|i]; simpl; [lia|].
  rewrite IH by lia. lia.
Qed.

Lemma name_image_length n len : length (name_image n len) = Z.to_nat len.
Proof. unfold name_image. rewrite map_length. apply zrange_from_length. Qed.

Lemma nth_name_image n len j : 0 <= j < len ->
  nth (Z.to_nat j) (name_image n len) 0 = Z.max 0 (get_name_in_memory n j).
Proof.
  intros H. unfold name_image. set (f := fun j => Z.max 0 (get_name_in_memory n j)).
  rewrite (nth_indep _ 0 (f 0)) by (rewrite map_length, zrange_from_length; lia).
  rewrite (map_nth f), nth_zrange_from by lia. unfold f. do 2 f_equal. lia.
Qed.

Lemma scalar_image_length s : svar_ok s -> length (scalar_image s) = Z.to_nat (ssize s).
Proof.
  intros (Hs & Hl & _ & _). unfold scalar_image. rewrite app_length, name_image_length, Hl, ssize_eq.
  pose proof (size_bytes_pos _ Hs). unfold scalars_record_size, zlen. lia.
Qed.

Lemma header_length b bs a : length (array_header b bs a) = (3 + 2 * length (a_dims a))%nat.
Proof.
  assert (H : forall l, length (flat_map (fun d => le_encode 2 (d + 1 - b)) l) = (2 * length l)%nat).
  { induction l as [|d l IH]; [reflexivity|]. cbn [flat_map]. rewrite app_length, le_encode_length, IH. simpl. lia. }
  unfold array_header. rewrite !app_length, le_encode_length, H. simpl. lia.
Qed.

Lemma header_nonneg b bs a : Forall (fun x => 0 <= x) (array_header b bs a).
Proof.
  assert (E : forall z, Forall (fun x => 0 <= x) (le_encode 2 z)).
  { intros z. pose proof (le_encode_bytes 2 z) as H. unfold bytes_ok in H.
    eapply Forall_impl; [|exact H]. unfold byte_ok. simpl. intros; lia. }
  unfold array_header. apply Forall_app. split; [apply E|].
  apply Forall_app. split; [constructor; [unfold zlen; lia | constructor]|].
  induction (a_dims a) as [|d l IH]; [constructor|]. cbn [flat_map]. apply Forall_app. split; [apply E | exact IH].
Qed.

Lemma array_image_length b a : arr_ok b a -> length (array_image b a) = Z.to_nat (msize b a).
Proof.
  intros (Hs & _ & Hd & Hl & _ & _). unfold array_image, msize.
  rewrite !app_length, name_image_length, header_length, Hl.
  pose proof (radix_prod_pos b _ Hd). pose proof (size_bytes_pos _ Hs).
  unfold arrays_record_size, zlen. lia.
Qed.

(* ---------- a contiguous layout covers its range: every address lies in exactly one record ---------- *)

Lemma flat_map_length_scalars l : Forall svar_ok l ->
  length (flat_map scalar_image l) = Z.to_nat (stotal l).
Proof.
  induction 1 as [|s l Hs F IH]; simpl; [reflexivity|].
  rewrite app_length, IH, scalar_image_length by assumption.
  pose proof (ssize_pos s Hs). pose proof (stotal_nonneg l F). lia.
Qed.

Lemma flat_map_length_arrays b l : Forall (arr_ok b) l ->
  length (flat_map (array_image b) l) = Z.to_nat (total b l).
Proof.
  induction 1 as [|a l Ha F IH]; simpl; [reflexivity|].
  rewrite app_length, IH, array_image_length by assumption.
  pose proof (msize_pos b a ltac:(apply Ha) ltac:(apply Ha)). pose proof (total_nonneg b l F). lia.
Qed.

Lemma scalars_cover : forall l p addr, Forall svar_ok l -> slaid p l -> p <= addr < p + stotal l ->
  exists l1 s l2, l = l1 ++ s :: l2 /\ s_nptr s = p + stotal l1 /\ s_nptr s <= addr < s_nptr s + ssize s.
Proof.
  induction l as [|s l IH]; intros p addr F L H; simpl in *; [lia|].
  inversion F as [|? ? Hs F']; subst. destruct L as [L1 L2].
  destruct (Z.lt_ge_cases addr (p + ssize s)) as [C|C].
  - exists [], s, l. simpl. repeat split; lia.
  - destruct (IH (p + ssize s) addr F' L2 ltac:(lia)) as (l1 & x & l2 & E & Hp & Hr).
    exists (s :: l1), x, l2. subst l. simpl. repeat split; lia.
Qed.

Lemma arrays_cover b : forall l p addr, Forall (arr_ok b) l -> laid_out b p l -> p <= addr < p + total b l ->
  exists l1 a l2, l = l1 ++ a :: l2 /\ a_nptr a = p + total b l1 /\ a_nptr a <= addr < a_nptr a + msize b a.
Proof.
  induction l as [|s l IH]; intros p addr F L H; simpl in *; [lia|].
  inversion F as [|? ? Hs F']; subst. destruct L as [L1 L2].
  destruct (Z.lt_ge_cases addr (p + msize b s)) as [C|C].
  - exists [], s, l. simpl. repeat split; lia.
  - destruct (IH (p + msize b s) addr F' L2 ltac:(lia)) as (l1 & x & l2 & E & Hp & Hr).
    exists (s :: l1), x, l2. subst l. simpl. repeat split; lia.
Qed.

(* byte j of record x inside the concatenated images *)
Lemma nth_flat_map_at {A} (f : A -> list Z) l1 x l2 rest j : (j < length (f x))%nat ->
  nth (length (flat_map f l1) + j) (flat_map f (l1 ++ x :: l2) ++ rest) 0 = nth j (f x) 0.
Proof.
  intros H. rewrite flat_map_app. simpl. rewrite <- !app_assoc.
  rewrite app_nth2 by lia. replace (length (flat_map f l1) + j - length (flat_map f l1))%nat with j by lia.
  apply app_nth1, H.
Qed.

(* ---------- PEEK inside one record ---------- *)

Lemma peek_scalar_image st limit s j : VInv st -> In s (v_svars st) -> 0 <= j < ssize s ->
  peek st limit (s_nptr s + j) = Some (Ok (nth (Z.to_nat j) (scalar_image s) 0)).
Proof.
  intros V Hin Hj. pose proof (vi_ok st V) as F. rewrite Forall_forall in F.
  destruct (F s Hin) as (Hs & Hl & Hb & Hp).
  pose proof (in_slookup _ s (vi_nodup st V) Hin) as Ls. rewrite ssize_eq in Hj.
  pose proof (ssize_pos s (F s Hin)) as [_ R]. unfold scalar_image.
  destruct (Z.lt_ge_cases j (scalars_record_size (s_name s))) as [C|C].
  - rewrite (peek_scalar_record st limit (s_name s) s j V Ls) by lia.
    rewrite app_nth1 by (rewrite name_image_length; lia). rewrite nth_name_image by lia. reflexivity.
  - replace (s_nptr s + j) with (s_vptr s + (j - scalars_record_size (s_name s))) by lia.
    rewrite (peek_scalar st limit (s_name s) s _ V Ls) by lia.
    rewrite app_nth2 by (rewrite name_image_length; lia). rewrite name_image_length. do 3 f_equal. lia.
Qed.

Lemma nth_error_nth_some (l : list Z) i : (i < length l)%nat -> nth_error l i = Some (nth i l 0).
Proof. intros H. apply nth_error_nth'. exact H. Qed.

Lemma peek_array_image st limit a j : VInv st -> In a (a_list (v_arr st)) ->
  0 <= j < msize (base_of (v_arr st)) a ->
  peek st limit (var_current st + a_nptr a + j) =
  Some (Ok (nth (Z.to_nat j) (array_image (base_of (v_arr st)) a) 0)).
Proof.
  intros V Ha Hj. pose proof (vi_arr st V) as A.
  pose proof (AInv_base_some _ a A Ha) as Hb. set (b := base_of (v_arr st)) in *.
  assert (Hok : arr_ok b a) by (eapply Forall_forall; [apply inv_arrs, A | exact Ha]).
  destruct Hok as (Hs & _ & Hdok & Hlen & Hby & Hap).
  destruct (array_in_area st a V Ha) as [A1 A2]. fold b in A2.
  pose proof (vi_start st V). pose proof (stotal_nonneg _ (vi_ok st V)) as T. rewrite <- (vi_cur st V) in T.
  pose proof (radix_prod_pos b _ Hdok) as RP. pose proof (size_bytes_pos _ Hs) as SP.
  set (bs := radix_prod b (a_dims a) * size_bytes (a_name a)) in *.
  remember (Z.max 3 (zlen (a_name a)) + 1) as nl eqn:Enl.
  assert (Hrec : arrays_record_size (a_name a) (a_dims a) = nl + 3 + 2 * zlen (a_dims a))
    by (unfold arrays_record_size; lia).
  assert (Hm : msize b a = nl + 3 + 2 * zlen (a_dims a) + bs) by (unfold msize; fold bs; lia).
  assert (Hnl : 4 <= nl) by (unfold zlen in Enl; lia).
  set (addr := var_current st + a_nptr a + j).
  unfold peek. fold addr.
  destruct (Z.ltb_spec addr (v_start st)); [unfold addr, var_current in *; lia|].
  destruct (Z.ltb_spec addr (var_current st)); [unfold addr in *; lia|].
  destruct (Z.ltb_spec addr (var_current st + a_cur (v_arr st))); [|unfold addr in *; lia].
  unfold arrays_get_memory. destruct (in_split_list a _ Ha) as (l1 & l2 & E).
  rewrite (afind_hit b _ (var_current st) addr a l1 l2 E (inv_arrs _ A) (inv_layout _ A))
    by (unfold addr; lia).
  rewrite (with_base_some _ _ _ Hb). fold b. rewrite arrays_buffer_size_spec by assumption. cbn [bind].
  fold bs. unfold array_image. fold bs. rewrite <- ?Enl.
  destruct (Z.geb_spec addr (var_current st + a_aptr a)) as [C|C].
  - (* element bytes *)
    replace (addr - a_aptr a - var_current st) with (j - (nl + 3 + 2 * zlen (a_dims a))) by (unfold addr; lia).
    assert (J : nl + 3 + 2 * zlen (a_dims a) <= j) by (unfold addr in C; lia).
    destruct (Z.geb_spec (j - (nl + 3 + 2 * zlen (a_dims a))) bs); [lia|].
    assert (Hlt : (Z.to_nat (j - (nl + 3 + 2 * zlen (a_dims a))) < length (a_buf a))%nat) by (rewrite Hlen; fold bs; lia).
    rewrite (nth_error_nth_some _ _ Hlt). cbn [bind].
    rewrite app_nth2 by (rewrite name_image_length; unfold zlen in *; lia). rewrite name_image_length.
    rewrite app_nth2 by (rewrite header_length; unfold zlen in *; lia). rewrite header_length.
    unfold bytes_ok in Hby. rewrite Forall_forall in Hby.
    pose proof (Hby _ (nth_In (a_buf a) 0 Hlt)) as B. unfold byte_ok in B.
    do 2 f_equal. rewrite Z.max_r by lia. f_equal. unfold zlen in *. lia.
  - assert (J : j < nl + 3 + 2 * zlen (a_dims a)) by (unfold addr in C; lia).
    replace (addr - a_nptr a - var_current st) with j by (unfold addr; lia).
    destruct (Z.ltb_spec j nl) as [D|D]; cbn [bind].
    + rewrite app_nth1 by (rewrite name_image_length; lia). rewrite nth_name_image by lia. reflexivity.
    + assert (Hlt : (Z.to_nat (j - nl) < length (array_header b bs a))%nat)
        by (rewrite header_length; unfold zlen in *; lia).
      rewrite (nth_error_nth_some _ _ Hlt). cbn [bind].
      rewrite app_nth2 by (rewrite name_image_length; lia). rewrite name_image_length.
      rewrite app_nth1 by (replace (Z.to_nat j - Z.to_nat nl)%nat with (Z.to_nat (j - nl)) by lia; exact Hlt).
      replace (Z.to_nat j - Z.to_nat nl)%nat with (Z.to_nat (j - nl)) by lia.
      pose proof (header_nonneg b bs a) as N. rewrite Forall_forall in N.
      pose proof (N _ (nth_In _ 0 Hlt)). do 2 f_equal. lia.
Qed.

(* ---------- the whole area ---------- *)

Theorem peek_area st limit i : VInv st -> 0 <= i < v_scur st + a_cur (v_arr st) ->
  peek st limit (v_start st + i) = Some (Ok (nth (Z.to_nat i) (area_image st) 0)).
Proof.
  intros V Hi. pose proof (vi_arr st V) as A. unfold area_image.
  pose proof (stotal_nonneg _ (vi_ok st V)) as T. pose proof (vi_cur st V) as VC.
  destruct (Z.lt_ge_cases i (v_scur st)) as [C|C].
  - (* scalar part *)
    destruct (scalars_cover _ (v_start st) (v_start st + i) (vi_ok st V) (vi_laid st V)
                ltac:(rewrite <- (vi_cur st V); lia)) as (l1 & s & l2 & E & Hp & Hr).
    assert (Hin : In s (v_svars st)) by (rewrite E; apply in_app_iff; right; left; reflexivity).
    pose proof (vi_ok st V) as F. rewrite E in F. apply Forall_app in F as [F1 F2]. inversion F2 as [|? ? Hs F2']; subst.
    replace (v_start st + i) with (s_nptr s + (v_start st + i - s_nptr s)) by lia.
    rewrite (peek_scalar_image st limit s _ V Hin) by lia.
    rewrite E. pose proof (stotal_nonneg _ F1).
    replace (Z.to_nat i) with (length (flat_map scalar_image l1) + Z.to_nat (v_start st + i - s_nptr s))%nat
      by (rewrite flat_map_length_scalars by assumption; lia).
    rewrite nth_flat_map_at by (rewrite scalar_image_length by assumption; lia). reflexivity.
  - (* array part *)
    pose proof (inv_cur _ A) as HC. set (b := base_of (v_arr st)) in *.
    destruct (arrays_cover b _ 0 (i - v_scur st) (inv_arrs _ A) (inv_layout _ A)
                ltac:(lia)) as (l1 & a & l2 & E & Hp & Hr).
    assert (Hin : In a (a_list (v_arr st))) by (rewrite E; apply in_app_iff; right; left; reflexivity).
    pose proof (inv_arrs _ A) as F. fold b in F. rewrite E in F. apply Forall_app in F as [F1 F2].
    inversion F2 as [|? ? Ha F2']; subst.
    replace (v_start st + i) with (var_current st + a_nptr a + (i - v_scur st - a_nptr a))
      by (unfold var_current; lia).
    rewrite (peek_array_image st limit a _ V Hin) by (fold b; lia). fold b.
    rewrite app_nth2 by (rewrite flat_map_length_scalars by apply V; rewrite <- (vi_cur st V); lia).
    rewrite flat_map_length_scalars by apply V. rewrite <- (vi_cur st V).
    rewrite E. pose proof (total_nonneg b _ F1).
    replace (Z.to_nat i - Z.to_nat (v_scur st))%nat with
      (length (flat_map (array_image b) l1) + Z.to_nat (i - v_scur st - a_nptr a))%nat
      by (rewrite flat_map_length_arrays by assumption; lia).
    rewrite <- (app_nil_r (flat_map (array_image b) (l1 ++ a :: l2))).
    rewrite nth_flat_map_at by (rewrite array_image_length by assumption; lia). reflexivity.
Qed.

Lemma area_image_length st : VInv st ->
  length (area_image st) = Z.to_nat (v_scur st + a_cur (v_arr st)).
Proof.
  intros V. pose proof (vi_arr st V) as A. unfold area_image.
  rewrite app_length, flat_map_length_scalars, flat_map_length_arrays by (apply V || apply A).
  rewrite <- (vi_cur st V), <- (inv_cur _ A).
  pose proof (stotal_nonneg _ (vi_ok st V)). pose proof (total_nonneg _ _ (inv_arrs _ A)).
  rewrite (vi_cur st V), (inv_cur _ A). lia.
Qed.
