(* C30 at statement level: every request issued by PSET / LINE / LINE B / LINE BF / VIEW / PUT (and every list of
   single-pixel requests, as CIRCLE issues) satisfies the hypothesis of the funnel theorem; hence executing a
   statement changes only cells of the active page inside the viewport in force; text mode: Illegal function
   call and no write; the state invariant is preserved (so the statements hold along any history). *)
From Coq Require Import ZArith List Bool Lia ZifyBool.
From PCB Require Import lib.Result lib.PyInt lib.GfxPrims gen.Gen_viewport gen.Gen_raster
  model.Matrix model.Viewport model.Raster proofs.Matrix_proofs proofs.Viewport_proofs proofs.Raster_safe.
Import ListNotations.
Open Scope Z_scope.

(* ---------- request safety of the primitives, for ALL integer arguments *)

Lemma pix_reqs_pixel : forall a l, Forall pixel_req (map (pix_req a) l).
Proof.
  intros a l. apply Forall_forall. intros rq Hin. apply in_map_iff in Hin.
  destruct Hin as [[x y] [E _]]. subst rq. exists y, x, a. reflexivity.
Qed.

Lemma pixel_reqs_ok : forall vp l, wf_vp vp -> Forall pixel_req l -> Forall (req_ok vp) l.
Proof. intros vp l Hwf H. eapply Forall_impl; [|exact H]. intros rq Hr. apply pixel_req_ok; assumption. Qed.

(* ---------- PUT *)

Definition rect_sprite (s : matrix) : Prop := Forall (fun r => zlen r = sprite_width s) s.

Lemma sublist_length : forall {A} (l : list A) a b, (a <= b)%nat -> (b <= length l)%nat ->
  length (sublist l a b) = (b - a)%nat.
Proof. intros A l a b H1 H2. unfold sublist. rewrite firstn_length, skipn_length. lia. Qed.

Lemma mat_zip_width : forall f (a b : matrix) w,
  Forall (fun r => zlen r = w) a -> Forall (fun r => zlen r = w) b -> Forall (fun r => zlen r = w) (mat_zip f a b).
Proof.
  intros f a. induction a as [|ra a IH]; intros b w Ha Hb; [constructor|].
  destruct b as [|rb b]; [constructor|].
  unfold mat_zip in *. cbn [combine map].
  pose proof (Forall_inv Ha) as Hra. pose proof (Forall_inv Hb) as Hrb. cbv beta in Hra, Hrb.
  constructor.
  - unfold zlen in *. rewrite map_length, combine_length. lia.
  - apply IH; [exact (Forall_inv_tail Ha) | exact (Forall_inv_tail Hb)].
Qed.

Lemma getslice_width : forall vp page y0 y1 x0 x1,
  wf_vp vp -> width_is (vp_maxw vp) page ->
  vp_contains vp x0 y0 = true -> vp_contains vp x1 y1 = true -> x0 <= x1 + 1 ->
  Forall (fun r => zlen r = x1 - x0 + 1) (vp_getslice vp page y0 (y1 + 1) x0 (x1 + 1)).
Proof.
  intros [ab vx0 vy0 vx1 vy1 mw mh] page y0 y1 x0 x1 Hwf Hw Ha Hb Hx. unfold wf_vp in Hwf.
  unfold vp_getslice. unfold_vp. cbn [vp_abs vp_x0 vp_y0 vp_x1 vp_y1 vp_maxw vp_maxh] in *.
  cbn [is_slice negb andb slice_start slice_stop opt_default].
  assert (Hgen : forall X0 X1 ylo yhi, 0 <= X0 -> X0 <= X1 -> X1 <= mw -> X1 - X0 = x1 - x0 + 1 ->
            Forall (fun r => zlen r = x1 - x0 + 1) (mat_getslice page ylo yhi (Some X0) (Some X1))).
  { intros X0 X1 ylo yhi H0 H01 H1 Hd. unfold mat_getslice.
    destruct (slice_bounds (zlen page) ylo yhi) as [ra rb].
    apply Forall_forall. intros r Hin. apply in_map_iff in Hin. destruct Hin as [r0 [Er Hr0]].
    assert (Hr0w : zlen r0 = mw).
    { unfold width_is in Hw. rewrite Forall_forall in Hw. apply Hw. unfold sublist in Hr0.
      apply firstn_In' in Hr0. clear - Hr0. revert ra Hr0. induction page as [|p pg IHp]; intros ra Hr0.
      - rewrite skipn_nil in Hr0. destruct Hr0.
      - destruct ra; [exact Hr0 | right; eapply IHp; exact Hr0]. }
    rewrite Hr0w in Er. rewrite slice_bounds_nonneg in Er by lia. subst r.
    unfold zlen in *. rewrite sublist_length by lia. lia. }
  destruct ab; apply Hgen; lia.
Qed.

Lemma put_reqs_ok : forall vp bpp page x y sprite op rqs,
  wf_vp vp -> width_is (vp_maxw vp) page -> rect_sprite sprite ->
  put_reqs vp bpp page x y sprite op = Ok rqs -> Forall (req_ok vp) rqs.
Proof.
  intros vp bpp page x y sprite op rqs Hwf Hw Hs H. unfold put_reqs in H.
  destruct (vp_contains vp x y) eqn:Ea; cbn [negb] in H; [|discriminate].
  destruct (vp_contains vp (x + sprite_width sprite - 1) (y + zlen sprite - 1)) eqn:Eb; cbn [negb] in H; [|discriminate].
  assert (Hsw : 0 <= sprite_width sprite) by (unfold sprite_width, zlen; destruct sprite; lia).
  assert (Hsh : 0 <= zlen sprite) by (unfold zlen; lia).
  set (w := sprite_width sprite) in *.
  assert (Hsp : Forall (fun r => zlen r = (x + w - 1) - x + 1) sprite).
  { eapply Forall_impl; [|exact Hs]. intros r Hr. cbv beta in *. lia. }
  assert (Hcur : Forall (fun r => zlen r = (x + w - 1) - x + 1)
                   (vp_getslice vp page y (y + zlen sprite - 1 + 1) x (x + w - 1 + 1))).
  { apply getslice_width; try assumption. lia. }
  assert (Hrq : forall rect, Forall (fun r => zlen r = (x + w - 1) - x + 1) rect ->
            req_ok vp (WReq (ISlice (Some y) (Some (y + zlen sprite - 1 + 1)))
                            (ISlice (Some x) (Some (x + w - 1 + 1))) (Block rect))).
  { intros rect Hr. apply inside_req_ok; try assumption; lia. }
  injection H as H. subst rqs. constructor; [|constructor]. apply Hrq.
  destruct (op =? 0); [exact Hsp|].
  destruct (op =? 1).
  { apply Forall_forall. intros r Hin. apply in_map_iff in Hin. destruct Hin as [r0 [Er Hr0]]. subst r.
    rewrite Forall_forall in Hsp. specialize (Hsp r0 Hr0). unfold zlen in *. rewrite map_length. exact Hsp. }
  destruct (op =? 2); [apply mat_zip_width; assumption|].
  destruct (op =? 3); apply mat_zip_width; assumption.
Qed.

(* ---------- statements *)

(* every statement kind is unconditional (PSET, LINE, B, BF, VIEW with its regenerated range checks, PUT, the
   pixel lists of CIRCLE / DRAW) except the generic replay of an arbitrary request list (used for tiled PAINT),
   which must consist of safe requests *)
Definition stmt_ok (st : gstate) (s : stmt) : Prop :=
  match s with
  | SReqs _ rqs _ => Forall (req_ok (g_vp st)) rqs
  | _ => True
  end.

Lemma rectify_rect : forall s, rect_sprite (rectify s).
Proof.
  intros s. unfold rect_sprite, rectify. destruct s as [|r0 t]; [constructor|].
  set (w := Z.to_nat (sprite_width (r0 :: t))).
  assert (Hw : w = length r0) by (subst w; unfold sprite_width, zlen; lia).
  assert (Hrow : forall r, length (firstn w (r ++ repeat 0 w)) = w).
  { intros r. rewrite firstn_length, app_length, repeat_length. lia. }
  assert (Hsw : sprite_width (map (fun r => firstn w (r ++ repeat 0 w)) (r0 :: t)) = Z.of_nat w).
  { cbn [map sprite_width]. unfold zlen. rewrite Hrow. reflexivity. }
  rewrite Hsw. apply Forall_forall. intros r Hin. apply in_map_iff in Hin. destruct Hin as [r' [E _]]. subst r.
  unfold zlen. rewrite Hrow. reflexivity.
Qed.

Lemma rectify_id : forall s, rect_sprite s -> rectify s = s.
Proof.
  intros s Hs. unfold rectify. rewrite <- (map_id s) at 2. apply map_ext_in. intros r Hr.
  unfold rect_sprite in Hs. rewrite Forall_forall in Hs. specialize (Hs r Hr).
  rewrite firstn_app. replace (Z.to_nat (sprite_width s) - length r)%nat with 0%nat by (unfold zlen in Hs; lia).
  cbn [firstn]. rewrite app_nil_r. apply firstn_all2. unfold zlen in Hs. lia.
Qed.

Lemma view_checks_ok : forall w h x0 y0 x1 y1,
  raster_view_checks w h x0 y0 x1 y1 = Ok tt ->
  0 <= x0 < w /\ 0 <= x1 < w /\ 0 <= y0 < h /\ 0 <= y1 < h.
Proof.
  intros w h x0 y0 x1 y1 H. unfold raster_view_checks in H.
  repeat match type of H with (if ?c then _ else _) = _ => destruct c eqn:?; try discriminate end. lia.
Qed.

Lemma view_attr_checks_res : forall f b,
  raster_view_attr_checks f b = Ok tt \/ raster_view_attr_checks f b = Err 5.
Proof.
  intros. unfold raster_view_attr_checks.
  repeat match goal with |- context [if ?c then _ else _] => destruct c end; auto.
Qed.

Lemma view_checks_res : forall w h x0 y0 x1 y1,
  raster_view_checks w h x0 y0 x1 y1 = Ok tt \/ raster_view_checks w h x0 y0 x1 y1 = Err 5.
Proof.
  intros. unfold raster_view_checks.
  repeat match goal with |- context [if ?c then _ else _] => destruct c end; auto.
Qed.

Definition good_state (st : gstate) : Prop :=
  wf_vp (g_vp st) /\ (g_apage st < length (g_pages st))%nat /\ Forall (same_dims (g_vp st)) (g_pages st).

(* the viewport in force while the statement draws: VIEW draws its fill and border with the viewport unset *)
Definition draw_vp (st : gstate) (s : stmt) : viewport :=
  match s with
  | SView _ _ _ _ _ _ _ => vp_unset (g_vp st)
  | _ => g_vp st
  end.

Lemma stmt_reqs_ok : forall st s vpd rqs vpa,
  good_state st -> stmt_ok st s -> stmt_reqs st s = Ok (vpd, rqs, vpa) ->
  vpd = draw_vp st s /\ wf_vp vpd /\ Forall (req_ok vpd) rqs /\ wf_vp vpa
  /\ vp_maxw vpa = vp_maxw (g_vp st) /\ vp_maxh vpa = vp_maxh (g_vp st)
  /\ vp_maxw vpd = vp_maxw (g_vp st) /\ vp_maxh vpd = vp_maxh (g_vp st).
Proof.
  intros st s vpd rqs vpa [Hwf [Hap Hdims]] Hok H.
  assert (Hmw : 0 < vp_maxw (g_vp st) /\ 0 < vp_maxh (g_vp st)) by (unfold wf_vp in Hwf; lia).
  (* the common shape: same viewport before, while and after *)
  assert (Hsame : forall r, Forall (req_ok (g_vp st)) r ->
            g_vp st = g_vp st /\ wf_vp (g_vp st) /\ Forall (req_ok (g_vp st)) r /\ wf_vp (g_vp st)
            /\ vp_maxw (g_vp st) = vp_maxw (g_vp st) /\ vp_maxh (g_vp st) = vp_maxh (g_vp st)
            /\ vp_maxw (g_vp st) = vp_maxw (g_vp st) /\ vp_maxh (g_vp st) = vp_maxh (g_vp st)).
  { intros r Hr. split; [reflexivity|]. split; [exact Hwf|]. split; [exact Hr|]. split; [exact Hwf|].
    split; [reflexivity|]. split; [reflexivity|]. split; reflexivity. }
  destruct s as [x y a | x0 y0 x1 y1 a p | x0 y0 x1 y1 a p | x0 y0 x1 y1 a | x0 y0 x1 y1 ab fill border
                 | x y sprite op | g pts e | g rq e]; cbn [stmt_reqs draw_vp] in *.
  - injection H as E1 E2 E3. subst. apply Hsame.
    apply pixel_reqs_ok; [exact Hwf | apply gen_pset_safe].
  - destruct (gen_line_safe (g_vp st) x0 y0 x1 y1 a p) as [l [El Fl]]. rewrite El in H.
    cbn [bind] in H. injection H as E1 E2 E3. subst.
    apply Hsame. apply pixel_reqs_ok; assumption.
  - destruct (gen_box_safe (g_vp st) x0 y0 x1 y1 a p) as [l [El Fl]]. rewrite El in H.
    cbn [bind] in H. injection H as E1 E2 E3. subst.
    apply Hsame. apply pixel_reqs_ok; assumption.
  - injection H as E1 E2 E3. subst. apply Hsame. apply gen_boxfill_safe; exact Hwf.
  - assert (Hu : wf_vp (vp_unset (g_vp st))) by (apply vp_unset_wf; lia).
    destruct (raster_view_checks (vp_maxw (g_vp st)) (vp_maxh (g_vp st)) x0 y0 x1 y1) as [[]| | |] eqn:Echk;
      cbn [bind] in H; try discriminate.
    pose proof (view_checks_ok _ _ _ _ _ _ Echk) as Hrange.
    destruct (raster_view_attr_checks (option_map fst fill) (option_map fst border)) as [[]| | |] eqn:Eachk;
      cbn [bind] in H; try discriminate.
    assert (Hset : wf_vp (vp_set (g_vp st) x0 y0 x1 y1 ab)) by (apply vp_set_wf; lia).
    assert (Hfill : Forall (req_ok (vp_unset (g_vp st)))
                      match fill with Some (_, f) => gen_boxfill (vp_unset (g_vp st)) x0 y0 x1 y1 f | None => [] end).
    { destruct fill as [[fr f]|]; [apply gen_boxfill_safe; exact Hu | constructor]. }
    destruct border as [[br b]|].
    + destruct (gen_box_safe (vp_unset (g_vp st)) (x0 - 1) (y0 - 1) (x1 + 1) (y1 + 1) b 65535) as [l [El Fl]].
      rewrite El in H. cbn [bind] in H. injection H as E1 E2 E3. subst.
      split; [reflexivity|]. split; [exact Hu|].
      split; [apply Forall_app; split; [exact Hfill | apply pixel_reqs_ok; assumption]|].
      split; [exact Hset|]. split; [reflexivity|]. split; [reflexivity|]. split; reflexivity.
    + cbn [bind] in H. injection H as E1 E2 E3. subst.
      split; [reflexivity|]. split; [exact Hu|].
      split; [rewrite app_nil_r; exact Hfill|].
      split; [exact Hset|]. split; [reflexivity|]. split; [reflexivity|]. split; reflexivity.
  - destruct (put_reqs (g_vp st) (g_bpp st) (the_page st) x y (rectify sprite) op) as [r| | |] eqn:Ep; cbn [bind] in H;
      try discriminate.
    injection H as E1 E2 E3. subst. apply Hsame.
    eapply put_reqs_ok; [exact Hwf | | apply rectify_rect | exact Ep].
    unfold the_page. rewrite Forall_forall in Hdims.
    destruct (nth_in_or_default (g_apage st) (g_pages st) []) as [Hin | Hd].
    + apply (Hdims _ Hin).
    + rewrite Hd. constructor.
  - injection H as E1 E2 E3. subst. apply Hsame. apply pixel_reqs_ok; [exact Hwf|].
    apply Forall_forall. intros rq Hin. apply in_map_iff in Hin. destruct Hin as [[[py px] pa] [E _]].
    subst rq. exists py, px, pa. reflexivity.
  - injection H as E1 E2 E3. subst. apply Hsame. exact Hok.
Qed.

Lemma nth_error_set_page : forall pages n m p,
  nth_error (set_page pages n m) p = if (p =? n)%nat then (if (n <? length pages)%nat then Some m else None)
                                     else nth_error pages p.
Proof.
  induction pages as [|q pages IH]; intros n m p.
  - cbn. destruct (p =? n)%nat; destruct p; reflexivity.
  - destruct n as [|n']; destruct p as [|p']; cbn [set_page nth_error length Nat.eqb]; try reflexivity.
    rewrite IH. destruct (p' =? n')%nat; [|reflexivity].
    destruct (n' <? length pages)%nat eqn:E1; destruct (S n' <? S (length pages))%nat eqn:E2; try reflexivity; lia.
Qed.

(* pages other than the active page are never touched - no hypothesis at all *)
Theorem exec_other_pages : forall st s r st' p,
  exec st s = (r, st') -> p <> g_apage st -> nth_error (g_pages st') p = nth_error (g_pages st) p.
Proof.
  intros st s r st' p H Hp. unfold exec in H.
  destruct (stmt_guard s (g_text st)); try (injection H as _ E; subst st'; reflexivity).
  destruct (stmt_reqs st s) as [[[vpd rqs] vpa]| | |]; try (injection H as _ E; subst st'; reflexivity).
  destruct (vp_run vpd (the_page st) rqs); try (injection H as _ E; subst st'; reflexivity).
  injection H as _ E. subst st'. cbn [g_pages]. rewrite nth_error_set_page.
  destruct (p =? g_apage st)%nat eqn:E; [lia | reflexivity].
Qed.

(* text mode: Illegal function call, nothing written, for every statement (the guards are regenerated) *)
Theorem exec_text_mode : forall st s, g_text st = true -> exec st s = (Err 5, st).
Proof.
  intros st s Ht. unfold exec. rewrite Ht.
  destruct s as [x y a | x0 y0 x1 y1 a p | x0 y0 x1 y1 a p | x0 y0 x1 y1 a | x0 y0 x1 y1 ab fill border
                 | x y sprite op | g pts e | g rq e]; cbn [stmt_guard]; try reflexivity;
    (destruct (g =? 0); [reflexivity|]; destruct (g =? 1); reflexivity).
Qed.

Lemma guard_graphics : forall s, stmt_guard s false = Ok tt.
Proof.
  intros s. destruct s as [x y a | x0 y0 x1 y1 a p | x0 y0 x1 y1 a p | x0 y0 x1 y1 a | x0 y0 x1 y1 ab fill border
                 | x y sprite op | g pts e | g rq e]; cbn [stmt_guard]; try reflexivity;
    (destruct (g =? 0); [reflexivity|]; destruct (g =? 1); reflexivity).
Qed.

Lemma same_dims_eqdims : forall vp vp' m,
  vp_maxw vp' = vp_maxw vp -> vp_maxh vp' = vp_maxh vp -> same_dims vp m -> same_dims vp' m.
Proof. intros vp vp' m Hw Hh [H1 H2]. unfold same_dims. rewrite Hw, Hh. split; assumption. Qed.

(* graphics mode: the statement never raises a host exception, changes only cells of the active page inside the
   viewport in force while it draws, and leaves a good state *)
Theorem exec_in_viewport : forall st s,
  good_state st -> g_text st = false -> stmt_ok st s ->
  exists r st', exec st s = (r, st')
    /\ (r = Ok tt \/ exists e, r = Err e)
    /\ changed_in_rect (draw_vp st s) (the_page st) (the_page st')
    /\ good_state st' /\ g_apage st' = g_apage st /\ g_text st' = g_text st.
Proof.
  intros st s Hgood Ht Hok. pose proof Hgood as [Hwf [Hap Hdims]].
  unfold exec. rewrite Ht, guard_graphics.
  assert (Hnochange : forall vp, changed_in_rect vp (the_page st) (the_page st)).
  { intros vp y x Hc. congruence. }
  destruct (stmt_reqs st s) as [[[vpd rqs] vpa]|e|hx|] eqn:Er.
  - destruct (stmt_reqs_ok st s vpd rqs vpa Hgood Hok Er) as [Ed [Hwd [Hrq [Hwa [Hmw [Hmh [Hdw Hdh]]]]]]].
    assert (Hpage : same_dims vpd (the_page st)).
    { apply (same_dims_eqdims (g_vp st)); try assumption.
      rewrite Forall_forall in Hdims. apply Hdims. unfold the_page. apply nth_In. exact Hap. }
    destruct (funnel_run vpd rqs (the_page st) Hwd Hpage Hrq) as [m' [Hrun [Hd' Hch]]].
    rewrite Hrun.
    eexists _, _. split; [reflexivity|].
    split; [destruct (stmt_err s =? 0); [left; reflexivity | right; eauto]|].
    assert (Hpg : forall t, the_page (GS t (g_bpp st) (set_page (g_pages st) (g_apage st) m') (g_apage st) vpa) = m').
    { intros t. unfold the_page. cbn [g_pages g_apage]. apply nth_error_nth.
      rewrite nth_error_set_page, Nat.eqb_refl.
      destruct (g_apage st <? length (g_pages st))%nat eqn:E; [reflexivity | lia]. }
    split; [rewrite Hpg, <- Ed; exact Hch|].
    split; [|split; [reflexivity | cbn [g_text]; congruence]].
    unfold good_state. cbn [g_vp g_apage g_pages].
    split; [exact Hwa|]. split.
    + clear - Hap. revert Hap. generalize (g_apage st) as n. generalize (g_pages st) as l.
      induction l as [|q l IH]; intros n Hn; [cbn in Hn; lia|].
      destruct n; cbn [set_page length] in *; [lia|]. specialize (IH n). lia.
    + apply Forall_forall. intros q Hq. apply In_nth_error in Hq. destruct Hq as [k Hk].
      rewrite nth_error_set_page in Hk. destruct (k =? g_apage st)%nat.
      * destruct (g_apage st <? length (g_pages st))%nat; [|discriminate]. injection Hk as Hk. subst q.
        apply (same_dims_eqdims vpd); [congruence | congruence | exact Hd'].
      * apply (same_dims_eqdims (g_vp st)); try assumption.
        rewrite Forall_forall in Hdims. apply Hdims. eapply nth_error_In; eauto.
  - eexists _, _. split; [reflexivity|]. split; [right; eauto|]. split; [apply Hnochange|].
    split; [exact Hgood | split; [reflexivity | congruence]].
  - (* Host: impossible *)
    exfalso. destruct s as [x y a | x0 y0 x1 y1 a p | x0 y0 x1 y1 a p | x0 y0 x1 y1 a | x0 y0 x1 y1 ab fill border
                 | x y sprite op | g pts e | g rq e]; cbn [stmt_reqs] in Er; try discriminate.
    + destruct (gen_line_safe (g_vp st) x0 y0 x1 y1 a p) as [l [El _]]. rewrite El in Er. discriminate.
    + destruct (gen_box_safe (g_vp st) x0 y0 x1 y1 a p) as [l [El _]]. rewrite El in Er. discriminate.
    + destruct (view_checks_res (vp_maxw (g_vp st)) (vp_maxh (g_vp st)) x0 y0 x1 y1) as [Ec|Ec]; rewrite Ec in Er;
        cbn [bind] in Er; [|discriminate].
      destruct (view_attr_checks_res (option_map fst fill) (option_map fst border)) as [Ea|Ea]; rewrite Ea in Er;
        cbn [bind] in Er; [|discriminate].
      destruct border as [[br b]|]; [|discriminate].
      destruct (gen_box_safe (vp_unset (g_vp st)) (x0 - 1) (y0 - 1) (x1 + 1) (y1 + 1) b 65535) as [l [El _]].
      rewrite El in Er. discriminate.
    + unfold put_reqs in Er. destruct (negb _); [discriminate|]. destruct (negb _); discriminate.
  - exfalso. destruct s as [x y a | x0 y0 x1 y1 a p | x0 y0 x1 y1 a p | x0 y0 x1 y1 a | x0 y0 x1 y1 ab fill border
                 | x y sprite op | g pts e | g rq e]; cbn [stmt_reqs] in Er; try discriminate.
    + destruct (gen_line_safe (g_vp st) x0 y0 x1 y1 a p) as [l [El _]]. rewrite El in Er. discriminate.
    + destruct (gen_box_safe (g_vp st) x0 y0 x1 y1 a p) as [l [El _]]. rewrite El in Er. discriminate.
    + destruct (view_checks_res (vp_maxw (g_vp st)) (vp_maxh (g_vp st)) x0 y0 x1 y1) as [Ec|Ec]; rewrite Ec in Er;
        cbn [bind] in Er; [|discriminate].
      destruct (view_attr_checks_res (option_map fst fill) (option_map fst border)) as [Ea|Ea]; rewrite Ea in Er;
        cbn [bind] in Er; [|discriminate].
      destruct border as [[br b]|]; [|discriminate].
      destruct (gen_box_safe (vp_unset (g_vp st)) (x0 - 1) (y0 - 1) (x1 + 1) (y1 + 1) b 65535) as [l [El _]].
      rewrite El in Er. discriminate.
    + unfold put_reqs in Er. destruct (negb _); [discriminate|]. destruct (negb _); discriminate.
Qed.

(* the changed cells are also inside the screen: the rectangle of a well-formed viewport is *)
Lemma rect_in_screen : forall vp x y, wf_vp vp -> in_rect vp x y -> 0 <= x < vp_maxw vp /\ 0 <= y < vp_maxh vp.
Proof. intros vp x y Hwf Hin. unfold wf_vp, in_rect in *. lia. Qed.

(* ---------- a history of statements *)
Fixpoint exec_all (st : gstate) (l : list stmt) : gstate :=
  match l with
  | [] => st
  | s :: rest => exec_all (snd (exec st s)) rest
  end.

Inductive stmts_ok : gstate -> list stmt -> Prop :=
| stmts_nil : forall st, stmts_ok st []
| stmts_cons : forall st s rest, stmt_ok st s -> stmts_ok (snd (exec st s)) rest -> stmts_ok st (s :: rest).

Theorem history_other_pages : forall l st p,
  p <> g_apage st -> good_state st -> g_text st = false -> stmts_ok st l ->
  nth_error (g_pages (exec_all st l)) p = nth_error (g_pages st) p.
Proof.
  induction l as [|s rest IH]; intros st p Hp Hgood Ht Hok; [reflexivity|].
  inversion Hok as [|? ? ? Hs Hrest]; subst.
  destruct (exec_in_viewport st s Hgood Ht Hs) as [r [st' [He [_ [_ [Hg' [Hap Htx]]]]]]].
  cbn [exec_all]. rewrite He in *. cbn [snd] in *.
  rewrite IH; try assumption; try congruence.
  eapply exec_other_pages; eauto.
Qed.
