(* C14 (behaviour preservation, abstract half): what is proved about renaming *)
From Coq Require Import ZArith List Bool Lia Sorting.Sorted.
From PCB Require Import lib.Result lib.PyInt gen.Gen_program gen.Gen_flow model.Program model.ProgramSpec
  model.Renum model.RenumSpec model.Flow model.RenumFlow proofs.Program_proofs proofs.Renum_proofs.
Import ListNotations.
Open Scope Z_scope.

(* ------------------------------------------------------------------ lookups of the Flow machine commute *)
Lemma flow_lines_rename f l : flow_lines (rename_lines f l) = map f (flow_lines l).
Proof.
  induction l as [|s r IH]; [reflexivity|]. unfold rename_lines in *. cbn [map].
  destruct s; cbn [rename_stmt flow_lines map]; try exact IH; try reflexivity.
  - f_equal. exact IH.
  - destruct n; exact IH.
  - destruct j; exact IH.
  - destruct j; exact IH.
  - destruct r0; exact IH.
Qed.

(* GOTO/GOSUB/...: the renamed target is found at the same position *)
Lemma find_line_rename f n l : forall base,
  (forall m, In m (flow_lines l) -> f m = f n -> m = n) ->
  find_line_from (rename_lines f l) base (f n) = find_line_from l base n.
Proof.
  induction l as [|s r IH]; intros base H; [reflexivity|]. unfold rename_lines in *. cbn [map].
  destruct s; cbn [rename_stmt find_line_from]; try (apply IH; intros m Hm; apply H; cbn [flow_lines]; exact Hm); try reflexivity.
  - (* SLine *)
    destruct (n0 =? n) eqn:E.
    + apply Z.eqb_eq in E. subst. rewrite Z.eqb_refl. reflexivity.
    + destruct (f n0 =? f n) eqn:E2.
      * apply Z.eqb_eq in E2. apply H in E2; [apply Z.eqb_neq in E; contradiction | left; reflexivity].
      * apply IH. intros m Hm. apply H. right. exact Hm.
  - destruct n0; cbn [find_line_from]; apply IH; intros m Hm; apply H; exact Hm.
  - destruct j; cbn [find_line_from]; apply IH; intros m Hm; apply H; exact Hm.
  - destruct j; cbn [find_line_from]; apply IH; intros m Hm; apply H; exact Hm.
  - destruct r0; cbn [find_line_from]; apply IH; intros m Hm; apply H; exact Hm.
Qed.

(* ERL / "in line": the line of a position is renamed *)
Definition g65535 (f : Z -> Z) (z : Z) : Z := if z =? 65535 then 65535 else f z.
Lemma line_of_rename f l : forall i cur,
  (forall m, In m (flow_lines l) -> m <> 65535) ->
  line_of_from (rename_lines f l) i (g65535 f cur) = g65535 f (line_of_from l i cur).
Proof.
  induction l as [|s r IH]; intros i cur H; [reflexivity|]. unfold rename_lines in *. cbn [map].
  assert (Hn : forall n, s = SLine n -> g65535 f n = f n).
  { intros n ->. unfold g65535. destruct (n =? 65535) eqn:E; [|reflexivity]. apply Z.eqb_eq in E.
    exfalso. apply (H n); [left; reflexivity | exact E]. }
  assert (Hr : s <> SEndProg -> forall m, In m (flow_lines r) -> m <> 65535).
  { intros Hs m Hm. apply H. destruct s; cbn [flow_lines]; try exact Hm; [right; exact Hm | congruence]. }
  destruct s; cbn [rename_stmt line_of_from]; try reflexivity;
    try (destruct i; [reflexivity | apply IH; apply Hr; discriminate]).
  - rewrite <- (Hn n eq_refl). destruct i; [reflexivity | apply IH; apply Hr; discriminate].
  - destruct n; cbn [line_of_from]; (destruct i; [reflexivity | apply IH; apply Hr; discriminate]).
  - destruct j; cbn [line_of_from]; (destruct i; [reflexivity | apply IH; apply Hr; discriminate]).
  - destruct j; cbn [line_of_from]; (destruct i; [reflexivity | apply IH; apply Hr; discriminate]).
  - destruct r0; cbn [line_of_from]; (destruct i; [reflexivity | apply IH; apply Hr; discriminate]).
Qed.

(* the statement structure (what the block scanners look at) is unchanged *)
Lemma eol_rename f l : forall base, eol_from (rename_lines f l) base = eol_from l base.
Proof.
  induction l as [|s r IH]; intros base; [reflexivity|]. unfold rename_lines in *. cbn [map].
  destruct s; cbn [rename_stmt eol_from]; try apply IH; try reflexivity.
  - destruct n; cbn [eol_from]; apply IH.
  - destruct j; cbn [eol_from]; apply IH.
  - destruct j; cbn [eol_from]; apply IH.
  - destruct r0; cbn [eol_from]; apply IH.
Qed.
Lemma length_rename f l : length (rename_lines f l) = length l.
Proof. apply map_length. Qed.

(* ------------------------------------------------------------------ RENUM's map is an increasing renaming *)
Lemma map_lookup_combine (ks vs : list Z) : NoDup ks -> length vs = length ks ->
  map (fun k => match lookup k (combine ks vs) with Some n => n | None => k end) ks = vs.
Proof.
  revert vs; induction ks as [|k r IH]; intros [|v vs] Hnd Hl; try discriminate; [reflexivity|].
  inversion Hnd as [|? ? Hk Hr]; subst. cbn [map combine lookup]. rewrite Z.eqb_refl. f_equal.
  transitivity (map (fun k0 => match lookup k0 (combine r vs) with Some n => n | None => k0 end) r);
    [|apply IH; [exact Hr | cbn in Hl; lia]].
  apply map_ext_in. intros a Ha.
  destruct (a =? k) eqn:E; [apply Z.eqb_eq in E; subst; contradiction | reflexivity].
Qed.

Lemma nums_renum_lines_map c s ls new start step :
  StronglySorted Z.lt (nums ls) -> Forall (fun l : line => wf_body (snd l) = true) ls ->
  nums (fst (renum_lines c s ls new start step))
  = map (new_number (o2n_of (rn_part start ls) new step)) (nums ls).
Proof.
  intros Hs Hb. destruct (renum_lines_shape c s ls new start step Hs Hb) as [H _]. rewrite H.
  replace (nums ls) with (nums (keep_part start ls) ++ nums (rn_part start ls))
    by (rewrite (split2 ls start Hs) at 3; unfold nums; rewrite map_app; reflexivity).
  rewrite map_app.
  f_equal.
  - rewrite <- (map_id (nums (keep_part start ls))) at 1. apply map_ext_in. intros k Hk. symmetry. apply new_number_other.
    intros Hin. unfold nums in Hk. apply in_map_iff in Hk as [l [E Hl]]. apply in_keep in Hl as [_ Hl].
    unfold rn_part in Hin. rewrite (nums_filter (fun k => start <=? k)) in Hin. apply filter_In in Hin as [_ Hin]. lia.
  - unfold new_number, o2n_of. symmetry. apply map_lookup_combine.
    + apply sorted_NoDup. unfold rn_part. apply sorted_filter. exact Hs.
    + rewrite length_seqz. unfold nums. rewrite map_length. reflexivity.
Qed.

Lemma sorted_map_mono (f : Z -> Z) l : StronglySorted Z.lt l -> StronglySorted Z.lt (map f l) ->
  forall a b, In a l -> In b l -> a < b -> f a < f b.
Proof.
  induction l as [|x r IH]; intros Hs Hm a b Ha Hb Hlt; [contradiction|].
  inversion Hs as [|? ? Hs' Hall]; subst. cbn [map] in Hm. inversion Hm as [|? ? Hm' Hall']; subst.
  rewrite Forall_forall in Hall, Hall'.
  destruct Ha as [<-|Ha]; destruct Hb as [<-|Hb].
  - lia.
  - apply Hall'. apply in_map. exact Hb.
  - specialize (Hall a Ha). lia.
  - apply IH; assumption.
Qed.

(* accepted RENUM: the new numbers are an order-preserving (hence injective) renaming of the program's lines *)
Theorem new_number_increasing c s ls tail new start step :
  cfg_ok c -> abs_ok c s ls tail -> tail_ok tail -> Forall (fun l : line => fst l < 65535) ls ->
  0 <= new -> 0 <= start <= 65535 -> accepted ls new start step ->
  forall a b, In a (nums ls) -> In b (nums ls) -> a < b ->
  new_number (o2n_of (rn_part start ls) new step) a < new_number (o2n_of (rn_part start ls) new step) b.
Proof.
  intros Hc Ha Ht Hl Hn Hs Hacc.
  destruct (renum_cmd_ok c s ls tail (Build_traps None []) new start step Hc Ha Ht Hl Hn Hs Hacc)
    as [r [_ [_ [Habs _]]]].
  pose proof (a_sorted _ _ _ _ Habs) as Hsorted.
  rewrite (nums_renum_lines_map c s ls new start step (a_sorted _ _ _ _ Ha) (a_bodies _ _ _ _ Ha)) in Hsorted.
  apply sorted_map_mono; [exact (a_sorted _ _ _ _ Ha) | exact Hsorted].
Qed.

(* ------------------------------------------------------------------ token level = renaming of the references *)
Lemma rw_items_rename o2n its : refs_nonzero its -> forall bef,
  rw_items o2n its bef = map (rename_item (new_number o2n)) its.
Proof.
  induction its as [|it r IH]; intros Hnz bef; [reflexivity|].
  cbn [rw_items map]. rewrite IH by (intros j Hj; apply Hnz; right; exact Hj). f_equal.
  destruct it as [s closed|s|c p|j|c]; try reflexivity.
  cbn [rename_item]. f_equal. unfold new_jump, new_number.
  assert (j <> 0) by (apply Hnz; left; reflexivity).
  unfold exempt. destruct (j =? 0) eqn:E; [lia | reflexivity].
Qed.
