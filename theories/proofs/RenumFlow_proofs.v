(* C14 (behaviour preservation, abstract half): what is proved about renaming *)
From Coq Require Import ZArith List Bool Lia Sorting.Sorted.
From PCB Require Import lib.Result lib.PyInt gen.Gen_program gen.Gen_flow model.Program model.ProgramSpec
  model.Renum model.RenumSpec model.Flow model.RenumFlow proofs.Program_proofs proofs.Renum_proofs.
Import ListNotations.
Open Scope Z_scope.

(* ------------------------------------------------------------------ lookups of the Flow machine commute *)
Lemma flow_lines_rename f l : flow_lines (rename_lines f l) = map f (flow_lines l).
Proof.
  induction l as [|s r IH]; [reflexivity|]. unfold rename_lines in *. cbn [map].
  destruct s; cbn [rename_stmt flow_lines map]; try exact IH; try reflexivity.
  - f_equal. exact IH.
  - destruct n; exact IH.
  - destruct j; exact IH.
  - destruct j; exact IH.
  - destruct r0; exact IH.
Qed.

(* GOTO/GOSUB/...: the renamed target is found at the same position *)
Lemma find_line_rename f n l : forall base,
  (forall m, In m (flow_lines l) -> f m = f n -> m = n) ->
  find_line_from (rename_lines f l) base (f n) = find_line_from l base n.
Proof.
  induction l as [|s r IH]; intros base H; [reflexivity|]. unfold rename_lines in *. cbn [map].
  destruct s; cbn [rename_stmt find_line_from]; try (apply IH; intros m Hm; apply H; cbn [flow_lines]; exact Hm); try reflexivity.
  - (* SLine *)
    destruct (n0 =? n) eqn:E.
    + apply Z.eqb_eq in E. subst. rewrite Z.eqb_refl. reflexivity.
    + destruct (f n0 =? f n) eqn:E2.
      * apply Z.eqb_eq in E2. apply H in E2; [apply Z.eqb_neq in E; contradiction | left; reflexivity].
      * apply IH. intros m Hm. apply H. right. exact Hm.
  - destruct n0; cbn [find_line_from]; apply IH; intros m Hm; apply H; exact Hm.
  - destruct j; cbn [find_line_from]; apply IH; intros m Hm; apply H; exact Hm.
  - destruct j; cbn [find_line_from]; apply IH; intros m Hm; apply H; exact Hm.
  - destruct r0; cbn [find_line_from]; apply IH; intros m Hm; apply H; exact Hm.
Qed.

(* ERL / "in line": the line of a position is renamed *)
Definition g65535 (f : Z -> Z) (z : Z) : Z := if z =? 65535 then 65535 else f z.
Lemma line_of_rename f l : forall i cur,
  (forall m, In m (flow_lines l) -> m <> 65535) ->
  line_of_from (rename_lines f l) i (g65535 f cur) = g65535 f (line_of_from l i cur).
Proof.
  induction l as [|s r IH]; intros i cur H; [reflexivity|]. unfold rename_lines in *. cbn [map].
  assert (Hn : forall n, s = SLine n -> g65535 f n = f n).
  { intros n ->. unfold g65535. destruct (n =? 65535) eqn:E; [|reflexivity]. apply Z.eqb_eq in E.
    exfalso. apply (H n); [left; reflexivity | exact E]. }
  assert (Hr : s <> SEndProg -> forall m, In m (flow_lines r) -> m <> 65535).
  { intros Hs m Hm. apply H. destruct s; cbn [flow_lines]; try exact Hm; [right; exact Hm | congruence]. }
  destruct s; cbn [rename_stmt line_of_from]; try reflexivity;
    try (destruct i; [reflexivity | apply IH; apply Hr; discriminate]).
  - rewrite <- (Hn n eq_refl). destruct i; [reflexivity | apply IH; apply Hr; discriminate].
  - destruct n; cbn [line_of_from]; (destruct i; [reflexivity | apply IH; apply Hr; discriminate]).
  - destruct j; cbn [line_of_from]; (destruct i; [reflexivity | apply IH; apply Hr; discriminate]).
  - destruct j; cbn [line_of_from]; (destruct i; [reflexivity | apply IH; apply Hr; discriminate]).
  - destruct r0; cbn [line_of_from]; (destruct i; [reflexivity | apply IH; apply Hr; discriminate]).
Qed.

(* the statement structure (what the block scanners look at) is unchanged *)
Lemma eol_rename f l : forall base, eol_from (rename_lines f l) base = eol_from l base.
Proof.
  induction l as [|s r IH]; intros base; [reflexivity|]. unfold rename_lines in *. cbn [map].
  destruct s; cbn [rename_stmt eol_from]; try apply IH; try reflexivity.
  - destruct n; cbn [eol_from]; apply IH.
  - destruct j; cbn [eol_from]; apply IH.
  - destruct j; cbn [eol_from]; apply IH.
  - destruct r0; cbn [eol_from]; apply IH.
Qed.
Lemma length_rename f l : length (rename_lines f l) = length l.
Proof. apply map_length. Qed.

(* ------------------------------------------------------------------ RENUM's map is an increasing renaming *)
Lemma map_lookup_combine (ks vs : list Z) : NoDup ks -> length vs = length ks ->
  map (fun k => match lookup k (combine ks vs) with Some n => n | None => k end) ks = vs.
Proof.
  revert vs; induction ks as [|k r IH]; intros [|v vs] Hnd Hl; try discriminate; [reflexivity|].
  inversion Hnd as [|? ? Hk Hr]; subst. cbn [map combine lookup]. rewrite Z.eqb_refl. f_equal.
  transitivity (map (fun k0 => match lookup k0 (combine r vs) with Some n => n | None => k0 end) r);
    [|apply IH; [exact Hr | cbn in Hl; lia]].
  apply map_ext_in. intros a Ha.
  destruct (a =? k) eqn:E; [apply Z.eqb_eq in E; subst; contradiction | reflexivity].
Qed.

Lemma nums_renum_lines_map c s ls new start step :
  StronglySorted Z.lt (nums ls) -> Forall (fun l : line => wf_body (snd l) = true) ls ->
  nums (fst (renum_lines c s ls new start step))
  = map (new_number (o2n_of (rn_part start ls) new step)) (nums ls).
Proof.
  intros Hs Hb. destruct (renum_lines_shape c s ls new start step Hs Hb) as [H _]. rewrite H.
  replace (nums ls) with (nums (keep_part start ls) ++ nums (rn_part start ls))
    by (rewrite (split2 ls start Hs) at 3; unfold nums; rewrite map_app; reflexivity).
  rewrite map_app.
  f_equal.
  - rewrite <- (map_id (nums (keep_part start ls))) at 1. apply map_ext_in. intros k Hk. symmetry. apply new_number_other.
    intros Hin. unfold nums in Hk. apply in_map_iff in Hk as [l [E Hl]]. apply in_keep in Hl as [_ Hl].
    unfold rn_part in Hin. rewrite (nums_filter (fun k => start <=? k)) in Hin. apply filter_In in Hin as [_ Hin]. lia.
  - unfold new_number, o2n_of. symmetry. apply map_lookup_combine.
    + apply sorted_NoDup. unfold rn_part. apply sorted_filter. exact Hs.
    + rewrite length_seqz. unfold nums. rewrite map_length. reflexivity.
Qed.

Lemma sorted_map_mono (f : Z -> Z) l : StronglySorted Z.lt l -> StronglySorted Z.lt (map f l) ->
  forall a b, In a l -> In b l -> a < b -> f a < f b.
Proof.
  induction l as [|x r IH]; intros Hs Hm a b Ha Hb Hlt; [contradiction|].
  inversion Hs as [|? ? Hs' Hall]; subst. cbn [map] in Hm. inversion Hm as [|? ? Hm' Hall']; subst.
  rewrite Forall_forall in Hall, Hall'.
  destruct Ha as [<-|Ha]; destruct Hb as [<-|Hb].
  - lia.
  - apply Hall'. apply in_map. exact Hb.
  - specialize (Hall a Ha). lia.
  - apply IH; assumption.
Qed.

(* accepted RENUM: the new numbers are an order-preserving (hence injective) renaming of the program's lines *)
Theorem new_number_increasing c s ls tail new start step :
  cfg_ok c -> abs_ok c s ls tail -> tail_ok tail -> Forall (fun l : line => fst l < 65535) ls ->
  0 <= new -> 0 <= start <= 65535 -> accepted ls new start step ->
  forall a b, In a (nums ls) -> In b (nums ls) -> a < b ->
  new_number (o2n_of (rn_part start ls) new step) a < new_number (o2n_of (rn_part start ls) new step) b.
Proof.
  intros Hc Ha Ht Hl Hn Hs Hacc.
  destruct (renum_cmd_ok c s ls tail (Build_traps None []) new start step Hc Ha Ht Hl Hn Hs Hacc)
    as [r [_ [_ [Habs _]]]].
  pose proof (a_sorted _ _ _ _ Habs) as Hsorted.
  rewrite (nums_renum_lines_map c s ls new start step (a_sorted _ _ _ _ Ha) (a_bodies _ _ _ _ Ha)) in Hsorted.
  apply sorted_map_mono; [exact (a_sorted _ _ _ _ Ha) | exact Hsorted].
Qed.

(* ------------------------------------------------------------------ token level = renaming of the references *)
Lemma rw_items_rename o2n its : refs_nonzero its -> forall bef,
  rw_items o2n its bef = map (rename_item (new_number o2n)) its.
Proof.
  induction its as [|it r IH]; intros Hnz bef; [reflexivity|].
  cbn [rw_items map]. rewrite IH by (intros j Hj; apply Hnz; right; exact Hj). f_equal.
  destruct it as [s closed|s|c p|j|c]; try reflexivity.
  cbn [rename_item]. f_equal. unfold new_jump, new_number.
  assert (j <> 0) by (apply Hnz; left; reflexivity).
  unfold exempt. destruct (j =? 0) eqn:E; [lia | reflexivity].
Qed.

(* ------------------------------------------------------------------ simulation for the jump fragment *)
(* statements whose effect involves line numbers only through jumps: headers, PRINT, LET, GOTO, GOSUB, RETURN [n],
   IF..THEN [n] (with its ELSE search), :ELSE [n], ON..GOTO/GOSUB, END *)
Definition frag (s : stmt) : bool :=
  match s with
  | SLine _ | SEndProg | SPrint _ | SLet _ _ | SGoto _ | SGosub _ | SReturn _ | SIf _ _ | SElse _ | SOn _ _ _ | SEnd => true
  | _ => false
  end.
Definition ren_out (f : Z -> Z) (o : outcome) : outcome :=
  match o with Stopped c l => Stopped c (g65535 f l) | _ => o end.
(* no error handler installed, none running *)
Definition quiet (d : dstate) : Prop := onerr d = 0 /\ resume_at d = None.

Lemma skipn_map' {A B} (g : A -> B) n l : skipn n (map g l) = map g (skipn n l).
Proof. revert l; induction n as [|n IH]; intros [|x l]; cbn; auto. Qed.
Lemma nth_error_map' {A B} (g : A -> B) l n : nth_error (map g l) n = option_map g (nth_error l n).
Proof. revert l; induction n as [|n IH]; intros [|x l]; cbn; auto. Qed.
Lemma In_skipn {A} (x : A) n l : In x (skipn n l) -> In x l.
Proof. revert l; induction n as [|n IH]; intros [|y l] H; cbn in *; auto. Qed.

Definition ren_else (f : Z -> Z) (t : else_target) : else_target :=
  match t with ElseAt k j => ElseAt k (option_map f j) | NoElse k => NoElse k end.
Lemma find_else_rename f l : forall base nest,
  find_else_from (rename_lines f l) base nest = ren_else f (find_else_from l base nest).
Proof.
  induction l as [|s r IH]; intros base nest; [reflexivity|]. unfold rename_lines in *. cbn [map].
  destruct s; cbn [rename_stmt find_else_from]; try apply IH; try reflexivity.
  - destruct n; cbn [find_else_from]; apply IH.
  - destruct j; cbn [find_else_from]; apply IH.
  - destruct j; cbn [find_else_from]; (destruct nest; [reflexivity | apply IH]).
  - destruct r0; cbn [find_else_from]; apply IH.
Qed.
Lemma find_else_in l : forall base nest k n, find_else_from l base nest = ElseAt k (Some n) -> In (SElse (Some n)) l.
Proof.
  induction l as [|s r IH]; intros base nest k n H; [discriminate|].
  destruct s; cbn [find_else_from] in H; try discriminate; try (right; eapply IH; exact H).
  destruct nest; [inversion H; left; reflexivity | right; eapply IH; exact H].
Qed.

Section Sim.
Variables (f : Z -> Z) (code : list stmt).
Hypothesis Hinj : forall a b, In a (flow_lines code) -> In b (flow_lines code) -> f a = f b -> a = b.
Hypothesis Hclosed : forall s n, In s code -> In n (targets_of s) -> In n (flow_lines code).
Hypothesis Hfrag : forall s, In s code -> frag s = true.
Hypothesis Hlt : forall m, In m (flow_lines code) -> m <> 65535.

Lemma pjump_rename st i n k : In n (flow_lines code) ->
  pjump (rename_lines f code) st i (f n) k = pjump code st i n k.
Proof.
  intros Hn. unfold pjump, find_line. rewrite find_line_rename; [reflexivity|].
  intros m Hm E. apply Hinj; assumption.
Qed.

Lemma pstep_rename st : resume_at (ds st) = None -> pstep (rename_lines f code) st = pstep code st.
Proof.
  intros Hq. unfold pstep. unfold rename_lines at 1. rewrite nth_error_map'.
  destruct (nth_error code (pc st)) as [s|] eqn:E; [|reflexivity]. cbn [option_map].
  assert (Hin : In s code) by (eapply nth_error_In; exact E).
  pose proof (Hfrag s Hin) as Hf. pose proof (Hclosed s) as Hc.
  destruct s; cbn [frag] in Hf; try discriminate; cbn [rename_stmt].
  - reflexivity.
  - rewrite Hq. reflexivity.
  - reflexivity.
  - reflexivity.
  - apply pjump_rename. apply Hc; [exact Hin | left; reflexivity].
  - destruct n as [n|]; cbn [rename_stmt]; [|reflexivity].
    destruct (gosubs st); [reflexivity|]. apply pjump_rename. apply Hc; [exact Hin | left; reflexivity].
  - apply pjump_rename. apply Hc; [exact Hin | left; reflexivity].
  - (* IF *)
    assert (Helse : find_else_from (skipn (S (pc st)) (rename_lines f code)) (S (pc st)) 0
                    = ren_else f (find_else_from (skipn (S (pc st)) code) (S (pc st)) 0)).
    { unfold rename_lines. rewrite skipn_map'. apply find_else_rename. }
    destruct j as [n|]; cbn [rename_stmt]; unfold pwith_val; destruct (eval (ds st) c) as [z| |]; try reflexivity;
      destruct (negb (z =? 0)); try reflexivity; try (apply pjump_rename; apply Hc; [exact Hin | left; reflexivity]);
      rewrite Helse; destruct (find_else_from (skipn (S (pc st)) code) (S (pc st)) 0) as [k [n'|]|k] eqn:Ee; cbn [ren_else option_map];
      try reflexivity; apply pjump_rename; apply (Hclosed (SElse (Some n')) n'); [|left; reflexivity| |left; reflexivity];
      eapply In_skipn; eapply find_else_in; exact Ee.
  - (* :ELSE *)
    assert (He : eol (rename_lines f code) (S (pc st)) = eol code (S (pc st))).
    { unfold eol, rename_lines. rewrite skipn_map'. apply eol_rename. }
    destruct j; cbn [rename_stmt]; rewrite He; reflexivity.
  - (* ON *)
    unfold pwith_int, pwith_val. destruct (eval (ds st) e) as [z| |]; try reflexivity.
    destruct (in16 z); [|reflexivity].
    destruct (negb ((flow_on_lo <=? z) && (z <=? flow_on_hi))); [reflexivity|]. rewrite map_length.
    destruct ((1 <=? z) && (z <=? Z.of_nat (length ns))) eqn:Er; [|reflexivity].
    apply andb_true_iff in Er as [E1 E2]. apply Z.leb_le in E1, E2.
    assert (Hidx : (Z.to_nat (z - 1) < length ns)%nat) by lia.
    rewrite (nth_indep (map f ns) 0 (f 0)) by (rewrite map_length; exact Hidx). rewrite map_nth.
    apply pjump_rename. apply Hc; [exact Hin | cbn [targets_of]; apply nth_In; exact Hidx].
  - reflexivity.
Qed.

Definition same_regs (st st' : state) : Prop :=
  onerr (ds st') = onerr (ds st) /\ resume_at (ds st') = resume_at (ds st).

Lemma pstep_regs st : resume_at (ds st) = None ->
  match pstep code st with
  | PGo st' _ => same_regs st st'
  | PRaise st' _ _ => same_regs st st'
  | PHalt o => ren_out f o = o
  end.
Proof.
  intros Hq. unfold pstep. destruct (nth_error code (pc st)) as [s|] eqn:E; [|reflexivity].
  assert (Hin : In s code) by (eapply nth_error_In; exact E). pose proof (Hfrag s Hin) as Hf.
  assert (Hj : forall st1 n (k : nat -> pres), same_regs st st1 ->
            (forall j, match k j with PGo st' _ => same_regs st st' | PRaise st' _ _ => same_regs st st' | PHalt o => ren_out f o = o end) ->
            match pjump code st1 (pc st) n k with PGo st' _ => same_regs st st' | PRaise st' _ _ => same_regs st st' | PHalt o => ren_out f o = o end).
  { intros st1 n k H1 Hk. unfold pjump. destruct (find_line code n); [apply Hk | exact H1]. }
  assert (Hrefl : same_regs st st) by (split; reflexivity).
  destruct s; cbn [frag] in Hf; try discriminate.
  - exact Hrefl.
  - rewrite Hq. reflexivity.
  - destruct (soft_div (ds st) e); [exact Hrefl|]. unfold pwith_val. destruct (eval (ds st) e); [exact Hrefl | exact Hrefl | reflexivity].
  - unfold pwith_val. destruct (eval (ds st) e) as [z| |]; [|exact Hrefl | reflexivity].
    destruct (in16 z); [split; reflexivity | exact Hrefl].
  - apply Hj; [exact Hrefl | intros j; split; reflexivity].
  - destruct (gosubs st); [exact Hrefl|]. destruct n; [apply Hj; [split; reflexivity | intros j; split; reflexivity] | split; reflexivity].
  - apply Hj; [exact Hrefl | intros j; exact Hrefl].
  - unfold pwith_val. destruct (eval (ds st) c) as [z| |]; [|exact Hrefl | reflexivity].
    destruct (negb (z =? 0)).
    + destruct j; [apply Hj; [exact Hrefl | intros j0; exact Hrefl] | exact Hrefl].
    + destruct (find_else_from (skipn (S (pc st)) code) (S (pc st)) 0) as [k [n'|]|k];
        [apply Hj; [exact Hrefl | intros j0; exact Hrefl] | exact Hrefl | exact Hrefl].
  - exact Hrefl.
  - unfold pwith_int, pwith_val. destruct (eval (ds st) e) as [z| |]; [|exact Hrefl | reflexivity].
    destruct (in16 z); [|exact Hrefl].
    destruct (negb ((flow_on_lo <=? z) && (z <=? flow_on_hi))); [exact Hrefl|].
    destruct ((1 <=? z) && (z <=? Z.of_nat (length ns))); [|exact Hrefl].
    apply Hj; [exact Hrefl | intros j; destruct gosub; split; reflexivity].
  - reflexivity.
Qed.

Lemma step_rename st : quiet (ds st) ->
  step (rename_lines f code) st
  = match step code st with Go st' out => Go st' out | Halt o => Halt (ren_out f o) end
  /\ match step code st with Go st' _ => quiet (ds st') | Halt _ => True end.
Proof.
  intros [Ho Hr]. unfold step. rewrite (pstep_rename st Hr). pose proof (pstep_regs st Hr) as Hregs.
  destruct (pstep code st) as [st' out|o|st' c epos].
  - split; [reflexivity|]. destruct Hregs as [H1 H2]. split; congruence.
  - split; [rewrite Hregs; reflexivity | exact I].
  - destruct Hregs as [H1 H2]. unfold trap. rewrite H1, Ho. cbn [Z.eqb negb andb]. split; [|exact I].
    cbn [ren_out]. unfold line_of. rewrite <- (line_of_rename f code epos 65535 Hlt). reflexivity.
Qed.

Theorem run_rename fuel : forall st, quiet (ds st) ->
  run (rename_lines f code) fuel st = (fst (run code fuel st), ren_out f (snd (run code fuel st))).
Proof.
  induction fuel as [|fuel IH]; intros st Hq; [reflexivity|]. cbn [run].
  destruct (step_rename st Hq) as [Hs Hq']. rewrite Hs.
  destruct (step code st) as [st' out|o]; [|reflexivity].
  rewrite (IH st' Hq'). destruct (run code fuel st') as [t o]. reflexivity.
Qed.
End Sim.

(* RUN of the renamed program = RUN of the original, modulo the line map in the final "in line" *)
Theorem run_program_rename f code fuel :
  (forall a b, In a (flow_lines code) -> In b (flow_lines code) -> f a = f b -> a = b) ->
  (forall s n, In s code -> In n (targets_of s) -> In n (flow_lines code)) ->
  (forall s, In s code -> frag s = true) ->
  (forall m, In m (flow_lines code) -> m <> 65535) ->
  run_program (rename_lines f code) fuel
  = (fst (run_program code fuel), ren_out f (snd (run_program code fuel))).
Proof.
  intros H1 H2 H3 H4. unfold run_program. apply run_rename; try assumption. split; reflexivity.
Qed.

(* accepted RENUM new,start,step (partial or not): for a flow program over the lines of ls - jumps from kept lines
   into the renumbered range and back included - running the renumbered program is running the original *)
Theorem renum_flow_simulation c s ls tail new start step code fuel :
  cfg_ok c -> abs_ok c s ls tail -> tail_ok tail -> Forall (fun l : line => fst l < 65535) ls ->
  0 <= new -> 0 <= start <= 65535 -> accepted ls new start step ->
  (forall n, In n (flow_lines code) -> In n (nums ls)) ->
  (forall st n, In st code -> In n (targets_of st) -> In n (flow_lines code)) ->
  (forall st, In st code -> frag st = true) ->
  let f := new_number (o2n_of (rn_part start ls) new step) in
  run_program (rename_lines f code) fuel = (fst (run_program code fuel), ren_out f (snd (run_program code fuel))).
Proof.
  intros Hc Ha Ht Hl Hn Hs Hacc Hsub Hclosed Hfrag f.
  pose proof (new_number_increasing c s ls tail new start step Hc Ha Ht Hl Hn Hs Hacc) as Hinc.
  apply run_program_rename; try assumption.
  - intros a b Ha' Hb' E. apply Hsub in Ha', Hb'.
    destruct (Z.lt_trichotomy a b) as [H|[H|H]]; [|exact H|].
    + specialize (Hinc a b Ha' Hb' H). fold f in Hinc. lia.
    + specialize (Hinc b a Hb' Ha' H). fold f in Hinc. lia.
  - intros m Hm. apply Hsub in Hm. unfold nums in Hm. apply in_map_iff in Hm as [l [E Hin]].
    rewrite Forall_forall in Hl. specialize (Hl l Hin). lia.
Qed.
