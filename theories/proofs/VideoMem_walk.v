(* C34: the regenerated _walk_memory loop: fuel suffices, it yields runs of items of one scan line,
   and block reads assembled from its spans equal the per-item reads. *)
From Coq Require Import ZArith List Bool Lia ZifyBool.
From PCB Require Import lib.Result lib.PyInt gen.Gen_vmem model.VideoMem proofs.VideoMem_arith.
Import ListNotations.
Open Scope Z_scope.

(* ---------------------------------------------------------------- the loop as a list-producing recursion *)
Definition run_len (m : vmode) (addr n ofs x : Z) : Z :=
  Z.min (rsz m - x / peff m) (Z.min (bsz m - (itemno m addr + ofs) mod bsz m) (n - ofs)).

Fixpoint walk_from (fuel : nat) (m : vmode) (addr n ofs : Z) : list span :=
  match fuel with
  | O => []
  | S f =>
      if ofs <? n then
        let '(page, x, y) := vmem_get_coords m (addr + ofs * fac m) in
        let len := run_len m addr n ofs x in
        (if vmem_coord_ok m page x y then [(page, x, y, ofs, len)] else [])
          ++ walk_from f m addr n (ofs + len)
      else []
  end.

Lemma itemno_add m addr ofs : wf_gmode m = true -> itemno m (addr + ofs * fac m) = itemno m addr + ofs.
Proof.
  intros W. pose proof (wf_pos m W) as (_ & _ & _ & _ & _ & Hf). unfold itemno.
  replace (addr + ofs * fac m - vm_seg m * 16) with (addr - vm_seg m * 16 + ofs * fac m) by lia.
  apply Z.div_add. lia.
Qed.

(* a run: at least one item, all items on the scan line of the first, coord_ok does not depend on the item *)
Lemma run_facts m addr n ofs page x y : wf_gmode m = true -> ofs < n ->
  vmem_get_coords m (addr + ofs * fac m) = (page, x, y) ->
  1 <= run_len m addr n ofs x /\ ofs + run_len m addr n ofs x <= n /\
  forall j, 0 <= j < run_len m addr n ofs x ->
    vmem_get_coords m (addr + (ofs + j) * fac m) = (page, x + j * peff m, y) /\
    vmem_coord_ok m page (x + j * peff m) y = vmem_coord_ok m page x y.
Proof.
  intros W Hn Hc.
  pose proof (wf_pos m W) as (HB & HI & HR & HP & HW & _).
  rewrite coords_norm, itemno_add in Hc by assumption.
  set (q := itemno m addr + ofs) in *.
  pose proof (lay_x m q W) as Hx. rewrite Hc in Hx. destruct Hx as (Ex & Hx0 & Hx1 & Exd).
  pose proof (Z.mod_pos_bound (q mod bsz m) (rsz m) HR) as Hcol.
  pose proof (Z.mod_pos_bound q (bsz m) HB) as Hoff.
  unfold run_len. fold q. rewrite Exd.
  split; [lia|]. split; [lia|].
  intros j Hj.
  rewrite coords_norm, itemno_add by assumption.
  replace (itemno m addr + (ofs + j)) with (q + j) by (unfold q; lia).
  unfold lay in *. rewrite layN_row by lia.
  unfold layN in Hc.
  assert (Ep : q / bsz m / vm_interleave m = page) by congruence.
  assert (Ey : (q / bsz m) mod vm_interleave m + vm_interleave m * (q mod bsz m / rsz m) = y) by congruence.
  rewrite Ep, Ey, <- Ex. split; [reflexivity|].
  unfold vmem_coord_ok.
  assert (Hlt : x + j * peff m < vm_width m) by nia.
  assert (Hge : 0 <= x + j * peff m) by nia.
  assert (Hlt0 : x < vm_width m) by nia.
  replace (x + j * peff m >=? 0) with true by lia.
  replace (x + j * peff m <? vm_width m) with true by lia.
  replace (x >=? 0) with true by lia.
  replace (x <? vm_width m) with true by lia.
  reflexivity.
Qed.

Lemma loop_spec m addr n : wf_gmode m = true ->
  forall fuel ofs acc, (Z.to_nat (n - ofs) < fuel)%nat ->
  exists ofs', vmem_walk_memory_loop_1 m fuel addr n (fac m) (peff m) (bsz m) (rsz m) (itemno m addr) ofs acc
               = Ok (ofs', acc ++ walk_from fuel m addr n ofs).
Proof.
  intros W. induction fuel as [|f IH]; intros ofs acc Hf; [lia|].
  cbn [vmem_walk_memory_loop_1 walk_from].
  destruct (ofs <? n) eqn:E.
  - apply Z.ltb_lt in E.
    destruct (vmem_get_coords m (addr + ofs * fac m)) as [[page x] y] eqn:Ec.
    pose proof (run_facts m addr n ofs page x y W E Ec) as (Hl1 & Hl2 & _).
    fold (run_len m addr n ofs x).
    destruct (vmem_coord_ok m page x y); cbn [bind].
    + destruct (IH (ofs + run_len m addr n ofs x) (acc ++ [(page, x, y, ofs, run_len m addr n ofs x)])
                ltac:(lia)) as [o' Ho'].
      exists o'. rewrite Ho'. rewrite <- app_assoc. reflexivity.
    + destruct (IH (ofs + run_len m addr n ofs x) acc ltac:(lia)) as [o' Ho'].
      exists o'. rewrite Ho'. reflexivity.
  - exists ofs. rewrite app_nil_r. reflexivity.
Qed.

Lemma walk_eq m addr n : wf_gmode m = true ->
  walk m addr n (fac m) = walk_from (S (Z.to_nat n)) m addr n 0.
Proof.
  intros W. unfold walk, vmem_walk_memory.
  destruct (loop_spec m addr n W (S (Z.to_nat n)) 0 [] ltac:(lia)) as [o' Ho'].
  fold (peff m) (bsz m) (rsz m) (itemno m addr). cbv zeta.
  rewrite Ho'. reflexivity.
Qed.

(* ---------------------------------------------------------------- block reads *)
(* the byte that item i of a walk starting at addr reads with the span reader rd *)
Definition item_read (rd : Z -> Z -> Z -> Z) (m : vmode) (addr i : Z) : Z :=
  let '(p, x, y) := vmem_get_coords m (addr + i * fac m) in
  if vmem_coord_ok m p x y then rd p y x else 0.

Lemma get_spans_cons rd p page x y ofs len l acc :
  get_spans rd p ((page, x, y, ofs, len) :: l) acc
  = get_spans rd p l (put_run acc ofs len (fun j => rd page y (x + j * p))).
Proof. reflexivity. Qed.

Lemma get_spans_from rd m addr n : wf_gmode m = true ->
  forall fuel ofs acc, (Z.to_nat (n - ofs) < fuel)%nat -> (forall i, ofs <= i -> acc i = 0) ->
  forall i, (i < ofs -> get_spans rd (peff m) (walk_from fuel m addr n ofs) acc i = acc i) /\
            (ofs <= i < n -> get_spans rd (peff m) (walk_from fuel m addr n ofs) acc i = item_read rd m addr i).
Proof.
  intros W. induction fuel as [|f IH]; intros ofs acc Hf H0 i; [lia|].
  cbn [walk_from].
  destruct (ofs <? n) eqn:E.
  2:{ apply Z.ltb_ge in E. split; [reflexivity | lia]. }
  apply Z.ltb_lt in E.
  destruct (vmem_get_coords m (addr + ofs * fac m)) as [[page x] y] eqn:Ec.
  pose proof (run_facts m addr n ofs page x y W E Ec) as (Hl1 & Hl2 & Hrow).
  set (len := run_len m addr n ofs x) in *.
  destruct (vmem_coord_ok m page x y) eqn:Eok.
  - cbn [app]. rewrite get_spans_cons.
    set (acc' := put_run acc ofs len (fun j => rd page y (x + j * peff m))).
    assert (H0' : forall k, ofs + len <= k -> acc' k = 0).
    { intros k Hk. unfold acc', put_run. replace (k <? ofs + len) with false by lia.
      rewrite andb_false_r. apply H0. lia. }
    destruct (IH (ofs + len) acc' ltac:(lia) H0' i) as [IH1 IH2].
    split.
    + intros Hi. rewrite IH1 by lia. unfold acc', put_run. replace (ofs <=? i) with false by lia. reflexivity.
    + intros Hi. destruct (Z_lt_ge_dec i (ofs + len)) as [Hlt|Hge].
      * rewrite IH1 by lia. unfold acc', put_run.
        replace (ofs <=? i) with true by lia. replace (i <? ofs + len) with true by lia. cbn [andb].
        destruct (Hrow (i - ofs) ltac:(lia)) as [Hc Hk].
        unfold item_read. replace (ofs + (i - ofs)) with i in Hc by lia. rewrite Hc. cbv beta iota. rewrite Hk. reflexivity.
      * apply IH2. lia.
  - cbn [app].
    assert (H0' : forall k, ofs + len <= k -> acc k = 0) by (intros k Hk; apply H0; lia).
    destruct (IH (ofs + len) acc ltac:(lia) H0' i) as [IH1 IH2].
    split.
    + intros Hi. apply IH1. lia.
    + intros Hi. destruct (Z_lt_ge_dec i (ofs + len)) as [Hlt|Hge].
      * rewrite IH1 by lia. rewrite H0 by lia.
        destruct (Hrow (i - ofs) ltac:(lia)) as [Hc Hk].
        unfold item_read. replace (ofs + (i - ofs)) with i in Hc by lia. rewrite Hc. cbv beta iota. rewrite Hk. reflexivity.
      * apply IH2. lia.
Qed.

Lemma get_spans_walk rd m addr n i : wf_gmode m = true -> 0 <= i < n ->
  get_spans rd (peff m) (walk m addr n (fac m)) (fun _ => 0) i = item_read rd m addr i.
Proof.
  intros W Hi. rewrite walk_eq by assumption.
  apply (get_spans_from rd m addr n W (S (Z.to_nat n)) 0 (fun _ => 0)); [lia | reflexivity | lia].
Qed.
