(* MBF_compare.v - the byte-wise comparisons of numbers.py agree with the exact order of values.
   Float._abs_gt / gt / eq (regenerated: mbf_abs_gt, mbf_gt, mbf_eq) and Integer.gt / eq (int_gt, int_eq). *)
From Coq Require Import ZArith List Bool Lia ZifyBool.
From PCB Require Import lib.Result lib.PyInt lib.Harness lib.MBFPrims gen.Gen_mbf model.MBF proofs.MBF_base.
Import ListNotations.
Open Scope Z_scope.
Ltac Zify.zify_post_hook ::= Z.to_euclidean_division_equations.

(* ------------------------------------------------------------------------------------------------ *)
(* comparing byte strings from the most significant byte down = comparing the little-endian integers *)

Lemma combine_snoc {A B} (a : list A) (b : list B) x y : length a = length b ->
  combine (a ++ [x]) (b ++ [y]) = combine a b ++ [(x, y)].
Proof.
  revert b. induction a as [|u a IH]; intros [|v b] H; try discriminate; cbn [app combine].
  - reflexivity.
  - f_equal. apply IH. cbn in H. lia.
Qed.

Lemma zip_rev_gt_spec : forall n a b, length a = n -> length b = n -> bytes_ok a -> bytes_ok b ->
  zip_rev_gt a b = (le_decode a >? le_decode b).
Proof.
  induction n as [|n IH]; intros a b Ha Hb Hoa Hob.
  - destruct a, b; try discriminate. reflexivity.
  - destruct (exists_last (l := a)) as [a' [x ->]]; [intro; subst; discriminate|].
    destruct (exists_last (l := b)) as [b' [y ->]]; [intro; subst; discriminate|].
    rewrite app_length in Ha, Hb. cbn [length] in Ha, Hb.
    apply bytes_ok_app in Hoa as [Hoa Hx]. apply bytes_ok_app in Hob as [Hob Hy].
    inversion Hx as [|? ? Hx' _]; subst. inversion Hy as [|? ? Hy' _]; subst.
    unfold zip_rev_gt. rewrite combine_snoc by lia. rewrite rev_unit. cbn [lex_gt].
    rewrite !le_decode_app. cbn [le_decode].
    assert (Hl : zlen a' = zlen b') by (unfold zlen; lia).
    pose proof (le_decode_bound a' Hoa) as Hda. pose proof (le_decode_bound b' Hob) as Hdb.
    rewrite <- Hl in *. set (K := 256 ^ zlen a') in *.
    specialize (IH a' b' ltac:(lia) ltac:(lia) Hoa Hob). unfold zip_rev_gt in IH.
    unfold byte_ok in *.
    destruct (x >? y) eqn:E1; [nia|].
    destruct (x <? y) eqn:E2; [nia|].
    assert (x = y) by lia. subst y. rewrite IH. lia.
Qed.

(* ------------------------------------------------------------------------------------------------ *)
(* order of normalised (exponent, mantissa) pairs = order of man * 2^exp *)

Lemma norm_order P ma ea mb eb : 0 < P -> P <= ma < 2 * P -> P <= mb < 2 * P -> 0 <= ea -> 0 <= eb ->
  (ma + 2 * P * ea >? mb + 2 * P * eb) = (ma * 2 ^ ea >? mb * 2 ^ eb).
Proof.
  intros HP Ha Hb Hea Heb.
  destruct (Z.lt_trichotomy ea eb) as [Hlt|[Heq|Hgt]].
  - replace eb with (ea + (eb - ea - 1) + 1) at 2 by lia.
    rewrite pow2_S, pow2_split by lia.
    assert (HX : 0 < 2 ^ ea) by (apply pow2_pos; lia). assert (HY : 0 < 2 ^ (eb - ea - 1)) by (apply pow2_pos; lia).
    set (X := 2 ^ ea) in *. set (Y := 2 ^ (eb - ea - 1)) in *.
    assert (HXY : X <= X * Y) by nia. set (XY := X * Y) in *.
    assert (ma * X < 2 * P * X) by nia. assert (P * X <= P * XY) by nia. assert (P * XY <= mb * XY) by nia.
    assert (2 * P * eb >= 2 * P * ea + 2 * P) by nia.
    lia.
  - subst eb. assert (0 < 2 ^ ea) by (apply pow2_pos; lia). nia.
  - replace ea with (eb + (ea - eb - 1) + 1) at 2 by lia.
    rewrite pow2_S, pow2_split by lia.
    assert (HX : 0 < 2 ^ eb) by (apply pow2_pos; lia). assert (HY : 0 < 2 ^ (ea - eb - 1)) by (apply pow2_pos; lia).
    set (X := 2 ^ eb) in *. set (Y := 2 ^ (ea - eb - 1)) in *.
    assert (HXY : X <= X * Y) by nia. set (XY := X * Y) in *.
    assert (mb * X < 2 * P * X) by nia. assert (P * X <= P * XY) by nia. assert (P * XY <= ma * XY) by nia.
    assert (2 * P * ea >= 2 * P * eb + 2 * P) by nia.
    lia.
Qed.

(* magnitude * 2^bias *)
Definition f_mag (C : fconst) (b : list Z) : Z := if f_zero b then 0 else f_man C b * 2 ^ f_exp b.

Lemma f_sval_mag C b : f_sval C b = if f_neg C b then - f_mag C b else f_mag C b.
Proof. unfold f_sval, f_mag. destruct (f_zero b), (f_neg C b); lia. Qed.

Lemma f_mag_nonneg C b : fmt_ok C -> buf_ok C b -> 0 <= f_mag C b.
Proof.
  intros HC Hb. unfold f_mag. destruct (f_zero b); [lia|].
  pose proof (f_man_bound C b HC). pose proof (f_exp_bound C b HC Hb).
  pose proof (mbits_ge C HC). assert (0 < 2 ^ (mbits C - 1)) by (apply pow2_pos; lia).
  assert (0 < 2 ^ f_exp b) by (apply pow2_pos; lia). nia.
Qed.

Lemma f_mag_pos C b : fmt_ok C -> buf_ok C b -> f_zero b = false -> 0 < f_mag C b.
Proof.
  intros HC Hb Hz. unfold f_mag. rewrite Hz.
  pose proof (f_man_bound C b HC). pose proof (f_exp_bound C b HC Hb).
  pose proof (mbits_ge C HC). assert (0 < 2 ^ (mbits C - 1)) by (apply pow2_pos; lia).
  assert (0 < 2 ^ f_exp b) by (apply pow2_pos; lia). nia.
Qed.

(* _abs_gt on operands whose sign bits agree, self non-zero *)
Lemma abs_gt_spec C a b : fmt_ok C -> buf_ok C a -> buf_ok C b ->
  f_zero a = false -> f_neg C a = f_neg C b ->
  mbf_abs_gt C a b = (f_mag C a >? f_mag C b).
Proof.
  intros HC Ha Hb Hz Hs. unfold mbf_abs_gt. rewrite is_zero_spec, Hz.
  pose proof (mbits_ge C HC) as Hmb. pose proof (ok_size C HC) as Hsz.
  destruct (buf_view C a HC Ha) as (la & ma & ea & Ea & Hla & Hma & Hea & Hlena & Hfea & Hra & Hda).
  destruct (buf_view C b HC Hb) as (lb & mb & eb & Eb & Hlb & Hmb' & Heb & Hlenb & Hfeb & Hrb & Hdb).
  unfold f_mag. rewrite Hz. unfold f_zero in *. rewrite Hfea in *. rewrite Hfeb.
  assert (Hna : f_neg C a = (128 <=? ma)).
  { rewrite <- is_negative_spec by assumption. unfold mbf_is_negative. rewrite Ea.
    change (- 2) with (-2). rewrite py_nth_m2. apply eq_true_iff_eq. rewrite Z.geb_le, Z.leb_le. reflexivity. }
  assert (Hnb : f_neg C b = (128 <=? mb)).
  { rewrite <- is_negative_spec by assumption. unfold mbf_is_negative. rewrite Eb.
    change (- 2) with (-2). rewrite py_nth_m2. apply eq_true_iff_eq. rewrite Z.geb_le, Z.leb_le. reflexivity. }
  rewrite Hna, Hnb in Hs.
  (* the masked copy of rhs is rhs itself when the sign bits agree *)
  assert (Hcopy : list_set b (-2) (Z.land (py_nth 0 b (-2)) (Z.lor (py_nth 0 a (- 2)) 127)) = b).
  { change (- 2) with (-2). rewrite Ea, Eb, !py_nth_m2, list_set_m2. f_equal. f_equal.
    rewrite byte_lor127 by assumption. unfold byte_ok in *.
    destruct (ma <? 128) eqn:E.
    - rewrite land127. lia.
    - rewrite land255. lia. }
  rewrite Hcopy.
  rewrite (zip_rev_gt_spec (length a) a b); [| reflexivity | destruct Ha as [Ha _], Hb as [Hb _]; unfold zlen in *; lia
                                              | apply Ha | apply Hb].
  assert (Hda' : le_decode a = f_raw a + 2 ^ mbits C * ea).
  { rewrite Ea at 1. change [ma; ea] with ([ma] ++ [ea]). rewrite app_assoc, le_decode_app.
    unfold f_raw. rewrite Ea, removelast_2. cbn [le_decode].
    rewrite zlen_app, pow256 by (change (zlen [ma]) with 1; lia).
    change (zlen [ma]) with 1. replace (8 * (zlen la + 1)) with (mbits C) by (unfold mbits; lia). lia. }
  assert (Hdb' : le_decode b = f_raw b + 2 ^ mbits C * eb).
  { rewrite Eb at 1. change [mb; eb] with ([mb] ++ [eb]). rewrite app_assoc, le_decode_app.
    unfold f_raw. rewrite Eb, removelast_2. cbn [le_decode].
    rewrite zlen_app, pow256 by (change (zlen [mb]) with 1; lia).
    change (zlen [mb]) with 1. replace (8 * (zlen lb + 1)) with (mbits C) by (unfold mbits; lia). lia. }
  rewrite Hda', Hdb'. unfold f_man.
  set (P := 2 ^ (mbits C - 1)) in *. assert (HP : 0 < P) by (apply pow2_pos; lia).
  assert (H2P : 2 ^ mbits C = 2 * P) by (apply pow2_pred; lia). rewrite H2P.
  pose proof (f_raw_bound C a HC Ha) as Hba. pose proof (f_raw_bound C b HC Hb) as Hbb. rewrite H2P in Hba, Hbb.
  assert (HL : 2 ^ (mbits C - 1) = 2 ^ (mbits C - 8) * 128).
  { replace (mbits C - 1) with ((mbits C - 8) + 7) by lia. rewrite pow2_split by lia. reflexivity. }
  fold P in HL. set (L := 2 ^ (mbits C - 8)) in *.
  unfold byte_ok in *.
  destruct (Z.eqb_spec eb 0) as [He0|He0].
  - (* rhs is a zero *) subst eb.
    assert (0 < 2 ^ ea) by (apply pow2_pos; lia).
    assert (0 <= f_raw a mod P < P) by (apply Z.mod_pos_bound; lia). nia.
  - destruct (128 <=? ma) eqn:Esa.
    + (* both sign bits set: raw = man *)
      assert (P <= f_raw a) by nia. assert (P <= f_raw b) by nia.
      rewrite !mod_hi by lia.
      replace (f_raw a - P + P) with (f_raw a) by lia.
      replace (f_raw b - P + P) with (f_raw b) by lia.
      apply norm_order; lia.
    + assert (f_raw a < P) by nia. assert (f_raw b < P) by nia.
      rewrite !Z.mod_small by lia.
      rewrite <- (norm_order P) by lia. lia.
Qed.

(* ------------------------------------------------------------------------------------------------ *)
(* Float.gt and Float.eq (same class) against the value function *)

Theorem mbf_gt_spec C a b : fmt_ok C -> buf_ok C a -> buf_ok C b ->
  mbf_gt C a b = (f_sval C a >? f_sval C b).
Proof.
  intros HC Ha Hb. unfold mbf_gt.
  rewrite !is_zero_spec, !is_negative_spec by assumption.
  rewrite !f_sval_mag.
  pose proof (f_mag_nonneg C a HC Ha) as Hma. pose proof (f_mag_nonneg C b HC Hb) as Hmb.
  destruct (f_zero a) eqn:Eza.
  - assert (f_mag C a = 0) by (unfold f_mag; rewrite Eza; reflexivity).
    destruct (f_zero b) eqn:Ezb.
    + assert (f_mag C b = 0) by (unfold f_mag; rewrite Ezb; reflexivity).
      destruct (f_neg C a), (f_neg C b); cbn; lia.
    + pose proof (f_mag_pos C b HC Hb Ezb). destruct (f_neg C a), (f_neg C b); cbn; lia.
  - pose proof (f_mag_pos C a HC Ha Eza) as Hpa.
    destruct (f_neg C a) eqn:Ena, (f_neg C b) eqn:Enb; cbn [negb Bool.eqb].
    + (* both sign bits set: rhs._abs_gt(self) *)
      destruct (f_zero b) eqn:Ezb.
      * unfold mbf_abs_gt. rewrite is_zero_spec, Ezb.
        assert (f_mag C b = 0) by (unfold f_mag; rewrite Ezb; reflexivity). lia.
      * rewrite abs_gt_spec by (auto; congruence). lia.
    + lia.
    + lia.
    + rewrite abs_gt_spec by (auto; congruence). lia.
Qed.

Lemma f_raw_inj C a b : fmt_ok C -> buf_ok C a -> buf_ok C b ->
  f_exp a = f_exp b -> f_raw a = f_raw b -> a = b.
Proof.
  intros HC Ha Hb He Hr.
  destruct (buf_split C a HC Ha) as (la & ma & ea & -> & Hlena & Hla & Hma & Hea).
  destruct (buf_split C b HC Hb) as (lb & mb & eb & -> & Hlenb & Hlb & Hmb & Heb).
  unfold f_exp in He. rewrite !py_nth_m1 in He. subst eb.
  unfold f_raw in Hr. rewrite !removelast_2 in Hr.
  apply le_decode_inj in Hr.
  - change [ma; ea] with ([ma] ++ [ea]). change [mb; ea] with ([mb] ++ [ea]).
    rewrite !app_assoc. rewrite Hr. reflexivity.
  - apply bytes_ok_app. split; [assumption | constructor; [assumption | constructor]].
  - apply bytes_ok_app. split; [assumption | constructor; [assumption | constructor]].
  - rewrite !app_length. cbn [length]. unfold zlen in *. lia.
Qed.

(* two normalised (man, exp) pairs with the same product are equal *)
Lemma norm_unique P ma ea mb eb : 0 < P -> P <= ma < 2 * P -> P <= mb < 2 * P -> 0 <= ea -> 0 <= eb ->
  ma * 2 ^ ea = mb * 2 ^ eb -> ma = mb /\ ea = eb.
Proof.
  intros HP Ha Hb Hea Heb H.
  pose proof (norm_order P ma ea mb eb HP Ha Hb Hea Heb) as H1.
  pose proof (norm_order P mb eb ma ea HP Hb Ha Heb Hea) as H2.
  assert (ma + 2 * P * ea = mb + 2 * P * eb) by lia.
  assert (ea = eb) by nia. split; lia.
Qed.

Theorem mbf_eq_spec C a b : fmt_ok C -> buf_ok C a -> buf_ok C b ->
  mbf_eq C a b = (f_sval C a =? f_sval C b).
Proof.
  intros HC Ha Hb. unfold mbf_eq. rewrite !is_zero_spec.
  pose proof (mbits_ge C HC) as Hmb.
  destruct (f_zero a) eqn:Eza.
  - assert (f_sval C a = 0) by (unfold f_sval; rewrite Eza; reflexivity).
    destruct (f_zero b) eqn:Ezb.
    + assert (f_sval C b = 0) by (unfold f_sval; rewrite Ezb; reflexivity). lia.
    + pose proof (f_mag_pos C b HC Hb Ezb). rewrite (f_sval_mag C b). destruct (f_neg C b); lia.
  - pose proof (f_mag_pos C a HC Ha Eza) as Hpa.
    destruct (list_Z_eqb a b) eqn:E.
    + apply list_Z_eqb_eq in E. subst b. lia.
    + symmetry. apply Z.eqb_neq. intro Heq. apply Bool.not_true_iff_false in E. apply E.
      apply list_Z_eqb_eq.
      destruct (f_zero b) eqn:Ezb.
      { assert (f_sval C b = 0) by (unfold f_sval; rewrite Ezb; reflexivity).
        rewrite (f_sval_mag C a) in Heq. destruct (f_neg C a); lia. }
      pose proof (f_mag_pos C b HC Hb Ezb) as Hpb.
      rewrite !f_sval_mag in Heq.
      assert (Hsign : f_neg C a = f_neg C b) by (destruct (f_neg C a), (f_neg C b); try reflexivity; exfalso; lia).
      assert (Hmag : f_mag C a = f_mag C b) by (destruct (f_neg C a), (f_neg C b); lia).
      unfold f_mag in Hmag. rewrite Eza, Ezb in Hmag.
      set (P := 2 ^ (mbits C - 1)) in *. assert (HP : 0 < P) by (apply pow2_pos; lia).
      assert (H2P : 2 ^ mbits C = 2 * P) by (apply pow2_pred; lia).
      pose proof (f_man_bound C a HC) as Hba. pose proof (f_man_bound C b HC) as Hbb.
      fold P in Hba, Hbb. rewrite H2P in Hba, Hbb.
      pose proof (f_exp_bound C a HC Ha). pose proof (f_exp_bound C b HC Hb).
      destruct (norm_unique P (f_man C a) (f_exp a) (f_man C b) (f_exp b) HP Hba Hbb ltac:(lia) ltac:(lia) Hmag) as [Hm He].
      apply (f_raw_inj C); auto.
      pose proof (f_raw_bound C a HC Ha) as Hra. pose proof (f_raw_bound C b HC Hb) as Hrb.
      rewrite H2P in Hra, Hrb.
      unfold f_man in Hm. fold P in Hm. unfold f_neg in Hsign. fold P in Hsign.
      destruct (P <=? f_raw a) eqn:E1; destruct (P <=? f_raw b) eqn:E2; try discriminate.
      * rewrite !mod_hi in Hm by lia. lia.
      * rewrite !Z.mod_small in Hm by lia. lia.
Qed.

(* ------------------------------------------------------------------------------------------------ *)
(* Integer.gt / Integer.eq *)

Lemma int_buf a : zlen a = 2 -> bytes_ok a -> exists a0 a1, a = [a0; a1] /\ byte_ok a0 /\ byte_ok a1.
Proof.
  intros Hl Ha. destruct a as [|a0 [|a1 [|x r]]]; try (exfalso; unfold zlen in Hl; cbn [length] in Hl; lia).
  inversion Ha as [|? ? H0 H1']; subst. inversion H1' as [|? ? H1 _]; subst. eauto.
Qed.

Lemma i_val_2 a0 a1 : i_val [a0; a1] = if a0 + 256 * a1 <? 32768 then a0 + 256 * a1 else a0 + 256 * a1 - 65536.
Proof. unfold i_val. cbn [le_decode]. replace (a0 + 256 * (a1 + 256 * 0)) with (a0 + 256 * a1) by lia. reflexivity. Qed.

Lemma i_val_range a : zlen a = 2 -> bytes_ok a -> -32768 <= i_val a <= 32767.
Proof.
  intros Hl Ha. destruct (int_buf a Hl Ha) as (a0 & a1 & -> & H0 & H1). rewrite i_val_2.
  unfold byte_ok in *. destruct (a0 + 256 * a1 <? 32768) eqn:E; lia.
Qed.

Theorem int_gt_spec a b : zlen a = 2 -> bytes_ok a -> zlen b = 2 -> bytes_ok b ->
  int_gt a b = (i_val a >? i_val b).
Proof.
  intros Hla Ha Hlb Hb.
  destruct (int_buf a Hla Ha) as (a0 & a1 & -> & Ha0 & Ha1).
  destruct (int_buf b Hlb Hb) as (b0 & b1 & -> & Hb0 & Hb1).
  rewrite !i_val_2. unfold int_gt.
  change (py_nth 0 [a0; a1] (- 1)) with a1. change (py_nth 0 [b0; b1] (- 1)) with b1.
  change (py_nth 0 [a0; a1] 1) with a1. change (py_nth 0 [b0; b1] 1) with b1.
  change (py_nth 0 [a0; a1] 0) with a0. change (py_nth 0 [b0; b1] 0) with b0.
  rewrite !byte_land128, !land127 by assumption. unfold z2b. unfold byte_ok in *.
  clear Ha Hb Hla Hlb.
  destruct (a1 <? 128) eqn:E1, (b1 <? 128) eqn:E2; cbn [Z.eqb negb Pos.eqb];
    destruct (a0 + 256 * a1 <? 32768) eqn:E3; destruct (b0 + 256 * b1 <? 32768) eqn:E4; try lia.
  - destruct (a1 mod 128 >? b1 mod 128) eqn:E5; [lia|]. destruct (a1 mod 128 <? b1 mod 128) eqn:E6; lia.
  - destruct (a1 mod 128 >? b1 mod 128) eqn:E5; [lia|]. destruct (a1 mod 128 <? b1 mod 128) eqn:E6; lia.
Qed.

Theorem int_eq_spec a b : zlen a = 2 -> bytes_ok a -> zlen b = 2 -> bytes_ok b ->
  int_eq a b = (i_val a =? i_val b).
Proof.
  intros Hla Ha Hlb Hb.
  destruct (int_buf a Hla Ha) as (a0 & a1 & -> & Ha0 & Ha1).
  destruct (int_buf b Hlb Hb) as (b0 & b1 & -> & Hb0 & Hb1).
  rewrite !i_val_2. unfold int_eq. cbn [list_Z_eqb]. unfold byte_ok in *.
  destruct (a0 + 256 * a1 <? 32768) eqn:E3; destruct (b0 + 256 * b1 <? 32768) eqn:E4; lia.
Qed.
