(* Decimal_list.v - LIST of integer constant tokens (Lister._detokenise_number, model/Decimal.v list_number):
   every integer constant token lists as exactly the decimal digits of the integer the running program uses,
   and that text reads back as the same integer. *)
From Coq Require Import ZArith List Bool Lia ZifyBool.
From PCB Require Import lib.Result lib.PyInt lib.Harness lib.MBFPrims gen.Gen_mbf gen.Gen_dec model.MBF
  model.Decimal proofs.MBF_base proofs.Decimal_print proofs.Decimal_back.
Import ListNotations.
Open Scope Z_scope.

Lemma first_byte trail : bytes_ok trail -> 0 <= py_nth 0 trail 0 < 256.
Proof.
  intros H. unfold py_nth. change (0 <? 0) with false. cbv iota. change (Z.to_nat 0) with O.
  destruct trail as [|x r]; cbn [nth]; [lia|]. inversion H as [|? ? Hx _]. exact Hx.
Qed.

Lemma i_val_range trail : bytes_ok trail -> zlen trail <= 2 -> -32768 <= i_val trail < 32768.
Proof.
  intros Hb Hl. pose proof (le_decode_bound trail Hb) as Hd.
  assert (256 ^ zlen trail <= 256 ^ 2) by (apply Z.pow_le_mono_r; unfold zlen in *; lia).
  change (256 ^ 2) with 65536 in *. unfold i_val. destruct (Z.ltb_spec (le_decode trail) 32768); lia.
Qed.

(* the listed text of an integer constant token is [-] digits of the integer it stands for *)
Theorem list_int_const lead trail n : bytes_ok trail -> zlen trail <= 2 -> token_int lead trail = Some n ->
  list_number lead trail = Ok (sign_str (n <? 0) false ++ dec_str (Z.abs n)) /\ -32768 <= n < 32768.
Proof.
  unfold token_int, list_number. intros Hb Hl H.
  destruct ((17 <=? lead) && (lead <=? 27)) eqn:Ec.
  - injection H as <-. assert (Hr : 17 <= lead <= 27) by lia.
    destruct (Z.eqb_spec lead 11); [lia|]. destruct (Z.eqb_spec lead 12); [lia|]. destruct (Z.eqb_spec lead 15); [lia|].
    destruct (Z.ltb_spec (lead - 17) 0); [lia|]. rewrite Z.abs_eq by lia. split; [reflexivity | lia].
  - destruct (Z.eqb_spec lead 15) as [->|H15].
    + injection H as <-. pose proof (first_byte trail Hb) as Hf. cbn [Z.eqb].
      destruct (Z.ltb_spec (py_nth 0 trail 0) 0); [lia|]. rewrite Z.abs_eq by lia. split; [reflexivity | lia].
    + destruct (Z.eqb_spec lead 28) as [->|]; [|discriminate]. injection H as <-. cbn [Z.eqb orb v_to_repr].
      pose proof (i_val_range trail Hb Hl) as Hr. unfold i_to_str, sign_str.
      destruct (Z.ltb_spec (i_val trail) 0).
      * rewrite Z.abs_neq by lia. split; [reflexivity | exact Hr].
      * rewrite Z.abs_eq by lia. split; [reflexivity | exact Hr].
Qed.

(* LIST then re-entering the line: the constant keeps its value *)
Theorem list_int_const_roundtrip lead trail n hard allow : bytes_ok trail -> zlen trail <= 2 ->
  token_int lead trail = Some n ->
  exists s v, list_number lead trail = Ok s /\ s = sign_str (n <? 0) false ++ dec_str (Z.abs n) /\
              from_repr hard s allow = Ok v /\ value_scaled v = n * 2 ^ 184.
Proof.
  intros Hb Hl H. destruct (list_int_const lead trail n Hb Hl H) as [Hs Hr].
  assert (H16 : Z.abs n < 10 ^ 16) by (change (10 ^ 16) with 10000000000000000; lia).
  destruct (read_back_int hard allow n false H16) as (v & Hv & Hval).
  eexists _, v. split; [exact Hs|]. split; [reflexivity|]. split; assumption.
Qed.

(* every one-byte constant 11h..1Bh (0..10), explicitly *)
Theorem list_one_byte_constants : forall k, 0 <= k <= 10 -> list_number (17 + k) [] = Ok (dec_str k).
Proof.
  intros k Hk. destruct (list_int_const (17 + k) [] k ltac:(constructor) ltac:(cbn; lia)) as [H _].
  { unfold token_int. destruct (Z.leb_spec 17 (17 + k)), (Z.leb_spec (17 + k) 27); try lia. cbn [andb]. f_equal. lia. }
  rewrite H. destruct (Z.ltb_spec k 0); [lia|]. rewrite Z.abs_eq by lia. reflexivity.
Qed.
