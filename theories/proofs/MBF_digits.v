(* MBF_digits.v - positional digit strings: %X / %o formatting and int(s, base) parsing round-trip,
   for every n >= 0 and every base > 1 (instantiated for HEX$/OCT$ and &H/&O in MBF_values.v). *)
From Coq Require Import ZArith List Bool Lia ZifyBool.
From PCB Require Import lib.Result lib.PyInt lib.Harness lib.MBFPrims gen.Gen_mbf model.MBF proofs.MBF_base.
Import ListNotations.
Open Scope Z_scope.
Ltac Zify.zify_post_hook ::= Z.to_euclidean_division_equations.

(* value of a least-significant-digit-first list *)
Fixpoint eval_lsd (base : Z) (l : list Z) : Z :=
  match l with [] => 0 | d :: r => d + base * eval_lsd base r end.

Lemma of_digits_rev base l : of_digits base (rev l) = eval_lsd base l.
Proof.
  unfold of_digits. rewrite <- fold_left_rev_right, rev_involutive.
  induction l as [|d l IH]; cbn [fold_right eval_lsd]; [reflexivity|]. rewrite IH. lia.
Qed.

Lemma to_digits_rev_eval base : 1 < base -> forall fuel n, 0 <= n < base ^ Z.of_nat fuel ->
  eval_lsd base (to_digits_rev fuel base n) = n.
Proof.
  intros Hb. induction fuel as [|f IH]; intros n Hn.
  - cbn in *. lia.
  - cbn [to_digits_rev]. destruct (Z.ltb_spec n base) as [Hlt|Hge].
    + cbn [eval_lsd]. lia.
    + cbn [eval_lsd]. rewrite IH.
      * pose proof (Z.div_mod n base). lia.
      * rewrite Nat2Z.inj_succ, Z.pow_succ_r in Hn by lia.
        split; [apply Z.div_pos; lia | apply Z.div_lt_upper_bound; lia].
Qed.

Lemma to_digits_rev_range base : 1 < base -> forall fuel n, 0 <= n ->
  Forall (fun d => 0 <= d < base) (to_digits_rev fuel base n).
Proof.
  intros Hb. induction fuel as [|f IH]; intros n Hn; cbn [to_digits_rev]; [constructor|].
  destruct (Z.ltb_spec n base).
  - constructor; [lia | constructor].
  - constructor; [apply Z.mod_pos_bound; lia | apply IH; apply Z.div_pos; lia].
Qed.

Lemma to_digits_rev_nonempty base fuel n : to_digits_rev (S fuel) base n <> [].
Proof. cbn [to_digits_rev]. destruct (n <? base); discriminate. Qed.

Lemma fuel_enough base n : 1 < base -> 0 <= n -> n < base ^ Z.of_nat (S (Z.to_nat (Z.log2 n))).
Proof.
  intros Hb Hn. rewrite Nat2Z.inj_succ, Z2Nat.id by apply Z.log2_nonneg.
  destruct (Z.eq_dec n 0) as [->|Hn0].
  - change (Z.log2 0) with 0. cbn. lia.
  - pose proof (Z.log2_spec n ltac:(lia)) as [_ Hhi].
    apply Z.lt_le_trans with (2 ^ Z.succ (Z.log2 n)); [exact Hhi|].
    apply Z.pow_le_mono_l. lia.
Qed.

(* digits of n in base b, re-read in base b, give n : for EVERY n >= 0 and base > 1 *)
Theorem digits_roundtrip base n : 1 < base -> 0 <= n -> of_digits base (to_digits base n) = n.
Proof.
  intros Hb Hn. unfold to_digits. rewrite of_digits_rev.
  apply to_digits_rev_eval; [exact Hb|]. split; [exact Hn | apply fuel_enough; assumption].
Qed.

Lemma to_digits_range base n : 1 < base -> 0 <= n -> Forall (fun d => 0 <= d < base) (to_digits base n).
Proof.
  intros Hb Hn. unfold to_digits. apply Forall_rev. apply to_digits_rev_range; assumption.
Qed.

Lemma to_digits_nonempty base n : to_digits base n <> [].
Proof.
  unfold to_digits. intro H. apply (f_equal (@rev Z)) in H. rewrite rev_involutive in H. cbn in H.
  exact (to_digits_rev_nonempty base _ n H).
Qed.

(* characters *)
Lemma char_digit_char d : 0 <= d < 16 -> char_digit (digit_char d) = Some d.
Proof.
  intros Hd. unfold digit_char, char_digit. destruct (Z.ltb_spec d 10).
  - destruct (Z.leb_spec 48 (48 + d)); [|lia]. destruct (Z.leb_spec (48 + d) 57); [|lia]. cbn [andb]. f_equal. lia.
  - destruct (Z.leb_spec 48 (55 + d)); [|lia]. destruct (Z.leb_spec (55 + d) 57); [lia|]. cbn [andb].
    destruct (Z.leb_spec 65 (55 + d)); [|lia]. destruct (Z.leb_spec (55 + d) 70); [|lia]. cbn [andb]. f_equal. lia.
Qed.

Lemma parse_fmt base ds : base <= 16 -> Forall (fun d => 0 <= d < base) ds ->
  parse_digits base (map digit_char ds) = Some ds.
Proof.
  intros Hb. induction 1 as [|d ds Hd Hds IH]; cbn [map parse_digits]; [reflexivity|].
  rewrite char_digit_char by lia. rewrite IH. destruct (Z.ltb_spec d base); [reflexivity|lia].
Qed.

(* int(b'%X' % n, 16) = n and the same for every base 2..16 *)
Theorem py_int_fmt base n : 1 < base <= 16 -> 0 <= n -> py_int base (fmt_base base n) = Ok n.
Proof.
  intros Hb Hn. unfold py_int, fmt_base.
  destruct (map digit_char (to_digits base n)) as [|c r] eqn:E.
  - exfalso. apply (to_digits_nonempty base n). destruct (to_digits base n); [reflexivity|discriminate].
  - rewrite <- E. rewrite parse_fmt by (try lia; apply to_digits_range; lia).
    rewrite digits_roundtrip by lia. reflexivity.
Qed.

Lemma fmt_base_nonempty base n : fmt_base base n <> [].
Proof.
  unfold fmt_base. intro H. apply (to_digits_nonempty base n). destruct (to_digits base n); [reflexivity|discriminate].
Qed.
