(* C30, PAINT: the solid flood fill is modelled and proved by C32 (model/Flood.v, proofs/Flood_proofs.v, tied to
   _flood_fill by C32's own correspondence).  Here its soundness theorem is imported for the page matrix and
   viewport of C30: the bitmap is the active page positioned so that bitmap coordinates are viewport coordinates,
   the bounds are graph_view.get_bounds().  Every cell PAINT changes lies inside the viewport, and the fill
   terminates, for every page content, seed, fill and border attribute. *)
From Coq Require Import ZArith List Bool Lia ZifyBool.
From PCB Require Import lib.Result lib.PyInt lib.GfxPrims gen.Gen_viewport model.Matrix model.Viewport model.Flood
  proofs.Matrix_proofs proofs.Viewport_proofs proofs.Flood_proofs.
Import ListNotations.
Open Scope Z_scope.

(* graph_view.get_bounds() as C32's bounds record *)
Definition vp_bounds (vp : viewport) : bounds :=
  let '(x0, y0, x1, y1) := vp_get_bounds vp in mkBounds x0 y0 x1 y1.

(* the page as a bitmap in viewport coordinates: cell (x, y) of the bitmap is the absolute cell convert(x, y) *)
Definition page_bitmap (vp : viewport) (m : matrix) : bitmap :=
  let '(ox, oy) := vp_convert_coords vp 0 0 in mkBitmap (- ox) (- oy) m.

Lemma page_covers : forall vp m, wf_vp vp -> same_dims vp m -> covers (page_bitmap vp m) (vp_bounds vp).
Proof.
  intros [ab vx0 vy0 vx1 vy1 mw mh] m Hwf [Hh Hw] x y Hin. unfold wf_vp in Hwf.
  unfold page_bitmap, vp_bounds, in_view in *. unfold_vp.
  cbn [vp_abs vp_x0 vp_y0 vp_x1 vp_y1 vp_maxw vp_maxh] in *.
  assert (Hrow : forall k, 0 <= k < mh -> zlen (nth (Z.to_nat k) m []) = mw).
  { intros k Hk. destruct (nth_error m (Z.to_nat k)) as [r|] eqn:En.
    - rewrite (nth_error_nth _ _ _ En). eapply width_nth_error; eauto.
    - apply nth_error_None in En. unfold zlen in *. lia. }
  destruct ab; cbn [bx0 by0 bx1 by1 org_x org_y rows] in *; unfold inb; cbn [org_x org_y rows].
  - match goal with |- context [nth (Z.to_nat ?k) m []] => rewrite (Hrow k) by lia end. lia.
  - match goal with |- context [nth (Z.to_nat ?k) m []] => rewrite (Hrow k) by lia end. lia.
Qed.

(* a cell inside the bounds is, in absolute coordinates, inside the viewport rectangle *)
Lemma in_view_in_rect : forall vp x y, in_view (vp_bounds vp) x y = true ->
  let '(ax, ay) := vp_convert_coords vp x y in in_rect vp ax ay.
Proof.
  intros [ab vx0 vy0 vx1 vy1 mw mh] x y Hin. unfold vp_bounds, in_view, in_rect in *. unfold_vp.
  cbn [vp_abs vp_x0 vp_y0 vp_x1 vp_y1 vp_maxw vp_maxh] in *.
  destruct ab; cbn [bx0 by0 bx1 by1] in *; lia.
Qed.

Theorem paint_in_viewport : forall vp m x y fill border,
  wf_vp vp -> same_dims vp m ->
  exists bm', flood_fill (paint_fuel (vp_bounds vp)) (vp_bounds vp) (page_bitmap vp m) x y fill border = Ok bm'
    /\ forall cx cy, pix bm' cx cy <> pix (page_bitmap vp m) cx cy ->
         in_view (vp_bounds vp) cx cy = true /\ pix bm' cx cy = fill.
Proof.
  intros vp m x y fill border Hwf Hd.
  pose proof (page_covers vp m Hwf Hd) as Hcov.
  destruct (flood_terminates (vp_bounds vp) (page_bitmap vp m) x y fill border Hcov) as [bm' Hrun].
  exists bm'. split; [exact Hrun|]. intros cx cy Hne.
  destruct (flood_sound _ _ _ _ _ _ _ _ Hcov Hrun cx cy Hne) as [Hreg Hfill].
  split; [|exact Hfill]. apply region_open in Hreg. exact (proj1 Hreg).
Qed.
