(* C41 - round-trip facts about the REGENERATED codepage tables: finite sweeps by vm_compute over every entry
   of every shipped codepage (n_codepages pages, 256 single-byte entries each + n_dbcs_entries two-byte
   entries), lifted to universally quantified statements with forallb_forall. *)
From Coq Require Import String ZArith List Bool Lia.
From PCB Require Import lib.Result lib.PyInt lib.Harness gen.Gen_codepages gen.Gen_codepages_dbcs model.Codepage proofs.Codepage_proofs.
Import ListNotations.
Open Scope Z_scope.

Definition modes : list errmode := [Ignore; Replace; Strict].

Lemma in_modes m : In m modes.
Proof. destruct m; cbn; auto. Qed.

(* (r, u) is an entry of the table *)
Definition entry_in (t : tables) (r u : list Z) : bool :=
  existsb (fun e => list_Z_eqb (fst e) r && list_Z_eqb (snd e) u) t.(t_entries).

Lemma entry_in_In t r u : entry_in t r u = true -> In (r, u) t.(t_entries).
Proof.
  unfold entry_in. rewrite existsb_exists. intros ((r', u') & Hin & H).
  apply andb_true_iff in H as [H1 H2]. cbn [fst snd] in *.
  apply list_Z_eqb_eq in H1. apply list_Z_eqb_eq in H2. subst. exact Hin.
Qed.

Definition res_is (x : res (list Z)) (r : list Z) : bool :=
  match x with Ok r' => list_Z_eqb r' r | _ => false end.

Lemma res_is_eq x r : res_is x r = true -> x = Ok r.
Proof. destruct x; cbn; try discriminate. intros H. apply list_Z_eqb_eq in H. now subst. Qed.

(* one entry (b, u) of _cp_to_unicode:
   - decoding b gives u;
   - encoding u gives, in every error mode, the same r, which decodes to u again, and r is b itself or
     another entry (r, u) of the table (so b's mapping is not unique) *)
Definition check_entry (t : tables) (e : list Z * list Z) : bool :=
  let b := fst e in
  let u := snd e in
  list_Z_eqb (bytes_to_unicode t b) u &&
  match unicode_to_bytes t Ignore u with
  | Ok r => res_is (unicode_to_bytes t Replace u) r && res_is (unicode_to_bytes t Strict u) r &&
            (if list_Z_eqb r b then true
             else list_Z_eqb (bytes_to_unicode t r) u && entry_in t r u)
  | _ => false
  end.

(* one glyph substitute (b, g): with use_substitutes b shows as g, and g encodes to b or to another point
   with the same substitute *)
Definition check_subst (t : tables) (e : list Z * list Z) : bool :=
  let b := fst e in
  let g := snd e in
  list_Z_eqb (bytes_to_unicode_subst t b) g &&
  forallb (fun mode =>
             match unicode_to_bytes t mode g with
             | Ok r => if list_Z_eqb r b then true
                       else existsb (fun e' => list_Z_eqb (fst e') r && list_Z_eqb (snd e') g) t.(t_subst)
             | _ => false
             end) modes.

Definition check_table (t : tables) : bool :=
  forallb (check_entry t) t.(t_entries) && forallb (check_subst t) t.(t_subst).

(* THE SWEEP: every entry of every shipped codepage (one vm evaluation, at Qed) *)
Lemma all_tables_ok : forallb check_table all_codepages = true.
Proof. vm_cast_no_check (@eq_refl bool true). Time Qed.

Lemma table_ok t : In t all_codepages -> check_table t = true.
Proof. intros H. exact (proj1 (forallb_forall _ _) all_tables_ok t H). Qed.

Lemma entry_ok t b u : In t all_codepages -> In (b, u) t.(t_entries) -> check_entry t (b, u) = true.
Proof.
  intros Ht Hin. pose proof (table_ok t Ht) as H. unfold check_table in H.
  apply andb_true_iff in H as [H _]. exact (proj1 (forallb_forall _ _) H (b, u) Hin).
Qed.

Lemma decode_entry t b u : In t all_codepages -> In (b, u) t.(t_entries) -> bytes_to_unicode t b = u.
Proof.
  intros Ht Hin. pose proof (entry_ok t b u Ht Hin) as H. unfold check_entry in H. cbn [fst snd] in H.
  apply andb_true_iff in H as [H _]. apply list_Z_eqb_eq. exact H.
Qed.

Lemma encode_entry t b u mode : In t all_codepages -> In (b, u) t.(t_entries) ->
  exists r, unicode_to_bytes t mode u = Ok r /\ bytes_to_unicode t r = u /\ (r = b \/ In (r, u) t.(t_entries)).
Proof.
  intros Ht Hin. pose proof (entry_ok t b u Ht Hin) as H. unfold check_entry in H. cbn [fst snd] in H.
  apply andb_true_iff in H as [_ H].
  destruct (unicode_to_bytes t Ignore u) as [r| | |] eqn:EI; try discriminate.
  apply andb_true_iff in H as [H H3]. apply andb_true_iff in H as [H1 H2].
  apply res_is_eq in H1. apply res_is_eq in H2.
  exists r. split; [destruct mode; assumption|].
  destruct (list_Z_eqb r b) eqn:E.
  - apply list_Z_eqb_eq in E. subst r. split; [|left; reflexivity].
    exact (decode_entry t b u Ht Hin).
  - apply andb_true_iff in H3 as [H4 H5]. split.
    + apply list_Z_eqb_eq. exact H4.
    + right. apply entry_in_In. exact H5.
Qed.

(* characters -> bytes -> characters *)
Lemma chars_roundtrip t u mode : In t all_codepages -> In u (repertoire t) ->
  exists r, unicode_to_bytes t mode u = Ok r /\ bytes_to_unicode t r = u.
Proof.
  intros Ht Hu. unfold repertoire in Hu. apply in_map_iff in Hu as ((b, u') & Hs & Hin).
  cbn [snd] in Hs. subst u'.
  destruct (encode_entry t b u mode Ht Hin) as (r & H1 & H2 & _). exists r. auto.
Qed.

(* bytes -> characters -> bytes, where the mapping of b is unique *)
Lemma bytes_roundtrip t b u mode : In t all_codepages -> In (b, u) t.(t_entries) ->
  (forall b', In (b', u) t.(t_entries) -> b' = b) ->
  bytes_to_unicode t b = u /\ unicode_to_bytes t mode u = Ok b.
Proof.
  intros Ht Hin Huniq. split; [exact (decode_entry t b u Ht Hin)|].
  destruct (encode_entry t b u mode Ht Hin) as (r & H1 & _ & [H3 | H3]).
  - subst r. exact H1.
  - rewrite (Huniq r H3) in H1. exact H1.
Qed.

Lemma subst_roundtrip t b g mode : In t all_codepages -> In (b, g) t.(t_subst) ->
  (forall b', In (b', g) t.(t_subst) -> b' = b) ->
  bytes_to_unicode_subst t b = g /\ unicode_to_bytes t mode g = Ok b.
Proof.
  intros Ht Hin Huniq. pose proof (table_ok t Ht) as H. unfold check_table in H.
  apply andb_true_iff in H as [_ H]. pose proof (proj1 (forallb_forall _ _) H (b, g) Hin) as He.
  unfold check_subst in He. cbn [fst snd] in He. apply andb_true_iff in He as [H1 H2]. split.
  - apply list_Z_eqb_eq. exact H1.
  - pose proof (proj1 (forallb_forall _ _) H2 mode (in_modes mode)) as Hm. cbv beta in Hm.
    destruct (unicode_to_bytes t mode g) as [r| | |]; try discriminate.
    destruct (list_Z_eqb r b) eqn:E.
    + apply list_Z_eqb_eq in E. now subst.
    + apply existsb_exists in Hm as ((r', g') & Hin' & Hm). cbn [fst snd] in Hm.
      apply andb_true_iff in Hm as [E1 E2]. apply list_Z_eqb_eq in E1. apply list_Z_eqb_eq in E2. subst.
      now rewrite (Huniq r Hin').
Qed.

(* the tables found by name are members of all_codepages *)
Lemma find_codepage_in name t : find_codepage name = Some t -> In t all_codepages.
Proof.
  unfold find_codepage, all_codepages. intros H.
  destruct (find (fun r => String.eqb (rc_name r) name) raw_codepages) as [r|] eqn:E; [|discriminate].
  cbn in H. injection H as <-. apply in_map. apply find_some in E. tauto.
Qed.

(* size of the swept domain *)
Definition n_entries (cps : list tables) : Z :=
  fold_right (fun t acc => Z.of_nat (List.length t.(t_entries)) + acc) 0 cps.
Definition n_kentries (l : list raw_codepage) : Z :=
  fold_right (fun r acc => Z.of_nat (List.length (kentries r)) + acc) 0 l.

Lemma n_entries_map l : n_entries (map tables_of l) = n_kentries l.
Proof.
  induction l as [|r l IH]; [reflexivity|].
  cbn [map n_entries n_kentries fold_right]. fold (n_entries (map tables_of l)). fold (n_kentries l).
  rewrite IH. f_equal. unfold tables_of. cbn [t_entries]. now rewrite map_length.
Qed.

Lemma n_kentries_value : n_kentries raw_codepages = 256 * n_codepages + n_dbcs_entries.
Proof. vm_cast_no_check (@eq_refl Z (256 * n_codepages + n_dbcs_entries)). Time Qed.

Lemma domain_size :
  Z.of_nat (List.length all_codepages) = n_codepages /\
  n_entries all_codepages = 256 * n_codepages + n_dbcs_entries.
Proof.
  unfold all_codepages. split.
  - rewrite map_length. vm_compute. reflexivity.
  - rewrite n_entries_map. exact n_kentries_value.
Qed.

(* deciding uniqueness of a mapping on a concrete table *)
Definition unique_check (t : tables) (b u : list Z) : bool :=
  forallb (fun e => if list_Z_eqb (snd e) u then list_Z_eqb (fst e) b else true) t.(t_entries).

Lemma unique_check_ok t b u : unique_check t b u = true ->
  forall b', In (b', u) t.(t_entries) -> b' = b.
Proof.
  unfold unique_check. rewrite forallb_forall. intros H b' Hin. specialize (H (b', u) Hin).
  cbn [fst snd] in H. replace (list_Z_eqb u u) with true in H.
  - apply list_Z_eqb_eq. exact H.
  - symmetry. apply list_Z_eqb_eq. reflexivity.
Qed.

Lemma get_codepage_in name : (if find_codepage name then true else false) = true ->
  In (get_codepage name) all_codepages.
Proof.
  unfold get_codepage. destruct (find_codepage name) as [t|] eqn:E; [|discriminate].
  intros _. exact (find_codepage_in name t E).
Qed.

(* the cluster lists of every shipped page: no empty cluster, longest first (what _split_unicode relies on) *)
Definition check_clusters (r : raw_codepage) : bool :=
  forallb (fun cl => nonempty cl) r.(rc_clusters) && sorted_desc r.(rc_clusters).

Lemma all_clusters_ok : forallb check_clusters raw_codepages = true.
Proof. vm_compute. reflexivity. Qed.

Lemma clusters_ok t : In t all_codepages ->
  clusters_nonempty t /\ sorted_desc t.(t_clusters) = true.
Proof.
  unfold all_codepages. intros H. apply in_map_iff in H as (r & <- & Hr).
  pose proof (proj1 (forallb_forall _ _) all_clusters_ok r Hr) as H. unfold check_clusters in H.
  apply andb_true_iff in H as [H1 H2]. split; [|exact H2].
  unfold clusters_nonempty. cbn [tables_of t_clusters]. apply Forall_forall. intros cl Hcl.
  pose proof (proj1 (forallb_forall _ _) H1 cl Hcl) as Hne. destruct cl; [discriminate | discriminate].
Qed.

Lemma mem_seq_In x l : mem_seq x l = true -> In x l.
Proof.
  unfold mem_seq. rewrite existsb_exists. intros (y & Hy & E). apply list_Z_eqb_eq in E. now subst.
Qed.
