(* C31: unpack (pack s) = s for the packed-pixel GET/PUT array format (model/Sprite.v), every bit depth 1, 2, 4, 8,
   all widths and heights, any trailing bytes in the array.  The per-byte fact is a finite sweep (at most 511
   groups per depth) lifted to a forall; rows and sprites are by induction. *)
From Coq Require Import ZArith List Bool Lia ZifyBool.
From PCB Require Import lib.Result lib.PyInt lib.Harness model.Matrix model.Sprite.
Import ListNotations.
Open Scope Z_scope.
Ltac Zify.zify_post_hook ::= Z.to_euclidean_division_equations.

Definition bpp_ok (bpp : Z) : Prop := bpp = 1 \/ bpp = 2 \/ bpp = 4 \/ bpp = 8.

(* ---------- all groups of at most n pixel values *)
Fixpoint lists_upto (vals : list Z) (n : nat) : list (list Z) :=
  match n with
  | O => [[]]
  | S n' => [] :: flat_map (fun v => map (cons v) (lists_upto vals n')) vals
  end.

Lemma lists_upto_complete : forall vals n g,
  (length g <= n)%nat -> Forall (fun p => In p vals) g -> In g (lists_upto vals n).
Proof.
  intros vals n. induction n as [|n IH]; intros g Hl Hf.
  - destruct g; [left; reflexivity | cbn in Hl; lia].
  - destruct g as [|p g]; [left; reflexivity|]. right.
    apply in_flat_map. exists p. split; [exact (Forall_inv Hf)|].
    apply in_map. apply IH; [cbn in Hl; lia | exact (Forall_inv_tail Hf)].
Qed.

Definition vals (bpp : Z) : list Z := map Z.of_nat (seq 0 (Z.to_nat (2 ^ bpp))).

Lemma vals_complete : forall bpp p, 0 <= bpp -> 0 <= p < 2 ^ bpp -> In p (vals bpp).
Proof.
  intros bpp p Hb Hp. unfold vals. apply in_map_iff. exists (Z.to_nat p). split; [lia|].
  apply in_seq. lia.
Qed.

Definition group_check (bpp : Z) (g : list Z) : bool :=
  list_Z_eqb (firstn (length g) (unpack_byte bpp (pack_group bpp g))) g.

Lemma sweep1 : forallb (group_check 1) (lists_upto (vals 1) (ipb 1)) = true. Proof. vm_compute. reflexivity. Qed.
Lemma sweep2 : forallb (group_check 2) (lists_upto (vals 2) (ipb 2)) = true. Proof. vm_compute. reflexivity. Qed.
Lemma sweep4 : forallb (group_check 4) (lists_upto (vals 4) (ipb 4)) = true. Proof. vm_compute. reflexivity. Qed.
Lemma sweep8 : forallb (group_check 8) (lists_upto (vals 8) (ipb 8)) = true. Proof. vm_compute. reflexivity. Qed.

Lemma group_roundtrip : forall bpp g,
  bpp_ok bpp -> (length g <= ipb bpp)%nat -> Forall (fun p => 0 <= p < 2 ^ bpp) g ->
  firstn (length g) (unpack_byte bpp (pack_group bpp g)) = g.
Proof.
  intros bpp g Hb Hl Hf.
  assert (Hin : In g (lists_upto (vals bpp) (ipb bpp))).
  { apply lists_upto_complete; [exact Hl|]. eapply Forall_impl; [|exact Hf].
    intros p Hp. apply vals_complete; [destruct Hb as [E|[E|[E|E]]]; subst; lia | exact Hp]. }
  assert (Hs : forallb (group_check bpp) (lists_upto (vals bpp) (ipb bpp)) = true).
  { destruct Hb as [E|[E|[E|E]]]; subst bpp; [exact sweep1 | exact sweep2 | exact sweep4 | exact sweep8]. }
  rewrite forallb_forall in Hs. specialize (Hs g Hin). unfold group_check in Hs.
  apply list_Z_eqb_eq in Hs. exact Hs.
Qed.

Lemma unpack_byte_length : forall bpp b, length (unpack_byte bpp b) = ipb bpp.
Proof. intros. unfold unpack_byte, shifts, ipb. rewrite !map_length, seq_length. reflexivity. Qed.

Lemma ipb_pos : forall bpp, bpp_ok bpp -> (0 < ipb bpp)%nat.
Proof. intros bpp [E|[E|[E|E]]]; subst; vm_compute; lia. Qed.

(* ---------- rows *)
Lemma firstn_all_eq : forall {A} (l : list A) n, n = length l -> firstn n l = l.
Proof. intros. subst. apply firstn_all. Qed.

Lemma row_roundtrip_fuel : forall bpp, bpp_ok bpp -> forall fuel row,
  (length row <= fuel)%nat -> Forall (fun p => 0 <= p < 2 ^ bpp) row ->
  firstn (length row) (unpack_row bpp (map (pack_group bpp) (chunks fuel (ipb bpp) row))) = row.
Proof.
  intros bpp Hb. pose proof (ipb_pos bpp Hb) as Hn.
  induction fuel as [|f IH]; intros row Hl Hf.
  - destruct row; [reflexivity | cbn in Hl; lia].
  - destruct row as [|p r]; [reflexivity|].
    remember (p :: r) as row eqn:Er.
    assert (Hne : row <> []) by (subst; discriminate).
    cbn [chunks]. destruct row as [|p0 r0]; [congruence|]. clear Er p r.
    set (row := p0 :: r0) in *.
    cbn [map]. unfold unpack_row. cbn [map concat]. fold (unpack_row bpp).
    set (g := firstn (ipb bpp) row). set (rest := skipn (ipb bpp) row).
    assert (Hrow : row = g ++ rest) by (subst g rest; symmetry; apply firstn_skipn).
    assert (Hgf : Forall (fun p => 0 <= p < 2 ^ bpp) g).
    { apply Forall_forall. intros q Hq. rewrite Forall_forall in Hf. apply Hf. rewrite Hrow. apply in_or_app. left. exact Hq. }
    assert (Hrf : Forall (fun p => 0 <= p < 2 ^ bpp) rest).
    { apply Forall_forall. intros q Hq. rewrite Forall_forall in Hf. apply Hf. rewrite Hrow. apply in_or_app. right. exact Hq. }
    assert (Hgl : (length g <= ipb bpp)%nat) by (subst g; rewrite firstn_length; apply Nat.le_min_l).
    pose proof (group_roundtrip bpp g Hb Hgl Hgf) as Hg.
    pose proof (unpack_byte_length bpp (pack_group bpp g)) as HU.
    assert (Hrl : (length rest <= f)%nat).
    { subst rest. rewrite skipn_length. subst row. cbn [length] in *. lia. }
    specialize (IH rest Hrl Hrf).
    assert (Hlen : length row = (length g + length rest)%nat) by (rewrite Hrow at 1; apply app_length).
    destruct (le_lt_dec (ipb bpp) (length row)) as [Hfull | Hpart].
    + (* a full group *)
      assert (Hgn : length g = ipb bpp) by (subst g; rewrite firstn_length; lia).
      rewrite Hgn in Hg. rewrite firstn_all_eq in Hg by lia.
      rewrite Hg. rewrite Hlen. rewrite firstn_app. rewrite (firstn_all2 (n := (length g + length rest)%nat) g) by lia.
      replace (length g + length rest - length g)%nat with (length rest) by lia.
      fold (unpack_row bpp (map (pack_group bpp) (chunks f (ipb bpp) rest))).
      rewrite IH. symmetry. exact Hrow.
    + (* the last, partial group *)
      assert (Hr0 : rest = []).
      { subst rest. apply length_zero_iff_nil. rewrite skipn_length. lia. }
      assert (Hg0 : g = row) by (rewrite Hrow, Hr0, app_nil_r; reflexivity).
      rewrite firstn_app. rewrite HU.
      replace (length row - ipb bpp)%nat with 0%nat by lia. cbn [firstn]. rewrite app_nil_r.
      rewrite <- Hg0 at 1. rewrite Hg. exact Hg0.
Qed.

Theorem row_roundtrip : forall bpp row, bpp_ok bpp -> Forall (fun p => 0 <= p < 2 ^ bpp) row ->
  firstn (length row) (unpack_row bpp (pack_row bpp row)) = row.
Proof. intros bpp row Hb Hf. unfold pack_row. apply row_roundtrip_fuel; [exact Hb | lia | exact Hf]. Qed.

(* number of bytes of a packed row *)
Lemma chunks_length : forall {A} n, (0 < n)%nat -> forall fuel (l : list A), (length l <= fuel)%nat ->
  length (chunks fuel n l) = ((length l + n - 1) / n)%nat.
Proof.
  intros A n Hn. induction fuel as [|f IH]; intros l Hl.
  - destruct l; [|cbn in Hl; lia]. cbn. symmetry. apply Nat.div_small. lia.
  - destruct l as [|a l]; [cbn; symmetry; apply Nat.div_small; lia|].
    cbn [chunks length]. rewrite IH by (rewrite skipn_length; cbn [length] in *; lia).
    rewrite skipn_length. cbn [length].
    destruct (le_lt_dec n (S (length l))) as [H|H].
    + replace (S (length l) + n - 1)%nat with ((S (length l) - n + n - 1) + 1 * n)%nat by lia.
      rewrite Nat.div_add by lia. lia.
    + replace (S (length l) - n)%nat with 0%nat by lia.
      rewrite (Nat.div_small (0 + n - 1) n) by lia.
      assert (E : ((S (length l) + n - 1) / n = 1)%nat).
      { symmetry. apply Nat.div_unique with (r := (S (length l) - 1)%nat); lia. }
      lia.
Qed.

Lemma pack_row_length : forall bpp row, bpp_ok bpp ->
  zlen (pack_row bpp row) = (zlen row * bpp + 7) / 8.
Proof.
  intros bpp row Hb. unfold pack_row, zlen. rewrite map_length.
  rewrite chunks_length by (try apply ipb_pos; auto).
  destruct Hb as [E|[E|[E|E]]]; subst bpp.
  - change (ipb 1) with 8%nat. rewrite Nat2Z.inj_div. lia.
  - change (ipb 2) with 4%nat. rewrite Nat2Z.inj_div. lia.
  - change (ipb 4) with 2%nat. rewrite Nat2Z.inj_div. lia.
  - change (ipb 8) with 1%nat. rewrite Nat2Z.inj_div. lia.
Qed.

(* ---------- sprites *)
Lemma chunks_concat : forall {A} n (rows : list (list A)) fuel,
  (0 < n)%nat -> Forall (fun r => length r = n) rows -> (length (concat rows) <= fuel)%nat ->
  chunks fuel n (concat rows) = rows.
Proof.
  intros A n rows. induction rows as [|r rows IH]; intros fuel Hn Hf Hl.
  - destruct fuel; reflexivity.
  - pose proof (Forall_inv Hf) as Hr. cbv beta in Hr.
    destruct fuel as [|f]; [cbn [concat] in Hl; rewrite app_length in Hl; lia|].
    cbn [concat chunks]. destruct (r ++ concat rows) as [|a t] eqn:E.
    { apply (f_equal (@length A)) in E. rewrite app_length in E. cbn in E. lia. }
    rewrite <- E. rewrite firstn_app, skipn_app. rewrite Hr, Nat.sub_diag.
    rewrite firstn_all_eq by lia. rewrite skipn_all2 by lia. cbn [firstn skipn app]. rewrite app_nil_r.
    f_equal. apply IH; [exact Hn | exact (Forall_inv_tail Hf)|].
    cbn [concat] in Hl. rewrite app_length in Hl. lia.
Qed.

Lemma le_header : forall X rest, 0 <= X < 65536 -> le_decode (firstn 2 (le_encode 2 X ++ rest)) = X.
Proof.
  intros X rest HX. rewrite firstn_app. rewrite le_encode_length.
  replace (2 - 2)%nat with 0%nat by reflexivity. rewrite firstn_O, app_nil_r.
  rewrite firstn_all_eq by (rewrite le_encode_length; reflexivity).
  apply le_decode_encode. cbn. lia.
Qed.

Theorem sprite_roundtrip : forall bpp s w h extra,
  bpp_ok bpp -> sprite_ok bpp s w h -> 0 < w -> 0 < h -> w * bpp < 65536 -> h < 65536 ->
  unpack_sprite bpp (pack_sprite bpp s ++ extra) = s.
Proof.
  intros bpp s w h extra Hb [Hh Hrows] Hw Hh0 Hwb Hh1.
  assert (Hb0 : 0 < bpp) by (destruct Hb as [E|[E|[E|E]]]; subst; lia).
  assert (Hsw : sprite_w s = w).
  { unfold sprite_w. destruct s as [|r s']; [unfold zlen in Hh; cbn in Hh; lia|]. exact (proj1 (Forall_inv Hrows)). }
  unfold unpack_sprite, pack_sprite. rewrite Hsw, Hh. rewrite <- !app_assoc.
  rewrite le_header by lia.
  assert (Hs2 : skipn 2 (le_encode 2 (w * bpp) ++ le_encode 2 h ++ concat (map (pack_row bpp) s) ++ extra)
                = le_encode 2 h ++ concat (map (pack_row bpp) s) ++ extra).
  { rewrite skipn_app, le_encode_length. replace (2 - 2)%nat with 0%nat by reflexivity.
    rewrite skipn_all2 by (rewrite le_encode_length; lia). reflexivity. }
  rewrite Hs2. rewrite le_header by lia.
  assert (Hs4 : skipn 4 (le_encode 2 (w * bpp) ++ le_encode 2 h ++ concat (map (pack_row bpp) s) ++ extra)
                = concat (map (pack_row bpp) s) ++ extra).
  { rewrite (app_assoc (le_encode 2 (w * bpp))). rewrite skipn_app, app_length, !le_encode_length.
    replace (4 - (2 + 2))%nat with 0%nat by reflexivity.
    rewrite skipn_all2 by (rewrite app_length, !le_encode_length; lia). reflexivity. }
  rewrite Hs4.
  replace (w * bpp / bpp) with w by (symmetry; apply Z.div_mul; lia).
  set (rb := (w * bpp + 7) / 8).
  assert (Hrb : 0 < rb) by (subst rb; lia).
  assert (Hpr : Forall (fun r => length r = Z.to_nat rb) (map (pack_row bpp) s)).
  { apply Forall_forall. intros pr Hin. apply in_map_iff in Hin. destruct Hin as [r [E Hr]]. subst pr.
    rewrite Forall_forall in Hrows. destruct (Hrows r Hr) as [Hrl _].
    pose proof (pack_row_length bpp r Hb) as Hl. rewrite Hrl in Hl. fold rb in Hl. unfold zlen in Hl. lia. }
  assert (Hcl : length (concat (map (pack_row bpp) s)) = Z.to_nat (rb * h)).
  { clear - Hpr Hh. unfold zlen in Hh. revert h Hh. induction s as [|r s IH]; intros h Hh.
    - cbn in *. subst h. rewrite Z.mul_0_r. reflexivity.
    - cbn [map concat]. rewrite app_length. cbn [map] in Hpr.
      rewrite (Forall_inv Hpr). rewrite (IH (Forall_inv_tail Hpr) (Z.of_nat (length s)) eq_refl).
      cbn [length] in Hh. nia. }
  rewrite firstn_app, Hcl, Nat.sub_diag. cbn [firstn]. rewrite app_nil_r.
  rewrite firstn_all_eq by (symmetry; exact Hcl).
  assert (Hzl : zlen (concat (map (pack_row bpp) s)) = rb * h) by (unfold zlen; rewrite Hcl; nia).
  rewrite Hzl.
  destruct (rb * h =? 0) eqn:E1; [nia|]. destruct (h =? 0) eqn:E2; [lia|]. cbn [orb].
  rewrite Z.div_mul by lia. destruct (rb =? 0) eqn:E3; [lia|].
  rewrite (chunks_concat (Z.to_nat rb) (map (pack_row bpp) s)); [| lia | exact Hpr | lia].
  rewrite !map_map.
  assert (Hid : forall (l : matrix), (forall r, In r l -> In r s) ->
            map (fun x => firstn (Z.to_nat w) (unpack_row bpp (pack_row bpp x))) l = l).
  { induction l as [|r l IHl]; intros Hsub; [reflexivity|]. cbn [map]. f_equal.
    - rewrite Forall_forall in Hrows. destruct (Hrows r (Hsub r (or_introl eq_refl))) as [Hrl Hrf].
      replace (Z.to_nat w) with (length r) by (unfold zlen in Hrl; lia).
      apply row_roundtrip; assumption.
    - apply IHl. intros r' Hr'. apply Hsub. right. exact Hr'. }
  apply Hid. intros r Hr. exact Hr.
Qed.
