(* C27: every native name is a safe component, the cwd invariant, every host operation is root ++ safe
   components - for every normpath, every ntpath.split and every host that honours the listdir contract. *)
From Coq Require Import ZArith List Bool Lia.
From PCB Require Import lib.Result lib.PyInt lib.Harness gen.Gen_dosnames model.DosNames model.Paths
  proofs.DosNames_proofs.
Import ListNotations.
Open Scope Z_scope.

Local Arguments firstn : simpl never.

(* ---------- Hoare-style specification of a monadic computation ----------
   specg good m Q: every host operation m issues is on `good` paths, and a normal result satisfies Q.
   good := path_safe gives the confinement theorems; good := (fun _ => True) isolates the result. *)
Section Spec.
Variable good : npath -> Prop.
Definition op_good (o : hostop) : Prop := Forall good (op_paths o).
Definition trace_good (t : list hostop) : Prop := Forall op_good t.
Definition specg {A} (m : M A) (Q : A -> Prop) : Prop :=
  trace_good (fst m) /\ forall a, snd m = Ok a -> Q a.

Lemma spec_ret {A} (a : A) (Q : A -> Prop) : Q a -> specg (ret a) Q.
Proof. intro H. split; [constructor | intros b E; inversion E; subst; exact H]. Qed.

Lemma spec_fail {A} e (Q : A -> Prop) : specg (failE e) Q.
Proof. split; [constructor | intros b E; inversion E]. Qed.

Lemma spec_lift {A} (r : res A) (Q : A -> Prop) : (forall a, r = Ok a -> Q a) -> specg (lift r) Q.
Proof. intro H. split; [constructor | exact H]. Qed.

Lemma spec_tell o (Q : unit -> Prop) : op_good o -> Q tt -> specg (tell o) Q.
Proof.
  intros H1 H2. split; [constructor; [exact H1 | constructor] | intros [] _; exact H2].
Qed.

Lemma spec_bind {A B} (m : M A) (f : A -> M B) (Q : A -> Prop) (R : B -> Prop) :
  specg m Q -> (forall a, Q a -> specg (f a) R) -> specg (bindM m f) R.
Proof.
  intros [T1 Q1] H. unfold bindM. destruct (snd m) as [a| | |] eqn:E; simpl.
  - destruct (H a (Q1 a eq_refl)) as [T2 Q2]. split; [apply Forall_app; split; assumption | exact Q2].
  - split; [exact T1 | intros b X; inversion X].
  - split; [exact T1 | intros b X; inversion X].
  - split; [exact T1 | intros b X; inversion X].
Qed.

Lemma spec_tell_then {B} o (k : M B) (R : B -> Prop) :
  op_good o -> specg k R -> specg (bindM (tell o) (fun _ => k)) R.
Proof.
  intros H1 H2. apply spec_bind with (Q := fun _ => True); [apply spec_tell; [exact H1 | exact I] | intros _ _; exact H2].
Qed.

Lemma spec_weaken {A} (m : M A) (Q R : A -> Prop) : specg m Q -> (forall a, Q a -> R a) -> specg m R.
Proof. intros [T H] W. split; [exact T | intros a E; apply W, H, E]. Qed.

Lemma op_good_1 p : good p ->
  op_good (HIsdir p) /\ op_good (HIsfile p) /\ op_good (HExists p) /\ op_good (HListdir p) /\
  (forall m, op_good (HOpen p m)) /\ op_good (HMkdir p) /\ op_good (HRmdir p) /\ op_good (HRemove p) /\
  op_good (HStatvfs p).
Proof. intro H. unfold op_good. simpl. repeat split; repeat constructor; exact H. Qed.

Lemma op_good_rename p q : good p -> good q -> op_good (HRename p q).
Proof. intros H1 H2. unfold op_good. simpl. repeat constructor; assumption. Qed.
End Spec.
Arguments op_good_1 {good} p _.
Arguments op_good_rename {good} p q _ _.

Notation spec := (specg path_safe).

Lemma trace_good_safe t : trace_good path_safe t <-> trace_safe t.
Proof. reflexivity. Qed.

(* ---------- safe components ---------- *)
Lemma path_safe_join p c : path_safe p -> safe c -> path_safe (pjoin p c).
Proof.
  unfold path_safe, pjoin. simpl. intros H1 H2. apply Forall_app. split; [exact H1 | constructor; [exact H2 | constructor]].
Qed.

Lemma removelast_Forall {A} (P : A -> Prop) l : Forall P l -> Forall P (removelast l).
Proof.
  induction l as [|x [|y r] IH]; simpl; intro H; [constructor | constructor |].
  inversion H; subst. constructor; [assumption | apply IH; assumption].
Qed.

(* a DOS name that passed the D9 check, as a host name *)
Lemma safe_to_uni n : n <> [] -> is_special n = false -> ~ In c_slash n -> mem 0 (to_uni n) = false ->
  safe (to_uni n).
Proof.
  intros H1 H2 H3 H4. apply is_special_false in H2 as [H2a H2b].
  repeat split.
  - intro E. apply to_uni_nil in E. contradiction.
  - intro E. apply to_uni_dot in E. contradiction.
  - intro E. apply to_uni_dotdot in E. contradiction.
  - intro I. apply to_uni_slash in I. contradiction.
  - apply mem_not_In. exact H4.
Qed.

(* a legal normalised name of anything but "", ".", ".." is a safe component *)
Lemma safe_norm n : n <> [] -> is_special n = false ->
  dos_is_legal_name (dos_normalise_name n) = true -> safe (dos_normalise_name n).
Proof.
  intros Hne Hs HL.
  pose proof (norm_not_special n Hs) as Hns. apply is_special_false in Hns as [Hd Hdd].
  pose proof (legal_norm_parts n Hs HL) as [Pt Pe].
  assert (Hchars : forall c, In c (dos_normalise_name n) -> allowable c = true \/ c = c_dot).
  { intros c I. rewrite normalise_parts in I by exact Hs. apply in_app_or in I as [I|I].
    - left. apply Pt, I.
    - unfold dot_ext in I. destruct (snd (norm_parts n)) as [|x r] eqn:E; [inversion I|].
      destruct I as [I|I]; [right; symmetry; exact I | left; apply Pe; exact I]. }
  repeat split; try assumption.
  - (* not empty *)
    intro E. rewrite normalise_parts in E by exact Hs. apply app_eq_nil in E as [E1 E2].
    unfold norm_parts, dos_splitext in E1, E2.
    pose proof (splitext_rebuild (upper n)) as Hr.
    destruct (split_first c_dot (upper n)) as [t oe]. simpl in E1, E2.
    apply firstn_nil in E1. subst t.
    destruct oe as [e|].
    + unfold dot_ext in E2. destruct (firstn 3 e) eqn:F; [|discriminate].
      apply firstn_nil in F. subst e. simpl in Hr. apply upper_eq_dot in Hr.
      apply is_special_false in Hs. tauto.
    + simpl in Hr. apply upper_nil in Hr. contradiction.
  - intro I. destruct (Hchars _ I) as [A|A]; [apply allowable_not in A; tauto | discriminate].
  - intro I. destruct (Hchars _ I) as [A|A]; [apply allowable_not in A; tauto | discriminate].
Qed.

Lemma ends_single_dot_spec n : ends_single_dot n = true ->
  exists r, n = r ++ [c_dot] /\ ~ In c_dot r.
Proof.
  unfold ends_single_dot. intro H. destruct (rev n) as [|c r] eqn:E; [discriminate|].
  apply andb_true_iff in H as [H1 H2]. apply Z.eqb_eq in H1. apply negb_true_iff, mem_not_In in H2. subst c.
  exists (rev r). split.
  - rewrite <- (rev_involutive n), E. reflexivity.
  - intro I. apply H2. apply in_rev. exact I.
Qed.

Lemma removelast_snoc {A} (r : list A) x : removelast (r ++ [x]) = r.
Proof. apply removelast_last. Qed.

Section Names.
Variable h : host.
Hypothesis Hok : host_ok h.
Variable good : npath -> Prop.
Hypothesis good_join : forall p c, good p -> safe c -> good (pjoin p c).
Notation spec := (specg good).
Notation path_safe := good.
Notation path_safe_join := good_join.

Notation istype := (istype h).

Lemma istype_spec p n d : path_safe p -> (mem 0 n = false -> safe n) ->
  spec (istype p n d) (fun b => b = true -> mem 0 n = false).
Proof.
  intros Hp Hn. unfold Paths.istype. destruct (mem 0 n) eqn:E.
  - apply spec_ret. discriminate.
  - pose proof (op_good_1 (pjoin p n) (path_safe_join p n Hp (Hn eq_refl))) as S.
    destruct d; (apply spec_tell_then; [tauto | apply spec_ret; reflexivity]).
Qed.

Lemma scan_names_spec p dosname d l : path_safe p -> Forall safe l ->
  spec (scan_names h p dosname d l) (fun r => forall f, r = Some f -> safe f).
Proof.
  intros Hp. induction l as [|f r IH]; intro Hl; simpl.
  - apply spec_ret. discriminate.
  - inversion Hl as [|? ? Hf Hr]; subst.
    destruct (is_ascii f && dos_is_legal_name f && seqb (dos_normalise_name f) dosname); [|apply IH, Hr].
    eapply spec_bind; [apply istype_spec; [exact Hp | intros _; exact Hf]|].
    intros b _. destruct b; [apply spec_ret; intros g E; inversion E; subst; exact Hf | apply IH, Hr].
Qed.

Lemma dos_to_native_name_spec p dosname d : path_safe p -> (mem 0 dosname = false -> safe dosname) ->
  spec (dos_to_native_name h p dosname d) (fun r => forall f, r = Some f -> safe f).
Proof.
  intros Hp Hn. unfold dos_to_native_name. destruct (negb (is_ascii dosname)); [apply spec_ret; discriminate|].
  eapply spec_bind; [apply istype_spec; [exact Hp | exact Hn]|].
  intros b Hb. destruct b.
  - apply spec_ret. intros f E. inversion E; subst. apply Hn, Hb. reflexivity.
  - apply spec_tell_then; [apply op_good_1; exact Hp|]. destruct (h_listdir h p) as [l| | |] eqn:E; try (apply spec_ret; discriminate).
    apply scan_names_spec; [exact Hp|]. apply sort_by_Forall. apply (Hok p l E).
Qed.

Lemma native_name_core_spec p n d create : path_safe p ->
  n <> [] -> is_special n = false -> ~ In c_slash n ->
  spec (native_name_core h p n d create) safe.
Proof.
  intros Hp H1 H2 H3. unfold native_name_core.
  eapply spec_bind; [apply istype_spec; [exact Hp | apply safe_to_uni; assumption]|].
  intros b Hb. destruct b; [apply spec_ret; apply safe_to_uni; auto|].
  destruct (dos_is_legal_name (dos_normalise_name n)) eqn:L; simpl; [|apply spec_fail].
  pose proof (safe_norm n H1 H2 L) as Sn.
  eapply spec_bind; [apply dos_to_native_name_spec; [exact Hp | intros _; exact Sn]|].
  intros r Hr. destruct r as [[|c f]|].
  - destruct create; [apply spec_ret; exact Sn | apply spec_fail].
  - apply spec_ret. apply Hr. reflexivity.
  - destruct create; [apply spec_ret; exact Sn | apply spec_fail].
Qed.

Lemma bad_component_false n : bad_component n = false ->
  n <> [] /\ is_special n = false /\ ~ In c_slash n.
Proof.
  unfold bad_component. intro H.
  apply orb_false_iff in H as [H H4]. apply orb_false_iff in H as [H H3]. apply orb_false_iff in H as [H1 H2].
  apply seqb_neq in H1. apply mem_not_In in H3. tauto.
Qed.

Theorem get_native_name_spec p dos_name defext d create : path_safe p ->
  spec (get_native_name h p dos_name defext d create) safe.
Proof.
  intro Hp. unfold get_native_name.
  destruct (negb (seqb dos_name (lstrip dos_name))); [apply spec_fail|].
  destruct (bad_component (defext_name dos_name defext)) eqn:B; [apply spec_fail|].
  apply bad_component_false in B as (B1 & B2 & B3).
  set (n := defext_name dos_name defext) in *.
  destruct (ends_single_dot n) eqn:E.
  - eapply spec_bind; [apply istype_spec; [exact Hp | apply safe_to_uni; assumption]|].
    intros b Hb. destruct b; [apply spec_ret; apply safe_to_uni; auto|].
    apply ends_single_dot_spec in E as [r [Er Hr]].
    rewrite Er, removelast_snoc.
    apply native_name_core_spec; [exact Hp | | | ].
    + intro X. subst r. simpl in Er. apply is_special_false in B2. unfold s_dot, c_dot in *. tauto.
    + apply is_special_false. split; intro X; subst r; apply Hr; simpl; unfold c_dot; tauto.
    + intro X. apply B3. rewrite Er. apply in_or_app. left. exact X.
  - apply native_name_core_spec; assumption.
Qed.

Lemma walk_spec p elems : path_safe p -> spec (walk h p elems) path_safe.
Proof.
  revert p. induction elems as [|e r IH]; intros p Hp; simpl.
  - apply spec_ret. exact Hp.
  - eapply spec_bind; [apply get_native_name_spec; exact Hp|].
    intros c Hc. apply IH. apply path_safe_join; assumption.
Qed.

End Names.

Section Host.
Variable normpath : str -> str.
Variable ntsplit : str -> str * str.
Variable h : host.
Hypothesis Hok : host_ok h.
Local Notation walk_spec := (walk_spec h Hok path_safe path_safe_join).
Local Notation get_native_name_spec := (get_native_name_spec h Hok path_safe path_safe_join).

Lemma strip_leading_safe cwd elems : Forall safe cwd -> Forall safe (fst (strip_leading cwd elems)).
Proof.
  revert cwd. induction elems as [|e r IH]; intros cwd H; simpl; [exact H|].
  destruct (seqb e [] || seqb e s_dot); [apply IH, H|].
  destruct (seqb e s_dotdot); [apply IH, removelast_Forall, H | exact H].
Qed.

Lemma reldir_spec l d dospath : Forall safe (ds_cwd d) ->
  spec (get_native_reldir normpath h l d dospath) (Forall safe).
Proof.
  intro Hc. unfold get_native_reldir.
  destruct (mem c_slash dospath); [apply spec_fail|].
  destruct (negb (ds_mounted d)); [apply spec_fail|].
  match goal with |- context [strip_leading ?c ?e] =>
    pose proof (strip_leading_safe c e) as S; destruct (strip_leading c e) as [cwd1 elems] end.
  simpl in S.
  eapply spec_bind; [apply walk_spec; unfold path_safe; simpl; apply S|].
  - destruct dospath as [|c r]; [exact Hc|]. destruct (c =? c_bslash); [constructor | exact Hc].
  - intros p Hp. apply spec_ret. exact Hp.
Qed.

Lemma abspath_spec l d path defext isdir create : Forall safe (ds_cwd d) ->
  spec (get_native_abspath normpath ntsplit h l d path defext isdir create) path_safe.
Proof.
  intro Hc. unfold get_native_abspath. destruct (ntsplit path) as [dirname name].
  eapply spec_bind; [apply reldir_spec; exact Hc|].
  intros rel Hrel. destruct name as [|c name].
  - apply spec_ret. exact Hrel.
  - eapply spec_bind; [apply get_native_name_spec; exact Hrel|].
    intros x Hx. apply spec_ret. apply path_safe_join; assumption.
Qed.

Lemma try_op_spec o : op_safe o -> spec (try_op h o) (fun _ => True).
Proof.
  intro H. unfold try_op. apply spec_tell_then; [exact H|]. destruct (h_try h o); [apply spec_fail | apply spec_ret; exact I].
Qed.

Lemma split_pathmask_spec l d pathmask : Forall safe (ds_cwd d) ->
  spec (split_pathmask normpath ntsplit h l d pathmask) (fun pm => path_safe (fst pm)).
Proof.
  intro Hc. unfold split_pathmask. destruct (mem c_slash pathmask); [apply spec_fail|].
  destruct (ntsplit pathmask) as [dospath mask].
  destruct (reldir_spec l d dospath Hc) as [T Q].
  destruct (snd (get_native_reldir normpath h l d dospath)) as [rel| | |] eqn:E; split; simpl; try exact T;
    intros a X; inversion X; subst. simpl. apply Q. reflexivity.
Qed.

Lemma filter_dirs_spec p names : path_safe p -> Forall safe names ->
  spec (filter_dirs h p names) (Forall safe).
Proof.
  intros Hp. induction names as [|n r IH]; intro Hn; simpl.
  - apply spec_ret. constructor.
  - inversion Hn as [|? ? Hn1 Hn2]; subst.
    apply spec_tell_then; [apply op_good_1, path_safe_join; assumption|]. eapply spec_bind; [apply IH, Hn2|].
    intros rest Hrest. apply spec_ret. destruct (h_isdir h (pjoin p n)); [constructor; assumption | exact Hrest].
Qed.

Lemma filter_files_spec p names : path_safe p -> Forall safe names ->
  spec (filter_files h p names) (Forall safe).
Proof.
  intros Hp. induction names as [|n r IH]; intro Hn; simpl.
  - apply spec_ret. constructor.
  - inversion Hn as [|? ? Hn1 Hn2]; subst.
    pose proof (op_good_1 (pjoin p n) (path_safe_join p n Hp Hn1)) as S.
    apply spec_tell_then; [tauto|]. eapply spec_bind with (Q := fun _ => True).
    + destruct (h_exists h (pjoin p n)); [|apply spec_ret; exact I].
      apply spec_tell_then; [tauto|]. apply spec_ret. exact I.
    + intros keep _. eapply spec_bind; [apply IH, Hn2|].
      intros rest Hrest. apply spec_ret. destruct keep; [constructor; assumption | exact Hrest].
Qed.

Lemma dirs_files_spec p : path_safe p ->
  spec (dirs_files h p) (fun df => Forall safe (fst df) /\ Forall safe (snd df)).
Proof.
  intro Hp. unfold dirs_files.
  apply spec_tell_then; [apply op_good_1; exact Hp|]. destruct (h_listdir h p) as [l|e|x|] eqn:E.
  - pose proof (Hok p l E) as Hl.
    eapply spec_bind; [apply filter_dirs_spec; assumption|]. intros ds Hds.
    eapply spec_bind; [apply filter_files_spec; assumption|]. intros fs Hfs.
    apply spec_ret. split; assumption.
  - apply spec_fail.
  - split; [constructor | intros a X; inversion X].
  - split; [constructor | intros a X; inversion X].
Qed.

Lemma listdir_spec l d pathmask : Forall safe (ds_cwd d) ->
  spec (listdir normpath ntsplit h l d pathmask) (fun _ => True).
Proof.
  intro Hc. unfold listdir.
  destruct (internal_unmounted l d).
  { destruct (is_special _); apply spec_ret; exact I. }
  eapply spec_bind; [apply split_pathmask_spec; exact Hc|].
  intros [dir mask] Hdir. simpl in Hdir.
  destruct (is_special mask); [apply spec_ret; exact I|].
  eapply spec_bind; [apply dirs_files_spec; exact Hdir|].
  intros [dirs fils] _. apply spec_ret. exact I.
Qed.

Lemma remove_all_spec dir names : path_safe dir -> Forall safe names ->
  spec (remove_all h dir names) (fun _ => True).
Proof.
  intro Hd. induction names as [|n r IH]; intro Hn; simpl.
  - apply spec_ret. exact I.
  - inversion Hn; subst.
    eapply spec_bind; [apply try_op_spec; apply op_good_1, path_safe_join; assumption|].
    intros _ _. apply IH. assumption.
Qed.

(* what KILL removes are names that were listed *)
Lemma dict_set_values k v d x : In x (map snd (dict_set k v d)) -> x = v \/ In x (map snd d).
Proof.
  induction d as [|[k' v'] r IH]; simpl.
  - intros [H|[]]. left. symmetry. exact H.
  - destruct (seqb k k'); simpl.
    + intros [H|H]; [left; symmetry; exact H | right; right; exact H].
    + intros [H|H]; [right; left; exact H | destruct (IH H) as [A|A]; [left; exact A | right; right; exact A]].
Qed.

Lemma dict_from_values l x : In x (map snd (dict_from l)) -> In x (map snd l).
Proof.
  unfold dict_from.
  assert (G : forall d, In x (map snd (fold_left (fun d kv => dict_set (fst kv) (snd kv) d) l d)) ->
                        In x (map snd d) \/ In x (map snd l)).
  { induction l as [|[k v] r IH]; intros d H; simpl in *; [left; exact H|].
    destruct (IH _ H) as [A|A].
    - apply dict_set_values in A as [A|A]; [right; left; symmetry; exact A | left; exact A].
    - right. right. exact A. }
  intro H. destruct (G [] H) as [[]|A]. exact A.
Qed.

Lemma kill_select_sub mask files x : In x (kill_select mask files) -> In x files.
Proof.
  unfold kill_select, kill_table. intro H.
  apply in_map_iff in H as [[k v] [E I]]. simpl in E. subst v.
  apply filter_In in I as [I _]. apply filter_In in I as [I _].
  assert (J : In x (map snd (dict_from (map (fun n => (display_name n, n)) files)))).
  { apply in_map_iff. exists (k, x). split; [reflexivity | exact I]. }
  apply dict_from_values in J. rewrite map_map in J. simpl in J. rewrite map_id in J. exact J.
Qed.

Lemma kill_spec l d pathmask : Forall safe (ds_cwd d) ->
  spec (kill normpath ntsplit h l d pathmask) (fun _ => True).
Proof.
  intro Hc. unfold kill.
  destruct (internal_unmounted l d); [apply spec_fail|].
  eapply spec_bind; [apply split_pathmask_spec; exact Hc|].
  intros [dir mask] Hdir. simpl in Hdir.
  eapply spec_bind; [apply dirs_files_spec; exact Hdir|].
  intros [dirs files] [_ Hf]. simpl in Hf.
  pose proof (kill_select_sub mask files) as Sub.
  destruct (kill_select mask files) as [|n ns]; [apply spec_fail|].
  apply remove_all_spec; [exact Hdir|].
  apply Forall_forall. intros x Hx. rewrite Forall_forall in Hf. apply Hf, Sub, Hx.
Qed.

Lemma open_stream_spec p mode : path_safe p -> spec (open_stream h p mode) (fun _ => True).
Proof.
  intro Hp. pose proof (op_good_1 p Hp) as S. destruct S as (_ & _ & Sx & _ & So & _).
  unfold open_stream.
  eapply spec_bind with (Q := fun _ => True).
  - destruct ((mode =? 65) || (mode =? 82)); [|apply spec_ret; exact I].
    apply spec_tell_then; [exact Sx|].
    destruct (h_exists h p); [apply spec_ret; exact I|].
    eapply spec_bind; [apply try_op_spec, So|]. intros _ _. apply spec_ret. exact I.
  - intros created _.
    assert (Hop : forall o, op_safe o -> spec (if created then tell o else try_op h o) (fun _ => True)).
    { intros o Ho. destruct created; [apply spec_tell; [exact Ho | exact I] | apply try_op_spec, Ho]. }
    eapply spec_bind with (Q := fun _ => True).
    + destruct (mode =? 65); [apply Hop, So | apply spec_ret; exact I].
    + intros _ _. apply Hop, So.
Qed.

(* ---------- state ---------- *)
Lemma find_drive_safe l ds : Forall (fun kd => Forall safe (ds_cwd (snd kd))) ds ->
  Forall safe (ds_cwd (find_drive l ds)).
Proof.
  induction ds as [|[k d] r IH]; simpl; intro H; [constructor|].
  inversion H; subst. destruct (k =? l); [assumption | apply IH; assumption].
Qed.

Lemma get_drive_safe s l : state_ok s -> Forall safe (ds_cwd (get_drive s l)).
Proof. intro H. apply find_drive_safe, H. Qed.

Lemma set_drive_safe l d ds : Forall safe (ds_cwd d) ->
  Forall (fun kd => Forall safe (ds_cwd (snd kd))) ds ->
  Forall (fun kd => Forall safe (ds_cwd (snd kd))) (set_drive l d ds).
Proof.
  intro Hd. induction ds as [|[k d'] r IH]; simpl; intro H.
  - constructor; [exact Hd | constructor].
  - inversion H; subst. destruct (k =? l); constructor; simpl; try assumption. apply IH. assumption.
Qed.

Lemma set_cwd_ok s l cwd : state_ok s -> Forall safe cwd -> state_ok (set_cwd s l cwd).
Proof. intros Hs Hc. unfold state_ok, set_cwd. simpl. apply set_drive_safe; assumption. Qed.

Theorem exec_spec s st : state_ok s ->
  spec (exec normpath ntsplit h s st) (fun r => state_ok (fst r)).
Proof.
  intro Hs. assert (Hd : forall l, Forall safe (ds_cwd (get_drive s l))) by (intro l; apply get_drive_safe, Hs).
  destruct st as [name|name|name|name|a b|arg|name mode program]; simpl.
  - (* CHDIR *)
    destruct name as [|c name]; [apply spec_fail|].
    eapply spec_bind with (Q := fun _ => True); [apply spec_lift; trivial|]. intros [l path] _.
    eapply spec_bind; [apply reldir_spec, Hd|]. intros rel Hrel.
    apply spec_ret. simpl. apply set_cwd_ok; assumption.
  - (* MKDIR *)
    destruct name as [|c name]; [apply spec_fail|].
    eapply spec_bind with (Q := fun _ => True); [apply spec_lift; trivial|]. intros [l path] _.
    eapply spec_bind; [apply abspath_spec, Hd|]. intros p Hp.
    eapply spec_bind; [apply try_op_spec, op_good_1, Hp|]. intros _ _. apply spec_ret. exact Hs.
  - (* RMDIR *)
    destruct name as [|c name]; [apply spec_fail|].
    eapply spec_bind with (Q := fun _ => True); [apply spec_lift; trivial|]. intros [l path] _.
    eapply spec_bind; [apply abspath_spec, Hd|]. intros p Hp.
    eapply spec_bind; [apply try_op_spec, op_good_1, Hp|]. intros _ _. apply spec_ret. exact Hs.
  - (* KILL *)
    destruct name as [|c name]; [apply spec_fail|].
    eapply spec_bind with (Q := fun _ => True); [apply spec_lift; trivial|]. intros [l path] _.
    eapply spec_bind; [apply kill_spec, Hd|]. intros _ _. apply spec_ret. exact Hs.
  - (* NAME *)
    eapply spec_bind with (Q := fun _ => True); [apply spec_lift; trivial|]. intros [l1 p1] _.
    eapply spec_bind; [apply abspath_spec, Hd|]. intros _ _.
    eapply spec_bind with (Q := fun _ => True); [apply spec_lift; trivial|]. intros [l2 p2] _.
    destruct (negb (l1 =? l2)); [apply spec_fail|].
    eapply spec_bind; [apply abspath_spec, Hd|]. intros old Hold.
    eapply spec_bind; [apply abspath_spec, Hd|]. intros new Hnew.
    apply spec_tell_then; [apply op_good_1, Hnew|].
    destruct (h_exists h new); [apply spec_fail|].
    eapply spec_bind; [apply try_op_spec, op_good_rename; assumption|]. intros _ _. apply spec_ret. exact Hs.
  - (* FILES *)
    assert (G : forall pathmask,
      spec (do! '(l, path) <-- lift (split_device (st_cur s) pathmask) ;;
            do! out <-- listdir normpath ntsplit h l (get_drive s l) path ;;
            match out with
            | [] => failE dn_E_FILE_NOT_FOUND
            | _ :: _ => if internal_unmounted l (get_drive s l) then ret (s, out)
                        else do! _ <-- tell (HStatvfs (l, [])) ;; ret (s, out)
            end) (fun r => state_ok (fst r))).
    { intro pathmask.
      eapply spec_bind with (Q := fun _ => True); [apply spec_lift; trivial|]. intros [l path] _.
      eapply spec_bind; [apply listdir_spec, Hd|]. intros out _.
      destruct out; [apply spec_fail|].
      destruct (internal_unmounted l (get_drive s l)); [apply spec_ret; exact Hs|].
      apply spec_tell_then; [apply op_good_1; constructor|]. apply spec_ret. exact Hs. }
    destruct arg as [[|c m]|]; [apply spec_fail | apply G | apply G].
  - (* OPEN, LOAD, SAVE, ... *)
    destruct name as [|c name]; [apply spec_fail|].
    eapply spec_bind with (Q := fun _ => True); [apply spec_lift; trivial|]. intros [l spec0] _.
    destruct (negb (ds_mounted (get_drive s l))); [apply spec_fail|].
    eapply spec_bind; [apply abspath_spec, Hd|]. intros p Hp.
    eapply spec_bind; [apply open_stream_spec, Hp|]. intros _ _. apply spec_ret. exact Hs.
Qed.

End Host.

(* ---------- histories ---------- *)
Theorem run_safe normpath ntsplit steps : forall s,
  state_ok s -> Forall (fun hs => host_ok (fst hs)) steps ->
  Forall trace_safe (fst (run normpath ntsplit s steps)) /\ state_ok (snd (run normpath ntsplit s steps)).
Proof.
  induction steps as [|[h st] r IH]; intros s Hs Hh; simpl.
  - split; [constructor | exact Hs].
  - inversion Hh as [|? ? H1 H2]; subst. simpl in H1.
    destruct (exec_spec normpath ntsplit h H1 s st Hs) as [T Q].
    set (m := exec normpath ntsplit h s st) in *.
    assert (Hs' : state_ok (match snd m with Ok (s', _) => s' | _ => s end)).
    { destruct (snd m) as [[s' o]| | |] eqn:E; try exact Hs. apply (Q (s', o) eq_refl). }
    destruct (IH _ Hs' H2) as [IH1 IH2].
    destruct (run normpath ntsplit (match snd m with Ok (s', _) => s' | _ => s end) r) as [ts sf].
    simpl in *. split; [constructor; assumption | exact IH2].
Qed.

(* the result of name resolution alone: no assumption on the directory it is resolved in *)
Theorem native_name_safe h p n defext d create c : host_ok h ->
  snd (get_native_name h p n defext d create) = Ok c -> safe c.
Proof.
  intros Hok E.
  destruct (get_native_name_spec h Hok (fun _ => True) (fun _ _ _ _ => I) p n defext d create I) as [_ Q].
  exact (Q c E).
Qed.

Lemma safeb_safe c : safeb c = true <-> safe c.
Proof.
  unfold safeb, safe.
  rewrite !andb_true_iff, !negb_true_iff, !seqb_neq, !mem_not_In. tauto.
Qed.

(* the FS contract: a path of safe components below a mount root denotes an object inside that root's tree *)
Section Contract.
Variable obj : Type.
Variable denote : npath -> obj.            (* what the host resolves root(drive) ++ components to *)
Variable inside : Z -> obj -> Prop.        (* the object lies in the tree mounted as that drive *)
Hypothesis no_escape : forall p, path_safe p -> inside (fst p) (denote p).

Theorem ops_inside normpath ntsplit steps s :
  state_ok s -> Forall (fun hs => host_ok (fst hs)) steps ->
  forall t o p, In t (fst (run normpath ntsplit s steps)) -> In o t -> In p (op_paths o) ->
  inside (fst p) (denote p).
Proof.
  intros Hs Hh t o p It Io Ip.
  destruct (run_safe normpath ntsplit steps s Hs Hh) as [T _].
  rewrite Forall_forall in T. specialize (T t It). unfold trace_safe in T. rewrite Forall_forall in T.
  specialize (T o Io). unfold op_safe in T. rewrite Forall_forall in T. apply no_escape, T, Ip.
Qed.
End Contract.

(* ---------- devices that are not mounted disk drives touch no host path ---------- *)
Section NoHost.
Variable normpath : str -> str.
Variable ntsplit : str -> str * str.
Variable h : host.

Lemma bind_fail {A B} (m : M A) (f : A -> M B) e : m = ([], Err e) -> bindM m f = ([], Err e).
Proof. intro H. subst m. reflexivity. Qed.

Lemma reldir_unmounted l d path : ds_mounted d = false ->
  exists e, get_native_reldir normpath h l d path = ([], Err e).
Proof.
  intro H. unfold get_native_reldir. destruct (mem c_slash path); [eexists; reflexivity|].
  rewrite H. eexists. reflexivity.
Qed.

Lemma abspath_unmounted l d path defext isdir create : ds_mounted d = false ->
  exists e, get_native_abspath normpath ntsplit h l d path defext isdir create = ([], Err e).
Proof.
  intro H. unfold get_native_abspath. destruct (ntsplit path) as [dirname name].
  destruct (reldir_unmounted l d dirname H) as [e E]. exists e. apply bind_fail. exact E.
Qed.

Lemma split_pathmask_unmounted l d pathmask : ds_mounted d = false ->
  exists e, split_pathmask normpath ntsplit h l d pathmask = ([], Err e).
Proof.
  intro H. unfold split_pathmask. destruct (mem c_slash pathmask); [eexists; reflexivity|].
  destruct (ntsplit pathmask) as [dospath mask].
  destruct (reldir_unmounted l d dospath H) as [e E]. rewrite E. eexists. reflexivity.
Qed.

Lemma listdir_unmounted l d pathmask : ds_mounted d = false ->
  fst (listdir normpath ntsplit h l d pathmask) = [].
Proof.
  intro H. unfold listdir. destruct (internal_unmounted l d).
  - destruct (is_special _); reflexivity.
  - destruct (split_pathmask_unmounted l d pathmask H) as [e E]. rewrite (bind_fail _ _ e E). reflexivity.
Qed.

Lemma kill_unmounted l d pathmask : ds_mounted d = false ->
  fst (kill normpath ntsplit h l d pathmask) = [].
Proof.
  intro H. unfold kill. destruct (internal_unmounted l d); [reflexivity|].
  destruct (split_pathmask_unmounted l d pathmask H) as [e E]. rewrite (bind_fail _ _ e E). reflexivity.
Qed.

Lemma fst_bind_lift {A B} (r : res A) (f : A -> M B) :
  (forall a, r = Ok a -> fst (f a) = []) -> fst (bindM (lift r) f) = [].
Proof. intro H. unfold bindM, lift. simpl. destruct r; simpl; auto. Qed.

Lemma fst_bind_nil {A B} (m : M A) (f : A -> M B) :
  fst m = [] -> (forall a, snd m = Ok a -> fst (f a) = []) -> fst (bindM m f) = [].
Proof. intros H1 H2. unfold bindM. destruct (snd m) eqn:E; simpl; rewrite H1; auto. simpl. apply H2. reflexivity. Qed.

(* a state in which no drive is mounted (in particular: only @: and devices exist): no statement reaches the host *)
Theorem exec_unmounted s st : (forall l, ds_mounted (get_drive s l) = false) ->
  fst (exec normpath ntsplit h s st) = [].
Proof.
  intro U.
  assert (A : forall l path defext isdir create (B : Type) (f : npath -> M B),
             fst (bindM (get_native_abspath normpath ntsplit h l (get_drive s l) path defext isdir create) f) = []).
  { intros. destruct (abspath_unmounted l _ path defext isdir create (U l)) as [e E]. rewrite (bind_fail _ _ e E). reflexivity. }
  destruct st as [name|name|name|name|a b|arg|name mode program]; simpl.
  - destruct name; [reflexivity|]. apply fst_bind_lift. intros [l path] _.
    destruct (reldir_unmounted l (get_drive s l) path (U l)) as [e E]. rewrite (bind_fail _ _ e E). reflexivity.
  - destruct name; [reflexivity|]. apply fst_bind_lift. intros [l path] _. apply A.
  - destruct name; [reflexivity|]. apply fst_bind_lift. intros [l path] _. apply A.
  - destruct name; [reflexivity|]. apply fst_bind_lift. intros [l path] _.
    apply fst_bind_nil; [apply kill_unmounted, U | reflexivity].
  - apply fst_bind_lift. intros [l1 p1] _. apply A.
  - assert (G : forall pathmask,
      fst (do! '(l, path) <-- lift (split_device (st_cur s) pathmask) ;;
           do! out <-- listdir normpath ntsplit h l (get_drive s l) path ;;
           match out with
           | [] => failE dn_E_FILE_NOT_FOUND
           | _ :: _ => if internal_unmounted l (get_drive s l) then ret (s, out)
                       else do! _ <-- tell (HStatvfs (l, [])) ;; ret (s, out)
           end) = []).
    { intro pathmask. apply fst_bind_lift. intros [l path] _.
      apply fst_bind_nil; [apply listdir_unmounted, U|].
      intros out Hout. destruct out; [reflexivity|].
      destruct (internal_unmounted l (get_drive s l)) eqn:IU; [reflexivity|].
      (* a non-empty listing on an unmounted drive only comes from the internal drive *)
      exfalso. unfold listdir in Hout. rewrite IU in Hout.
      destruct (split_pathmask_unmounted l (get_drive s l) path (U l)) as [e E].
      rewrite (bind_fail _ _ e E) in Hout. discriminate. }
    destruct arg as [[|c m]|]; [reflexivity | apply G | apply G].
  - destruct name; [reflexivity|]. apply fst_bind_lift. intros [l spec0] _. rewrite (U l). reflexivity.
Qed.

(* OPEN / LOAD / SAVE / ... on a device that is not a disk drive (SCRN: KYBD: LPTn: COMn: CAS1:, the DOS device
   files CON AUX PRN NUL) or on an unknown device: the statement layer hands it to another device class or
   fails; DiskDevice is not entered and no host path is touched *)
Theorem exec_open_nondisk s name mode program e : open_device (st_cur s) name = Err e ->
  fst (exec normpath ntsplit h s (SOpen name mode program)) = [].
Proof.
  intro H. simpl. destruct name; [reflexivity|]. rewrite H. reflexivity.
Qed.

(* the same per statement: a statement addressed to one unmounted drive *)
Theorem exec_open_unmounted s name mode program l spec0 :
  open_device (st_cur s) name = Ok (l, spec0) -> ds_mounted (get_drive s l) = false ->
  fst (exec normpath ntsplit h s (SOpen name mode program)) = [].
Proof.
  intros H U. simpl. destruct name; [reflexivity|]. rewrite H. unfold lift, bindM. simpl. rewrite U. reflexivity.
Qed.
End NoHost.
