(* C08: the number a ^^^^ field shows (digits, position of the point, exponent) is exactly
   mantissa * 10^exponent of Float.to_decimal(work_digits) - also when the field has more digit positions than
   the type has digits (zero padding) and when rounding carried into an extra digit. *)
From Coq Require Import ZArith List Bool Lia ZifyBool.
From PCB Require Import lib.Result lib.PyInt lib.Harness gen.Gen_using model.Using
  proofs.Using_proofs proofs.Using_digits.
Import ListNotations.
Open Scope Z_scope.

Theorem to_str_scientific_value v db da fd m0 e0 :
  nv_zero v = false -> 0 <= db -> 0 <= da -> 1 <= db + da ->
  let req := db + da in
  let w := Z.min (nv_digits v) req in
  to_decimal v w = Ok (m0, e0) -> Z.abs m0 <= 10 ^ w ->
  exists ip fp dd X,
    to_str_scientific v db da fd
      = Ok (ip ++ (if (0 <? da) || fd then [cDOT] else []) ++ fp
            ++ exp_sign v :: (if X <? 0 then cMINUS else cPLUS) :: dd)
    /\ Z.of_nat (length ip) = db /\ Z.of_nat (length fp) = da
    /\ Forall is_digit (ip ++ fp) /\ Forall is_digit dd /\ (2 <= length dd)%nat /\ dval dd = Z.abs X
    (* digits * 10^(X - da) = |m0| * 10^e0, scaled by any 10^K that makes both exponents non-negative *)
    /\ forall K, 0 <= K + (X - da) -> 0 <= K + e0 ->
         dval (ip ++ fp) * 10 ^ (K + (X - da)) = Z.abs m0 * 10 ^ (K + e0).
Proof.
  intros Hz Hdb Hda Hreq req w Hd Hm.
  assert (Hw : 0 < w).
  { unfold w, nv_digits, req. destruct (nv_dbl v); unfold using_digits_double, using_digits_single; lia. }
  destruct (sci_pair_spec v w m0 e0 Hd Hw Hm) as [m [e [Hp [Hlt [Hval He]]]]].
  destruct (to_str_scientific_digits v db da fd m (e + w) Hz Hdb Hda Hp (fun _ => Hlt))
    as [ip [fp [dd [E1 [E2 [E3 [E4 [E5 [E6 [E7 E8]]]]]]]]]].
  exists ip, fp, dd, (e + w - db). repeat split; auto.
  intros K HK1 HK2. rewrite (E5 Hw). fold req.
  assert (Hs : 0 <= req - w) by (unfold w; lia).
  rewrite <- Hval, Z.abs_mul, (Z.abs_eq (10 ^ (e - e0))) by (apply Z.pow_nonneg; lia).
  rewrite <- !Z.mul_assoc, <- !Z.pow_add_r by (unfold req in *; lia).
  f_equal. f_equal. unfold req. lia.
Qed.
