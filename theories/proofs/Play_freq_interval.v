(* C42, CROSS-CHECK ONLY (not in the closure of props/C42.v): the same 84 inequalities as
   proofs/Play_freq_proofs.v, discharged directly by the `interval` tactic (Coq-Interval) on the regenerated
   literals.  Brings Classical_Prop.classic and the PrimInt63 primitives / Uint63 *_spec axioms in addition to the
   axioms of the reals; `coqchk` over the Interval/Flocq/Coquelicot closure takes > 30 min, which is why the
   property file uses the integer criterion instead.  Build with ./check --build proofs/Play_freq_interval.v *)
From Coq Require Import ZArith List Reals Lia Lra.
From Interval Require Import Tactic.
From PCB Require Import gen.Gen_play.
Import ListNotations.
Open Scope R_scope.

(* the exact binary64 value of NOTE_FREQ[i] *)
Definition note_freq (i : nat) : R :=
  let p := nth i play_note_freq (0%Z, 1%positive) in IZR (fst p) / IZR (Zpos (snd p)).

(* 12-tone equal temperament, A = 440 Hz at index 33 (octave 2, A) *)
Definition ideal_freq (i : nat) : R := 440 * Rpower 2 ((IZR (Z.of_nat i) - 33) / 12).

Theorem freq_table : forall i : nat, (i < 84)%nat ->
  Rabs (note_freq i - ideal_freq i) <= / 2 ^ 40 * note_freq i.
Proof.
  intros i Hi.
  do 84 (destruct i as [|i];
         [ unfold note_freq, ideal_freq;
           cbv [nth play_note_freq fst snd Z.of_nat Pos.of_succ_nat Pos.succ];
           unfold Rpower; interval with (i_prec 80) | ]).
  lia.
Qed.

Theorem freq_A440 : note_freq 33 = 440.
Proof. unfold note_freq. cbv [nth play_note_freq fst snd]. lra. Qed.

Lemma ideal_A440 : ideal_freq 33 = 440.
Proof.
  unfold ideal_freq. cbv [Z.of_nat Pos.of_succ_nat Pos.succ].
  replace ((33 - 33) / 12) with 0 by lra. rewrite Rpower_O by lra. lra.
Qed.

(* one semitone up multiplies the ideal frequency by 2^(1/12): the ratio structure of the scale *)
Lemma ideal_semitone i : ideal_freq (S i) = ideal_freq i * Rpower 2 (1 / 12).
Proof.
  unfold ideal_freq. rewrite Nat2Z.inj_succ, succ_IZR.
  replace ((IZR (Z.of_nat i) + 1 - 33) / 12) with ((IZR (Z.of_nat i) - 33) / 12 + 1 / 12) by lra.
  rewrite Rpower_plus. ring.
Qed.
