(* MBFArith_div.v - Float.idiv / _div_den (C04, C05): division by zero, zero dividend, and x / 1 = x
   through the restoring long division with strict comparison and the round-up in _normalise. *)
From Coq Require Import ZArith List Bool Lia ZifyBool.
From PCB Require Import lib.Result lib.PyInt lib.Harness lib.MBFPrims gen.Gen_mbf model.MBF
  proofs.MBF_base proofs.MBF_compare proofs.MBF_convert proofs.MBF_round proofs.MBFArith_norm
  proofs.MBFArith_mul proofs.MBFArith_add.
Import ListNotations.
Open Scope Z_scope.
Ltac Zify.zify_post_hook ::= Z.to_euclidean_division_equations.

Lemma dloop_S f C lden rden lneg rexp rneg lman lexp work rman :
  mbf_div_den_loop_4 (S f) C lden rden lneg rexp rneg lman lexp work rman =
    if rman >? 0 then
      mbf_div_den_loop_4 f C lden rden lneg rexp rneg
        (if work >? rman then Z.shiftl lman 1 + 1 else Z.shiftl lman 1) (lexp - 1)
        (if work >? rman then work - rman else work) (Z.shiftr rman 1)
    else Ok (lman, lexp, work, rman).
Proof.
  cbn [mbf_div_den_loop_4]. destruct (rman >? 0); [|reflexivity].
  destruct (work >? rman); reflexivity.
Qed.

Lemma tup4 (a a' b b' c c' d d' : Z) : a = a' -> b = b' -> c = c' -> d = d' ->
  @Ok (Z * Z * Z * Z) (a, b, c, d) = Ok (a', b', c', d').
Proof. congruence. Qed.

(* ------------------------------------------------------------------------------------------------ *)
(* special cases of idiv *)

Theorem idiv_by_zero C a z : f_zero z = true -> mbf_idiv C a z = Host 6.
Proof. intros Hz. unfold mbf_idiv. rewrite is_zero_spec, Hz. reflexivity. Qed.

Theorem idiv_zero C a b : f_zero b = false -> f_zero a = true -> mbf_idiv C a b = Ok a.
Proof. intros Hb Ha. unfold mbf_idiv. rewrite !is_zero_spec, Hb, Ha. reflexivity. Qed.

(* ------------------------------------------------------------------------------------------------ *)
(* division by a power of two mantissa: the quotient is the dividend minus one (strict comparison) *)

Lemma dloop_pow2 C lden rden lneg rexp rneg : forall (t : nat) (f : nat) q e work,
  (S t < f)%nat -> 0 < work <= 2 * 2 ^ Z.of_nat t ->
  mbf_div_den_loop_4 f C lden rden lneg rexp rneg q e work (2 ^ Z.of_nat t)
  = Ok (q * 2 ^ (Z.of_nat t + 1) + work - 1, e - (Z.of_nat t + 1), 1, 0).
Proof.
  induction t as [|t IH]; intros f q e work Hf Hw.
  - change (Z.of_nat 0) with 0 in *. change (2 ^ 0) with 1 in *. change (2 ^ (0 + 1)) with 2.
    destruct f as [|[|f]]; try lia. rewrite dloop_S. change (1 >? 0) with true. cbv iota.
    change (Z.shiftr 1 1) with 0. rewrite dloop_S. change (0 >? 0) with false. cbv iota.
    rewrite Z.shiftl_mul_pow2 by lia. change (2 ^ 1) with 2.
    destruct (Z.gtb_spec work 1); apply tup4; lia.
  - destruct f as [|f]; [lia|]. rewrite dloop_S.
    assert (Hp : 0 < 2 ^ Z.of_nat t) by (apply pow2_pos; lia).
    rewrite Nat2Z.inj_succ. rewrite Z.pow_succ_r by lia.
    destruct (Z.gtb_spec (2 * 2 ^ Z.of_nat t) 0); [|lia].
    rewrite Z.shiftr_div_pow2 by lia. change (2 ^ 1) with 2.
    replace (2 * 2 ^ Z.of_nat t / 2) with (2 ^ Z.of_nat t) by lia.
    rewrite Z.shiftl_mul_pow2 by lia. change (2 ^ 1) with 2.
    rewrite Nat2Z.inj_succ, Z.pow_succ_r in Hw by lia.
    replace (Z.succ (Z.of_nat t) + 1) with ((Z.of_nat t + 1) + 1) by lia.
    rewrite (pow2_S (Z.of_nat t + 1)) by lia. rewrite (pow2_S (Z.of_nat t)) by lia.
    destruct (Z.gtb_spec work (2 * 2 ^ Z.of_nat t)) as [Hgt|Hle].
    + rewrite IH by lia. rewrite !(pow2_S (Z.of_nat t)) by lia. apply tup4; lia.
    + rewrite IH by lia. rewrite !(pow2_S (Z.of_nat t)) by lia. apply tup4; lia.
Qed.

Theorem idiv_one C a : fmt_ok C -> buf_ok C a ->
  mbf_idiv C a (c_one C) = Ok a.
Proof.
  intros HC Ha. pose proof (mbits_ge C HC) as Hg. pose proof (mbits_le C HC) as Hl.
  assert (Hbias : c_bias C = 128 + mbits C) by apply (ok_bias C HC).
  set (P := 2 ^ (mbits C - 1)) in *. assert (HP : 0 < P) by (apply pow2_pos; lia).
  assert (H2P : 2 ^ mbits C = 2 * P) by (apply pow2_pred; lia).
  assert (Hone_ok : buf_ok C (c_one C)).
  { rewrite one_encode by assumption. apply f_encode_ok; [assumption | unfold byte_ok; lia | fold P; lia]. }
  destruct (f_encode_fields C false 129 P HC ltac:(unfold byte_ok; lia) ltac:(fold P; lia)) as (E1 & E2 & E3).
  rewrite <- one_encode in E1, E2, E3 by assumption.
  assert (Hzo : f_zero (c_one C) = false) by (unfold f_zero; rewrite E1; reflexivity).
  destruct (f_zero a) eqn:Hza; [apply idiv_zero; assumption|].
  pose proof (f_man_bound C a HC) as Hma. pose proof (f_exp_bound C a HC Ha) as Hea.
  assert (Hea1 : 1 <= f_exp a) by (unfold f_zero in Hza; lia).
  fold P in Hma. rewrite H2P in Hma.
  unfold mbf_idiv. rewrite !is_zero_spec, Hzo, Hza.
  rewrite !denormalise_spec by assumption. rewrite E1, E2, E3.
  unfold mbf_div_den.
  (* the divisor mantissa is 2^(mbits + 7) *)
  assert (E7 : 256 * P = 2 ^ Z.of_nat (Z.to_nat (mbits C + 7))).
  { rewrite Z2Nat.id by lia. unfold P. replace (mbits C + 7) with (8 + (mbits C - 1)) by lia.
    rewrite pow2_split by lia. reflexivity. }
  rewrite E7.
  rewrite (dloop_pow2 C _ _ _ _ _ (Z.to_nat (mbits C + 7)) 1000).
  2:{ lia. }
  2:{ rewrite <- E7. lia. }
  cbn [bind]. cbv beta iota. rewrite Z2Nat.id by lia.
  rewrite Z.mul_0_l, Z.add_0_l.
  replace (f_exp a - (129 - c_bias C - 8) + 1 - (mbits C + 7 + 1)) with (f_exp a) by lia.
  set (ma := f_man C a) in *.
  destruct (normalise_gen C a (f_exp a) (256 * ma - 1) (negb (Bool.eqb (f_neg C a) false)) HC (proj1 Ha))
    as (k & Hk & Hrange & Hk0 & Hres).
  { rewrite (ok_den_upper C HC). replace (mbits C + 8) with (9 + (mbits C - 1)) by lia.
    rewrite pow2_split by lia. fold P. change (2 ^ 9) with 512. lia. }
  { lia. }
  assert (Ek : k = 0).
  { apply Hk0. rewrite (ok_den_mask C HC). replace (mbits C + 7) with (8 + (mbits C - 1)) by lia.
    rewrite pow2_split by lia. fold P. change (2 ^ 8) with 256. lia. }
  subst k. rewrite Z.pow_0_r, Z.mul_1_r, Z.sub_0_r in Hres. rewrite Hres. cbn [bind].
  unfold norm_result.
  assert (Er : round_even8 (256 * ma - 1) = ma).
  { unfold round_even8. replace ((256 * ma - 1) / 256) with (ma - 1) by lia.
    replace ((256 * ma - 1) mod 256) with 255 by lia. cbn. lia. }
  rewrite Er, H2P. destruct (Z.eqb_spec ma (2 * P)); [lia|].
  destruct (Z.gtb_spec (f_exp a) 255); [lia|].
  unfold clamp0. destruct (Z.leb_spec (f_exp a) 0); [lia|].
  cbn [bind]. f_equal. replace (negb (Bool.eqb (f_neg C a) false)) with (f_neg C a) by (destruct (f_neg C a); reflexivity).
  apply f_encode_self; assumption.
Qed.

(* ------------------------------------------------------------------------------------------------ *)
(* the restoring division in general: loop invariant.
   R0 = divisor mantissa (a multiple of 256), W0 = dividend mantissa; after i iterations the divisor has
   been halved (with truncation) i times, q holds the i quotient bits, w the remaining work mantissa. *)

Definition rr (R0 i : Z) : Z := R0 / 2 ^ i.

Definition dinv (R0 W0 i q w : Z) : Prop :=
  0 <= q /\ 0 < w <= 2 * rr R0 i + Z.max 0 (i - 8) /\
  2 ^ i * W0 <= 2 * q * R0 + 2 ^ i * w <= 2 ^ i * W0 + Z.max 0 (i - 9) * 2 ^ i /\
  (i = 0 -> w = W0 /\ q = 0) /\
  (1 <= i -> R0 < W0 -> 2 ^ i <= 2 * q) /\
  (1 <= i -> W0 = R0 -> 2 * q = 2 ^ i - 2 /\ 2 * rr R0 i <= w).

Lemma rr_facts mr i : 0 < mr -> 0 <= i ->
  let R0 := 256 * mr in
  rr R0 (i + 1) = rr R0 i / 2 /\
  (i <= 7 -> rr R0 i = 2 * rr R0 (i + 1)) /\
  R0 = 2 ^ i * rr R0 i + R0 mod 2 ^ i /\ 0 <= R0 mod 2 ^ i < 2 ^ i /\
  (i <= 8 -> R0 mod 2 ^ i = 0) /\ 0 <= rr R0 i.
Proof.
  intros Hmr Hi R0. unfold rr. assert (Hp : 0 < 2 ^ i) by (apply pow2_pos; lia).
  assert (E1 : R0 / 2 ^ (i + 1) = R0 / 2 ^ i / 2).
  { rewrite pow2_S by lia. rewrite Z.mul_comm. rewrite <- Z.div_div by lia. reflexivity. }
  split; [exact E1|]. split.
  - intros Hle. rewrite E1.
    assert (E : R0 = 2 ^ i * (2 * (2 ^ (7 - i) * mr))).
    { unfold R0. change 256 with (2 ^ 8). replace 8 with (i + (1 + (7 - i))) at 1 by lia.
      rewrite !pow2_split by lia. change (2 ^ 1) with 2. lia. }
    rewrite E. rewrite Z.mul_comm, Z.div_mul by lia. lia.
  - split; [apply Z.div_mod; lia|]. split; [apply Z.mod_pos_bound; lia|]. split.
    + intros Hle.
      assert (E : R0 = (2 ^ (8 - i) * mr) * 2 ^ i).
      { unfold R0. change 256 with (2 ^ 8). replace 8 with ((8 - i) + i) at 1 by lia.
        rewrite pow2_split by lia. lia. }
      rewrite E. apply Z.mod_mul. lia.
    + apply Z.div_pos; unfold R0; lia.
Qed.

Lemma dinv_step mr W0 i q w : 0 < mr -> 0 <= i ->
  let R0 := 256 * mr in
  0 < rr R0 i -> dinv R0 W0 i q w ->
  dinv R0 W0 (i + 1) (if w >? rr R0 i then 2 * q + 1 else 2 * q) (if w >? rr R0 i then w - rr R0 i else w).
Proof.
  intros Hmr Hi R0 Hr (Hq & Hw & HU & H0 & Hgt & Heq).
  destruct (rr_facts mr i Hmr Hi) as (F1 & F1e & F2 & F2b & F2z & Frn). fold R0 in F1, F1e, F2, F2b, F2z, Frn.
  destruct (rr_facts mr (i + 1) Hmr ltac:(lia)) as (_ & _ & _ & _ & _ & Frn1). fold R0 in Frn1.
  set (r := rr R0 i) in *. set (r1 := rr R0 (i + 1)) in *. set (F := R0 mod 2 ^ i) in *.
  assert (Hp : 0 < 2 ^ i) by (apply pow2_pos; lia).
  assert (Hp1 : 2 ^ (i + 1) = 2 * 2 ^ i) by (apply pow2_S; lia).
  set (p := 2 ^ i) in *.
  assert (Hrho : r = 2 * r1 \/ (r = 2 * r1 + 1 /\ 8 <= i)).
  { destruct (Z.le_gt_cases i 7) as [Hle|Hgt7]; [left; apply F1e; exact Hle|].
    assert (r = 2 * r1 \/ r = 2 * r1 + 1) by lia. lia. }
  assert (HF : F = 0 \/ 9 <= i) by (destruct (Z.le_gt_cases i 8); [left; apply F2z; assumption | right; lia]).
  set (cu := Z.max 0 (i - 9)) in *. set (cu' := Z.max 0 (i + 1 - 9)).
  assert (Hcu : (0 <= cu <= cu') /\ (9 <= i -> cu' = cu + 1)) by (unfold cu, cu'; lia).
  unfold dinv. rewrite Hp1.
  destruct (Z.gtb_spec w r) as [Hb|Hb].
  - (* quotient bit 1 *)
    split; [lia|]. split; [lia|]. split.
    { replace (2 * (2 * q + 1) * R0 + 2 * p * (w - r)) with (2 * (2 * q * R0 + p * w) + 2 * (R0 - p * r)) by lia.
      replace (R0 - p * r) with F by lia. fold cu cu'.
      set (Sm := 2 * q * R0 + p * w) in *.
      destruct HF as [HF|HF].
      - assert (cu * p <= cu' * p) by (clear - Hcu Hp; nia). lia.
      - rewrite (proj2 Hcu HF). lia. }
    split; [lia|]. split.
    { intros _ Hlt. destruct (Z.eq_dec i 0) as [E0|E0]; [subst i; unfold p; change (2 ^ 0) with 1; lia|].
      specialize (Hgt ltac:(lia) Hlt). lia. }
    { intros _ HWR. destruct (Z.eq_dec i 0) as [E0|E0].
      - exfalso. destruct (H0 E0) as [Ew _]. subst i. unfold r, rr in Hb. change (2 ^ 0) with 1 in Hb.
        rewrite Z.div_1_r in Hb. lia.
      - destruct (Heq ltac:(lia) HWR) as [E1 E2]. split; [lia|]. lia. }
  - (* quotient bit 0 *)
    split; [lia|]. split; [lia|]. split.
    { replace (2 * (2 * q) * R0 + 2 * p * w) with (2 * (2 * q * R0 + p * w)) by lia. fold cu cu'.
      set (Sm := 2 * q * R0 + p * w) in *.
      assert (cu * p <= cu' * p) by (clear - Hcu Hp; nia). lia. }
    split; [lia|]. split.
    { intros _ Hlt. destruct (Z.eq_dec i 0) as [E0|E0].
      - exfalso. destruct (H0 E0) as [Ew _]. subst i. unfold r, rr in Hb. change (2 ^ 0) with 1 in Hb.
        rewrite Z.div_1_r in Hb. lia.
      - specialize (Hgt ltac:(lia) Hlt). lia. }
    { intros _ HWR. destruct (Z.eq_dec i 0) as [E0|E0].
      - destruct (H0 E0) as [Ew Eq]. subst i q. unfold p. change (2 ^ 0) with 1.
        assert (Er : r = R0) by (unfold r, rr; change (2 ^ 0) with 1; apply Z.div_1_r). lia.
      - exfalso. destruct (Heq ltac:(lia) HWR) as [E1 E2]. lia. }
Qed.

Lemma dloop_inv C lden rden lneg rexp rneg mr W0 : 0 < mr ->
  let R0 := 256 * mr in
  forall (t f : nat) i q e w, (t < f)%nat -> 0 <= i -> rr R0 i < 2 ^ Z.of_nat t -> dinv R0 W0 i q w ->
  exists n q' w', i <= n /\ rr R0 n = 0 /\ (n = i \/ 0 < rr R0 (n - 1)) /\
    mbf_div_den_loop_4 f C lden rden lneg rexp rneg q e w (rr R0 i) = Ok (q', e - (n - i), w', 0) /\
    dinv R0 W0 n q' w'.
Proof.
  intros Hmr R0. induction t as [|t IH]; intros f i q e w Hf Hi Hlt Hinv.
  - destruct (rr_facts mr i Hmr Hi) as (_ & _ & _ & _ & _ & Frn). fold R0 in Frn.
    change (2 ^ Z.of_nat 0) with 1 in Hlt. assert (E0 : rr R0 i = 0) by lia.
    destruct f as [|f]; [lia|]. rewrite dloop_S, E0. change (0 >? 0) with false. cbv iota.
    exists i, q, w. split; [lia|]. split; [exact E0|]. split; [left; reflexivity|].
    split; [apply tup4; lia | exact Hinv].
  - destruct (rr_facts mr i Hmr Hi) as (F1 & _ & _ & _ & _ & Frn). fold R0 in F1, Frn.
    destruct f as [|f]; [lia|]. rewrite dloop_S.
    destruct (Z.gtb_spec (rr R0 i) 0) as [Hpos|Hz].
    + rewrite Z.shiftr_div_pow2 by lia. change (2 ^ 1) with 2. rewrite <- F1.
      rewrite Z.shiftl_mul_pow2 by lia. change (2 ^ 1) with 2.
      pose proof (dinv_step mr W0 i q w Hmr Hi Hpos Hinv) as Hstep. fold R0 in Hstep.
      rewrite Nat2Z.inj_succ, Z.pow_succ_r in Hlt by lia.
      destruct (IH f (i + 1) (if w >? rr R0 i then 2 * q + 1 else 2 * q) (e - 1)
                  (if w >? rr R0 i then w - rr R0 i else w) ltac:(lia) ltac:(lia) ltac:(rewrite F1; lia) Hstep)
        as (n & q' & w' & Hn & Hrn & Hprev & Hloop & Hinv').
      exists n, q', w'. split; [lia|]. split; [exact Hrn|]. split.
      { right. destruct Hprev as [E|Hp]; [|exact Hp]. subst n. replace (i + 1 - 1) with i by lia. exact Hpos. }
      split; [|exact Hinv'].
      replace (e - (n - i)) with (e - 1 - (n - (i + 1))) by lia. rewrite <- Hloop.
      destruct (w >? rr R0 i); f_equal; lia.
    + assert (E0 : rr R0 i = 0) by lia. rewrite E0.
      exists i, q, w. split; [lia|]. split; [exact E0|]. split; [left; reflexivity|].
      split; [apply tup4; lia | exact Hinv].
Qed.

(* ------------------------------------------------------------------------------------------------ *)
(* _div_den on two non-zero operands: the quotient mantissa q and its distance from the exact quotient *)

Lemma div_den_spec C ea ma (na : bool) eb mb (nb : bool) : fmt_ok C ->
  2 ^ (mbits C - 1) <= ma < 2 ^ mbits C -> 2 ^ (mbits C - 1) <= mb < 2 ^ mbits C ->
  let P := 2 ^ (mbits C - 1) in let m := mbits C in
  exists q, mbf_div_den C (ea, 256 * ma, na) (eb, 256 * mb, nb) = Ok (ea - eb + 129, q, negb (Bool.eqb na nb)) /\
    128 * P <= q < 512 * P /\
    P * (256 * ma - m) <= q * mb <= P * (256 * ma + m - 2) /\
    (mb < ma -> 256 * P <= q) /\ (ma = mb -> q = 256 * P - 1).
Proof.
  intros HC Hma Hmb P m. pose proof (mbits_ge C HC) as Hg. pose proof (mbits_le C HC) as Hl.
  assert (Hbias : c_bias C = 128 + mbits C) by apply (ok_bias C HC).
  assert (HP : 0 < P) by (apply pow2_pos; lia).
  assert (H2P : 2 ^ mbits C = 2 * P) by (apply pow2_pred; lia). rewrite H2P in Hma, Hmb.
  set (R0 := 256 * mb). set (W0 := 256 * ma).
  assert (Hinv0 : dinv R0 W0 0 0 W0).
  { unfold dinv, rr. change (2 ^ 0) with 1. rewrite Z.div_1_r. unfold R0, W0. repeat split; try lia. }
  assert (Hr0 : rr R0 0 = R0) by (unfold rr; change (2 ^ 0) with 1; apply Z.div_1_r).
  destruct (dloop_inv C (ea, 256 * ma, na) (eb, 256 * mb, nb) (negb (Bool.eqb na nb)) eb nb mb W0 ltac:(lia)
              900 1000 0 0 (ea - (eb - c_bias C - 8) + 1) W0 ltac:(lia) ltac:(lia))
    as (n & q & w & Hn & Hrn & Hprev & Hloop & Hinv); [| exact Hinv0 |].
  { fold R0. rewrite Hr0. change (Z.of_nat 900) with 900.
    assert (2 ^ (mbits C + 8) <= 2 ^ 900) by (apply pow2_le; lia).
    assert (E8 : 2 ^ (mbits C + 8) = 512 * P).
    { unfold P. replace (mbits C + 8) with (9 + (mbits C - 1)) by lia. rewrite pow2_split by lia. reflexivity. }
    unfold R0. lia. }
  fold R0 in Hrn, Hprev, Hloop, Hinv. rewrite Hr0 in Hloop.
  (* the number of iterations is the bit length of R0: mbits + 8 *)
  assert (En : n = m + 8).
  { assert (E7 : 2 ^ (m + 7) = 256 * P).
    { unfold P, m. replace (mbits C + 7) with (8 + (mbits C - 1)) by lia. rewrite pow2_split by lia. reflexivity. }
    assert (Hn0 : n <> 0) by (intro; subst n; rewrite Hr0 in Hrn; unfold R0 in Hrn; lia).
    destruct Hprev as [|Hprev]; [lia|].
    unfold rr in Hrn, Hprev.
    assert (Hpn : 0 < 2 ^ n) by (apply pow2_pos; lia). assert (Hpn1 : 0 < 2 ^ (n - 1)) by (apply pow2_pos; lia).
    assert (Hlt : R0 < 2 ^ n).
    { destruct (Z.lt_ge_cases R0 (2 ^ n)) as [|Hge]; [assumption|exfalso].
      assert (1 <= R0 / 2 ^ n) by (apply Z.div_le_lower_bound; lia). lia. }
    assert (Hge : 2 ^ (n - 1) <= R0).
    { destruct (Z.le_gt_cases (2 ^ (n - 1)) R0) as [|Hlt']; [assumption|exfalso].
      rewrite Z.div_small in Hprev by (unfold R0 in *; lia). lia. }
    destruct (Z.lt_trichotomy n (m + 8)) as [Hlt'|[|Hgt']]; [exfalso|assumption|exfalso].
    - assert (2 ^ n <= 2 ^ (m + 7)) by (apply pow2_le; lia). unfold R0 in *. lia.
    - assert (2 ^ (m + 8) <= 2 ^ (n - 1)) by (apply pow2_le; unfold m; lia).
      replace (m + 8) with (m + 7 + 1) in H by lia. rewrite pow2_S in H by (unfold m; lia). unfold R0 in *. lia. }
  exists q. unfold mbf_div_den. cbv beta iota zeta. fold R0 W0. fold W0 in Hloop.
  rewrite Hloop. cbn [bind]. cbv beta iota. unfold W0 at 1 2.
  split.
  { f_equal. f_equal. f_equal. subst n. unfold m. lia. }
  destruct Hinv as (Hq0 & Hw & HU & _ & Hgt & Heq).
  rewrite Hrn in Hw. subst n.
  assert (E2n : 2 ^ (m + 8) = 512 * P).
  { unfold P, m. replace (mbits C + 8) with (9 + (mbits C - 1)) by lia. rewrite pow2_split by lia. reflexivity. }
  rewrite E2n in *. rewrite Z.max_r in * by (unfold m; lia).
  replace (m + 8 - 8) with m in Hw by lia. replace (m + 8 - 9) with (m - 1) in HU by lia.
  (* the two-sided bound on q * R0 *)
  assert (Hlo : P * (256 * ma - m) <= q * mb) by (unfold R0, W0 in HU; nia).
  assert (Hhi : q * mb <= P * (256 * ma + m - 2)) by (unfold R0, W0 in HU; nia).
  split; [|split; [split; assumption|split]].
  - unfold m in *. split; nia.
  - intros Hlt. specialize (Hgt ltac:(unfold m; lia) ltac:(unfold R0, W0; lia)). lia.
  - intros Hee. destruct (Heq ltac:(unfold m; lia) ltac:(unfold R0, W0; lia)) as [E _]. lia.
Qed.

(* ------------------------------------------------------------------------------------------------ *)
(* idiv as a statement about values: error < 1 ulp, Overflow / zero only beyond the range.
   (the hypothesis mbits <= 56 covers Single and Double: the accumulated truncation of the halved divisor is
   at most mbits units of the 8 guard bits and has to stay below half a unit in the last place) *)

Theorem idiv_post C a b : fmt_ok2 C -> mbits C <= 56 -> buf_ok C a -> buf_ok C b -> f_zero b = false ->
  mag_post C true 1 1 (f_mag C a * 2 ^ c_bias C) (f_mag C b)
           (negb (Bool.eqb (f_neg C a) (f_neg C b))) (mbf_idiv C a b).
Proof.
  intros [HC _] Hm56 Ha Hb Hzb.
  pose proof (mbits_ge C HC) as Hg.
  assert (Hbias : c_bias C = 128 + mbits C) by apply (ok_bias C HC).
  pose proof (f_mag_pos C b HC Hb Hzb) as HDn.
  assert (Hpm : 0 < 2 ^ mbits C) by (apply pow2_pos; lia).
  assert (Hpb : 0 < 2 ^ c_bias C) by (apply pow2_pos; lia).
  destruct (f_zero a) eqn:Hza.
  { rewrite (idiv_zero C a b Hzb Hza). assert (E0 : f_mag C a = 0) by (unfold f_mag; rewrite Hza; reflexivity).
    rewrite E0, Z.mul_0_l. split.
    - split; [exact Ha|]. rewrite Hza. nia.
    - intros Hbig. exfalso. assert (0 < 2 ^ 255) by (apply pow2_pos; lia). nia. }
  pose proof (f_man_bound C a HC) as Hma. pose proof (f_man_bound C b HC) as Hmb.
  pose proof (f_exp_bound C a HC Ha) as Hea. pose proof (f_exp_bound C b HC Hb) as Heb.
  assert (Hea1 : 1 <= f_exp a) by (unfold f_zero in Hza; lia).
  assert (Heb1 : 1 <= f_exp b) by (unfold f_zero in Hzb; lia).
  destruct (div_den_spec C (f_exp a) (f_man C a) (f_neg C a) (f_exp b) (f_man C b) (f_neg C b) HC Hma Hmb)
    as (q & Hdiv & Hqr & [Hlo Hhi] & Hgt & Heq). cbv zeta in *.
  set (P := 2 ^ (mbits C - 1)) in *. assert (HP : 0 < P) by (apply pow2_pos; lia).
  assert (H2P : 2 ^ mbits C = 2 * P) by (apply pow2_pred; lia). rewrite H2P in Hma, Hmb.
  set (ma := f_man C a) in *. set (mb := f_man C b) in *.
  set (ea := f_exp a) in *. set (eb := f_exp b) in *. set (m := mbits C) in *.
  set (neg := negb (Bool.eqb (f_neg C a) (f_neg C b))) in *.
  set (en := ea - eb + 129) in *.
  assert (Hidiv : mbf_idiv C a b = mbf_normalise C a en q neg).
  { unfold mbf_idiv. rewrite !is_zero_spec, Hzb, Hza. rewrite !denormalise_spec by assumption.
    fold ma mb ea eb. rewrite Hdiv. cbn [bind]. cbv beta iota. apply bind_ret. }
  rewrite Hidiv.
  assert (HNm : f_mag C a = ma * 2 ^ ea) by (unfold f_mag; rewrite Hza; reflexivity).
  assert (HDnv : f_mag C b = mb * 2 ^ eb) by (unfold f_mag; rewrite Hzb; reflexivity).
  rewrite HNm, HDnv in *.
  set (Nm := ma * 2 ^ ea * 2 ^ c_bias C). set (Dn := mb * 2 ^ eb) in *.
  assert (Hpea : 0 < 2 ^ ea) by (apply pow2_pos; lia). assert (Hpeb : 0 < 2 ^ eb) by (apply pow2_pos; lia).
  assert (HNm0 : 0 <= Nm) by (unfold Nm; apply Z.mul_nonneg_nonneg; nia).
  assert (E2m : 2 ^ m = 2 * P) by exact H2P.
  (* exponent <= 0 at entry *)
  assert (Hsmall : en <= 0 -> Nm < 2 ^ m * Dn).
  { intros Hen. unfold Nm, Dn. rewrite Hbias. fold m.
    replace (128 + m) with (128 + (m - 1) + 1) by lia. rewrite pow2_S, pow2_split by lia. fold P. rewrite E2m.
    assert (Hle : 2 * 2 ^ (ea + 128) <= 2 ^ eb).
    { rewrite <- pow2_S by lia. apply pow2_le. unfold en in Hen. lia. }
    rewrite pow2_split in Hle by lia.
    set (x := 2 ^ ea) in *. set (y := 2 ^ eb) in *. set (z := 2 ^ 128) in *.
    assert (0 < z) by (apply pow2_pos; lia).
    assert (Hxz : 0 < x * z) by nia.
    assert (H1 : ma * (x * z) < 2 * P * (x * z)) by (apply Z.mul_lt_mono_pos_r; lia).
    assert (H2 : P * (2 * (x * z)) <= mb * y) by (clear - Hle Hmb HP Hxz; nia).
    replace (ma * x * (2 * (z * P))) with (2 * P * (ma * (x * z))) by lia.
    replace (2 * P * (mb * y)) with (2 * P * (mb * y)) by lia.
    clear - H1 H2 HP. nia. }
  destruct (Z.leb_spec en 0) as [Hz|Hnz].
  { rewrite normalise_exp0 by lia. apply mag_post_zeros; try assumption.
    split; [exact HNm0|]. fold m. apply Hsmall. exact Hz. }
  (* scales *)
  set (S := 2 ^ (OFF + 8)). assert (HS : 0 < S) by (apply pow2_pos; unfold OFF; lia).
  set (Tq := 2 ^ (ea + 129 + OFF)). assert (HTq : 0 < Tq) by (apply pow2_pos; unfold OFF; lia).
  assert (E7 : 2 ^ (m + 7) = 256 * P).
  { unfold P, m. replace (mbits C + 7) with (8 + (mbits C - 1)) by lia. rewrite pow2_split by lia. reflexivity. }
  assert (E8 : 2 ^ (m + 8) = 512 * P).
  { unfold P, m. replace (mbits C + 8) with (9 + (mbits C - 1)) by lia. rewrite pow2_split by lia. reflexivity. }
  assert (HNS : Nm * S = ma * (256 * P) * Tq).
  { unfold Nm, S, Tq. rewrite <- E7, Hbias. fold m.
    replace (ma * 2 ^ ea * 2 ^ (128 + m) * 2 ^ (OFF + 8)) with (ma * (2 ^ ea * 2 ^ (128 + m) * 2 ^ (OFF + 8))) by lia.
    replace (ma * 2 ^ (m + 7) * 2 ^ (ea + 129 + OFF)) with (ma * (2 ^ (m + 7) * 2 ^ (ea + 129 + OFF))) by lia.
    f_equal. rewrite <- !pow2_split by (unfold OFF; lia). f_equal. lia. }
  assert (HQG : 2 ^ (en + OFF) * Dn = mb * Tq).
  { unfold Dn, Tq. replace (2 ^ (en + OFF) * (mb * 2 ^ eb)) with (mb * (2 ^ (en + OFF) * 2 ^ eb)) by lia.
    f_equal. rewrite <- pow2_split by (unfold OFF, en in *; lia). f_equal. unfold en. lia. }
  assert (HVG : q * 2 ^ (en + OFF) * Dn = q * mb * Tq) by (rewrite <- Z.mul_assoc, HQG; lia).
  (* NmS - VG = Tq * (256 P ma - q mb) within [- P (m-2) Tq, P m Tq] *)
  assert (Hd1 : Nm * S - q * 2 ^ (en + OFF) * Dn <= P * m * Tq).
  { rewrite HNS, HVG. replace (ma * (256 * P) * Tq - q * mb * Tq) with ((256 * P * ma - q * mb) * Tq) by lia.
    apply Z.mul_le_mono_nonneg_r; [lia|]. lia. }
  assert (Hd2 : q * 2 ^ (en + OFF) * Dn - Nm * S <= P * (m - 2) * Tq).
  { rewrite HNS, HVG. replace (q * mb * Tq - ma * (256 * P) * Tq) with ((q * mb - 256 * P * ma) * Tq) by lia.
    apply Z.mul_le_mono_nonneg_r; [lia|]. lia. }
  assert (Hq0 : 0 < q < c_den_upper C) by (rewrite (ok_den_upper C HC); fold m; rewrite E8; lia).
  pose proof (normalise_val C a en q neg OFF HC (proj1 Ha) Hq0 ltac:(lia) ltac:(unfold OFF; lia)) as Hnp.
  set (r := mbf_normalise C a en q neg) in *.
  (* shift count of _normalise is at most 1 *)
  assert (Hk1 : forall k, 0 <= k -> q * 2 ^ k < 2 ^ (m + 8) -> 2 ^ k <= 2).
  { intros k Hk Hlt. rewrite E8 in Hlt.
    destruct (Z.le_gt_cases k 1) as [Hle|Hgt1].
    - change 2 with (2 ^ 1) at 2. apply pow2_le. lia.
    - exfalso. assert (2 ^ 2 <= 2 ^ k) by (apply pow2_le; lia). change (2 ^ 2) with 4 in *. nia. }
  assert (HSD : S * Dn = 2 ^ (OFF + 8) * Dn) by reflexivity.
  assert (Hscale : forall k, 0 <= k -> 0 <= en - k + OFF -> 2 ^ (en + OFF) = 2 ^ k * 2 ^ (en - k + OFF)).
  { intros k Hk Hpos. rewrite <- pow2_split by lia. f_equal. lia. }
  (* P * m * 2 < 128 * mb *)
  assert (Hkey : forall t, 0 < t <= 2 -> P * m * t < 128 * mb).
  { intros t Ht. assert (Hmt : m * t <= 112) by (clear - Ht Hm56 Hg; nia).
    replace (P * m * t) with (P * (m * t)) by lia.
    assert (P * (m * t) <= P * 112) by (apply Z.mul_le_mono_nonneg_l; lia). lia. }
  assert (HA := norm_partA C true 1 1 Nm Dn neg OFF en q r S Dn HC ltac:(unfold OFF; lia) HS HDn HDn HSD
                  ltac:(lia) ltac:(lia) Hnp).
  assert (HBC := norm_partBC C Nm Dn neg OFF en q r S Dn HC ltac:(unfold OFF; lia) HS HDn HDn HSD ltac:(lia) Hnp).
  fold m in HA, HBC.
  assert (HA' : forall b0, r = Ok b0 -> buf_ok C b0 /\
            (if f_zero b0 then Nm < 2 ^ m * Dn
             else f_neg C b0 = neg /\ err_ok true (1 * Z.abs (f_mag C b0 * Dn - Nm)) (1 * 2 ^ f_exp b0 * Dn))).
  { apply HA.
    - intros k Hk Hr' _ Hpos. cbn [err_ok].
      specialize (Hk1 k Hk (proj2 Hr')). specialize (Hscale k Hk Hpos).
      set (u := 2 ^ (en - k + OFF)) in *. assert (Hu : 0 < u) by (apply pow2_pos; lia).
      assert (H2k : 0 < 2 ^ k) by (apply pow2_pos; lia).
      assert (HuG : 2 ^ k * (u * Dn) = mb * Tq) by (rewrite <- HQG, Hscale; lia).
      assert (Habs : Z.abs (Nm * S - q * 2 ^ (en + OFF) * Dn) <= P * m * Tq).
      { assert (P * (m - 2) * Tq <= P * m * Tq).
        { apply Z.mul_le_mono_nonneg_r; [lia|]. apply Z.mul_le_mono_nonneg_l; lia. }
        lia. }
      (* |d| + 128 u G < 256 u G  <=  |d| * 2^k < 128 * 2^k u G = 128 mb Tq *)
      assert (Hlt : P * m * Tq * 2 ^ k < 128 * (2 ^ k * (u * Dn))).
      { rewrite HuG. specialize (Hkey (2 ^ k) ltac:(lia)).
        replace (P * m * Tq * 2 ^ k) with (P * m * 2 ^ k * Tq) by lia.
        replace (128 * (mb * Tq)) with (128 * mb * Tq) by lia.
        apply Z.mul_lt_mono_pos_r; [exact HTq | exact Hkey]. }
      assert (Hlt2 : P * m * Tq < 128 * (u * Dn)).
      { apply (Z.mul_lt_mono_pos_r (2 ^ k)); [exact H2k|]. lia. }
      lia.
    - intros k Hk Hr' Hk0 Hek HV.
      (* exact quotient below MIN: ma * 2^(en) < 2 * mb *)
      assert (Hcase : en <= 0 \/ (en = 1 /\ k = 1)).
      { specialize (Hk1 k Hk (proj2 Hr')).
        destruct (Z.eq_dec k 0) as [->|Hk']; [left; lia|].
        assert (k = 1).
        { destruct (Z.le_gt_cases k 1); [lia|exfalso]. assert (2 ^ 2 <= 2 ^ k) by (apply pow2_le; lia).
          change (2 ^ 2) with 4 in *. lia. }
        lia. }
      destruct Hcase as [Hle|[Hen1 Hk1']]; [lia|].
      (* k = 1: q < 256 P - 1, hence ma < mb *)
      assert (Hqs : q < 256 * P - 1).
      { destruct (Z.lt_ge_cases q (256 * P - 1)) as [|Hge]; [assumption|exfalso].
        assert (k = 0) by (apply Hk0; rewrite E7; lia). lia. }
      assert (Hlt : ma < mb).
      { destruct (Z.lt_trichotomy ma mb) as [|[Ee|Hgt']]; [assumption|exfalso|exfalso].
        - specialize (Heq Ee). lia.
        - specialize (Hgt Hgt'). lia. }
      (* Nm S = ma 256 P Tq < 512 P 2^OFF Dn  with en = 1: Tq = 2^(eb + OFF + 1)... *)
      rewrite HNS, E8.
      assert (ETq : Tq = 2 * (2 ^ OFF * 2 ^ eb)).
      { unfold Tq. replace (ea + 129 + OFF) with (OFF + eb + 1) by (unfold en in Hen1; lia).
        rewrite pow2_S, pow2_split by (unfold OFF; lia). reflexivity. }
      rewrite ETq. unfold Dn.
      set (x := 2 ^ OFF * 2 ^ eb).
      assert (0 < x) by (apply Z.mul_pos_pos; [apply pow2_pos; unfold OFF; lia | exact Hpeb]).
      replace (512 * P * 2 ^ OFF * (mb * 2 ^ eb)) with (512 * P * mb * x) by (unfold x; lia).
      replace (ma * (256 * P) * (2 * x)) with (512 * P * ma * x) by lia.
      apply Z.mul_lt_mono_pos_r; [assumption|]. clear - Hlt HP. nia. }
  assert (HBC' : (match r return Prop with
                  | Host x => x = 5 /\ (2 ^ m - 1) * 2 ^ 255 * Dn < Nm
                  | Ok _ => True
                  | _ => False
                  end) /\ (2 ^ m * 2 ^ 255 * Dn <= Nm -> r = Host 5)).
  { apply HBC.
    - intros k Hk Hr' _. specialize (Hk1 k Hk (proj2 Hr')).
      assert (H2k : 0 < 2 ^ k) by (apply pow2_pos; lia).
      replace (127 * 2 ^ (en + OFF) * Dn) with (127 * (2 ^ (en + OFF) * Dn)) by lia. rewrite HQG.
      assert (P * (m - 2) * Tq * 2 ^ k < 127 * (mb * Tq)).
      { replace (P * (m - 2) * Tq * 2 ^ k) with (P * (m - 2) * 2 ^ k * Tq) by lia.
        replace (127 * (mb * Tq)) with (127 * mb * Tq) by lia.
        apply Z.mul_lt_mono_pos_r; [exact HTq|].
        assert (Hmt : (m - 2) * 2 ^ k <= 108) by (clear - Hk1 Hm56 Hg H2k; nia).
        replace (P * (m - 2) * 2 ^ k) with (P * ((m - 2) * 2 ^ k)) by lia.
        assert (P * ((m - 2) * 2 ^ k) <= P * 108) by (apply Z.mul_le_mono_nonneg_l; lia). lia. }
      apply Z.le_lt_trans with (P * (m - 2) * Tq * 2 ^ k); [|assumption].
      apply Z.mul_le_mono_nonneg_r; lia.
    - intros k Hk Hr' _. specialize (Hk1 k Hk (proj2 Hr')).
      assert (H2k : 0 < 2 ^ k) by (apply pow2_pos; lia).
      replace (128 * 2 ^ (en + OFF) * Dn) with (128 * (2 ^ (en + OFF) * Dn)) by lia. rewrite HQG.
      assert (P * m * Tq * 2 ^ k < 128 * (mb * Tq)).
      { replace (P * m * Tq * 2 ^ k) with (P * m * 2 ^ k * Tq) by lia.
        replace (128 * (mb * Tq)) with (128 * mb * Tq) by lia.
        apply Z.mul_lt_mono_pos_r; [exact HTq|]. apply Hkey. lia. }
      apply Z.le_lt_trans with (P * m * Tq * 2 ^ k); [|assumption].
      apply Z.mul_le_mono_nonneg_r; lia. }
  destruct HBC' as [HB HCv]. split; [|exact HCv].
  destruct r as [b0|e0|x0|]; try contradiction.
  - specialize (HA' b0 eq_refl). destruct HA' as [Hok Hrest]. split; [exact Hok|].
    destruct (f_zero b0); [exact Hrest|]. rewrite !Z.mul_1_l in Hrest. rewrite !Z.mul_1_l. exact Hrest.
  - exact HB.
Qed.
