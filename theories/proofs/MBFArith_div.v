(* MBFArith_div.v - Float.idiv / _div_den (C04, C05): division by zero, zero dividend, and x / 1 = x
   through the restoring long division with strict comparison and the round-up in _normalise. *)
From Coq Require Import ZArith List Bool Lia ZifyBool.
From PCB Require Import lib.Result lib.PyInt lib.Harness lib.MBFPrims gen.Gen_mbf model.MBF
  proofs.MBF_base proofs.MBF_compare proofs.MBF_convert proofs.MBF_round proofs.MBFArith_norm
  proofs.MBFArith_mul proofs.MBFArith_add.
Import ListNotations.
Open Scope Z_scope.
Ltac Zify.zify_post_hook ::= Z.to_euclidean_division_equations.

Lemma dloop_S f C lden rden lneg rexp rneg lman lexp work rman :
  mbf_div_den_loop_4 (S f) C lden rden lneg rexp rneg lman lexp work rman =
    if rman >? 0 then
      mbf_div_den_loop_4 f C lden rden lneg rexp rneg
        (if work >? rman then Z.shiftl lman 1 + 1 else Z.shiftl lman 1) (lexp - 1)
        (if work >? rman then work - rman else work) (Z.shiftr rman 1)
    else Ok (lman, lexp, work, rman).
Proof.
  cbn [mbf_div_den_loop_4]. destruct (rman >? 0); [|reflexivity].
  destruct (work >? rman); reflexivity.
Qed.

Lemma tup4 (a a' b b' c c' d d' : Z) : a = a' -> b = b' -> c = c' -> d = d' ->
  @Ok (Z * Z * Z * Z) (a, b, c, d) = Ok (a', b', c', d').
Proof. congruence. Qed.

(* ------------------------------------------------------------------------------------------------ *)
(* special cases of idiv *)

Theorem idiv_by_zero C a z : f_zero z = true -> mbf_idiv C a z = Host 6.
Proof. intros Hz. unfold mbf_idiv. rewrite is_zero_spec, Hz. reflexivity. Qed.

Theorem idiv_zero C a b : f_zero b = false -> f_zero a = true -> mbf_idiv C a b = Ok a.
Proof. intros Hb Ha. unfold mbf_idiv. rewrite !is_zero_spec, Hb, Ha. reflexivity. Qed.

(* ------------------------------------------------------------------------------------------------ *)
(* division by a power of two mantissa: the quotient is the dividend minus one (strict comparison) *)

Lemma dloop_pow2 C lden rden lneg rexp rneg : forall (t : nat) (f : nat) q e work,
  (S t < f)%nat -> 0 < work <= 2 * 2 ^ Z.of_nat t ->
  mbf_div_den_loop_4 f C lden rden lneg rexp rneg q e work (2 ^ Z.of_nat t)
  = Ok (q * 2 ^ (Z.of_nat t + 1) + work - 1, e - (Z.of_nat t + 1), 1, 0).
Proof.
  induction t as [|t IH]; intros f q e work Hf Hw.
  - change (Z.of_nat 0) with 0 in *. change (2 ^ 0) with 1 in *. change (2 ^ (0 + 1)) with 2.
    destruct f as [|[|f]]; try lia. rewrite dloop_S. change (1 >? 0) with true. cbv iota.
    change (Z.shiftr 1 1) with 0. rewrite dloop_S. change (0 >? 0) with false. cbv iota.
    rewrite Z.shiftl_mul_pow2 by lia. change (2 ^ 1) with 2.
    destruct (Z.gtb_spec work 1); apply tup4; lia.
  - destruct f as [|f]; [lia|]. rewrite dloop_S.
    assert (Hp : 0 < 2 ^ Z.of_nat t) by (apply pow2_pos; lia).
    rewrite Nat2Z.inj_succ. rewrite Z.pow_succ_r by lia.
    destruct (Z.gtb_spec (2 * 2 ^ Z.of_nat t) 0); [|lia].
    rewrite Z.shiftr_div_pow2 by lia. change (2 ^ 1) with 2.
    replace (2 * 2 ^ Z.of_nat t / 2) with (2 ^ Z.of_nat t) by lia.
    rewrite Z.shiftl_mul_pow2 by lia. change (2 ^ 1) with 2.
    rewrite Nat2Z.inj_succ, Z.pow_succ_r in Hw by lia.
    replace (Z.succ (Z.of_nat t) + 1) with ((Z.of_nat t + 1) + 1) by lia.
    rewrite (pow2_S (Z.of_nat t + 1)) by lia. rewrite (pow2_S (Z.of_nat t)) by lia.
    destruct (Z.gtb_spec work (2 * 2 ^ Z.of_nat t)) as [Hgt|Hle].
    + rewrite IH by lia. rewrite !(pow2_S (Z.of_nat t)) by lia. apply tup4; lia.
    + rewrite IH by lia. rewrite !(pow2_S (Z.of_nat t)) by lia. apply tup4; lia.
Qed.

Theorem idiv_one C a : fmt_ok C -> buf_ok C a ->
  mbf_idiv C a (c_one C) = Ok a.
Proof.
  intros HC Ha. pose proof (mbits_ge C HC) as Hg. pose proof (mbits_le C HC) as Hl.
  assert (Hbias : c_bias C = 128 + mbits C) by apply (ok_bias C HC).
  set (P := 2 ^ (mbits C - 1)) in *. assert (HP : 0 < P) by (apply pow2_pos; lia).
  assert (H2P : 2 ^ mbits C = 2 * P) by (apply pow2_pred; lia).
  assert (Hone_ok : buf_ok C (c_one C)).
  { rewrite one_encode by assumption. apply f_encode_ok; [assumption | unfold byte_ok; lia | fold P; lia]. }
  destruct (f_encode_fields C false 129 P HC ltac:(unfold byte_ok; lia) ltac:(fold P; lia)) as (E1 & E2 & E3).
  rewrite <- one_encode in E1, E2, E3 by assumption.
  assert (Hzo : f_zero (c_one C) = false) by (unfold f_zero; rewrite E1; reflexivity).
  destruct (f_zero a) eqn:Hza; [apply idiv_zero; assumption|].
  pose proof (f_man_bound C a HC) as Hma. pose proof (f_exp_bound C a HC Ha) as Hea.
  assert (Hea1 : 1 <= f_exp a) by (unfold f_zero in Hza; lia).
  fold P in Hma. rewrite H2P in Hma.
  unfold mbf_idiv. rewrite !is_zero_spec, Hzo, Hza.
  rewrite !denormalise_spec by assumption. rewrite E1, E2, E3.
  unfold mbf_div_den.
  (* the divisor mantissa is 2^(mbits + 7) *)
  assert (E7 : 256 * P = 2 ^ Z.of_nat (Z.to_nat (mbits C + 7))).
  { rewrite Z2Nat.id by lia. unfold P. replace (mbits C + 7) with (8 + (mbits C - 1)) by lia.
    rewrite pow2_split by lia. reflexivity. }
  rewrite E7.
  rewrite (dloop_pow2 C _ _ _ _ _ (Z.to_nat (mbits C + 7)) 1000).
  2:{ lia. }
  2:{ rewrite <- E7. lia. }
  cbn [bind]. cbv beta iota. rewrite Z2Nat.id by lia.
  rewrite Z.mul_0_l, Z.add_0_l.
  replace (f_exp a - (129 - c_bias C - 8) + 1 - (mbits C + 7 + 1)) with (f_exp a) by lia.
  set (ma := f_man C a) in *.
  destruct (normalise_gen C a (f_exp a) (256 * ma - 1) (negb (Bool.eqb (f_neg C a) false)) HC (proj1 Ha))
    as (k & Hk & Hrange & Hk0 & Hres).
  { rewrite (ok_den_upper C HC). replace (mbits C + 8) with (9 + (mbits C - 1)) by lia.
    rewrite pow2_split by lia. fold P. change (2 ^ 9) with 512. lia. }
  { lia. }
  assert (Ek : k = 0).
  { apply Hk0. rewrite (ok_den_mask C HC). replace (mbits C + 7) with (8 + (mbits C - 1)) by lia.
    rewrite pow2_split by lia. fold P. change (2 ^ 8) with 256. lia. }
  subst k. rewrite Z.pow_0_r, Z.mul_1_r, Z.sub_0_r in Hres. rewrite Hres. cbn [bind].
  unfold norm_result.
  assert (Er : round_even8 (256 * ma - 1) = ma).
  { unfold round_even8. replace ((256 * ma - 1) / 256) with (ma - 1) by lia.
    replace ((256 * ma - 1) mod 256) with 255 by lia. cbn. lia. }
  rewrite Er, H2P. destruct (Z.eqb_spec ma (2 * P)); [lia|].
  destruct (Z.gtb_spec (f_exp a) 255); [lia|].
  unfold clamp0. destruct (Z.leb_spec (f_exp a) 0); [lia|].
  cbn [bind]. f_equal. replace (negb (Bool.eqb (f_neg C a) false)) with (f_neg C a) by (destruct (f_neg C a); reflexivity).
  apply f_encode_self; assumption.
Qed.
