(* C19: FOR loops of the machine of model/Flow.v - trip count, zero step.
   The two direction tests of the interpreter are regenerated from the source (gen/Gen_flow.v); the lemmas
   next_dir_spec / for_dir_spec state what the theorems need of them and are closed by computation, so a
   change of the source breaks them here. *)
From Coq Require Import ZArith List Bool Lia.
From PCB Require Import gen.Gen_flow model.Flow proofs.Flow_proofs.
Import ListNotations.
Open Scope Z_scope.

Lemma next_dir_spec z : flow_next_dir z = (z >=? 0).
Proof. reflexivity. Qed.
Lemma for_dir_spec z : flow_for_dir z = (z >=? 0).
Proof. reflexivity. Qed.

(* ------------------------------------------------------------------ FOR: trip count *)

Lemma setv_setv e v x y : setv (setv e v x) v y = setv e v y.
Proof. revert e; induction v as [|v IH]; intros [|a e]; simpl; auto; rewrite IH; reflexivity. Qed.

(* the counter passes the end exactly after floor((b-a)/s)+1 steps *)
Lemma passed_up a b s k : s > 0 -> (a + k * s > b <-> k > (b - a) / s).
Proof.
  intros Hs. pose proof (Z.div_mod (b - a) s ltac:(lia)) as Hdm.
  pose proof (Z.mod_pos_bound (b - a) s ltac:(lia)) as Hm. split; intros H; nia.
Qed.
Lemma passed_down a b s k : s < 0 -> (b > a + k * s <-> k > (b - a) / s).
Proof.
  intros Hs. pose proof (Z.div_mod (b - a) s ltac:(lia)) as Hdm.
  pose proof (Z.mod_neg_bound (b - a) s ltac:(lia)) as Hm. split; intros H; nia.
Qed.

Definition trip_count (a b s : Z) : Z := Z.max 0 ((b - a) / s + 1).
Definition for_values (a s : Z) (from n : nat) : list Z :=
  map (fun k => a + Z.of_nat k * s) (seq from n).

Lemma in16_between x y z : in16 x = true -> in16 z = true -> (x <= y <= z \/ z <= y <= x) -> in16 y = true.
Proof. unfold in16. intros H1 H2 H. lia. Qed.

Lemma exact24_of_in16 z : in16 z = true -> exact24 z = true.
Proof. unfold in16, exact24. lia. Qed.

Section ForLoop.
Variables (code : list stmt) (i : nat) (v : var) (a b s : Z) (vs : list var).
Hypothesis Hfor : nth_error code i = Some (SFor v (EConst a) (EConst b) (EConst s)).
Hypothesis Hbody : nth_error code (S i) = Some (SPrint (EVar v)).
Hypothesis Hnext : nth_error code (S (S i)) = Some (SNext vs).
Hypothesis Hvs : vs = [] \/ vs = [v].
Hypothesis Ha : in16 a = true.
Hypothesis Hb : in16 b = true.
Hypothesis Hs : in16 s = true.

Let rec0 := {| f_var := v; f_stop := b; f_step := s; f_forpos := S i; f_nidx := S (S i); f_nk := 0 |}.

Lemma for_scan : scan_next (skipn (S i) code) (S i) 0 = Some (S (S i), 0%nat).
Proof.
  rewrite (nth_error_skipn _ _ _ Hbody), (nth_error_skipn _ _ _ Hnext). simpl.
  destruct Hvs as [-> | ->]; reflexivity.
Qed.

Lemma for_vars : vars_of_next code (S (S i)) = vs.
Proof. unfold vars_of_next. rewrite Hnext. reflexivity. Qed.

Lemma for_name_ok : match nth_error vs 0 with Some v' => Nat.eqb v' v | None => true end = true.
Proof. destruct Hvs as [-> | ->]; simpl; auto. apply Nat.eqb_refl. Qed.

Lemma for_names_rest : None :: map Some (skipn 1 vs) = [None (A:=var)].
Proof. destruct Hvs as [-> | ->]; reflexivity. Qed.

(* NEXT with the loop's record on top of the stack, counter value x *)
Lemma next_iterate st x (nm : option var) :
  fors st = rec0 :: tl (fors st) -> getv (env (ds st)) v = x -> (nm = None \/ nm = Some v) ->
  in16 (x + s) = true ->
  iterate st (S (S i)) 0 nm =
    if (if s >=? 0 then x + s >? b else b >? x + s)
    then IEnded (set_fors (set_var (set_fors st (rec0 :: tl (fors st))) v (x + s)) (tl (fors st)))
    else ILoop (set_pc (set_var (set_fors st (rec0 :: tl (fors st))) v (x + s)) (S i)).
Proof.
  intros Hf Hx Hnm H16. unfold iterate. rewrite Hf. simpl find_for.
  rewrite !Nat.eqb_refl. simpl andb. cbv iota beta.
  assert (Hok : match nm with None => true | Some v0 => Nat.eqb v0 (f_var rec0) end = true).
  { destruct Hnm as [-> | ->]; simpl; auto. apply Nat.eqb_refl. }
  rewrite Hok. simpl negb. cbv iota. simpl f_var. simpl f_step. simpl f_stop. simpl f_forpos.
  rewrite Hx, H16. simpl negb. cbv iota.
  rewrite next_dir_spec.
  assert (Hsg : (Z.sgn s >=? 0) = (s >=? 0)) by (destruct s; reflexivity).
  rewrite Hsg. reflexivity.
Qed.


Definition body_state (st0 : state) (x : Z) : state :=
  set_pc (set_fors (set_var st0 v x) (rec0 :: fors st0)) (S i).
Definition exit_state (st0 : state) (x : Z) : state :=
  set_pc (set_var st0 v x) (S (S (S i))).

Lemma next_names_cases : next_names vs = [None] \/ next_names vs = [Some v].
Proof. destruct Hvs as [-> | ->]; [left | right]; reflexivity. Qed.

(* one pass: PRINT the counter, NEXT *)
Lemma body_pass st0 x : in16 (x + s) = true ->
  steps code 2 (body_state st0 x) =
    Some ([x], if (if s >=? 0 then x + s >? b else b >? x + s)
               then exit_state st0 (x + s) else body_state st0 (x + s)).
Proof.
  intros H16.
  destruct st0 as [p0 fs0 ws0 gs0 dp0 [e0 er0 el0 oe0 h0 ra0 su0]].
  set (st1 := body_state _ x).
  assert (H1 : step code st1 = Go (set_pc st1 (S (S i))) [x]).
  { rewrite (step_at code st1 _ Hbody). subst st1.
    cbn [pc body_state set_pc set_fors set_var set_ds ds d_set_env env eval].
    rewrite getv_setv_same. reflexivity. }
  unfold steps. rewrite H1.
  set (st2 := set_pc st1 (S (S i))).
  rewrite (step_at code st2 _ Hnext). subst st2 st1.
  cbn [pc body_state set_pc set_fors set_var set_ds ds d_set_env env fors whiles gosubs].
  assert (Hnv : forall nm, nm = None \/ nm = Some v ->
    next_vars {| pc := S (S i); fors := rec0 :: fs0; whiles := ws0; gosubs := gs0; dptr := dp0;
                 ds := {| env := setv e0 v x; err := er0; erl := el0; onerr := oe0; handling := h0;
                          resume_at := ra0; susp := su0 |} |} (S (S i)) 0 [nm] =
    if (if s >=? 0 then x + s >? b else b >? x + s)
    then IEnded {| pc := S (S i); fors := fs0; whiles := ws0; gosubs := gs0; dptr := dp0;
                 ds := {| env := setv e0 v (x + s); err := er0; erl := el0; onerr := oe0; handling := h0;
                          resume_at := ra0; susp := su0 |} |}
    else ILoop {| pc := S i; fors := rec0 :: fs0; whiles := ws0; gosubs := gs0; dptr := dp0;
                 ds := {| env := setv e0 v (x + s); err := er0; erl := el0; onerr := oe0; handling := h0;
                          resume_at := ra0; susp := su0 |} |}).
  { intros nm Hnm. cbn [next_vars].
    rewrite (next_iterate _ x nm); cbn [fors tl ds env]; auto using getv_setv_same.
    unfold set_fors, set_var, set_ds, set_pc, d_set_env; simpl.
    rewrite setv_setv.
    destruct (if s >=? 0 then x + s >? b else b >? x + s); reflexivity. }
  destruct next_names_cases as [-> | ->]; rewrite Hnv by auto;
    destruct (if s >=? 0 then x + s >? b else b >? x + s);
    cbn [exit_state body_state set_fors set_var set_ds set_pc ds d_set_env env err erl onerr handling resume_at
         susp pc fors whiles gosubs app]; reflexivity.
Qed.


Definition passed (x : Z) : bool := if s >=? 0 then x >? b else b >? x.

Lemma body_pass' st0 x : in16 (x + s) = true ->
  steps code 2 (body_state st0 x) =
    Some ([x], if passed (x + s) then exit_state st0 (x + s) else body_state st0 (x + s)).
Proof. exact (body_pass st0 x). Qed.

Lemma for_values_cons from n : for_values a s from (S n) = (a + Z.of_nat from * s) :: for_values a s (S from) n.
Proof. reflexivity. Qed.

(* r more passes starting with counter a + k s *)
Lemma loop_run st0 : forall r k,
  (forall m, (k < m <= k + S r)%nat -> in16 (a + Z.of_nat m * s) = true) ->
  (forall m, (k < m < k + S r)%nat -> passed (a + Z.of_nat m * s) = false) ->
  passed (a + Z.of_nat (k + S r) * s) = true ->
  steps code (2 * S r) (body_state st0 (a + Z.of_nat k * s)) =
    Some (for_values a s k (S r), exit_state st0 (a + Z.of_nat (k + S r) * s)).
Proof.
  induction r as [|r IH]; intros k H16 Hnp Hp.
  - assert (E : a + Z.of_nat k * s + s = a + Z.of_nat (k + 1) * s)
      by (rewrite Nat2Z.inj_add; simpl Z.of_nat; ring).
    change (2 * 1)%nat with 2%nat. rewrite body_pass'.
    + rewrite E, Hp. reflexivity.
    + rewrite E. apply H16. lia.
  - assert (E : a + Z.of_nat k * s + s = a + Z.of_nat (S k) * s)
      by (rewrite Nat2Z.inj_succ; ring).
    replace (2 * S (S r))%nat with (2 + 2 * S r)%nat by lia.
    rewrite for_values_cons.
    eapply (steps_app code 2 (2 * S r) _ [a + Z.of_nat k * s]).
    + rewrite body_pass'.
      * rewrite E. rewrite Hnp by lia. reflexivity.
      * rewrite E. apply H16. lia.
    + replace (k + S (S r))%nat with (S k + S r)%nat by lia.
      apply IH.
      * intros m Hm. apply H16. lia.
      * intros m Hm. apply Hnp. lia.
      * replace (S k + S r)%nat with (k + S (S r))%nat by lia. exact Hp.
Qed.

(* the FOR statement itself *)
Lemma for_enter st : pc st = i ->
  (if s >=? 0 then a >? b else b >? a) = false ->
  step code st = Go (body_state st a) [].
Proof.
  intros Hpc Hne. rewrite (step_at code st (SFor v (EConst a) (EConst b) (EConst s))) by (rewrite Hpc; exact Hfor).
  cbn [eval]. rewrite !exact24_of_in16 by assumption.
  unfold with_int, with_val. rewrite Ha, Hb, Hs. rewrite Hpc.
  rewrite for_scan, for_vars, for_name_ok. cbn [negb].
  rewrite for_dir_spec.
  assert (Hsg : (Z.sgn s >=? 0) = (s >=? 0)) by (destruct s; reflexivity).
  rewrite Hsg, Hne. reflexivity.
Qed.

Lemma for_skip st : pc st = i ->
  (if s >=? 0 then a >? b else b >? a) = true ->
  in16 (a + s) = true ->
  step code st = Go (exit_state st (a + s)) [].
Proof.
  intros Hpc Hemp H16.
  rewrite (step_at code st (SFor v (EConst a) (EConst b) (EConst s))) by (rewrite Hpc; exact Hfor).
  cbn [eval]. rewrite !exact24_of_in16 by assumption.
  unfold with_int, with_val. rewrite Ha, Hb, Hs. rewrite Hpc.
  rewrite for_scan, for_vars, for_name_ok. cbn [negb].
  rewrite for_dir_spec.
  assert (Hsg : (Z.sgn s >=? 0) = (s >=? 0)) by (destruct s; reflexivity).
  rewrite Hsg, Hemp. rewrite for_names_rest.
  cbn [next_vars].
  match goal with |- context [iterate ?x _ _ _] => set (st2 := x) end.
  assert (F : fors st2 = rec0 :: tl (fors st2)) by (destruct st; reflexivity).
  assert (G : getv (env (ds st2)) v = a).
  { destruct st as [p0 fs0 ws0 gs0 dp0 [e0 er0 el0 oe0 h0 ra0 su0]]. simpl. apply getv_setv_same. }
  rewrite (next_iterate st2 a None F G (or_introl eq_refl) H16).
  assert (Hp : (if s >=? 0 then a + s >? b else b >? a + s) = true).
  { destruct (s >=? 0) eqn:E; lia. }
  rewrite Hp. subst st2. destruct st as [p0 fs0 ws0 gs0 dp0 [e0 er0 el0 oe0 h0 ra0 su0]].
  unfold exit_state, set_fors, set_var, set_ds, set_pc, d_set_env; simpl.
  rewrite setv_setv. reflexivity.
Qed.


(* FOR v = a TO b STEP s : PRINT v : NEXT  with s <> 0: the body runs for a, a+s, ... exactly
   max 0 (floor((b-a)/s) + 1) times, and the loop is left with the first value past the end *)
Theorem for_trip_count st : s <> 0 -> pc st = i ->
  let n := trip_count a b s in
  in16 (a + Z.max n 1 * s) = true ->
  steps code (1 + 2 * Z.to_nat n) st =
    Some (for_values a s 0 (Z.to_nat n), exit_state st (a + Z.max n 1 * s)).
Proof.
  intros Hs0 Hpc n H16. unfold in16 in Ha, Hb, Hs.
  assert (Hq : s > 0 -> (a > b <-> 0 > (b - a) / s)).
  { intros Hp. pose proof (passed_up a b s 0 Hp). lia. }
  assert (Hq' : s < 0 -> (b > a <-> 0 > (b - a) / s)).
  { intros Hp. pose proof (passed_down a b s 0 Hp). lia. }
  destruct (Z_lt_le_dec ((b - a) / s) 0) as [Hneg | Hnn].
  - (* start already past the end *)
    assert (Hn : n = 0) by (unfold n, trip_count; lia).
    rewrite Hn in *. change (Z.to_nat 0) with 0%nat. simpl Nat.mul. simpl Nat.add.
    replace (a + Z.max 0 1 * s) with (a + s) in * by lia.
    apply steps_one. apply for_skip; auto.
    destruct (s >=? 0) eqn:E; [assert (s > 0) by lia | assert (s < 0) by lia]; lia.
  - assert (Hn : n = (b - a) / s + 1) by (unfold n, trip_count; lia).
    assert (Hn1 : Z.max n 1 = n) by lia. rewrite Hn1 in *.
    destruct (Z.to_nat n) as [|r] eqn:Er; [lia|].
    assert (HnN : n = Z.of_nat (S r)) by lia.
    replace (1 + 2 * S r)%nat with (1 + 2 * S r)%nat by reflexivity.
    eapply (steps_app code 1 (2 * S r) st [] (body_state st a)).
    + apply steps_one. apply for_enter; auto.
      destruct (s >=? 0) eqn:E; [assert (s > 0) by lia | assert (s < 0) by lia]; lia.
    + pose proof (loop_run st r 0) as L. change (Z.of_nat 0) with 0 in L.
      replace (a + 0 * s) with a in L by ring. change (0 + S r)%nat with (S r) in L.
      rewrite HnN. apply L.
      * intros m Hm. apply (in16_between a _ (a + n * s)).
        -- unfold in16; lia.
        -- exact H16.
        -- destruct (Z_lt_le_dec s 0); [right | left]; nia.
      * intros m Hm. unfold passed.
        destruct (s >=? 0) eqn:E.
        -- assert (Hsp : s > 0) by lia. pose proof (passed_up a b s (Z.of_nat m) Hsp). lia.
        -- assert (Hsn : s < 0) by lia. pose proof (passed_down a b s (Z.of_nat m) Hsn). lia.
      * unfold passed.
        destruct (s >=? 0) eqn:E.
        -- assert (Hsp : s > 0) by lia. pose proof (passed_up a b s (Z.of_nat (S r)) Hsp) as [_ H2].
           assert (X : Z.of_nat (S r) > (b - a) / s) by lia. specialize (H2 X).
           apply Z.gtb_lt. lia.
        -- assert (Hsn : s < 0) by lia. pose proof (passed_down a b s (Z.of_nat (S r)) Hsn) as [_ H2].
           assert (X : Z.of_nat (S r) > (b - a) / s) by lia. specialize (H2 X).
           apply Z.gtb_lt. lia.
Qed.

(* STEP 0 counts as a non-negative direction: nothing is executed when the start is past the end ... *)
Theorem for_step0_skip st : s = 0 -> pc st = i -> a > b ->
  steps code 1 st = Some ([], exit_state st a).
Proof.
  intros H0 Hpc Hab. apply steps_one.
  assert (E : a + s = a) by lia.
  pose proof (for_skip st Hpc) as H. rewrite E in H.
  apply H; [rewrite H0; simpl; lia | exact Ha].
Qed.

(* ... and otherwise the counter never passes the end: the body is repeated for ever *)
Theorem for_step0_forever st : s = 0 -> pc st = i -> a <= b ->
  forall m, steps code (1 + 2 * m) st = Some (repeat a m, body_state st a).
Proof.
  intros H0 Hpc Hab.
  assert (Hent : steps code 1 st = Some ([], body_state st a)).
  { apply steps_one. apply for_enter; auto. rewrite H0. simpl. lia. }
  induction m as [|m IH].
  - exact Hent.
  - replace (1 + 2 * S m)%nat with ((1 + 2 * m) + 2)%nat by lia.
    replace (repeat a (S m)) with (repeat a m ++ [a]) by (rewrite <- repeat_cons; reflexivity).
    eapply steps_app; [exact IH|].
    rewrite body_pass' by (rewrite H0; replace (a + 0) with a by lia; exact Ha).
    unfold passed. rewrite H0. replace (a + 0) with a by lia. simpl.
    assert (E : (a >? b) = false) by lia. rewrite E. reflexivity.
Qed.

End ForLoop.

(* steps that do not halt: every smaller fuel runs out *)
Lemma steps_no_halt code n : forall st r fuel,
  steps code n st = Some r -> (fuel <= n)%nat -> snd (run code fuel st) = OutOfFuel.
Proof.
  induction n as [|n IH]; intros st r fuel H Hf.
  - assert (fuel = 0%nat) by lia. subst. reflexivity.
  - destruct fuel as [|f]; [reflexivity|]. simpl in *.
    destruct (step code st) as [st1 out|o]; [|discriminate].
    destruct (steps code n st1) as [[t1 st2]|] eqn:E; [|discriminate].
    specialize (IH st1 _ f E ltac:(lia)). destruct (run code f st1). simpl in *. exact IH.
Qed.


(* FOR .. STEP 0 with start <= end: no fuel is enough *)
Lemma for_step0_diverges code i v a b s vs :
  nth_error code i = Some (SFor v (EConst a) (EConst b) (EConst s)) ->
  nth_error code (S i) = Some (SPrint (EVar v)) ->
  nth_error code (S (S i)) = Some (SNext vs) ->
  vs = nil \/ vs = v :: nil ->
  in16 a = true -> in16 b = true -> in16 s = true ->
  forall st, s = 0 -> pc st = i -> a <= b ->
  forall fuel, snd (run code fuel st) = OutOfFuel.
Proof.
  intros H1 H2 H3 H4 H5 H6 H7 st H8 H9 H10 fuel.
  eapply steps_no_halt with (n := (1 + 2 * fuel)%nat).
  - eapply for_step0_forever; eauto.
  - lia.
Qed.

(* the FOR statement stores the VALUES of its end and step in the loop record *)
Lemma for_step_record code st v a b s va vb vs j k :
  nth_error code (pc st) = Some (SFor v a b s) ->
  eval (ds st) a = EV va -> eval (ds st) b = EV vb -> eval (ds st) s = EV vs ->
  in16 va = true -> in16 vb = true -> in16 vs = true ->
  scan_next (skipn (S (pc st)) code) (S (pc st)) 0 = Some (j, k) ->
  match nth_error (vars_of_next code j) k with Some v' => Nat.eqb v' v | None => true end = true ->
  (if vs >=? 0 then va >? vb else vb >? va) = false ->
  step code st =
    Go (set_pc (set_fors (set_var st v va)
                 ({| f_var := v; f_stop := vb; f_step := vs; f_forpos := S (pc st); f_nidx := j; f_nk := k |}
                  :: fors st)) (S (pc st))) [].
Proof.
  intros H Ea Eb Es Ha Hb Hs Hscan Hname Hne. rewrite (step_at code st _ H). cbv zeta.
  rewrite Ea, Eb, Es. unfold with_int, with_val. rewrite Ha, Hb, Hs, Hscan, Hname. cbn [negb].
  rewrite for_dir_spec.
  assert (Hsg : (Z.sgn vs >=? 0) = (vs >=? 0)) by (destruct vs; reflexivity).
  rewrite Hsg, Hne. reflexivity.
Qed.
