(* C10 / C20: expression evaluation and DEF FN calls preserve the invariant and leave every variable, every stack
   entry and every temporary with the value it had (frame property); statements preserve the invariant. *)
From Coq Require Import ZArith List Bool Lia.
From PCB Require Import lib.Result lib.PyInt model.StrSpace model.UserFn
     proofs.StrSpace_base proofs.StrSpace_gc proofs.StrSpace_inv proofs.StrSpace_ops.
Import ListNotations.
Open Scope Z_scope.

(* ---------- RelX under changes of the stacks / temp_values ---------- *)
Lemma RP_states c s1 s1' s2 s2' p p' :
  strs s2 = strs s1 -> tmp s2 = tmp s1 -> strs s2' = strs s1' -> tmp s2' = tmp s1' ->
  RP c s1 s1' p p' -> RP c s2 s2' p p'.
Proof.
  intros A B C D (H1 & H2 & H3). split; [exact H1|]. split.
  - unfold deref in *. rewrite A, C. exact H2.
  - unfold Jp in *. rewrite B, D. exact H3.
Qed.

Lemma RO_states c s1 s1' s2 s2' o o' :
  strs s2 = strs s1 -> tmp s2 = tmp s1 -> strs s2' = strs s1' -> tmp s2' = tmp s1' ->
  RO c s1 s1' o o' -> RO c s2 s2' o o'.
Proof.
  intros A B C D H. destruct o, o'; simpl in *; auto.
  - eapply RP_states; eassumption.
  - destruct H. split; [assumption|]. eapply RP_states; eassumption.
Qed.

Lemma Forall2_impl {A B} (R R' : A -> B -> Prop) l l' : (forall x y, R x y -> R' x y) -> Forall2 R l l' -> Forall2 R' l l'.
Proof. intros H. induction 1; constructor; auto. Qed.

(* same memory, other stacks *)
Lemma RelX_reshape c X st st' s s' :
  RelX c X st st' -> same_mem st s -> same_mem st' s' ->
  fns s = fns st -> fns s' = fns st' ->
  Forall2 (Forall2 (RO c st st')) (stack s) (stack s') -> Forall2 (RO c st st') (tvals s) (tvals s') ->
  RelX c X s s'.
Proof.
  intros H (a1 & a2 & a3 & a4 & a5 & a6 & a7 & a8 & a9) (b1 & b2 & b3 & b4 & b5 & b6 & b7 & b8 & b9) Hf Hf' Hs Ht.
  assert (HP : forall p p', RP c st st' p p' -> RP c s s' p p') by (intros; eapply RP_states; eauto).
  assert (HO : forall o o', RO c st st' o o' -> RO c s s' o o') by (intros; eapply RO_states; eauto).
  constructor; rewrite ?a6, ?a7, ?b6, ?b7.
  - intros n p HX Hl. destruct (r_scal _ _ _ _ H n p HX Hl) as (p' & A & B). eauto.
  - exact (r_num _ _ _ _ H).
  - exact (r_new _ _ _ _ H).
  - intros n d els Hl. destruct (r_arrs _ _ _ _ H n d els Hl) as (els' & A & B). exists els'. split; [exact A|].
    eapply Forall2_impl; [|exact B]. exact HP.
  - exact (r_newarr _ _ _ _ H).
  - eapply Forall2_impl; [|exact Hs]. intros x y Hxy. eapply Forall2_impl; [|exact Hxy]. exact HO.
  - eapply Forall2_impl; [|exact Ht]. exact HO.
  - destruct (r_misc _ _ _ _ H) as (m1 & m2 & m3). rewrite Hf, Hf', a4, a5, b4, b5. auto.
Qed.

Lemma same_mem_refl st : same_mem st st.
Proof. unfold same_mem. repeat split; reflexivity. Qed.

Lemma Rel_push_frame c X st st' : RelX c X st st' -> RelX c X (push_frame st) (push_frame st').
Proof.
  intros H. unfold push_frame. apply (RelX_reshape c X st st' _ _ H (same_mem_set_stack _ _) (same_mem_set_stack _ _) eq_refl eq_refl).
  - simpl. constructor; [constructor|exact (r_stack _ _ _ _ H)].
  - exact (r_tvals _ _ _ _ H).
Qed.

Lemma Rel_pop_frame c X st st' : RelX c X st st' -> RelX c X (pop_frame st) (pop_frame st').
Proof.
  intros H. unfold pop_frame. apply (RelX_reshape c X st st' _ _ H (same_mem_set_stack _ _) (same_mem_set_stack _ _) eq_refl eq_refl).
  - simpl. pose proof (r_stack _ _ _ _ H) as Hs. destruct Hs; simpl; [constructor|assumption].
  - exact (r_tvals _ _ _ _ H).
Qed.

Lemma Rel_pop_obj c X st st' : RelX c X st st' -> RelX c X (pop_obj st) (pop_obj st').
Proof.
  intros H. pose proof (r_stack _ _ _ _ H) as Hs. unfold pop_obj.
  remember (stack st) as S eqn:ES. remember (stack st') as S' eqn:ES'.
  destruct Hs as [|fr fr' r r' Hfr Hr]; [exact H|].
  destruct Hfr as [|o o' f f' Ho Hf]; [exact H|].
  apply (RelX_reshape c X st st' _ _ H (same_mem_set_stack _ _) (same_mem_set_stack _ _) eq_refl eq_refl).
  - simpl. constructor; assumption.
  - exact (r_tvals _ _ _ _ H).
Qed.

Lemma Rel_push_obj c X st st' o o' :
  RelX c X st st' -> RO c st st' o o' -> RelX c X (push_obj st o) (push_obj st' o').
Proof.
  intros H Ho. pose proof (r_stack _ _ _ _ H) as Hs. unfold push_obj.
  remember (stack st) as S eqn:ES. remember (stack st') as S' eqn:ES'.
  destruct Hs as [|fr fr' r r' Hfr Hr].
  - apply (RelX_reshape c X st st' _ _ H (same_mem_set_stack _ _) (same_mem_set_stack _ _) eq_refl eq_refl); simpl; [|exact (r_tvals _ _ _ _ H)].
    constructor; [constructor; [exact Ho|constructor]|constructor].
  - apply (RelX_reshape c X st st' _ _ H (same_mem_set_stack _ _) (same_mem_set_stack _ _) eq_refl eq_refl); simpl; [|exact (r_tvals _ _ _ _ H)].
    constructor; [constructor; assumption|assumption].
Qed.

Lemma Rel_tv_push c X st st' o o' :
  RelX c X st st' -> RO c st st' o o' -> RelX c X (tv_push st o) (tv_push st' o').
Proof.
  intros H Ho. unfold tv_push. apply (RelX_reshape c X st st' _ _ H (same_mem_set_tvals _ _) (same_mem_set_tvals _ _) eq_refl eq_refl); simpl.
  - exact (r_stack _ _ _ _ H).
  - constructor; [exact Ho|exact (r_tvals _ _ _ _ H)].
Qed.

Lemma Rel_tv_pop c X st st' : RelX c X st st' -> RelX c X (tv_pop st) (tv_pop st').
Proof.
  intros H. unfold tv_pop. apply (RelX_reshape c X st st' _ _ H (same_mem_set_tvals _ _) (same_mem_set_tvals _ _) eq_refl eq_refl); simpl.
  - exact (r_stack _ _ _ _ H).
  - pose proof (r_tvals _ _ _ _ H) as Ht. destruct Ht; simpl; [constructor|assumption].
Qed.

(* removing what was pushed on one side only *)
Lemma same_mem_sym st s : same_mem st s -> same_mem s st.
Proof. unfold same_mem. intros (a1 & a2 & a3 & a4 & a5 & a6 & a7 & a8 & a9). repeat split; congruence. Qed.

Lemma Rel_undo_push_frame c X st st' : RelX c X (push_frame st) st' -> RelX c X st (pop_frame st').
Proof.
  intros H. apply Rel_pop_frame in H.
  apply (RelX_reshape c X (pop_frame (push_frame st)) (pop_frame st') _ _ H); auto using same_mem_refl.
  - apply same_mem_sym. unfold same_mem. simpl. repeat split; reflexivity.
  - exact (r_stack _ _ _ _ H).
  - exact (r_tvals _ _ _ _ H).
Qed.

Lemma Rel_undo_tv_push c X st st' o : RelX c X (tv_push st o) st' -> RelX c X st (tv_pop st').
Proof.
  intros H. apply Rel_tv_pop in H.
  apply (RelX_reshape c X (tv_pop (tv_push st o)) (tv_pop st') _ _ H); auto using same_mem_refl.
  - apply same_mem_sym. unfold same_mem. simpl. repeat split; reflexivity.
  - exact (r_stack _ _ _ _ H).
  - exact (r_tvals _ _ _ _ H).
Qed.

(* ---------- a small Hoare logic for computations that always return a state ---------- *)
Section Logic.
Variable c : cfg.

(* st --x--> (st', r): invariant kept, old state related, active flags unchanged, Q holds of an Ok result *)
Definition EV {A} (Q : state -> A -> Prop) (st : state) (x : R A) : Prop :=
  let '(st', r) := x in
  Good c st' /\ Jt st' /\ Rel c st st' /\ active st' = active st /\ (forall a, r = Ok a -> Q st' a).

Lemma EV_ret {A} (Q : state -> A -> Prop) st a : Good c st -> Jt st -> Q st a -> EV Q st (retR st a).
Proof. intros. unfold EV, retR. spl; auto using Rel_refl. intros a' E. inversion E; subst; assumption. Qed.

Lemma EV_err {A} (Q : state -> A -> Prop) st e : Good c st -> Jt st -> EV Q st (errR st e).
Proof. intros. unfold EV, errR. spl; auto using Rel_refl. intros; discriminate. Qed.

Lemma EV_lift {A} (Q : state -> A -> Prop) st (r : res A) :
  Good c st -> Jt st -> (forall a, r = Ok a -> Q st a) -> EV Q st (liftR st r).
Proof. intros. unfold EV, liftR. spl; auto using Rel_refl. Qed.

Lemma EV_bind {A B} (Q : state -> A -> Prop) (Q' : state -> B -> Prop) st (x : R A) (f : state -> A -> R B) :
  EV Q st x ->
  (forall st1 a, Good c st1 -> Jt st1 -> Q st1 a -> EV Q' st1 (f st1 a)) ->
  EV Q' st (bindR x f).
Proof.
  unfold EV. destruct x as [st1 r]. intros (G1 & J1 & R1 & A1 & Q1) Hf. unfold bindR.
  destruct r as [a|e|h|]; try (spl; auto; intros; discriminate).
  specialize (Hf st1 a G1 J1 (Q1 a eq_refl)). destruct (f st1 a) as [st2 r2].
  destruct Hf as (G2 & J2 & R2 & A2 & Q2). spl; auto; [eapply Rel_trans; eassumption|congruence].
Qed.

Lemma EV_weaken {A} (Q Q' : state -> A -> Prop) st (x : R A) :
  (forall s a, Good c s -> Q s a -> Q' s a) -> EV Q st x -> EV Q' st x.
Proof.
  unfold EV. destruct x as [st1 r]. intros H (G1 & J1 & R1 & A1 & Q1). spl; auto.
Qed.

(* a relation step that is not an R computation *)
Lemma EV_from {A} (Q : state -> A -> Prop) st st1 (x : R A) :
  Good c st1 -> Jt st1 -> Rel c st st1 -> active st1 = active st -> EV Q st1 x -> EV Q st x.
Proof.
  unfold EV. destruct x as [st2 r]. intros G1 J1 R1 A1 (G2 & J2 & R2 & A2 & Q2).
  spl; auto; [eapply Rel_trans; eassumption|congruence].
Qed.

(* primitive computations in EV form *)
Lemma EV_store (Q : state -> ptr -> Prop) st bs :
  Good c st -> Jt st ->
  (forall s p, Good c s -> ptr_ok c s p -> fst p = zlen bs -> deref c s p = Ok bs -> Q s p) ->
  EV Q st (store c st bs).
Proof.
  intros G J HQ. pose proof (store_good c st bs G J) as H. unfold EV. destruct (store c st bs) as [st' r].
  destruct H as (G' & J' & R' & Hsh & Hp & _). spl; auto.
  - unfold shape in Hsh. injection Hsh as _ _ _ _ _ Ha _ _ _ _. exact Ha.
  - intros p E. destruct (Hp p E) as (A & B & D & _). apply HQ; auto.
Qed.

Lemma collect_active st st' : shape st' = shape st -> active st' = active st.
Proof. unfold shape. intros H. injection H as _ _ _ _ _ Ha _ _ _ _. exact Ha. Qed.
End Logic.

Section Evaluator.
Variable c : cfg.

Lemma bind_err_not_ok {A B} (x : res A) e (b : B) : bind x (fun _ => Err e) <> Ok b.
Proof. destruct x; simpl; discriminate. Qed.

Lemma EV_fail {A B} (Q : state -> B -> Prop) st (x : res A) e :
  Good c st -> Jt st -> EV c Q st (liftR st (bind x (fun _ => Err e))).
Proof. intros. apply EV_lift; auto. intros a E. exfalso. eapply bind_err_not_ok; eassumption. Qed.

Lemma obj_ok_tv_pop st o : obj_ok c st o -> obj_ok c (tv_pop st) o.
Proof. apply obj_ok_same. unfold tv_pop. apply same_mem_set_tvals. Qed.
Lemma obj_ok_pop_frame st o : obj_ok c st o -> obj_ok c (pop_frame st) o.
Proof. apply obj_ok_same. unfold pop_frame. apply same_mem_set_stack. Qed.
Lemma obj_ok_set_active st o x : obj_ok c st o -> obj_ok c (set_active st x) o.
Proof. apply obj_ok_same. unfold same_mem. simpl. repeat split; reflexivity. Qed.

Lemma Jt_containers st st' : same_mem st st' -> Jt st -> Jt st'.
Proof. intros (a1 & a2 & a3 & _). apply Jt_same; assumption. Qed.

(* try: x (in a state with one more temp_values entry) finally: temp_values.remove *)
Lemma EV_finally_tv {A} (Q : state -> A -> Prop) st sv (x : R A) :
  (forall s a, Q s a -> Q (tv_pop s) a) ->
  EV c Q (tv_push st sv) x -> EV c Q st (finallyR x tv_pop).
Proof.
  unfold EV, finallyR. destruct x as [st3 r]. intros HQ (G & J & Rl & Ac & Hq).
  split; [apply tv_pop_good, G|]. split; [eapply Jt_containers; [|exact J]; unfold tv_pop; apply same_mem_set_tvals|].
  split; [eapply Rel_undo_tv_push, Rl|]. split; [exact Ac|]. intros a E. apply HQ, Hq, E.
Qed.

Lemma str_ok_zero st : obj_ok c st (OStr (0, 0)).
Proof. simpl. apply zero_ptr_ok. Qed.

(* the result of a store, as an object *)
Lemma EV_store_obj st bs : Good c st -> Jt st -> EV c (obj_ok c) st (doR (st1, p) <- store c st bs; retR st1 (OStr p)).
Proof.
  intros G J. eapply EV_bind; [apply (EV_store c (fun s p => ptr_ok c s p)); auto|].
  intros st1 p G1 J1 Hp. apply EV_ret; auto.
Qed.

Lemma add_objs_EV st l r : Good c st -> Jt st -> obj_ok c st l -> obj_ok c st r -> EV c (obj_ok c) st (add_objs c st l r).
Proof.
  intros G J Hl Hr. unfold add_objs.
  assert (Hs : EV c (obj_ok c) st
                 (if is_strobj l && is_strobj r then
                    match deref c st (optr st l), deref c st (optr st r) with
                    | Ok a, Ok b => doR (st1, p) <- store c st (a ++ b); retR st1 (OStr p)
                    | Ok _, x => liftR st (bind x (fun _ => Err 13))
                    | x, _ => liftR st (bind x (fun _ => Err 13))
                    end
                  else errR st 13)).
  { destruct (is_strobj l && is_strobj r); [|apply EV_err; auto].
    destruct (deref c st (optr st l)) as [a|e|h|]; try (apply EV_fail; auto).
    destruct (deref c st (optr st r)) as [b|e|h|]; try (apply EV_fail; auto).
    apply EV_store_obj; auto. }
  destruct l; try exact Hs. destruct r; try exact Hs. apply EV_ret; simpl; auto.
Qed.

Lemma conv_arg_ok p st v o : Good c st -> obj_ok c st v -> conv_arg p st v = Ok o -> obj_ok c st o.
Proof.
  intros G Hv. unfold conv_arg. destruct (is_strname p).
  - destruct (is_strobj v) eqn:E; [|discriminate]. intros H. inversion H; subst. simpl. apply obj_ok_ptr; assumption.
  - destruct v; try discriminate. destruct (conv_num (nty p) z); simpl; try discriminate. intros H. inversion H; subst. exact I.
Qed.

(* ---------- unwinding a DEF FN call always keeps the invariant ---------- *)
Lemma restore_scalar_good st n v :
  Good c st ->
  (is_strname n = true -> exists p, v = SStr p /\ ptr_ok c st p /\ Jp c st p) ->
  (is_strname n = false -> exists z, v = SNum z) ->
  Good c (set_scal st (upsert n v (scal st))) /\ RelX c (fun m => m = n) st (set_scal st (upsert n v (scal st))).
Proof.
  intros G H1 H2.
  change (set_scal st (upsert n v (scal st))) with (set_scal (set_scur st (scur st)) (upsert n v (scal st))).
  apply Good_set_scalar; auto.
  - right. exists st. exact G.
  - intros _. destruct (g_low _ _ G) as (A & B & C). auto.
Qed.

Lemma unwind_good k : forall st, Good c st -> Good c (unwind k st).
Proof.
  induction k as [|k IH]; intros st G; simpl; [exact G|]. apply IH. apply tv_pop_good.
  pose proof (tv_top_ok c st G) as Hok. destruct (tv_top st) as [| | | |n p|n z] eqn:E; auto.
  - destruct Hok as (Hn & Hp & HJ). apply restore_scalar_good; auto.
    + intros _. eauto.
    + rewrite Hn. discriminate.
  - simpl in Hok. apply restore_scalar_good; auto.
    + rewrite Hok. discriminate.
    + intros _. eauto.
Qed.

Lemma unwind_misc k : forall st, cur (unwind k st) = cur st /\ tmp (unwind k st) = tmp st /\ active (unwind k st) = active st /\
                                 stack (unwind k st) = stack st /\ tvals (unwind k st) = skipn k (tvals st).
Proof.
  induction k as [|k IH]; intros st; simpl; [auto|].
  destruct (IH (tv_pop match tv_top st with
                       | OSaveS v p => set_scal st (upsert v (SStr p) (scal st))
                       | OSaveN v z => set_scal st (upsert v (SNum z) (scal st))
                       | _ => st end)) as (a1 & a2 & a3 & a4 & a5).
  rewrite a1, a2, a3, a4, a5. destruct (tv_top st); simpl; spl; auto; destruct (tvals st); simpl; rewrite ?skipn_nil; reflexivity.
Qed.

(* ---------- UserFunction.evaluate: the call invariant ---------- *)
Definition drop_tv (k : nat) (s : state) : state := set_tvals s (skipn k (tvals s)).

Definition sname (o : obj) : list Z := match o with OSaveS n _ | OSaveN n _ => [n] | _ => [] end.
Definition snames (k : nat) (s : state) : list Z := flat_map sname (firstn k (tvals s)).

(* the saved value of scalar n is (a relocated copy of) what n held in st0 *)
Definition orig (st0 s : state) (n : Z) (v : sval) : Prop :=
  match lookup n (scal st0) with
  | Some (SStr p0) => exists p, v = SStr p /\ RP c st0 s p0 p
  | Some (SNum z0) => v = SNum z0
  | None => zero_sval v
  end.

Definition save_ok (st0 s : state) (o : obj) : Prop :=
  match o with
  | OSaveS n p => orig st0 s n (SStr p)
  | OSaveN n z => orig st0 s n (SNum z)
  | _ => True
  end.

Record CI (st0 s : state) (k : nat) : Prop := mkCI {
  ci_good : Good c s;
  ci_jt : Jt s;
  ci_len : (k <= length (tvals s))%nat;
  ci_rel : RelX c (fun n => In n (snames k s)) st0 (drop_tv k s);
  ci_nodup : NoDup (snames k s);
  ci_saves : Forall (save_ok st0 s) (firstn k (tvals s))
}.

Lemma Forall2_skipn {A B} (R : A -> B -> Prop) k l l' : Forall2 R l l' -> Forall2 R (skipn k l) (skipn k l').
Proof. intros H. revert k. induction H; intros [|k]; simpl; auto. Qed.

Lemma Forall2_firstn {A B} (R : A -> B -> Prop) k l l' : Forall2 R l l' -> Forall2 R (firstn k l) (firstn k l').
Proof. intros H. revert k. induction H; intros [|k]; simpl; auto. Qed.

Lemma Forall2_length {A B} (R : A -> B -> Prop) l l' : Forall2 R l l' -> length l = length l'.
Proof. induction 1; simpl; auto. Qed.

Lemma same_mem_drop_tv k s : same_mem s (drop_tv k s).
Proof. unfold drop_tv. apply same_mem_set_tvals. Qed.

Lemma Rel_drop_tv X k s s' : RelX c X s s' -> RelX c X (drop_tv k s) (drop_tv k s').
Proof.
  intros H. apply (RelX_reshape c X s s' _ _ H (same_mem_drop_tv _ _) (same_mem_drop_tv _ _) eq_refl eq_refl); simpl.
  - exact (r_stack _ _ _ _ H).
  - apply Forall2_skipn, (r_tvals _ _ _ _ H).
Qed.

Lemma sname_RO s s' o o' : RO c s s' o o' -> sname o' = sname o.
Proof. destruct o, o'; simpl; intros H; try discriminate; try (inversion H; reflexivity); auto. destruct H; subst; reflexivity. Qed.

Lemma snames_RO k s s' : Forall2 (RO c s s') (tvals s) (tvals s') -> snames k s' = snames k s.
Proof.
  intros H. unfold snames. apply (Forall2_firstn _ k) in H. induction H; simpl; [reflexivity|].
  rewrite IHForall2, (sname_RO _ _ _ _ H). reflexivity.
Qed.

Lemma orig_step st0 s s' n v v' :
  orig st0 s n v ->
  match v, v' with SStr p, SStr p' => RP c s s' p p' | SNum z, SNum z' => z = z' | _, _ => False end ->
  orig st0 s' n v'.
Proof.
  unfold orig. destruct (lookup n (scal st0)) as [[p0|z0]|].
  - intros (p & -> & H1). destruct v' as [p'|]; [|contradiction]. intros H2. exists p'. split; [reflexivity|]. eapply RP_trans; eassumption.
  - intros ->. destruct v'; [contradiction|]. intros ->. reflexivity.
  - destruct v as [p|z], v' as [p'|z']; simpl; try contradiction.
    + intros H (H1 & _). congruence.
    + intros -> <-. reflexivity.
Qed.

(* a step of the computation that does not touch this call's saved scalars other than through Y *)
Lemma CI_step st0 s s' k (Y : Z -> Prop) :
  CI st0 s k -> Good c s' -> Jt s' -> RelX c Y s s' -> (forall n, Y n -> In n (snames k s)) -> CI st0 s' k.
Proof.
  intros [G J L R N Sv] G' J' HR HY.
  pose proof (r_tvals _ _ _ _ HR) as Ht. pose proof (snames_RO k s s' Ht) as Hn.
  constructor; auto.
  - rewrite <- (Forall2_length _ _ _ Ht). exact L.
  - rewrite Hn. eapply RelX_trans; [exact R|]. apply Rel_drop_tv. eapply RelX_weaken; [|exact HR]. exact HY.
  - rewrite Hn. exact N.
  - apply (Forall2_firstn _ k) in Ht. clear - Sv Ht. induction Ht; [constructor|].
    inversion Sv; subst. constructor; [|auto].
    destruct x, y; simpl in *; try discriminate; try (inversion H; fail); auto.
    + destruct H as [<- H]. eapply orig_step; [eassumption|]. exact H.
    + inversion H; subst. eapply orig_step; [eassumption|]. reflexivity.
Qed.

Lemma orig_states st0 s s' n v : strs s' = strs s -> tmp s' = tmp s -> orig st0 s n v -> orig st0 s' n v.
Proof.
  intros A B. unfold orig. destruct (lookup n (scal st0)) as [[p0|z0]|]; auto.
  intros (p & E & H). exists p. split; [exact E|]. eapply RP_states; [reflexivity|reflexivity|exact A|exact B|exact H].
Qed.

Lemma save_ok_states st0 s s' o : strs s' = strs s -> tmp s' = tmp s -> save_ok st0 s o -> save_ok st0 s' o.
Proof. intros A B. destruct o; simpl; auto; apply orig_states; assumption. Qed.

Lemma CI_push_arg st0 s k o : CI st0 s k -> obj_ok c s o -> sname o = [] -> CI st0 (tv_push s o) (S k).
Proof.
  intros [G J L R N Sv] Ho Hs.
  assert (En : snames (S k) (tv_push s o) = snames k s) by (unfold snames; simpl; rewrite Hs; reflexivity).
  constructor.
  - apply tv_push_good; assumption.
  - eapply Jt_containers; [|exact J]. unfold tv_push. apply same_mem_set_tvals.
  - simpl. lia.
  - rewrite En. exact R.
  - rewrite En. exact N.
  - simpl. constructor.
    + destruct o; simpl in *; auto; discriminate.
    + eapply Forall_impl; [|exact Sv]. intros a. apply save_ok_states; reflexivity.
Qed.

Lemma CI_push_save st0 s k e n :
  CI st0 s k -> obj_ok c s e -> sname e = [n] -> ~ In n (snames k s) -> save_ok st0 s e -> CI st0 (tv_push s e) (S k).
Proof.
  intros [G J L R N Sv] Ho Hs Hn Hsv.
  assert (En : snames (S k) (tv_push s e) = n :: snames k s) by (unfold snames; simpl; rewrite Hs; reflexivity).
  constructor.
  - apply tv_push_good; assumption.
  - eapply Jt_containers; [|exact J]. unfold tv_push. apply same_mem_set_tvals.
  - simpl. lia.
  - rewrite En. eapply RelX_weaken; [|exact R]. intros m Hm. right; exact Hm.
  - rewrite En. constructor; assumption.
  - simpl. constructor.
    + eapply save_ok_states; [| |exact Hsv]; reflexivity.
    + eapply Forall_impl; [|exact Sv]. intros a. apply save_ok_states; reflexivity.
Qed.

(* taking a scalar out of the exempt set when its value is known to be the original one *)
Lemma RelX_unexempt (X : Z -> Prop) st0 s n :
  RelX c X st0 s ->
  (match lookup n (scal st0) with
   | Some (SStr p0) => exists p, lookup n (scal s) = Some (SStr p) /\ RP c st0 s p0 p
   | Some (SNum z0) => lookup n (scal s) = Some (SNum z0)
   | None => lookup n (scal s) = None \/ exists v, lookup n (scal s) = Some v /\ zero_sval v
   end) ->
  RelX c (fun m => X m /\ m <> n) st0 s.
Proof.
  intros H Hn. constructor.
  - intros m p HX Hl. destruct (Z.eq_dec m n) as [->|Hne].
    + rewrite Hl in Hn. exact Hn.
    + apply (r_scal _ _ _ _ H); [|exact Hl]. intros Hx. apply HX. auto.
  - intros m z HX Hl. destruct (Z.eq_dec m n) as [->|Hne].
    + rewrite Hl in Hn. exact Hn.
    + apply (r_num _ _ _ _ H); [|exact Hl]. intros Hx. apply HX. auto.
  - intros m HX Hl. destruct (Z.eq_dec m n) as [->|Hne].
    + rewrite Hl in Hn. exact Hn.
    + apply (r_new _ _ _ _ H); [|exact Hl]. intros Hx. apply HX. auto.
  - exact (r_arrs _ _ _ _ H).
  - exact (r_newarr _ _ _ _ H).
  - exact (r_stack _ _ _ _ H).
  - exact (r_tvals _ _ _ _ H).
  - exact (r_misc _ _ _ _ H).
Qed.

Lemma RelX_same_mem_r X st0 s s' :
  RelX c X st0 s -> same_mem s s' -> stack s' = stack s -> tvals s' = tvals s -> fns s' = fns s -> RelX c X st0 s'.
Proof.
  intros H Hm Hs Ht Hf.
  apply (RelX_reshape c X st0 s st0 s' H (same_mem_refl _) Hm eq_refl Hf).
  - rewrite Hs. exact (r_stack _ _ _ _ H).
  - rewrite Ht. exact (r_tvals _ _ _ _ H).
Qed.

(* changing an exempt scalar *)
Lemma RelX_scal_exempt (X : Z -> Prop) st0 D D' n :
  RelX c X st0 D -> X n ->
  strs D' = strs D -> tmp D' = tmp D -> arrs D' = arrs D -> stack D' = stack D -> tvals D' = tvals D ->
  fns D' = fns D -> totmem D' = totmem D -> stksz D' = stksz D ->
  (forall m, m <> n -> lookup m (scal D') = lookup m (scal D)) ->
  RelX c X st0 D'.
Proof.
  intros H Hn a1 a2 a3 a4 a5 a6 a7 a8 Hl.
  assert (HP : forall p p', RP c st0 D p p' -> RP c st0 D' p p') by (intros; eapply RP_states; eauto).
  assert (HO : forall o o', RO c st0 D o o' -> RO c st0 D' o o') by (intros; eapply RO_states; eauto).
  assert (Hne : forall m, ~ X m -> m <> n) by (intros m Hm ->; contradiction).
  constructor.
  - intros m p HX Hlk. rewrite (Hl m (Hne m HX)). destruct (r_scal _ _ _ _ H m p HX Hlk) as (p' & A & B). eauto.
  - intros m z HX Hlk. rewrite (Hl m (Hne m HX)). apply (r_num _ _ _ _ H); assumption.
  - intros m HX Hlk. rewrite (Hl m (Hne m HX)). apply (r_new _ _ _ _ H); assumption.
  - rewrite a3. intros m d els Hlk. destruct (r_arrs _ _ _ _ H m d els Hlk) as (els' & A & B). exists els'. split; [exact A|].
    eapply Forall2_impl; [|exact B]. exact HP.
  - rewrite a3. exact (r_newarr _ _ _ _ H).
  - rewrite a4. eapply Forall2_impl; [|exact (r_stack _ _ _ _ H)]. intros x y Hxy. eapply Forall2_impl; [|exact Hxy]. exact HO.
  - rewrite a5. eapply Forall2_impl; [|exact (r_tvals _ _ _ _ H)]. exact HO.
  - rewrite a6, a7, a8. exact (r_misc _ _ _ _ H).
Qed.

(* finally: restore the saved values and drop this call's k entries *)
Lemma unwind_CI st0 : forall k s, CI st0 s k -> Good c (unwind k s) /\ Rel c st0 (unwind k s).
Proof.
  induction k as [|k IH]; intros s [G J L R N Sv].
  - simpl. split; [exact G|].
    assert (H : RelX c (fun _ => False) st0 (drop_tv 0 s)) by (eapply RelX_weaken; [|exact R]; intros n []).
    eapply RelX_same_mem_r; [exact H| | | |]; try reflexivity. apply same_mem_sym, same_mem_drop_tv.
  - destruct (tvals s) as [|o T] eqn:ET; [simpl in L; lia|].
    assert (Ho : obj_ok c s o) by (apply (g_tvals _ _ G); rewrite ET; left; reflexivity).
    assert (Etop : tv_top s = o) by (unfold tv_top; rewrite ET; reflexivity).
    assert (Esn : snames (S k) s = sname o ++ flat_map sname (firstn k T)) by (unfold snames; rewrite ET; reflexivity).
    simpl in Sv. inversion_clear Sv as [|? ? So ST].
    assert (HL2 : (k <= length T)%nat) by (simpl in L; lia).
    rewrite Esn in R, N.
    cbn [unwind]. rewrite Etop. apply IH.
    (* a general recipe: the state s2 after restoring (if o is a saved value) and popping *)
    assert (Hgen : forall s2 (X2 : Z -> Prop),
               Good c s2 -> tvals s2 = T -> strs s2 = strs s -> tmp s2 = tmp s -> cur s2 = cur s ->
               RelX c (fun m => In m (flat_map sname (firstn k T))) st0 (drop_tv k s2) -> NoDup (flat_map sname (firstn k T)) ->
               CI st0 s2 k).
    { intros s2 _ G2 Ht2 Hs2 Htm2 Hc2 R2 N2.
      assert (Esn2 : snames k s2 = flat_map sname (firstn k T)) by (unfold snames; rewrite Ht2; reflexivity).
      constructor; rewrite ?Esn2, ?Ht2; auto.
      - unfold Jt in *. rewrite Htm2, Hc2. exact J.
      - eapply Forall_impl; [|exact ST]. intros a. apply save_ok_states; assumption. }
    destruct o as [n0|n0 i0|p0|t0 z0|n p|n z]; cbn [sname app] in R, N;
      try (apply (Hgen (tv_pop s) (fun _ => True)); [apply tv_pop_good, G|simpl; rewrite ET; reflexivity|reflexivity|reflexivity|reflexivity| |exact N];
           eapply RelX_same_mem_r; [exact R| | | |]; try reflexivity;
           [unfold same_mem, drop_tv, tv_pop; simpl; repeat split; reflexivity|simpl; rewrite ET; reflexivity]).
    + (* a saved string scalar *)
      destruct Ho as (Hn & Hp & HJ). inversion_clear N as [|? ? Hnin Nrest].
      destruct (restore_scalar_good s n (SStr p) G) as [G1 _]; [intros _; eauto|rewrite Hn; discriminate|].
      apply (Hgen (tv_pop (set_scal s (upsert n (SStr p) (scal s)))) (fun _ => True));
        [apply tv_pop_good, G1|simpl; rewrite ET; reflexivity|reflexivity|reflexivity|reflexivity| |exact Nrest].
      set (D' := drop_tv k (tv_pop (set_scal s (upsert n (SStr p) (scal s))))).
      assert (R1 : RelX c (fun m => In m (n :: flat_map sname (firstn k T))) st0 D').
      { apply (RelX_scal_exempt _ st0 (drop_tv (S k) s) D' n R); try reflexivity; [left; reflexivity| |].
        - unfold D', drop_tv, tv_pop. simpl. rewrite ET. reflexivity.
        - intros m Hm. unfold D'. simpl. apply lookup_upsert_other, Hm. }
      eapply RelX_weaken; [|apply (RelX_unexempt _ st0 D' n R1)].
      * intros m [[->|Hm] Hne]; [contradiction|exact Hm].
      * unfold D'. simpl. rewrite lookup_upsert_same. simpl in So. unfold orig in So.
        destruct (lookup n (scal st0)) as [[q0|z0]|].
        -- destruct So as (q & Eq & HR). inversion Eq; subst q. exists p. split; [reflexivity|].
           eapply RP_states; [reflexivity|reflexivity| | |exact HR]; reflexivity.
        -- discriminate.
        -- right. exists (SStr p). auto.
    + (* a saved numeric scalar *)
      simpl in Ho. inversion_clear N as [|? ? Hnin Nrest].
      destruct (restore_scalar_good s n (SNum z) G) as [G1 _]; [rewrite Ho; discriminate|intros _; eauto|].
      apply (Hgen (tv_pop (set_scal s (upsert n (SNum z) (scal s)))) (fun _ => True));
        [apply tv_pop_good, G1|simpl; rewrite ET; reflexivity|reflexivity|reflexivity|reflexivity| |exact Nrest].
      set (D' := drop_tv k (tv_pop (set_scal s (upsert n (SNum z) (scal s))))).
      assert (R1 : RelX c (fun m => In m (n :: flat_map sname (firstn k T))) st0 D').
      { apply (RelX_scal_exempt _ st0 (drop_tv (S k) s) D' n R); try reflexivity; [left; reflexivity| |].
        - unfold D', drop_tv, tv_pop. simpl. rewrite ET. reflexivity.
        - intros m Hm. unfold D'. simpl. apply lookup_upsert_other, Hm. }
      eapply RelX_weaken; [|apply (RelX_unexempt _ st0 D' n R1)].
      * intros m [[->|Hm] Hne]; [contradiction|exact Hm].
      * unfold D'. simpl. rewrite lookup_upsert_same. simpl in So. unfold orig in So.
        destruct (lookup n (scal st0)) as [[q0|z0]|].
        -- destruct So as (q & Eq & HR). discriminate.
        -- inversion So; subst. reflexivity.
        -- right. exists (SNum z). auto.
Qed.

(* ---------- active flags are only changed by evaluate itself ---------- *)
Lemma check_free_active st size err : Good c st -> active (fst (check_free c st size err)) = active st.
Proof.
  intros G. pose proof (check_free_good c st size err G) as H. destruct (check_free c st size err) as [s r].
  destruct H as (_ & _ & Hsh & _). simpl. eapply collect_active, Hsh.
Qed.

Lemma alloc_scalar_active st n : Good c st -> active (fst (alloc_scalar c st n)) = active st.
Proof.
  intros G. unfold alloc_scalar. destruct (mem_key n (scal st)); [reflexivity|].
  pose proof (check_free_active st (scalar_mem n) 7 G) as H. destruct (check_free c st (scalar_mem n) 7) as [s r].
  simpl in H. destruct r; simpl; exact H.
Qed.

Lemma set_scalar_active st n v : Good c st -> active (fst (set_scalar c st n v)) = active st.
Proof.
  intros G. unfold set_scalar. destruct v as [s|]; [|apply alloc_scalar_active, G].
  set (st0 := if is_strobj (read_src st s) then fix_temporaries st else st).
  assert (G0 : Good c st0) by (unfold st0; destruct (is_strobj _); [apply fix_temporaries_good, G|exact G]).
  assert (A0 : active st0 = active st) by (unfold st0; destruct (is_strobj _); reflexivity).
  destruct (check_type n (read_src st0 s)); simpl; auto.
  pose proof (alloc_scalar_active st0 n G0) as H. destruct (alloc_scalar c st0 n) as [s1 r1]. simpl in H.
  destruct r1; simpl; congruence.
Qed.

Lemma remove_z_head f l : ~ In f l -> remove_z f (f :: l) = l.
Proof.
  intros H. unfold remove_z. simpl. rewrite Z.eqb_refl. simpl.
  induction l as [|x l IH]; simpl; [reflexivity|].
  destruct (x =? f) eqn:E; [apply Z.eqb_eq in E; subst; exfalso; apply H; left; reflexivity|].
  simpl. f_equal. apply IH. intros Hin. apply H. right; exact Hin.
Qed.

Lemma mem_z_false_notin f l : mem_z f l = false -> ~ In f l.
Proof.
  unfold mem_z. intros H Hin. assert (existsb (Z.eqb f) l = true); [|congruence].
  apply existsb_exists. exists f. split; [exact Hin|apply Z.eqb_refl].
Qed.

Lemma mem_z_true_in f l : mem_z f l = true -> In f l.
Proof. unfold mem_z. intros H. apply existsb_exists in H as (x & Hx & E). apply Z.eqb_eq in E. subst. exact Hx. Qed.

(* ---------- UserFunction.evaluate keeps every variable: the frame theorem ---------- *)
Section Call.
Variable parse : expr -> state -> R obj.
Hypothesis Hparse : forall e st, Good c st -> Jt st -> EV c (obj_ok c) st (parse e st).

Definition base (s : state) (k : nat) : nat := (length (tvals s) - k)%nat.

Lemma conv_arg_sname p s v o : conv_arg p s v = Ok o -> sname o = [].
Proof.
  unfold conv_arg. destruct (is_strname p).
  - destruct (is_strobj v); [|discriminate]. intros H; inversion H; reflexivity.
  - destruct v; try discriminate. destruct (conv_num (nty p) z); simpl; try discriminate. intros H; inversion H; reflexivity.
Qed.

Lemma eval_args_CI st0 : forall ps args s k, CI st0 s k ->
  let '(s', r) := eval_args parse ps args s in
  exists k', CI st0 s' k' /\ base s' k' = base s k /\ snames k' s' = snames k s /\ active s' = active s.
Proof.
  induction ps as [|p ps IH]; intros args s k HC; [simpl; exists k; auto|].
  destruct args as [|a args]; [simpl; exists k; auto|]. cbn [eval_args].
  pose proof (Hparse a s (ci_good _ _ _ HC) (ci_jt _ _ _ HC)) as Hp. unfold EV in Hp.
  destruct (parse a s) as [s1 r1]. destruct Hp as (G1 & J1 & R1 & A1 & Q1).
  assert (HC1 : CI st0 s1 k) by (eapply (CI_step st0 s s1 k (fun _ => False)); eauto; intros n []).
  assert (Hlen : length (tvals s1) = length (tvals s)) by (symmetry; eapply Forall2_length, (r_tvals _ _ _ _ R1)).
  assert (Hsn : snames k s1 = snames k s) by (apply snames_RO, (r_tvals _ _ _ _ R1)).
  unfold bindR. destruct r1 as [v|e|h|]; try (exists k; unfold base; rewrite Hlen; auto).
  destruct (conv_arg p s1 v) as [o|e|h|] eqn:Ec; try (exists k; unfold base; rewrite Hlen; auto).
  assert (Hoo : obj_ok c s1 o) by (eapply conv_arg_ok; eauto).
  pose proof (CI_push_arg st0 s1 k o HC1 Hoo (conv_arg_sname _ _ _ _ Ec)) as HC2.
  specialize (IH args (tv_push s1 o) (S k) HC2). destruct (eval_args parse ps args (tv_push s1 o)) as [s' r].
  destruct IH as (k' & C' & B' & N' & A'). exists k'. split; [exact C'|]. split; [|split].
  - rewrite B'. unfold base. simpl. rewrite Hlen. lia.
  - rewrite N'. unfold snames. simpl. rewrite (conv_arg_sname _ _ _ _ Ec). fold (snames k s1). exact Hsn.
  - rewrite A'. simpl. exact A1.
Qed.

Lemma CI_lookup_orig st0 s k n v :
  CI st0 s k -> ~ In n (snames k s) -> lookup n (scal s) = Some v -> orig st0 s n v.
Proof.
  intros HC Hn Hl. pose proof (ci_rel _ _ _ HC) as R. unfold orig.
  destruct (lookup n (scal st0)) as [[p0|z0]|] eqn:E0.
  - destruct (r_scal _ _ _ _ R n p0 Hn E0) as (p' & A & B). simpl in A. rewrite Hl in A. inversion A; subst.
    exists p'. split; [reflexivity|]. eapply RP_states; [reflexivity|reflexivity| | |exact B]; reflexivity.
  - pose proof (r_num _ _ _ _ R n z0 Hn E0) as A. simpl in A. congruence.
  - destruct (r_new _ _ _ _ R n Hn E0) as [A|(v0 & A & B)]; simpl in A; [congruence|]. rewrite Hl in A. inversion A; subst. exact B.
Qed.

Lemma save_params_CI st0 : forall ps saved s k, CI st0 s k -> (forall n, In n saved <-> In n (snames k s)) ->
  let '(s', r) := save_params c ps saved s in
  exists k', CI st0 s' k' /\ base s' k' = base s k /\ active s' = active s /\
             (forall n, In n (snames k s) -> In n (snames k' s')) /\
             (r = Ok tt -> forall n, In n ps -> In n (snames k' s')).
Proof.
  induction ps as [|n ps IH]; intros saved s k HC Hsaved.
  - simpl. exists k. spl; auto. intros _ n [].
  - cbn [save_params].
    pose proof (alloc_scalar_good c s n (ci_good _ _ _ HC)) as Ha.
    pose proof (alloc_scalar_active s n (ci_good _ _ _ HC)) as Hact.
    change (set_scalar c s n None) with (alloc_scalar c s n).
    destruct (alloc_scalar c s n) as [s1 r1]. simpl in Hact. destruct Ha as (G1 & J1 & R1 & M1 & _).
    specialize (J1 (ci_jt _ _ _ HC)).
    assert (HC1 : CI st0 s1 k) by (eapply (CI_step st0 s s1 k (fun _ => False)); eauto; intros m []).
    assert (Hlen : length (tvals s1) = length (tvals s)) by (symmetry; eapply Forall2_length, (r_tvals _ _ _ _ R1)).
    assert (Hsn : snames k s1 = snames k s) by (apply snames_RO, (r_tvals _ _ _ _ R1)).
    unfold bindR. destruct r1 as [[]|e|h|];
      try (exists k; unfold base; rewrite Hlen, Hsn; spl; auto; intros; discriminate).
    specialize (M1 eq_refl).
    destruct (mem_z n saved) eqn:Em.
    + (* already saved in this call *)
      specialize (IH saved s1 k HC1). destruct (save_params c ps saved s1) as [s' r].
      destruct IH as (k' & C' & B' & A' & I' & P'); [intros m; rewrite Hsn; apply Hsaved|].
      exists k'. split; [exact C'|]. split; [rewrite B'; unfold base; rewrite Hlen; reflexivity|].
      split; [congruence|]. split; [intros m Hm; apply I'; rewrite Hsn; exact Hm|].
      intros Hr m [<-|Hm]; [|apply P'; assumption].
      apply I'. rewrite Hsn. apply Hsaved. apply mem_z_true_in, Em.
    + assert (Hnin : ~ In n (snames k s1)) by (rewrite Hsn; intros H; apply Hsaved in H; eapply mem_z_false_notin; eassumption).
      unfold mem_key in M1. destruct (lookup n (scal s1)) as [v|] eqn:El; [|discriminate].
      set (e := match v with SStr p => OSaveS n p | SNum z => OSaveN n z end).
      assert (He : match Some v with Some (SStr p) => OSaveS n p | Some (SNum z) => OSaveN n z | None => OSaveN n 0 end = e)
        by (unfold e; destruct v; reflexivity).
      try rewrite He.
      assert (Hok : obj_ok c s1 e).
      { unfold e. destruct v as [p|z]; simpl.
        - destruct (is_strname n) eqn:En.
          + destruct (g_scal _ _ G1 n _ El En) as (q & Eq & A & B). inversion Eq; subst. auto.
          + destruct (g_scal_num _ _ G1 n _ El En) as (z & Hz). discriminate.
        - destruct (is_strname n) eqn:En; [|reflexivity].
          destruct (g_scal _ _ G1 n _ El En) as (q & Eq & _). discriminate. }
      assert (Hsv : save_ok st0 s1 e).
      { pose proof (CI_lookup_orig st0 s1 k n v HC1 Hnin El) as Ho. unfold e. destruct v; exact Ho. }
      assert (Hsne : sname e = [n]) by (unfold e; destruct v; reflexivity).
      pose proof (CI_push_save st0 s1 k e n HC1 Hok Hsne Hnin Hsv) as HC2.
      assert (Hsn2 : snames (S k) (tv_push s1 e) = n :: snames k s1) by (unfold snames; simpl; rewrite Hsne; reflexivity).
      specialize (IH (n :: saved) (tv_push s1 e) (S k) HC2). destruct (save_params c ps (n :: saved) (tv_push s1 e)) as [s' r].
      destruct IH as (k' & C' & B' & A' & I' & P').
      { intros m. rewrite Hsn2, Hsn. simpl. rewrite Hsaved. tauto. }
      exists k'. split; [exact C'|]. split; [rewrite B'; unfold base; simpl; rewrite Hlen; lia|].
      split; [rewrite A'; simpl; exact Hact|]. split.
      * intros m Hm. apply I'. rewrite Hsn2. right. rewrite Hsn. exact Hm.
      * intros Hr m [<-|Hm]; [apply I'; rewrite Hsn2; left; reflexivity|apply P'; assumption].
Qed.

Lemma bind_params_CI st0 : forall ps j k0 m s k, CI st0 s k -> (forall n, In n ps -> In n (snames k s)) ->
  let '(s', r) := bind_params c ps j k0 m s in
  CI st0 s' k /\ base s' k = base s k /\ active s' = active s /\ snames k s' = snames k s.
Proof.
  induction ps as [|n ps IH]; intros j k0 m s k HC Hps; [simpl; auto|]. cbn [bind_params].
  destruct (j <? k0)%nat; [|simpl; auto].
  pose proof (set_scalar_good c s n (Some (VTmp (m + (k0 - 1 - j)))) (ci_good _ _ _ HC) I) as Hs.
  pose proof (set_scalar_active s n (Some (VTmp (m + (k0 - 1 - j)))) (ci_good _ _ _ HC)) as Hact.
  destruct (set_scalar c s n (Some (VTmp (m + (k0 - 1 - j))))) as [s1 r1]. simpl in Hact.
  destruct Hs as (G1 & J1 & R1 & _). specialize (J1 (ci_jt _ _ _ HC)).
  assert (HC1 : CI st0 s1 k).
  { eapply (CI_step st0 s s1 k (fun x => x = n)); eauto. intros x ->. apply Hps. left; reflexivity. }
  assert (Hlen : length (tvals s1) = length (tvals s)) by (symmetry; eapply Forall2_length, (r_tvals _ _ _ _ R1)).
  assert (Hsn : snames k s1 = snames k s) by (apply snames_RO, (r_tvals _ _ _ _ R1)).
  unfold bindR. destruct r1 as [[]|e|h|]; try (unfold base; rewrite Hlen; auto).
  specialize (IH (S j) k0 m s1 k HC1). destruct (bind_params c ps (S j) k0 m s1) as [s' r].
  destruct IH as (C' & B' & A' & N'); [intros x Hx; rewrite Hsn; apply Hps; right; exact Hx|].
  split; [exact C'|]. split; [rewrite B'; unfold base; rewrite Hlen; reflexivity|]. split; congruence.
Qed.

Lemma CI_init st : Good c st -> Jt st -> CI st st 0.
Proof.
  intros G J. constructor; auto.
  - simpl. lia.
  - unfold snames. simpl. eapply RelX_same_mem_r; [apply RelX_refl|apply same_mem_drop_tv| | |]; reflexivity.
  - unfold snames. simpl. constructor.
  - simpl. constructor.
Qed.

Lemma Good_set_active st x : Good c st -> Good c (set_active st x).
Proof.
  intros G. apply (Good_containers c st _ G).
  - unfold same_mem. simpl. repeat split; reflexivity.
  - simpl. exact (g_stack _ _ G).
  - simpl. exact (g_tvals _ _ G).
Qed.

Lemma CI_set_active st0 s k x : CI st0 s k -> CI st0 (set_active s x) k.
Proof.
  intros [G J L R N Sv]. constructor.
  - apply Good_set_active, G.
  - exact J.
  - exact L.
  - eapply RelX_same_mem_r; [exact R| | | |]; try reflexivity. unfold same_mem. simpl. repeat split; reflexivity.
  - exact N.
  - eapply Forall_impl; [|exact Sv]. intros a. apply save_ok_states; reflexivity.
Qed.

Lemma unwind_strs k : forall st, strs (unwind k st) = strs st /\ totmem (unwind k st) = totmem st /\ stksz (unwind k st) = stksz st.
Proof.
  induction k as [|k IH]; intros st; simpl; [auto|].
  destruct (IH (tv_pop match tv_top st with
                       | OSaveS v p => set_scal st (upsert v (SStr p) (scal st))
                       | OSaveN v z => set_scal st (upsert v (SNum z) (scal st))
                       | _ => st end)) as (a1 & a2 & a3).
  rewrite a1, a2, a3. destruct (tv_top st); simpl; auto.
Qed.

Definition plain (o : obj) : Prop := match o with OStr _ | ONum _ _ => True | _ => False end.

Lemma conv_arg_plain p s v o : conv_arg p s v = Ok o -> plain o.
Proof.
  unfold conv_arg. destruct (is_strname p).
  - destruct (is_strobj v); [|discriminate]. intros H; inversion H; exact I.
  - destruct v; try discriminate. destruct (conv_num (nty p) z); simpl; try discriminate. intros H; inversion H; exact I.
Qed.

Lemma obj_ok_plain st st' o : plain o -> strs st' = strs st -> obj_ok c st o -> obj_ok c st' o.
Proof. destruct o; simpl; try contradiction; auto. intros _ H. apply ptr_ok_same, H. Qed.

Theorem evaluate_EV f args st : Good c st -> Jt st -> EV c (obj_ok c) st (evaluate c parse f args st).
Proof.
  intros G J. unfold evaluate. destruct (lookup f (fns st)) as [[ps0 body]|]; [|apply EV_err; assumption].
  generalize (map (resolve st) ps0). intros ps. unfold evaluate_call.
  set (inner := (doR (st1, _) <- eval_args parse ps args st;
         if mem_z f (active st1) then errR st1 7
         else
           doR (st2, _) <- save_params c ps [] st1;
           let k := Nat.min (length ps) (length args) in
           let m := (length (tvals st2) - length (tvals st1))%nat in
           doR (st3, _) <- bind_params c ps 0 k m st2;
           finallyR
             (doR (st5, v) <- parse body (set_active st3 (f :: active st3));
              liftR st5 (conv_result f st5 v))
             (fun s => set_active s (remove_z f (active s))))).
  assert (Hinner : let '(s, r) := inner in
            exists k, CI st s k /\ base s k = length (tvals st) /\ active s = active st /\
                      (forall o, r = Ok o -> obj_ok c s o /\ plain o)).
  { unfold inner.
    pose proof (eval_args_CI st ps args st 0 (CI_init st G J)) as H1.
    destruct (eval_args parse ps args st) as [st1 r1]. destruct H1 as (k1 & C1 & B1 & N1 & A1).
    assert (B1' : base st1 k1 = length (tvals st)) by (rewrite B1; unfold base; lia).
    unfold bindR at 1. destruct r1 as [[]|e|h|]; try (exists k1; spl; auto; intros; discriminate).
    destruct (mem_z f (active st1)) eqn:Em; [unfold errR; exists k1; spl; auto; intros; discriminate|].
    pose proof (save_params_CI st ps [] st1 k1 C1) as H2.
    destruct (save_params c ps [] st1) as [st2 r2].
    destruct H2 as (k2 & C2 & B2 & A2 & I2 & P2).
    { intros n. rewrite N1. unfold snames. simpl. tauto. }
    unfold bindR at 1. destruct r2 as [[]|e|h|];
      try (exists k2; spl; auto; [congruence|congruence|intros; discriminate]).
    specialize (P2 eq_refl). cbv zeta.
    pose proof (bind_params_CI st ps 0 (Nat.min (length ps) (length args)) (length (tvals st2) - length (tvals st1)) st2 k2 C2 P2) as H3.
    destruct (bind_params c ps 0 (Nat.min (length ps) (length args)) (length (tvals st2) - length (tvals st1)) st2) as [st3 r3].
    destruct H3 as (C3 & B3 & A3 & N3).
    unfold bindR at 1. destruct r3 as [[]|e|h|];
      try (exists k2; spl; auto; [congruence|congruence|intros; discriminate]).
    (* the body, with the recursion flag set *)
    pose proof (CI_set_active st st3 k2 (f :: active st3) C3) as C4.
    pose proof (Hparse body (set_active st3 (f :: active st3)) (ci_good _ _ _ C4) (ci_jt _ _ _ C4)) as H5. unfold EV in H5.
    unfold finallyR, bindR.
    destruct (parse body (set_active st3 (f :: active st3))) as [st5 r5]. destruct H5 as (G5 & J5 & R5 & A5 & Q5).
    assert (C5 : CI st st5 k2) by (eapply (CI_step st _ st5 k2 (fun _ => False)); eauto; intros n []).
    assert (Hlen5 : length (tvals st5) = length (tvals st3)).
    { symmetry. apply (Forall2_length _ _ _ (r_tvals _ _ _ _ R5)). }
    assert (Hact : remove_z f (active st5) = active st).
    { rewrite A5. cbn [active set_active]. rewrite remove_z_head; [congruence|]. rewrite A3, A2. apply mem_z_false_notin, Em. }
    assert (Hfin : forall (r : res obj), (forall o, r = Ok o -> obj_ok c st5 o /\ plain o) ->
              exists k, CI st (set_active st5 (remove_z f (active st5))) k /\
                        base (set_active st5 (remove_z f (active st5))) k = length (tvals st) /\
                        active (set_active st5 (remove_z f (active st5))) = active st /\
                        (forall o, r = Ok o -> obj_ok c (set_active st5 (remove_z f (active st5))) o /\ plain o)).
    { intros r Hr. exists k2. split; [apply CI_set_active, C5|]. split.
      - unfold base in *. simpl. rewrite Hlen5. congruence.
      - split; [simpl; exact Hact|]. intros o Ho. destruct (Hr o Ho). split; [apply obj_ok_set_active; assumption|assumption]. }
    destruct r5 as [v|e|h|]; try (apply Hfin; intros; discriminate).
    unfold liftR. apply Hfin. intros o Ho. unfold conv_result in Ho.
    split; [eapply conv_arg_ok; eauto|eapply conv_arg_plain; eauto]. }
  unfold finallyR. fold inner. destruct inner as [s r]. destruct Hinner as (k & C & B & A & Q).
  assert (Ek : (length (tvals s) - length (tvals st))%nat = k).
  { unfold base in B. pose proof (ci_len _ _ _ C). lia. }
  rewrite Ek. destruct (unwind_CI st k s C) as [Gf Rf].
  destruct (unwind_misc k s) as (m1 & m2 & m3 & m4 & m5). destruct (unwind_strs k s) as (m6 & _).
  unfold EV. split; [exact Gf|]. split; [unfold Jt; rewrite m1, m2; exact (ci_jt _ _ _ C)|].
  split; [exact Rf|]. split; [congruence|].
  intros o Ho. destruct (Q o Ho) as [Hok Hpl]. eapply obj_ok_plain; eauto.
Qed.
End Call.

(* ---------- unfolding equations of the evaluator (copied from model/UserFn.v by tools/gen_userfn_eqs.py, proved by reflexivity) ---------- *)
Lemma parse_S fuel e st : parse c (S fuel) e st =

      
      finallyR
        (doR (st1, _) <- units c fuel e (push_frame st);
         retR st1 (top_obj st1))
        pop_frame.
Proof. reflexivity. Qed.

Lemma units_S fuel e st : units c (S fuel) e st =

      match e with
      | ECat a b =>
          doR (st1, _) <- units c fuel a st;
          doR (st2, _) <- units c fuel b st1;
          
          let r := top_obj st2 in
          let st3 := pop_obj st2 in
          let l := top_obj st3 in
          let st4 := pop_obj st3 in
          doR (st5, v) <- add_objs c st4 l r;
          retR (push_obj st5 v) tt
      | _ =>
          doR (st1, v) <- unit_ c fuel e st;
          retR (push_obj st1 v) tt
      end.
Proof. reflexivity. Qed.

Lemma unit_S fuel e st : unit_ c (S fuel) e st =

      match e with
      | ELit (Some a) bs =>
          if 255 <? zlen bs then errR st 15
          else if (var_start c <=? a) || (a <? code_start c) then (st, Host host_Other)     
          else retR st (OStr (zlen bs, a))
      | ELit None bs => doR (st1, p) <- store c st bs; retR st1 (OStr p)
      | ENum t z => retR st (ONum t z)
      | EVar n0 =>
          let n := resolve st n0 in
          if is_strname n then retR st (if mem_key n (scal st) then OVar n else OStr (0, 0))
          else retR st (ONum (nty n) (match lookup n (scal st) with Some (SNum z) => z | _ => 0 end))
      | EArr n i => doR (st1, _) <- check_dim c st n i; retR st1 (OArr n i)
      | ECat _ _ => parse c fuel e st             
      | EPar e1 => parse c fuel e1 st
      | ELeft e1 n => left_right c fuel e1 n false st
      | ERight e1 n => left_right c fuel e1 n true st
      | EMid e1 s n =>
          doR (st1, sv) <- parse c fuel e1 st;
          finallyR
            (doR (st3, startv) <- parse c fuel s (tv_push st1 sv);
             match to_int16 startv with
             | Ok start =>
                 if negb (is_strobj (tv_top st3)) then errR st3 13
                 else
                   doR (st4, numo) <- match n with
                                      | Some ne => doR (st4, nv) <- parse c fuel ne st3; liftR st4 (bind (to_int16 nv) (fun z => Ok (Some z)))
                                      | None => retR st3 None
                                      end;
                   let s' := tv_top st4 in
                   let len := fst (optr st4 s') in
                   let num := match numo with Some z => z | None => len end in
                   if (start <? 1) || (255 <? start) then errR st4 5
                   else if (num <? 0) || (255 <? num) then errR st4 5
                   else if (num =? 0) || (len <? start) then retR st4 (OStr (0, 0))
                   else
                     match deref c st4 (optr st4 s') with
                     | Ok bs => doR (st5, p) <- store c st4 (takeZ num (dropZ (start - 1) bs)); retR st5 (OStr p)
                     | x => liftR st4 (bind x (fun _ => Err 13))
                     end
             | x => liftR st3 (bind x (fun _ => Err 13))
             end)
            tv_pop
      | EString n ce =>
          doR (st1, nv) <- parse c fuel n st;
          match to_int16 nv with
          | Ok num =>
              if (num <? 0) || (255 <? num) then errR st1 5
              else
                doR (st2, cv) <- parse c fuel ce st1;
                match cv with
                | ONum t z =>
                    if (t =? 2) && ((z <? 0) || (255 <? z)) then errR st2 5
                    else match conv_num 2 z with
                         | Ok a => if (a <? 0) || (255 <? a) then errR st2 5
                                   else doR (st3, p) <- store c st2 (repeat a (Z.to_nat num)); retR st3 (OStr p)
                         | x => liftR st2 (bind x (fun _ => Err 13))
                         end
                | _ =>
                    match deref c st2 (optr st2 cv) with
                    | Ok bs => doR (st3, p) <- store c st2 (repeat_list (firstn 1 bs) (Z.to_nat num)); retR st3 (OStr p)
                    | x => liftR st2 (bind x (fun _ => Err 13))
                    end
                end
          | x => liftR st1 (bind x (fun _ => Err 13))
          end
      | ESpace n =>
          doR (st1, nv) <- parse c fuel n st;
          match to_int16 nv with
          | Ok num => if (num <? 0) || (255 <? num) then errR st1 5
                      else doR (st2, p) <- store c st1 (repeat 32 (Z.to_nat num)); retR st2 (OStr p)
          | x => liftR st1 (bind x (fun _ => Err 13))
          end
      | EStr e1 =>
          doR (st1, v) <- parse c fuel e1 st;
          match v with
          | ONum _ z => doR (st2, p) <- store c st1 (str_of_num z); retR st2 (OStr p)
          | _ => errR st1 13
          end
      | EChr e1 =>
          doR (st1, v) <- parse c fuel e1 st;
          match to_int16 v with
          | Ok z => if (z <? 0) || (255 <? z) then errR st1 5
                    else doR (st2, p) <- store c st1 [z]; retR st2 (OStr p)
          | x => liftR st1 (bind x (fun _ => Err 13))
          end
      | EFre e1 =>
          doR (st1, v) <- parse c fuel e1 st;
          if is_strobj v then
            match collect c st1 with
            | Ok st2 => retR st2 (ONum 4 (free c st2))
            | x => liftR st1 (bind x (fun _ => Err 13))
            end
          else retR st1 (ONum 4 (free c st1))
      | ELen e1 =>
          doR (st1, v) <- parse c fuel e1 st;
          if is_strobj v then retR st1 (ONum 2 (fst (optr st1 v))) else errR st1 13
      | EInstr a b =>
          doR (st1, big) <- parse c fuel a st;
          if negb (is_strobj big) then errR st1 (match big with ONum _ _ => 2 | _ => 13 end)
          else
            finallyR
              (doR (st3, small) <- parse c fuel b (tv_push st1 big);
               if negb (is_strobj small) then errR st3 13
               else
                 match deref c st3 (optr st3 (tv_top st3)), deref c st3 (optr st3 small) with
                 | Ok bb, Ok sb =>
                     retR st3 (ONum 2 (match bb with [] => 0 | _ => find_from 0 bb sb + 1 end))
                 | Ok _, x => liftR st3 (bind x (fun _ => Err 13))
                 | x, _ => liftR st3 (bind x (fun _ => Err 13))
                 end)
              tv_pop
      | EFn f args => evaluate c (parse c fuel) f args st
      end.
Proof. reflexivity. Qed.

Lemma left_right_S fuel e1 n rj st : left_right c (S fuel) e1 n rj st =

      doR (st1, sv) <- parse c fuel e1 st;
      finallyR
        (doR (st3, numv) <- parse c fuel n (tv_push st1 sv);
         let s' := tv_top st3 in
         if negb (is_strobj s') then errR st3 13
         else
           match to_int16 numv with
           | Ok stop =>
               if stop =? 0 then retR st3 (OStr (0, 0))
               else if (stop <? 0) || (255 <? stop) then errR st3 5
               else
                 match deref c st3 (optr st3 s') with
                 | Ok bs => doR (st4, p) <- store c st3 (if rj then lastZ stop bs else takeZ stop bs);
                            retR st4 (OStr p)
                 | x => liftR st3 (bind x (fun _ => Err 13))
                 end
           | x => liftR st3 (bind x (fun _ => Err 13))
           end)
        tv_pop.
Proof. reflexivity. Qed.

(* ---------- the evaluator, by induction on the fuel ---------- *)
Definition Pparse (fuel : nat) : Prop := forall e st, Good c st -> Jt st -> EV c (obj_ok c) st (parse c fuel e st).
Definition Punit (fuel : nat) : Prop := forall e st, Good c st -> Jt st -> EV c (obj_ok c) st (unit_ c fuel e st).
Definition Plr (fuel : nat) : Prop := forall e n b st, Good c st -> Jt st -> EV c (obj_ok c) st (left_right c fuel e n b st).
Definition Punits (fuel : nat) : Prop := forall e st, Good c st -> Jt st -> stack st <> [] ->
  let '(st', r) := units c fuel e st in
  Good c st' /\ Jt st' /\ active st' = active st /\ stack st' <> [] /\
  match r with
  | Ok _ => Rel c st (pop_obj st') /\ exists o fr rs, stack st' = (o :: fr) :: rs
  | _ => Rel c (pop_frame st) (pop_frame st')
  end.

Lemma EV_fuel {A} (Q : state -> A -> Prop) st : Good c st -> Jt st -> EV c Q st (st, OutOfFuel).
Proof. intros. unfold EV. spl; auto using Rel_refl. intros; discriminate. Qed.

Lemma to_int16_cases o : (exists z, to_int16 o = Ok z) \/ (exists e, to_int16 o = Err e).
Proof.
  unfold to_int16, conv_num. destruct o; eauto. destruct ((2 =? 2) && ((z <? -32768) || (32767 <? z))); eauto.
Qed.

Lemma pop_push_obj_rel X st0 s v : stack s <> [] -> RelX c X st0 s -> RelX c X st0 (pop_obj (push_obj s v)).
Proof.
  intros Hs H. destruct (stack s) as [|fr rs] eqn:E; [contradiction|].
  eapply RelX_same_mem_r; [exact H| | | |].
  - unfold pop_obj, push_obj. rewrite E. simpl. unfold same_mem. simpl. repeat split; reflexivity.
  - unfold pop_obj, push_obj. rewrite E. simpl. reflexivity.
  - unfold pop_obj, push_obj. rewrite E. reflexivity.
  - unfold pop_obj, push_obj. rewrite E. reflexivity.
Qed.

Lemma pf_po_fields s :
  same_mem (pop_frame (pop_obj s)) (pop_frame s) /\ stack (pop_frame s) = stack (pop_frame (pop_obj s)) /\
  tvals (pop_frame s) = tvals (pop_frame (pop_obj s)) /\ fns (pop_frame s) = fns (pop_frame (pop_obj s)).
Proof.
  unfold pop_frame, pop_obj, same_mem. destruct (stack s) as [|[|o fr] rs] eqn:E; simpl; rewrite ?E; simpl; repeat split; reflexivity.
Qed.

Lemma pop_frame_pop_obj_rel X st0 s : RelX c X st0 (pop_frame (pop_obj s)) -> RelX c X st0 (pop_frame s).
Proof.
  intros H. destruct (pf_po_fields s) as (A & B & C & D). eapply RelX_same_mem_r; [exact H|exact A|exact B|exact C|exact D].
Qed.

Lemma pop_frame_pop_obj_rel_l X s s' : RelX c X (pop_frame (pop_obj s)) s' -> RelX c X (pop_frame s) s'.
Proof.
  intros H. destruct (pf_po_fields s) as (A & B & C & D).
  apply (RelX_reshape c X (pop_frame (pop_obj s)) s' (pop_frame s) s' H A (same_mem_refl _) D eq_refl).
  - rewrite B. exact (r_stack _ _ _ _ H).
  - rewrite C. exact (r_tvals _ _ _ _ H).
Qed.

Lemma push_obj_stack s v : stack s <> [] -> exists fr rs, stack (push_obj s v) = (v :: fr) :: rs.
Proof. intros H. unfold push_obj. destruct (stack s) as [|fr rs]; [contradiction|]. simpl. eauto. Qed.

Lemma parse_of_units fuel : Punits fuel -> Pparse (S fuel).
Proof.
  intros HU e st G J. rewrite parse_S.
  assert (G0 : Good c (push_frame st)) by (apply push_frame_good, G).
  assert (J0 : Jt (push_frame st)) by exact J.
  assert (S0 : stack (push_frame st) <> []) by (simpl; discriminate).
  specialize (HU e (push_frame st) G0 J0 S0). destruct (units c fuel e (push_frame st)) as [st1 r].
  destruct HU as (G1 & J1 & A1 & S1 & Hr). unfold finallyR, bindR, EV.
  destruct r as [[]|er|h|]; unfold retR; cbv beta iota.
  - destruct Hr as [R1 (o & fr & rs & Es)]. unfold retR.
    split; [apply pop_frame_good, G1|]. split; [exact J1|]. split.
    + apply pop_frame_pop_obj_rel. apply Rel_undo_push_frame. exact R1.
    + split; [exact A1|]. intros a Ea. inversion Ea; subst. apply obj_ok_pop_frame, top_obj_ok, G1.
  - split; [apply pop_frame_good, G1|]. split; [exact J1|]. split; [|split; [exact A1|intros; discriminate]].
    apply (RelX_reshape c _ (pop_frame (push_frame st)) (pop_frame st1) st (pop_frame st1) Hr); auto using same_mem_refl.
    + unfold same_mem. simpl. repeat split; reflexivity.
    + exact (r_stack _ _ _ _ Hr).
    + exact (r_tvals _ _ _ _ Hr).
  - split; [apply pop_frame_good, G1|]. split; [exact J1|]. split; [|split; [exact A1|intros; discriminate]].
    apply (RelX_reshape c _ (pop_frame (push_frame st)) (pop_frame st1) st (pop_frame st1) Hr); auto using same_mem_refl.
    + unfold same_mem. simpl. repeat split; reflexivity.
    + exact (r_stack _ _ _ _ Hr).
    + exact (r_tvals _ _ _ _ Hr).
  - split; [apply pop_frame_good, G1|]. split; [exact J1|]. split; [|split; [exact A1|intros; discriminate]].
    apply (RelX_reshape c _ (pop_frame (push_frame st)) (pop_frame st1) st (pop_frame st1) Hr); auto using same_mem_refl.
    + unfold same_mem. simpl. repeat split; reflexivity.
    + exact (r_stack _ _ _ _ Hr).
    + exact (r_tvals _ _ _ _ Hr).
Qed.

Lemma push_obj_fields s v : Jt (push_obj s v) = Jt s /\ active (push_obj s v) = active s.
Proof. unfold push_obj, Jt. destruct (stack s); simpl; auto. Qed.

Lemma pop_obj_same_mem s : same_mem s (pop_obj s).
Proof. unfold pop_obj. destruct (stack s) as [|[|o fr] rs]; try apply same_mem_refl. apply same_mem_set_stack. Qed.

Lemma pop_obj_fields s : Jt (pop_obj s) = Jt s /\ active (pop_obj s) = active s.
Proof. unfold pop_obj, Jt. destruct (stack s) as [|[|o fr] rs]; simpl; auto. Qed.

Lemma same_mem_trans a b d : same_mem a b -> same_mem b d -> same_mem a d.
Proof.
  unfold same_mem. intros (a1 & a2 & a3 & a4 & a5 & a6 & a7 & a8 & a9) (b1 & b2 & b3 & b4 & b5 & b6 & b7 & b8 & b9).
  repeat split; congruence.
Qed.

Lemma units_default fuel e st :
  Punit fuel -> Good c st -> Jt st -> stack st <> [] ->
  let '(st', r) := (doR (st1, v) <- unit_ c fuel e st; retR (push_obj st1 v) tt) in
  Good c st' /\ Jt st' /\ active st' = active st /\ stack st' <> [] /\
  match r with
  | Ok _ => Rel c st (pop_obj st') /\ exists o fr rs, stack st' = (o :: fr) :: rs
  | _ => Rel c (pop_frame st) (pop_frame st')
  end.
Proof.
  intros HU G J Hs. specialize (HU e st G J). unfold EV in HU. destruct (unit_ c fuel e st) as [st1 r].
  destruct HU as (G1 & J1 & R1 & A1 & Q1).
  assert (Hs1 : stack st1 <> []).
  { pose proof (r_stack _ _ _ _ R1) as H. destruct H; [contradiction|discriminate]. }
  unfold bindR. destruct r as [v|er|h|]; try (spl; auto; apply Rel_pop_frame, R1).
  unfold retR. destruct (push_obj_fields st1 v) as [Ej Ea].
  split; [apply push_obj_good; [exact G1|apply Q1; reflexivity]|]. split; [rewrite Ej; exact J1|]. split; [rewrite Ea; exact A1|].
  destruct (push_obj_stack st1 v Hs1) as (fr & rs & E). split; [rewrite E; discriminate|].
  split; [apply pop_push_obj_rel; assumption|eauto].
Qed.

Lemma units_step fuel : Punits fuel -> Punit fuel -> Punits (S fuel).
Proof.
  intros HUs HU e st G J Hs. rewrite units_S.
  destruct e; try (apply units_default; assumption).
  (* a + b *)
  pose proof (HUs e1 st G J Hs) as H1. destruct (units c fuel e1 st) as [st1 r1].
  destruct H1 as (G1 & J1 & A1 & S1 & Hr1). unfold bindR at 1.
  destruct r1 as [[]|er|h|]; try (spl; auto).
  destruct Hr1 as [R1 (o1 & fr1 & rs1 & E1)].
  pose proof (HUs e2 st1 G1 J1 S1) as H2. destruct (units c fuel e2 st1) as [st2 r2].
  destruct H2 as (G2 & J2 & A2 & S2 & Hr2). unfold bindR at 1.
  assert (Herr : Rel c (pop_frame st1) (pop_frame st2) -> Rel c (pop_frame st) (pop_frame st2)).
  { intros H. eapply Rel_trans; [|exact H]. apply pop_frame_pop_obj_rel. apply Rel_pop_frame. exact R1. }
  destruct r2 as [[]|er|h|]; try (spl; auto; congruence).
  destruct Hr2 as [R2 (o2 & fr2 & rs2 & E2)].
  (* the two operands *)
  set (st3 := pop_obj st2). set (st4 := pop_obj st3).
  assert (G3 : Good c st3) by (apply pop_obj_good, G2).
  assert (G4 : Good c st4) by (apply pop_obj_good, G3).
  assert (Hr : obj_ok c st4 (top_obj st2)).
  { eapply obj_ok_same; [|apply top_obj_ok, G2]. eapply same_mem_trans; apply pop_obj_same_mem. }
  assert (Hl : obj_ok c st4 (top_obj st3)).
  { eapply obj_ok_same; [|apply top_obj_ok, G3]. apply pop_obj_same_mem. }
  assert (J4 : Jt st4).
  { unfold st4, st3. rewrite (proj1 (pop_obj_fields _)), (proj1 (pop_obj_fields _)). exact J2. }
  assert (A4 : active st4 = active st).
  { unfold st4, st3. rewrite (proj2 (pop_obj_fields _)), (proj2 (pop_obj_fields _)). congruence. }
  assert (R4 : Rel c st st4).
  { eapply Rel_trans; [exact R1|]. apply Rel_pop_obj. exact R2. }
  assert (S4 : stack st4 <> []).
  { pose proof (r_stack _ _ _ _ R4) as H. destruct H; [contradiction|discriminate]. }
  pose proof (add_objs_EV st4 (top_obj st3) (top_obj st2) G4 J4 Hl Hr) as Ha. unfold EV in Ha.
  fold st3. fold st4. destruct (add_objs c st4 (top_obj st3) (top_obj st2)) as [st5 r5].
  destruct Ha as (G5 & J5 & R5 & A5 & Q5).
  assert (S5 : stack st5 <> []).
  { pose proof (r_stack _ _ _ _ R5) as H. destruct H; [contradiction|discriminate]. }
  unfold bindR. destruct r5 as [v|er|h|];
    try (spl; auto; [congruence|apply Rel_pop_frame; eapply Rel_trans; eassumption]).
  unfold retR. destruct (push_obj_fields st5 v) as [Ej Ea].
  split; [apply push_obj_good; [exact G5|apply Q5; reflexivity]|]. split; [rewrite Ej; exact J5|]. split; [rewrite Ea; congruence|].
  destruct (push_obj_stack st5 v S5) as (fr & rs & E). split; [rewrite E; discriminate|].
  split; [apply pop_push_obj_rel; [assumption|eapply Rel_trans; eassumption]|eauto].
Qed.

Ltac ev_done :=
  first [ apply EV_err; assumption
        | apply EV_fail; assumption
        | apply EV_store_obj; assumption
        | apply EV_fuel; assumption
        | apply EV_ret; [assumption|assumption|simpl; auto using zero_ptr_ok] ].

Lemma lr_step fuel : Pparse fuel -> Plr (S fuel).
Proof.
  intros Hp e n b st G J. rewrite left_right_S.
  eapply EV_bind; [apply Hp; assumption|]. intros st1 sv G1 J1 Hsv.
  apply (EV_finally_tv (obj_ok c) st1 sv); [intros; apply obj_ok_tv_pop; assumption|].
  assert (G2 : Good c (tv_push st1 sv)) by (apply tv_push_good; assumption).
  eapply EV_bind; [apply Hp; [exact G2|exact J1]|]. intros st3 numv G3 J3 _. cbv zeta.
  destruct (negb (is_strobj (tv_top st3))); [ev_done|].
  destruct (to_int16 numv) as [stop|er|h|]; try ev_done.
  destruct (stop =? 0); [ev_done|]. destruct ((stop <? 0) || (255 <? stop)); [ev_done|].
  destruct (deref c st3 (optr st3 (tv_top st3))) as [bs|er|h|]; try ev_done.
Qed.

Lemma EV_collect st : Good c st -> Jt st ->
  EV c (obj_ok c) st (match collect c st with
                      | Ok st2 => retR st2 (ONum 4 (free c st2))
                      | x => liftR st (bind x (fun _ => Err 13))
                      end).
Proof.
  intros G J. destruct (collect_good c st G) as (st' & Hc & G' & J' & R' & Hsh & _). rewrite Hc.
  unfold retR, EV. spl; auto. eapply collect_active, Hsh. intros a E. inversion E. exact I.
Qed.

Lemma EV_check_dim st n i : Good c st -> Jt st ->
  EV c (fun s (_ : unit) => obj_ok c s (OArr n i)) st (check_dim c st n i).
Proof.
  intros G J. pose proof (check_dim_good c st n i G) as H. destruct (check_dim c st n i) as [s r] eqn:E.
  destruct H as (G' & J' & R' & Hok & _). unfold EV. spl; auto.
  - (* active: check_dim only allocates *)
    unfold check_dim in E. destruct (negb (is_strname n)); [inversion E; reflexivity|].
    destruct (mem_key n (arrs st)) eqn:Em.
    + unfold bindR, retR in E. destruct (lookup n (arrs st)) as [[d els]|]; [destruct (i <? 0); [|destruct (d <? i)]|]; inversion E; reflexivity.
    + unfold allocate in E. rewrite Em in E. destruct (negb (is_strname n)); [unfold bindR, errR in E; inversion E; reflexivity|].
      destruct (10 <? 0); [unfold bindR, errR in E; inversion E; reflexivity|].
      pose proof (check_free_active st (array_mem 10) 7 G) as Ha.
      destruct (check_free c st (array_mem 10) 7) as [s1 r1]. simpl in Ha.
      unfold bindR, retR in E. destruct r1 as [[]|?|?|]; try (inversion E; subst; exact Ha).
      simpl in E. rewrite lookup_upsert_same in E. destruct (i <? 0); [|destruct (10 <? i)]; inversion E; subst; simpl; exact Ha.
  - intros [] Hr. apply Hok. exact Hr.
Qed.

Lemma unit_step fuel : Pparse fuel -> Plr fuel -> Punit (S fuel).
Proof.
  intros Hp Hlr e st G J. rewrite unit_S. destruct e.
  - (* literal *)
    destruct addr as [a|].
    + destruct (255 <? zlen bs); [ev_done|]. destruct ((var_start c <=? a) || (a <? code_start c)) eqn:Ea.
      * unfold EV. spl; auto using Rel_refl. intros; discriminate.
      * apply orb_false_iff in Ea as [Ea1 Ea2]. apply Z.leb_gt in Ea1. apply Z.ltb_ge in Ea2.
        apply EV_ret; auto. simpl. split; simpl; intros Hv; lia.
    + ev_done.
  - ev_done.
  - cbv zeta. generalize (resolve st n). intros n'. destruct (is_strname n') eqn:En.
    + apply EV_ret; auto. unfold mem_key. destruct (lookup n' (scal st)) as [v|] eqn:El; [|apply str_ok_zero].
      simpl. split; [exact En|]. destruct (g_scal _ _ G n' v El En) as (p & -> & _). eauto.
    + ev_done.
  - eapply EV_bind; [apply EV_check_dim; assumption|]. intros st1 [] G1 J1 Hok. apply EV_ret; assumption.
  - apply Hp; assumption.
  - apply Hp; assumption.
  - apply Hlr; assumption.
  - apply Hlr; assumption.
  - (* MID$ *)
    eapply EV_bind; [apply Hp; assumption|]. intros st1 sv G1 J1 Hsv.
    apply (EV_finally_tv (obj_ok c) st1 sv); [intros; apply obj_ok_tv_pop; assumption|].
    assert (G2 : Good c (tv_push st1 sv)) by (apply tv_push_good; assumption).
    eapply EV_bind; [apply Hp; [exact G2|exact J1]|]. intros st3 startv G3 J3 _.
    destruct (to_int16 startv) as [start|er|h|]; try ev_done.
    destruct (negb (is_strobj (tv_top st3))); [ev_done|].
    eapply (EV_bind c (fun _ (_ : option Z) => True)).
    { destruct n as [ne|]; [|apply EV_ret; auto].
      eapply EV_bind; [apply Hp; assumption|]. intros st4 nv G4 J4 _. apply EV_lift; auto. }
    intros st4 numo G4 J4 _. cbv zeta.
    destruct ((start <? 1) || (255 <? start)); [ev_done|].
    destruct ((_ <? 0) || (255 <? _)); [ev_done|].
    destruct ((_ =? 0) || (_ <? start)); [ev_done|].
    destruct (deref c st4 (optr st4 (tv_top st4))) as [bs|er|h|]; try ev_done.
  - (* STRING$ *)
    eapply EV_bind; [apply Hp; assumption|]. intros st1 nv G1 J1 _.
    destruct (to_int16 nv) as [num|er|h|]; try ev_done.
    destruct ((num <? 0) || (255 <? num)); [ev_done|].
    eapply EV_bind; [apply Hp; assumption|]. intros st2 cv G2 J2 Hcv.
    destruct cv; try (destruct (deref c st2 _) as [bs|er|h|]; ev_done).
    destruct ((t =? 2) && ((z <? 0) || (255 <? z))); [ev_done|].
    destruct (conv_num 2 z) as [a|er|h|]; try ev_done.
    destruct ((a <? 0) || (255 <? a)); ev_done.
  - (* SPACE$ *)
    eapply EV_bind; [apply Hp; assumption|]. intros st1 nv G1 J1 _.
    destruct (to_int16 nv) as [num|er|h|]; try ev_done.
    destruct ((num <? 0) || (255 <? num)); ev_done.
  - (* STR$ *)
    eapply EV_bind; [apply Hp; assumption|]. intros st1 v G1 J1 _. destruct v; ev_done.
  - (* CHR$ *)
    eapply EV_bind; [apply Hp; assumption|]. intros st1 v G1 J1 _.
    destruct (to_int16 v) as [z|er|h|]; try ev_done.
    destruct ((z <? 0) || (255 <? z)); ev_done.
  - (* FRE *)
    eapply EV_bind; [apply Hp; assumption|]. intros st1 v G1 J1 _.
    destruct (is_strobj v); [apply EV_collect; assumption|ev_done].
  - (* LEN *)
    eapply EV_bind; [apply Hp; assumption|]. intros st1 v G1 J1 _. destruct (is_strobj v); ev_done.
  - (* INSTR *)
    eapply EV_bind; [apply Hp; assumption|]. intros st1 big G1 J1 Hbig.
    destruct (negb (is_strobj big)); [ev_done|].
    apply (EV_finally_tv (obj_ok c) st1 big); [intros; apply obj_ok_tv_pop; assumption|].
    assert (G2 : Good c (tv_push st1 big)) by (apply tv_push_good; assumption).
    eapply EV_bind; [apply Hp; [exact G2|exact J1]|]. intros st3 small G3 J3 _.
    destruct (negb (is_strobj small)); [ev_done|].
    destruct (deref c st3 (optr st3 (tv_top st3))) as [bb|er|h|]; try ev_done.
    destruct (deref c st3 (optr st3 small)) as [sb|er|h|]; try ev_done.
  - (* FN *)
    apply evaluate_EV; auto.
Qed.

Theorem evaluator_all : forall fuel, Pparse fuel /\ Punits fuel /\ Punit fuel /\ Plr fuel.
Proof.
  induction fuel as [|fuel (IHp & IHus & IHu & IHl)].
  - split; [|split; [|split]].
    + intros e st G J. simpl. apply EV_fuel; assumption.
    + intros e st G J Hs. simpl. spl; auto using Rel_refl.
    + intros e st G J. simpl. apply EV_fuel; assumption.
    + intros e n b st G J. simpl. apply EV_fuel; assumption.
  - split; [apply parse_of_units, IHus|]. split; [apply units_step; assumption|].
    split; [apply unit_step; assumption|apply lr_step; assumption].
Qed.

Corollary parse_EV fuel e st : Good c st -> Jt st -> EV c (obj_ok c) st (parse c fuel e st).
Proof. apply (evaluator_all fuel). Qed.
End Evaluator.
