(* C10 / C20: expression evaluation and DEF FN calls preserve the invariant and leave every variable, every stack
   entry and every temporary with the value it had (frame property); statements preserve the invariant. *)
From Coq Require Import ZArith List Bool Lia.
From PCB Require Import lib.Result lib.PyInt model.StrSpace model.UserFn
     proofs.StrSpace_base proofs.StrSpace_gc proofs.StrSpace_inv proofs.StrSpace_ops.
Import ListNotations.
Open Scope Z_scope.

(* ---------- RelX under changes of the stacks / temp_values ---------- *)
Lemma RP_states c s1 s1' s2 s2' p p' :
  strs s2 = strs s1 -> tmp s2 = tmp s1 -> strs s2' = strs s1' -> tmp s2' = tmp s1' ->
  RP c s1 s1' p p' -> RP c s2 s2' p p'.
Proof.
  intros A B C D (H1 & H2 & H3). split; [exact H1|]. split.
  - unfold deref in *. rewrite A, C. exact H2.
  - unfold Jp in *. rewrite B, D. exact H3.
Qed.

Lemma RO_states c s1 s1' s2 s2' o o' :
  strs s2 = strs s1 -> tmp s2 = tmp s1 -> strs s2' = strs s1' -> tmp s2' = tmp s1' ->
  RO c s1 s1' o o' -> RO c s2 s2' o o'.
Proof.
  intros A B C D H. destruct o, o'; simpl in *; auto.
  - eapply RP_states; eassumption.
  - destruct H. split; [assumption|]. eapply RP_states; eassumption.
Qed.

Lemma Forall2_impl {A B} (R R' : A -> B -> Prop) l l' : (forall x y, R x y -> R' x y) -> Forall2 R l l' -> Forall2 R' l l'.
Proof. intros H. induction 1; constructor; auto. Qed.

(* same memory, other stacks *)
Lemma RelX_reshape c X st st' s s' :
  RelX c X st st' -> same_mem st s -> same_mem st' s' ->
  fns s = fns st -> fns s' = fns st' ->
  Forall2 (Forall2 (RO c st st')) (stack s) (stack s') -> Forall2 (RO c st st') (tvals s) (tvals s') ->
  RelX c X s s'.
Proof.
  intros H (a1 & a2 & a3 & a4 & a5 & a6 & a7 & a8 & a9) (b1 & b2 & b3 & b4 & b5 & b6 & b7 & b8 & b9) Hf Hf' Hs Ht.
  assert (HP : forall p p', RP c st st' p p' -> RP c s s' p p') by (intros; eapply RP_states; eauto).
  assert (HO : forall o o', RO c st st' o o' -> RO c s s' o o') by (intros; eapply RO_states; eauto).
  constructor; rewrite ?a6, ?a7, ?b6, ?b7.
  - intros n p HX Hl. destruct (r_scal _ _ _ _ H n p HX Hl) as (p' & A & B). eauto.
  - exact (r_num _ _ _ _ H).
  - exact (r_new _ _ _ _ H).
  - intros n d els Hl. destruct (r_arrs _ _ _ _ H n d els Hl) as (els' & A & B). exists els'. split; [exact A|].
    eapply Forall2_impl; [|exact B]. exact HP.
  - exact (r_newarr _ _ _ _ H).
  - eapply Forall2_impl; [|exact Hs]. intros x y Hxy. eapply Forall2_impl; [|exact Hxy]. exact HO.
  - eapply Forall2_impl; [|exact Ht]. exact HO.
  - destruct (r_misc _ _ _ _ H) as (m1 & m2 & m3). rewrite Hf, Hf', a4, a5, b4, b5. auto.
Qed.

Lemma same_mem_refl st : same_mem st st.
Proof. unfold same_mem. repeat split; reflexivity. Qed.

Lemma Rel_push_frame c X st st' : RelX c X st st' -> RelX c X (push_frame st) (push_frame st').
Proof.
  intros H. unfold push_frame. apply (RelX_reshape c X st st' _ _ H (same_mem_set_stack _ _) (same_mem_set_stack _ _) eq_refl eq_refl).
  - simpl. constructor; [constructor|exact (r_stack _ _ _ _ H)].
  - exact (r_tvals _ _ _ _ H).
Qed.

Lemma Rel_pop_frame c X st st' : RelX c X st st' -> RelX c X (pop_frame st) (pop_frame st').
Proof.
  intros H. unfold pop_frame. apply (RelX_reshape c X st st' _ _ H (same_mem_set_stack _ _) (same_mem_set_stack _ _) eq_refl eq_refl).
  - simpl. pose proof (r_stack _ _ _ _ H) as Hs. destruct Hs; simpl; [constructor|assumption].
  - exact (r_tvals _ _ _ _ H).
Qed.

Lemma Rel_pop_obj c X st st' : RelX c X st st' -> RelX c X (pop_obj st) (pop_obj st').
Proof.
  intros H. pose proof (r_stack _ _ _ _ H) as Hs. unfold pop_obj.
  remember (stack st) as S eqn:ES. remember (stack st') as S' eqn:ES'.
  destruct Hs as [|fr fr' r r' Hfr Hr]; [exact H|].
  destruct Hfr as [|o o' f f' Ho Hf]; [exact H|].
  apply (RelX_reshape c X st st' _ _ H (same_mem_set_stack _ _) (same_mem_set_stack _ _) eq_refl eq_refl).
  - simpl. constructor; assumption.
  - exact (r_tvals _ _ _ _ H).
Qed.

Lemma Rel_push_obj c X st st' o o' :
  RelX c X st st' -> RO c st st' o o' -> RelX c X (push_obj st o) (push_obj st' o').
Proof.
  intros H Ho. pose proof (r_stack _ _ _ _ H) as Hs. unfold push_obj.
  remember (stack st) as S eqn:ES. remember (stack st') as S' eqn:ES'.
  destruct Hs as [|fr fr' r r' Hfr Hr].
  - apply (RelX_reshape c X st st' _ _ H (same_mem_set_stack _ _) (same_mem_set_stack _ _) eq_refl eq_refl); simpl; [|exact (r_tvals _ _ _ _ H)].
    constructor; [constructor; [exact Ho|constructor]|constructor].
  - apply (RelX_reshape c X st st' _ _ H (same_mem_set_stack _ _) (same_mem_set_stack _ _) eq_refl eq_refl); simpl; [|exact (r_tvals _ _ _ _ H)].
    constructor; [constructor; assumption|assumption].
Qed.

Lemma Rel_tv_push c X st st' o o' :
  RelX c X st st' -> RO c st st' o o' -> RelX c X (tv_push st o) (tv_push st' o').
Proof.
  intros H Ho. unfold tv_push. apply (RelX_reshape c X st st' _ _ H (same_mem_set_tvals _ _) (same_mem_set_tvals _ _) eq_refl eq_refl); simpl.
  - exact (r_stack _ _ _ _ H).
  - constructor; [exact Ho|exact (r_tvals _ _ _ _ H)].
Qed.

Lemma Rel_tv_pop c X st st' : RelX c X st st' -> RelX c X (tv_pop st) (tv_pop st').
Proof.
  intros H. unfold tv_pop. apply (RelX_reshape c X st st' _ _ H (same_mem_set_tvals _ _) (same_mem_set_tvals _ _) eq_refl eq_refl); simpl.
  - exact (r_stack _ _ _ _ H).
  - pose proof (r_tvals _ _ _ _ H) as Ht. destruct Ht; simpl; [constructor|assumption].
Qed.

(* removing what was pushed on one side only *)
Lemma same_mem_sym st s : same_mem st s -> same_mem s st.
Proof. unfold same_mem. intros (a1 & a2 & a3 & a4 & a5 & a6 & a7 & a8 & a9). repeat split; congruence. Qed.

Lemma Rel_undo_push_frame c X st st' : RelX c X (push_frame st) st' -> RelX c X st (pop_frame st').
Proof.
  intros H. apply Rel_pop_frame in H.
  apply (RelX_reshape c X (pop_frame (push_frame st)) (pop_frame st') _ _ H); auto using same_mem_refl.
  - apply same_mem_sym. unfold same_mem. simpl. repeat split; reflexivity.
  - exact (r_stack _ _ _ _ H).
  - exact (r_tvals _ _ _ _ H).
Qed.

Lemma Rel_undo_tv_push c X st st' o : RelX c X (tv_push st o) st' -> RelX c X st (tv_pop st').
Proof.
  intros H. apply Rel_tv_pop in H.
  apply (RelX_reshape c X (tv_pop (tv_push st o)) (tv_pop st') _ _ H); auto using same_mem_refl.
  - apply same_mem_sym. unfold same_mem. simpl. repeat split; reflexivity.
  - exact (r_stack _ _ _ _ H).
  - exact (r_tvals _ _ _ _ H).
Qed.

(* ---------- a small Hoare logic for computations that always return a state ---------- *)
Section Logic.
Variable c : cfg.

(* st --x--> (st', r): invariant kept, old state related, active flags unchanged, Q holds of an Ok result *)
Definition EV {A} (Q : state -> A -> Prop) (st : state) (x : R A) : Prop :=
  let '(st', r) := x in
  Good c st' /\ Jt st' /\ Rel c st st' /\ active st' = active st /\ (forall a, r = Ok a -> Q st' a).

Lemma EV_ret {A} (Q : state -> A -> Prop) st a : Good c st -> Jt st -> Q st a -> EV Q st (retR st a).
Proof. intros. unfold EV, retR. spl; auto using Rel_refl. intros a' E. inversion E; subst; assumption. Qed.

Lemma EV_err {A} (Q : state -> A -> Prop) st e : Good c st -> Jt st -> EV Q st (errR st e).
Proof. intros. unfold EV, errR. spl; auto using Rel_refl. intros; discriminate. Qed.

Lemma EV_lift {A} (Q : state -> A -> Prop) st (r : res A) :
  Good c st -> Jt st -> (forall a, r = Ok a -> Q st a) -> EV Q st (liftR st r).
Proof. intros. unfold EV, liftR. spl; auto using Rel_refl. Qed.

Lemma EV_bind {A B} (Q : state -> A -> Prop) (Q' : state -> B -> Prop) st (x : R A) (f : state -> A -> R B) :
  EV Q st x ->
  (forall st1 a, Good c st1 -> Jt st1 -> Q st1 a -> EV Q' st1 (f st1 a)) ->
  EV Q' st (bindR x f).
Proof.
  unfold EV. destruct x as [st1 r]. intros (G1 & J1 & R1 & A1 & Q1) Hf. unfold bindR.
  destruct r as [a|e|h|]; try (spl; auto; intros; discriminate).
  specialize (Hf st1 a G1 J1 (Q1 a eq_refl)). destruct (f st1 a) as [st2 r2].
  destruct Hf as (G2 & J2 & R2 & A2 & Q2). spl; auto; [eapply Rel_trans; eassumption|congruence].
Qed.

Lemma EV_weaken {A} (Q Q' : state -> A -> Prop) st (x : R A) :
  (forall s a, Good c s -> Q s a -> Q' s a) -> EV Q st x -> EV Q' st x.
Proof.
  unfold EV. destruct x as [st1 r]. intros H (G1 & J1 & R1 & A1 & Q1). spl; auto.
Qed.

(* a relation step that is not an R computation *)
Lemma EV_from {A} (Q : state -> A -> Prop) st st1 (x : R A) :
  Good c st1 -> Jt st1 -> Rel c st st1 -> active st1 = active st -> EV Q st1 x -> EV Q st x.
Proof.
  unfold EV. destruct x as [st2 r]. intros G1 J1 R1 A1 (G2 & J2 & R2 & A2 & Q2).
  spl; auto; [eapply Rel_trans; eassumption|congruence].
Qed.

(* primitive computations in EV form *)
Lemma EV_store (Q : state -> ptr -> Prop) st bs :
  Good c st -> Jt st ->
  (forall s p, Good c s -> ptr_ok c s p -> fst p = zlen bs -> deref c s p = Ok bs -> Q s p) ->
  EV Q st (store c st bs).
Proof.
  intros G J HQ. pose proof (store_good c st bs G J) as H. unfold EV. destruct (store c st bs) as [st' r].
  destruct H as (G' & J' & R' & Hsh & Hp & _). spl; auto.
  - unfold shape in Hsh. injection Hsh as _ _ _ _ _ Ha _ _ _ _. exact Ha.
  - intros p E. destruct (Hp p E) as (A & B & D). apply HQ; auto.
Qed.

Lemma collect_active st st' : shape st' = shape st -> active st' = active st.
Proof. unfold shape. intros H. injection H as _ _ _ _ _ Ha _ _ _ _. exact Ha. Qed.
End Logic.

Section Evaluator.
Variable c : cfg.

Lemma bind_err_not_ok {A B} (x : res A) e (b : B) : bind x (fun _ => Err e) <> Ok b.
Proof. destruct x; simpl; discriminate. Qed.

Lemma EV_fail {A B} (Q : state -> B -> Prop) st (x : res A) e :
  Good c st -> Jt st -> EV c Q st (liftR st (bind x (fun _ => Err e))).
Proof. intros. apply EV_lift; auto. intros a E. exfalso. eapply bind_err_not_ok; eassumption. Qed.

Lemma obj_ok_tv_pop st o : obj_ok c st o -> obj_ok c (tv_pop st) o.
Proof. apply obj_ok_same. unfold tv_pop. apply same_mem_set_tvals. Qed.
Lemma obj_ok_pop_frame st o : obj_ok c st o -> obj_ok c (pop_frame st) o.
Proof. apply obj_ok_same. unfold pop_frame. apply same_mem_set_stack. Qed.
Lemma obj_ok_set_active st o x : obj_ok c st o -> obj_ok c (set_active st x) o.
Proof. apply obj_ok_same. unfold same_mem. simpl. repeat split; reflexivity. Qed.

Lemma Jt_containers st st' : same_mem st st' -> Jt st -> Jt st'.
Proof. intros (a1 & a2 & a3 & _). apply Jt_same; assumption. Qed.

(* try: x (in a state with one more temp_values entry) finally: temp_values.remove *)
Lemma EV_finally_tv {A} (Q : state -> A -> Prop) st sv (x : R A) :
  (forall s a, Q s a -> Q (tv_pop s) a) ->
  EV c Q (tv_push st sv) x -> EV c Q st (finallyR x tv_pop).
Proof.
  unfold EV, finallyR. destruct x as [st3 r]. intros HQ (G & J & Rl & Ac & Hq).
  split; [apply tv_pop_good, G|]. split; [eapply Jt_containers; [|exact J]; unfold tv_pop; apply same_mem_set_tvals|].
  split; [eapply Rel_undo_tv_push, Rl|]. split; [exact Ac|]. intros a E. apply HQ, Hq, E.
Qed.

Lemma str_ok_zero st : obj_ok c st (OStr (0, 0)).
Proof. simpl. apply zero_ptr_ok. Qed.

(* the result of a store, as an object *)
Lemma EV_store_obj st bs : Good c st -> Jt st -> EV c (obj_ok c) st (doR (st1, p) <- store c st bs; retR st1 (OStr p)).
Proof.
  intros G J. eapply EV_bind; [apply (EV_store c (fun s p => ptr_ok c s p)); auto|].
  intros st1 p G1 J1 Hp. apply EV_ret; auto.
Qed.

Lemma add_objs_EV st l r : Good c st -> Jt st -> obj_ok c st l -> obj_ok c st r -> EV c (obj_ok c) st (add_objs c st l r).
Proof.
  intros G J Hl Hr. unfold add_objs.
  assert (Hs : EV c (obj_ok c) st
                 (if is_strobj l && is_strobj r then
                    match deref c st (optr st l), deref c st (optr st r) with
                    | Ok a, Ok b => doR (st1, p) <- store c st (a ++ b); retR st1 (OStr p)
                    | Ok _, x => liftR st (bind x (fun _ => Err 13))
                    | x, _ => liftR st (bind x (fun _ => Err 13))
                    end
                  else errR st 13)).
  { destruct (is_strobj l && is_strobj r); [|apply EV_err; auto].
    destruct (deref c st (optr st l)) as [a|e|h|]; try (apply EV_fail; auto).
    destruct (deref c st (optr st r)) as [b|e|h|]; try (apply EV_fail; auto).
    apply EV_store_obj; auto. }
  destruct l; try exact Hs. destruct r; try exact Hs. apply EV_ret; simpl; auto.
Qed.

Lemma conv_arg_ok p st v o : Good c st -> obj_ok c st v -> conv_arg p st v = Ok o -> obj_ok c st o.
Proof.
  intros G Hv. unfold conv_arg. destruct (is_strname p).
  - destruct (is_strobj v) eqn:E; [|discriminate]. intros H. inversion H; subst. simpl. apply obj_ok_ptr; assumption.
  - destruct v; try discriminate. destruct (conv_num (nty p) z); simpl; try discriminate. intros H. inversion H; subst. exact I.
Qed.

(* ---------- unwinding a DEF FN call always keeps the invariant ---------- *)
Lemma restore_scalar_good st n v :
  Good c st ->
  (is_strname n = true -> exists p, v = SStr p /\ ptr_ok c st p /\ Jp c st p) ->
  (is_strname n = false -> exists z, v = SNum z) ->
  Good c (set_scal st (upsert n v (scal st))) /\ RelX c (fun m => m = n) st (set_scal st (upsert n v (scal st))).
Proof.
  intros G H1 H2.
  change (set_scal st (upsert n v (scal st))) with (set_scal (set_scur st (scur st)) (upsert n v (scal st))).
  apply Good_set_scalar; auto.
  - right. exists st. exact G.
  - intros _. destruct (g_low _ _ G) as (A & B & C). auto.
Qed.

Lemma unwind_good k : forall st, Good c st -> Good c (unwind k st).
Proof.
  induction k as [|k IH]; intros st G; simpl; [exact G|]. apply IH. apply tv_pop_good.
  pose proof (tv_top_ok c st G) as Hok. destruct (tv_top st) as [| | | |n p|n z] eqn:E; auto.
  - destruct Hok as (Hn & Hp & HJ). apply restore_scalar_good; auto.
    + intros _. eauto.
    + rewrite Hn. discriminate.
  - simpl in Hok. apply restore_scalar_good; auto.
    + rewrite Hok. discriminate.
    + intros _. eauto.
Qed.

Lemma unwind_misc k : forall st, cur (unwind k st) = cur st /\ tmp (unwind k st) = tmp st /\ active (unwind k st) = active st /\
                                 stack (unwind k st) = stack st /\ tvals (unwind k st) = skipn k (tvals st).
Proof.
  induction k as [|k IH]; intros st; simpl; [auto|].
  destruct (IH (tv_pop match tv_top st with
                       | OSaveS v p => set_scal st (upsert v (SStr p) (scal st))
                       | OSaveN v z => set_scal st (upsert v (SNum z) (scal st))
                       | _ => st end)) as (a1 & a2 & a3 & a4 & a5).
  rewrite a1, a2, a3, a4, a5. destruct (tv_top st); simpl; spl; auto; destruct (tvals st); simpl; rewrite ?skipn_nil; reflexivity.
Qed.
End Evaluator.
