(* C43: unicode strings through the codepage (on top of C41, proofs/Codepage_tables_proofs.v).
   - every character (cluster) of a page's repertoire: set_variable stores its codepage bytes, get_variable
     returns them and the page's converter decodes them to the character again (all 49 pages);
   - whole strings over the repertoire of a single-byte page without multi-code-point clusters (all shipped
     single-byte pages except the few that define clusters): the same for the string, by induction.
   The finite facts (entry keys of single-byte pages are one byte, of all pages at most two) are sweeps by
   vm_compute over the regenerated tables, lifted with forallb_forall. *)
From Coq Require Import String ZArith List Bool Lia.
From PCB Require Import lib.Result lib.PyInt lib.Harness gen.Gen_codepages gen.Gen_codepages_dbcs model.Codepage
  proofs.Codepage_proofs proofs.Codepage_tables_proofs model.Api model.Api_env proofs.Api_proofs.
Import ListNotations.
Open Scope Z_scope.

(* ---------------------------------------------------------------- sweeps over the tables *)

Definition keys_short (t : tables) : bool := forallb (fun e => (List.length (fst e) <=? 2)%nat) (t_entries t).
Definition keys_single (t : tables) : bool :=
  if t_dbcs t then true else forallb (fun e => (List.length (fst e) =? 1)%nat) (t_entries t).

Lemma all_keys_short : forallb keys_short all_codepages = true.
Proof. vm_compute. reflexivity. Qed.
Lemma all_keys_single : forallb keys_single all_codepages = true.
Proof. vm_compute. reflexivity. Qed.

Lemma key_short t b u : In t all_codepages -> In (b, u) (t_entries t) -> (List.length b <= 2)%nat.
Proof.
  intros Ht Hin. pose proof (proj1 (forallb_forall _ _) all_keys_short t Ht) as H. unfold keys_short in H.
  pose proof (proj1 (forallb_forall _ _) H (b, u) Hin) as H2. cbn [fst] in H2. apply Nat.leb_le in H2. exact H2.
Qed.

Lemma key_single t b u : In t all_codepages -> t_dbcs t = false -> In (b, u) (t_entries t) -> List.length b = 1%nat.
Proof.
  intros Ht Hd Hin. pose proof (proj1 (forallb_forall _ _) all_keys_single t Ht) as H. unfold keys_single in H.
  rewrite Hd in H. pose proof (proj1 (forallb_forall _ _) H (b, u) Hin) as H2. cbn [fst] in H2.
  apply Nat.eqb_eq in H2. exact H2.
Qed.

(* the encoding of a repertoire character is an entry key *)
Lemma encode_char t u mode : In t all_codepages -> In u (repertoire t) ->
  exists r, unicode_to_bytes t mode u = Ok r /\ bytes_to_unicode t r = u /\ In (r, u) (t_entries t).
Proof.
  intros Ht Hu. unfold repertoire in Hu. apply in_map_iff in Hu as ((b, u') & Hs & Hin).
  cbn [snd] in Hs. subst u'.
  destruct (encode_entry t b u mode Ht Hin) as (r & H1 & H2 & [H3|H3]); exists r; repeat split; try assumption.
  subst r. exact Hin.
Qed.

(* ---------------------------------------------------------------- one character, every page *)

Theorem char_roundtrip t st name u : In t all_codepages -> In u (repertoire t) -> scalar_name name sg_str ->
  exists b,
    let E := env_of_tables t in
    let st' := fst (set_variable E st name (PUni u)) in
    snd (set_variable E st name (PUni u)) = Ok tt /\
    get_variable E st' name 0 = Ok (PBytes b) /\
    evaluate st' name [] = (st', Ok (PBytes b)) /\
    bytes_to_unicode t b = u.
Proof.
  intros Ht Hu Hn. destruct (encode_char t u Ignore Ht Hu) as (b & H1 & H2 & H3).
  exists b. cbv zeta.
  pose proof (key_short t b u Ht H3) as Hlen.
  destruct (unicode_set_get (env_of_tables t) st name u b Hn H1 ltac:(unfold zlen; lia)) as (A & B & _ & D).
  repeat split; assumption.
Qed.

(* ---------------------------------------------------------------- strings, single-byte pages *)

Definition simple_page (t : tables) : Prop := t_dbcs t = false /\ t_clusters t = [].

(* code points of the repertoire, NUL excluded (a NUL starts a two-code-point e-ascii cluster) *)
Definition rep_char (t : tables) (c : Z) : Prop := c <> 0 /\ In [c] (repertoire t).

Lemma cluster_len_simple t c r : t_clusters t = [] -> c <> 0 -> cluster_len t (c :: r) = 1%nat.
Proof.
  intros Hc Hz. unfold cluster_len, match_len. rewrite Hc. cbn [find].
  destruct c; [contradiction | |]; destruct r; reflexivity.
Qed.

Lemma split_simple t : t_clusters t = [] -> forall s, Forall (fun c => c <> 0) s ->
  forall fuel, (List.length s <= fuel)%nat -> split_unicode_fuel fuel t s = Ok (map (fun c => [c]) s).
Proof.
  intros Hc. induction s as [|c r IH]; intros HF fuel Hf.
  - destruct fuel; reflexivity.
  - inversion HF as [|c0 r0 Hz Hr]; subst c0 r0. destruct fuel as [|f]; [simpl in Hf; lia|].
    cbn [split_unicode_fuel]. rewrite cluster_len_simple by assumption. cbn [skipn firstn].
    rewrite IH by (try assumption; simpl in Hf; lia). reflexivity.
Qed.

(* the converter of a single-byte page works byte by byte *)
Lemma b2u_sbcs t s : t_dbcs t = false ->
  bytes_to_unicode t s = concat (map (fun c => seq_to_unicode (default_converter t) [c]) s).
Proof.
  intros Hd. unfold bytes_to_unicode, to_unicode, to_unicode_list, mark. cbn [default_converter cv_t].
  rewrite Hd. cbn [negb fst]. f_equal. induction s as [|c r IH]; [reflexivity|].
  cbn [map with_marks flat_map List.length Nat.eqb app]. f_equal. exact IH.
Qed.

Lemma b2u_app t s1 s2 : t_dbcs t = false -> bytes_to_unicode t (s1 ++ s2) = bytes_to_unicode t s1 ++ bytes_to_unicode t s2.
Proof. intros Hd. rewrite !b2u_sbcs by exact Hd. rewrite map_app, concat_app. reflexivity. Qed.

Lemma from_unicode_char t c mode : In t all_codepages -> simple_page t -> rep_char t c ->
  exists b, from_unicode t mode [c] = Ok b /\ bytes_to_unicode t b = [c] /\ List.length b = 1%nat.
Proof.
  intros Ht (Hd & Hc) (Hz & Hr). destruct (encode_char t [c] mode Ht Hr) as (b & H1 & H2 & H3).
  exists b. split; [|split; [exact H2 | exact (key_single t b [c] Ht Hd H3)]].
  unfold unicode_to_bytes, split_unicode in H1.
  rewrite (split_simple t Hc [c] ltac:(constructor; [exact Hz | constructor]) (List.length [c]) (le_n _)) in H1.
  cbn [map bind join_from_unicode] in H1.
  destruct (from_unicode t mode [c]) as [b'| | |]; cbn [bind] in H1; try discriminate.
  rewrite app_nil_r in H1. exact H1.
Qed.

Lemma string_encode t mode : In t all_codepages -> simple_page t -> forall s, Forall (rep_char t) s ->
  exists b, join_from_unicode t mode (map (fun c => [c]) s) = Ok b /\ bytes_to_unicode t b = s /\
            List.length b = List.length s.
Proof.
  intros Ht Hp. induction s as [|c r IH]; intros HF.
  - exists []. repeat split; try reflexivity. rewrite b2u_sbcs by apply Hp. reflexivity.
  - inversion HF as [|c0 r0 Hc Hr]; subst c0 r0.
    destruct (from_unicode_char t c mode Ht Hp Hc) as (b1 & A1 & A2 & A3).
    destruct (IH Hr) as (b2 & B1 & B2 & B3).
    exists (b1 ++ b2). cbn [map join_from_unicode]. rewrite A1. cbn [bind]. rewrite B1. cbn [bind].
    split; [reflexivity|]. split.
    + rewrite b2u_app by apply Hp. rewrite A2, B2. reflexivity.
    + rewrite app_length, A3, B3. reflexivity.
Qed.

Theorem string_roundtrip t st name s : In t all_codepages -> simple_page t -> Forall (rep_char t) s ->
  (List.length s <= 255)%nat -> scalar_name name sg_str ->
  exists b,
    let E := env_of_tables t in
    let st' := fst (set_variable E st name (PUni s)) in
    snd (set_variable E st name (PUni s)) = Ok tt /\
    get_variable E st' name 0 = Ok (PBytes b) /\
    evaluate st' name [] = (st', Ok (PBytes b)) /\
    bytes_to_unicode t b = s /\ List.length b = List.length s.
Proof.
  intros Ht Hp HF Hlen Hn. destruct (string_encode t Ignore Ht Hp s HF) as (b & H1 & H2 & H3).
  exists b. cbv zeta.
  assert (Hu : e_u2b (env_of_tables t) s = Ok b).
  { cbn [env_of_tables e_u2b]. unfold unicode_to_bytes, split_unicode.
    assert (Hs : split_unicode_fuel (List.length s) t s = Ok (map (fun c => [c]) s)).
    { apply split_simple; [apply Hp | | lia]. eapply Forall_impl; [|exact HF]. intros c Hc. apply Hc. }
    rewrite Hs. cbn [bind]. exact H1. }
  destruct (unicode_set_get (env_of_tables t) st name s b Hn Hu ltac:(unfold zlen; lia)) as (A & B & _ & D).
  repeat split; assumption.
Qed.

(* the default codepage 437 and friends are simple pages *)
Definition simple_pageb (t : tables) : bool :=
  negb (t_dbcs t) && match t_clusters t with [] => true | _ => false end.
Lemma simple_pageb_ok t : simple_pageb t = true -> simple_page t.
Proof.
  unfold simple_pageb, simple_page. intros H. apply andb_true_iff in H as [H1 H2].
  split; [destruct (t_dbcs t); [discriminate | reflexivity] | destruct (t_clusters t); [reflexivity | discriminate]].
Qed.
