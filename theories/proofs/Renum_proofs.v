(* C14: RENUM - numbering, the reference scan, WF preservation, traps *)
From Coq Require Import ZArith List Bool Lia Sorting.Sorted Sorting.Permutation.
From PCB Require Import lib.Result lib.PyInt gen.Gen_program model.Program model.ProgramSpec model.Renum
  model.RenumSpec proofs.Program_proofs.
Import ListNotations.
Open Scope Z_scope.

(* ------------------------------------------------------------------ monad plumbing *)
Lemma bind_eta {A B} (r : res (A * B)) : bind r (fun t => Ok (fst t, snd t)) = r.
Proof. destruct r as [[a b]| | |]; reflexivity. Qed.
Lemma bind_assoc {A B C} (r : res A) (f : A -> res B) (g : B -> res C) :
  bind (bind r f) g = bind r (fun a => bind (f a) g).
Proof. destruct r; reflexivity. Qed.
Lemma bind_ext {A B} (r : res A) (f g : A -> res B) : (forall a, f a = g a) -> bind r f = bind r g.
Proof. intros H. destruct r; cbn; [apply H | reflexivity | reflexivity | reflexivity]. Qed.

Definition o2n_ok (o2n : list (Z * Z)) : Prop := forall k n, lookup k o2n = Some n -> 0 <= n <= 65535.

Lemma unpack_range lo hi : byte_ok lo -> byte_ok hi -> 0 <= unpack_H lo hi <= 65535.
Proof. unfold byte_ok, unpack_H. lia. Qed.

Lemma new_jump_range o2n bef j : o2n_ok o2n -> 0 <= j <= 65535 -> 0 <= new_jump o2n bef j <= 65535.
Proof.
  intros Ho Hj. unfold new_jump. destruct (exempt bef j); [exact Hj|].
  destruct (lookup j o2n) as [n|] eqn:E; [exact (Ho j n E) | exact Hj].
Qed.

(* ------------------------------------------------------------------ the scan over one line body *)
Lemma rscan_zero_state d o2n R bef pos lit rem skip : skip <= 0 ->
  rscan d o2n (0 :: R) bef pos lit rem skip = rscan d o2n (0 :: R) bef pos false false 0.
Proof.
  intros H. cbn [rscan]. destruct (0 <? skip) eqn:E; [lia|].
  change (0 <? 0) with false. cbv iota.
  change (0 =? 34) with false. change (0 =? tk_REM) with false. change (0 =? 0) with true. cbv iota.
  cbn [andb negb orb]. reflexivity.
Qed.

Lemma zlen_rw_body_n d o2n n : forall b, (length b <= n)%nat -> forall bef pos lit rem skip,
  body_ok b lit rem skip = true -> zlen (fst (rw_body d o2n b bef pos lit rem skip)) = zlen b.
Proof.
  induction n as [|n IH]; intros b Hn bef pos lit rem skip H.
  - destruct b; [reflexivity | cbn in Hn; lia].
  - destruct b as [|c r]; [reflexivity|]. cbn [length] in Hn.
    cbn [body_ok] in H. cbn [rw_body]. destruct (0 <? skip) eqn:E.
    + cbn [fst]. rewrite !zlen_cons, (IH r) by (try lia; exact H). reflexivity.
    + destruct (c =? 0) eqn:E0; [discriminate|].
      destruct ((if c =? 34 then negb lit else lit) || (if c =? 34 then rem else if (c =? tk_REM) && negb lit then true else rem)) eqn:Es.
      * cbn [fst]. rewrite !zlen_cons, (IH r) by (try lia; exact H). reflexivity.
      * destruct (c =? tk_T_UINT) eqn:Eu.
        -- apply Z.eqb_eq in Eu. subst c. change (tk_plus_bytes tk_T_UINT) with 2 in H.
           destruct r as [|lo [|hi r']]; cbn [body_ok] in H; try discriminate.
           change (0 <? 2) with true in H. cbv iota in H. change (2 - 1) with 1 in H.
           change (0 <? 1) with true in H. cbv iota in H. change (1 - 1) with 0 in H.
           assert (Hl : (if tk_T_UINT =? 34 then negb lit else lit) = false /\
                        (if tk_T_UINT =? 34 then rem else if (tk_T_UINT =? tk_REM) && negb lit then true else rem) = false)
             by (apply orb_false_iff; exact Es).
           destruct Hl as [Hl1 Hl2]. rewrite Hl1, Hl2 in H. cbn [length] in Hn.
           cbv iota beta zeta. cbn [fst]. rewrite !zlen_cons, zlen_app, zlen_le2.
           rewrite (IH r') by (try lia; exact H). lia.
        -- cbn [fst]. rewrite !zlen_cons, (IH r) by (try lia; exact H). reflexivity.
Qed.
Lemma zlen_rw_body d o2n b bef pos lit rem skip :
  body_ok b lit rem skip = true -> zlen (fst (rw_body d o2n b bef pos lit rem skip)) = zlen b.
Proof. apply (zlen_rw_body_n d o2n (length b) b (le_n _)). Qed.

Lemma shape_step {A} (X0 : res (list Z * list A)) (c : Z) X (E : list A) :
  bind (bind X0 (fun t => Ok (X ++ fst t, E ++ snd t))) (fun t => Ok (c :: fst t, snd t))
  = bind X0 (fun t => Ok ((c :: X) ++ fst t, E ++ snd t)).
Proof. destruct X0 as [[a b]| | |]; reflexivity. Qed.

Lemma rev_cons_app (c : Z) X bef : rev (c :: X) ++ bef = rev X ++ c :: bef.
Proof. cbn [rev]. rewrite <- app_assoc. reflexivity. Qed.

Lemma rscan_body_n d o2n n : o2n_ok o2n -> forall b, (length b <= n)%nat -> forall R bef pos lit rem skip,
  body_ok b lit rem skip = true -> bytes_ok b ->
  rscan d o2n (b ++ 0 :: R) bef pos lit rem skip =
  bind (rscan d o2n (0 :: R) (rev (fst (rw_body d o2n b bef pos lit rem skip)) ++ bef) (pos + zlen b) false false 0)
       (fun t => Ok (fst (rw_body d o2n b bef pos lit rem skip) ++ fst t,
                     snd (rw_body d o2n b bef pos lit rem skip) ++ snd t)).
Proof.
  intros Ho. induction n as [|n IH]; intros b Hn R bef pos lit rem skip H Hb.
  - destruct b; [|cbn in Hn; lia]. cbn [body_ok] in H. cbn [app rw_body fst snd rev]. change (zlen (@nil Z)) with 0.
    replace (pos + 0) with pos by lia. rewrite rscan_zero_state by lia. symmetry. apply bind_eta.
  - destruct b as [|c r].
    { cbn [body_ok] in H. cbn [app rw_body fst snd rev]. change (zlen (@nil Z)) with 0.
      replace (pos + 0) with pos by lia. rewrite rscan_zero_state by lia. symmetry. apply bind_eta. }
    cbn [length] in Hn. inversion Hb as [|? ? Hc Hr]; subst.
    cbn [body_ok] in H. cbn [app rscan rw_body]. rewrite zlen_cons.
    replace (pos + (1 + zlen r)) with (pos + 1 + zlen r) by lia.
    destruct (0 <? skip) eqn:E.
    + cbn [fst snd]. rewrite (IH r) by (try lia; assumption). rewrite shape_step. rewrite rev_cons_app. reflexivity.
    + destruct (c =? 0) eqn:E0; [discriminate|].
      destruct (c =? 34) eqn:E34.
      * destruct (negb lit || rem) eqn:Es.
        -- cbn [fst snd]. rewrite (IH r) by (try lia; assumption). rewrite shape_step. rewrite rev_cons_app. reflexivity.
        -- apply Z.eqb_eq in E34. subst c. change (34 =? tk_T_UINT) with false. cbv iota.
           cbn [fst snd]. rewrite (IH r) by (try lia; assumption). rewrite shape_step. rewrite rev_cons_app. reflexivity.
      * destruct ((c =? tk_REM) && negb lit) eqn:Er.
        -- destruct (lit || true) eqn:Es; [|destruct lit; discriminate].
           cbn [fst snd]. rewrite (IH r) by (try lia; assumption). rewrite shape_step. rewrite rev_cons_app. reflexivity.
        -- destruct (lit || rem) eqn:Es.
           ++ cbn [fst snd]. rewrite (IH r) by (try lia; assumption). rewrite shape_step. rewrite rev_cons_app. reflexivity.
           ++ destruct (c =? tk_T_UINT) eqn:Eu.
              ** apply Z.eqb_eq in Eu. subst c. change (tk_plus_bytes tk_T_UINT) with 2 in H.
                 apply orb_false_iff in Es as [-> ->].
                 destruct r as [|lo [|hi r']]; cbn [body_ok] in H; try discriminate.
                 change (0 <? 2) with true in H. cbv iota in H. change (2 - 1) with 1 in H.
                 change (0 <? 1) with true in H. cbv iota in H. change (1 - 1) with 0 in H.
                 cbn [length] in Hn. inversion Hr as [|? ? Hlo Hr2]; subst. inversion Hr2 as [|? ? Hhi Hr3]; subst.
                 cbn [app]. cbv iota beta zeta.
                 rewrite pack_H_ok by (apply new_jump_range; [exact Ho | apply unpack_range; assumption]).
                 cbn [bind fst snd].
                 rewrite (IH r') by (try lia; assumption).
                 rewrite bind_assoc. cbn [bind fst snd].
                 rewrite !zlen_cons.
                 replace (pos + 1 + (1 + (1 + zlen r'))) with (pos + 3 + zlen r') by lia.
                 set (w := le2 (new_jump o2n bef (unpack_H lo hi))).
                 set (rb := rw_body d o2n r' (rev w ++ tk_T_UINT :: bef) (pos + 3) false false 0).
                 replace (rev (tk_T_UINT :: w ++ fst rb) ++ bef) with (rev (fst rb) ++ rev w ++ tk_T_UINT :: bef).
                 2:{ cbn [rev]. rewrite rev_app_distr, <- !app_assoc. reflexivity. }
                 apply bind_ext. intros t. cbn [app]. rewrite <- app_assoc. reflexivity.
              ** cbn [fst snd]. rewrite (IH r) by (try lia; assumption). rewrite shape_step. rewrite rev_cons_app. reflexivity.
Qed.

Lemma rscan_body d o2n b R bef pos : o2n_ok o2n -> wf_body b = true ->
  rscan d o2n (b ++ 0 :: R) bef pos false false 0 =
  bind (rscan d o2n (0 :: R) (rev (fst (rw_body d o2n b bef pos false false 0)) ++ bef) (pos + zlen b) false false 0)
       (fun t => Ok (fst (rw_body d o2n b bef pos false false 0) ++ fst t,
                     snd (rw_body d o2n b bef pos false false 0) ++ snd t)).
Proof.
  intros Ho Hw. unfold wf_body in Hw. apply andb_true_iff in Hw as [Hb Hk].
  apply (rscan_body_n d o2n (length b) Ho b (le_n _)); [exact Hk | apply bytesb_ok; exact Hb].
Qed.

(* ------------------------------------------------------------------ the scan over the whole image *)
Definition tail_ok (tail : list Z) : Prop :=
  match tail with x :: _ => (x =? tk_T_UINT) = false | [] => True end.

Lemma size_rw_prog d o2n c0 ls : forall p bef pos,
  Forall (fun l : line => wf_body (snd l) = true) ls ->
  size (fst (rw_prog d o2n c0 p ls bef pos)) = size ls.
Proof.
  induction ls as [|l r IH]; intros p bef pos Hb; [reflexivity|].
  pose proof (Forall_inv Hb) as Hb1. pose proof (Forall_inv_tail Hb) as Hb2. cbn beta in Hb1.
  cbn [rw_prog fst size snd]. rewrite IH by exact Hb2.
  unfold wf_body in Hb1. apply andb_true_iff in Hb1 as [_ Hk]. rewrite zlen_rw_body by exact Hk. reflexivity.
Qed.

Lemma rscan_prog d o2n c0 tail ls : o2n_ok o2n -> tail_ok tail -> forall p bef pos,
  0 <= c0 -> 0 <= p -> Forall (fun l : line => wf_body (snd l) = true) ls ->
  rscan d o2n (lay c0 p ls ++ 0 :: 0 :: 0 :: tail) bef pos false false 0
  = Ok (lay c0 p (fst (rw_prog d o2n c0 p ls bef pos)) ++ 0 :: 0 :: 0 :: tail, snd (rw_prog d o2n c0 p ls bef pos)).
Proof.
  intros Ho Ht. induction ls as [|l r IH]; intros p bef pos Hc Hp Hb.
  - cbn [lay app rw_prog fst snd rscan]. change (0 <? 0) with false. cbv iota.
    change (0 =? 34) with false. change (0 =? tk_REM) with false. change (0 =? 0) with true.
    change (0 =? tk_T_UINT) with false. cbn [andb negb orb]. cbv iota.
    destruct tail as [|x r'']; [reflexivity|]. cbn in Ht. rewrite Ht. reflexivity.
  - pose proof (Forall_inv Hb) as Hb1. pose proof (Forall_inv_tail Hb) as Hb2. cbn beta in Hb1.
    pose proof (zlen_nonneg (snd l)) as Hl.
    assert (Hk : body_ok (snd l) false false 0 = true).
    { unfold wf_body in Hb1. apply andb_true_iff in Hb1 as [_ Hk]. exact Hk. }
    cbn [lay rw_prog fst snd]. rewrite <- !app_assoc. cbn [app le2].
    rewrite (img_cons c0 (p + 5 + zlen (snd l)) r tail).
    (* the 00 of the line start and the link *)
    cbn [rscan]. change (0 <? 0) with false. cbv iota.
    change (0 =? 34) with false. change (0 =? tk_REM) with false. change (0 =? 0) with true.
    change (0 =? tk_T_UINT) with false. cbn [andb negb orb]. cbv iota.
    rewrite le2_nonzero by lia.
    (* the two bytes of the line number *)
    change (0 <? 2) with true. cbv iota. change (2 - 1) with 1. change (0 <? 1) with true. cbv iota.
    change (1 - 1) with 0.
    replace (pos + 3 + 1 + 1) with (pos + 5) by lia.
    rewrite (rscan_body d o2n (snd l) _ _ _ Ho Hb1).
    rewrite <- (img_cons c0 (p + 5 + zlen (snd l)) r tail).
    set (hdr_rev := fst l / 256 :: fst l mod 256 :: (c0 + 1 + p + 5 + zlen (snd l)) / 256
                    :: (c0 + 1 + p + 5 + zlen (snd l)) mod 256 :: 0 :: bef).
    set (rb := rw_body d o2n (snd l) hdr_rev (pos + 5) false false 0).
    rewrite (IH (p + 5 + zlen (snd l)) (rev (fst rb) ++ hdr_rev) (pos + 5 + zlen (snd l))) by (try lia; assumption).
    cbn [bind fst snd].
    change (rev (0 :: (c0 + 1 + p + 5 + zlen (snd l)) mod 256 :: (c0 + 1 + p + 5 + zlen (snd l)) / 256
                   :: le2 (fst l)) ++ bef) with hdr_rev. fold rb.
    assert (Hz : zlen (fst rb) = zlen (snd l)) by (apply zlen_rw_body; exact Hk).
    rewrite Hz. reflexivity.
Qed.

(* ------------------------------------------------------------------ pass 1: the numbering *)
Lemma lmax_spec l m : lmax l = Some m -> In m l /\ Forall (fun x => x <= m) l.
Proof.
  revert m; induction l as [|x r IH]; intros m H; cbn [lmax] in H; [discriminate|].
  destruct (lmax r) as [m'|] eqn:E.
  - inversion H; subst. destruct (IH m' eq_refl) as [Hin Hall]. split.
    + destruct (Z.max_spec x m') as [[_ Hm]|[_ Hm]]; rewrite Hm; [right; exact Hin | left; reflexivity].
    + constructor; [lia|]. eapply Forall_impl; [|exact Hall]. cbn. intros; lia.
  - inversion H; subst. destruct r; [|cbn [lmax] in E; destruct (lmax r); discriminate].
    split; [left; reflexivity | constructor; [lia | constructor]].
Qed.
Lemma lmax_none l : lmax l = None -> l = [].
Proof. destruct l as [|x r]; [reflexivity|]. cbn [lmax]. destruct (lmax r); discriminate. Qed.

Definition fitsb (n : nat) (new step : Z) : bool :=
  (Nat.eqb n 0) || (new + (Z.of_nat n - 1) * step <=? 65529).

Lemma assign_loop_spec step rn : 1 <= step -> Forall (fun l : line => fst l < 65535) rn -> forall new,
  assign_loop (nums rn ++ [65536]) new step =
  if fitsb (length rn) new step then Ok (combine (nums rn) (seqz new step (length rn))) else Err err_IFC.
Proof.
  intros Hs. induction rn as [|l r IH]; intros Hn new.
  - reflexivity.
  - pose proof (Forall_inv Hn) as H1. pose proof (Forall_inv_tail Hn) as H2. cbn beta in H1.
    cbn [nums map app assign_loop length seqz combine]. fold (nums r).
    destruct (fst l <? 65535) eqn:E1; [|lia]. cbn [andb].
    unfold fitsb. cbn [Nat.eqb orb].
    destruct (new >? 65529) eqn:E2; rewrite Z.gtb_ltb in E2.
    + destruct (new + (Z.of_nat (S (length r)) - 1) * step <=? 65529) eqn:E3; [|reflexivity]. exfalso.
      assert (HX : 0 <= (Z.of_nat (S (length r)) - 1) * step) by (apply Z.mul_nonneg_nonneg; [clear; lia | clear - Hs; lia]).
      apply Z.leb_le in E3. apply Z.ltb_lt in E2. clear - HX E2 E3.
      remember ((Z.of_nat (S (length r)) - 1) * step) as X. lia.
    + destruct (fst l =? 65536) eqn:E4; [lia|]. rewrite (IH H2). unfold fitsb.
      destruct r as [|l2 r2].
      * cbn [length Nat.eqb orb bind seqz combine nums map].
        change (Z.of_nat 1 - 1) with 0. destruct (new + 0 * step <=? 65529) eqn:E3; [reflexivity | clear - E2 E3; lia].
      * cbn [Nat.eqb orb]. replace (new + step + (Z.of_nat (length (l2 :: r2)) - 1) * step)
          with (new + (Z.of_nat (S (length (l2 :: r2))) - 1) * step) by (clear; rewrite Nat2Z.inj_succ; ring).
        destruct (new + (Z.of_nat (S (length (l2 :: r2))) - 1) * step <=? 65529); reflexivity.
Qed.

Lemma keys_abs c s ls tail k : abs_ok c s ls tail -> (In k (keys (lines s)) <-> In k (nums ls) \/ k = 65536).
Proof.
  intros Habs. split.
  - intros H. apply In_keys in H as [v Hv]. apply (a_lines _ _ _ _ Habs) in Hv. unfold index in Hv.
    apply in_app_iff in Hv as [Hv|[Hv|[]]]; [left; eapply In_idx_num; exact Hv | inversion Hv; right; reflexivity].
  - intros [H| ->].
    + unfold nums in H. apply in_map_iff in H as [l [E Hl]]. subst k. destruct (num_in_d l ls 0 Hl) as [v Hv].
      eapply keys_In. apply (a_lines _ _ _ _ Habs). unfold index. apply in_app_iff. left. exact Hv.
    + eapply keys_In. apply (a_lines _ _ _ _ Habs). unfold index. apply in_app_iff. right. left. reflexivity.
Qed.

Lemma nums_filter P ls : nums (filter (fun l : line => P (fst l)) ls) = filter P (nums ls).
Proof. induction ls as [|l r IH]; cbn [filter nums map]; [reflexivity|]. fold (nums r). destruct (P (fst l)); cbn [nums map]; fold (nums (filter (fun l : line => P (fst l)) r)); rewrite IH; reflexivity. Qed.

Lemma sorted_keys_ge c s ls tail start : abs_ok c s ls tail -> start <= 65536 ->
  sort_Z (filter (fun k => start <=? k) (keys (lines s))) = nums (rn_part start ls) ++ [65536].
Proof.
  intros Habs Hst. pose proof Habs as [Hs Hn Hb Hcode Hnd Hlines Hfit].
  assert (Hrn : StronglySorted Z.lt (nums (rn_part start ls))) by (apply sorted_filter; exact Hs).
  assert (Hle : forall k, In k (nums (rn_part start ls)) -> start <= k <= 65535 /\ In k (nums ls)).
  { intros k Hk. unfold rn_part in Hk. rewrite (nums_filter (fun k => start <=? k)) in Hk.
    apply filter_In in Hk as [Hk1 Hk2]. split; [|exact Hk1]. unfold nums in Hk1. apply in_map_iff in Hk1 as [l [E Hl]].
    rewrite Forall_forall in Hn. specialize (Hn l Hl). lia. }
  apply sort_of_perm.
  - apply NoDup_Permutation.
    + apply NoDup_filter. exact Hnd.
    + apply NoDup_snoc; [apply sorted_NoDup; exact Hrn|]. intros Hin. apply Hle in Hin. lia.
    + intros k. rewrite filter_In, (keys_abs c s ls tail k Habs), in_app_iff. cbn [In]. split.
      * intros [[H| ->] Hk]; [|right; left; reflexivity]. left. unfold rn_part.
        rewrite (nums_filter (fun k => start <=? k)). apply filter_In. split; assumption.
      * intros [H|[<-|[]]]; [|split; [right; reflexivity | lia]]. destruct (Hle k H) as [H1 H2].
        split; [left; exact H2 | lia].
  - assert (Hlt : forall k, In k (nums (rn_part start ls)) -> k < 65536) by (intros k Hk; apply Hle in Hk; lia).
    clear Hle. induction (nums (rn_part start ls)) as [|x r IH]; cbn [app]; [repeat constructor|].
    inversion Hrn as [|? ? Hr Hall]; subst. constructor.
    + apply IH; [exact Hr|]. intros k Hk. apply Hlt. right. exact Hk.
    + apply Forall_app. split; [exact Hall|]. constructor; [|constructor]. apply Hlt. left. reflexivity.
Qed.
