(* C14: RENUM - numbering, the reference scan, WF preservation, traps *)
From Coq Require Import ZArith List Bool Lia Sorting.Sorted Sorting.Permutation.
From PCB Require Import lib.Result lib.PyInt gen.Gen_program model.Program model.ProgramSpec model.Renum
  model.RenumSpec proofs.Program_proofs.
Import ListNotations.
Open Scope Z_scope.

(* ------------------------------------------------------------------ monad plumbing *)
Lemma bind_eta {A B} (r : res (A * B)) : bind r (fun t => Ok (fst t, snd t)) = r.
Proof. destruct r as [[a b]| | |]; reflexivity. Qed.
Lemma bind_assoc {A B C} (r : res A) (f : A -> res B) (g : B -> res C) :
  bind (bind r f) g = bind r (fun a => bind (f a) g).
Proof. destruct r; reflexivity. Qed.
Lemma bind_ext {A B} (r : res A) (f g : A -> res B) : (forall a, f a = g a) -> bind r f = bind r g.
Proof. intros H. destruct r; cbn; [apply H | reflexivity | reflexivity | reflexivity]. Qed.

Definition o2n_ok (o2n : list (Z * Z)) : Prop := forall k n, lookup k o2n = Some n -> 0 <= n <= 65535.

Lemma unpack_range lo hi : byte_ok lo -> byte_ok hi -> 0 <= unpack_H lo hi <= 65535.
Proof. unfold byte_ok, unpack_H. lia. Qed.

Lemma new_jump_range o2n bef j : o2n_ok o2n -> 0 <= j <= 65535 -> 0 <= new_jump o2n bef j <= 65535.
Proof.
  intros Ho Hj. unfold new_jump. destruct (exempt bef j); [exact Hj|].
  destruct (lookup j o2n) as [n|] eqn:E; [exact (Ho j n E) | exact Hj].
Qed.

(* ------------------------------------------------------------------ the scan over one line body *)
Lemma rscan_zero_state d o2n R bef pos lit rem skip : skip <= 0 ->
  rscan d o2n (0 :: R) bef pos lit rem skip = rscan d o2n (0 :: R) bef pos false false 0.
Proof.
  intros H. cbn [rscan]. destruct (0 <? skip) eqn:E; [lia|].
  change (0 <? 0) with false. cbv iota.
  change (0 =? 34) with false. change (0 =? tk_REM) with false. change (0 =? 0) with true. cbv iota.
  cbn [andb negb orb]. reflexivity.
Qed.

Lemma zlen_rw_body_n d o2n n : forall b, (length b <= n)%nat -> forall bef pos lit rem skip,
  body_ok b lit rem skip = true -> zlen (fst (rw_body d o2n b bef pos lit rem skip)) = zlen b.
Proof.
  induction n as [|n IH]; intros b Hn bef pos lit rem skip H.
  - destruct b; [reflexivity | cbn in Hn; lia].
  - destruct b as [|c r]; [reflexivity|]. cbn [length] in Hn.
    cbn [body_ok] in H. cbn [rw_body]. destruct (0 <? skip) eqn:E.
    + cbn [fst]. rewrite !zlen_cons, (IH r) by (try lia; exact H). reflexivity.
    + destruct (c =? 0) eqn:E0; [discriminate|].
      destruct ((if c =? 34 then negb lit else lit) || (if c =? 34 then rem else if (c =? tk_REM) && negb lit then true else rem)) eqn:Es.
      * cbn [fst]. rewrite !zlen_cons, (IH r) by (try lia; exact H). reflexivity.
      * destruct (c =? tk_T_UINT) eqn:Eu.
        -- apply Z.eqb_eq in Eu. subst c. change (tk_plus_bytes tk_T_UINT) with 2 in H.
           destruct r as [|lo [|hi r']]; cbn [body_ok] in H; try discriminate.
           change (0 <? 2) with true in H. cbv iota in H. change (2 - 1) with 1 in H.
           change (0 <? 1) with true in H. cbv iota in H. change (1 - 1) with 0 in H.
           assert (Hl : (if tk_T_UINT =? 34 then negb lit else lit) = false /\
                        (if tk_T_UINT =? 34 then rem else if (tk_T_UINT =? tk_REM) && negb lit then true else rem) = false)
             by (apply orb_false_iff; exact Es).
           destruct Hl as [Hl1 Hl2]. rewrite Hl1, Hl2 in H. cbn [length] in Hn.
           cbv iota beta zeta. cbn [fst]. rewrite !zlen_cons, zlen_app, zlen_le2.
           rewrite (IH r') by (try lia; exact H). lia.
        -- cbn [fst]. rewrite !zlen_cons, (IH r) by (try lia; exact H). reflexivity.
Qed.
Lemma zlen_rw_body d o2n b bef pos lit rem skip :
  body_ok b lit rem skip = true -> zlen (fst (rw_body d o2n b bef pos lit rem skip)) = zlen b.
Proof. apply (zlen_rw_body_n d o2n (length b) b (le_n _)). Qed.

Lemma shape_step {A} (X0 : res (list Z * list A)) (c : Z) X (E : list A) :
  bind (bind X0 (fun t => Ok (X ++ fst t, E ++ snd t))) (fun t => Ok (c :: fst t, snd t))
  = bind X0 (fun t => Ok ((c :: X) ++ fst t, E ++ snd t)).
Proof. destruct X0 as [[a b]| | |]; reflexivity. Qed.

Lemma rev_cons_app (c : Z) X bef : rev (c :: X) ++ bef = rev X ++ c :: bef.
Proof. cbn [rev]. rewrite <- app_assoc. reflexivity. Qed.

Lemma rscan_body_n d o2n n : o2n_ok o2n -> forall b, (length b <= n)%nat -> forall R bef pos lit rem skip,
  body_ok b lit rem skip = true -> bytes_ok b ->
  rscan d o2n (b ++ 0 :: R) bef pos lit rem skip =
  bind (rscan d o2n (0 :: R) (rev (fst (rw_body d o2n b bef pos lit rem skip)) ++ bef) (pos + zlen b) false false 0)
       (fun t => Ok (fst (rw_body d o2n b bef pos lit rem skip) ++ fst t,
                     snd (rw_body d o2n b bef pos lit rem skip) ++ snd t)).
Proof.
  intros Ho. induction n as [|n IH]; intros b Hn R bef pos lit rem skip H Hb.
  - destruct b; [|cbn in Hn; lia]. cbn [body_ok] in H. cbn [app rw_body fst snd rev]. change (zlen (@nil Z)) with 0.
    replace (pos + 0) with pos by lia. rewrite rscan_zero_state by lia. symmetry. apply bind_eta.
  - destruct b as [|c r].
    { cbn [body_ok] in H. cbn [app rw_body fst snd rev]. change (zlen (@nil Z)) with 0.
      replace (pos + 0) with pos by lia. rewrite rscan_zero_state by lia. symmetry. apply bind_eta. }
    cbn [length] in Hn. inversion Hb as [|? ? Hc Hr]; subst.
    cbn [body_ok] in H. cbn [app rscan rw_body]. rewrite zlen_cons.
    replace (pos + (1 + zlen r)) with (pos + 1 + zlen r) by lia.
    destruct (0 <? skip) eqn:E.
    + cbn [fst snd]. rewrite (IH r) by (try lia; assumption). rewrite shape_step. rewrite rev_cons_app. reflexivity.
    + destruct (c =? 0) eqn:E0; [discriminate|].
      destruct (c =? 34) eqn:E34.
      * destruct (negb lit || rem) eqn:Es.
        -- cbn [fst snd]. rewrite (IH r) by (try lia; assumption). rewrite shape_step. rewrite rev_cons_app. reflexivity.
        -- apply Z.eqb_eq in E34. subst c. change (34 =? tk_T_UINT) with false. cbv iota.
           cbn [fst snd]. rewrite (IH r) by (try lia; assumption). rewrite shape_step. rewrite rev_cons_app. reflexivity.
      * destruct ((c =? tk_REM) && negb lit) eqn:Er.
        -- destruct (lit || true) eqn:Es; [|destruct lit; discriminate].
           cbn [fst snd]. rewrite (IH r) by (try lia; assumption). rewrite shape_step. rewrite rev_cons_app. reflexivity.
        -- destruct (lit || rem) eqn:Es.
           ++ cbn [fst snd]. rewrite (IH r) by (try lia; assumption). rewrite shape_step. rewrite rev_cons_app. reflexivity.
           ++ destruct (c =? tk_T_UINT) eqn:Eu.
              ** apply Z.eqb_eq in Eu. subst c. change (tk_plus_bytes tk_T_UINT) with 2 in H.
                 apply orb_false_iff in Es as [-> ->].
                 destruct r as [|lo [|hi r']]; cbn [body_ok] in H; try discriminate.
                 change (0 <? 2) with true in H. cbv iota in H. change (2 - 1) with 1 in H.
                 change (0 <? 1) with true in H. cbv iota in H. change (1 - 1) with 0 in H.
                 cbn [length] in Hn. inversion Hr as [|? ? Hlo Hr2]; subst. inversion Hr2 as [|? ? Hhi Hr3]; subst.
                 cbn [app]. cbv iota beta zeta.
                 rewrite pack_H_ok by (apply new_jump_range; [exact Ho | apply unpack_range; assumption]).
                 cbn [bind fst snd].
                 rewrite (IH r') by (try lia; assumption).
                 rewrite bind_assoc. cbn [bind fst snd].
                 rewrite !zlen_cons.
                 replace (pos + 1 + (1 + (1 + zlen r'))) with (pos + 3 + zlen r') by lia.
                 set (w := le2 (new_jump o2n bef (unpack_H lo hi))).
                 set (rb := rw_body d o2n r' (rev w ++ tk_T_UINT :: bef) (pos + 3) false false 0).
                 replace (rev (tk_T_UINT :: w ++ fst rb) ++ bef) with (rev (fst rb) ++ rev w ++ tk_T_UINT :: bef).
                 2:{ cbn [rev]. rewrite rev_app_distr, <- !app_assoc. reflexivity. }
                 apply bind_ext. intros t. cbn [app]. rewrite <- app_assoc. reflexivity.
              ** cbn [fst snd]. rewrite (IH r) by (try lia; assumption). rewrite shape_step. rewrite rev_cons_app. reflexivity.
Qed.
