(* C14: RENUM - numbering, the reference scan, WF preservation, traps *)
From Coq Require Import ZArith List Bool Lia Sorting.Sorted Sorting.Permutation.
From PCB Require Import lib.Result lib.PyInt gen.Gen_program model.Program model.ProgramSpec model.Renum
  model.RenumSpec proofs.Program_proofs.
Import ListNotations.
Open Scope Z_scope.

(* ------------------------------------------------------------------ monad plumbing *)
Lemma bind_eta {A B} (r : res (A * B)) : bind r (fun t => Ok (fst t, snd t)) = r.
Proof. destruct r as [[a b]| | |]; reflexivity. Qed.
Lemma bind_assoc {A B C} (r : res A) (f : A -> res B) (g : B -> res C) :
  bind (bind r f) g = bind r (fun a => bind (f a) g).
Proof. destruct r; reflexivity. Qed.
Lemma bind_ext {A B} (r : res A) (f g : A -> res B) : (forall a, f a = g a) -> bind r f = bind r g.
Proof. intros H. destruct r; cbn; [apply H | reflexivity | reflexivity | reflexivity]. Qed.

Definition o2n_ok (o2n : list (Z * Z)) : Prop := forall k n, lookup k o2n = Some n -> 0 <= n <= 65535.

Lemma unpack_range lo hi : byte_ok lo -> byte_ok hi -> 0 <= unpack_H lo hi <= 65535.
Proof. unfold byte_ok, unpack_H. lia. Qed.

Lemma new_jump_range o2n bef j : o2n_ok o2n -> 0 <= j <= 65535 -> 0 <= new_jump o2n bef j <= 65535.
Proof.
  intros Ho Hj. unfold new_jump. destruct (exempt bef j); [exact Hj|].
  destruct (lookup j o2n) as [n|] eqn:E; [exact (Ho j n E) | exact Hj].
Qed.

(* ------------------------------------------------------------------ the scan over one line body *)
Lemma rscan_zero_state d o2n R bef pos lit rem skip : skip <= 0 ->
  rscan d o2n (0 :: R) bef pos lit rem skip = rscan d o2n (0 :: R) bef pos false false 0.
Proof.
  intros H. cbn [rscan]. destruct (0 <? skip) eqn:E; [lia|].
  change (0 <? 0) with false. cbv iota.
  change (0 =? 34) with false. change (0 =? tk_REM) with false. change (0 =? 0) with true. cbv iota.
  cbn [andb negb orb]. reflexivity.
Qed.

Lemma zlen_rw_body_n d o2n n : forall b, (length b <= n)%nat -> forall bef pos lit rem skip,
  body_ok b lit rem skip = true -> zlen (fst (rw_body d o2n b bef pos lit rem skip)) = zlen b.
Proof.
  induction n as [|n IH]; intros b Hn bef pos lit rem skip H.
  - destruct b; [reflexivity | cbn in Hn; lia].
  - destruct b as [|c r]; [reflexivity|]. cbn [length] in Hn.
    cbn [body_ok] in H. cbn [rw_body]. destruct (0 <? skip) eqn:E.
    + cbn [fst]. rewrite !zlen_cons, (IH r) by (try lia; exact H). reflexivity.
    + destruct (c =? 0) eqn:E0; [discriminate|].
      destruct ((if c =? 34 then negb lit else lit) || (if c =? 34 then rem else if (c =? tk_REM) && negb lit then true else rem)) eqn:Es.
      * cbn [fst]. rewrite !zlen_cons, (IH r) by (try lia; exact H). reflexivity.
      * destruct (c =? tk_T_UINT) eqn:Eu.
        -- apply Z.eqb_eq in Eu. subst c. change (tk_plus_bytes tk_T_UINT) with 2 in H.
           destruct r as [|lo [|hi r']]; cbn [body_ok] in H; try discriminate.
           change (0 <? 2) with true in H. cbv iota in H. change (2 - 1) with 1 in H.
           change (0 <? 1) with true in H. cbv iota in H. change (1 - 1) with 0 in H.
           assert (Hl : (if tk_T_UINT =? 34 then negb lit else lit) = false /\
                        (if tk_T_UINT =? 34 then rem else if (tk_T_UINT =? tk_REM) && negb lit then true else rem) = false)
             by (apply orb_false_iff; exact Es).
           destruct Hl as [Hl1 Hl2]. rewrite Hl1, Hl2 in H. cbn [length] in Hn.
           cbv iota beta zeta. cbn [fst]. rewrite !zlen_cons, zlen_app, zlen_le2.
           rewrite (IH r') by (try lia; exact H). lia.
        -- cbn [fst]. rewrite !zlen_cons, (IH r) by (try lia; exact H). reflexivity.
Qed.
Lemma zlen_rw_body d o2n b bef pos lit rem skip :
  body_ok b lit rem skip = true -> zlen (fst (rw_body d o2n b bef pos lit rem skip)) = zlen b.
Proof. apply (zlen_rw_body_n d o2n (length b) b (le_n _)). Qed.

Lemma shape_step {A} (X0 : res (list Z * list A)) (c : Z) X (E : list A) :
  bind (bind X0 (fun t => Ok (X ++ fst t, E ++ snd t))) (fun t => Ok (c :: fst t, snd t))
  = bind X0 (fun t => Ok ((c :: X) ++ fst t, E ++ snd t)).
Proof. destruct X0 as [[a b]| | |]; reflexivity. Qed.

Lemma rev_cons_app (c : Z) X bef : rev (c :: X) ++ bef = rev X ++ c :: bef.
Proof. cbn [rev]. rewrite <- app_assoc. reflexivity. Qed.

Lemma rscan_body_n d o2n n : o2n_ok o2n -> forall b, (length b <= n)%nat -> forall R bef pos lit rem skip,
  body_ok b lit rem skip = true -> bytes_ok b ->
  rscan d o2n (b ++ 0 :: R) bef pos lit rem skip =
  bind (rscan d o2n (0 :: R) (rev (fst (rw_body d o2n b bef pos lit rem skip)) ++ bef) (pos + zlen b) false false 0)
       (fun t => Ok (fst (rw_body d o2n b bef pos lit rem skip) ++ fst t,
                     snd (rw_body d o2n b bef pos lit rem skip) ++ snd t)).
Proof.
  intros Ho. induction n as [|n IH]; intros b Hn R bef pos lit rem skip H Hb.
  - destruct b; [|cbn in Hn; lia]. cbn [body_ok] in H. cbn [app rw_body fst snd rev]. change (zlen (@nil Z)) with 0.
    replace (pos + 0) with pos by lia. rewrite rscan_zero_state by lia. symmetry. apply bind_eta.
  - destruct b as [|c r].
    { cbn [body_ok] in H. cbn [app rw_body fst snd rev]. change (zlen (@nil Z)) with 0.
      replace (pos + 0) with pos by lia. rewrite rscan_zero_state by lia. symmetry. apply bind_eta. }
    cbn [length] in Hn. inversion Hb as [|? ? Hc Hr]; subst.
    cbn [body_ok] in H. cbn [app rscan rw_body]. rewrite zlen_cons.
    replace (pos + (1 + zlen r)) with (pos + 1 + zlen r) by lia.
    destruct (0 <? skip) eqn:E.
    + cbn [fst snd]. rewrite (IH r) by (try lia; assumption). rewrite shape_step. rewrite rev_cons_app. reflexivity.
    + destruct (c =? 0) eqn:E0; [discriminate|].
      destruct (c =? 34) eqn:E34.
      * destruct (negb lit || rem) eqn:Es.
        -- cbn [fst snd]. rewrite (IH r) by (try lia; assumption). rewrite shape_step. rewrite rev_cons_app. reflexivity.
        -- apply Z.eqb_eq in E34. subst c. change (34 =? tk_T_UINT) with false. cbv iota.
           cbn [fst snd]. rewrite (IH r) by (try lia; assumption). rewrite shape_step. rewrite rev_cons_app. reflexivity.
      * destruct ((c =? tk_REM) && negb lit) eqn:Er.
        -- destruct (lit || true) eqn:Es; [|destruct lit; discriminate].
           cbn [fst snd]. rewrite (IH r) by (try lia; assumption). rewrite shape_step. rewrite rev_cons_app. reflexivity.
        -- destruct (lit || rem) eqn:Es.
           ++ cbn [fst snd]. rewrite (IH r) by (try lia; assumption). rewrite shape_step. rewrite rev_cons_app. reflexivity.
           ++ destruct (c =? tk_T_UINT) eqn:Eu.
              ** apply Z.eqb_eq in Eu. subst c. change (tk_plus_bytes tk_T_UINT) with 2 in H.
                 apply orb_false_iff in Es as [-> ->].
                 destruct r as [|lo [|hi r']]; cbn [body_ok] in H; try discriminate.
                 change (0 <? 2) with true in H. cbv iota in H. change (2 - 1) with 1 in H.
                 change (0 <? 1) with true in H. cbv iota in H. change (1 - 1) with 0 in H.
                 cbn [length] in Hn. inversion Hr as [|? ? Hlo Hr2]; subst. inversion Hr2 as [|? ? Hhi Hr3]; subst.
                 cbn [app]. cbv iota beta zeta.
                 rewrite pack_H_ok by (apply new_jump_range; [exact Ho | apply unpack_range; assumption]).
                 cbn [bind fst snd].
                 rewrite (IH r') by (try lia; assumption).
                 rewrite bind_assoc. cbn [bind fst snd].
                 rewrite !zlen_cons.
                 replace (pos + 1 + (1 + (1 + zlen r'))) with (pos + 3 + zlen r') by lia.
                 set (w := le2 (new_jump o2n bef (unpack_H lo hi))).
                 set (rb := rw_body d o2n r' (rev w ++ tk_T_UINT :: bef) (pos + 3) false false 0).
                 replace (rev (tk_T_UINT :: w ++ fst rb) ++ bef) with (rev (fst rb) ++ rev w ++ tk_T_UINT :: bef).
                 2:{ cbn [rev]. rewrite rev_app_distr, <- !app_assoc. reflexivity. }
                 apply bind_ext. intros t. cbn [app]. rewrite <- app_assoc. reflexivity.
              ** cbn [fst snd]. rewrite (IH r) by (try lia; assumption). rewrite shape_step. rewrite rev_cons_app. reflexivity.
Qed.

Lemma rscan_body d o2n b R bef pos : o2n_ok o2n -> wf_body b = true ->
  rscan d o2n (b ++ 0 :: R) bef pos false false 0 =
  bind (rscan d o2n (0 :: R) (rev (fst (rw_body d o2n b bef pos false false 0)) ++ bef) (pos + zlen b) false false 0)
       (fun t => Ok (fst (rw_body d o2n b bef pos false false 0) ++ fst t,
                     snd (rw_body d o2n b bef pos false false 0) ++ snd t)).
Proof.
  intros Ho Hw. unfold wf_body in Hw. apply andb_true_iff in Hw as [Hb Hk].
  apply (rscan_body_n d o2n (length b) Ho b (le_n _)); [exact Hk | apply bytesb_ok; exact Hb].
Qed.

(* ------------------------------------------------------------------ the scan over the whole image *)
Definition tail_ok (tail : list Z) : Prop :=
  match tail with x :: _ => (x =? tk_T_UINT) = false | [] => True end.

Lemma size_rw_prog d o2n c0 ls : forall p bef pos,
  Forall (fun l : line => wf_body (snd l) = true) ls ->
  size (fst (rw_prog d o2n c0 p ls bef pos)) = size ls.
Proof.
  induction ls as [|l r IH]; intros p bef pos Hb; [reflexivity|].
  pose proof (Forall_inv Hb) as Hb1. pose proof (Forall_inv_tail Hb) as Hb2. cbn beta in Hb1.
  cbn [rw_prog fst size snd]. rewrite IH by exact Hb2.
  unfold wf_body in Hb1. apply andb_true_iff in Hb1 as [_ Hk]. rewrite zlen_rw_body by exact Hk. reflexivity.
Qed.

Lemma rscan_prog d o2n c0 tail ls : o2n_ok o2n -> tail_ok tail -> forall p bef pos,
  0 <= c0 -> 0 <= p -> Forall (fun l : line => wf_body (snd l) = true) ls ->
  rscan d o2n (lay c0 p ls ++ 0 :: 0 :: 0 :: tail) bef pos false false 0
  = Ok (lay c0 p (fst (rw_prog d o2n c0 p ls bef pos)) ++ 0 :: 0 :: 0 :: tail, snd (rw_prog d o2n c0 p ls bef pos)).
Proof.
  intros Ho Ht. induction ls as [|l r IH]; intros p bef pos Hc Hp Hb.
  - cbn [lay app rw_prog fst snd rscan]. change (0 <? 0) with false. cbv iota.
    change (0 =? 34) with false. change (0 =? tk_REM) with false. change (0 =? 0) with true.
    change (0 =? tk_T_UINT) with false. cbn [andb negb orb]. cbv iota.
    destruct tail as [|x r'']; [reflexivity|]. cbn in Ht. rewrite Ht. reflexivity.
  - pose proof (Forall_inv Hb) as Hb1. pose proof (Forall_inv_tail Hb) as Hb2. cbn beta in Hb1.
    pose proof (zlen_nonneg (snd l)) as Hl.
    assert (Hk : body_ok (snd l) false false 0 = true).
    { unfold wf_body in Hb1. apply andb_true_iff in Hb1 as [_ Hk]. exact Hk. }
    cbn [lay rw_prog fst snd]. rewrite <- !app_assoc. cbn [app le2].
    rewrite (img_cons c0 (p + 5 + zlen (snd l)) r tail).
    (* the 00 of the line start and the link *)
    cbn [rscan]. change (0 <? 0) with false. cbv iota.
    change (0 =? 34) with false. change (0 =? tk_REM) with false. change (0 =? 0) with true.
    change (0 =? tk_T_UINT) with false. cbn [andb negb orb]. cbv iota.
    rewrite le2_nonzero by lia.
    (* the two bytes of the line number *)
    change (0 <? 2) with true. cbv iota. change (2 - 1) with 1. change (0 <? 1) with true. cbv iota.
    change (1 - 1) with 0.
    replace (pos + 3 + 1 + 1) with (pos + 5) by lia.
    rewrite (rscan_body d o2n (snd l) _ _ _ Ho Hb1).
    rewrite <- (img_cons c0 (p + 5 + zlen (snd l)) r tail).
    set (hdr_rev := fst l / 256 :: fst l mod 256 :: (c0 + 1 + p + 5 + zlen (snd l)) / 256
                    :: (c0 + 1 + p + 5 + zlen (snd l)) mod 256 :: 0 :: bef).
    set (rb := rw_body d o2n (snd l) hdr_rev (pos + 5) false false 0).
    rewrite (IH (p + 5 + zlen (snd l)) (rev (fst rb) ++ hdr_rev) (pos + 5 + zlen (snd l))) by (try lia; assumption).
    cbn [bind fst snd].
    change (rev (0 :: (c0 + 1 + p + 5 + zlen (snd l)) mod 256 :: (c0 + 1 + p + 5 + zlen (snd l)) / 256
                   :: le2 (fst l)) ++ bef) with hdr_rev. fold rb.
    assert (Hz : zlen (fst rb) = zlen (snd l)) by (apply zlen_rw_body; exact Hk).
    rewrite Hz. reflexivity.
Qed.

(* ------------------------------------------------------------------ pass 1: the numbering *)
Lemma lmax_spec l m : lmax l = Some m -> In m l /\ Forall (fun x => x <= m) l.
Proof.
  revert m; induction l as [|x r IH]; intros m H; cbn [lmax] in H; [discriminate|].
  destruct (lmax r) as [m'|] eqn:E.
  - inversion H; subst. destruct (IH m' eq_refl) as [Hin Hall]. split.
    + destruct (Z.max_spec x m') as [[_ Hm]|[_ Hm]]; rewrite Hm; [right; exact Hin | left; reflexivity].
    + constructor; [lia|]. eapply Forall_impl; [|exact Hall]. cbn. intros; lia.
  - inversion H; subst. destruct r; [|cbn [lmax] in E; destruct (lmax r); discriminate].
    split; [left; reflexivity | constructor; [lia | constructor]].
Qed.
Lemma lmax_none l : lmax l = None -> l = [].
Proof. destruct l as [|x r]; [reflexivity|]. cbn [lmax]. destruct (lmax r); discriminate. Qed.

Definition fitsb (n : nat) (new step : Z) : bool :=
  (Nat.eqb n 0) || (new + (Z.of_nat n - 1) * step <=? 65529).

Lemma assign_loop_spec step rn : 1 <= step -> Forall (fun l : line => fst l < 65535) rn -> forall new,
  assign_loop (nums rn ++ [65536]) new step =
  if fitsb (length rn) new step then Ok (combine (nums rn) (seqz new step (length rn))) else Err err_IFC.
Proof.
  intros Hs. induction rn as [|l r IH]; intros Hn new.
  - reflexivity.
  - pose proof (Forall_inv Hn) as H1. pose proof (Forall_inv_tail Hn) as H2. cbn beta in H1.
    cbn [nums map app assign_loop length seqz combine]. fold (nums r).
    destruct (fst l <? 65536) eqn:E1; [|lia]. cbn [andb].
    unfold fitsb. cbn [Nat.eqb orb].
    destruct (new >? 65529) eqn:E2; rewrite Z.gtb_ltb in E2.
    + destruct (new + (Z.of_nat (S (length r)) - 1) * step <=? 65529) eqn:E3; [|reflexivity]. exfalso.
      assert (HX : 0 <= (Z.of_nat (S (length r)) - 1) * step) by (apply Z.mul_nonneg_nonneg; [clear; lia | clear - Hs; lia]).
      apply Z.leb_le in E3. apply Z.ltb_lt in E2. clear - HX E2 E3.
      remember ((Z.of_nat (S (length r)) - 1) * step) as X. lia.
    + destruct (fst l =? 65536) eqn:E4; [lia|]. rewrite (IH H2). unfold fitsb.
      destruct r as [|l2 r2].
      * cbn [length Nat.eqb orb bind seqz combine nums map].
        change (Z.of_nat 1 - 1) with 0. destruct (new + 0 * step <=? 65529) eqn:E3; [reflexivity | clear - E2 E3; lia].
      * cbn [Nat.eqb orb]. replace (new + step + (Z.of_nat (length (l2 :: r2)) - 1) * step)
          with (new + (Z.of_nat (S (length (l2 :: r2))) - 1) * step) by (clear; rewrite Nat2Z.inj_succ; ring).
        destruct (new + (Z.of_nat (S (length (l2 :: r2))) - 1) * step <=? 65529); reflexivity.
Qed.

Lemma keys_abs c s ls tail k : abs_ok c s ls tail -> (In k (keys (lines s)) <-> In k (nums ls) \/ k = 65536).
Proof.
  intros Habs. split.
  - intros H. apply In_keys in H as [v Hv]. apply (a_lines _ _ _ _ Habs) in Hv. unfold index in Hv.
    apply in_app_iff in Hv as [Hv|[Hv|[]]]; [left; eapply In_idx_num; exact Hv | inversion Hv; right; reflexivity].
  - intros [H| ->].
    + unfold nums in H. apply in_map_iff in H as [l [E Hl]]. subst k. destruct (num_in_d l ls 0 Hl) as [v Hv].
      eapply keys_In. apply (a_lines _ _ _ _ Habs). unfold index. apply in_app_iff. left. exact Hv.
    + eapply keys_In. apply (a_lines _ _ _ _ Habs). unfold index. apply in_app_iff. right. left. reflexivity.
Qed.

Lemma nums_filter P ls : nums (filter (fun l : line => P (fst l)) ls) = filter P (nums ls).
Proof. induction ls as [|l r IH]; cbn [filter nums map]; [reflexivity|]. fold (nums r). destruct (P (fst l)); cbn [nums map]; fold (nums (filter (fun l : line => P (fst l)) r)); rewrite IH; reflexivity. Qed.

Lemma sorted_keys_ge c s ls tail start : abs_ok c s ls tail -> start <= 65536 ->
  sort_Z (filter (fun k => start <=? k) (keys (lines s))) = nums (rn_part start ls) ++ [65536].
Proof.
  intros Habs Hst. pose proof Habs as [Hs Hn Hb Hcode Hnd Hlines Hfit].
  assert (Hrn : StronglySorted Z.lt (nums (rn_part start ls))) by (apply sorted_filter; exact Hs).
  assert (Hle : forall k, In k (nums (rn_part start ls)) -> start <= k <= 65535 /\ In k (nums ls)).
  { intros k Hk. unfold rn_part in Hk. rewrite (nums_filter (fun k => start <=? k)) in Hk.
    apply filter_In in Hk as [Hk1 Hk2]. split; [|exact Hk1]. unfold nums in Hk1. apply in_map_iff in Hk1 as [l [E Hl]].
    rewrite Forall_forall in Hn. specialize (Hn l Hl). lia. }
  apply sort_of_perm.
  - apply NoDup_Permutation.
    + apply NoDup_filter. exact Hnd.
    + apply NoDup_snoc; [apply sorted_NoDup; exact Hrn|]. intros Hin. apply Hle in Hin. lia.
    + intros k. rewrite filter_In, (keys_abs c s ls tail k Habs), in_app_iff. cbn [In]. split.
      * intros [[H| ->] Hk]; [|right; left; reflexivity]. left. unfold rn_part.
        rewrite (nums_filter (fun k => start <=? k)). apply filter_In. split; assumption.
      * intros [H|[<-|[]]]; [|split; [right; reflexivity | lia]]. destruct (Hle k H) as [H1 H2].
        split; [left; exact H2 | lia].
  - assert (Hlt : forall k, In k (nums (rn_part start ls)) -> k < 65536) by (intros k Hk; apply Hle in Hk; lia).
    clear Hle. induction (nums (rn_part start ls)) as [|x r IH]; cbn [app]; [repeat constructor|].
    inversion Hrn as [|? ? Hr Hall]; subst. constructor.
    + apply IH; [exact Hr|]. intros k Hk. apply Hlt. right. exact Hk.
    + apply Forall_app. split; [exact Hall|]. constructor; [|constructor]. apply Hlt. left. reflexivity.
Qed.

Lemma fitsb_spec n new step :
  fitsb n new step = true <-> (n = 0%nat \/ new + (Z.of_nat n - 1) * step <= 65529).
Proof.
  unfold fitsb. rewrite orb_true_iff, Nat.eqb_eq, Z.leb_le. reflexivity.
Qed.

Lemma in_keep start (ls : list line) l : In l (keep_part start ls) <-> In l ls /\ fst l < start.
Proof. unfold keep_part. rewrite filter_In, Z.ltb_lt. reflexivity. Qed.

Lemma renum_assign_spec c s ls tail new start step :
  abs_ok c s ls tail -> Forall (fun l : line => fst l < 65535) ls -> 1 <= step -> start <= 65536 ->
  (accepted ls new start step -> renum_assign (lines s) new start step = Ok (o2n_of (rn_part start ls) new step))
  /\ (forall o, renum_assign (lines s) new start step = Ok o -> accepted ls new start step)
  /\ (forall e, renum_assign (lines s) new start step = Err e -> e = err_IFC).
Proof.
  intros Habs Hlt Hstep Hst. pose proof Habs as [Hs Hn Hb Hcode Hnd Hlines Hfit].
  unfold renum_assign. rewrite (sorted_keys_ge c s ls tail start Habs Hst).
  rewrite (assign_loop_spec step (rn_part start ls) Hstep) by (apply Forall_filter; exact Hlt).
  set (remaining := filter (fun k => k <? start) (keys (lines s))).
  assert (Hrem : forall k, In k remaining <-> exists l, In l (keep_part start ls) /\ fst l = k).
  { intros k. unfold remaining. rewrite filter_In, (keys_abs c s ls tail k Habs), Z.ltb_lt. split.
    - intros [[H|H] Hk]; [|lia]. unfold nums in H. apply in_map_iff in H as [l [E Hl]]. exists l.
      split; [apply in_keep; split; [exact Hl | lia] | exact E].
    - intros [l [Hl E]]. apply in_keep in Hl as [Hl1 Hl2]. subst k. split; [|exact Hl2]. left. unfold nums. apply in_map. exact Hl1. }
  destruct (lmax remaining) as [m|] eqn:Em.
  - destruct (lmax_spec _ _ Em) as [Hin Hall]. rewrite Forall_forall in Hall.
    destruct (new <=? m) eqn:Eg.
    + split; [|split; [discriminate | intros e H; inversion H; reflexivity]].
      intros [_ [Hg _]]. apply Hrem in Hin as [l [Hl E]]. specialize (Hg l Hl). lia.
    + assert (Hg : forall l, In l (keep_part start ls) -> fst l < new).
      { intros l Hl. assert (In (fst l) remaining) by (apply Hrem; eauto). specialize (Hall _ H). lia. }
      destruct (fitsb (length (rn_part start ls)) new step) eqn:Ef.
      * split; [intros _; reflexivity|]. split; [|discriminate]. intros o _. apply fitsb_spec in Ef.
        split; [exact Hstep|]. split; [exact Hg|]. destruct Ef as [Ef|Ef]; [left; destruct (rn_part start ls); [reflexivity | discriminate] | right; exact Ef].
      * split; [|split; [discriminate | intros e H; inversion H; reflexivity]].
        intros [_ [_ Hf]]. assert (fitsb (length (rn_part start ls)) new step = true); [|congruence].
        apply fitsb_spec. destruct Hf as [Hf|Hf]; [left; rewrite Hf; reflexivity | right; exact Hf].
  - apply lmax_none in Em.
    assert (Hg : forall l, In l (keep_part start ls) -> fst l < new).
    { intros l Hl. assert (H : In (fst l) remaining) by (apply Hrem; eauto). rewrite Em in H. contradiction. }
    destruct (fitsb (length (rn_part start ls)) new step) eqn:Ef.
    + split; [intros _; reflexivity|]. split; [|discriminate]. intros o _. apply fitsb_spec in Ef.
      split; [exact Hstep|]. split; [exact Hg|]. destruct Ef as [Ef|Ef]; [left; destruct (rn_part start ls); [reflexivity | discriminate] | right; exact Ef].
    + split; [|split; [discriminate | intros e H; inversion H; reflexivity]].
      intros [_ [_ Hf]]. assert (fitsb (length (rn_part start ls)) new step = true); [|congruence].
      apply fitsb_spec. destruct Hf as [Hf|Hf]; [left; rewrite Hf; reflexivity | right; exact Hf].
Qed.

(* ------------------------------------------------------------------ pass 2: the line-number fields *)
Definition renumber (rn : list line) (news : list Z) : list line :=
  map (fun p : line * Z => (snd p, snd (fst p))) (combine rn news).

Lemma write_at_mid pre old w post q : zlen pre = q -> zlen old = zlen w ->
  write_at q w (pre ++ old ++ post) = pre ++ w ++ post.
Proof.
  intros H1 H2. unfold write_at. rewrite ztake_app_exact by exact H1.
  rewrite (app_assoc pre old post). rewrite zdrop_app_exact by (rewrite zlen_app; lia). reflexivity.
Qed.

Lemma write_numbers_lay c0 d rn : forall news A p X,
  zlen A = p -> length news = length rn -> Forall (fun n => 0 <= n <= 65535) news ->
  (forall k q, In (k, q) (idx p rn) -> lookup k d = Some q) ->
  write_numbers (A ++ lay c0 p rn ++ X) d (combine (nums rn) news) = Ok (A ++ lay c0 p (renumber rn news) ++ X).
Proof.
  induction rn as [|l r IH]; intros news A p X HA Hlen Hr Hd.
  - reflexivity.
  - destruct news as [|n ns]; [discriminate|]. cbn [length] in Hlen.
    pose proof (Forall_inv Hr) as Hn. pose proof (Forall_inv_tail Hr) as Hns. cbn beta in Hn.
    cbn [nums map combine write_numbers]. fold (nums r).
    rewrite (Hd (fst l) p) by (left; reflexivity). rewrite pack_H_ok by exact Hn. cbn [bind].
    cbn [lay]. unfold renumber. cbn [combine map fst snd lay]. fold (renumber r ns).
    set (L := le2 (c0 + 1 + p + 5 + zlen (snd l))).
    replace (A ++ ((0 :: L ++ le2 (fst l) ++ snd l) ++ lay c0 (p + 5 + zlen (snd l)) r) ++ X)
      with ((A ++ 0 :: L) ++ le2 (fst l) ++ (snd l ++ lay c0 (p + 5 + zlen (snd l)) r ++ X))
      by (rewrite <- !app_assoc; cbn [app]; rewrite <- !app_assoc; reflexivity).
    rewrite write_at_mid by (try reflexivity; rewrite zlen_app, zlen_cons; unfold L; rewrite zlen_le2; lia).
    replace ((A ++ 0 :: L) ++ le2 n ++ snd l ++ lay c0 (p + 5 + zlen (snd l)) r ++ X)
      with ((A ++ 0 :: L ++ le2 n ++ snd l) ++ lay c0 (p + 5 + zlen (snd l)) r ++ X)
      by (rewrite <- !app_assoc; cbn [app]; rewrite <- !app_assoc; reflexivity).
    rewrite (IH ns (A ++ 0 :: L ++ le2 n ++ snd l) (p + 5 + zlen (snd l)) X).
    + rewrite <- !app_assoc. cbn [app]. rewrite <- !app_assoc. reflexivity.
    + rewrite zlen_app, zlen_cons, !zlen_app. unfold L. rewrite !zlen_le2. lia.
    + lia.
    + exact Hns.
    + intros k q Hin. apply Hd. right. exact Hin.
Qed.

Lemma nums_renumber rn news : length news = length rn -> nums (renumber rn news) = news.
Proof.
  revert news; induction rn as [|l r IH]; intros [|n ns] H; try discriminate; [reflexivity|].
  unfold renumber. cbn [combine map nums fst snd]. f_equal. apply IH. cbn in H. lia.
Qed.
Lemma size_renumber rn news : length news = length rn -> size (renumber rn news) = size rn.
Proof.
  revert news; induction rn as [|l r IH]; intros [|n ns] H; try discriminate; [reflexivity|].
  unfold renumber. cbn [combine map size fst snd]. fold (renumber r ns). rewrite IH by (cbn in H; lia). reflexivity.
Qed.
Lemma idx_renumber rn : forall news p, length news = length rn ->
  idx p (renumber rn news) = combine news (map snd (idx p rn)).
Proof.
  induction rn as [|l r IH]; intros [|n ns] p H; try discriminate; [reflexivity|].
  unfold renumber. cbn [combine map idx fst snd]. fold (renumber r ns). rewrite IH by (cbn in H; lia). reflexivity.
Qed.
Lemma bodies_renumber (P : list Z -> Prop) rn : forall news, length news = length rn ->
  Forall (fun l : line => P (snd l)) rn -> Forall (fun l : line => P (snd l)) (renumber rn news).
Proof.
  induction rn as [|l r IH]; intros [|n ns] H Hf; try discriminate; [constructor|].
  unfold renumber. cbn [combine map]. fold (renumber r ns). constructor; [exact (Forall_inv Hf)|].
  apply IH; [cbn in H; lia | exact (Forall_inv_tail Hf)].
Qed.
Lemma length_seqz a st n : length (seqz a st n) = n.
Proof. revert a; induction n as [|n IH]; intros a; cbn [seqz length]; [reflexivity|]. rewrite IH. reflexivity. Qed.

(* ------------------------------------------------------------------ rewritten bodies are still tokeniser-shaped *)
Lemma le2_bytes x : 0 <= x <= 65535 -> bytes_ok (le2 x).
Proof.
  intros H. unfold le2, bytes_ok, byte_ok. constructor; [apply Z.mod_pos_bound; lia|]. constructor; [|constructor].
  split; [apply Z.div_pos; lia | apply Z.div_lt_upper_bound; lia].
Qed.

Lemma body_ok_rw_n d o2n n : o2n_ok o2n -> forall b, (length b <= n)%nat -> forall bef pos lit rem skip,
  body_ok b lit rem skip = true -> bytes_ok b ->
  body_ok (fst (rw_body d o2n b bef pos lit rem skip)) lit rem skip = true
  /\ bytes_ok (fst (rw_body d o2n b bef pos lit rem skip)).
Proof.
  intros Ho. induction n as [|n IH]; intros b Hn bef pos lit rem skip H Hb.
  - destruct b; [|cbn in Hn; lia]. cbn [rw_body fst]. split; [exact H | constructor].
  - destruct b as [|c r]; [cbn [rw_body fst]; split; [exact H | constructor]|].
    cbn [length] in Hn. inversion Hb as [|? ? Hc Hr]; subst.
    cbn [body_ok] in H. cbn [rw_body]. destruct (0 <? skip) eqn:E.
    + cbn [fst body_ok]. rewrite E. destruct (IH r ltac:(lia) (c :: bef) (pos + 1) lit rem (skip - 1) H Hr) as [H1 H2].
      split; [exact H1 | constructor; assumption].
    + destruct (c =? 0) eqn:E0; [discriminate|].
      destruct ((if c =? 34 then negb lit else lit) || (if c =? 34 then rem else if (c =? tk_REM) && negb lit then true else rem)) eqn:Es.
      * cbn [fst body_ok]. rewrite E, E0, Es.
        destruct (IH r ltac:(lia) (c :: bef) (pos + 1) _ _ 0 H Hr) as [H1 H2].
        split; [exact H1 | constructor; assumption].
      * destruct (c =? tk_T_UINT) eqn:Eu.
        -- apply Z.eqb_eq in Eu. subst c. change (tk_plus_bytes tk_T_UINT) with 2 in H.
           apply orb_false_iff in Es as [Hl1 Hl2]. rewrite Hl1, Hl2 in H.
           destruct r as [|lo [|hi r']]; cbn [body_ok] in H; try discriminate.
           change (0 <? 2) with true in H. cbv iota in H. change (2 - 1) with 1 in H.
           change (0 <? 1) with true in H. cbv iota in H. change (1 - 1) with 0 in H.
           cbn [length] in Hn. inversion Hr as [|? ? Hlo Hr2]; subst. inversion Hr2 as [|? ? Hhi Hr3]; subst.
           cbv iota beta zeta. cbn [fst].
           destruct (IH r' ltac:(lia) (rev (le2 (new_jump o2n bef (unpack_H lo hi))) ++ tk_T_UINT :: bef) (pos + 3) false false 0 H Hr3) as [H1 H2].
           split.
           ++ cbn [body_ok]. rewrite E, E0, Hl1, Hl2. cbn [orb]. change (tk_plus_bytes tk_T_UINT) with 2.
              cbn [le2 app body_ok]. change (0 <? 2) with true. cbv iota. change (2 - 1) with 1.
              change (0 <? 1) with true. cbv iota. change (1 - 1) with 0. exact H1.
           ++ constructor; [exact Hc|]. apply Forall_app. split; [|exact H2].
              apply le2_bytes. apply new_jump_range; [exact Ho | apply unpack_range; assumption].
        -- cbn [fst body_ok]. rewrite E, E0, Es.
           destruct (IH r ltac:(lia) (c :: bef) (pos + 1) _ _ (tk_plus_bytes c) H Hr) as [H1 H2].
           split; [exact H1 | constructor; assumption].
Qed.

Lemma wf_body_rw d o2n b bef pos : o2n_ok o2n -> wf_body b = true ->
  wf_body (fst (rw_body d o2n b bef pos false false 0)) = true.
Proof.
  intros Ho Hw. unfold wf_body in *. apply andb_true_iff in Hw as [Hb Hk]. apply bytesb_ok in Hb.
  destruct (body_ok_rw_n d o2n (length b) Ho b (le_n _) bef pos false false 0 Hk Hb) as [H1 H2].
  apply andb_true_iff. split; [apply bytesb_ok; exact H2 | exact H1].
Qed.

Lemma rw_prog_nums d o2n c0 ls : forall p bef pos, nums (fst (rw_prog d o2n c0 p ls bef pos)) = nums ls.
Proof. induction ls as [|l r IH]; intros p bef pos; [reflexivity|]. cbn [rw_prog fst nums map]. f_equal. apply IH. Qed.
Lemma rw_prog_bodies d o2n c0 ls : o2n_ok o2n -> forall p bef pos,
  Forall (fun l : line => wf_body (snd l) = true) ls ->
  Forall (fun l : line => wf_body (snd l) = true) (fst (rw_prog d o2n c0 p ls bef pos)).
Proof.
  intros Ho. induction ls as [|l r IH]; intros p bef pos Hb; [constructor|].
  cbn [rw_prog fst]. constructor; [cbn [snd]; apply wf_body_rw; [exact Ho | exact (Forall_inv Hb)]|].
  apply IH. exact (Forall_inv_tail Hb).
Qed.
Lemma rw_prog_idx d o2n c0 ls : forall p bef pos q, Forall (fun l : line => wf_body (snd l) = true) ls ->
  idx q (fst (rw_prog d o2n c0 p ls bef pos)) = idx q ls.
Proof.
  induction ls as [|l r IH]; intros p bef pos q Hb; [reflexivity|].
  pose proof (Forall_inv Hb) as Hb1. cbn beta in Hb1. unfold wf_body in Hb1. apply andb_true_iff in Hb1 as [_ Hk].
  cbn [rw_prog fst idx snd]. rewrite zlen_rw_body by exact Hk. f_equal. apply IH. exact (Forall_inv_tail Hb).
Qed.

(* ------------------------------------------------------------------ the new numbers *)
Lemma seqz_bounds st : 0 <= st -> forall n a x, In x (seqz a st n) -> a <= x <= a + (Z.of_nat n - 1) * st.
Proof.
  intros Hst. induction n as [|n IH]; intros a x H; [contradiction|]. cbn [seqz In] in H.
  assert (0 <= Z.of_nat n * st) by (apply Z.mul_nonneg_nonneg; lia).
  replace ((Z.of_nat (S n) - 1) * st) with (Z.of_nat n * st) by (rewrite Nat2Z.inj_succ; ring).
  destruct H as [<-|H]; [lia|]. apply IH in H.
  replace ((Z.of_nat n - 1) * st) with (Z.of_nat n * st - st) in H by ring. lia.
Qed.
Lemma seqz_sorted st : 1 <= st -> forall n a, StronglySorted Z.lt (seqz a st n).
Proof.
  intros Hst. induction n as [|n IH]; intros a; cbn [seqz]; constructor; [apply IH|].
  apply Forall_forall. intros x Hx. apply (seqz_bounds st ltac:(lia)) in Hx. lia.
Qed.

Lemma split2 ls start : StronglySorted Z.lt (nums ls) -> ls = keep_part start ls ++ rn_part start ls.
Proof.
  intros Hs. unfold keep_part, rn_part. induction ls as [|x r IH]; [reflexivity|].
  pose proof (sorted_tail_gt x r Hs) as Hgt.
  assert (Hs' : StronglySorted Z.lt (nums r)) by (cbn [nums map] in Hs; inversion Hs; assumption).
  specialize (IH Hs'). cbn [filter]. destruct (fst x <? start) eqn:E1.
  - destruct (start <=? fst x) eqn:E2; [lia|]. cbn [app]. f_equal. exact IH.
  - destruct (start <=? fst x) eqn:E2; [|lia].
    rewrite (filter_none (fun l : line => fst l <? start) r).
    + cbn [app]. f_equal. symmetry. apply filter_all. eapply Forall_impl; [|exact Hgt]. cbn. intros l Hl. lia.
    + eapply Forall_impl; [|exact Hgt]. cbn. intros l Hl. lia.
Qed.

Lemma lookup_combine_in k ks vs v : lookup k (combine ks vs) = Some v -> In v vs.
Proof.
  revert vs; induction ks as [|k0 r IH]; intros [|v0 vs] H; cbn [combine lookup] in H; try discriminate.
  destruct (k =? k0); [inversion H; left; reflexivity | right; apply IH; exact H].
Qed.
Lemma keys_combine (ks vs : list Z) : length vs = length ks -> keys (combine ks vs) = ks.
Proof.
  revert vs; induction ks as [|k r IH]; intros [|v vs] H; try discriminate; [reflexivity|].
  cbn [combine keys map fst]. f_equal. apply IH. cbn in H. lia.
Qed.

Lemma NoDup_app_intro {A} (a b : list A) : NoDup a -> NoDup b -> (forall x, In x a -> ~ In x b) -> NoDup (a ++ b).
Proof.
  induction a as [|x r IH]; intros Ha Hb Hd; cbn [app]; [exact Hb|].
  inversion Ha as [|? ? Hx Hr]; subst. constructor.
  - intros Hin. apply in_app_iff in Hin as [Hin|Hin]; [exact (Hx Hin) | exact (Hd x (or_introl eq_refl) Hin)].
  - apply IH; [exact Hr | exact Hb |]. intros y Hy. apply Hd. right. exact Hy.
Qed.

(* ------------------------------------------------------------------ pass 4: the dict *)
Lemma fold_rebuild d rn : forall news p acc,
  length news = length rn -> (forall k q, In (k, q) (idx p rn) -> lookup k d = Some q) ->
  (forall n, In n news -> ~ In n (keys acc)) -> NoDup news ->
  fold_left (fun acc on => match lookup (fst on) d with Some p => dict_set (snd on) p acc | None => acc end)
            (combine (nums rn) news) acc
  = acc ++ combine news (map snd (idx p rn)).
Proof.
  induction rn as [|l r IH]; intros [|n ns] p acc Hlen Hd Hfresh Hnd; try discriminate.
  - cbn. rewrite app_nil_r. reflexivity.
  - cbn [nums map combine fold_left idx fst snd]. fold (nums r).
    rewrite (Hd (fst l) p) by (left; reflexivity).
    rewrite dict_set_new by (apply Hfresh; left; reflexivity).
    inversion Hnd as [|? ? Hn Hnd']; subst.
    rewrite (IH ns (p + 5 + zlen (snd l)) (acc ++ [(n, p)])).
    + rewrite <- app_assoc. reflexivity.
    + cbn in Hlen. lia.
    + intros k q Hin. apply Hd. right. exact Hin.
    + intros n' Hn' Hin. unfold keys in Hin. rewrite map_app in Hin. apply in_app_iff in Hin as [Hin|[Hin|[]]].
      * exact (Hfresh n' (or_intror Hn') Hin).
      * cbn in Hin. subst n'. exact (Hn Hn').
    + exact Hnd'.
Qed.

Lemma length_idx p ls : length (idx p ls) = length ls.
Proof. revert p; induction ls as [|l r IH]; intros p; cbn [idx length]; [reflexivity|]. rewrite IH. reflexivity. Qed.

Lemma sorted_app_Z (a b : list Z) :
  StronglySorted Z.lt a -> StronglySorted Z.lt b -> (forall x y, In x a -> In y b -> x < y) ->
  StronglySorted Z.lt (a ++ b).
Proof.
  induction a as [|x r IH]; intros Ha Hb Hlt; cbn [app]; [exact Hb|].
  inversion Ha as [|? ? Ha' Hall]; subst. constructor.
  - apply IH; [exact Ha' | exact Hb |]. intros u v Hu Hv. apply Hlt; [right; exact Hu | exact Hv].
  - apply Forall_app. split; [exact Hall|]. apply Forall_forall. intros y Hy. apply Hlt; [left; reflexivity | exact Hy].
Qed.

(* ------------------------------------------------------------------ Program.renum on a WF state *)
Definition renum_lines (c : cfg) (s : prog) (ls : list line) (new start step : Z) : list line * list event :=
  let rn := rn_part start ls in
  let ls2 := keep_part start ls ++ renumber rn (seqz new step (length rn)) in
  rw_prog (lines s) (o2n_of rn new step) (cs c) 0 ls2 [] 0.

Theorem renum_ok c s ls tail new start step :
  cfg_ok c -> abs_ok c s ls tail -> tail_ok tail -> Forall (fun l : line => fst l < 65535) ls ->
  0 <= new -> 0 <= start <= 65535 -> accepted ls new start step ->
  exists r, renum s (Some new) (Some start) (Some step) = Ok r
    /\ r_o2n r = o2n_of (rn_part start ls) new step
    /\ abs_ok c (r_prog r) (fst (renum_lines c s ls new start step)) tail
    /\ r_reports r = reports_of (lines s) (snd (renum_lines c s ls new start step)).
Proof.
  intros [Hc0 [Hc1 Hc2]] Habs Htail Hlt Hnew Hstart Hacc.
  pose proof Habs as [Hs Hn Hb Hcode Hnd Hlines Hfit].
  pose proof Hacc as [Hstep [Hg1 Hg2]].
  set (keep := keep_part start ls). set (rn := rn_part start ls).
  set (news := seqz new step (length rn)). set (o2n := o2n_of rn new step).
  assert (Hsplit : ls = keep ++ rn) by (apply split2; exact Hs).
  assert (Hlen : length news = length rn) by apply length_seqz.
  assert (Hnews65529 : forall x, In x news -> new <= x <= 65529).
  { intros x Hx. destruct Hg2 as [Hg2|Hg2]; fold rn in Hg2.
    - unfold news in Hx. rewrite Hg2 in Hx. contradiction.
    - apply (seqz_bounds step ltac:(lia)) in Hx. lia. }
  assert (Hnews : Forall (fun n => 0 <= n <= 65535) news).
  { apply Forall_forall. intros x Hx. apply Hnews65529 in Hx. lia. }
  assert (Ho : o2n_ok o2n).
  { intros k n Hk. unfold o2n, o2n_of in Hk. apply lookup_combine_in in Hk. rewrite Forall_forall in Hnews. apply Hnews. exact Hk. }
  assert (Hidx : forall k q, In (k, q) (idx (size keep) rn) -> lookup k (lines s) = Some q).
  { intros k q Hin. apply (lookup_In _ _ _ Hnd). apply Hlines. rewrite Hsplit. unfold index.
    rewrite idx_app. rewrite !in_app_iff. left. right. replace (0 + size keep) with (size keep) by lia. exact Hin. }
  (* pass 1 *)
  destruct (renum_assign_spec c s ls tail new start step Habs Hlt Hstep ltac:(lia)) as [Hass _].
  unfold renum. rewrite (Hass Hacc). cbn [bind]. fold rn. fold o2n.
  (* pass 2 *)
  assert (Hcode2 : code s = lay (cs c) 0 keep ++ lay (cs c) (size keep) rn ++ 0 :: 0 :: 0 :: tail).
  { rewrite Hcode. unfold image. rewrite Hsplit at 1. rewrite lay_app, <- app_assoc.
    replace (0 + size keep) with (size keep) by lia. reflexivity. }
  rewrite Hcode2. unfold o2n, o2n_of. fold news.
  rewrite (write_numbers_lay (cs c) (lines s) rn news (lay (cs c) 0 keep) (size keep) (0 :: 0 :: 0 :: tail)
             (zlen_lay _ _ _) Hlen Hnews Hidx).
  cbn [bind].
  set (rn' := renumber rn news). set (ls2 := keep ++ rn').
  assert (Himg2 : lay (cs c) 0 keep ++ lay (cs c) (size keep) rn' ++ 0 :: 0 :: 0 :: tail
                  = lay (cs c) 0 ls2 ++ 0 :: 0 :: 0 :: tail).
  { unfold ls2. rewrite lay_app, <- app_assoc. replace (0 + size keep) with (size keep) by lia. reflexivity. }
  rewrite Himg2.
  (* pass 3 *)
  assert (Hb2 : Forall (fun l : line => wf_body (snd l) = true) ls2).
  { unfold ls2. apply Forall_app. split; [apply Forall_filter; exact Hb|].
    apply (bodies_renumber (fun b => wf_body b = true)); [exact Hlen | apply Forall_filter; exact Hb]. }
  fold (combine (nums rn) news). change (combine (nums rn) news) with o2n.
  rewrite (rscan_prog (lines s) o2n (cs c) tail ls2 Ho Htail 0 [] 0 Hc0 ltac:(lia) Hb2).
  cbn [bind fst snd].
  set (rp := rw_prog (lines s) o2n (cs c) 0 ls2 [] 0).
  assert (Hrl : renum_lines c s ls new start step = rp) by reflexivity.
  rewrite Hrl.
  eexists. split; [reflexivity|]. cbn [r_o2n r_prog r_reports].
  split; [reflexivity|]. split; [|reflexivity].
  (* the result is WF *)
  assert (Hnums3 : nums (fst rp) = nums keep ++ news).
  { unfold rp. rewrite rw_prog_nums. unfold ls2, nums. rewrite map_app. fold (nums keep). fold (nums rn').
    unfold rn'. rewrite nums_renumber by exact Hlen. reflexivity. }
  assert (Hkeep_lt : forall x, In x (nums keep) -> 0 <= x < new /\ x < start /\ x <= 65535).
  { intros x Hx. unfold nums in Hx. apply in_map_iff in Hx as [l [E Hl]]. subst x. pose proof (Hg1 l Hl).
    apply in_keep in Hl as [Hl1 Hl2]. rewrite Forall_forall in Hn. specialize (Hn l Hl1). lia. }
  assert (Hsize3 : size (fst rp) = size ls).
  { unfold rp. rewrite size_rw_prog by exact Hb2. unfold ls2. rewrite size_app. unfold rn'.
    rewrite size_renumber by exact Hlen. rewrite Hsplit, size_app. reflexivity. }
  assert (Hidx3 : idx 0 (fst rp) = idx 0 keep ++ combine news (map snd (idx (size keep) rn))).
  { unfold rp. rewrite rw_prog_idx by exact Hb2. unfold ls2. rewrite idx_app.
    replace (0 + size keep) with (size keep) by lia. unfold rn'. rewrite idx_renumber by exact Hlen. reflexivity. }
  (* the dict *)
  assert (Hkeys_o2n : keys o2n = nums rn) by (apply keys_combine; unfold nums; rewrite map_length; exact Hlen).
  assert (Hrn_range : forall k, In k (nums rn) -> start <= k <= 65535).
  { intros k Hk. unfold rn, rn_part in Hk. rewrite (nums_filter (fun k => start <=? k)) in Hk.
    apply filter_In in Hk as [Hk1 Hk2]. unfold nums in Hk1. apply in_map_iff in Hk1 as [l [E Hl]].
    rewrite Forall_forall in Hn. specialize (Hn l Hl). lia. }
  set (kept := filter (fun kv : Z * Z => negb (member (fst kv) (keys o2n))) (lines s)).
  assert (Hkept : forall k v, In (k, v) kept <-> In (k, v) (idx 0 keep) \/ (k, v) = (65536, size ls)).
  { intros k v. unfold kept. rewrite filter_In, Hlines, Hkeys_o2n. cbn [fst]. rewrite Hsplit at 1. unfold index.
    rewrite idx_app, !in_app_iff. replace (0 + size keep) with (size keep) by lia. cbn [In]. split.
    - intros [[[H|H]|[H|[]]] Hm].
      + left. exact H.
      + exfalso. apply negb_true_iff in Hm. assert (member k (nums rn) = true); [|congruence].
        apply member_In. eapply In_idx_num. exact H.
      + right. rewrite <- Hsplit in H. symmetry. exact H.
    - intros [H|H].
      + split; [left; left; exact H|]. apply negb_true_iff. destruct (member k (nums rn)) eqn:E; [|reflexivity].
        apply member_In in E. apply Hrn_range in E. apply In_idx_num in H. apply Hkeep_lt in H. lia.
      + inversion H; subst k v. split; [right; left; rewrite <- Hsplit; reflexivity|]. apply negb_true_iff.
        destruct (member 65536 (nums rn)) eqn:E; [|reflexivity]. apply member_In in E. apply Hrn_range in E. lia. }
  assert (Hkept_keys : forall k, In k (keys kept) -> In k (nums keep) \/ k = 65536).
  { intros k Hk. apply In_keys in Hk as [v Hv]. apply Hkept in Hv as [Hv|Hv]; [left; eapply In_idx_num; exact Hv | inversion Hv; right; reflexivity]. }
  assert (Hnd_news : NoDup news) by (apply sorted_NoDup, seqz_sorted; exact Hstep).
  assert (Hfresh : forall n, In n news -> ~ In n (keys kept)).
  { intros n Hn' Hin. apply Hnews65529 in Hn'. apply Hkept_keys in Hin as [Hin|Hin]; [apply Hkeep_lt in Hin; lia | lia]. }
  assert (Hdict : rebuild_dict (lines s) o2n = kept ++ combine news (map snd (idx (size keep) rn))).
  { unfold rebuild_dict. fold kept. unfold o2n, o2n_of. fold news.
    apply (fold_rebuild (lines s) rn news (size keep) kept Hlen Hidx Hfresh Hnd_news). }
  rewrite Hdict.
  constructor; cbn [code lines].
  - rewrite Hnums3. apply sorted_app_Z.
    + apply sorted_filter. exact Hs.
    + apply seqz_sorted. exact Hstep.
    + intros x y Hx Hy. apply Hkeep_lt in Hx. apply Hnews65529 in Hy. lia.
  - apply Forall_forall. intros l Hl. assert (Hin : In (fst l) (nums (fst rp))) by (unfold nums; apply in_map; exact Hl).
    rewrite Hnums3 in Hin. apply in_app_iff in Hin as [Hin|Hin]; [apply Hkeep_lt in Hin; lia | apply Hnews65529 in Hin; lia].
  - unfold rp. apply rw_prog_bodies; [exact Ho | exact Hb2].
  - reflexivity.
  - unfold keys. rewrite map_app. apply NoDup_app_intro.
    + apply NoDup_keys_filter. exact Hnd.
    + fold (keys (combine news (map snd (idx (size keep) rn)))). rewrite keys_combine; [exact Hnd_news|].
      rewrite map_length, length_idx. symmetry. exact Hlen.
    + intros x Hx Hy. fold (keys kept) in Hx. fold (keys (combine news (map snd (idx (size keep) rn)))) in Hy.
      rewrite keys_combine in Hy; [exact (Hfresh x Hy Hx)|].
      rewrite map_length, length_idx. symmetry. exact Hlen.
  - intros k v. unfold index. rewrite Hidx3, Hsize3. rewrite !in_app_iff. rewrite Hkept. cbn [In]. split.
    + intros [[H|H]|H]; [left; left; exact H | right; left; symmetry; exact H | left; right; exact H].
    + intros [[H|H]|[H|[]]]; [left; left; exact H | right; exact H | left; right; symmetry; exact H].
  - rewrite Hsize3. exact Hfit.
Qed.

(* ------------------------------------------------------------------ items: what the scan does to each kind *)
Fixpoint ev_items (d o2n : list (Z * Z)) (its : list item) (before : list Z) (pos : Z) : list event :=
  match its with
  | [] => []
  | it :: r =>
      let it' := match it with IRef j => IRef (new_jump o2n before j) | _ => it end in
      (match it with IRef j => [(pos + 3, j, reported d o2n before j)] | _ => [] end)
      ++ ev_items d o2n r (rev (render1 it') ++ before) (pos + zlen (render1 it))
  end.

Lemma rw_body_skip d o2n p : forall R bef pos lit rem,
  rw_body d o2n (p ++ R) bef pos lit rem (zlen p)
  = (p ++ fst (rw_body d o2n R (rev p ++ bef) (pos + zlen p) lit rem 0),
     snd (rw_body d o2n R (rev p ++ bef) (pos + zlen p) lit rem 0)).
Proof.
  induction p as [|x p IH]; intros R bef pos lit rem.
  - cbn [app rev]. change (zlen (@nil Z)) with 0. replace (pos + 0) with pos by lia.
    destruct (rw_body d o2n R bef pos lit rem 0); reflexivity.
  - cbn [app rw_body]. rewrite zlen_cons. pose proof (zlen_nonneg p).
    destruct (0 <? 1 + zlen p) eqn:E; [|lia]. replace (1 + zlen p - 1) with (zlen p) by lia.
    rewrite IH. cbn [fst snd rev]. rewrite <- app_assoc. cbn [app].
    replace (pos + 1 + zlen p) with (pos + (1 + zlen p)) by lia. reflexivity.
Qed.

Lemma rw_body_lit d o2n s : no_byte 34 s = true -> forall R bef pos,
  rw_body d o2n (s ++ R) bef pos true false 0
  = (s ++ fst (rw_body d o2n R (rev s ++ bef) (pos + zlen s) true false 0),
     snd (rw_body d o2n R (rev s ++ bef) (pos + zlen s) true false 0)).
Proof.
  induction s as [|x s IH]; intros H R bef pos.
  - cbn [app rev]. change (zlen (@nil Z)) with 0. replace (pos + 0) with pos by lia.
    destruct (rw_body d o2n R bef pos true false 0); reflexivity.
  - cbn [no_byte forallb] in H. apply andb_true_iff in H as [Hx Hs]. apply negb_true_iff in Hx.
    cbn [app rw_body]. change (0 <? 0) with false. cbv iota. rewrite Hx. cbn [negb andb orb].
    rewrite andb_false_r. cbn [orb]. rewrite (IH Hs). cbn [fst snd rev]. rewrite <- app_assoc. cbn [app].
    rewrite zlen_cons. replace (pos + 1 + zlen s) with (pos + (1 + zlen s)) by lia. reflexivity.
Qed.

Lemma rw_body_rem d o2n s : forall bef pos lit, rw_body d o2n s bef pos lit true 0 = (s, []).
Proof.
  induction s as [|x s IH]; intros bef pos lit; [reflexivity|].
  cbn [rw_body]. change (0 <? 0) with false. cbv iota.
  assert (H : ((if x =? 34 then negb lit else lit) || (if x =? 34 then true else if (x =? tk_REM) && negb lit then true else true)) = true).
  { destruct (x =? 34); [apply orb_true_r|]. destruct ((x =? tk_REM) && negb lit); apply orb_true_r. }
  rewrite H. destruct (x =? 34).
  - rewrite IH. reflexivity.
  - destruct ((x =? tk_REM) && negb lit); rewrite IH; reflexivity.
Qed.

Lemma plain_facts c : plain c = true -> (c =? 0) = false /\ (c =? 34) = false /\ (c =? tk_REM) = false /\ (c =? tk_T_UINT) = false.
Proof.
  unfold plain. intros H. apply negb_true_iff in H. apply orb_false_iff in H as [H H4].
  apply orb_false_iff in H as [H H3]. apply orb_false_iff in H as [H1 H2]. auto.
Qed.

Theorem rw_body_items d o2n its : items_ok its = true -> forall bef pos,
  rw_body d o2n (render its) bef pos false false 0
  = (render (rw_items o2n its bef), ev_items d o2n its bef pos).
Proof.
  induction its as [|it r IH]; intros Hok bef pos; [reflexivity|].
  cbn [items_ok] in Hok. apply andb_true_iff in Hok as [Hit Hr].
  unfold render. cbn [flat_map rw_items ev_items]. fold (render r).
  destruct it as [s closed|s|c p|j|c].
  - (* string literal *)
    apply andb_true_iff in Hit as [Hit Hlast]. apply andb_true_iff in Hit as [Hit H34]. 
    cbn [render1 app rw_body]. change (0 <? 0) with false. cbv iota. change (34 =? 34) with true. cbv iota.
    cbn [negb orb].
    destruct closed.
    + rewrite <- app_assoc. rewrite (rw_body_lit d o2n s H34). cbn [app rw_body].
      change (0 <? 0) with false. cbv iota. change (34 =? 34) with true. cbv iota. cbn [negb orb].
      change (34 =? tk_T_UINT) with false. cbv iota. change (tk_plus_bytes 34) with 0.
      fold (render (rw_items o2n r (rev (34 :: s ++ [34]) ++ bef))).
      replace (rev (34 :: s ++ [34]) ++ bef) with (34 :: rev s ++ 34 :: bef)
        by (cbn [rev]; rewrite rev_app_distr; cbn [rev app]; rewrite <- !app_assoc; reflexivity).
      rewrite (IH Hr). cbn [fst snd app]. rewrite <- !app_assoc. cbn [app].
      rewrite !zlen_cons, zlen_app, zlen_cons. change (zlen (@nil Z)) with 0.
      replace (pos + 1 + zlen s + 1) with (pos + (1 + (zlen s + (1 + 0)))) by lia. reflexivity.
    + destruct r as [|it2 r2]; [|cbn in Hlast; discriminate].
      cbn [render flat_map rw_items ev_items app]. rewrite !app_nil_r.
      pose proof (rw_body_lit d o2n s H34 [] (34 :: bef) (pos + 1)) as Hl. rewrite app_nil_r in Hl. rewrite Hl.
      cbn [rw_body fst snd]. rewrite app_nil_r. reflexivity.
  - (* comment *)
    apply andb_true_iff in Hit as [Hit Hlast]. destruct r as [|it2 r2]; [|discriminate].
    cbn [render1 render flat_map rw_items ev_items app rw_body]. rewrite !app_nil_r.
    change (0 <? 0) with false. cbv iota. change (tk_REM =? 34) with false. cbv iota.
    change (tk_REM =? tk_REM) with true. cbn [andb negb orb]. rewrite rw_body_rem. reflexivity.
  - (* token with payload *)
    apply andb_true_iff in Hit as [Hit Hpb]. apply andb_true_iff in Hit as [Hit Hlen]. apply andb_true_iff in Hit as [Hit Hpos].
    apply andb_true_iff in Hit as [Hcb Hpl]. destruct (plain_facts c Hpl) as [E0 [E34 [Er Eu]]].
    apply Z.eqb_eq in Hlen.
    cbn [render1 app rw_body]. change (0 <? 0) with false. cbv iota. rewrite E34, Er, Eu. cbn [andb orb]. cbv iota.
    rewrite <- Hlen. rewrite rw_body_skip. cbn [rev]. rewrite <- app_assoc. cbn [app].
    rewrite (IH Hr). cbn [fst snd app]. rewrite zlen_cons.
    replace (pos + 1 + zlen p) with (pos + (1 + zlen p)) by lia. reflexivity.
  - (* reference *)
    apply andb_true_iff in Hit as [Hj0 Hj1].
    cbn [render1 le2 app rw_body]. change (0 <? 0) with false. cbv iota.
    change (tk_T_UINT =? 34) with false. change (tk_T_UINT =? tk_REM) with false. cbn [andb orb]. cbv iota.
    change (tk_T_UINT =? tk_T_UINT) with true. cbv iota beta zeta. rewrite unpack_le2.
    rewrite (IH Hr). cbn [fst snd app rev le2]. try rewrite <- !app_assoc. cbn [app].
    rewrite !zlen_cons. change (zlen (@nil Z)) with 0.
    replace (pos + (1 + (1 + (1 + 0)))) with (pos + 3) by lia. reflexivity.
  - (* plain byte *)
    apply andb_true_iff in Hit as [Hit Hp0]. apply andb_true_iff in Hit as [Hcb Hpl].
    destruct (plain_facts c Hpl) as [E0 [E34 [Er Eu]]]. apply Z.eqb_eq in Hp0.
    cbn [render1 app rw_body]. change (0 <? 0) with false. cbv iota. rewrite E34, Er, Eu. cbn [andb orb]. cbv iota.
    rewrite Hp0. rewrite (IH Hr). cbn [fst snd app rev]. rewrite zlen_cons. change (zlen (@nil Z)) with 0.
    replace (pos + (1 + 0)) with (pos + 1) by lia. reflexivity.
Qed.

(* items render to tokeniser-shaped bodies *)
Lemma body_ok_skip p : forall R lit rem, no_byte 0 [] = true ->
  body_ok (p ++ R) lit rem (zlen p) = body_ok R lit rem 0.
Proof.
  induction p as [|x p IH]; intros R lit rem H; [reflexivity|].
  cbn [app body_ok]. rewrite zlen_cons. pose proof (zlen_nonneg p). destruct (0 <? 1 + zlen p) eqn:E; [|lia].
  replace (1 + zlen p - 1) with (zlen p) by lia. apply IH. exact H.
Qed.
Lemma body_ok_lit s : no_byte 34 s = true -> no_byte 0 s = true -> forall R,
  body_ok (s ++ R) true false 0 = body_ok R true false 0.
Proof.
  induction s as [|x s IH]; intros H34 H0 R; [reflexivity|].
  cbn [no_byte forallb] in H34, H0. apply andb_true_iff in H34 as [Hx Hs]. apply andb_true_iff in H0 as [Hx0 Hs0].
  apply negb_true_iff in Hx, Hx0. cbn [app body_ok]. change (0 <? 0) with false. cbv iota. rewrite Hx0, Hx.
  cbn [negb andb orb]. rewrite andb_false_r. cbn [orb]. apply IH; assumption.
Qed.
Lemma body_ok_rem s : no_byte 0 s = true -> forall lit, body_ok s lit true 0 = true.
Proof.
  induction s as [|x s IH]; intros H0 lit; [reflexivity|].
  cbn [no_byte forallb] in H0. apply andb_true_iff in H0 as [Hx0 Hs0]. apply negb_true_iff in Hx0.
  cbn [body_ok]. change (0 <? 0) with false. cbv iota. rewrite Hx0.
  destruct (x =? 34).
  - rewrite orb_true_r. apply IH. exact Hs0.
  - destruct ((x =? tk_REM) && negb lit); rewrite orb_true_r; apply IH; exact Hs0.
Qed.

Lemma items_body_ok its : items_ok its = true -> body_ok (render its) false false 0 = true.
Proof.
  induction its as [|it r IH]; intros Hok; [reflexivity|].
  cbn [items_ok] in Hok. apply andb_true_iff in Hok as [Hit Hr]. specialize (IH Hr).
  unfold render. cbn [flat_map]. fold (render r).
  destruct it as [s closed|s|c p|j|c].
  - apply andb_true_iff in Hit as [Hit Hlast]. apply andb_true_iff in Hit as [Hit H34]. apply andb_true_iff in Hit as [Hb H0].
    cbn [render1 app body_ok]. change (0 <? 0) with false. cbv iota. change (34 =? 0) with false. cbv iota.
    change (34 =? 34) with true. cbv iota. cbn [negb orb].
    destruct closed.
    + rewrite <- app_assoc. rewrite (body_ok_lit s H34 H0). cbn [app body_ok].
      change (0 <? 0) with false. cbv iota. change (34 =? 0) with false. cbv iota. change (34 =? 34) with true. cbv iota.
      cbn [negb orb]. change (tk_plus_bytes 34) with 0. exact IH.
    + destruct r as [|it2 r2]; [|cbn in Hlast; discriminate]. cbn [render flat_map app]. rewrite app_nil_r.
      rewrite (body_ok_lit s H34 H0 []). reflexivity.
  - apply andb_true_iff in Hit as [Hit Hlast]. apply andb_true_iff in Hit as [Hb H0].
    destruct r as [|it2 r2]; [|discriminate]. cbn [render1 render flat_map app body_ok]. rewrite app_nil_r.
    change (0 <? 0) with false. cbv iota. change (tk_REM =? 0) with false. cbv iota.
    change (tk_REM =? 34) with false. cbv iota. change (tk_REM =? tk_REM) with true. cbn [andb negb orb].
    apply body_ok_rem. exact H0.
  - apply andb_true_iff in Hit as [Hit Hpb]. apply andb_true_iff in Hit as [Hit Hlen]. apply andb_true_iff in Hit as [Hit Hpos].
    apply andb_true_iff in Hit as [Hcb Hpl]. destruct (plain_facts c Hpl) as [E0 [E34 [Er Eu]]]. apply Z.eqb_eq in Hlen.
    cbn [render1 app body_ok]. change (0 <? 0) with false. cbv iota. rewrite E0, E34, Er. cbn [andb orb]. cbv iota.
    rewrite <- Hlen. rewrite body_ok_skip by reflexivity. exact IH.
  - cbn [render1 le2 app body_ok]. change (0 <? 0) with false. cbv iota.
    change (tk_T_UINT =? 0) with false. change (tk_T_UINT =? 34) with false. change (tk_T_UINT =? tk_REM) with false.
    cbn [andb orb]. cbv iota. change (tk_plus_bytes tk_T_UINT) with 2.
    change (0 <? 2) with true. cbv iota. change (2 - 1) with 1. change (0 <? 1) with true. cbv iota. change (1 - 1) with 0.
    exact IH.
  - apply andb_true_iff in Hit as [Hit Hp0]. apply andb_true_iff in Hit as [Hcb Hpl].
    destruct (plain_facts c Hpl) as [E0 [E34 [Er Eu]]]. apply Z.eqb_eq in Hp0.
    cbn [render1 app body_ok]. change (0 <? 0) with false. cbv iota. rewrite E0, E34, Er. cbn [andb orb]. cbv iota.
    rewrite Hp0. exact IH.
Qed.

(* ------------------------------------------------------------------ the old -> new map *)
Lemma lookup_o2n_nth (ks : list Z) : NoDup ks -> forall new step i k,
  nth_error ks i = Some k ->
  lookup k (combine ks (seqz new step (length ks))) = Some (new + Z.of_nat i * step).
Proof.
  induction ks as [|k0 r IH]; intros Hnd new step i k Hi; [destruct i; discriminate|].
  inversion Hnd as [|? ? Hk0 Hr]; subst. cbn [length seqz combine lookup].
  destruct i as [|i]; cbn [nth_error] in Hi.
  - inversion Hi; subst. rewrite Z.eqb_refl. f_equal. cbn. lia.
  - assert (k <> k0) by (intros ->; apply Hk0; eapply nth_error_In; exact Hi).
    destruct (k =? k0) eqn:E; [apply Z.eqb_eq in E; contradiction|].
    rewrite (IH Hr (new + step) step i k Hi). f_equal. rewrite Nat2Z.inj_succ. ring.
Qed.
Lemma lookup_notin k (d : list (Z * Z)) : ~ In k (keys d) -> lookup k d = None.
Proof.
  induction d as [|[k0 v0] r IH]; intros H; [reflexivity|]. cbn [keys map fst In] in H. cbn [lookup].
  destruct (k =? k0) eqn:E; [apply Z.eqb_eq in E; subst; tauto|]. apply IH. tauto.
Qed.

Lemma new_number_renumbered ls start new step i k : StronglySorted Z.lt (nums ls) ->
  nth_error (nums (rn_part start ls)) i = Some k ->
  new_number (o2n_of (rn_part start ls) new step) k = new + Z.of_nat i * step.
Proof.
  intros Hs Hi. unfold new_number, o2n_of.
  replace (length (rn_part start ls)) with (length (nums (rn_part start ls))) by (unfold nums; apply map_length).
  assert (Hnd : NoDup (nums (rn_part start ls))) by (apply sorted_NoDup; unfold rn_part; apply sorted_filter; exact Hs).
  rewrite (lookup_o2n_nth (nums (rn_part start ls)) Hnd new step i k Hi). reflexivity.
Qed.
Lemma new_number_other ls start new step k : ~ In k (nums (rn_part start ls)) ->
  new_number (o2n_of (rn_part start ls) new step) k = k.
Proof.
  intros H. unfold new_number. rewrite lookup_notin; [reflexivity|]. unfold o2n_of.
  rewrite keys_combine; [exact H|]. rewrite length_seqz. unfold nums. rewrite map_length. reflexivity.
Qed.

(* ------------------------------------------------------------------ Interpreter.renum_ *)
Theorem renum_cmd_ok c s ls tail tr new start step :
  cfg_ok c -> abs_ok c s ls tail -> tail_ok tail -> Forall (fun l : line => fst l < 65535) ls ->
  0 <= new -> 0 <= start <= 65535 -> accepted ls new start step ->
  exists r, renum_cmd s tr (Some new) (Some start) (Some step)
            = Ok (r, {| on_error := remap (r_o2n r) (on_error tr); gosubs := map (remap (r_o2n r)) (gosubs tr) |})
    /\ r_o2n r = o2n_of (rn_part start ls) new step
    /\ abs_ok c (r_prog r) (fst (renum_lines c s ls new start step)) tail
    /\ r_reports r = reports_of (lines s) (snd (renum_lines c s ls new start step)).
Proof.
  intros Hcfg Habs Htail Hlt Hnew Hstart Hacc.
  destruct (renum_ok c s ls tail new start step Hcfg Habs Htail Hlt Hnew Hstart Hacc) as [r [Hr [H1 [H2 H3]]]].
  exists r. split; [|auto]. unfold renum_cmd. destruct Hacc as [Hstep _].
  destruct (step <? 1) eqn:E; [lia|]. rewrite Hr. reflexivity.
Qed.

Theorem renum_cmd_accepts_only c s ls tail tr new start step x :
  abs_ok c s ls tail -> Forall (fun l : line => fst l < 65535) ls -> 0 <= start <= 65535 ->
  renum_cmd s tr (Some new) (Some start) (Some step) = Ok x -> accepted ls new start step.
Proof.
  intros Habs Hlt Hstart H. unfold renum_cmd in H. destruct (step <? 1) eqn:E; [discriminate|].
  destruct (renum s (Some new) (Some start) (Some step)) as [r| | |] eqn:Er; try discriminate.
  unfold renum in Er. destruct (renum_assign (lines s) new start step) as [o| | |] eqn:Ea; try discriminate.
  destruct (renum_assign_spec c s ls tail new start step Habs Hlt ltac:(lia) ltac:(lia)) as [_ [Hok _]].
  exact (Hok o Ea).
Qed.

(* ------------------------------------------------------------------ numbers and positions after RENUM *)
Lemma map_snd_combine {A B} (a : list A) (b : list B) : length a = length b -> map snd (combine a b) = b.
Proof.
  revert b; induction a as [|x r IH]; intros [|y b] H; try discriminate; [reflexivity|].
  cbn [combine map snd]. f_equal. apply IH. cbn in H. lia.
Qed.

Lemma renum_lines_shape c s ls new start step :
  StronglySorted Z.lt (nums ls) -> Forall (fun l : line => wf_body (snd l) = true) ls ->
  nums (fst (renum_lines c s ls new start step))
    = nums (keep_part start ls) ++ seqz new step (length (rn_part start ls))
  /\ map snd (idx 0 (fst (renum_lines c s ls new start step))) = map snd (idx 0 ls).
Proof.
  intros Hs Hb. unfold renum_lines.
  set (rn := rn_part start ls). set (keep := keep_part start ls). set (news := seqz new step (length rn)).
  assert (Hlen : length news = length rn) by apply length_seqz.
  assert (Hb2 : Forall (fun l : line => wf_body (snd l) = true) (keep ++ renumber rn news)).
  { apply Forall_app. split; [apply Forall_filter; exact Hb|].
    apply (bodies_renumber (fun b => wf_body b = true)); [exact Hlen | apply Forall_filter; exact Hb]. }
  split.
  - rewrite rw_prog_nums. unfold nums. rewrite map_app. fold (nums keep). fold (nums (renumber rn news)).
    rewrite nums_renumber by exact Hlen. reflexivity.
  - rewrite rw_prog_idx by exact Hb2. replace (idx 0 ls) with (idx 0 (keep ++ rn)) by (unfold keep, rn; rewrite <- (split2 ls start Hs); reflexivity).
    rewrite !idx_app, !map_app. f_equal. rewrite idx_renumber by exact Hlen.
    apply map_snd_combine. rewrite map_length, length_idx. exact Hlen.
Qed.

(* a reference is reported iff it is not exempt and its target is not a line of the program *)
Lemma reported_spec c s ls tail new start step bef j :
  abs_ok c s ls tail -> 0 <= j <= 65535 ->
  reported (lines s) (o2n_of (rn_part start ls) new step) bef j
  = negb (exempt bef j) && negb (member j (nums ls)).
Proof.
  intros Habs Hj. unfold reported. f_equal.
  assert (Hk : member j (keys (lines s)) = member j (nums ls)).
  { destruct (member j (nums ls)) eqn:E.
    - apply member_In. apply (keys_abs c s ls tail j Habs). left. apply member_In. exact E.
    - destruct (member j (keys (lines s))) eqn:E2; [|reflexivity]. apply member_In in E2.
      apply (keys_abs c s ls tail j Habs) in E2 as [E2|E2]; [apply member_In in E2; congruence | lia]. }
  destruct (lookup j (o2n_of (rn_part start ls) new step)) as [n|] eqn:El; [|rewrite Hk; reflexivity].
  symmetry. apply negb_false_iff. apply member_In.
  assert (Hin : In j (keys (o2n_of (rn_part start ls) new step))).
  { destruct (in_dec Z.eq_dec j (keys (o2n_of (rn_part start ls) new step))) as [H|H]; [exact H|].
    rewrite (lookup_notin _ _ H) in El. discriminate. }
  unfold o2n_of in Hin. rewrite keys_combine in Hin by (rewrite length_seqz; unfold nums; rewrite map_length; reflexivity).
  unfold rn_part in Hin. rewrite (nums_filter (fun k => start <=? k)) in Hin. apply filter_In in Hin as [Hin _]. exact Hin.
Qed.

(* ------------------------------------------------------------------ the line number printed in a report *)
Lemma glnum_fold q d : forall acc,
  let f := fun (pre : Z) (kv : Z * Z) => if (snd kv <=? q) && (pre <? fst kv) then fst kv else pre in
  let r := fold_left f d acc in
  acc <= r /\ (forall k v, In (k, v) d -> v <= q -> k <= r) /\ (r = acc \/ exists v, In (r, v) d /\ v <= q).
Proof.
  induction d as [|[k0 v0] d IH]; intros acc f r.
  - subst r. cbn. split; [lia|]. split; [intros k v []|left; reflexivity].
  - subst r. cbn [fold_left]. specialize (IH (f acc (k0, v0))). cbv zeta in IH. destruct IH as [H1 [H2 H3]].
    fold f in H1, H2, H3.
    assert (Hacc : acc <= f acc (k0, v0) /\ (v0 <= q -> k0 <= f acc (k0, v0))
                   /\ (f acc (k0, v0) = acc \/ (f acc (k0, v0) = k0 /\ v0 <= q))).
    { unfold f. cbn [fst snd]. destruct (v0 <=? q) eqn:E1; destruct (acc <? k0) eqn:E2; cbn [andb]; lia. }
    destruct Hacc as [Ha [Hb Hc]]. split; [lia|]. split.
    + intros k v [Hin|Hin] Hv; [inversion Hin; subst; specialize (Hb Hv); lia | exact (H2 k v Hin Hv)].
    + destruct H3 as [H3|[v [Hin Hv]]]; [|right; exists v; split; [right; exact Hin | exact Hv]].
      destruct Hc as [Hc|[Hc Hv]]; [left; lia|]. right. exists v0. split; [left; rewrite H3, Hc; reflexivity | exact Hv].
Qed.

Lemma glnum_spec c s ls tail a k b r q :
  abs_ok c s ls tail -> ls = a ++ (k, b) :: r -> size a <= q < size a + 5 + zlen b ->
  get_line_number (lines s) q = k.
Proof.
  intros Habs Hls Hq. pose proof Habs as [Hs Hn Hb Hcode Hnd Hlines Hfit].
  assert (Hidx : idx 0 ls = idx 0 a ++ (k, size a) :: idx (size a + 5 + zlen b) r).
  { rewrite Hls, idx_app. cbn [idx fst snd]. replace (0 + size a) with (size a) by lia. reflexivity. }
  assert (Hk0 : 0 <= k).
  { rewrite Forall_forall in Hn. specialize (Hn (k, b)). cbn [fst] in Hn. apply Hn. rewrite Hls. apply in_app_iff. right. left. reflexivity. }
  assert (Hsz : size ls = size a + 5 + zlen b + size r) by (rewrite Hls, size_app; cbn [size snd]; lia).
  pose proof (size_nonneg r) as Hr0.
  destruct (glnum_fold q (lines s) (-1)) as [H1 [H2 H3]]. fold (get_line_number (lines s) q) in H1, H2, H3.
  assert (Hge : k <= get_line_number (lines s) q).
  { apply (H2 k (size a)); [|lia]. apply Hlines. unfold index. rewrite Hidx. rewrite !in_app_iff. left. right. left. reflexivity. }
  destruct H3 as [H3|[v [Hin Hv]]]; [lia|].
  apply Hlines in Hin. unfold index in Hin. rewrite Hidx in Hin. rewrite !in_app_iff in Hin. cbn [In] in Hin.
  destruct Hin as [[Hin|[Hin|Hin]]|[Hin|[]]].
  - (* a line in front: its number is below k *)
    apply In_idx_num in Hin. rewrite Hls in Hs. unfold nums in Hs. rewrite map_app in Hs. cbn [map fst] in Hs.
    assert (Hlt : get_line_number (lines s) q < k); [|lia].
    clear - Hs Hin. induction a as [|x a IH]; [contradiction|]. cbn [nums map app] in *.
    inversion Hs as [|? ? Hs' Hall]; subst. destruct Hin as [<-|Hin]; [|exact (IH Hs' Hin)].
    rewrite Forall_forall in Hall. apply Hall. apply in_app_iff. right. left. reflexivity.
  - inversion Hin. lia.
  - apply In_idx_ge in Hin. lia.
  - inversion Hin. lia.
Qed.

Lemma rw_body_ev_range_n d o2n n : forall b, (length b <= n)%nat -> forall bef pos lit rem skip p j rep,
  body_ok b lit rem skip = true -> In (p, j, rep) (snd (rw_body d o2n b bef pos lit rem skip)) ->
  pos + 3 <= p <= pos + zlen b.
Proof.
  induction n as [|n IH]; intros b Hn bef pos lit rem skip p j rep H Hin.
  - destruct b; [contradiction | cbn in Hn; lia].
  - destruct b as [|c r]; [contradiction|]. cbn [length] in Hn. rewrite zlen_cons. pose proof (zlen_nonneg r).
    cbn [body_ok] in H. cbn [rw_body] in Hin. destruct (0 <? skip) eqn:E.
    + cbn [snd] in Hin. apply (IH r ltac:(lia)) in Hin; [lia | exact H].
    + destruct (c =? 0) eqn:E0; [discriminate|].
      destruct ((if c =? 34 then negb lit else lit) || (if c =? 34 then rem else if (c =? tk_REM) && negb lit then true else rem)) eqn:Es.
      * cbn [snd] in Hin. apply (IH r ltac:(lia)) in Hin; [lia | exact H].
      * destruct (c =? tk_T_UINT) eqn:Eu.
        -- apply Z.eqb_eq in Eu. subst c. change (tk_plus_bytes tk_T_UINT) with 2 in H.
           apply orb_false_iff in Es as [Hl1 Hl2]. rewrite Hl1, Hl2 in H.
           destruct r as [|lo [|hi r']]; cbn [body_ok] in H; try discriminate.
           change (0 <? 2) with true in H. cbv iota in H. change (2 - 1) with 1 in H.
           change (0 <? 1) with true in H. cbv iota in H. change (1 - 1) with 0 in H.
           cbn [length] in Hn. cbv iota beta zeta in Hin. cbn [snd In] in Hin. rewrite !zlen_cons. pose proof (zlen_nonneg r').
           destruct Hin as [Hin|Hin]; [inversion Hin; lia|]. apply (IH r' ltac:(lia)) in Hin; [lia | exact H].
        -- cbn [snd] in Hin. apply (IH r ltac:(lia)) in Hin; [lia | exact H].
Qed.

Lemma rw_prog_ev_range d o2n c0 ls : forall p0 bef pos p j rep,
  Forall (fun l : line => wf_body (snd l) = true) ls ->
  In (p, j, rep) (snd (rw_prog d o2n c0 p0 ls bef pos)) ->
  exists a l r, ls = a ++ l :: r /\ pos + size a + 8 <= p <= pos + size a + 5 + zlen (snd l).
Proof.
  induction ls as [|l r IH]; intros p0 bef pos p j rep Hb Hin; [contradiction|].
  pose proof (Forall_inv Hb) as Hb1. pose proof (Forall_inv_tail Hb) as Hb2. cbn beta in Hb1.
  unfold wf_body in Hb1. apply andb_true_iff in Hb1 as [_ Hk].
  cbn [rw_prog snd] in Hin. apply in_app_iff in Hin as [Hin|Hin].
  - exists [], l, r. split; [reflexivity|]. cbn [size].
    apply (rw_body_ev_range_n d o2n (length (snd l)) (snd l) (le_n _)) in Hin; [lia | exact Hk].
  - destruct (IH _ _ _ p j rep Hb2 Hin) as [a [l' [r' [E Hr]]]]. exists (l :: a), l', r'.
    split; [rewrite E; reflexivity|]. cbn [size]. lia.
Qed.

Lemma renumber_split ls : forall ns a2 l2 r2, length ns = length ls -> renumber ls ns = a2 ++ l2 :: r2 ->
  exists a k r, ls = a ++ (k, snd l2) :: r /\ size a = size a2.
Proof.
  induction ls as [|l r IH]; intros [|n ns] a2 l2 r2 Hlen H; try discriminate.
  - destruct a2; discriminate.
  - unfold renumber in H. cbn [combine map fst snd] in H. fold (renumber r ns) in H.
    destruct a2 as [|x a2]; cbn [app] in H.
    + inversion H; subst. exists [], (fst l), r. split; [destruct l; reflexivity | reflexivity].
    + inversion H as [[Hx Hrest]]. destruct (IH ns a2 l2 r2 ltac:(cbn in Hlen; lia) Hrest) as [a [k [r' [E Hs]]]].
      exists (l :: a), k, r'. split; [rewrite E; reflexivity|]. cbn [size snd]. rewrite Hs. reflexivity.
Qed.

Lemma renumber_self ls : renumber ls (nums ls) = ls.
Proof. induction ls as [|[n b] r IH]; [reflexivity|]. unfold renumber. cbn [nums map combine fst snd]. fold (nums r). fold (renumber r (nums r)). rewrite IH. reflexivity. Qed.
Lemma renumber_app a b na nb : length na = length a ->
  renumber (a ++ b) (na ++ nb) = renumber a na ++ renumber b nb.
Proof.
  revert na; induction a as [|x a IH]; intros [|n na] H; try discriminate; [reflexivity|].
  unfold renumber. cbn [app combine map]. fold (renumber (a ++ b) (na ++ nb)). fold (renumber a na).
  rewrite IH by (cbn in H; lia). reflexivity.
Qed.

(* every reference found by RENUM lies inside some line of the program, and the line number printed in its
   report (get_line_number with the old index) is the OLD number of that line *)
Theorem report_line c s ls tail new start step p j rep :
  abs_ok c s ls tail -> In (p, j, rep) (snd (renum_lines c s ls new start step)) ->
  exists a k b r, ls = a ++ (k, b) :: r /\ size a + 8 <= p <= size a + 5 + zlen b
                  /\ get_line_number (lines s) (p - 1) = k.
Proof.
  intros Habs Hin. pose proof Habs as [Hs Hn Hb Hcode Hnd Hlines Hfit]. unfold renum_lines in Hin.
  set (rn := rn_part start ls) in *. set (keep := keep_part start ls) in *.
  set (news := seqz new step (length rn)) in *.
  assert (Hlen : length news = length rn) by apply length_seqz.
  assert (Hls2 : keep ++ renumber rn news = renumber ls (nums keep ++ news)).
  { replace (renumber ls (nums keep ++ news)) with (renumber (keep ++ rn) (nums keep ++ news))
      by (unfold keep, rn; rewrite <- (split2 ls start Hs); reflexivity).
    rewrite renumber_app by (unfold nums; apply map_length).
    rewrite renumber_self. reflexivity. }
  assert (Hb2 : Forall (fun l : line => wf_body (snd l) = true) (keep ++ renumber rn news)).
  { apply Forall_app. split; [apply Forall_filter; exact Hb|].
    apply (bodies_renumber (fun b => wf_body b = true)); [exact Hlen | apply Forall_filter; exact Hb]. }
  destruct (rw_prog_ev_range _ _ _ _ _ _ _ p j rep Hb2 Hin) as [a2 [l2 [r2 [E Hr]]]].
  rewrite Hls2 in E.
  assert (Hlen2 : length (nums keep ++ news) = length ls).
  { rewrite app_length, Hlen. unfold nums. rewrite map_length.
    replace (length ls) with (length (keep ++ rn)) by (unfold keep, rn; rewrite <- (split2 ls start Hs); reflexivity).
    rewrite app_length. reflexivity. }
  destruct (renumber_split ls _ a2 l2 r2 Hlen2 E) as [a [k [r [Els Hsz]]]].
  exists a, k, (snd l2), r. split; [exact Els|]. split; [lia|].
  apply (glnum_spec c s ls tail a k (snd l2) r (p - 1) Habs Els). lia.
Qed.
