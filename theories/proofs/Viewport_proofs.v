(* The write funnel (C30): whatever index pair and data reach GraphicsViewPort.__setitem__, the cells of the
   page matrix that change lie inside the viewport rectangle - provided the converted slice bounds are
   non-negative and a block has the width of its target.  The clip arithmetic is the regenerated
   gen/Gen_viewport.v. *)
From Coq Require Import ZArith List Bool Lia ZifyBool.
From PCB Require Import lib.Result lib.PyInt lib.GfxPrims gen.Gen_viewport model.Matrix model.Viewport
  proofs.Matrix_proofs.
Import ListNotations.
Open Scope Z_scope.

Ltac unfold_vp :=
  unfold vp_convert_slice, vp_cutoff_coord, vp_contains, vp_get_bounds, vp_convert_coords, on_vp,
    viewport_u_convert_slice, viewport_cutoff_coord, viewport_contains, viewport_get_bounds,
    viewport_u_convert_coords, viewport_width, viewport_height in *.

(* ---------- what _convert_slice returns *)

(* single pixel: either the empty slice pair or an absolute position inside the rectangle *)
Lemma convert_slice_pixel : forall vp y x,
  (vp_contains vp x y = false /\
   vp_convert_slice vp (IInt y, IInt x) = (ISlice (Some 0) (Some 0), ISlice (Some 0) (Some 0)))
  \/ (vp_contains vp x y = true /\
      exists ay ax, vp_convert_slice vp (IInt y, IInt x) = (IInt ay, IInt ax) /\ in_rect vp ax ay
                    /\ (ax, ay) = vp_convert_coords vp x y).
Proof.
  intros [ab x0 y0 x1 y1 mw mh] y x. unfold in_rect. unfold_vp. cbn [vp_abs vp_x0 vp_y0 vp_x1 vp_y1 vp_maxw vp_maxh].
  cbn [is_slice negb andb idx_int].
  destruct ab; cbn [negb].
  - destruct ((x0 <=? x) && (x <=? x1) && ((y0 <=? y) && (y <=? y1))) eqn:E; cbn [negb].
    + right. split; [reflexivity|]. exists y, x. split; [reflexivity|]. split; [lia | reflexivity].
    + left. split; reflexivity.
  - destruct ((0 <=? x) && (x <=? x1 - x0 + 1 - 1) && ((0 <=? y) && (y <=? y1 - y0 + 1 - 1))) eqn:E; cbn [negb].
    + right. split; [reflexivity|]. exists (y + y0), (x + x0). split; [reflexivity|]. split; [lia | reflexivity].
    + left. split; reflexivity.
Qed.

(* at least one slice: a pair of slices with both bounds present, clipped to the rectangle *)
Lemma convert_slice_slices : forall vp yi xi,
  is_slice yi || is_slice xi = true ->
  exists Y0 Y1 X0 X1,
    vp_convert_slice vp (yi, xi) = (ISlice (Some Y0) (Some Y1), ISlice (Some X0) (Some X1))
    /\ vp_y0 vp <= Y0 /\ Y1 <= vp_y1 vp + 1 /\ vp_x0 vp <= X0 /\ X1 <= vp_x1 vp + 1.
Proof.
  intros [ab x0 y0 x1 y1 mw mh] yi xi Hs. unfold_vp. cbn [vp_abs vp_x0 vp_y0 vp_x1 vp_y1 vp_maxw vp_maxh].
  assert (Hc : negb (is_slice yi) && negb (is_slice xi) = false).
  { destruct (is_slice yi); destruct (is_slice xi); cbn in *; congruence. }
  destruct ab.
  - rewrite Hc. cbn zeta.
    destruct yi as [y|ylo yhi]; destruct xi as [x|xlo xhi]; cbn [is_slice negb slice_start slice_stop idx_int] in *;
      try discriminate; eexists _, _, _, _; (split; [reflexivity|]);
      unfold opt_default;
      repeat match goal with |- context [match ?o with Some _ => _ | None => _ end] => destruct o end; lia.
  - rewrite Hc. cbn zeta.
    destruct yi as [y|ylo yhi]; destruct xi as [x|xlo xhi]; cbn [is_slice negb slice_start slice_stop idx_int] in *;
      try discriminate; eexists _, _, _, _; (split; [reflexivity|]);
      unfold opt_default;
      repeat match goal with |- context [match ?o with Some _ => _ | None => _ end] => destruct o end; lia.
Qed.

Lemma idx_cases : forall yi xi, (exists y x, yi = IInt y /\ xi = IInt x) \/ is_slice yi || is_slice xi = true.
Proof. intros [y|? ?] [x|? ?]; cbn; eauto. Qed.

(* ---------- the funnel *)

Definition changed_in_rect (vp : viewport) (m m' : matrix) : Prop :=
  forall y x, cellZ m' y x <> cellZ m y x -> in_rect vp x y.

Definition same_dims (vp : viewport) (m : matrix) : Prop :=
  zlen m = vp_maxh vp /\ width_is (vp_maxw vp) m.

Lemma funnel_step : forall vp rq m m',
  wf_vp vp -> width_is (vp_maxw vp) m -> req_ok vp rq ->
  vp_setitem vp m rq = Ok m' ->
  (length m' = length m /\ width_is (vp_maxw vp) m') /\ changed_in_rect vp m m'.
Proof.
  intros vp [yi xi d] m m' Hwf Hw [Hnn Hfit] Hset.
  unfold vp_setitem, nonneg_after_convert, data_fits in *. cbn [rq_y rq_x rq_data] in *.
  assert (Hmw : 0 <= vp_maxw vp) by (unfold wf_vp in Hwf; lia).
  (* the rectangle case, used twice *)
  assert (Hrect : forall Y0 Y1 X0 X1,
            vp_convert_slice vp (yi, xi) = (ISlice (Some Y0) (Some Y1), ISlice (Some X0) (Some X1)) ->
            (Y0 < Y1 -> X0 < X1 -> vp_y0 vp <= Y0 /\ Y1 <= vp_y1 vp + 1 /\ vp_x0 vp <= X0 /\ X1 <= vp_x1 vp + 1) ->
            (length m' = length m /\ width_is (vp_maxw vp) m') /\ changed_in_rect vp m m').
  { intros Y0 Y1 X0 X1 Hcv HB. rewrite Hcv in *.
    cbn [idx_nonneg] in Hnn. destruct Hnn as [[Hy0 Hy1] [Hx0 Hx1]].
    specialize (Hy0 _ eq_refl). specialize (Hy1 _ eq_refl). specialize (Hx0 _ eq_refl). specialize (Hx1 _ eq_refl).
    assert (Hfit' : match d with
                    | Fill _ => True
                    | Block src => let '(a, b) := slice_bounds (vp_maxw vp) (Some X0) (Some X1) in
                                   Forall (fun s => length s = (b - a)%nat) src
                    end) by (destruct d; [exact I | exact Hfit]).
    split.
    - eapply (mat_setitem_rect m Y0 Y1 X0 X1 d m' (vp_maxw vp) 0%nat 0%nat); eauto.
    - intros cy cx Hc. destruct (cellZ_neg _ _ _ _ Hc) as [Hcy Hcx].
      rewrite !cellZ_cell in Hc by assumption.
      destruct (mat_setitem_rect m Y0 Y1 X0 X1 d m' (vp_maxw vp) (Z.to_nat cy) (Z.to_nat cx)
                  Hy0 Hy1 Hx0 Hx1 Hmw Hw Hfit' Hset) as [_ Hin].
      specialize (Hin Hc). unfold in_rect. lia. }
  destruct (idx_cases yi xi) as [[y [x [Ey Ex]]] | Hs].
  - subst yi xi. destruct (convert_slice_pixel vp y x) as [[_ Hcv] | [_ [ay [ax [Hcv [Hin _]]]]]].
    + apply (Hrect 0 0 0 0 Hcv); lia.
    + rewrite Hcv in *. destruct d as [v|src].
      * cbn [idx_nonneg] in Hnn. destruct Hnn as [Hay Hax]. split.
        -- eapply mat_setitem_pixel_shape; eauto.
        -- intros cy cx Hc. destruct (cellZ_neg _ _ _ _ Hc) as [Hcy Hcx].
           rewrite !cellZ_cell in Hc by assumption.
           destruct (mat_setitem_pixel m ay ax v m' _ _ Hay Hax Hset Hc) as [E1 E2].
           unfold in_rect in *. lia.
      * cbn [mat_setitem] in Hset. assert (m' = m) by congruence. subst m'.
        split; [split; [reflexivity | exact Hw] | intros cy cx Hc; congruence].
  - destruct (convert_slice_slices vp yi xi Hs) as [Y0 [Y1 [X0 [X1 [Hcv [H1 [H2 [H3 H4]]]]]]]].
    apply (Hrect Y0 Y1 X0 X1 Hcv); lia.
Qed.

(* with a page matrix of the viewport's screen size the write never raises *)
Lemma funnel_total : forall vp rq m,
  wf_vp vp -> same_dims vp m -> exists m', vp_setitem vp m rq = Ok m'.
Proof.
  intros vp [yi xi d] m Hwf [Hh Hw]. unfold vp_setitem. cbn [rq_y rq_x rq_data].
  destruct (idx_cases yi xi) as [[y [x [Ey Ex]]] | Hs].
  - subst yi xi. destruct (convert_slice_pixel vp y x) as [[_ Hcv] | [_ [ay [ax [Hcv [Hin _]]]]]]; rewrite Hcv.
    + cbn [mat_setitem]. destruct (slice_bounds (zlen m) (Some 0) (Some 0)). destruct d; eexists; reflexivity.
    + destruct d as [v|src]; [|cbn [mat_setitem]; eexists; reflexivity].
      unfold wf_vp, in_rect in *. eapply mat_setitem_pixel_ok; eauto; lia.
  - destruct (convert_slice_slices vp yi xi Hs) as [Y0 [Y1 [X0 [X1 [Hcv _]]]]]. rewrite Hcv.
    cbn [mat_setitem]. destruct (slice_bounds (zlen m) (Some Y0) (Some Y1)). destruct d; eexists; reflexivity.
Qed.

(* a list of requests *)
Lemma changed_trans : forall vp m1 m2 m3,
  changed_in_rect vp m1 m2 -> changed_in_rect vp m2 m3 -> changed_in_rect vp m1 m3.
Proof.
  intros vp m1 m2 m3 H12 H23 y x Hc.
  assert (Hdec : {cellZ m2 y x = cellZ m1 y x} + {cellZ m2 y x <> cellZ m1 y x})
    by (decide equality; apply Z.eq_dec).
  destruct Hdec as [E|E].
  - apply H23. congruence.
  - apply H12. exact E.
Qed.

Theorem funnel_run : forall vp rqs m,
  wf_vp vp -> same_dims vp m -> Forall (req_ok vp) rqs ->
  exists m', vp_run vp m rqs = Ok m' /\ same_dims vp m' /\ changed_in_rect vp m m'.
Proof.
  intros vp rqs. induction rqs as [|rq rest IH]; intros m Hwf Hd Hok.
  - exists m. split; [reflexivity|]. split; [exact Hd|]. intros y x Hc. congruence.
  - pose proof (Forall_inv Hok) as Hrq. pose proof (Forall_inv_tail Hok) as Hrest.
    destruct (funnel_total vp rq m Hwf Hd) as [m1 Hm1].
    destruct Hd as [Hh Hw].
    destruct (funnel_step vp rq m m1 Hwf Hw Hrq Hm1) as [[Hl Hw1] Hch].
    assert (Hd1 : same_dims vp m1) by (split; [unfold zlen in *; lia | exact Hw1]).
    destruct (IH m1 Hwf Hd1 Hrest) as [m' [Hrun [Hd' Hch']]].
    exists m'. split; [cbn [vp_run]; rewrite Hm1; exact Hrun|].
    split; [exact Hd' | eapply changed_trans; eauto].
Qed.

(* ---------- single-pixel requests are harmless for ALL integer coordinates *)

Lemma pixel_req_ok : forall vp rq, wf_vp vp -> pixel_req rq -> req_ok vp rq.
Proof.
  intros vp rq Hwf [y [x [a E]]]. subst rq. unfold req_ok, nonneg_after_convert, data_fits.
  cbn [rq_y rq_x rq_data].
  destruct (convert_slice_pixel vp y x) as [[_ Hcv] | [_ [ay [ax [Hcv [Hin _]]]]]]; rewrite Hcv.
  - split; [|exact I]. cbn [idx_nonneg]. repeat split; intros ? E; injection E as E; lia.
  - split; [|exact I]. cbn [idx_nonneg]. unfold wf_vp, in_rect in *. lia.
Qed.

Lemma pixel_reqb_ok : forall rq, pixel_reqb rq = true <-> pixel_req rq.
Proof.
  intros [yi xi d]. unfold pixel_req. split.
  - destruct yi; destruct xi; destruct d; cbn; try discriminate. eauto.
  - intros [y [x [a E]]]. rewrite E. reflexivity.
Qed.

(* ---------- requests made of values that cutoff_coord returned *)

(* cutoff_coord: the absolute position of the result lies in [-1, max]; inside the screen it is the identity *)
Lemma cutoff_abs_range : forall vp x y cx cy,
  wf_vp vp -> vp_cutoff_coord vp x y = (cx, cy) ->
  let '(ax, ay) := vp_convert_coords vp cx cy in
  -1 <= ax <= vp_maxw vp /\ -1 <= ay <= vp_maxh vp.
Proof.
  intros [ab x0 y0 x1 y1 mw mh] x y cx cy Hwf H. unfold wf_vp in Hwf. unfold_vp.
  cbn [vp_abs vp_x0 vp_y0 vp_x1 vp_y1 vp_maxw vp_maxh] in *.
  destruct ab; injection H as E1 E2; subst cx cy; lia.
Qed.

Lemma cutoff_id : forall vp x y,
  wf_vp vp -> vp_contains vp x y = true -> vp_cutoff_coord vp x y = (x, y).
Proof.
  intros [ab x0 y0 x1 y1 mw mh] x y Hwf H. unfold wf_vp in Hwf. unfold_vp.
  cbn [vp_abs vp_x0 vp_y0 vp_x1 vp_y1 vp_maxw vp_maxh] in *.
  destruct ab; f_equal; lia.
Qed.

(* a filled-box request [ya:yb+1, xa:xb+1] whose corners have absolute positions >= -1 *)
Lemma box_req_ok : forall vp xa ya xb yb a,
  wf_vp vp ->
  (let '(ax, ay) := vp_convert_coords vp xa ya in -1 <= ax /\ -1 <= ay) ->
  (let '(bx, by_) := vp_convert_coords vp xb yb in -1 <= bx /\ -1 <= by_) ->
  req_ok vp (WReq (ISlice (Some ya) (Some (yb + 1))) (ISlice (Some xa) (Some (xb + 1))) (Fill a)).
Proof.
  intros [ab x0 y0 x1 y1 mw mh] xa ya xb yb a Hwf Ha Hb. unfold wf_vp in Hwf.
  unfold req_ok, nonneg_after_convert, data_fits. cbn [rq_y rq_x rq_data].
  unfold_vp. cbn [vp_abs vp_x0 vp_y0 vp_x1 vp_y1 vp_maxw vp_maxh] in *.
  cbn [is_slice negb andb slice_start slice_stop opt_default].
  split; [|exact I].
  destruct ab; cbn [idx_nonneg]; repeat split; intros ? E; injection E as E; lia.
Qed.

(* an interval / block request whose corners are inside the viewport bounds (PAINT intervals, PUT) *)
Lemma inside_req_ok : forall vp xa ya xb yb d,
  wf_vp vp -> vp_contains vp xa ya = true -> vp_contains vp xb yb = true -> xa <= xb + 1 -> ya <= yb + 1 ->
  (match d with Fill _ => True | Block src => Forall (fun s => zlen s = xb - xa + 1) src end) ->
  req_ok vp (WReq (ISlice (Some ya) (Some (yb + 1))) (ISlice (Some xa) (Some (xb + 1))) d).
Proof.
  intros [ab x0 y0 x1 y1 mw mh] xa ya xb yb d Hwf Ha Hb Hx Hy Hd. unfold wf_vp in Hwf.
  unfold req_ok, nonneg_after_convert, data_fits. cbn [rq_y rq_x rq_data].
  unfold_vp. cbn [vp_abs vp_x0 vp_y0 vp_x1 vp_y1 vp_maxw vp_maxh] in *.
  cbn [is_slice negb andb slice_start slice_stop opt_default].
  destruct ab.
  - split; [cbn [idx_nonneg]; repeat split; intros ? E; injection E as E; lia|].
    destruct d as [v|src]; [exact I|].
    rewrite slice_bounds_nonneg by lia.
    eapply Forall_impl; [|exact Hd]. intros s Hs. cbv beta in Hs. unfold zlen in Hs. lia.
  - split; [cbn [idx_nonneg]; repeat split; intros ? E; injection E as E; lia|].
    destruct d as [v|src]; [exact I|].
    rewrite slice_bounds_nonneg by lia.
    eapply Forall_impl; [|exact Hd]. intros s Hs. cbv beta in Hs. unfold zlen in Hs. lia.
Qed.

(* an (int y, slice x) interval request, as PAINT writes it *)
Lemma interval_req_ok : forall vp xa xb y d,
  wf_vp vp -> vp_contains vp xa y = true -> vp_contains vp xb y = true -> xa <= xb + 1 ->
  (match d with Fill _ => True | Block src => Forall (fun s => zlen s = xb - xa + 1) src end) ->
  req_ok vp (WReq (IInt y) (ISlice (Some xa) (Some (xb + 1))) d).
Proof.
  intros [ab x0 y0 x1 y1 mw mh] xa xb y d Hwf Ha Hb Hx Hd. unfold wf_vp in Hwf.
  unfold req_ok, nonneg_after_convert, data_fits. cbn [rq_y rq_x rq_data].
  unfold_vp. cbn [vp_abs vp_x0 vp_y0 vp_x1 vp_y1 vp_maxw vp_maxh] in *.
  cbn [is_slice negb andb slice_start slice_stop opt_default idx_int].
  destruct ab.
  - split; [cbn [idx_nonneg]; repeat split; intros ? E; injection E as E; lia|].
    destruct d as [v|src]; [exact I|].
    rewrite slice_bounds_nonneg by lia.
    eapply Forall_impl; [|exact Hd]. intros s Hs. cbv beta in Hs. unfold zlen in Hs. lia.
  - split; [cbn [idx_nonneg]; repeat split; intros ? E; injection E as E; lia|].
    destruct d as [v|src]; [exact I|].
    rewrite slice_bounds_nonneg by lia.
    eapply Forall_impl; [|exact Hd]. intros s Hs. cbv beta in Hs. unfold zlen in Hs. lia.
Qed.

(* ---------- VIEW keeps the viewport well-formed *)
Lemma vp_unset_wf : forall vp, 0 < vp_maxw vp -> 0 < vp_maxh vp -> wf_vp (vp_unset vp).
Proof. intros vp Hw Hh. unfold wf_vp, vp_unset. cbn. lia. Qed.

Lemma vp_set_wf : forall vp x0 y0 x1 y1 ab,
  0 <= x0 < vp_maxw vp -> 0 <= x1 < vp_maxw vp -> 0 <= y0 < vp_maxh vp -> 0 <= y1 < vp_maxh vp ->
  wf_vp (vp_set vp x0 y0 x1 y1 ab).
Proof. intros vp x0 y0 x1 y1 ab H1 H2 H3 H4. unfold wf_vp, vp_set. cbn. lia. Qed.

Lemma wf_vpb_ok : forall vp, wf_vpb vp = true <-> wf_vp vp.
Proof. intros vp. unfold wf_vpb, wf_vp. lia. Qed.
