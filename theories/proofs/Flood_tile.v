(* C32 (tiles): the exact stop condition of a tiled PAINT, and a tiled fill that never terminates *)
From Coq Require Import ZArith List Bool Lia.
From PCB Require Import lib.Result lib.PyInt model.Flood proofs.Flood_base.
Import ListNotations.
Open Scope Z_scope.

Lemma same_bg_spec m bg y : forall n x k,
  same_bg m bg y x k n = true <->
  (forall i, 0 <= i < Z.of_nat n -> pix m (x + i) y = nth (Z.to_nat ((k + i) mod zlen bg)) bg 0).
Proof.
  induction n as [|n IH]; intros x k; cbn [same_bg].
  - split; [intros _ i Hi; lia | reflexivity].
  - rewrite andb_true_iff, Z.eqb_eq, IH. split.
    + intros [H0 Hr] i Hi. destruct (Z.eq_dec i 0) as [->|Hi0]; [now rewrite !Z.add_0_r|].
      replace (x + i) with (x + 1 + (i - 1)) by lia. replace (k + i) with (k + 1 + (i - 1)) by lia.
      apply Hr. lia.
    + intros H. split.
      * specialize (H 0). rewrite !Z.add_0_r in H. apply H. lia.
      * intros i Hi. replace (x + 1 + i) with (x + (i + 1)) by lia.
        replace (k + 1 + i) with (k + (i + 1)) by lia. apply H. lia.
Qed.

(* when _check_scanline does NOT push the non-border run of width w starting at x on row y, i.e. when the
   tiled fill stops there: the run shows the tile (a run on an all-zero row of a non-solid tile never counts),
   and - if a background row is given - the run is narrower than the tile or does not show the background *)
Theorem has_same_spec m p y x w : 0 <= w ->
  has_same m p y x w = true <->
  (p_solid p = true \/ row_nonzero (tile_row p y) = true) /\
  (forall i, 0 <= i < w -> pix m (x + i) y = tile_at p (x + i) y) /\
  match p_bg p with
  | None => True
  | Some bg => w < zlen bg \/
               ~ (forall i, 0 <= i < w -> pix m (x + i) y = nth (Z.to_nat ((x mod tile_w p + i) mod zlen bg)) bg 0)
  end.
Proof.
  intro Hw. unfold has_same. rewrite !andb_true_iff, orb_true_iff, same_tile_spec, Z2Nat.id by lia.
  destruct (p_bg p) as [bg|].
  - rewrite orb_true_iff, Z.ltb_lt, negb_true_iff.
    split.
    + intros ((H1 & H2) & H3). split; [exact H1|]. split; [exact H2|].
      destruct H3 as [H3|H3]; [now left|right]. intro Hall.
      assert (E : same_bg m bg y x (x mod tile_w p) (Z.to_nat w) = true)
        by (apply (proj2 (same_bg_spec m bg y _ _ _)); now rewrite Z2Nat.id by lia).
      congruence.
    + intros (H1 & H2 & H3). split; [split; [exact H1|exact H2]|].
      destruct H3 as [H3|H3]; [now left|right].
      destruct (same_bg m bg y x (x mod tile_w p) (Z.to_nat w)) eqn:E; [|reflexivity].
      exfalso. apply H3. pose proof (proj1 (same_bg_spec m bg y _ _ _) E) as E'.
      now rewrite Z2Nat.id in E' by lia.
  - tauto.
Qed.

(* ---- a tiled fill that runs forever: a 3x3 ring around one border pixel, tile = one all-zero row.
   The model cycles through four states; pcbasic hangs on the same input (known finding K32a). *)
Definition ring_v : bounds := mkBounds 0 0 2 2.
Definition ring_m : bitmap := mkBitmap 0 0 [[0;0;0];[0;1;0];[0;0;0]].
Definition ring_p : pat := mkPat false [[0;0;0;0]] None.

Definition st := (bitmap * list seedt)%type.
Definition next (s : st) : st :=
  match snd s with
  | [] => s
  | e :: r => match step ring_v ring_p 1 (fst s) e r with Some s' => s' | None => s end
  end.
Fixpoint iter (n : nat) (s : st) : st := match n with O => s | S k => iter k (next s) end.
Definition ring_s1 : st := (ring_m, [(2, 2, 1, 1); (0, 0, 1, 1)]).

Definition live (s : st) : bool :=
  match snd s with
  | [] => false
  | e :: r => match step ring_v ring_p 1 (fst s) e r with Some _ => true | None => false end
  end.

Lemma ring_cycle : iter 4 ring_s1 = ring_s1.
Proof. vm_compute. reflexivity. Qed.

Lemma ring_live : forall k, (k < 4)%nat -> live (iter k ring_s1) = true.
Proof.
  intros k Hk. destruct k as [|[|[|[|k]]]]; try lia; vm_compute; reflexivity.
Qed.

Lemma iter_add a : forall b s, iter (a + b) s = iter b (iter a s).
Proof. induction a as [|a IH]; intros b s; cbn [plus iter]; [reflexivity|apply IH]. Qed.

Lemma ring_periodic : forall q r, iter (4 * q + r) ring_s1 = iter r ring_s1.
Proof.
  induction q as [|q IH]; intro r; [reflexivity|].
  replace (4 * S q + r)%nat with (4 + (4 * q + r))%nat by lia.
  rewrite iter_add, ring_cycle. apply IH.
Qed.

Lemma ring_always_live k : live (iter k ring_s1) = true.
Proof.
  rewrite (Nat.div_mod_eq k 4), ring_periodic. apply ring_live. apply Nat.mod_upper_bound. lia.
Qed.

Lemma loop_live : forall fuel s, (forall k, live (iter k s) = true) ->
  flood_loop fuel ring_v ring_p 1 (fst s) (snd s) = OutOfFuel.
Proof.
  induction fuel as [|f IH]; intros [m wl] Hl.
  - specialize (Hl O). cbn [iter live fst snd] in Hl |- *. destruct wl; [discriminate|reflexivity].
  - pose proof (Hl O) as H0. cbn [iter live fst snd] in H0 |- *.
    destruct wl as [|e r]; [discriminate|]. cbn [flood_loop].
    destruct (step ring_v ring_p 1 m e r) as [[m' wl']|] eqn:Es; [|reflexivity].
    apply (IH (m', wl')). intro k. specialize (Hl (S k)). cbn [iter] in Hl.
    unfold next in Hl. cbn [fst snd] in Hl. now rewrite Es in Hl.
Qed.

Theorem ring_never_terminates : forall fuel,
  flood_fill_pat fuel ring_v ring_m 0 0 ring_p 1 = OutOfFuel.
Proof.
  intro fuel.
  change (flood_fill_pat fuel ring_v ring_m 0 0 ring_p 1)
    with (flood_loop fuel ring_v ring_p 1 (fst (ring_m, [(0, 0, 0, 0)])) (snd (ring_m, [(0, 0, 0, 0)]))).
  apply loop_live. intros [|k].
  - vm_compute. reflexivity.
  - cbn [iter]. assert (E : next (ring_m, [(0, 0, 0, 0)]) = ring_s1) by (vm_compute; reflexivity).
    rewrite E. apply ring_always_live.
Qed.
