(* C23 - proofs, part 1: RUN, CLEAR, NEW by execution of the regenerated reset table (gen/Gen_clear.v) *)
From Coq Require Import ZArith List Bool String Lia Permutation.
From RecordUpdate Require Import RecordSet.
From PCB Require Import lib.Result lib.PyInt lib.Harness lib.ClearTable gen.Gen_clear model.ClearChain.
Import ListNotations RecordSetNotations.
Open Scope Z_scope.

(* ------------------------------------------------------------------------------------------------ *)
(* Part 1: RUN, CLEAR, NEW - by execution of the regenerated tables on an arbitrary state *)

(* the components the property lists, as a tuple *)
Definition view_of (s : state) :=
  (sc_vars s, sc_mem s, sc_current s, (ar_dims s, ar_bufs s, ar_mem s, ar_current s),
   (ar_base s, ar_base_by_dim s), (ss_strs s, ss_current s), deftype s, functions s,
   (gosub_stack s, for_stack s, while_stack s),
   (on_error s, err_handle s, err_resume s, err_num s, err_pos s),
   (stop_pos s, data_pos s), seed s, (ev_enabled s, ev_gosub s, ev_stopped s, ev_suspend s), math_raise s).

(* the freshly constructed session with the same memory geometry and program *)
Definition init_like (s : state) : state :=
  init_state (m_total s) (m_stack s) (m_code_start s) (m_prog_size s).

Definition is_reset (s : state) : Prop := view_of s = view_of (init_like s).

Ltac run_table_in H := lazy -[Z.leb Z.ltb Z.eqb Z.add Z.sub Z.mul Z.max] in H.

Lemma clear_reset s i m k s' : cmd_clear i m k s = Done s' -> is_reset s'.
Proof.
  intro H. destruct i as [i|], m as [m|], k as [k|]; run_table_in H;
  repeat match type of H with
         | context [if ?c then _ else _] => destruct c; try discriminate H
         end;
  injection H as H; subst s'; reflexivity.
Qed.

Lemma clear_plain_total s : exists s', cmd_clear None None None s = Done s' /\ is_reset s'
  /\ m_total s' = m_total s /\ m_stack s' = m_stack s /\ m_prog_size s' = m_prog_size s
  /\ files s' = files s /\ functions s' = [] /\ run_mode s' = run_mode s.
Proof. eexists. split; [lazy; reflexivity|]. repeat split. Qed.

Lemma new_reset s : exists s', cmd_new s = Done s' /\ is_reset s' /\ m_prog_size s' = 3
  /\ run_mode s' = false /\ tron s' = false.
Proof. eexists. split; [lazy; reflexivity|]. repeat split. Qed.

(* RUN, RUN line, RUN "file"[,R]: whenever it succeeds *)
Lemma run_reset s j jm f s' : cmd_run j jm f s = Done s' ->
  is_reset s' /\ run_mode s' = true
  /\ files s' = (match f with Some (_, true, _) => files s | _ => [] end).
Proof.
  intro H. destruct j as [j|], jm, f as [[[fm fr] fn]|]; try destruct fm; try destruct fr;
    run_table_in H; try discriminate H; injection H as H; subst s'; repeat split.
Qed.

(* RUN to a missing line raises after everything was cleared *)
Lemma run_missing_line s j f e s' : cmd_run (Some j) true f s = Raised e s' ->
  e = err_UNDEFINED_LINE_NUMBER /\ is_reset s'.
Proof.
  intro H. destruct f as [[[fm fr] fn]|]; try destruct fm; try destruct fr;
    run_table_in H; injection H as H1 H2; subst; split; reflexivity.
Qed.

