(* Decimal_accum.v - accumulation of the step errors of _div10_den / _mul10_den over the loops of
   Float.from_decimal (and, as lemmas, of to_decimal): reading a decimal literal whose digit string fits
   the mantissa stores a value less than one unit in the last binary place away (clause 4 of C07). *)
From Coq Require Import ZArith List Bool Lia ZifyBool.
From PCB Require Import lib.Result lib.PyInt lib.Harness lib.MBFPrims gen.Gen_mbf gen.Gen_dec model.MBF
  model.Decimal proofs.MBF_base proofs.MBF_round proofs.MBF_convert proofs.Decimal_den proofs.Decimal_todec.
Import ListNotations.
Open Scope Z_scope.
Ltac Zify.zify_post_hook ::= Z.to_euclidean_division_equations.

(* ------------------------------------------------------------------------------------------------ *)
(* pure arithmetic of one accumulation step (dividing direction)
     A = 10^i * m (computed), B = m0 * 2^T (exact), s = 8 | 16, d = s*m - 10*m' = the step's loss      *)
Lemma acc_div_step hb i P A B m d s R K chi chi' :
  0 < hb -> 0 <= i -> 0 < P -> A = P * m -> 0 < d -> 0 < s -> A <= B ->
  10000 * hb * (B - A) <= (40 * i + 9 * chi) * A ->
  K = 10000 * hb + 40 * i + 40 + 9 * chi' -> R = 40 + 9 * chi' - 9 * chi ->
  d * K <= s * m * R ->
  s * A - P * d <= s * B /\
  10000 * hb * (s * B - (s * A - P * d)) <= (40 * (i + 1) + 9 * chi') * (s * A - P * d).
Proof.
  intros Hhb Hi HP HA Hd Hs HAB H HK HR Hkey.
  assert (HPd : 0 < P * d) by (apply Z.mul_pos_pos; lia).
  split; [nia|].
  assert (Q1 : P * (d * K) <= P * (s * m * R)) by (apply Z.mul_le_mono_nonneg_l; lia).
  assert (Q2 : s * (10000 * hb * (B - A)) <= s * ((40 * i + 9 * chi) * A)) by (apply Z.mul_le_mono_nonneg_l; lia).
  subst K R A. nia.
Qed.

Section Accum.
Variable C : fconst.
Hypothesis HC : fmt_ok C.
Hypothesis Hten : mbf_denormalise C (c_ten C) = (132, 320 * hb C, false).

(* bonus of the potential: after a step that doubled the error the mantissa is large *)
Definition chi (m : Z) : Z := if 409 * hb C <=? m then 1 else 0.

(* invariant of the dividing loop after i passes, started from (e0, m0):
   exact value m0 * 2^(e0 - e), computed 10^i * m; computed <= exact, and the deficit is at most
   (0.004 i + 0.0009 chi) / hb of the computed value *)
Definition dinv (e0 m0 : Z) (n0 : bool) (d : Z * Z * bool) (i : Z) : Prop :=
  den_norm C (den_man d) /\ den_neg d = n0 /\ 0 <= i /\ 3 * i <= e0 - den_exp d /\
  10 ^ i * den_man d <= m0 * 2 ^ (e0 - den_exp d) /\
  (i <= 100 -> 10000 * hb C * (m0 * 2 ^ (e0 - den_exp d) - 10 ^ i * den_man d)
               <= (40 * i + 9 * chi (den_man d)) * (10 ^ i * den_man d)).

Lemma dinv_step e0 m0 n0 den i : dinv e0 m0 n0 den i ->
  exists den', mbf_div10_den C den = Ok den' /\ dinv e0 m0 n0 den' (i + 1).
Proof.
  destruct den as [[e m] n]. unfold dinv. cbn [den_exp den_man den_neg fst snd].
  intros (Hn & Hs & Hi & HT & HAB & Herr).
  destruct (div10_spec C HC Hten e m n Hn) as (e' & m' & Hd & Hn' & Hcase).
  exists (e', m', n). split; [exact Hd|]. cbn [den_exp den_man den_neg fst snd].
  pose proof (hb_pos C HC) as Hhb. destruct (hb_even C HC) as (_ & _ & Hh).
  unfold den_norm in *. set (T := e0 - e) in *.
  assert (HP : 0 < 10 ^ i) by (apply Z.pow_pos_nonneg; lia).
  assert (HP' : 10 ^ (i + 1) = 10 * 10 ^ i) by (rewrite Z.pow_add_r by lia; lia).
  assert (HTn : 0 < 2 ^ T) by (apply pow2_pos; lia).
  set (P := 10 ^ i) in *. set (Tn := 2 ^ T) in *.
  destruct Hcase as [(He' & Hlo & Hhi)|(He' & Hlo & Hhi)].
  - (* exponent - 3 *)
    assert (HT' : 2 ^ (e0 - e') = 8 * Tn).
    { replace (e0 - e') with (3 + T) by (unfold T; lia). rewrite pow2_split by lia. reflexivity. }
    rewrite HT', HP'. split; [exact Hn'|]. split; [exact Hs|]. split; [lia|]. split; [lia|].
    assert (Hm320 : 320 * hb C < m) by lia.
    assert (Hchi' : chi m' = 0 \/ chi m' = 1) by (unfold chi; destruct (409 * hb C <=? m'); auto).
    assert (Hchi : chi m = 0 \/ (chi m = 1 /\ 409 * hb C <= m)).
    { unfold chi. destruct (Z.leb_spec (409 * hb C) m); [right; split; [reflexivity | assumption] | left; reflexivity]. }
    replace (10 * P * m') with (8 * (P * m) - P * (8 * m - 10 * m')) by lia.
    replace (m0 * (8 * Tn)) with (8 * (m0 * Tn)) by lia.
    destruct (Z.le_gt_cases i 100) as [Hi100|Hi100].
    + destruct (acc_div_step (hb C) i P (P * m) (m0 * Tn) m (8 * m - 10 * m') 8
                  (40 + 9 * chi m' - 9 * chi m) (10000 * hb C + 40 * i + 40 + 9 * chi m') (chi m) (chi m')
                  Hhb Hi HP eq_refl ltac:(lia) ltac:(lia) HAB (Herr Hi100) eq_refl eq_refl) as [Q1 Q2].
      { destruct Hchi as [Hc|[Hc Hm409]], Hchi' as [Hc'|Hc']; rewrite Hc, Hc'; nia. }
      split; [exact Q1|]. intros _. exact Q2.
    + split; [nia | intros; lia].
  - (* exponent - 4 *)
    assert (HT' : 2 ^ (e0 - e') = 16 * Tn).
    { replace (e0 - e') with (4 + T) by (unfold T; lia). rewrite pow2_split by lia. reflexivity. }
    rewrite HT', HP'. split; [exact Hn'|]. split; [exact Hs|]. split; [lia|]. split; [lia|].
    assert (Hchi : chi m = 0) by (unfold chi; destruct (Z.leb_spec (409 * hb C) m); [lia | reflexivity]).
    assert (Hchi' : chi m' = 1) by (unfold chi; destruct (Z.leb_spec (409 * hb C) m'); [reflexivity | lia]).
    replace (10 * P * m') with (16 * (P * m) - P * (16 * m - 10 * m')) by lia.
    replace (m0 * (16 * Tn)) with (16 * (m0 * Tn)) by lia.
    destruct (Z.le_gt_cases i 100) as [Hi100|Hi100].
    + destruct (acc_div_step (hb C) i P (P * m) (m0 * Tn) m (16 * m - 10 * m') 16
                  (40 + 9 * chi m' - 9 * chi m) (10000 * hb C + 40 * i + 40 + 9 * chi m') (chi m) (chi m')
                  Hhb Hi HP eq_refl ltac:(lia) ltac:(lia) HAB (Herr Hi100) eq_refl eq_refl) as [Q1 Q2].
      { rewrite Hchi, Hchi'. nia. }
      split; [exact Q1|]. intros _. exact Q2.
    + split; [nia | intros; lia].
Qed.

(* ------------------------------------------------------------------------------------------------ *)
(* the loops of from_decimal run |exp10| times *)

Lemma loop105_S f buf mant den x :
  mbf_from_decimal_loop_105 (S f) C buf mant den x =
    if x <? 0 then bind (mbf_div10_den C den) (fun den' => mbf_from_decimal_loop_105 f C buf mant den' (x + 1))
    else Ok (den, x).
Proof. reflexivity. Qed.

Lemma loop106_S f buf mant den x :
  mbf_from_decimal_loop_106 (S f) C buf mant den x =
    if x >? 0 then mbf_from_decimal_loop_106 f C buf mant (mbf_mul10_den C den) (x - 1)
    else Ok (den, x).
Proof. reflexivity. Qed.

Lemma loop105_inv (Inv : Z * Z * bool -> Z -> Prop) buf mant :
  (forall den i, Inv den i -> exists den', mbf_div10_den C den = Ok den' /\ Inv den' (i + 1)) ->
  forall (k : nat) (fuel : nat) den i, (k < fuel)%nat -> Inv den i ->
  exists den', mbf_from_decimal_loop_105 fuel C buf mant den (- Z.of_nat k) = Ok (den', 0)
               /\ Inv den' (i + Z.of_nat k).
Proof.
  intros Hstep. induction k as [|k IH]; intros fuel den i Hf HI.
  - destruct fuel as [|f]; [lia|]. rewrite loop105_S. change (- Z.of_nat 0) with 0. change (0 <? 0) with false.
    exists den. rewrite Z.add_0_r. auto.
  - destruct fuel as [|f]; [lia|]. rewrite loop105_S.
    destruct (Z.ltb_spec (- Z.of_nat (S k)) 0); [|lia].
    destruct (Hstep den i HI) as (den' & Hd & HI'). rewrite Hd. cbn [bind].
    replace (- Z.of_nat (S k) + 1) with (- Z.of_nat k) by lia.
    destruct (IH f den' (i + 1) ltac:(lia) HI') as (den'' & Hl & HI'').
    exists den''. split; [exact Hl|]. replace (i + Z.of_nat (S k)) with (i + 1 + Z.of_nat k) by lia. exact HI''.
Qed.

Lemma loop106_inv (Inv : Z * Z * bool -> Z -> Prop) buf mant :
  (forall den i, Inv den i -> Inv (mbf_mul10_den C den) (i + 1)) ->
  forall (k : nat) (fuel : nat) den i, (k < fuel)%nat -> Inv den i ->
  exists den', mbf_from_decimal_loop_106 fuel C buf mant den (Z.of_nat k) = Ok (den', 0)
               /\ Inv den' (i + Z.of_nat k).
Proof.
  intros Hstep. induction k as [|k IH]; intros fuel den i Hf HI.
  - destruct fuel as [|f]; [lia|]. rewrite loop106_S. change (Z.of_nat 0) with 0. change (0 >? 0) with false.
    exists den. rewrite Z.add_0_r. auto.
  - destruct fuel as [|f]; [lia|]. rewrite loop106_S.
    destruct (Z.gtb_spec (Z.of_nat (S k)) 0); [|lia].
    replace (Z.of_nat (S k) - 1) with (Z.of_nat k) by lia.
    destruct (IH f _ (i + 1) ltac:(lia) (Hstep den i HI)) as (den'' & Hl & HI'').
    exists den''. split; [exact Hl|]. replace (i + Z.of_nat (S k)) with (i + 1 + Z.of_nat k) by lia. exact HI''.
Qed.

(* ------------------------------------------------------------------------------------------------ *)
(* rounding of _normalise *)

Lemma round_even8_near m : 0 <= m -> Z.abs (256 * round_even8 m - m) <= 128.
Proof.
  intros Hm. unfold round_even8. cbv zeta.
  destruct ((128 <? m mod 256) || ((m mod 256 =? 128) && Z.odd (m / 256))) eqn:E; lia.
Qed.

(* _normalise of a normalised den with positive exponent: the stored mantissa times 2^(stored exp - e)
   is the rounded mantissa *)
Lemma normalise_den e m neg b : den_norm C m -> 0 < e -> zlen b = c_size C ->
  forall b', mbf_normalise C b e m neg = Ok b' ->
  exists r, Z.abs (256 * r - m) <= 128 /\ buf_ok C b' /\ f_zero b' = false /\ f_neg C b' = neg /\
            e <= f_exp b' <= e + 1 /\ f_man C b' * 2 ^ (f_exp b' - e) = r.
Proof.
  unfold den_norm. intros Hm He Hlen b' Hn. pose proof (hb_pos C HC) as Hhb.
  pose proof (mbits_ge C HC) as Hg.
  assert (H2 : 2 ^ mbits C = 2 * hb C) by (unfold hb; apply pow2_pred; lia).
  rewrite normalise_norm_spec in Hn; [| exact HC | exact Hlen | exact He | rewrite (den_mask_hb C HC), (den_upper_hb C HC); exact Hm].
  unfold norm_result in Hn. pose proof (round_even8_near m ltac:(lia)) as Hr.
  pose proof (round_even8_range m (hb C) Hhb Hm) as Hrr.
  set (r := round_even8 m) in *. exists r. split; [exact Hr|].
  rewrite H2 in Hn. fold (hb C) in Hn. destruct (Z.eqb_spec r (2 * hb C)) as [Hc|Hc].
  - destruct (Z.gtb_spec (e + 1) 255); [discriminate|]. injection Hn as <-.
    destruct (f_encode_fields C neg (e + 1) (hb C) HC ltac:(unfold byte_ok; lia) ltac:(fold (hb C); rewrite H2; lia)) as (F1 & F2 & F3).
    split; [apply f_encode_ok; [exact HC | unfold byte_ok; lia | fold (hb C); rewrite H2; lia]|].
    unfold f_zero. rewrite F1, F2, F3. split; [apply Z.eqb_neq; lia|]. split; [reflexivity|]. split; [lia|].
    replace (e + 1 - e) with 1 by lia. change (2 ^ 1) with 2. lia.
  - destruct (Z.gtb_spec e 255); [discriminate|]. injection Hn as <-.
    destruct (f_encode_fields C neg e r HC ltac:(unfold byte_ok; lia) ltac:(fold (hb C); rewrite H2; lia)) as (F1 & F2 & F3).
    split; [apply f_encode_ok; [exact HC | unfold byte_ok; lia | fold (hb C); rewrite H2; lia]|].
    unfold f_zero. rewrite F1, F2, F3. split; [apply Z.eqb_neq; lia|]. split; [reflexivity|]. split; [lia|].
    rewrite Z.sub_diag. change (2 ^ 0) with 1. lia.
Qed.

(* ------------------------------------------------------------------------------------------------ *)
(* negative decimal exponent: k divisions by ten, then rounding *)

Lemma f_zero_zeros : f_zero (zeros (c_size C)) = true.
Proof.
  pose proof (ok_size C HC) as Hs.
  assert (Hl : zlen (zeros (c_size C)) = c_size C) by (unfold zeros, zlen; rewrite repeat_length; lia).
  unfold f_zero, f_exp, py_nth. change (-1 <? 0) with true. cbv iota. rewrite Hl.
  replace (nth (Z.to_nat (c_size C + -1)) (zeros (c_size C)) 0) with 0; [reflexivity|].
  symmetry. unfold zeros. apply nth_repeat.
Qed.

(* final deficit of the dividing loop in units of the last guard bit: below 128 = half a unit of the mantissa *)
Lemma dinv_final e0 m0 n0 e m n k : dinv e0 m0 n0 (e, m, n) k -> k <= 62 ->
  m0 * 2 ^ (e0 - e) - 10 ^ k * m < 128 * 10 ^ k /\ 10 ^ k * m <= m0 * 2 ^ (e0 - e).
Proof.
  unfold dinv, den_norm. cbn [den_exp den_man den_neg fst snd].
  intros (Hn & _ & Hk0 & _ & HAB & Herr) Hk. specialize (Herr ltac:(lia)).
  pose proof (hb_pos C HC) as Hhb. split; [|exact HAB].
  assert (HP : 0 < 10 ^ k) by (apply Z.pow_pos_nonneg; lia).
  set (P := 10 ^ k) in *. set (B := m0 * 2 ^ (e0 - e)) in *.
  assert (Hchi : 0 <= chi m <= 1) by (unfold chi; destruct (409 * hb C <=? m); lia).
  (* 10000 hb (B - A) <= (40k+9) A < (40k+9) * 512 hb * P *)
  assert (HA : P * m < P * (512 * hb C)) by (apply Z.mul_lt_mono_pos_l; lia).
  assert (H1 : (40 * k + 9 * chi m) * (P * m) <= 2489 * (P * m)) by (apply Z.mul_le_mono_nonneg_r; nia).
  assert (H2 : hb C * (10000 * (B - P * m)) < hb C * (2489 * 512 * P)) by nia.
  apply Z.mul_lt_mono_pos_l in H2; [|exact Hhb]. lia.
Qed.

Theorem from_decimal_div_err mant (k : nat) b : mant <> 0 -> Z.abs mant < 2 ^ mbits C ->
  mbf_from_decimal C (zeros (c_size C)) mant (- Z.of_nat k) = Ok b -> f_zero b = false ->
  buf_ok C b /\
  Z.abs (f_sval C b * 10 ^ Z.of_nat k - mant * 2 ^ c_bias C) < 2 ^ f_exp b * 10 ^ Z.of_nat k.
Proof.
  intros Hm0 Hfit Hfd Hnz. pose proof (mbits_ge C HC) as Hg. pose proof (mbits_le C HC) as Hl.
  pose proof (hb_pos C HC) as Hhb.
  assert (Hz : zlen (zeros (c_size C)) = c_size C).
  { unfold zeros, zlen. rewrite repeat_length. pose proof (ok_size C HC). lia. }
  assert (H127 : Z.abs mant < 2 ^ 127) by (assert (2 ^ mbits C <= 2 ^ 127) by (apply pow2_le; lia); lia).
  destruct (from_int_exact C (zeros (c_size C)) mant (Z.abs mant) 0 HC Hz) as (b1 & Hfi & Hb1 & Hv1);
    [change (2 ^ 0) with 1; lia | lia | lia | exact H127 |].
  unfold mbf_from_decimal in Hfd. rewrite Hfi in Hfd. cbn [bind] in Hfd.
  destruct (Z.eqb_spec mant 0) as [|_]; [contradiction|].
  rewrite (denormalise_spec C b1 HC Hb1) in Hfd.
  assert (Hpb : 0 < 2 ^ c_bias C) by (apply pow2_pos; rewrite (ok_bias C HC); lia).
  assert (Hnz1 : f_zero b1 = false).
  { destruct (f_zero b1) eqn:E; [|reflexivity]. unfold f_sval in Hv1. rewrite E in Hv1. nia. }
  pose proof (f_man_bound C b1 HC) as Hfm. pose proof (f_exp_bound C b1 HC Hb1) as Hfe.
  rewrite (pow2_pred (mbits C)) in Hfm by lia. fold (hb C) in Hfm.
  set (e0 := f_exp b1) in *. set (fm0 := f_man C b1) in *. set (n0 := f_neg C b1) in *.
  (* the dividing loop *)
  assert (HI0 : dinv e0 (256 * fm0) n0 (e0, 256 * fm0, n0) 0).
  { unfold dinv, den_norm. cbn [den_exp den_man den_neg fst snd]. rewrite Z.sub_diag. change (10 ^ 0) with 1. change (2 ^ 0) with 1.
    assert (0 <= chi (256 * fm0)) by (unfold chi; destruct (409 * hb C <=? 256 * fm0); lia).
    repeat split; try lia. intros _. nia. }
  replace (Z.to_nat (Z.abs (- Z.of_nat k))) with k in Hfd by lia.
  destruct (loop105_inv (dinv e0 (256 * fm0) n0) b1 mant (dinv_step e0 (256 * fm0) n0) k (S k) _ 0 ltac:(lia) HI0)
    as (dk & Hl5 & HIk).
  rewrite Hl5 in Hfd. cbn [bind] in Hfd. cbv beta iota in Hfd.
  change (Z.to_nat (Z.abs 0)) with O in Hfd. rewrite loop106_S in Hfd. change (0 >? 0) with false in Hfd.
  cbv iota in Hfd. cbn [bind] in Hfd. cbv beta iota in Hfd.
  destruct dk as [[ek mk] nk]. rewrite Z.add_0_l in HIk.
  pose proof HIk as (Hnk & Hsk & _ & HTk & HABk & _). cbn [den_exp den_man den_neg fst snd] in Hnk, Hsk, HTk, HABk.
  (* rounding *)
  destruct (mbf_normalise C b1 ek mk nk) as [b'| | |] eqn:Hnorm; cbn [bind] in Hfd; try discriminate.
  injection Hfd as ->.
  destruct (Z.le_gt_cases ek 0) as [Hneg|Hpos].
  { exfalso. unfold mbf_normalise in Hnorm. destruct (Z.leb_spec ek 0); [|lia]. rewrite orb_true_r in Hnorm.
    injection Hnorm as <-. rewrite f_zero_zeros in Hnz. discriminate. }
  (* a non-zero result bounds the number of divisions: 10^k <= 2^(e0 - ek + 1) <= 2^192 *)
  assert (Hk : Z.of_nat k <= 62).
  { assert (He0b : e0 <= c_bias C).
    { destruct (Z.le_gt_cases e0 (c_bias C)) as [|Hgt]; [assumption|exfalso].
      pose proof Hv1 as Hv1'. unfold f_sval in Hv1'. rewrite Hnz1 in Hv1'. fold e0 fm0 n0 in Hv1'.
      assert (Hq : 2 * 2 ^ c_bias C <= 2 ^ e0) by (rewrite <- pow2_S by (rewrite (ok_bias C HC); lia); apply pow2_le; rewrite (ok_bias C HC) in *; lia).
      rewrite (pow2_pred (mbits C)) in Hfit by lia. fold (hb C) in Hfit.
      destruct n0; nia. }
    destruct (Z.le_gt_cases (Z.of_nat k) 62) as [|Hbig]; [assumption|exfalso].
    assert (HT191 : e0 - ek <= 191) by (rewrite (ok_bias C HC) in He0b; lia).
    assert (H10 : 10 ^ 63 <= 10 ^ Z.of_nat k) by (apply Z.pow_le_mono_r; lia).
    assert (H2 : 2 ^ (e0 - ek) <= 2 ^ 191) by (apply pow2_le; lia).
    assert (HP : 0 < 10 ^ Z.of_nat k) by (apply Z.pow_pos_nonneg; lia).
    unfold den_norm in Hnk.
    assert (H3 : 10 ^ Z.of_nat k * (256 * hb C) <= 512 * hb C * 2 ^ (e0 - ek)) by nia.
    assert (H4 : hb C * (10 ^ Z.of_nat k) <= hb C * (2 * 2 ^ (e0 - ek))) by lia.
    apply Z.mul_le_mono_pos_l in H4; [|exact Hhb].
    assert (H5 : 10 ^ 63 <= 2 * 2 ^ 191) by lia. vm_compute in H5. apply H5. reflexivity. }
  destruct (dinv_final _ _ _ _ _ _ _ HIk Hk) as [Hdef HAB].
  destruct Hb1 as [Hlen1 Hbytes1].
  destruct (normalise_den ek mk nk b1 Hnk Hpos Hlen1 b Hnorm) as (r & Hr & Hb & _ & Hnegb & Heb & Hrb).
  split; [exact Hb|].
  (* values *)
  unfold f_sval in *. rewrite Hnz, Hnegb. rewrite Hnz1 in Hv1. fold e0 fm0 n0 in Hv1. subst nk.
  set (P := 10 ^ Z.of_nat k) in *. assert (HP : 0 < P) by (apply Z.pow_pos_nonneg; lia).
  set (T := e0 - ek) in *. assert (HT : 0 <= T) by lia.
  assert (He0 : 2 ^ e0 = 2 ^ T * 2 ^ ek) by (rewrite <- pow2_split by lia; f_equal; unfold T; lia).
  set (c := f_exp b - ek) in *. assert (Hc : 0 <= c <= 1) by lia.
  assert (Heb' : 2 ^ f_exp b = 2 ^ c * 2 ^ ek) by (rewrite <- pow2_split by lia; f_equal; unfold c; lia).
  assert (Hpek : 0 < 2 ^ ek) by (apply pow2_pos; lia).
  assert (Hpc : 1 <= 2 ^ c) by (pose proof (pow2_pos c ltac:(lia)); lia).
  set (Tn := 2 ^ T) in *. set (Ek := 2 ^ ek) in *. set (Cn := 2 ^ c) in *.
  rewrite <- Hv1, Heb', He0.
  (* | r P - fm0 Tn | < P *)
  assert (Hcore : Z.abs (r * P - fm0 * Tn) < P).
  { assert (H1 : Z.abs (256 * r * P - P * mk) <= 128 * P).
    { replace (256 * r * P - P * mk) with ((256 * r - mk) * P) by lia. rewrite Z.abs_mul, (Z.abs_eq P) by lia.
      apply Z.mul_le_mono_nonneg_r; lia. }
    assert (H2 : 0 <= 256 * fm0 * Tn - P * mk < 128 * P) by lia.
    assert (Z.abs (256 * (r * P - fm0 * Tn)) < 256 * P) by lia. lia. }
  destruct n0.
  - replace (-1 * f_man C b * (Cn * Ek) * P - -1 * fm0 * (Tn * Ek)) with (- ((f_man C b * Cn * P - fm0 * Tn) * Ek)) by lia.
    rewrite Z.abs_opp, Z.abs_mul, (Z.abs_eq Ek) by lia. rewrite Hrb.
    assert (Z.abs (r * P - fm0 * Tn) * Ek < P * Ek) by (apply Z.mul_lt_mono_pos_r; lia).
    assert (P * Ek <= Cn * Ek * P) by nia. lia.
  - replace (1 * f_man C b * (Cn * Ek) * P - 1 * fm0 * (Tn * Ek)) with ((f_man C b * Cn * P - fm0 * Tn) * Ek) by lia.
    rewrite Z.abs_mul, (Z.abs_eq Ek) by lia. rewrite Hrb.
    assert (Z.abs (r * P - fm0 * Tn) * Ek < P * Ek) by (apply Z.mul_lt_mono_pos_r; lia).
    assert (P * Ek <= Cn * Ek * P) by nia. lia.
Qed.

(* ------------------------------------------------------------------------------------------------ *)
(* positive decimal exponent: k multiplications by ten, then rounding *)

(* invariant after i passes from (e0, m0): computed m * 2^(e - e0) against exact m0 * 10^i, relative
   error at most i / (254 hb) *)
Definition minv (e0 m0 : Z) (n0 : bool) (d : Z * Z * bool) (i : Z) : Prop :=
  den_norm C (den_man d) /\ den_neg d = n0 /\ 0 <= i /\ 1 <= e0 /\ 3 * i <= den_exp d - e0 /\
  (i <= 100 -> 254 * hb C * Z.abs (den_man d * 2 ^ (den_exp d - e0) - m0 * 10 ^ i) <= i * (m0 * 10 ^ i)).

Lemma minv_step e0 m0 n0 den i : 0 <= m0 -> minv e0 m0 n0 den i -> minv e0 m0 n0 (mbf_mul10_den C den) (i + 1).
Proof.
  intros Hm0. destruct den as [[e m] n]. unfold minv. cbn [den_exp den_man den_neg fst snd].
  intros (Hn & Hs & Hi & He0 & HT & Herr).
  destruct (mul10_spec C HC e m n ltac:(lia) Hn) as (e' & m' & Hd & Hn' & Hcase).
  rewrite Hd. cbn [den_exp den_man den_neg fst snd].
  pose proof (hb_pos C HC) as Hhb. destruct (hb_even C HC) as (_ & _ & Hh).
  unfold den_norm in *. set (T := e - e0) in *.
  assert (HP : 0 < 10 ^ i) by (apply Z.pow_pos_nonneg; lia).
  assert (HP' : 10 ^ (i + 1) = 10 * 10 ^ i) by (rewrite Z.pow_add_r by lia; lia).
  assert (HTn : 0 < 2 ^ T) by (apply pow2_pos; lia).
  set (P := 10 ^ i) in *. set (Tn := 2 ^ T) in *.
  split; [exact Hn'|]. split; [exact Hs|]. split; [lia|]. split; [exact He0|].
  split; [destruct Hcase as [(-> & _)|(-> & _)]; lia|].
  intros Hi100. specialize (Herr ltac:(lia)). rewrite HP'.
  set (B := m0 * P) in *. replace (m0 * (10 * P)) with (10 * B) by (unfold B; lia).
  set (A := m * Tn) in *. set (E := Z.abs (A - B)) in *.
  (* the new unit U = 2^(e' - e0), the new computed value A' = m' * U *)
  assert (HU : exists U, 2 ^ (e' - e0) = U /\ 0 < U /\ Z.abs (m' * U - 10 * A) < U).
  { destruct Hcase as [(-> & Hc)|(-> & Hc)].
    - exists (8 * Tn). split; [replace (e + 3 - e0) with (3 + T) by (unfold T; lia); rewrite pow2_split by lia; reflexivity|].
      split; [lia|]. unfold A. replace (m' * (8 * Tn) - 10 * (m * Tn)) with (2 * (4 * m' - 5 * m) * Tn) by lia.
      rewrite Z.abs_mul, (Z.abs_eq Tn) by lia. nia.
    - exists (16 * Tn). split; [replace (e + 4 - e0) with (4 + T) by (unfold T; lia); rewrite pow2_split by lia; reflexivity|].
      split; [lia|]. unfold A. replace (m' * (16 * Tn) - 10 * (m * Tn)) with (2 * (8 * m' - 5 * m) * Tn) by lia.
      rewrite Z.abs_mul, (Z.abs_eq Tn) by lia. nia. }
  destruct HU as (U & -> & HU0 & HUerr).
  set (A' := m' * U) in *. set (E' := Z.abs (A' - 10 * B)).
  assert (HB : 0 <= B) by (unfold B; nia).
  assert (HiB : i * B <= 100 * B) by (apply Z.mul_le_mono_nonneg_r; lia).
  assert (HX1 : 256 * (hb C * U) <= A') by (unfold A'; nia).
  assert (HX6 : 16384 * U <= hb C * U) by nia.
  assert (HE0 : 0 <= E) by (unfold E; lia).
  assert (HY6 : 16384 * E <= hb C * E) by nia.
  assert (HE' : E' < U + 10 * E) by (unfold E', E in *; lia).
  assert (HA4 : A <= B + E) by (unfold E; lia).
  assert (HA'3 : A' < 10 * A + U) by lia.
  assert (Hhe : hb C * E' < hb C * (U + 10 * E)) by (apply Z.mul_lt_mono_pos_l; lia).
  set (X := hb C * U) in *. set (Y := hb C * E) in *.
  replace (254 * hb C * E') with (254 * (hb C * E')) by lia.
  replace (254 * hb C * E) with (254 * Y) in Herr by (unfold Y; lia).
  replace (hb C * (U + 10 * E)) with (X + 10 * Y) in Hhe by (unfold X, Y; lia).
  replace ((i + 1) * (10 * B)) with (10 * (i * B) + 10 * B) by lia.
  lia.
Qed.

Lemma minv_final e0 m0 n0 e m n k : 0 <= m0 -> minv e0 m0 n0 (e, m, n) k -> k <= 62 ->
  Z.abs (m * 2 ^ (e - e0) - m0 * 10 ^ k) < 128 * 2 ^ (e - e0).
Proof.
  unfold minv, den_norm. cbn [den_exp den_man den_neg fst snd].
  intros Hm0 (Hn & _ & Hk0 & _ & HT & Herr) Hk. specialize (Herr ltac:(lia)).
  pose proof (hb_pos C HC) as Hhb. destruct (hb_even C HC) as (_ & _ & Hh).
  assert (HP : 0 < 10 ^ k) by (apply Z.pow_pos_nonneg; lia).
  assert (HTn : 0 < 2 ^ (e - e0)) by (apply pow2_pos; lia).
  set (Tn := 2 ^ (e - e0)) in *. set (B := m0 * 10 ^ k) in *. set (E := Z.abs (m * Tn - B)) in *.
  assert (HB : 0 <= B) by (unfold B; nia).
  assert (HkB : k * B <= 62 * B) by (apply Z.mul_le_mono_nonneg_r; lia).
  assert (HE0 : 0 <= E) by (unfold E; lia).
  assert (HB2 : B <= m * Tn + E) by (unfold E; lia).
  assert (HA : m * Tn <= 512 * (hb C * Tn)) by nia.
  assert (HY6 : 16384 * E <= hb C * E) by nia.
  assert (HW : 0 < hb C * Tn) by nia.
  assert (Hgoal : hb C * E < hb C * (128 * Tn)).
  { set (Y := hb C * E) in *. set (W := hb C * Tn) in *.
    replace (254 * hb C * E) with (254 * Y) in Herr by (unfold Y; lia).
    replace (hb C * (128 * Tn)) with (128 * W) by (unfold W; lia). lia. }
  apply Z.mul_lt_mono_pos_l in Hgoal; [exact Hgoal | exact Hhb].
Qed.

Theorem from_decimal_mul_err mant (k : nat) b : mant <> 0 -> Z.abs mant < 2 ^ mbits C -> Z.of_nat k <= 62 ->
  mbf_from_decimal C (zeros (c_size C)) mant (Z.of_nat k) = Ok b ->
  buf_ok C b /\ f_zero b = false /\
  Z.abs (f_sval C b - mant * 10 ^ Z.of_nat k * 2 ^ c_bias C) < 2 ^ f_exp b.
Proof.
  intros Hm0 Hfit Hk Hfd. pose proof (mbits_ge C HC) as Hg. pose proof (mbits_le C HC) as Hl.
  pose proof (hb_pos C HC) as Hhb.
  assert (Hz : zlen (zeros (c_size C)) = c_size C).
  { unfold zeros, zlen. rewrite repeat_length. pose proof (ok_size C HC). lia. }
  assert (H127 : Z.abs mant < 2 ^ 127) by (assert (2 ^ mbits C <= 2 ^ 127) by (apply pow2_le; lia); lia).
  destruct (from_int_exact C (zeros (c_size C)) mant (Z.abs mant) 0 HC Hz) as (b1 & Hfi & Hb1 & Hv1);
    [change (2 ^ 0) with 1; lia | lia | lia | exact H127 |].
  unfold mbf_from_decimal in Hfd. rewrite Hfi in Hfd. cbn [bind] in Hfd.
  destruct (Z.eqb_spec mant 0) as [|_]; [contradiction|].
  rewrite (denormalise_spec C b1 HC Hb1) in Hfd.
  assert (Hpb : 0 < 2 ^ c_bias C) by (apply pow2_pos; rewrite (ok_bias C HC); lia).
  assert (Hnz1 : f_zero b1 = false).
  { destruct (f_zero b1) eqn:E; [|reflexivity]. unfold f_sval in Hv1. rewrite E in Hv1. nia. }
  pose proof (f_man_bound C b1 HC) as Hfm. pose proof (f_exp_bound C b1 HC Hb1) as Hfe.
  rewrite (pow2_pred (mbits C)) in Hfm by lia. fold (hb C) in Hfm.
  assert (Hfe1 : 1 <= f_exp b1) by (unfold f_zero in Hnz1; apply Z.eqb_neq in Hnz1; lia).
  set (e0 := f_exp b1) in *. set (fm0 := f_man C b1) in *. set (n0 := f_neg C b1) in *.
  (* the dividing loop does not run *)
  replace (Z.to_nat (Z.abs (Z.of_nat k))) with k in Hfd by lia.
  rewrite loop105_S in Hfd. destruct (Z.ltb_spec (Z.of_nat k) 0) as [|_]; [lia|].
  cbn [bind] in Hfd. cbv beta iota in Hfd.
  replace (Z.to_nat (Z.abs (Z.of_nat k))) with k in Hfd by lia.
  assert (HI0 : minv e0 (256 * fm0) n0 (e0, 256 * fm0, n0) 0).
  { unfold minv, den_norm. cbn [den_exp den_man den_neg fst snd]. rewrite Z.sub_diag. change (10 ^ 0) with 1. change (2 ^ 0) with 1.
    repeat split; try lia. }
  assert (Hm0pos' : 0 <= 256 * fm0) by lia.
  destruct (loop106_inv (minv e0 (256 * fm0) n0) b1 mant (fun den i => minv_step e0 (256 * fm0) n0 den i Hm0pos')
              k (S k) _ 0 ltac:(lia) HI0) as (dk & Hl6 & HIk).
  rewrite Hl6 in Hfd. cbn [bind] in Hfd. cbv beta iota in Hfd.
  destruct dk as [[ek mk] nk]. rewrite Z.add_0_l in HIk.
  pose proof HIk as (Hnk & Hsk & _ & _ & HTk & _). cbn [den_exp den_man den_neg fst snd] in Hnk, Hsk, HTk.
  assert (Hm0pos : 0 <= 256 * fm0) by lia.
  pose proof (minv_final e0 (256 * fm0) n0 ek mk nk (Z.of_nat k) Hm0pos HIk Hk) as Hdef.
  destruct (mbf_normalise C b1 ek mk nk) as [b'| | |] eqn:Hnorm; cbn [bind] in Hfd; try discriminate.
  injection Hfd as ->.
  destruct Hb1 as [Hlen1 Hbytes1].
  destruct (normalise_den ek mk nk b1 Hnk ltac:(lia) Hlen1 b Hnorm) as (r & Hr & Hb & Hnz & Hnegb & Heb & Hrb).
  split; [exact Hb|]. split; [exact Hnz|].
  unfold f_sval in *. rewrite Hnz, Hnegb. rewrite Hnz1 in Hv1. fold e0 fm0 n0 in Hv1. subst nk.
  set (P := 10 ^ Z.of_nat k) in *. assert (HP : 0 < P) by (apply Z.pow_pos_nonneg; lia).
  set (T := ek - e0) in *. assert (HT : 0 <= T) by lia.
  set (c := f_exp b - ek) in *. assert (Hc : 0 <= c <= 1) by lia.
  assert (Heb' : 2 ^ f_exp b = 2 ^ c * 2 ^ T * 2 ^ e0).
  { rewrite <- !pow2_split by lia. f_equal. unfold c, T. lia. }
  assert (Hpe0 : 0 < 2 ^ e0) by (apply pow2_pos; lia).
  assert (Hpc : 1 <= 2 ^ c) by (pose proof (pow2_pos c ltac:(lia)); lia).
  assert (HTn : 0 < 2 ^ T) by (apply pow2_pos; lia).
  set (Tn := 2 ^ T) in *. set (E0 := 2 ^ e0) in *. set (Cn := 2 ^ c) in *.
  replace (mant * P * 2 ^ c_bias C) with (mant * 2 ^ c_bias C * P) by lia. rewrite <- Hv1, Heb'.
  assert (Hcore : Z.abs (r * Tn - fm0 * P) < Tn).
  { assert (H1 : Z.abs (256 * r * Tn - mk * Tn) <= 128 * Tn).
    { replace (256 * r * Tn - mk * Tn) with ((256 * r - mk) * Tn) by lia. rewrite Z.abs_mul, (Z.abs_eq Tn) by lia.
      apply Z.mul_le_mono_nonneg_r; lia. }
    assert (Z.abs (256 * (r * Tn - fm0 * P)) < 256 * Tn) by lia. lia. }
  destruct n0.
  - replace (-1 * f_man C b * (Cn * Tn * E0) - -1 * fm0 * E0 * P) with (- ((f_man C b * Cn * Tn - fm0 * P) * E0)) by lia.
    rewrite Z.abs_opp, Z.abs_mul, (Z.abs_eq E0) by lia. rewrite Hrb.
    assert (Z.abs (r * Tn - fm0 * P) * E0 < Tn * E0) by (apply Z.mul_lt_mono_pos_r; lia).
    assert (Tn * E0 <= Cn * Tn * E0) by nia. lia.
  - replace (1 * f_man C b * (Cn * Tn * E0) - 1 * fm0 * E0 * P) with ((f_man C b * Cn * Tn - fm0 * P) * E0) by lia.
    rewrite Z.abs_mul, (Z.abs_eq E0) by lia. rewrite Hrb.
    assert (Z.abs (r * Tn - fm0 * P) * E0 < Tn * E0) by (apply Z.mul_lt_mono_pos_r; lia).
    assert (Tn * E0 <= Cn * Tn * E0) by nia. lia.
Qed.

(* ------------------------------------------------------------------------------------------------ *)
(* the same accumulation for the dividing loop of to_decimal (printing): when the loop stops after j passes
   the den is below the exact value / 10^j by less than 128 units of its last guard bit *)

Lemma to_decimal_div_loop b texp tm tn bden : buf_ok C b -> f_zero b = false -> 100 <= texp <= 255 ->
  exists e1 m1 j,
    mbf_to_decimal_core_loop_103 1000 C b (c_lim_bot C) (c_lim_top C) (texp, tm, tn) bden (mbf_denormalise C b) 0
      = Ok ((e1, m1, f_neg C b), j) /\
    mbf_abs_gt_den C (e1, m1, f_neg C b) (texp, tm, tn) = false /\
    den_norm C m1 /\ 0 <= j <= 62 /\
    10 ^ j * m1 <= 256 * f_man C b * 2 ^ (f_exp b - e1) < 10 ^ j * m1 + 128 * 10 ^ j.
Proof.
  intros Hb Hz Ht. rewrite (denormalise_spec C b HC Hb).
  pose proof (f_man_bound C b HC) as Hfm. pose proof (f_exp_bound C b HC Hb) as Hfe.
  pose proof (mbits_ge C HC) as Hg. rewrite (pow2_pred (mbits C)) in Hfm by lia. fold (hb C) in Hfm.
  unfold f_zero in Hz. apply Z.eqb_neq in Hz.
  set (e0 := f_exp b) in *. set (m0 := 256 * f_man C b) in *. set (n0 := f_neg C b) in *.
  set (Inv := fun (d : Z * Z * bool) (x : Z) => dinv e0 m0 n0 d x /\ (x = 0 \/ texp - 4 <= den_exp d)).
  assert (Hstep : forall den x, Inv den x -> mbf_abs_gt_den C den (texp, tm, tn) = true ->
            exists den', mbf_div10_den C den = Ok den' /\ Inv den' (x + 1) /\ den_exp den' <= den_exp den - 3).
  { intros [[e m] n] x [HI _] Hgt. destruct (dinv_step e0 m0 n0 _ x HI) as (den' & Hd & HI').
    exists den'. split; [exact Hd|]. pose proof HI as (Hn & _).
    cbn [den_man fst snd] in Hn. destruct (div10_spec C HC Hten e m n Hn) as (e' & m' & Hd' & _ & Hcase).
    rewrite Hd in Hd'. injection Hd' as ->. cbn [den_exp fst].
    rewrite abs_gt_den_spec in Hgt.
    assert (texp <= e) by (destruct (Z.ltb_spec texp e), (Z.eqb_spec texp e); cbn in Hgt; try discriminate; lia).
    split; [split; [exact HI' | right; cbn [den_exp fst]; lia] | lia]. }
  assert (HI0 : Inv (e0, m0, n0) 0).
  { split; [|left; reflexivity]. unfold dinv, den_norm, m0. cbn [den_exp den_man den_neg fst snd].
    rewrite Z.sub_diag. change (10 ^ 0) with 1. change (2 ^ 0) with 1.
    assert (0 <= chi (256 * f_man C b)) by (unfold chi; destruct (409 * hb C <=? 256 * f_man C b); lia).
    repeat split; try lia. intros _. nia. }
  destruct (loop103_inv C texp Inv b (c_lim_bot C) (c_lim_top C) bden tm tn Hstep 90 1000 _ 0 ltac:(lia) HI0)
    as (d1 & j & Hl & [HI1 Hlow] & Hgt1).
  { cbn [den_exp fst]. lia. }
  destruct d1 as [[e1 m1] n1]. pose proof HI1 as (Hn1 & Hs1 & Hj0 & HT1 & _). cbn [den_exp den_man den_neg fst snd] in *.
  subst n1. exists e1, m1, j. split; [exact Hl|]. split; [exact Hgt1|]. split; [exact Hn1|].
  assert (Hj : j <= 62) by (destruct Hlow as [->|Hlow]; lia).
  split; [lia|]. destruct (dinv_final e0 m0 n0 e1 m1 n0 j HI1 Hj) as [H1 H2]. lia.
Qed.

End Accum.
