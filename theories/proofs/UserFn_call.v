(* C20: the whole call - the argument loop, the saving of the shadowed variables and the binding loop composed:
   when the body starts, every parameter holds the value its argument was converted to. *)
From Coq Require Import ZArith List Bool Lia.
From PCB Require Import lib.Result lib.PyInt model.StrSpace model.UserFn
     proofs.StrSpace_base proofs.StrSpace_gc proofs.StrSpace_inv proofs.StrSpace_ops proofs.UserFn_proofs proofs.UserFn_stmt
     proofs.UserFn_binding.
Import ListNotations.
Open Scope Z_scope.

Section CallBinding.
Variable c : cfg.
Notation D := (ONum 0 0).

(* temp_values grew by n entries on top; every old entry is still there, relocated at most *)
Definition ext (s s' : state) (n : nat) : Prop :=
  length (tvals s') = (n + length (tvals s))%nat /\
  forall j, (j < length (tvals s))%nat -> RO c s s' (nth j (tvals s) D) (nth (n + j) (tvals s') D).

Lemma ext_rel X s s' : RelX c X s s' -> ext s s' 0.
Proof.
  intros R. pose proof (r_tvals _ _ _ _ R) as H. split.
  - simpl. symmetry. exact (Forall2_length _ _ _ H).
  - intros j _. simpl. apply Forall2_nth_RO, H.
Qed.

Lemma ext_push s s1 n o : ext s s1 n -> ext s (tv_push s1 o) (S n).
Proof.
  intros [L H]. split; [simpl; rewrite L; reflexivity|].
  intros j Hj. simpl. eapply RO_states; [| | | |apply H, Hj]; reflexivity.
Qed.

Lemma ext_trans a b d n m : ext a b n -> ext b d m -> ext a d (m + n).
Proof.
  intros [L1 H1] [L2 H2]. split; [rewrite L2, L1; lia|].
  intros j Hj. eapply RO_trans; [apply H1, Hj|].
  replace (m + n + j)%nat with (m + (n + j))%nat by lia. apply H2. rewrite L1. lia.
Qed.

Lemma bind_params_jt : forall ps j k m s, Good c s -> Jt s -> Jt (fst (bind_params c ps j k m s)).
Proof.
  induction ps as [|n ps IH]; intros j k m s G J; cbn [bind_params]; [exact J|].
  destruct (j <? k)%nat; [|exact J].
  pose proof (set_scalar_good c s n (Some (VTmp (m + (k - 1 - j)))) G I) as H.
  destruct (set_scalar c s n (Some (VTmp (m + (k - 1 - j))))) as [s1 r1]. destruct H as (G1 & J1 & _).
  unfold bindR. destruct r1 as [[]|?|?|]; simpl; auto.
Qed.

Section WithParse.
Variable parse : expr -> state -> R obj.
Hypothesis Hparse : forall e st, Good c st -> Jt st -> EV c (obj_ok c) st (parse e st).

(* the i-th converted argument: typed for its parameter, and worth what the conversion produced *)
Definition arg_at (ps : list Z) (args : list expr) (s' : state) (i : nat) (p : Z) (e : obj) : Prop :=
  typed_for p e /\
  exists a s_a s_b v o, nth_error args i = Some a /\ parse a s_a = (s_b, Ok v) /\ Good c s_a /\
                        conv_arg p s_b v = Ok o /\ arg_val c s' e = arg_val c s_b o.

Lemma plain_of_typed p o : typed_for p o -> (exists q, o = OStr q) \/ (exists t z, o = ONum t z).
Proof. unfold typed_for. destruct (is_strname p); [left; assumption|right]. destruct H as (t & z & -> & _). eauto. Qed.

Lemma eval_args_trace : forall ps args s st1,
  Good c s -> Jt s -> eval_args parse ps args s = (st1, Ok tt) ->
  let n := Nat.min (length ps) (length args) in
  Good c st1 /\ Jt st1 /\ ext s st1 n /\
  forall i p, nth_error ps i = Some p -> (i < n)%nat -> arg_at ps args st1 i p (nth (n - 1 - i) (tvals st1) D).
Proof.
  induction ps as [|p ps IH]; intros args s st1 G J E.
  - simpl in E. inversion E; subst. simpl. split; [exact G|]. split; [exact J|]. split; [apply (ext_rel (fun _ => False)), RelX_refl|]. intros; lia.
  - destruct args as [|a args].
    + simpl in E. inversion E; subst. simpl. split; [exact G|]. split; [exact J|]. split; [apply (ext_rel (fun _ => False)), RelX_refl|]. intros; lia.
    + cbn [eval_args] in E.
      pose proof (Hparse a s G J) as Hp. unfold EV in Hp. destruct (parse a s) as [s1 r1] eqn:Ep.
      destruct Hp as (G1 & J1 & R1 & _ & Q1). unfold bindR in E.
      destruct r1 as [v|?|?|]; try discriminate.
      destruct (conv_arg p s1 v) as [o|?|?|] eqn:Ec; try discriminate.
      assert (Hoo : obj_ok c s1 o) by (eapply conv_arg_ok; eauto).
      assert (G2 : Good c (tv_push s1 o)) by (apply tv_push_good; assumption).
      assert (J2 : Jt (tv_push s1 o)) by (eapply Jt_containers; [|exact J1]; unfold tv_push; apply same_mem_set_tvals).
      specialize (IH args (tv_push s1 o) st1 G2 J2 E). cbv zeta in IH.
      set (n' := Nat.min (length ps) (length args)) in *.
      destruct IH as (G' & J' & X' & F').
      change (Nat.min (length (p :: ps)) (length (a :: args))) with (S n'). cbv zeta.
      split; [exact G'|]. split; [exact J'|].
      assert (X : ext s st1 (S n')).
      { replace (S n') with (n' + 1)%nat by lia. eapply ext_trans; [|exact X']. apply ext_push. eapply ext_rel, R1. }
      split; [exact X|].
      intros i q Hi Hlt. destruct i as [|i].
      * simpl in Hi. inversion Hi; subst q.
        replace (S n' - 1 - 0)%nat with (n' + 0)%nat by lia.
        destruct X' as [_ HX]. specialize (HX 0%nat). simpl in HX. specialize (HX (Nat.lt_0_succ _)).
        pose proof (conv_arg_typed _ _ _ _ Ec) as Hty.
        split; [eapply RO_typed; eauto|].
        exists a, s, s1, v, o. split; [reflexivity|]. split; [exact Ep|]. split; [exact G|]. split; [exact Ec|].
        rewrite (RO_arg_val c _ _ _ _ HX (plain_of_typed _ _ Hty)). destruct o; reflexivity.
      * simpl in Hi. replace (S n' - 1 - S i)%nat with (n' - 1 - i)%nat by lia.
        destruct (F' i q Hi) as (Hty & a0 & sa & sb & v0 & o0 & A1 & A2 & A3 & A4 & A5); [lia|].
        split; [exact Hty|]. exists a0, sa, sb, v0, o0. simpl. auto.
Qed.

Lemma save_params_ext : forall ps saved s s2,
  Good c s -> Jt s -> save_params c ps saved s = (s2, Ok tt) ->
  Good c s2 /\ Jt s2 /\ exists m, ext s s2 m.
Proof.
  induction ps as [|n ps IH]; intros saved s s2 G J E.
  - simpl in E. inversion E; subst. split; [exact G|]. split; [exact J|]. exists 0%nat. apply (ext_rel (fun _ => False)), RelX_refl.
  - cbn [save_params] in E.
    pose proof (alloc_scalar_good c s n G) as Ha.
    change (set_scalar c s n None) with (alloc_scalar c s n) in E.
    destruct (alloc_scalar c s n) as [s1 r1]. destruct Ha as (G1 & J1 & R1 & M1 & _). specialize (J1 J).
    unfold bindR in E. destruct r1 as [[]|?|?|]; try discriminate. specialize (M1 eq_refl).
    destruct (mem_z n saved).
    + destruct (IH saved s1 s2 G1 J1 E) as (G2 & J2 & m & X). split; [exact G2|]. split; [exact J2|].
      exists (m + 0)%nat. eapply ext_trans; [eapply ext_rel, R1|exact X].
    + unfold mem_key in M1. destruct (lookup n (scal s1)) as [v|] eqn:El; [|discriminate].
      set (e := match v with SStr p => OSaveS n p | SNum z => OSaveN n z end) in *.
      assert (Hok : obj_ok c s1 e).
      { unfold e. destruct v as [p|z]; simpl.
        - destruct (is_strname n) eqn:En.
          + destruct (g_scal _ _ G1 n _ El En) as (q & Eq & A & B). inversion Eq; subst. auto.
          + destruct (g_scal_num _ _ G1 n _ El En) as (z & Hz). discriminate.
        - destruct (is_strname n) eqn:En; [|reflexivity].
          destruct (g_scal _ _ G1 n _ El En) as (q & Eq & _). discriminate. }
      assert (G2 : Good c (tv_push s1 e)) by (apply tv_push_good; assumption).
      assert (J2 : Jt (tv_push s1 e)) by (eapply Jt_containers; [|exact J1]; unfold tv_push; apply same_mem_set_tvals).
      assert (E' : save_params c ps (n :: saved) (tv_push s1 e) = (s2, Ok tt)).
      { rewrite <- E. unfold e. destruct v; reflexivity. }
      destruct (IH (n :: saved) (tv_push s1 e) s2 G2 J2 E') as (G3 & J3 & m & X). split; [exact G3|]. split; [exact J3|].
      exists (m + 1)%nat. eapply ext_trans; [|exact X]. apply ext_push. eapply ext_rel, R1.
Qed.

(* the composed statement: from the caller's state to the start of the body *)
Theorem call_binding ps args st st1 st2 st3 :
  Good c st -> Jt st -> (length ps <= length args)%nat ->
  eval_args parse ps args st = (st1, Ok tt) ->
  save_params c ps [] st1 = (st2, Ok tt) ->
  bind_params c ps 0 (Nat.min (length ps) (length args)) (length (tvals st2) - length (tvals st1)) st2 = (st3, Ok tt) ->
  Good c st3 /\
  forall i p, nth_error ps i = Some p -> ~ In p (skipn (S i) ps) ->
    exists a s_a s_b v o, nth_error args i = Some a /\ parse a s_a = (s_b, Ok v) /\ Good c s_a /\
                          conv_arg p s_b v = Ok o /\ sval_of c st3 p = arg_val c s_b o.
Proof.
  intros G J Hlen E1 E2 E3.
  destruct (eval_args_trace ps args st st1 G J E1) as (G1 & J1 & X1 & F1). cbv zeta in *.
  set (k := Nat.min (length ps) (length args)) in *.
  assert (Hk : k = length ps) by (unfold k; lia).
  destruct (save_params_ext ps [] st1 st2 G1 J1 E2) as (G2 & J2 & m & X2).
  assert (Em : (length (tvals st2) - length (tvals st1))%nat = m) by (destruct X2 as [L _]; lia).
  rewrite Em in E3.
  pose proof (bind_params_rel c ps 0 k m st2 G2) as HR. rewrite E3 in HR. destruct HR as [G3 R3].
  split; [exact G3|].
  assert (Hidx : forall i, (i < k)%nat -> (k - 1 - i < length (tvals st1))%nat) by (destruct X1 as [L _]; intros; lia).
  assert (Hty2 : forall i p, nth_error ps i = Some p -> typed_for p (nth (m + (k - 1 - (0 + i))) (tvals st2) D)).
  { intros i p Hi. assert (Hlt : (i < k)%nat) by (rewrite Hk; apply nth_error_Some; congruence).
    destruct (F1 i p Hi Hlt) as [Hty _]. destruct X2 as [_ H2]. simpl.
    eapply RO_typed; [apply H2, Hidx, Hlt|exact Hty]. }
  intros i p Hi Hlast.
  assert (Hlt : (i < k)%nat) by (rewrite Hk; apply nth_error_Some; congruence).
  pose proof (bind_params_values c ps 0 k m st2 st3 G2 (ltac:(lia)) Hty2 E3 i p Hi Hlast) as Hv.
  destruct (F1 i p Hi Hlt) as (Hty & a & sa & sb & v & o & A1 & A2 & A3 & A4 & A5).
  exists a, sa, sb, v, o. split; [exact A1|]. split; [exact A2|]. split; [exact A3|]. split; [exact A4|].
  rewrite Hv. simpl.
  destruct X2 as [_ H2]. specialize (H2 _ (Hidx i Hlt)).
  pose proof (RO_typed c _ _ p _ _ H2 Hty) as Hty2'.
  pose proof (Forall2_nth_RO c _ _ _ _ (m + (k - 1 - i))%nat (r_tvals _ _ _ _ R3)) as H3.
  rewrite (RO_arg_val c _ _ _ _ H3 (plain_of_typed _ _ Hty2')).
  rewrite (RO_arg_val c _ _ _ _ H2 (plain_of_typed _ _ Hty)). exact A5.
Qed.

(* ... and stays bound while the body is evaluated (with the recursion flag of f set) *)
Theorem call_binding_body f body ps args st st1 st2 st3 :
  Good c st -> Jt st -> (length ps <= length args)%nat ->
  eval_args parse ps args st = (st1, Ok tt) ->
  save_params c ps [] st1 = (st2, Ok tt) ->
  bind_params c ps 0 (Nat.min (length ps) (length args)) (length (tvals st2) - length (tvals st1)) st2 = (st3, Ok tt) ->
  let st4 := set_active st3 (f :: active st3) in
  let '(st5, _) := parse body st4 in
  forall i p, nth_error ps i = Some p -> ~ In p (skipn (S i) ps) ->
    exists a s_a s_b v o, nth_error args i = Some a /\ parse a s_a = (s_b, Ok v) /\ Good c s_a /\
                          conv_arg p s_b v = Ok o /\ sval_of c st4 p = arg_val c s_b o /\ sval_of c st5 p = arg_val c s_b o.
Proof.
  intros G J Hlen E1 E2 E3. cbv zeta.
  destruct (call_binding ps args st st1 st2 st3 G J Hlen E1 E2 E3) as [G3 HB].
  destruct (eval_args_trace ps args st st1 G J E1) as (G1 & J1 & _).
  destruct (save_params_ext ps [] st1 st2 G1 J1 E2) as (G2 & J2 & _).
  pose proof (bind_params_jt ps 0 (Nat.min (length ps) (length args)) (length (tvals st2) - length (tvals st1)) st2 G2 J2) as J3.
  rewrite E3 in J3. simpl in J3.
  pose proof (Hparse body (set_active st3 (f :: active st3)) (Good_set_active c _ _ G3) J3) as H. unfold EV in H.
  destruct (parse body (set_active st3 (f :: active st3))) as [st5 r5]. destruct H as (_ & _ & R5 & _).
  intros i p Hi Hl. destruct (HB i p Hi Hl) as (a & sa & sb & v & o & A1 & A2 & A3 & A4 & A5).
  exists a, sa, sb, v, o. split; [exact A1|]. split; [exact A2|]. split; [exact A3|]. split; [exact A4|].
  assert (A6 : sval_of c (set_active st3 (f :: active st3)) p = arg_val c sb o) by exact A5.
  split; [exact A6|]. rewrite <- A6. apply (RelX_sval_other c (fun _ => False) _ _ p R5). tauto.
Qed.
End WithParse.
End CallBinding.
