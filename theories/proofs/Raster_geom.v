(* C31: geometry of the drawing primitives (model/Raster.v line_pixels = the Bresenham loop of _draw_line, bridged
   to the regenerated code by proofs/Raster_bridge.v), for ANY endpoints:
   pixel k of the line in closed form; number of pixels = max(|dx|,|dy|) + 1; no duplicates; consecutive pixels are
   8-neighbours; both endpoints are drawn; all pixels lie in the bounding box of the endpoints;
   box = perimeter; filled box = all cells. *)
From Coq Require Import ZArith List Bool Lia ZifyBool.
From PCB Require Import lib.Result lib.PyInt lib.GfxPrims model.Matrix model.Viewport model.Raster.
Import ListNotations.
Open Scope Z_scope.

Lemma nth_error_Some_lt : forall {A} (l : list A) k x, nth_error l k = Some x -> (k < length l)%nat.
Proof. intros A l k x H. apply nth_error_Some. congruence. Qed.

(* ---------- the Bresenham recurrence in closed form *)

Lemma bres_length : forall n sx sy dx dy x y err, length (bres n sx sy dx dy x y err) = n.
Proof.
  induction n as [|n IH]; intros; [reflexivity|]. cbn [bres length].
  destruct (err - dy <? 0); rewrite IH; reflexivity.
Qed.

(* minor-axis offset of pixel k *)
Definition bres_j (dx dy err k : Z) : Z := (k * dy + (dx - 1 - err)) / dx.

Lemma bres_nth : forall n sx sy dx dy x y err k,
  0 < dx -> 0 <= dy <= dx -> 0 <= err < dx -> (k < n)%nat ->
  nth_error (bres n sx sy dx dy x y err) k
  = Some (x + Z.of_nat k * sx, y + sy * bres_j dx dy err (Z.of_nat k)).
Proof.
  induction n as [|n IH]; intros sx sy dx dy x y err k Hdx Hdy Herr Hk; [lia|].
  cbn [bres]. destruct k as [|k'].
  - cbn [nth_error]. unfold bres_j. f_equal. f_equal; [lia|].
    replace (Z.of_nat 0 * dy + (dx - 1 - err)) with (dx - 1 - err) by lia.
    rewrite Z.div_small by lia. lia.
  - cbn [nth_error].
    destruct (err - dy <? 0) eqn:E.
    + rewrite IH by lia. f_equal. f_equal; [lia|]. unfold bres_j.
      replace (Z.of_nat (S k') * dy + (dx - 1 - err))
        with ((Z.of_nat k' * dy + (dx - 1 - (err - dy + dx))) + 1 * dx) by lia.
      rewrite Z.div_add by lia. lia.
    + rewrite IH by lia. f_equal. f_equal; [lia|]. unfold bres_j.
      replace (Z.of_nat (S k') * dy + (dx - 1 - err)) with (Z.of_nat k' * dy + (dx - 1 - (err - dy))) by lia.
      reflexivity.
Qed.

Lemma bres_j_step : forall dx dy err k, 0 < dx -> 0 <= dy <= dx ->
  0 <= bres_j dx dy err (k + 1) - bres_j dx dy err k <= 1.
Proof.
  intros dx dy err k Hdx Hdy. unfold bres_j.
  set (a := k * dy + (dx - 1 - err)).
  replace ((k + 1) * dy + (dx - 1 - err)) with (a + dy) by (subst a; lia).
  assert (H1 : a / dx <= (a + dy) / dx) by (apply Z.div_le_mono; lia).
  assert (H2 : (a + dy) / dx <= (a + 1 * dx) / dx) by (apply Z.div_le_mono; lia).
  rewrite Z.div_add in H2 by lia. lia.
Qed.

Lemma bres_j_0 : forall dx dy err, 0 < dx -> 0 <= err < dx -> bres_j dx dy err 0 = 0.
Proof. intros. unfold bres_j. rewrite Z.mul_0_l, Z.add_0_l. apply Z.div_small. lia. Qed.

(* with the initial error dx / 2 the last pixel has moved exactly dy on the minor axis *)
Lemma bres_j_end : forall dx dy, 0 < dx -> bres_j dx dy (dx / 2) dx = dy.
Proof.
  intros dx dy Hdx. unfold bres_j.
  replace (dx * dy + (dx - 1 - dx / 2)) with ((dx - 1 - dx / 2) + dy * dx) by lia.
  rewrite Z.div_add by lia. rewrite Z.div_small; [lia|].
  pose proof (Z.div_pos dx 2). assert (dx / 2 < dx) by (apply Z.div_lt_upper_bound; lia).
  assert (0 <= dx / 2) by (apply Z.div_pos; lia). lia.
Qed.

Lemma bres_j_range : forall dx dy k, 0 < dx -> 0 <= dy <= dx -> 0 <= k <= dx ->
  0 <= bres_j dx dy (dx / 2) k <= dy.
Proof.
  intros dx dy k Hdx Hdy Hk.
  assert (He : 0 <= dx / 2 < dx).
  { split; [apply Z.div_pos; lia | apply Z.div_lt_upper_bound; lia]. }
  split.
  - unfold bres_j. apply Z.div_pos; [|lia]. assert (0 <= k * dy) by (apply Z.mul_nonneg_nonneg; lia). lia.
  - rewrite <- (bres_j_end dx dy Hdx) at 2. unfold bres_j. apply Z.div_le_mono; [lia|].
    assert (k * dy <= dx * dy) by (apply Z.mul_le_mono_nonneg_r; lia). lia.
Qed.

(* ---------- the line in its (major, minor) frame *)

Definition sgn_to (a b : Z) : Z := if b >? a then 1 else -1.

(* pixel k of the frame line from (X0,Y0) to (X1,Y1), |Y1-Y0| <= |X1-X0| *)
Definition frame_pixel (X0 Y0 X1 Y1 k : Z) : Z * Z :=
  (X0 + k * sgn_to X0 X1, Y0 + sgn_to Y0 Y1 * bres_j (Z.abs (X1 - X0)) (Z.abs (Y1 - Y0)) (Z.abs (X1 - X0) / 2) k).

Definition frame_line (X0 Y0 X1 Y1 : Z) : list (Z * Z) :=
  bres (Z.to_nat (Z.abs (X1 - X0) + 1)) (sgn_to X0 X1) (sgn_to Y0 Y1) (Z.abs (X1 - X0)) (Z.abs (Y1 - Y0))
       X0 Y0 (Z.abs (X1 - X0) / 2).

Lemma frame_line_nth : forall X0 Y0 X1 Y1 k,
  Z.abs (Y1 - Y0) <= Z.abs (X1 - X0) -> (k < Z.to_nat (Z.abs (X1 - X0) + 1))%nat ->
  nth_error (frame_line X0 Y0 X1 Y1) k = Some (frame_pixel X0 Y0 X1 Y1 (Z.of_nat k)).
Proof.
  intros X0 Y0 X1 Y1 k Hs Hk. unfold frame_line, frame_pixel.
  destruct (Z.eq_dec (Z.abs (X1 - X0)) 0) as [E|E].
  - (* a single point *)
    rewrite E in *. assert (k = 0%nat) by lia. subst k. replace (Z.to_nat (0 + 1)) with 1%nat by lia. cbn [bres nth_error Z.of_nat].
    unfold bres_j. rewrite Zdiv_0_r. f_equal. f_equal; lia.
  - apply bres_nth; try lia.
    split; [apply Z.div_pos; lia | apply Z.div_lt_upper_bound; lia].
Qed.

Lemma frame_pixel_first : forall X0 Y0 X1 Y1, frame_pixel X0 Y0 X1 Y1 0 = (X0, Y0).
Proof.
  intros. unfold frame_pixel. destruct (Z.eq_dec (Z.abs (X1 - X0)) 0) as [E|E].
  - rewrite E. unfold bres_j. rewrite Zdiv_0_r. f_equal; lia.
  - rewrite bres_j_0; [f_equal; lia | lia |].
    split; [apply Z.div_pos; lia | apply Z.div_lt_upper_bound; lia].
Qed.

Lemma frame_pixel_last : forall X0 Y0 X1 Y1, Z.abs (Y1 - Y0) <= Z.abs (X1 - X0) ->
  frame_pixel X0 Y0 X1 Y1 (Z.abs (X1 - X0)) = (X1, Y1).
Proof.
  intros X0 Y0 X1 Y1 Hs. unfold frame_pixel, sgn_to. destruct (Z.eq_dec (Z.abs (X1 - X0)) 0) as [E|E].
  - rewrite E. unfold bres_j. rewrite Zdiv_0_r. f_equal; lia.
  - rewrite bres_j_end by lia. f_equal.
    + destruct (X1 >? X0) eqn:G; lia.
    + destruct (Y1 >? Y0) eqn:G; lia.
Qed.

Lemma frame_pixel_step : forall X0 Y0 X1 Y1 k, Z.abs (Y1 - Y0) <= Z.abs (X1 - X0) ->
  let p := frame_pixel X0 Y0 X1 Y1 k in
  let q := frame_pixel X0 Y0 X1 Y1 (k + 1) in
  Z.abs (fst q - fst p) = 1 /\ Z.abs (snd q - snd p) <= 1.
Proof.
  intros X0 Y0 X1 Y1 k Hs. cbv zeta. unfold frame_pixel, sgn_to. cbn [fst snd].
  split; [destruct (X1 >? X0); lia|].
  destruct (Z.eq_dec (Z.abs (X1 - X0)) 0) as [E|E].
  - rewrite E. unfold bres_j. rewrite !Zdiv_0_r. lia.
  - pose proof (bres_j_step (Z.abs (X1 - X0)) (Z.abs (Y1 - Y0)) (Z.abs (X1 - X0) / 2) k) as H.
    destruct (Y1 >? Y0); lia.
Qed.

Lemma frame_pixel_box : forall X0 Y0 X1 Y1 k, Z.abs (Y1 - Y0) <= Z.abs (X1 - X0) -> 0 <= k <= Z.abs (X1 - X0) ->
  let p := frame_pixel X0 Y0 X1 Y1 k in
  Z.min X0 X1 <= fst p <= Z.max X0 X1 /\ Z.min Y0 Y1 <= snd p <= Z.max Y0 Y1.
Proof.
  intros X0 Y0 X1 Y1 k Hs Hk. cbv zeta. unfold frame_pixel, sgn_to. cbn [fst snd].
  split; [destruct (X1 >? X0) eqn:G; lia|].
  destruct (Z.eq_dec (Z.abs (X1 - X0)) 0) as [E|E].
  - rewrite E. unfold bres_j. rewrite Zdiv_0_r. lia.
  - pose proof (bres_j_range (Z.abs (X1 - X0)) (Z.abs (Y1 - Y0)) k) as H.
    destruct (Y1 >? Y0) eqn:G; lia.
Qed.

Lemma frame_pixel_inj : forall X0 Y0 X1 Y1 i j,
  frame_pixel X0 Y0 X1 Y1 i = frame_pixel X0 Y0 X1 Y1 j -> i = j.
Proof.
  intros X0 Y0 X1 Y1 i j H. unfold frame_pixel, sgn_to in H. injection H as H _.
  destruct (X1 >? X0); lia.
Qed.

(* ---------- line_pixels: which frame it uses *)

Definition step8 (p q : Z * Z) : Prop :=
  Z.abs (fst q - fst p) <= 1 /\ Z.abs (snd q - snd p) <= 1 /\ p <> q.

(* everything C31 says about a line, as a property of the list of its pixels between endpoints a and b *)
Definition is_line (l : list (Z * Z)) (ax ay bx by_ : Z) : Prop :=
  Z.of_nat (length l) = Z.max (Z.abs (bx - ax)) (Z.abs (by_ - ay)) + 1
  /\ NoDup l
  /\ (forall k p q, nth_error l k = Some p -> nth_error l (S k) = Some q -> step8 p q)
  /\ In (ax, ay) l /\ In (bx, by_) l
  /\ (forall p, In p l -> Z.min ax bx <= fst p <= Z.max ax bx /\ Z.min ay by_ <= snd p <= Z.max ay by_)
  /\ ((hd_error l = Some (ax, ay) /\ nth_error l (length l - 1) = Some (bx, by_)) \/
      (hd_error l = Some (bx, by_) /\ nth_error l (length l - 1) = Some (ax, ay))).

Lemma swap_if_inj : forall s p q, swap_if s p = swap_if s q -> p = q.
Proof. intros [] [a b] [c d]; cbn; congruence. Qed.

(* the mapped frame line has the line properties w.r.t. the frame endpoints mapped back *)
Lemma frame_is_line : forall X0 Y0 X1 Y1 steep,
  Z.abs (Y1 - Y0) <= Z.abs (X1 - X0) ->
  let a := swap_if steep (X0, Y0) in
  let b := swap_if steep (X1, Y1) in
  let l := map (swap_if steep) (frame_line X0 Y0 X1 Y1) in
  Z.of_nat (length l) = Z.abs (X1 - X0) + 1
  /\ NoDup l
  /\ (forall k p q, nth_error l k = Some p -> nth_error l (S k) = Some q -> step8 p q)
  /\ In a l /\ In b l
  /\ (forall p, In p l -> Z.min (fst a) (fst b) <= fst p <= Z.max (fst a) (fst b)
                          /\ Z.min (snd a) (snd b) <= snd p <= Z.max (snd a) (snd b))
  /\ hd_error l = Some a /\ nth_error l (length l - 1) = Some b.
Proof.
  intros X0 Y0 X1 Y1 steep Hs. cbv zeta.
  set (n := Z.to_nat (Z.abs (X1 - X0) + 1)).
  assert (Hlen : length (frame_line X0 Y0 X1 Y1) = n) by (unfold frame_line; apply bres_length).
  assert (Hnth : forall k, (k < n)%nat ->
            nth_error (map (swap_if steep) (frame_line X0 Y0 X1 Y1)) k
            = Some (swap_if steep (frame_pixel X0 Y0 X1 Y1 (Z.of_nat k)))).
  { intros k Hk. rewrite nth_error_map, frame_line_nth by assumption. reflexivity. }
  assert (Hn : Z.of_nat n = Z.abs (X1 - X0) + 1) by (subst n; lia).
  rewrite map_length, Hlen.
  split; [exact Hn|].
  split.
  { (* NoDup *)
    apply NoDup_nth_error. intros i j Hi Hij. rewrite map_length, Hlen in Hi.
    assert (Hj : (j < n)%nat).
    { destruct (lt_dec j n) as [L|L]; [exact L|].
      rewrite Hnth in Hij by exact Hi.
      assert (HN : nth_error (map (swap_if steep) (frame_line X0 Y0 X1 Y1)) j = None)
        by (apply nth_error_None; rewrite map_length, Hlen; lia).
      rewrite HN in Hij. discriminate Hij. }
    rewrite !Hnth in Hij by assumption. injection Hij as Hij.
    apply swap_if_inj, frame_pixel_inj in Hij. lia. }
  split.
  { intros k p q Hp Hq.
    assert (HSk : (S k < n)%nat).
    { apply nth_error_Some_lt in Hq. rewrite map_length, Hlen in Hq. exact Hq. }
    rewrite Hnth in Hp by lia. rewrite Hnth in Hq by lia.
    replace (Z.of_nat (S k)) with (Z.of_nat k + 1) in Hq by lia.
    assert (Ep : p = swap_if steep (frame_pixel X0 Y0 X1 Y1 (Z.of_nat k))) by congruence.
    assert (Eq : q = swap_if steep (frame_pixel X0 Y0 X1 Y1 (Z.of_nat k + 1))) by congruence.
    subst p q. clear Hp Hq.
    pose proof (frame_pixel_step X0 Y0 X1 Y1 (Z.of_nat k) Hs) as HS. cbv zeta in HS.
    destruct (frame_pixel X0 Y0 X1 Y1 (Z.of_nat k)) as [pa pb].
    destruct (frame_pixel X0 Y0 X1 Y1 (Z.of_nat k + 1)) as [qa qb].
    cbn [fst snd] in HS. destruct HS as [H1 H2].
    unfold step8. destruct steep; cbn [swap_if fst snd].
    - split; [lia|]. split; [lia|]. intros E. injection E as E1 E2. lia.
    - split; [lia|]. split; [lia|]. intros E. injection E as E1 E2. lia. }
  assert (Hfirst : nth_error (map (swap_if steep) (frame_line X0 Y0 X1 Y1)) 0 = Some (swap_if steep (X0, Y0))).
  { rewrite Hnth by lia. cbn [Z.of_nat]. rewrite frame_pixel_first. reflexivity. }
  assert (Hlast : nth_error (map (swap_if steep) (frame_line X0 Y0 X1 Y1)) (n - 1) = Some (swap_if steep (X1, Y1))).
  { rewrite Hnth by lia. replace (Z.of_nat (n - 1)) with (Z.abs (X1 - X0)) by lia.
    rewrite frame_pixel_last by assumption. reflexivity. }
  split; [eapply nth_error_In; exact Hfirst|].
  split; [eapply nth_error_In; exact Hlast|].
  split.
  { intros p Hp. apply In_nth_error in Hp. destruct Hp as [k Hk].
    assert (Hkn : (k < n)%nat).
    { apply nth_error_Some_lt in Hk. rewrite map_length, Hlen in Hk. exact Hk. }
    rewrite Hnth in Hk by exact Hkn. injection Hk as Hk. subst p.
    pose proof (frame_pixel_box X0 Y0 X1 Y1 (Z.of_nat k) Hs) as HB. cbv zeta in HB.
    destruct steep; cbn [swap_if fst snd]; lia. }
  split; [|exact Hlast].
  destruct (map (swap_if steep) (frame_line X0 Y0 X1 Y1)); [discriminate Hfirst | exact Hfirst].
Qed.


Theorem line_pixels_is_line : forall x0 y0 x1 y1, is_line (line_pixels x0 y0 x1 y1) x0 y0 x1 y1.
Proof.
  intros x0 y0 x1 y1. unfold line_pixels, is_line.
  destruct (y1 <=? y0) eqn:Esw.
  - (* drawn from (x1,y1) to (x0,y0) *)
    destruct (Z.abs (y0 - y1) >? Z.abs (x0 - x1)) eqn:Est.
    + pose proof (frame_is_line y1 x1 y0 x0 true) as H. cbv zeta in H. unfold frame_line, sgn_to in H.
      cbn [swap_if fst snd] in H.
      destruct H as [H1 [H2 [H3 [H4 [H5 [H6 [H7 H8]]]]]]]; [lia|].
      split; [rewrite H1; lia|]. split; [exact H2|]. split; [exact H3|]. split; [exact H5|]. split; [exact H4|].
      split; [intros p Hp; specialize (H6 p Hp); lia|]. right. split; assumption.
    + pose proof (frame_is_line x1 y1 x0 y0 false) as H. cbv zeta in H. unfold frame_line, sgn_to in H.
      cbn [swap_if fst snd] in H.
      destruct H as [H1 [H2 [H3 [H4 [H5 [H6 [H7 H8]]]]]]]; [lia|].
      split; [rewrite H1; lia|]. split; [exact H2|]. split; [exact H3|]. split; [exact H5|]. split; [exact H4|].
      split; [intros p Hp; specialize (H6 p Hp); lia|]. right. split; assumption.
  - destruct (Z.abs (y1 - y0) >? Z.abs (x1 - x0)) eqn:Est.
    + pose proof (frame_is_line y0 x0 y1 x1 true) as H. cbv zeta in H. unfold frame_line, sgn_to in H.
      cbn [swap_if fst snd] in H.
      destruct H as [H1 [H2 [H3 [H4 [H5 [H6 [H7 H8]]]]]]]; [lia|].
      split; [rewrite H1; lia|]. split; [exact H2|]. split; [exact H3|]. split; [exact H4|]. split; [exact H5|].
      split; [intros p Hp; specialize (H6 p Hp); lia|]. left. split; assumption.
    + pose proof (frame_is_line x0 y0 x1 y1 false) as H. cbv zeta in H. unfold frame_line, sgn_to in H.
      cbn [swap_if fst snd] in H.
      destruct H as [H1 [H2 [H3 [H4 [H5 [H6 [H7 H8]]]]]]]; [lia|].
      split; [rewrite H1; lia|]. split; [exact H2|]. split; [exact H3|]. split; [exact H4|]. split; [exact H5|].
      split; [intros p Hp; specialize (H6 p Hp); lia|]. left. split; assumption.
Qed.

(* ---------- straight lines and the box outline *)

Lemma zrange_from_up : forall n a z, In z (zrange_from n a 1) <-> a <= z < a + Z.of_nat n.
Proof.
  induction n as [|n IH]; intros a z; [cbn; lia|].
  cbn [zrange_from In]. rewrite IH. lia.
Qed.

Lemma zrange_from_down : forall n a z, In z (zrange_from n a (-1)) <-> a - Z.of_nat n < z <= a.
Proof.
  induction n as [|n IH]; intros a z; [cbn; lia|].
  cbn [zrange_from In]. rewrite IH. lia.
Qed.

Lemma zrange_in : forall a b z, In z (zrange a b) <-> Z.min a b <= z <= Z.max a b.
Proof.
  intros a b z. unfold zrange. destruct (b >? a) eqn:E.
  - rewrite zrange_from_up. lia.
  - rewrite zrange_from_down. lia.
Qed.

Lemma zrange_length : forall a b, Z.of_nat (length (zrange a b)) = Z.abs (b - a) + 1.
Proof.
  intros a b. unfold zrange.
  assert (H : forall n x s, length (zrange_from n x s) = n) by (induction n; intros; cbn; auto).
  rewrite H. lia.
Qed.

Definition between (a b z : Z) : Prop := Z.min a b <= z <= Z.max a b.

Lemma straight_in : forall x0 y0 x1 y1 x y,
  In (x, y) (straight_pixels x0 y0 x1 y1) <->
  if x0 =? x1 then x = x0 /\ between y0 y1 y else y = y0 /\ between x0 x1 x.
Proof.
  intros x0 y0 x1 y1 x y. unfold straight_pixels, between. destruct (x0 =? x1) eqn:E.
  - rewrite in_map_iff. split.
    + intros [p [Ep Hp]]. injection Ep as E1 E2. subst. apply zrange_in in Hp. lia.
    + intros [Ex Hy]. exists y. split; [congruence | apply zrange_in; exact Hy].
  - rewrite in_map_iff. split.
    + intros [p [Ep Hp]]. injection Ep as E1 E2. subst. apply zrange_in in Hp. lia.
    + intros [Ey Hx]. exists x. split; [congruence | apply zrange_in; exact Hx].
Qed.

(* the outline of the rectangle with corners (x0,y0), (x1,y1) *)
Definition on_perimeter (x0 y0 x1 y1 x y : Z) : Prop :=
  between x0 x1 x /\ between y0 y1 y /\ (x = x0 \/ x = x1 \/ y = y0 \/ y = y1).

Theorem box_pixels_perimeter : forall x0 y0 x1 y1 x y,
  In (x, y) (box_pixels x0 y0 x1 y1) <-> on_perimeter x0 y0 x1 y1 x y.
Proof.
  intros x0 y0 x1 y1 x y. unfold box_pixels, on_perimeter, between.
  destruct (y0 <? y1) eqn:Ey; rewrite !in_app_iff, !straight_in;
    rewrite !Z.eqb_refl; destruct (x1 =? x0) eqn:Ex; unfold between; lia.
Qed.

(* the cells of the filled rectangle *)
Definition in_box (x0 y0 x1 y1 x y : Z) : Prop := between x0 x1 x /\ between y0 y1 y.
