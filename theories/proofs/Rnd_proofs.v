(* C39: proofs about the random number generator model (model/Rnd.v over gen/Gen_rnd.v) *)
From Coq Require Import ZArith NArith List Bool Lia ZifyBool QArith Znumtheory.
From PCB Require Import lib.Result lib.PyInt gen.Gen_rnd model.Rnd.
Import ListNotations.
Open Scope Z_scope.

Definition M : Z := 16777216.          (* 2^24 *)
Lemma M_pow : M = 2 ^ 24. Proof. reflexivity. Qed.
Lemma M_pos : 0 < M. Proof. reflexivity. Qed.
Lemma M_nz : M <> 0. Proof. discriminate. Qed.
Definition in_range (s : Z) : Prop := 0 <= s < M.

(* a fact about the REGENERATED constant: the modulus is 2^24 *)
Lemma period_is_M : rnd_period = M.
Proof. reflexivity. Qed.

(* ------------------------------------------------------------------ *)
(* affine maps x -> (A x + C) mod M, represented by (A, C)            *)

Definition app (p : Z * Z) (x : Z) : Z := (fst p * x + snd p) mod M.
Definition sq (p : Z * Z) : Z * Z :=
  ((fst p * fst p) mod M, (fst p * snd p + snd p) mod M).
Fixpoint sqn (j : nat) (p : Z * Z) : Z * Z :=
  match j with O => p | S j' => sq (sqn j' p) end.

(* the generator step is the affine map given by the regenerated multiplier and increment *)
Definition P0 : Z * Z := (rnd_multiplier, rnd_increment).

Lemma cycle_app s : rnd_cycle s = app P0 s.
Proof.
  unfold rnd_cycle, app, P0. cbn [fst snd]. rewrite period_is_M. f_equal. ring.
Qed.

Lemma app_range p x : in_range (app p x).
Proof. unfold app, in_range. apply Z.mod_pos_bound. exact M_pos. Qed.

Lemma app_sq p x : app p (app p x) = app (sq p) x.
Proof.
  destruct p as [A C]. unfold app, sq. cbn [fst snd].
  transitivity ((A * (A * x + C) + C) mod M).
  - rewrite <- (Z.add_mod_idemp_l (A * ((A * x + C) mod M))) by exact M_nz.
    rewrite Z.mul_mod_idemp_r by exact M_nz.
    rewrite Z.add_mod_idemp_l by exact M_nz. reflexivity.
  - rewrite Z.add_mod_idemp_r by exact M_nz.
    rewrite <- (Z.add_mod_idemp_l ((A * A) mod M * x)) by exact M_nz.
    rewrite Z.mul_mod_idemp_l by exact M_nz.
    rewrite Z.add_mod_idemp_l by exact M_nz. f_equal. ring.
Qed.

(* 2^j-fold iteration of an affine map is the j-fold squared map *)
Lemma iter_pow2 p j : forall x,
  N.iter (2 ^ N.of_nat j) (app p) x = app (sqn j p) x.
Proof.
  induction j as [|j IH]; intros x.
  - reflexivity.
  - rewrite Nat2N.inj_succ, N.pow_succ_r'.
    replace (2 * 2 ^ N.of_nat j)%N with (2 ^ N.of_nat j + 2 ^ N.of_nat j)%N by lia.
    rewrite N.iter_add, !IH. cbn [sqn]. apply app_sq.
Qed.

Lemma iter_mul {A} (f : A -> A) (n : N) : forall (q : N) x,
  N.iter (q * n) f x = N.iter q (N.iter n f) x.
Proof.
  intros q. induction q as [|q IH] using N.peano_ind; intros x.
  - reflexivity.
  - rewrite N.mul_succ_l, N.add_comm, N.iter_add, IH, N.iter_succ. reflexivity.
Qed.

(* ------------------------------------------------------------------ *)
(* decomposition k = 2^j * odd                                         *)

Fixpoint tz (p : positive) : nat := match p with xO p' => S (tz p') | _ => O end.
Fixpoint oddp (p : positive) : positive := match p with xO p' => oddp p' | _ => p end.

Lemma decomp p : N.pos p = (N.pos (oddp p) * 2 ^ N.of_nat (tz p))%N.
Proof.
  induction p as [p IH|p IH|]; cbn [tz oddp].
  - change (2 ^ N.of_nat 0)%N with 1%N. lia.
  - rewrite Nat2N.inj_succ, N.pow_succ_r'.
    change (N.pos p~0) with (2 * N.pos p)%N. rewrite IH at 1. lia.
  - reflexivity.
Qed.

Lemma oddp_odd p : exists r, Z.of_N (N.pos (oddp p)) = 2 * r + 1 /\ 0 <= r.
Proof.
  induction p as [p IH|p IH|]; cbn [oddp].
  - exists (Z.pos p). split; [reflexivity | lia].
  - exact IH.
  - exists 0. split; [reflexivity | lia].
Qed.

Lemma tz_bound p : (N.pos p < 2 ^ 24)%N -> (tz p < 24)%nat.
Proof.
  intros H. rewrite (decomp p) in H.
  assert (Hq : (1 <= N.pos (oddp p))%N) by lia.
  assert (Hp : (2 ^ N.of_nat (tz p) < 2 ^ 24)%N) by nia.
  apply N.pow_lt_mono_r_iff in Hp; lia.
Qed.

(* ------------------------------------------------------------------ *)
(* an affine map (A, C) with A = 1, C = 2^j modulo 2^(j+1) moves every point,
   and so does each odd power of it                                    *)

Section odd_power.
  Variable j : Z.
  Variable A C : Z.
  Hypothesis Hj : 0 <= j < 24.
  Hypothesis HA : A mod 2 ^ (j + 1) = 1.
  Hypothesis HC : C mod 2 ^ (j + 1) = 2 ^ j.

  Let D := 2 ^ (j + 1).
  Let h := 2 ^ j.

  Lemma D_eq : D = 2 * h.
  Proof. unfold D, h. replace (j + 1) with (Z.succ j) by lia. rewrite Z.pow_succ_r by lia. reflexivity. Qed.
  Lemma h_pos : 0 < h.
  Proof. unfold h. apply Z.pow_pos_nonneg; lia. Qed.
  Lemma D_pos : 0 < D.
  Proof. rewrite D_eq. pose proof h_pos. lia. Qed.
  Lemma D_div_M : (D | M).
  Proof.
    exists (2 ^ (24 - (j + 1))). rewrite M_pow. unfold D.
    rewrite <- Z.pow_add_r by lia. f_equal. lia.
  Qed.

  Lemma step_mod y : (app (A, C) y) mod D = (y + h) mod D.
  Proof.
    unfold app. cbn [fst snd].
    rewrite <- (Zmod_div_mod D M) by (auto using D_pos, M_pos, D_div_M).
    rewrite Z.add_mod by (pose proof D_pos; lia).
    rewrite Z.mul_mod by (pose proof D_pos; lia).
    fold D in HA, HC. rewrite HA, HC. fold h.
    rewrite Z.mul_1_l, Z.mod_mod by (pose proof D_pos; lia).
    rewrite Z.add_mod_idemp_l by (pose proof D_pos; lia). reflexivity.
  Qed.

  Lemma iter_mod (q : N) : forall x,
    (N.iter q (app (A, C)) x) mod D = (x + Z.of_N q * h) mod D.
  Proof.
    induction q as [|q IH] using N.peano_ind; intros x.
    - cbn [N.iter]. f_equal. cbn. lia.
    - rewrite N.iter_succ, step_mod.
      rewrite <- Z.add_mod_idemp_l by (pose proof D_pos; lia).
      rewrite IH. rewrite Z.add_mod_idemp_l by (pose proof D_pos; lia).
      f_equal. rewrite N2Z.inj_succ. lia.
  Qed.

  Lemma odd_iter_moves (q : N) r x :
    Z.of_N q = 2 * r + 1 -> N.iter q (app (A, C)) x <> x.
  Proof.
    intros Hq Heq.
    pose proof (iter_mod q x) as Hm. rewrite Heq, Hq in Hm.
    replace (x + (2 * r + 1) * h) with (x + h + r * D) in Hm by (rewrite D_eq; ring).
    rewrite Z.mod_add in Hm by (pose proof D_pos; lia).
    pose proof h_pos as Hh. pose proof D_eq as HD.
    (* x mod D = (x + h) mod D  with D = 2h, h > 0: impossible *)
    pose proof (Z.mod_pos_bound x D D_pos) as B1.
    pose proof (Z.mod_pos_bound (x + h) D D_pos) as B2.
    pose proof (Z.div_mod x D ltac:(pose proof D_pos; lia)) as E1.
    pose proof (Z.div_mod (x + h) D ltac:(pose proof D_pos; lia)) as E2.
    rewrite <- Hm in E2.
    assert (E3 : h = D * ((x + h) / D - x / D)) by lia.
    rewrite HD in E3.
    assert (E4 : 1 = 2 * ((x + h) / D - x / D)) by nia.
    lia.
  Qed.
End odd_power.

(* ------------------------------------------------------------------ *)
(* the 25 facts about the regenerated constants, by computation        *)

Definition pow2_ok (j : nat) : bool :=
  let p := sqn j P0 in
  (fst p mod 2 ^ (Z.of_nat j + 1) =? 1) && (snd p mod 2 ^ (Z.of_nat j + 1) =? 2 ^ Z.of_nat j).

Lemma pow2_sweep : forallb pow2_ok (seq 0 24) = true.
Proof. vm_compute. reflexivity. Qed.

Lemma pow2_24 : sqn 24 P0 = (1, 0).
Proof. vm_compute. reflexivity. Qed.

Lemma pow2_facts j : (j < 24)%nat ->
  fst (sqn j P0) mod 2 ^ (Z.of_nat j + 1) = 1 /\
  snd (sqn j P0) mod 2 ^ (Z.of_nat j + 1) = 2 ^ Z.of_nat j.
Proof.
  intros Hj. pose proof pow2_sweep as H. rewrite forallb_forall in H.
  specialize (H j). unfold pow2_ok in H.
  assert (Hin : In j (seq 0 24)) by (apply in_seq; lia).
  apply H in Hin. apply andb_true_iff in Hin as [H1 H2].
  apply Z.eqb_eq in H1, H2. split; assumption.
Qed.

(* ------------------------------------------------------------------ *)
(* FULL PERIOD                                                         *)

Lemma iter_cycle_app k s : iter_cycle k s = N.iter k (app P0) s.
Proof.
  unfold iter_cycle. revert s. induction k as [|k IH] using N.peano_ind; intros s.
  - reflexivity.
  - rewrite !N.iter_succ, IH. apply cycle_app.
Qed.

Lemma full_period_returns s : in_range s -> iter_cycle (2 ^ 24) s = s.
Proof.
  intros Hs. rewrite iter_cycle_app.
  change (2 ^ 24)%N with (2 ^ N.of_nat 24)%N.
  rewrite iter_pow2, pow2_24. unfold app. cbn [fst snd].
  rewrite Z.mul_1_l, Z.add_0_r. apply Z.mod_small. exact Hs.
Qed.

Lemma full_period_no_early_return s k :
  (0 < k < 2 ^ 24)%N -> iter_cycle k s <> s.
Proof.
  intros Hk. destruct k as [|p]; [lia|].
  rewrite iter_cycle_app.
  pose proof (tz_bound p ltac:(lia)) as Hj.
  destruct (oddp_odd p) as [r [Hr _]].
  rewrite (decomp p), iter_mul.
  assert (Hf : forall x, N.iter (2 ^ N.of_nat (tz p)) (app P0) x = app (sqn (tz p) P0) x)
    by (intros x; apply iter_pow2).
  destruct (pow2_facts (tz p) Hj) as [HA HC].
  destruct (sqn (tz p) P0) as [A C] eqn:EP. cbn [fst snd] in HA, HC.
  assert (Hext : forall q x, N.iter q (N.iter (2 ^ N.of_nat (tz p)) (app P0)) x
                           = N.iter q (app (A, C)) x).
  { intros q. induction q as [|q IH] using N.peano_ind; intros x.
    - reflexivity.
    - rewrite !N.iter_succ, IH. apply Hf. }
  rewrite Hext.
  apply (odd_iter_moves (Z.of_nat (tz p)) A C ltac:(lia) HA HC _ r). exact Hr.
Qed.

Theorem full_period s : in_range s ->
  (forall k, (0 < k < 2 ^ 24)%N -> iter_cycle k s <> s) /\ iter_cycle (2 ^ 24) s = s.
Proof.
  intros Hs. split.
  - intros k Hk. apply full_period_no_early_return. exact Hk.
  - apply full_period_returns. exact Hs.
Qed.

(* consequence: the 2^24 states iter_cycle k s, 0 <= k < 2^24, are pairwise different
   (so the orbit of every state is the whole range) *)
Lemma iter_cycle_add a b s : iter_cycle (a + b) s = iter_cycle a (iter_cycle b s).
Proof. unfold iter_cycle. apply N.iter_add. Qed.

Lemma iter_cycle_range k s : in_range s -> in_range (iter_cycle k s).
Proof.
  intros Hs. unfold iter_cycle. apply N.iter_invariant; [|exact Hs].
  intros x _. rewrite cycle_app. apply app_range.
Qed.

Lemma cycle_injective x y : in_range x -> in_range y -> rnd_cycle x = rnd_cycle y -> x = y.
Proof.
  intros Hx Hy H.
  assert (E : iter_cycle (2 ^ 24 - 1) (rnd_cycle x) = iter_cycle (2 ^ 24 - 1) (rnd_cycle y))
    by (rewrite H; reflexivity).
  assert (S : forall z, iter_cycle (2 ^ 24 - 1) (rnd_cycle z) = iter_cycle (2 ^ 24) z).
  { intros z. change (rnd_cycle z) with (iter_cycle 1 z). rewrite <- iter_cycle_add. reflexivity. }
  rewrite !S, !full_period_returns in E by assumption. exact E.
Qed.

Lemma iter_cycle_injective k : forall x y, in_range x -> in_range y ->
  iter_cycle k x = iter_cycle k y -> x = y.
Proof.
  induction k as [|k IH] using N.peano_ind; intros x y Hx Hy H.
  - exact H.
  - unfold iter_cycle in H. rewrite !N.iter_succ in H. fold (iter_cycle k x) in H.
    fold (iter_cycle k y) in H.
    apply cycle_injective in H; try (apply iter_cycle_range; assumption).
    apply IH; assumption.
Qed.

Theorem orbit_distinct s i k : in_range s ->
  (i < k < 2 ^ 24)%N -> iter_cycle i s <> iter_cycle k s.
Proof.
  intros Hs Hik Heq.
  replace k with (i + (k - i))%N in Heq by lia.
  rewrite iter_cycle_add in Heq.
  apply iter_cycle_injective in Heq; [|assumption|apply iter_cycle_range; assumption].
  symmetry in Heq. revert Heq. apply full_period_no_early_return. lia.
Qed.

(* ------------------------------------------------------------------ *)
(* range invariant                                                     *)

Lemma cycle_range s : in_range (rnd_cycle s).
Proof. rewrite cycle_app. apply app_range. Qed.

Lemma reseed_tail_range s n : in_range (rnd_reseed_tail s n).
Proof.
  unfold rnd_reseed_tail, in_range. rewrite period_is_M. apply Z.mod_pos_bound. exact M_pos.
Qed.

Lemma clear_const s1 s2 : rnd_clear s1 = rnd_clear s2.
Proof. reflexivity. Qed.

Lemma clear_range s : in_range (rnd_clear s).
Proof. unfold in_range. vm_compute. split; [discriminate | reflexivity]. Qed.

Lemma seed0_range : in_range seed0.
Proof. apply clear_range. Qed.

Lemma rnd_fn_seed_range s arg : in_range s ->
  match rnd_fn s arg with Ok (s', _) => in_range s' | _ => True end.
Proof.
  intros Hs. destruct arg as [v|]; cbn [rnd_fn].
  - destruct (to_single v) as [f| | |]; cbn [bind]; try exact I.
    destruct (sng_is_zero f); [exact Hs | apply cycle_range].
  - apply cycle_range.
Qed.

Lemma draws_range args : forall s, in_range s -> in_range (fst (draws s args)).
Proof.
  induction args as [|a r IH]; intros s Hs; cbn [draws]; [exact Hs|].
  pose proof (rnd_fn_seed_range s a Hs) as H.
  destruct (rnd_fn s a) as [[s1 b]| | |]; try exact Hs.
  specialize (IH s1 H). destruct (draws s1 r) as [s2 l]. exact IH.
Qed.

Lemma split_res_range s arg : in_range s -> in_range (fst (split_res s (rnd_fn s arg))).
Proof.
  intros Hs. pose proof (rnd_fn_seed_range s arg Hs) as H.
  destruct (rnd_fn s arg) as [[s' b]| | |]; cbn [split_res fst]; assumption.
Qed.

Lemma neval_range e : forall s, in_range s -> in_range (fst (neval s e)).
Proof.
  induction e as [|v|e IH|e IH|e IH|e IH]; intros s Hs; cbn [neval];
    try (apply split_res_range; exact Hs);
    specialize (IH s Hs); destruct (neval s e) as [s1 r]; cbn [fst] in *; try exact IH.
  destruct r as [b| | |]; try exact IH. apply split_res_range. exact IH.
Qed.

Lemma step_range s o : in_range s -> in_range (fst (step s o)).
Proof.
  intros Hs. destruct o as [arg|v| |f args|e]; cbn [step].
  - destruct arg as [v|]; cbn [rnd_fn].
    + destruct (to_single v) as [f| | |]; cbn [bind fst]; try exact Hs.
      destruct (sng_is_zero f); cbn [fst]; [exact Hs | apply cycle_range].
    + cbn [fst]. apply cycle_range.
  - destruct v; cbn [randomize_fn fst]; try exact Hs; apply reseed_tail_range.
  - cbn [fst]. apply clear_range.
  - pose proof (draws_range args s Hs) as H. destruct (draws s args) as [s' r]. exact H.
  - apply neval_range. exact Hs.
Qed.

Theorem exec_range ops : forall s, in_range s -> in_range (exec s ops).
Proof.
  induction ops as [|o r IH]; intros s Hs; cbn [exec]; [exact Hs|].
  apply IH, step_range, Hs.
Qed.

(* ------------------------------------------------------------------ *)
(* exact scaling: the returned Single is seed / 2^24                   *)

Lemma bitlen_spec s : 0 < s -> 2 ^ (bitlen s - 1) <= s < 2 ^ bitlen s /\ 0 < bitlen s.
Proof.
  intros Hs. unfold bitlen. destruct (s <=? 0) eqn:E; [lia|].
  pose proof (Z.log2_spec s Hs) as [L U]. pose proof (Z.log2_nonneg s).
  replace (Z.log2 s + 1 - 1) with (Z.log2 s) by lia.
  replace (Z.log2 s + 1) with (Z.succ (Z.log2 s)) by lia. lia.
Qed.

Lemma bitlen_le24 s : 0 < s < M -> bitlen s <= 24.
Proof.
  intros Hs. destruct (bitlen_spec s ltac:(lia)) as [[L _] P].
  destruct (Z.le_gt_cases (bitlen s) 24) as [|G]; [assumption|exfalso].
  assert (2 ^ 24 <= 2 ^ (bitlen s - 1)) by (apply Z.pow_le_mono_r; lia).
  rewrite M_pow in Hs. lia.
Qed.

(* the normalised mantissa *)
Definition norm_mant (s : Z) : Z := Z.shiftl s (24 - bitlen s).

Lemma norm_mant_spec s : 0 < s < M ->
  norm_mant s = s * 2 ^ (24 - bitlen s) /\ 2 ^ 23 <= norm_mant s < 2 ^ 24.
Proof.
  intros Hs. pose proof (bitlen_le24 s Hs) as Hk.
  destruct (bitlen_spec s ltac:(lia)) as [[L U] P].
  unfold norm_mant. rewrite Z.shiftl_mul_pow2 by lia. split; [reflexivity|].
  set (k := bitlen s) in *.
  assert (E1 : 2 ^ 23 = 2 ^ (k - 1) * 2 ^ (24 - k)) by (rewrite <- Z.pow_add_r by lia; f_equal; lia).
  assert (E2 : 2 ^ 24 = 2 ^ k * 2 ^ (24 - k)) by (rewrite <- Z.pow_add_r by lia; f_equal; lia).
  assert (Hp : 0 < 2 ^ (24 - k)) by (apply Z.pow_pos_nonneg; lia).
  rewrite E1, E2. split; [apply Z.mul_le_mono_nonneg_r; lia | apply Z.mul_lt_mono_pos_r; lia].
Qed.

Lemma bytes_of_mant m : 2 ^ 23 <= m < 2 ^ 24 ->
  let b0 := Z.land m 255 in
  let b1 := Z.land (Z.shiftr m 8) 255 in
  let b2 := Z.land (Z.shiftr m 16) 127 in
  0 <= b0 < 256 /\ 0 <= b1 < 256 /\ 0 <= b2 < 128 /\ b0 + 256 * b1 + 65536 * (128 + b2) = m.
Proof.
  intros Hm b0 b1 b2. subst b0 b1 b2.
  change 255 with (Z.ones 8). change 127 with (Z.ones 7).
  rewrite !Z.land_ones, !Z.shiftr_div_pow2 by lia.
  change (2 ^ 8) with 256. change (2 ^ 7) with 128. change (2 ^ 16) with 65536.
  change (2 ^ 23) with 8388608 in Hm. change (2 ^ 24) with 16777216 in Hm.
  pose proof (Z.div_mod m 256 ltac:(lia)). pose proof (Z.mod_pos_bound m 256 ltac:(lia)).
  pose proof (Z.div_mod (m / 256) 256 ltac:(lia)). pose proof (Z.mod_pos_bound (m / 256) 256 ltac:(lia)).
  pose proof (Z.div_mod (m / 65536) 128 ltac:(lia)). pose proof (Z.mod_pos_bound (m / 65536) 128 ltac:(lia)).
  assert (m / 65536 = m / 256 / 256) by (rewrite Z.div_div by lia; reflexivity).
  assert (128 <= m / 65536 < 256)
    by (split; [apply Z.div_le_lower_bound; lia | apply Z.div_lt_upper_bound; lia]).
  lia.
Qed.

Definition scale_ok (s : Z) (b : list Z) : Prop :=
  length b = 4%nat /\ bytes_ok b /\
  (s = 0 -> b = [0; 0; 0; 0]) /\
  (0 < s -> 0 < sng_exp b <= 128 /\ sng_is_zero b = false /\ sng_is_neg b = false /\
            sng_mant b * 2 ^ 24 = s * 2 ^ (152 - sng_exp b)).

Lemma rnd_bytes_scale s : in_range s -> scale_ok s (rnd_bytes s).
Proof.
  intros Hs. unfold in_range in Hs. unfold scale_ok, rnd_bytes.
  destruct (s =? 0) eqn:E0.
  - apply Z.eqb_eq in E0. subst s. split; [reflexivity|]. split.
    + apply bytesb_ok. reflexivity.
    + split; [reflexivity | lia].
  - apply Z.eqb_neq in E0. assert (Hs' : 0 < s < M) by lia.
    pose proof (bitlen_le24 s Hs') as Hk.
    destruct (bitlen_spec s ltac:(lia)) as [_ Pk].
    destruct (norm_mant_spec s Hs') as [Em Bm]. fold (norm_mant s).
    destruct (bytes_of_mant (norm_mant s) Bm) as (B0 & B1 & B2 & Esum).
    set (m := norm_mant s) in *. set (k := bitlen s) in *.
    split; [reflexivity|]. split.
    + unfold bytes_ok. repeat constructor; unfold byte_ok; lia.
    + split; [lia|]. intros _.
      unfold sng_exp, sng_is_zero, sng_is_neg, sng_mant, sng_byte. cbn [nth].
      split; [lia|]. split; [lia|]. split; [lia|].
      rewrite (Z.mod_small (Z.land (Z.shiftr m 16) 127) 128) by lia.
      rewrite Esum, Em.
      replace (152 - (128 + k - 24)) with (24 + (24 - k)) by lia.
      rewrite Z.pow_add_r by lia. ring.
Qed.

(* the same as a statement about rationals: value = seed / 2^24, in [0, 1) *)
Lemma rnd_bytes_valQ s : in_range s ->
  (sng_valQ (rnd_bytes s) == s # 16777216)%Q /\ (0 <= sng_valQ (rnd_bytes s))%Q /\
  (sng_valQ (rnd_bytes s) < 1)%Q.
Proof.
  intros Hs. pose proof (rnd_bytes_scale s Hs) as (_ & _ & H0 & H1).
  assert (Heq : (sng_valQ (rnd_bytes s) == s # 16777216)%Q).
  { destruct (Z.eq_dec s 0) as [->|Hn].
    - vm_compute. reflexivity.
    - unfold in_range in Hs. destruct (H1 ltac:(lia)) as (He & Hz & Hneg & Hm).
      unfold sng_valQ. rewrite Hz, Hneg.
      destruct (sng_exp (rnd_bytes s) <=? 152) eqn:E; [|lia].
      unfold Qeq. cbn [Qnum Qden].
      rewrite Z2Pos.id by (apply Z.pow_pos_nonneg; lia).
      change (Z.pos 16777216) with (2 ^ 24). exact Hm. }
  split; [exact Heq|]. rewrite Heq. unfold in_range, M in Hs.
  split; unfold Qle, Qlt; cbn [Qnum Qden]; lia.
Qed.

(* what RND returns is always rnd_bytes of the seed it leaves behind *)
Lemma rnd_fn_value s arg s' b : rnd_fn s arg = Ok (s', b) -> b = rnd_bytes s'.
Proof.
  unfold rnd_fn. destruct arg as [v|].
  - destruct (to_single v) as [f| | |]; cbn [bind]; try discriminate.
    destruct (sng_is_zero f); intros H; inversion H; reflexivity.
  - intros H; inversion H; reflexivity.
Qed.

Lemma rnd_fn_range s arg s' b : in_range s -> rnd_fn s arg = Ok (s', b) -> in_range s'.
Proof.
  intros Hs H. pose proof (step_range s (ORnd arg) Hs) as R. cbn [step] in R.
  rewrite H in R. exact R.
Qed.

(* ------------------------------------------------------------------ *)
(* RND(0), RND(negative), CLEAR                                        *)

Lemma rnd_zero_repeats s v f :
  to_single v = Ok f -> sng_is_zero f = true -> rnd_fn s (Some v) = Ok (s, rnd_bytes s).
Proof. intros Hf Hz. unfold rnd_fn. rewrite Hf. cbn [bind]. rewrite Hz. reflexivity. Qed.

(* after any successful RND call, RND(0) returns the same bytes again and leaves the seed alone *)
Lemma rnd_zero_repeats_last s arg s' b v f :
  rnd_fn s arg = Ok (s', b) -> to_single v = Ok f -> sng_is_zero f = true ->
  rnd_fn s' (Some v) = Ok (s', b).
Proof.
  intros H Hf Hz. rewrite (rnd_zero_repeats s' v f Hf Hz). rewrite (rnd_fn_value _ _ _ _ H). reflexivity.
Qed.

Lemma rnd_negative_reseeds s v f :
  to_single v = Ok f -> sng_is_zero f = false -> sng_is_neg f = true ->
  rnd_fn s (Some v) = Ok (rnd_cycle (sng_mant f), rnd_bytes (rnd_cycle (sng_mant f))).
Proof. intros Hf Hz Hn. unfold rnd_fn. rewrite Hf. cbn [bind]. rewrite Hz, Hn. reflexivity. Qed.

Lemma sng_mant_range f : bytes_ok f -> 2 ^ 23 <= sng_mant f < 2 ^ 24.
Proof.
  intros Hf. unfold sng_mant, sng_byte.
  assert (B : forall i, 0 <= nth i f 0 < 256).
  { intros i. destruct (nth_in_or_default i f 0) as [Hin|Hd]; [|rewrite Hd; lia].
    unfold bytes_ok in Hf. rewrite Forall_forall in Hf. apply Hf, Hin. }
  pose proof (B 0%nat). pose proof (B 1%nat). pose proof (B 2%nat).
  pose proof (Z.mod_pos_bound (nth 2 f 0) 128 ltac:(lia)).
  change (2 ^ 23) with 8388608. change (2 ^ 24) with 16777216. lia.
Qed.

(* ------------------------------------------------------------------ *)
(* RANDOMIZE                                                           *)

Lemma land255 s : Z.land s 255 = s mod 256.
Proof. change 255 with (Z.ones 8). rewrite Z.land_ones by lia. reflexivity. Qed.

Lemma reseed_tail_low_byte s1 s2 n :
  s1 mod 256 = s2 mod 256 -> rnd_reseed_tail s1 n = rnd_reseed_tail s2 n.
Proof. intros H. unfold rnd_reseed_tail. rewrite !land255, H. reflexivity. Qed.

Lemma reseed_low_byte s1 s2 b :
  s1 mod 256 = s2 mod 256 -> reseed s1 b = reseed s2 b.
Proof. intros H. unfold reseed. apply reseed_tail_low_byte, H. Qed.

Lemma randomize_low_byte s1 s2 v :
  s1 mod 256 = s2 mod 256 -> randomize_fn s1 v = randomize_fn s2 v.
Proof.
  intros H. destruct v; cbn [randomize_fn]; try reflexivity; f_equal; apply reseed_low_byte, H.
Qed.

(* the property text's unconditional claim, over reachable states *)
Definition randomize_history_independent : Prop :=
  forall h1 h2 v, randomize_fn (exec seed0 h1) v = randomize_fn (exec seed0 h2) v.

(* K1: RANDOMIZE 1 at start-up and after one RND call leave different seeds *)
Lemma randomize_history_witness :
  randomize_fn (exec seed0 []) (VInt 1) <> randomize_fn (exec seed0 [ORnd None]) (VInt 1).
Proof. vm_compute. discriminate. Qed.

Lemma randomize_history_refuted : ~ randomize_history_independent.
Proof.
  intros H. apply randomize_history_witness. apply H.
Qed.

(* reseed_n of a two-byte value is the signed 16-bit number itself *)
Lemma reseed_n_2 a b : reseed_n [a; b] = sint16 (Z.lxor a 0 + 256 * Z.lxor b 0).
Proof. reflexivity. Qed.

Lemma reseed_n_int n : -32768 <= n < 32768 -> reseed_n (value_bytes (VInt n)) = n.
Proof.
  intros Hn. unfold value_bytes. cbn [le_encode]. rewrite reseed_n_2, !Z.lxor_0_r. unfold sint16.
  pose proof (Z.div_mod (n mod 65536) 256 ltac:(lia)) as E.
  pose proof (Z.mod_pos_bound (n mod 65536) 256 ltac:(lia)).
  pose proof (Z.mod_pos_bound n 65536 ltac:(lia)) as Bn.
  assert (Hd : 0 <= n mod 65536 / 256 < 256)
    by (split; [apply Z.div_pos; lia | apply Z.div_lt_upper_bound; lia]).
  rewrite (Z.mod_small (n mod 65536 / 256) 256) by lia.
  replace (n mod 65536 mod 256 + 256 * (n mod 65536 / 256)) with (n mod 65536) by lia.
  pose proof (Z.div_mod n 65536 ltac:(lia)) as En.
  destruct (n mod 65536 <? 32768) eqn:C; lia.
Qed.

(* with 4 or more bytes the last two are xored with the two before them *)
Lemma reseed_n_4 a b c d : reseed_n [a; b; c; d] = sint16 (Z.lxor c a + 256 * Z.lxor d b).
Proof. reflexivity. Qed.
Lemma reseed_n_8 x0 x1 x2 x3 a b c d :
  reseed_n [x0; x1; x2; x3; a; b; c; d] = sint16 (Z.lxor c a + 256 * Z.lxor d b).
Proof. reflexivity. Qed.

(* ------------------------------------------------------------------ *)
(* arguments in variables: the generator never changes them, so the same variable is the same argument *)

Lemma vstep_store s st o : snd (fst (vstep s st o)) = st.
Proof. unfold vstep. destruct (step s (vop_op st o)) as [s' out]. reflexivity. Qed.

Lemma vexec_store ops : forall s st, snd (vexec s st ops) = st.
Proof.
  induction ops as [|o r IH]; intros s st; cbn [vexec]; [reflexivity|].
  pose proof (vstep_store s st o) as H.
  destruct (vstep s st o) as [[s' st'] out]. cbn [fst snd] in H. subst st'. apply IH.
Qed.

Lemma vexec_exec ops : forall s st, fst (vexec s st ops) = exec s (map (vop_op st) ops).
Proof.
  induction ops as [|o r IH]; intros s st; cbn [vexec map exec]; [reflexivity|].
  unfold vstep. destruct (step s (vop_op st o)) as [s' out]. cbn [fst]. apply IH.
Qed.

(* RND(X) with a negative X, after any history h (which may itself use X any number of times):
   same result as at the very beginning, and X is still what it was *)
Lemma same_variable_reseeds st i f h s1 s2 :
  to_single (var_get st i) = Ok f -> sng_is_zero f = false -> sng_is_neg f = true ->
  let '(s', st') := vexec s1 st h in
  st' = st /\
  vstep s' st' (VRnd i) =
    ((rnd_cycle (sng_mant f), st), Ok (rnd_bytes (rnd_cycle (sng_mant f)))) /\
  snd (vstep s' st' (VRnd i)) = snd (vstep s2 st (VRnd i)).
Proof.
  intros Hf Hz Hn. pose proof (vexec_store h s1 st) as Hst.
  destruct (vexec s1 st h) as [s' st']. cbn [snd] in Hst. subst st'.
  split; [reflexivity|].
  unfold vstep, vop_op. cbn [step].
  rewrite (rnd_negative_reseeds s' _ f Hf Hz Hn), (rnd_negative_reseeds s2 _ f Hf Hz Hn).
  split; reflexivity.
Qed.

(* ------------------------------------------------------------------ *)
(* several draws in one expression *)

(* two plain draws in one expression are two different values: RND = RND is false *)
Lemma two_draws_differ s :
  step s (OExpr (XCmp 0) [None; None]) = (rnd_cycle (rnd_cycle s), Ok [0]).
Proof.
  cbn [step draws rnd_fn rmap bind expr_result]. f_equal. f_equal.
  unfold rel_holds. cbn [Z.eqb].
  assert (H : rnd_cycle (rnd_cycle s) <> rnd_cycle s).
  { apply (full_period_no_early_return (rnd_cycle s) 1). lia. }
  apply Z.eqb_neq in H. rewrite Z.eqb_sym, H. reflexivity.
Qed.

(* D1 - D2 with plain draws: the difference of the two successive sequence values *)
Lemma two_draws_sub s :
  step s (OExpr XSub [None; None]) =
  (rnd_cycle (rnd_cycle s), Ok (diff_bytes (rnd_cycle s) (rnd_cycle (rnd_cycle s)))).
Proof. reflexivity. Qed.

(* diff_bytes a b denotes (a - b) / 2^24 exactly *)
Lemma diff_bytes_valQ a b : in_range a -> in_range b ->
  (sng_valQ (diff_bytes a b) == (a - b) # 16777216)%Q.
Proof.
  intros Ha Hb. unfold diff_bytes. destruct (a =? b) eqn:E.
  - apply Z.eqb_eq in E. subst b. rewrite Z.sub_diag. vm_compute. reflexivity.
  - apply Z.eqb_neq in E. unfold in_range in Ha, Hb.
    assert (Hd : in_range (Z.abs (a - b))) by (unfold in_range; lia).
    assert (Hpos : 0 < Z.abs (a - b)) by lia.
    pose proof (rnd_bytes_scale _ Hd) as (Hlen & Hbytes & _ & H1).
    destruct (H1 Hpos) as (He & Hz & Hneg & Hm).
    destruct (a <? b) eqn:L.
    + (* negative: sign bit set *)
      remember (rnd_bytes (Z.abs (a - b))) as r eqn:Er.
      destruct r as [|b0 [|b1 [|b2 [|e [|x t]]]]]; try discriminate Hlen.
      unfold sng_is_zero, sng_is_neg, sng_mant, sng_exp, sng_byte in *. cbn [nth] in *.
      unfold bytes_ok in Hbytes. inversion Hbytes as [|? ? _ Hb1]. inversion Hb1 as [|? ? _ Hb2].
      inversion Hb2 as [|? ? B2 _]. unfold byte_ok in B2.
      unfold sng_valQ, sng_is_zero, sng_is_neg, sng_mant, sng_exp, sng_byte. cbn [nth].
      rewrite Hz.
      assert (N1 : (128 <=? b2 + 128) = true) by lia. rewrite N1.
      assert (N2 : (b2 + 128) mod 128 = b2 mod 128).
      { replace (b2 + 128) with (b2 + 1 * 128) by lia. apply Z.mod_add. lia. }
      rewrite N2.
      destruct (e <=? 152) eqn:E2; [|lia].
      unfold Qeq. cbn [Qnum Qden].
      rewrite Z2Pos.id by (apply Z.pow_pos_nonneg; lia).
      change (Z.pos 16777216) with (2 ^ 24).
      replace (Z.abs (a - b)) with (- (a - b)) in Hm by lia. lia.
    + assert (Eabs : Z.abs (a - b) = a - b) by lia. rewrite Eabs in *.
      unfold sng_valQ. rewrite Hz, Hneg.
      destruct (sng_exp (rnd_bytes (a - b)) <=? 152) eqn:E2; [|lia].
      unfold Qeq. cbn [Qnum Qden].
      rewrite Z2Pos.id by (apply Z.pow_pos_nonneg; lia).
      change (Z.pos 16777216) with (2 ^ 24). exact Hm.
Qed.

(* ------------------------------------------------------------------ *)
(* nested draws: the argument is evaluated (and its draws made) before the outer call reads the seed *)

Lemma nested_positive s : in_range s -> rnd_cycle s <> 0 ->
  step s (ONest (NArg NPlain)) =
  (rnd_cycle (rnd_cycle s), Ok (rnd_bytes (rnd_cycle (rnd_cycle s)))).
Proof.
  intros Hs Hnz. cbn [step neval rnd_fn split_res].
  pose proof (cycle_range s) as Hr. unfold in_range in Hr.
  pose proof (rnd_bytes_scale _ (cycle_range s)) as (_ & _ & _ & H1).
  destruct (H1 ltac:(lia)) as (_ & Hz & Hneg & _).
  cbn [to_single bind]. rewrite Hz, Hneg. reflexivity.
Qed.

Lemma nested_zero s :
  step s (ONest (NArg (NZero NPlain))) = (rnd_cycle s, Ok (rnd_bytes (rnd_cycle s))).
Proof. reflexivity. Qed.

(* in general: RND(e) is RND(value of e) performed from the seed that evaluating e leaves behind *)
Lemma nested_order s e s1 b :
  neval s e = (s1, Ok b) -> neval s (NArg e) = split_res s1 (rnd_fn s1 (Some (VSng b))).
Proof. intros H. cbn [neval]. rewrite H. reflexivity. Qed.

(* ------------------------------------------------------------------ *)
(* RND(0) after ANY operation (in particular straight after RANDOMIZE with any argument): the stored seed is
   a reduced 24-bit seed, RND(0) returns exactly seed/2^24 in [0,1), and the next RND is one step further *)

Lemma randomize_numeric s v : v <> VStr ->
  randomize_fn s v = Ok (reseed s (value_bytes v)) /\ in_range (reseed s (value_bytes v)).
Proof.
  intros Hv. split.
  - destruct v; try reflexivity. congruence.
  - unfold reseed. apply reseed_tail_range.
Qed.

Lemma rnd0_after_history ops v f :
  to_single v = Ok f -> sng_is_zero f = true ->
  let s := exec seed0 ops in
  in_range s /\
  rnd_fn s (Some v) = Ok (s, rnd_bytes s) /\
  (sng_valQ (rnd_bytes s) == s # 16777216)%Q /\
  (0 <= sng_valQ (rnd_bytes s))%Q /\ (sng_valQ (rnd_bytes s) < 1)%Q /\
  rnd_fn s None = Ok (rnd_cycle s, rnd_bytes (rnd_cycle s)).
Proof.
  intros Hf Hz s. pose proof (exec_range ops seed0 seed0_range) as Hr. fold s in Hr.
  destruct (rnd_bytes_valQ s Hr) as (E & L & U).
  split; [exact Hr|]. split; [exact (rnd_zero_repeats s v f Hf Hz)|].
  split; [exact E|]. split; [exact L|]. split; [exact U|]. reflexivity.
Qed.

Lemma exec_app a : forall s b, exec s (a ++ b) = exec (exec s a) b.
Proof. induction a as [|o r IH]; intros s b; cbn [app exec]; [reflexivity | apply IH]. Qed.

(* the seed RANDOMIZE stores is exactly the reduced reseed value, whatever came before *)
Lemma exec_randomize ops v : v <> VStr ->
  exec seed0 (ops ++ [ORandomize v]) = reseed (exec seed0 ops) (value_bytes v).
Proof.
  intros Hv. rewrite exec_app. cbn [exec step].
  destruct (randomize_numeric (exec seed0 ops) v Hv) as [E _]. rewrite E. reflexivity.
Qed.
