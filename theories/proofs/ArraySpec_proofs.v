(* C12: the model of the implementation (model/Arrays.v, flat buffers + regenerated arithmetic) produces,
   on every history, exactly the outputs of the independent specification model/ArraySpec.v *)
From Coq Require Import ZArith List Bool Lia.
From PCB Require Import lib.Result lib.PyInt lib.Harness lib.ArraysLib gen.Gen_arrays model.Arrays model.ArraySpec.
From PCB Require Import proofs.Arrays_index_proofs proofs.Arrays_list_proofs proofs.Arrays_proofs
  proofs.Arrays_history_proofs.
Import ListNotations.
Open Scope Z_scope.

Local Arguments vmap_filter : simpl never.

Definition shape_of (a : arr) : list Z * list Z := (a_name a, a_dims a).

Record Sim (st : astate) (sp : sstate) : Prop := mkSim {
  sim_shapes : sp_shapes sp = map shape_of (a_list st);
  sim_base : sp_base sp = a_base st;
  sim_bydim : sp_bydim sp = a_bydim st
}.

Lemma Sim_init : Sim a_init sp_init.
Proof. constructor; reflexivity. Qed.

(* ---------- the spec's arithmetic agrees with the regenerated one ---------- *)

Lemma s_find_map l n : s_find (map shape_of l) n = option_map a_dims (lookup l n).
Proof.
  induction l as [|a l IH]; simpl; [reflexivity|].
  destruct (list_Z_eqb (a_name a) n); [reflexivity | exact IH].
Qed.

Lemma s_remove_map l n : s_remove (map shape_of l) n = map shape_of (remove_arr l n).
Proof.
  induction l as [|a l IH]; simpl; [reflexivity|].
  destruct (list_Z_eqb (a_name a) n); simpl; [reflexivity | rewrite IH; reflexivity].
Qed.

Lemma s_size_eq n : s_size n = size_bytes n.
Proof.
  unfold s_size, size_bytes, py_last, values_TYPE_TO_SIZE. cbn [table_lookup].
  destruct (last n (-1) =? 36); [reflexivity|]. destruct (last n (-1) =? 37); [reflexivity|].
  destruct (last n (-1) =? 33); [reflexivity|]. destruct (last n (-1) =? 35); reflexivity.
Qed.

Lemma s_count_eq b dims : s_count b dims = radix_prod b dims.
Proof. induction dims as [|d r IH]; simpl; [reflexivity | rewrite IH; reflexivity]. Qed.

Lemma s_need_eq b n dims :
  s_need b n dims = arrays_record_size n dims + radix_prod b dims * size_bytes n.
Proof. unfold s_need, arrays_record_size, zlen. rewrite s_count_eq, s_size_eq. lia. Qed.

Lemma s_used_eq b l : s_used b (map shape_of l) = total b l.
Proof.
  induction l as [|a l IH]; simpl; [reflexivity|]. rewrite IH, s_need_eq. reflexivity.
Qed.

Lemma s_scan_zip b x y : forall idx dims, arrays_check_subscripts_zip_6 b x y idx dims = s_scan b idx dims.
Proof.
  induction idx as [|i idx IH]; intros [|d dims]; simpl; try reflexivity.
  destruct (i <? 0); [reflexivity|]. rewrite Z.gtb_ltb.
  destruct ((i <? b) || (d <? i)); [reflexivity | apply IH].
Qed.

Lemma s_scan_eq b idx dims :
  arrays_check_subscripts b idx dims =
  if negb (Nat.eqb (length idx) (length dims)) then Err 9 else s_scan b idx dims.
Proof.
  unfold arrays_check_subscripts, zlen.
  destruct (Nat.eqb_spec (length idx) (length dims)) as [E|E]; simpl.
  - rewrite E, Z.eqb_refl. simpl. rewrite s_scan_zip. destruct (s_scan b idx dims) as [[]| | |]; reflexivity.
  - destruct (Z.eqb_spec (Z.of_nat (length idx)) (Z.of_nat (length dims))); [lia | reflexivity].
Qed.

Lemma existsb_forall_false {A} (p : A -> bool) l : Forall (fun x => p x = false) l -> existsb p l = false.
Proof. induction 1 as [|x l H F IH]; simpl; [reflexivity | rewrite H, IH; reflexivity]. Qed.

Lemma dims_ok_not_below b dims : dims_ok b dims -> existsb (fun d => d <? b) dims = false.
Proof.
  intros H. apply existsb_forall_false. eapply Forall_impl; [|exact H]. simpl. intros x Hx.
  destruct (Z.ltb_spec x b); [lia | reflexivity].
Qed.

(* ---------- operations ---------- *)

Lemma Sim_base_of st sp : Sim st sp -> s_baseval sp = base_of st.
Proof. intros S. unfold s_baseval, base_of. rewrite (sim_base _ _ S). reflexivity. Qed.

Definition s_defaulted (sp : sstate) : sstate :=
  match sp_base sp with None => mkSp (sp_shapes sp) (Some 0) true | Some _ => sp end.

Lemma Sim_defaulted st sp : Sim st sp -> Sim (defaulted st) (s_defaulted sp).
Proof.
  intros [S1 S2 S3]. unfold defaulted, s_defaulted. rewrite S2.
  destruct (a_base st) eqn:E; constructor; simpl; auto; congruence.
Qed.

(* s_alloc once the name is free and no bound is negative or below the base *)
Lemma s_alloc_tail sp free n dims : dims <> [] -> s_find (sp_shapes sp) n = None ->
  existsb (fun d => d <? 0) dims = false ->
  match sp_base sp with Some b => existsb (fun d => d <? b) dims | None => false end = false ->
  s_alloc sp free n dims =
  let sp1 := s_defaulted sp in
  if free - s_used (s_baseval sp1) (sp_shapes sp1) <=? s_need (s_baseval sp1) n dims then (sp1, Err 7)
  else (mkSp (sp_shapes sp1 ++ [(n, dims)]) (sp_base sp1) (sp_bydim sp1), Ok tt).
Proof.
  intros Hd Hf Hn Hb. unfold s_alloc. destruct dims; [contradiction|]. rewrite Hf, Hn, Hb. reflexivity.
Qed.

Lemma alloc_sim st sp free n dims : AInv st -> Sim st sp ->
  snd (s_alloc sp free n dims) = snd (allocate st free n dims) /\
  Sim (fst (allocate st free n dims)) (fst (s_alloc sp free n dims)).
Proof.
  intros I S. pose proof (allocate_result st free n dims) as R.
  pose proof (Sim_defaulted st sp S) as Sdef.
  assert (Fnd : s_find (sp_shapes sp) n = option_map a_dims (lookup (a_list st) n))
    by (rewrite (sim_shapes _ _ S); apply s_find_map).
  assert (Tail : dims <> [] -> lookup (a_list st) n = None -> dims_ok 0 dims -> dims_ok (base_of st) dims ->
            s_alloc sp free n dims =
            if free - a_cur st <=? arrays_record_size n dims + radix_prod (base_of st) dims * size_bytes n
            then (s_defaulted sp, Err 7)
            else (mkSp (sp_shapes (s_defaulted sp) ++ [(n, dims)]) (sp_base (s_defaulted sp))
                       (sp_bydim (s_defaulted sp)), Ok tt)).
  { intros Hd Hl H0 Hb. rewrite s_alloc_tail; auto.
    - cbv zeta. rewrite (Sim_base_of _ _ Sdef), base_of_defaulted, (sim_shapes _ _ Sdef), s_used_eq,
        defaulted_list, <- (inv_cur st I), s_need_eq. reflexivity.
    - rewrite Fnd, Hl. reflexivity.
    - apply dims_ok_not_below, H0.
    - rewrite (sim_base _ _ S). destruct (a_base st) as [b|] eqn:EB; [|reflexivity].
      apply dims_ok_not_below. unfold base_of in Hb. rewrite EB in Hb. exact Hb. }
  inversion R as [E|a E1 E2|E1 E2 (d & Hd & Hlt)|b E1 E2 E3 E4 (d & Hd & Hlt)|E1 E2 E3 E4 E5|E1 E2 E3 E4 E5];
    subst; simpl.
  - split; [reflexivity | exact S].
  - unfold s_alloc. destruct dims; [contradiction|]. rewrite Fnd, E2. simpl. split; [reflexivity | exact S].
  - unfold s_alloc. destruct dims as [|d0 dims0] eqn:ED; [contradiction|]. rewrite <- ED in *.
    rewrite Fnd, E2. simpl.
    assert (X : existsb (fun d => d <? 0) dims = true)
      by (apply existsb_exists; exists d; split; [assumption | apply Z.ltb_lt; assumption]).
    rewrite X. split; [reflexivity | exact S].
  - unfold s_alloc. destruct dims as [|d0 dims0] eqn:ED; [contradiction|]. rewrite <- ED in *.
    rewrite Fnd, E2. simpl. rewrite (dims_ok_not_below 0 dims E3), (sim_base _ _ S), E4.
    assert (Y : existsb (fun d => d <? b) dims = true)
      by (apply existsb_exists; exists d; split; [assumption | apply Z.ltb_lt; assumption]).
    rewrite Y. split; [reflexivity | exact S].
  - rewrite (Tail E1 E2 E3 E4).
    change (msize (base_of st) (new_arr (defaulted st) n dims)) with
      (arrays_record_size n dims + radix_prod (base_of st) dims * size_bytes n) in E5.
    destruct (Z.leb_spec (free - a_cur st) (arrays_record_size n dims + radix_prod (base_of st) dims * size_bytes n)); [|lia].
    split; [reflexivity | exact Sdef].
  - rewrite (Tail E1 E2 E3 E4).
    change (msize (base_of st) (new_arr (defaulted st) n dims)) with
      (arrays_record_size n dims + radix_prod (base_of st) dims * size_bytes n) in E5.
    destruct (Z.leb_spec (free - a_cur st) (arrays_record_size n dims + radix_prod (base_of st) dims * size_bytes n)); [lia|].
    split; [reflexivity|]. destruct Sdef as [D1 D2 D3]. constructor; simpl; auto.
    rewrite map_app, D1. reflexivity.
Qed.

Lemma dim_sim args : forall st sp free, AInv st -> Sim st sp -> Forall (fun p => sigil_ok (fst p)) args ->
  snd (s_dim sp free args) = snd (dim_ st free args) /\ Sim (fst (dim_ st free args)) (fst (s_dim sp free args)).
Proof.
  induction args as [|[n dims] args IH]; intros st sp free I S F; simpl; [auto|].
  inversion F as [|? ? Hn F']; subst. simpl in Hn.
  destruct (alloc_sim st sp free n dims I S) as [E1 S1].
  pose proof (allocate_inv st free n dims I Hn) as I1.
  destruct (allocate st free n dims) as [st1 r]. destruct (s_alloc sp free n dims) as [sp1 r']. simpl in *. subst r'.
  destruct r as [[]| | |]; simpl; auto.
Qed.

Lemma access_sim st sp free n idx : AInv st -> Sim st sp -> sigil_ok n ->
  snd (s_access sp free n idx) = bind (snd (check_dim st free n idx)) (fun _ => Ok tt) /\
  Sim (fst (check_dim st free n idx)) (fst (s_access sp free n idx)).
Proof.
  intros I S Hs. unfold s_access. rewrite (sim_shapes _ _ S), s_find_map.
  destruct (lookup (a_list st) n) as [a|] eqn:La; simpl.
  - rewrite (check_dim_declared _ _ _ _ _ La). simpl. rewrite ?(sim_shapes _ _ S), ?s_find_map, ?La. simpl.
    destruct (lookup_some _ _ _ La) as [Ha _]. rewrite (with_base_some _ _ _ (AInv_base_some _ a I Ha)).
    rewrite s_scan_eq, (Sim_base_of _ _ S).
    destruct (negb _); simpl; [split; [reflexivity | exact S]|].
    split; [|exact S]. destruct (s_scan _ _ _) as [[]| | |]; reflexivity.
  - rewrite (check_dim_undeclared _ _ _ _ La).
    destruct (alloc_sim st sp free n (repeat 10 (length idx)) I S) as [E1 S1].
    pose proof (allocate_inv st free n (repeat 10 (length idx)) I Hs) as I1.
    destruct (allocate st free n (repeat 10 (length idx))) as [st1 r] eqn:EA.
    destruct (s_alloc sp free n (repeat 10 (length idx))) as [sp1 r']. simpl in *. subst r'.
    destruct r as [[]| | |]; simpl; auto.
    rewrite (sim_shapes _ _ S1), s_find_map.
    destruct (lookup (a_list st1) n) as [a|] eqn:L1; simpl; [|auto].
    destruct (lookup_some _ _ _ L1) as [Ha _]. rewrite (with_base_some _ _ _ (AInv_base_some _ a I1 Ha)).
    assert (Hd : a_dims a = repeat 10 (length idx)).
    { destruct idx as [|i0 idx'].
      - simpl in EA. unfold allocate in EA. inversion EA; subst. congruence.
      - rewrite (allocate_ok_lookup _ _ _ _ _ EA La) in L1 by discriminate. inversion L1; reflexivity. }
    rewrite Hd, s_scan_eq, (Sim_base_of _ _ S1).
    destruct (negb _); simpl; [split; [reflexivity | exact S1]|].
    split; [|exact S1]. destruct (s_scan _ _ _) as [[]| | |]; reflexivity.
Qed.

(* removing the first entry named n from the shapes = shapes of the erased table *)
Lemma erased_shapes st n a l1 l2 : AInv st -> lookup (a_list st) n = Some a -> a_list st = l1 ++ a :: l2 ->
  map shape_of (remove_arr (a_list st) n) = map shape_of (l1 ++ map (shift_all (msize (base_of st) a)) l2).
Proof.
  intros I La E1. pose proof (inv_nodup st I) as ND. rewrite E1 in *.
  destruct (lookup_some _ _ _ La) as [_ Hn]. clear La I E1.
  induction l1 as [|x l1 IH]; simpl in *.
  - rewrite Hn, list_Z_eqb_refl. rewrite map_map. reflexivity.
  - inversion ND as [|? ? Hx ND']; subst.
    rewrite list_Z_eqb_neq.
    + simpl. rewrite IH by exact ND'. reflexivity.
    + intros C. apply Hx. rewrite C, map_app. apply in_app_iff. right. simpl. auto.
Qed.

Lemma erase_names_sim names : forall st sp, AInv st -> Sim st sp ->
  snd (s_erase_names sp names) = snd (erase_names st names) /\
  Sim (fst (erase_names st names)) (fst (s_erase_names sp names)).
Proof.
  induction names as [|n names IH]; intros st sp I S; simpl; [auto|].
  rewrite (sim_shapes _ _ S), s_find_map.
  destruct (lookup (a_list st) n) as [a|] eqn:La; simpl.
  - destruct (erase_one_spec st n a I La) as (l1 & l2 & E1 & E2 & I'). rewrite E2. cbn [bindS].
    apply IH; [exact I'|]. destruct S as [S1 S2 S3]. constructor; simpl; auto.
    rewrite s_remove_map. apply erased_shapes; assumption.
  - unfold erase_one. rewrite La. simpl. auto.
Qed.

Lemma erase_sim st sp names : AInv st -> Sim st sp ->
  snd (s_erase sp names) = snd (erase_ st names) /\ Sim (fst (erase_ st names)) (fst (s_erase sp names)).
Proof.
  intros I S. unfold s_erase, erase_. destruct (erase_names_sim names st sp I S) as [E1 S1].
  destruct (erase_names st names) as [st1 r]. destruct (s_erase_names sp names) as [sp1 r']. simpl in *. subst r'.
  destruct r as [[]| | |]; simpl; auto. destruct S1 as [A1 A2 A3]. rewrite A1, A3.
  destruct (a_list st1) as [|x l] eqn:EL; simpl.
  - destruct (a_bydim st1) eqn:EB; simpl; (split; [reflexivity|]); constructor; simpl; auto;
      rewrite ?A1, ?EL; try reflexivity; congruence.
  - split; [reflexivity|]. constructor; simpl; auto. rewrite A1, EL. reflexivity.
Qed.

Lemma option_base_sim st sp b : Sim st sp ->
  snd (s_option_base sp b) = snd (option_base_ st b) /\ Sim (fst (option_base_ st b)) (fst (s_option_base sp b)).
Proof.
  intros [S1 S2 S3]. unfold s_option_base, option_base_. rewrite S2.
  destruct (a_base st) as [b0|] eqn:EB.
  - destruct (Z.eqb_spec b b0); simpl; (split; [reflexivity|]); constructor; simpl; auto; congruence.
  - simpl. split; [reflexivity|]. constructor; simpl; auto.
Qed.

(* ---------- steps and histories ---------- *)

Definition aop_ok2 (o : aop) : Prop :=
  aop_ok o /\ match o with OSet _ n _ v => length v = Z.to_nat (size_bytes n) | _ => True end.

Lemma declared_sim st sp n : Sim st sp -> s_declared sp n = declared st n.
Proof.
  intros S. unfold s_declared, declared. rewrite (sim_shapes _ _ S), s_find_map.
  destruct (lookup (a_list st) n); reflexivity.
Qed.

Lemma s_unit_eq r : s_unit r = unit_out r.
Proof. destruct r as [[]| | |]; reflexivity. Qed.

Lemma shapes_update_buf l n buf : map shape_of (update_buf l n buf) = map shape_of l.
Proof.
  induction l as [|x l IH]; simpl; [reflexivity|].
  destruct (list_Z_eqb (a_name x) n); simpl; [reflexivity | rewrite IH; reflexivity].
Qed.

Lemma Sim_set_buf st sp n buf : Sim st sp -> Sim (set_buf st n buf) sp.
Proof. intros [A1 A2 A3]. constructor; simpl; auto. rewrite shapes_update_buf. exact A1. Qed.

Lemma filter_sim st sp st' sp' (m : vmap) : Sim st sp -> Sim st' sp' ->
  vmap_filter (fun n => s_declared sp n && s_declared sp' n) m =
  vmap_filter (fun n => declared st n && declared st' n) m.
Proof.
  intros S S'. apply filter_ext_keep. intros n.
  rewrite (declared_sim _ _ n S), (declared_sim _ _ n S'). reflexivity.
Qed.

Lemma step_sim st sp m o : AInv st -> Sim st sp -> aop_ok2 o ->
  snd (sstep sp m o) = snd (rstep st m o) /\
  snd (fst (sstep sp m o)) = snd (fst (rstep st m o)) /\
  Sim (fst (fst (rstep st m o))) (fst (fst (sstep sp m o))).
Proof.
  intros I S [Hok Hv].
  unfold sstep, rstep. destruct o as [free args|names|b|free n idx v|free n idx|]; simpl in *.
  - destruct (dim_sim args st sp free I S Hok) as [E1 S1].
    destruct (dim_ st free args) as [st1 r]. destruct (s_dim sp free args) as [sp1 r']. simpl in *. subst r'.
    rewrite s_unit_eq, (filter_sim st sp st1 sp1 m S S1). destruct (unit_out r); simpl; auto.
  - destruct (erase_sim st sp names I S) as [E1 S1].
    destruct (erase_ st names) as [st1 r]. destruct (s_erase sp names) as [sp1 r']. simpl in *. subst r'.
    rewrite s_unit_eq, (filter_sim st sp st1 sp1 m S S1). destruct (unit_out r); simpl; auto.
  - destruct (option_base_sim st sp b S) as [E1 S1].
    destruct (option_base_ st b) as [st1 r]. destruct (s_option_base sp b) as [sp1 r']. simpl in *. subst r'.
    rewrite s_unit_eq, (filter_sim st sp st1 sp1 m S S1). destruct (unit_out r); simpl; auto.
  - destruct Hok as [Hs Hb].
    destruct (access_sim st sp free n idx I S Hs) as [E1 S1].
    destruct (check_dim st free n idx) as [st1 r] eqn:EC. destruct (s_access sp free n idx) as [sp1 r']. simpl in *.
    subst r'. rewrite elem_set_unfold, EC.
    destruct r as [dims| | |]; cbn [bindS bind s_unit unit_out];
      try (rewrite (filter_sim st sp st1 sp1 m S S1); simpl; auto).
    destruct (elem_set_ok _ _ _ _ v _ _ I Hs EC) as (a & La & Hd & Hin & ES).
    rewrite elem_set_unfold, EC in ES. cbn [bindS] in ES. rewrite ES.
    rewrite <- Hv, Nat.eqb_refl. simpl.
    pose proof (Sim_set_buf st1 sp1 n (set_slice (a_buf a) (elem_lo (base_of st1) a idx) v) S1) as S2.
    split; [reflexivity|]. split; [|exact S2].
    f_equal. apply filter_ext_keep. intros n0. rewrite declared_set_buf. reflexivity.
  - destruct (access_sim st sp free n idx I S Hok) as [E1 S1].
    destruct (check_dim st free n idx) as [st1 r] eqn:EC. destruct (s_access sp free n idx) as [sp1 r']. simpl in *.
    subst r'. rewrite elem_get_unfold, EC.
    destruct r as [dims| | |]; cbn [bindS bind s_unit];
      try (rewrite (filter_sim st sp st1 sp1 m S S1); simpl; auto).
    destruct (elem_get_ok _ _ _ _ _ _ I Hok EC) as (a & La & Hd & Hin & EG).
    rewrite elem_get_unfold, EC in EG. cbn [bindS] in EG. rewrite EG.
    rewrite ?(filter_sim st sp st1 sp1 m S S1), s_size_eq. simpl. auto.
  - rewrite (filter_sim st sp a_init sp_init m S Sim_init). simpl. split; [reflexivity|].
    split; [reflexivity | apply Sim_init].
Qed.

Lemma aop_ok2_ok o : aop_ok2 o -> aop_ok o.
Proof. intros [H _]. exact H. Qed.

Lemma rstep_state st m o : fst (fst (rstep st m o)) = fst (astep st o).
Proof.
  unfold rstep. destruct (astep st o) as [s1 o1]. simpl. destruct o; destruct o1; reflexivity.
Qed.

Theorem spec_refines ops : forall st sp m, AInv st -> Sim st sp -> Forall aop_ok2 ops ->
  rrun st m ops = srun sp m ops.
Proof.
  induction ops as [|o ops IH]; intros st sp m I S F; [reflexivity|].
  inversion F as [|? ? Ho F']; subst.
  destruct (step_sim st sp m o I S Ho) as (E1 & E2 & S').
  pose proof (astep_inv st o I (aop_ok2_ok _ Ho)) as I'. rewrite <- rstep_state with (m := m) in I'.
  simpl. destruct (sstep sp m o) as [[sp' m'] out]. destruct (rstep st m o) as [[st' m''] out'].
  simpl in *. subst. f_equal. apply IH; assumption.
Qed.

Theorem impl_meets_spec ops : Forall aop_ok2 ops -> arun a_init ops = srun sp_init [] ops.
Proof.
  intros F. rewrite (run_refines ops a_init [] AInv_init agrees_init).
  - apply spec_refines; [apply AInv_init | apply Sim_init | exact F].
  - eapply Forall_impl; [|exact F]. apply aop_ok2_ok.
Qed.

(* ---------- statements of several operations ---------- *)

Definition xop_ok (x : xop) : Prop :=
  match x with XOp o => aop_ok2 o | XSeq ops _ => Forall aop_ok2 ops end.

(* one operation: implementation model and specification move together *)
Lemma step_joint st m sp o : AInv st -> agrees st m -> Sim st sp -> aop_ok2 o ->
  snd (sstep sp m o) = snd (astep st o) /\
  AInv (fst (astep st o)) /\ agrees (fst (astep st o)) (snd (fst (sstep sp m o))) /\
  Sim (fst (astep st o)) (fst (fst (sstep sp m o))).
Proof.
  intros I A S Ho. destruct (step_refines st m o I A (aop_ok2_ok _ Ho)) as (R1 & R2 & R3).
  destruct (step_sim st sp m o I S Ho) as (E1 & E2 & S').
  split; [congruence|]. split; [apply astep_inv; [assumption | apply aop_ok2_ok, Ho]|].
  split; [rewrite E2; exact R3 | rewrite <- R2; exact S'].
Qed.

Lemma seq_joint ops : forall st m sp, AInv st -> agrees st m -> Sim st sp -> Forall aop_ok2 ops ->
  snd (sseq sp m ops) = snd (aseq st ops) /\
  AInv (fst (aseq st ops)) /\ agrees (fst (aseq st ops)) (snd (fst (sseq sp m ops))) /\
  Sim (fst (aseq st ops)) (fst (fst (sseq sp m ops))).
Proof.
  induction ops as [|o ops IH]; intros st m sp I A S F; simpl; [auto|].
  inversion F as [|? ? Ho F']; subst.
  destruct (step_joint st m sp o I A S Ho) as (E & I' & A' & S').
  destruct (astep st o) as [s1 out1]. destruct (sstep sp m o) as [[sp1 m1] out2]. simpl in *. subst out2.
  destruct out1; simpl; auto.
Qed.

Lemma xstep_joint st m sp x : AInv st -> agrees st m -> Sim st sp -> xop_ok x ->
  snd (sxstep sp m x) = snd (xstep st x) /\
  AInv (fst (xstep st x)) /\ agrees (fst (xstep st x)) (snd (fst (sxstep sp m x))) /\
  Sim (fst (xstep st x)) (fst (fst (sxstep sp m x))).
Proof.
  intros I A S Hx. destruct x as [o|ops tail]; simpl in *.
  - apply step_joint; assumption.
  - destruct (seq_joint ops st m sp I A S Hx) as (E & I' & A' & S').
    destruct (aseq st ops) as [s1 out1]. destruct (sseq sp m ops) as [[sp1 m1] out2]. simpl in *. subst out2. auto.
Qed.

Theorem statements_meet_spec xs : forall st m sp, AInv st -> agrees st m -> Sim st sp -> Forall xop_ok xs ->
  xrun st xs = sxrun sp m xs /\ AInv (xfinal st xs).
Proof.
  induction xs as [|x xs IH]; intros st m sp I A S F; simpl; [auto|].
  inversion F as [|? ? Hx F']; subst.
  destruct (xstep_joint st m sp x I A S Hx) as (E & I' & A' & S').
  destruct (xstep st x) as [s1 out1]. destruct (sxstep sp m x) as [[sp1 m1] out2]. simpl in *. subst out2.
  destruct (IH s1 m1 sp1 I' A' S' F') as [E1 I1]. split; [f_equal; exact E1 | exact I1].
Qed.
