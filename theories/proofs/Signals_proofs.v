(* C35 - proofs about model/Signals.v: cover lemma, per-op step lemmas, invariant over all op sequences,
   rebuild (resume) lemma, mode table check, refutation of the unfixed scroll. *)
From Coq Require Import ZArith List Bool Lia.
From PCB Require Import lib.Result lib.PyInt gen.Gen_signals model.Signals.
Import ListNotations.
Open Scope Z_scope.

(* ------------------------------------------------------------------------------------------------ *)
(* booleans to propositions *)
Lemma inrect_true : forall y0 y1 x0 x1 y x,
  inrect y0 y1 x0 x1 y x = true <-> (y0 <= y < y1 /\ x0 <= x < x1).
Proof. intros. unfold inrect. rewrite !andb_true_iff, !Z.leb_le, !Z.ltb_lt. lia. Qed.

Lemma inrect_false : forall y0 y1 x0 x1 y x,
  inrect y0 y1 x0 x1 y x = false <-> ~ (y0 <= y < y1 /\ x0 <= x < x1).
Proof. intros. rewrite <- inrect_true. destruct (inrect y0 y1 x0 x1 y x); intuition congruence. Qed.

Ltac rect_hyps :=
  repeat match goal with
         | H : inrect _ _ _ _ _ _ = true |- _ => apply inrect_true in H
         | H : inrect _ _ _ _ _ _ = false |- _ => apply inrect_false in H
         | H : andb _ _ = true |- _ => apply andb_true_iff in H; destruct H
         end.

(* ------------------------------------------------------------------------------------------------ *)
(* configuration *)
Definition cfg_ok (c : cfg) : Prop :=
  0 < fw c /\ 0 < fh c /\ 0 < TW c /\ 0 < TH c /\ PW c = TW c * fw c
  /\ (fh c - 1) * TH c < PH c /\ PH c <= TH c * fh c /\ (TH c - 1) * fh c < PH c.

Lemma cfg_okb_ok : forall c, cfg_okb c = true <-> cfg_ok c.
Proof.
  intros c. unfold cfg_okb, cfg_ok.
  rewrite !andb_true_iff, !Z.ltb_lt, !Z.leb_le, Z.eqb_eq. tauto.
Qed.

(* every video mode of display/modes.py (regenerated table) satisfies the geometry assumptions *)
Lemma mode_table_ok : forallb (fun t => cfg_okb (cfg_of_tuple t)) mode_table = true.
Proof. vm_compute. reflexivity. Qed.

Lemma mode_table_cfg_ok : forall t, In t mode_table -> cfg_ok (cfg_of_tuple t).
Proof.
  intros t Hin. apply cfg_okb_ok.
  pose proof mode_table_ok as H. rewrite forallb_forall in H. exact (H t Hin).
Qed.

(* ------------------------------------------------------------------------------------------------ *)
(* what the regenerated rectangle arithmetic computes; everything below uses only these equations, so a
   refactoring of the Python expressions that keeps their value (up to ring identities) keeps the proofs *)
Ltac pair_eq := repeat match goal with |- (_, _) = (_, _) => apply f_equal2 end; try reflexivity; try lia.

Lemma pos_eq : forall c row col, pos c row col = ((col - 1) * fw c, (row - 1) * fh c).
Proof. intros. unfold pos, vb_text_to_pixel_pos. cbv beta iota zeta. pair_eq. Qed.

Lemma area_eq : forall c r0 c0 r1 c1,
  area c r0 c0 r1 c1 = ((c0 - 1) * fw c, (r0 - 1) * fh c, c1 * fw c - 1, r1 * fh c - 1).
Proof.
  intros. unfold area, vb_text_to_pixel_area, vb_text_to_pixel_pos. cbv beta iota zeta. pair_eq.
Qed.

Lemma text_area_eq : forall c x0 y0 x1 y1,
  text_area c x0 y0 x1 y1 =
  (Z.min (TH c) (Z.max 1 (1 + y0 / fh c)), Z.min (TW c) (Z.max 1 (1 + x0 / fw c)),
   Z.min (TH c) (Z.max 1 (1 + y1 / fh c)), Z.min (TW c) (Z.max 1 (1 + x1 / fw c))).
Proof.
  intros. unfold text_area, vb_pixel_to_text_area. cbv beta iota zeta. pair_eq.
Qed.

Lemma sdl_font_size_eq : forall a b ph pw th tw, sdl_font_size a b ph pw th tw = (- (- ph / th), pw / tw).
Proof. intros. unfold sdl_font_size. cbv beta iota zeta. pair_eq. Qed.

Lemma sdl_scroll_bands_eq : forall f a b,
  sdl_scroll_bands f a b = ((a - 1) * f, (b - 1) * f, a * f, b * f).
Proof. intros. unfold sdl_scroll_bands. cbv beta iota zeta. pair_eq. Qed.

Ltac geo := repeat (progress (rewrite ?pos_eq, ?area_eq, ?text_area_eq, ?sdl_scroll_bands_eq; cbv beta iota zeta)).
Ltac geo_in H :=
  repeat (progress (rewrite ?pos_eq, ?area_eq, ?text_area_eq in H; cbv beta iota zeta in H)).

(* the consumer derives the same font size from the SET_MODE numbers *)
Lemma sdl_font_size_ok : forall c a b, cfg_ok c ->
  sdl_font_size a b (PH c) (PW c) (TH c) (TW c) = (fh c, fw c).
Proof.
  intros c a b (Hfw & Hfh & Htw & Hth & Hpw & Hlo & Hhi & _).
  rewrite sdl_font_size_eq. f_equal.
  - assert (E : - PH c / TH c = - fh c).
    { symmetry. apply Z.div_unique with (r := fh c * TH c - PH c); [left; lia | lia]. }
    rewrite E. lia.
  - rewrite Hpw. rewrite Z.mul_comm. apply Z.div_mul. lia.
Qed.

(* ------------------------------------------------------------------------------------------------ *)
(* the cover lemma: the text area of a pixel rectangle, turned back into pixels as _submit does,
   contains the rectangle - for every font size *)
Lemma div_cell_lo : forall a f, 0 < f -> 0 <= a -> (1 + a / f - 1) * f <= a.
Proof. intros a f Hf Ha. replace (1 + a / f - 1) with (a / f) by lia.
  pose proof (Z.mul_div_le a f Hf). lia. Qed.

Lemma div_cell_hi : forall a f, 0 < f -> 0 <= a -> a < (1 + a / f) * f.
Proof. intros a f Hf Ha.
  pose proof (Z.mod_pos_bound a f Hf). pose proof (Z.div_mod a f). lia. Qed.

Lemma clamp_cell : forall a f n, 0 < f -> 0 < n -> 0 <= a < n * f ->
  Z.min n (Z.max 1 (1 + a / f)) = 1 + a / f /\ 1 <= 1 + a / f <= n.
Proof.
  intros a f n Hf Hn [Ha Hb].
  assert (0 <= a / f) by (apply Z.div_pos; lia).
  assert (a / f < n) by (apply Z.div_lt_upper_bound; lia).
  lia.
Qed.

Theorem cover : forall c y0 y1 x0 x1, cfg_ok c ->
  0 <= y0 <= y1 -> y1 < PH c -> 0 <= x0 <= x1 -> x1 < PW c ->
  let '(row0, col0, row1, col1) := text_area c x0 y0 x1 y1 in
  let '(px0, py0) := pos c row0 col0 in
  let '(px1, py1) := pos c (row1 + 1) (col1 + 1) in
  py0 <= y0 /\ y1 < py1 /\ px0 <= x0 /\ x1 < px1
  /\ 1 <= row0 <= row1 /\ row1 <= TH c /\ 1 <= col0 <= col1 /\ col1 <= TW c.
Proof.
  intros c y0 y1 x0 x1 (Hfw & Hfh & Htw & Hth & Hpw & Hlo & Hhi & Hlast) Hy Hy1 Hx Hx1.
  geo.
  assert (Hyb : y1 < TH c * fh c) by lia.
  assert (Hxb : x1 < TW c * fw c) by lia.
  destruct (clamp_cell x0 (fw c) (TW c)) as [Ex0 Rx0]; try lia.
  destruct (clamp_cell x1 (fw c) (TW c)) as [Ex1 Rx1]; try lia.
  destruct (clamp_cell y0 (fh c) (TH c)) as [Ey0 Ry0]; try lia.
  destruct (clamp_cell y1 (fh c) (TH c)) as [Ey1 Ry1]; try lia.
  rewrite Ex0, Ex1, Ey0, Ey1.
  pose proof (div_cell_lo x0 (fw c) Hfw). pose proof (div_cell_lo y0 (fh c) Hfh).
  pose proof (div_cell_hi x1 (fw c) Hfw). pose proof (div_cell_hi y1 (fh c) Hfh).
  assert (x0 / fw c <= x1 / fw c) by (apply Z.div_le_mono; lia).
  assert (y0 / fh c <= y1 / fh c) by (apply Z.div_le_mono; lia).
  replace (1 + x1 / fw c + 1 - 1) with (1 + x1 / fw c) by lia.
  replace (1 + y1 / fh c + 1 - 1) with (1 + y1 / fh c) by lia.
  lia.
Qed.

(* ------------------------------------------------------------------------------------------------ *)
(* agreement between the consumer and one page *)
Definition geom_ok (c : cfg) (k : cons) : Prop :=
  cPH k = PH c /\ cPW k = PW c /\ cTH k = TH c /\ cTW k = TW c /\ cfh k = fh c /\ cfw k = fw c.

Definition inb (c : cfg) (y x : Z) : Prop := 0 <= y < PH c /\ 0 <= x < PW c.

Definition agree (c : cfg) (pg : page) (k : cons) : Prop :=
  forall y x, inb c y x -> canvas k y x = px pg y x.

(* character cells: rows 1..TH, columns 1..TW *)
Definition tin (c : cfg) (r col : Z) : Prop := 1 <= r <= TH c /\ 1 <= col <= TW c.

Definition tagree (c : cfg) (pg : page) (k : cons) : Prop :=
  forall r col, tin c r col -> ctext k r col = txt pg r col.

Lemma incells_true : forall r0 r1 c0 c1 r col,
  incells r0 r1 c0 c1 r col = true <-> (r0 <= r <= r1 /\ c0 <= col <= c1).
Proof. intros. unfold incells. rewrite !andb_true_iff, !Z.leb_le. lia. Qed.

Lemma incells_false : forall r0 r1 c0 c1 r col,
  incells r0 r1 c0 c1 r col = false <-> ~ (r0 <= r <= r1 /\ c0 <= col <= c1).
Proof. intros. rewrite <- incells_true. destruct (incells r0 r1 c0 c1 r col); intuition congruence. Qed.

Lemma tset_in : forall t r0 r1 c0 c1 img r col, r0 <= r <= r1 -> c0 <= col <= c1 ->
  tset t r0 r1 c0 c1 img r col = img r col.
Proof.
  intros. unfold tset. assert (E : incells r0 r1 c0 c1 r col = true) by (apply incells_true; lia).
  rewrite E. reflexivity.
Qed.

Lemma tset_out : forall t r0 r1 c0 c1 img r col, ~ (r0 <= r <= r1 /\ c0 <= col <= c1) ->
  tset t r0 r1 c0 c1 img r col = t r col.
Proof.
  intros. unfold tset. assert (E : incells r0 r1 c0 c1 r col = false) by (apply incells_false; assumption).
  rewrite E. reflexivity.
Qed.

Lemma mset_in : forall c m y0 y1 x0 x1 img y x, inb c y x -> y0 <= y < y1 -> x0 <= x < x1 ->
  mset c m y0 y1 x0 x1 img y x = img y x.
Proof.
  intros c m y0 y1 x0 x1 img y x [Hy Hx] Hy' Hx'. unfold mset.
  assert (E1 : inrect y0 y1 x0 x1 y x = true) by (apply inrect_true; lia).
  assert (E2 : inrect 0 (PH c) 0 (PW c) y x = true) by (apply inrect_true; lia).
  rewrite E1, E2. reflexivity.
Qed.

Lemma mset_out : forall c m y0 y1 x0 x1 img y x, ~ (y0 <= y < y1 /\ x0 <= x < x1) ->
  mset c m y0 y1 x0 x1 img y x = m y x.
Proof.
  intros c m y0 y1 x0 x1 img y x H. unfold mset.
  assert (E1 : inrect y0 y1 x0 x1 y x = false) by (apply inrect_false; exact H).
  rewrite E1. reflexivity.
Qed.

Lemma cset_in : forall k y0 y1 x0 x1 img y x, 0 <= y < cPH k -> 0 <= x < cPW k -> y0 <= y < y1 -> x0 <= x < x1 ->
  cset k y0 y1 x0 x1 img y x = img y x.
Proof.
  intros k y0 y1 x0 x1 img y x Hy Hx Hy' Hx'. unfold cset.
  assert (E1 : inrect y0 y1 x0 x1 y x = true) by (apply inrect_true; lia).
  assert (E2 : inrect 0 (cPH k) 0 (cPW k) y x = true) by (apply inrect_true; lia).
  rewrite E1, E2. reflexivity.
Qed.

Lemma cset_out : forall k y0 y1 x0 x1 img y x, ~ (y0 <= y < y1 /\ x0 <= x < x1) ->
  cset k y0 y1 x0 x1 img y x = canvas k y x.
Proof.
  intros k y0 y1 x0 x1 img y x H. unfold cset.
  assert (E1 : inrect y0 y1 x0 x1 y x = false) by (apply inrect_false; exact H).
  rewrite E1. reflexivity.
Qed.

(* ------------------------------------------------------------------------------------------------ *)
(* _submit + update: inside the submitted pixel rectangle the canvas becomes the page, outside it is unchanged.
   No range condition is needed: the sprite is clipped on both sides of the queue. *)
Lemma consume_app : forall k l1 l2, consume k (l1 ++ l2) = consume (consume k l1) l2.
Proof. intros. unfold consume. apply fold_left_app. Qed.

Lemma sigs_app : forall a b, sigs (a ++ b) = sigs a ++ sigs b.
Proof. induction a as [|e a IH]; intros; simpl; [reflexivity|]. destruct e; simpl; rewrite ?IH; reflexivity. Qed.

Lemma submit_invisible : forall c pg t l b r, visible pg = false -> submit c pg t l b r = [].
Proof. intros. unfold submit. rewrite H. reflexivity. Qed.

Lemma submit_geom : forall c pg k t l b r, geom_ok c k -> geom_ok c (consume k (sigs (submit c pg t l b r))).
Proof.
  intros c pg k t l b r G. unfold submit. destruct (visible pg); [|exact G].
  geo. simpl. exact G.
Qed.

Lemma submit_spec : forall c pg k t l b r y x, geom_ok c k -> visible pg = true -> inb c y x ->
  canvas (consume k (sigs (submit c pg t l b r))) y x =
  if inrect ((t - 1) * fh c) ((b + 1 - 1) * fh c) ((l - 1) * fw c) ((r + 1 - 1) * fw c) y x
  then px pg y x else canvas k y x.
Proof.
  intros c pg k t l b r y x (G1 & G2 & _) V [Hy Hx].
  unfold submit. rewrite V. geo.
  simpl sigs. unfold consume. simpl fold_left. unfold consume1, set_ctext, set_canvas. simpl canvas.
  rewrite G1, G2.
  set (y0 := (t - 1) * fh c). set (y1 := (b + 1 - 1) * fh c).
  set (x0 := (l - 1) * fw c). set (x1 := (r + 1 - 1) * fw c).
  set (h := Z.max 0 (Z.min y1 (PH c) - y0)). set (w := Z.max 0 (Z.min x1 (PW c) - x0)).
  destruct (inrect y0 y1 x0 x1 y x) eqn:E.
  - apply inrect_true in E.
    rewrite cset_in; try (rewrite ?G1, ?G2; lia).
    + f_equal; lia.
    + destruct ((y0 + h >? PH c) || (x0 + w >? PW c)); lia.
    + destruct ((y0 + h >? PH c) || (x0 + w >? PW c)); lia.
  - apply inrect_false in E.
    rewrite cset_out; [reflexivity|].
    destruct ((y0 + h >? PH c) || (x0 + w >? PW c)); lia.
Qed.

(* a point keeps agreeing when the page is changed only inside a rectangle that is then submitted *)
Lemma submit_point : forall c pg k t l b r y x, geom_ok c k -> visible pg = true -> inb c y x ->
  (canvas k y x = px pg y x \/
   ((t - 1) * fh c <= y < (b + 1 - 1) * fh c /\ (l - 1) * fw c <= x < (r + 1 - 1) * fw c)) ->
  canvas (consume k (sigs (submit c pg t l b r))) y x = px pg y x.
Proof.
  intros c pg k t l b r y x G V I H. rewrite submit_spec by assumption.
  destruct (inrect _ _ _ _ y x) eqn:E; [reflexivity|].
  apply inrect_false in E. destruct H as [H|H]; [exact H | tauto].
Qed.

(* the same for the text carried by the update signal: the cells of the submitted text rectangle *)
Lemma submit_tspec : forall c pg k t l b r row col, visible pg = true -> tin c row col ->
  ctext (consume k (sigs (submit c pg t l b r))) row col =
  if incells t b l r row col then txt pg row col else ctext k row col.
Proof.
  intros c pg k t l b r row col V [Hr Hc].
  unfold submit. rewrite V. geo.
  simpl sigs. unfold consume. simpl fold_left. unfold consume1, set_ctext, set_canvas. simpl ctext.
  destruct (incells t b l r row col) eqn:E.
  - apply incells_true in E. rewrite tset_in by lia. f_equal; lia.
  - apply incells_false in E. rewrite tset_out by lia. reflexivity.
Qed.

Lemma submit_tpoint : forall c pg k t l b r row col, visible pg = true -> tin c row col ->
  (ctext k row col = txt pg row col \/ (t <= row <= b /\ l <= col <= r)) ->
  ctext (consume k (sigs (submit c pg t l b r))) row col = txt pg row col.
Proof.
  intros c pg k t l b r row col V I H. rewrite submit_tspec by assumption.
  destruct (incells t b l r row col) eqn:E; [reflexivity|].
  apply incells_false in E. destruct H as [H|H]; [exact H | tauto].
Qed.

(* ------------------------------------------------------------------------------------------------ *)
(* force_submit *)
Lemma draw_visible : forall c p pg row s e img, visible (fst (draw c p pg row s e img)) = visible pg.
Proof. intros. unfold draw. geo. reflexivity. Qed.

Lemma draw_sigs : forall c p pg row s e img, sigs (snd (draw c p pg row s e img)) = [].
Proof. intros. unfold draw. geo. reflexivity. Qed.

Lemma draw_txt : forall c p pg row s e img, txt (fst (draw c p pg row s e img)) = txt pg.
Proof. intros. unfold draw. geo. reflexivity. Qed.

Lemma draw_px : forall c p pg row s e img y x,
  px (fst (draw c p pg row s e img)) y x =
  mset c (px pg) ((row - 1) * fh c) (row * fh c - 1 + 1) ((s - 1) * fw c) (e * fw c - 1 + 1) img y x.
Proof. intros. unfold draw. geo. reflexivity. Qed.

(* one iteration: draw the cells, submit the cells *)
Lemma draw_submit_point : forall c p pg k row s e img y x, geom_ok c k -> visible pg = true -> inb c y x ->
  canvas k y x = px pg y x ->
  let pg1 := fst (draw c p pg row s e img) in
  canvas (consume k (sigs (submit c pg1 row s row e))) y x = px pg1 y x.
Proof.
  intros c p pg k row s e img y x G V I A pg1.
  assert (V1 : visible pg1 = true) by (unfold pg1; rewrite draw_visible; exact V).
  apply submit_point; try assumption.
  destruct (Z_le_gt_dec ((row - 1) * fh c) y) as [Ha|Ha];
  destruct (Z_lt_le_dec y (row * fh c)) as [Hb|Hb];
  destruct (Z_le_gt_dec ((s - 1) * fw c) x) as [Hc|Hc];
  destruct (Z_lt_le_dec x (e * fw c)) as [Hd|Hd];
  try (right; split; lia);
  left; unfold pg1; rewrite draw_px, mset_out by lia; exact A.
Qed.

(* the loop body, whatever the widening input says, is: draw cells (r, s..e), submit the same cells *)
Opaque draw submit.
Lemma fs_loop_unfold : forall c p pg r l rr d ws timg img,
  exists s e ws' bad,
    sigs bad = [] /\
    let pg0 := refresh_row pg r s e timg in
    fs_loop c p pg ((r, (l, rr)) :: d) ws timg img =
    (fst (fs_loop c p (fst (draw c p pg0 r s e img)) d ws' timg img),
     bad ++ snd (draw c p pg0 r s e img) ++ submit c (fst (draw c p pg0 r s e img)) r s r e
         ++ snd (fs_loop c p (fst (draw c p pg0 r s e img)) d ws' timg img)).
Proof.
  intros. simpl fs_loop.
  destruct ws as [|[[r2 s2] e2] ws'].
  - exists l, rr, [], [EBad 3]. split; [reflexivity|]. cbv zeta.
    destruct (draw c p (refresh_row pg r l rr timg) r l rr img) as [pg1 ev1]. simpl.
    destruct (fs_loop c p pg1 d [] timg img) as [pg2 ev3]. reflexivity.
  - destruct ((r2 =? r) && (s2 <=? l) && (rr <=? e2)).
    + exists s2, e2, ws', []. split; [reflexivity|]. cbv zeta.
      destruct (draw c p (refresh_row pg r s2 e2 timg) r s2 e2 img) as [pg1 ev1]. simpl.
      destruct (fs_loop c p pg1 d ws' timg img) as [pg2 ev3]. reflexivity.
    + exists l, rr, ws', [EBad 2]. split; [reflexivity|]. cbv zeta.
      destruct (draw c p (refresh_row pg r l rr timg) r l rr img) as [pg1 ev1]. simpl.
      destruct (fs_loop c p pg1 d ws' timg img) as [pg2 ev3]. reflexivity.
Qed.
Transparent draw submit.

Lemma refresh_visible : forall pg r s e timg, visible (refresh_row pg r s e timg) = visible pg.
Proof. reflexivity. Qed.

Lemma refresh_px : forall pg r s e timg, px (refresh_row pg r s e timg) = px pg.
Proof. reflexivity. Qed.

Ltac fs_step c p pg r l rr d ws timg img :=
  let s := fresh "s" in let e := fresh "e" in let ws' := fresh "ws'" in let bad := fresh "bad" in
  let Hb := fresh "Hb" in let E := fresh "E" in
  destruct (fs_loop_unfold c p pg r l rr d ws timg img) as (s & e & ws' & bad & Hb & E);
  cbv zeta in E; rewrite E; cbn [fst snd];
  set (pg0 := refresh_row pg r s e timg) in *.

Lemma fs_loop_visible : forall c p d pg ws timg img, visible (fst (fs_loop c p pg d ws timg img)) = visible pg.
Proof.
  intros c p d. induction d as [|[r [l rr]] d IH]; intros pg ws timg img; [reflexivity|].
  fs_step c p pg r l rr d ws timg img.
  rewrite IH. rewrite draw_visible. reflexivity.
Qed.

Lemma fs_loop_invisible : forall c p d pg ws timg img, visible pg = false ->
  sigs (snd (fs_loop c p pg d ws timg img)) = [].
Proof.
  intros c p d. induction d as [|[r [l rr]] d IH]; intros pg ws timg img V.
  - simpl. destruct ws; reflexivity.
  - fs_step c p pg r l rr d ws timg img.
    assert (V1 : visible (fst (draw c p pg0 r s e img)) = false) by (rewrite draw_visible; exact V).
    rewrite !sigs_app, Hb, draw_sigs, submit_invisible by exact V1. simpl. apply IH. exact V1.
Qed.

Lemma fs_loop_geom : forall c p d pg k ws timg img, geom_ok c k ->
  geom_ok c (consume k (sigs (snd (fs_loop c p pg d ws timg img)))).
Proof.
  intros c p d. induction d as [|[r [l rr]] d IH]; intros pg k ws timg img G.
  - simpl. destruct ws; exact G.
  - fs_step c p pg r l rr d ws timg img.
    rewrite !sigs_app, Hb, draw_sigs. simpl app. rewrite consume_app. apply IH. apply submit_geom. exact G.
Qed.

(* every point that agreed before the loop agrees after it *)
Lemma fs_loop_point : forall c p d pg k ws timg img y x, geom_ok c k -> visible pg = true -> inb c y x ->
  canvas k y x = px pg y x ->
  canvas (consume k (sigs (snd (fs_loop c p pg d ws timg img)))) y x = px (fst (fs_loop c p pg d ws timg img)) y x.
Proof.
  intros c p d. induction d as [|[r [l rr]] d IH]; intros pg k ws timg img y x G V I A.
  - simpl. destruct ws; exact A.
  - fs_step c p pg r l rr d ws timg img.
    rewrite !sigs_app, Hb, draw_sigs. simpl app. rewrite consume_app.
    apply IH.
    + apply submit_geom. exact G.
    + rewrite draw_visible. exact V.
    + exact I.
    + apply (draw_submit_point c p pg0 k r s e img y x);
        [exact G | unfold pg0; rewrite refresh_visible; exact V | exact I | unfold pg0; rewrite refresh_px; exact A].
Qed.

(* every cell that agreed before the loop agrees after it: the refreshed cells (r, s..e) are the submitted ones *)
Lemma fs_loop_tpoint : forall c p d pg k ws timg img row col, visible pg = true -> tin c row col ->
  ctext k row col = txt pg row col ->
  ctext (consume k (sigs (snd (fs_loop c p pg d ws timg img)))) row col
  = txt (fst (fs_loop c p pg d ws timg img)) row col.
Proof.
  intros c p d. induction d as [|[r [l rr]] d IH]; intros pg k ws timg img row col V I A.
  - simpl. destruct ws; exact A.
  - fs_step c p pg r l rr d ws timg img.
    rewrite !sigs_app, Hb, draw_sigs. simpl app. rewrite consume_app.
    assert (V1 : visible (fst (draw c p pg0 r s e img)) = true) by (rewrite draw_visible; exact V).
    apply IH; [exact V1 | exact I |].
    apply submit_tpoint; [exact V1 | exact I |].
    rewrite draw_txt. unfold pg0, refresh_row. cbn [txt set_txt].
    destruct (incells r r s e row col) eqn:Ein.
    + right. apply incells_true in Ein. exact Ein.
    + left. apply incells_false in Ein. rewrite tset_out by exact Ein. exact A.
Qed.

(* the loop does not touch pixel rows that belong to no dirty text row *)
Lemma fs_loop_px_outside : forall c p d pg ws timg img y x,
  (forall t, In t d -> ~ ((fst t - 1) * fh c <= y < fst t * fh c)) ->
  px (fst (fs_loop c p pg d ws timg img)) y x = px pg y x.
Proof.
  intros c p d. induction d as [|[r [l rr]] d IH]; intros pg ws timg img y x H.
  - simpl. reflexivity.
  - fs_step c p pg r l rr d ws timg img.
    rewrite IH by (intros t Ht; apply H; right; exact Ht).
    rewrite draw_px. rewrite mset_out; [reflexivity|].
    specialize (H (r, (l, rr)) (or_introl eq_refl)). simpl in H. lia.
Qed.

(* ... nor text rows that are not dirty *)
Lemma fs_loop_txt_outside : forall c p d pg ws timg img row col,
  (forall t, In t d -> fst t <> row) ->
  txt (fst (fs_loop c p pg d ws timg img)) row col = txt pg row col.
Proof.
  intros c p d. induction d as [|[r [l rr]] d IH]; intros pg ws timg img row col H.
  - simpl. reflexivity.
  - fs_step c p pg r l rr d ws timg img.
    rewrite IH by (intros t Ht; apply H; right; exact Ht).
    rewrite draw_txt. unfold pg0, refresh_row. cbn [txt set_txt]. apply tset_out.
    specialize (H (r, (l, rr)) (or_introl eq_refl)). simpl in H. lia.
Qed.

Lemma force_submit_fst : forall c p pg ws timg img,
  fst (force_submit c p pg ws timg img) = set_dirty (fst (fs_loop c p pg (dirty pg) ws timg img)) [].
Proof. intros. unfold force_submit. destruct (fs_loop c p pg (dirty pg) ws timg img). reflexivity. Qed.

Lemma force_submit_snd : forall c p pg ws timg img,
  snd (force_submit c p pg ws timg img) = snd (fs_loop c p pg (dirty pg) ws timg img).
Proof. intros. unfold force_submit. destruct (fs_loop c p pg (dirty pg) ws timg img). reflexivity. Qed.

Lemma force_submit_visible : forall c p pg ws timg img, visible (fst (force_submit c p pg ws timg img)) = visible pg.
Proof. intros. rewrite force_submit_fst. simpl. apply fs_loop_visible. Qed.

Lemma force_submit_dirty : forall c p pg ws timg img, dirty (fst (force_submit c p pg ws timg img)) = [].
Proof. intros. rewrite force_submit_fst. reflexivity. Qed.

Lemma force_submit_invisible : forall c p pg ws timg img, visible pg = false ->
  sigs (snd (force_submit c p pg ws timg img)) = [].
Proof. intros. rewrite force_submit_snd. apply fs_loop_invisible. assumption. Qed.

Lemma force_submit_geom : forall c p pg k ws timg img, geom_ok c k ->
  geom_ok c (consume k (sigs (snd (force_submit c p pg ws timg img)))).
Proof. intros. rewrite force_submit_snd. apply fs_loop_geom. assumption. Qed.

Lemma force_submit_point : forall c p pg k ws timg img y x, geom_ok c k -> visible pg = true -> inb c y x ->
  canvas k y x = px pg y x ->
  canvas (consume k (sigs (snd (force_submit c p pg ws timg img)))) y x
  = px (fst (force_submit c p pg ws timg img)) y x.
Proof. intros. rewrite force_submit_snd, force_submit_fst. simpl px. apply fs_loop_point; assumption. Qed.

Lemma force_submit_tpoint : forall c p pg k ws timg img row col, visible pg = true -> tin c row col ->
  ctext k row col = txt pg row col ->
  ctext (consume k (sigs (snd (force_submit c p pg ws timg img)))) row col
  = txt (fst (force_submit c p pg ws timg img)) row col.
Proof. intros. rewrite force_submit_snd, force_submit_fst. simpl txt. apply fs_loop_tpoint; assumption. Qed.

Lemma force_submit_agree : forall c p pg k ws timg img, geom_ok c k -> visible pg = true -> agree c pg k ->
  agree c (fst (force_submit c p pg ws timg img)) (consume k (sigs (snd (force_submit c p pg ws timg img)))).
Proof. intros c p pg k ws timg img G V A y x I. apply force_submit_point; auto. Qed.

Lemma force_submit_tagree : forall c p pg k ws timg img, visible pg = true -> tagree c pg k ->
  tagree c (fst (force_submit c p pg ws timg img)) (consume k (sigs (snd (force_submit c p pg ws timg img)))).
Proof. intros c p pg k ws timg img V A row col I. apply force_submit_tpoint; auto. Qed.

(* ------------------------------------------------------------------------------------------------ *)
(* what a page operation must satisfy to keep the picture right (lifted to the display below) *)
Definition page_op_ok (c : cfg) (pg : page) (r : page * list event) : Prop :=
  visible (fst r) = visible pg /\
  (visible pg = false -> sigs (snd r) = []) /\
  (forall k, geom_ok c k -> geom_ok c (consume k (sigs (snd r)))) /\
  (forall k, geom_ok c k -> visible pg = true -> agree c pg k -> agree c (fst r) (consume k (sigs (snd r)))).

Lemma mk_page_op_ok : forall c pg r,
  visible (fst r) = visible pg ->
  (visible pg = false -> sigs (snd r) = []) ->
  (forall k, geom_ok c k -> geom_ok c (consume k (sigs (snd r)))) ->
  (forall k, geom_ok c k -> visible pg = true -> agree c pg k -> agree c (fst r) (consume k (sigs (snd r)))) ->
  page_op_ok c pg r.
Proof. intros. unfold page_op_ok. tauto. Qed.

(* ... and for the character cells *)
Definition page_op_tok (c : cfg) (pg : page) (r : page * list event) : Prop :=
  forall k, geom_ok c k -> visible pg = true -> tagree c pg k -> tagree c (fst r) (consume k (sigs (snd r))).

Lemma full_tcover : forall c r col, tin c r col -> 1 <= r <= TH c /\ 1 <= col <= TW c.
Proof. intros c r col H. exact H. Qed.

Lemma resubmit_tagree : forall c pg k, visible pg = true -> tagree c pg (consume k (sigs (resubmit c pg))).
Proof.
  intros c pg k V r col I. unfold resubmit. apply submit_tpoint; try assumption. right. exact I.
Qed.

(* ... and for the bookkeeping invariant: a page that is not locked has no pending dirty rows *)
Definition clean (pg : page) : Prop := locked pg = false -> dirty pg = [].
Definition page_op_lk (pg : page) (r : page * list event) : Prop := clean pg -> clean (fst r).

Lemma force_submit_lk : forall c p pg ws timg img, clean (fst (force_submit c p pg ws timg img)).
Proof. intros c p pg ws timg img _. apply force_submit_dirty. Qed.

Lemma fs_loop_locked : forall c p d pg ws timg img, locked (fst (fs_loop c p pg d ws timg img)) = locked pg.
Proof.
  intros c p d. induction d as [|[r [l rr]] d IH]; intros pg ws timg img; [reflexivity|].
  fs_step c p pg r l rr d ws timg img. rewrite IH. unfold draw. geo. reflexivity.
Qed.

Lemma full_cover : forall c y x, cfg_ok c -> inb c y x ->
  (1 - 1) * fh c <= y < (TH c + 1 - 1) * fh c /\ (1 - 1) * fw c <= x < (TW c + 1 - 1) * fw c.
Proof. intros c y x (Hfw & Hfh & Htw & Hth & Hpw & Hlo & Hhi & Hlast) [Hy Hx]. lia. Qed.

(* resubmit: the whole matrix is sent, whatever the canvas was *)
Lemma resubmit_agree : forall c pg k, cfg_ok c -> geom_ok c k -> visible pg = true ->
  agree c pg (consume k (sigs (resubmit c pg))).
Proof.
  intros c pg k C G V y x I. unfold resubmit. apply submit_point; try assumption.
  right. apply full_cover; assumption.
Qed.

Lemma resubmit_geom : forall c pg k, geom_ok c k -> geom_ok c (consume k (sigs (resubmit c pg))).
Proof. intros. unfold resubmit. apply submit_geom. assumption. Qed.

(* ---- pixel write through _PixelAccess *)
Lemma pix_set_ok : forall c p pg y0 y1 x0 x1 v img, cfg_ok c ->
  0 <= y0 <= y1 -> y1 <= PH c -> 0 <= x0 <= x1 -> x1 <= PW c ->
  page_op_ok c pg (pix_set c p pg y0 y1 x0 x1 v img).
Proof.
  intros c p pg y0 y1 x0 x1 v img C Hy Hy1 Hx Hx1. unfold pix_set.
  destruct (text_area c x0 y0 (x1 - 1) (y1 - 1)) as [[[row0 col0] row1] col1] eqn:E.
  apply mk_page_op_ok; cbn [fst snd sigs].
  - reflexivity.
  - intros V. rewrite submit_invisible by exact V. reflexivity.
  - intros k G. apply submit_geom. exact G.
  - intros k G V A y x I. apply submit_point; try assumption.
    destruct (Z_le_gt_dec y0 y) as [Ha|Ha]; destruct (Z_lt_le_dec y y1) as [Hb|Hb];
    destruct (Z_le_gt_dec x0 x) as [Hc|Hc]; destruct (Z_lt_le_dec x x1) as [Hd|Hd];
    try (left; cbn [px set_px set_txt]; rewrite mset_out by lia; apply A; exact I).
    right.
    pose proof (cover c y0 (y1 - 1) x0 (x1 - 1) C) as Hcov.
    rewrite E in Hcov. geo_in Hcov.
    destruct I as [Iy Ix]. lia.
Qed.

Lemma pix_set_tok : forall c p pg y0 y1 x0 x1 v img, page_op_tok c pg (pix_set c p pg y0 y1 x0 x1 v img).
Proof.
  intros c p pg y0 y1 x0 x1 v img. unfold pix_set.
  destruct (text_area c x0 y0 (x1 - 1) (y1 - 1)) as [[[row0 col0] row1] col1] eqn:E.
  intros k G V A r col I. cbn [fst snd sigs]. apply submit_tpoint; try assumption.
  cbn [txt set_txt].
  destruct (incells row0 row1 col0 col1 r col) eqn:Ein.
  - right. apply incells_true in Ein. exact Ein.
  - left. apply incells_false in Ein. rewrite tset_out by exact Ein. apply A. exact I.
Qed.

(* ---- _update (put_char_attr, insert/delete, clear_row_from): dirty rectangle, submitted unless locked *)
Lemma force_submit_ok : forall c p pg ws timg img, page_op_ok c pg (force_submit c p pg ws timg img).
Proof.
  intros. apply mk_page_op_ok.
  - apply force_submit_visible.
  - apply force_submit_invisible.
  - intros. apply force_submit_geom. assumption.
  - intros. apply force_submit_agree; assumption.
Qed.

Lemma page_op_ok_same_px : forall c pg pg' r, px pg' = px pg -> visible pg' = visible pg ->
  page_op_ok c pg' r -> page_op_ok c pg r.
Proof.
  intros c pg pg' r Hp Hv (A & B & C & D). apply mk_page_op_ok; rewrite <- ?Hv; auto.
  intros k G V Ag. apply D; auto. intros y x I. rewrite Hp. apply Ag. exact I.
Qed.

Lemma update_ok : forall c p pg row s e ws timg img, page_op_ok c pg (update c p pg row s e ws timg img).
Proof.
  intros. unfold update. cbn [locked set_dirty].
  destruct (locked pg).
  - apply mk_page_op_ok; cbn [fst snd].
    + reflexivity.
    + intros _. destruct ws; reflexivity.
    + intros k G. destruct ws; exact G.
    + intros k G V A. destruct ws; exact A.
  - apply page_op_ok_same_px with (pg' := set_dirty pg (dirty_add row s e (dirty pg))); try reflexivity.
    apply force_submit_ok.
Qed.

Lemma unlock_ok : forall c p pg ws timg img, page_op_ok c pg (unlock c p pg ws timg img).
Proof.
  intros. unfold unlock.
  apply page_op_ok_same_px with (pg' := set_locked pg false); try reflexivity. apply force_submit_ok.
Qed.

Lemma force_submit_tok : forall c p pg ws timg img, page_op_tok c pg (force_submit c p pg ws timg img).
Proof. intros c p pg ws timg img k G V A. apply force_submit_tagree; assumption. Qed.

Lemma update_tok : forall c p pg row s e ws timg img, page_op_tok c pg (update c p pg row s e ws timg img).
Proof.
  intros. unfold update. cbn [locked set_dirty]. destruct (locked pg).
  - intros k G V A. cbn [fst snd]. destruct ws; exact A.
  - intros k G V A. apply (force_submit_tok c p (set_dirty pg (dirty_add row s e (dirty pg)))); assumption.
Qed.

Lemma unlock_tok : forall c p pg ws timg img, page_op_tok c pg (unlock c p pg ws timg img).
Proof. intros c p pg ws timg img k G V A. unfold unlock. apply (force_submit_tok c p (set_locked pg false)); assumption. Qed.

Lemma lock_tok : forall c pg, page_op_tok c pg (set_locked pg true, []).
Proof. intros c pg k G V A. exact A. Qed.

Lemma lock_ok : forall c pg, page_op_ok c pg (set_locked pg true, []).
Proof. intros. apply mk_page_op_ok; cbn [fst snd sigs]; auto. Qed.

(* ---- clear_rows *)
Lemma band_below : forall r a f, 0 < f -> r < a -> r * f <= (a - 1) * f.
Proof. intros. apply Z.mul_le_mono_nonneg_r; lia. Qed.

Lemma band_above : forall r b f, 0 < f -> b < r -> b * f <= (r - 1) * f.
Proof. intros. apply Z.mul_le_mono_nonneg_r; lia. Qed.

Lemma clear_rows_ok : forall c p pg start stop back ws timg img, cfg_ok c ->
  1 <= start <= stop -> stop <= TH c -> no_dirty_in (dirty pg) start stop = true ->
  page_op_ok c pg (clear_rows c p pg start stop back ws timg img).
Proof.
  intros c p pg start stop back ws timg img C Hs Hst Hnd.
  unfold clear_rows. geo.
  set (pg1 := set_txt (set_px pg (mset c (px pg) ((start - 1) * fh c) (stop * fh c - 1 + 1) ((1 - 1) * fw c)
                                   (TW c * fw c - 1 + 1) (fun _ _ => back)))
                      (tset (txt pg) start stop 1 (TW c) tblank)).
  destruct (force_submit c p pg1 ws timg img) as [pg2 ev] eqn:EF.
  assert (Epg2 : pg2 = fst (force_submit c p pg1 ws timg img)) by (rewrite EF; reflexivity).
  assert (Eev : ev = snd (force_submit c p pg1 ws timg img)) by (rewrite EF; reflexivity).
  assert (V2 : visible pg2 = visible pg) by (rewrite Epg2, force_submit_visible; reflexivity).
  apply mk_page_op_ok; cbn [fst snd sigs]; rewrite ?sigs_app.
  - exact V2.
  - intros V. rewrite V2, V. rewrite Eev, force_submit_invisible by exact V. reflexivity.
  - intros k G. rewrite consume_app. rewrite Eev.
    pose proof (force_submit_geom c p pg1 k ws timg img G) as G1.
    destruct (visible pg2); [|exact G1]. cbn [sigs consume fold_left consume1 set_canvas set_ctext]. exact G1.
  - intros k G V A. rewrite V2, V. cbn [sigs]. rewrite consume_app. rewrite Eev.
    pose proof (force_submit_geom c p pg1 k ws timg img G) as G1.
    set (k1 := consume k (sigs (snd (force_submit c p pg1 ws timg img)))) in *.
    destruct C as (Hfw & Hfh & Htw & Hth & Hpw & Hlo & Hhi & Hlast).
    destruct G1 as (G1a & G1b & G1c & G1d & G1e & G1f).
    intros y x I. cbn [consume fold_left consume1 set_canvas set_ctext canvas]. rewrite G1e, G1b.
    destruct I as [Iy Ix].
    destruct (Z_le_gt_dec ((start - 1) * fh c) y) as [Ha|Ha]; destruct (Z_lt_le_dec y (stop * fh c)) as [Hb|Hb].
    + (* inside the cleared band: both sides are `back` *)
      rewrite cset_in by (rewrite ?G1a, ?G1b; lia).
      rewrite Epg2, force_submit_fst. cbn [px set_dirty].
      rewrite fs_loop_px_outside.
      * unfold pg1. cbn [px set_px set_txt]. rewrite mset_in; [reflexivity | split; lia | lia | lia].
      * intros t Ht. unfold pg1 in Ht. cbn [dirty set_px set_txt] in Ht.
        unfold no_dirty_in in Hnd. rewrite forallb_forall in Hnd. specialize (Hnd t Ht).
        apply negb_true_iff, andb_false_iff in Hnd.
        destruct Hnd as [Hn|Hn]; [apply Z.leb_gt in Hn | apply Z.leb_gt in Hn].
        -- pose proof (band_below (fst t) start (fh c) Hfh Hn). lia.
        -- pose proof (band_above (fst t) stop (fh c) Hfh Hn). lia.
    + rewrite cset_out by lia. rewrite Epg2. apply force_submit_point.
      * exact G.
      * exact V.
      * split; assumption.
      * unfold pg1. cbn [px set_px set_txt]. rewrite mset_out by lia. apply A. split; assumption.
    + rewrite cset_out by lia. rewrite Epg2. apply force_submit_point.
      * exact G.
      * exact V.
      * split; assumption.
      * unfold pg1. cbn [px set_px set_txt]. rewrite mset_out by lia. apply A. split; assumption.
    + assert ((start - 1) * fh c <= stop * fh c) by (apply Z.mul_le_mono_nonneg_r; lia). lia.
Qed.

Lemma clear_rows_tok : forall c p pg start stop back ws timg img,
  no_dirty_in (dirty pg) start stop = true ->
  page_op_tok c pg (clear_rows c p pg start stop back ws timg img).
Proof.
  intros c p pg start stop back ws timg img Hnd.
  unfold clear_rows. geo.
  set (pg1 := set_txt (set_px pg (mset c (px pg) ((start - 1) * fh c) (stop * fh c - 1 + 1) ((1 - 1) * fw c)
                                   (TW c * fw c - 1 + 1) (fun _ _ => back)))
                      (tset (txt pg) start stop 1 (TW c) tblank)).
  destruct (force_submit c p pg1 ws timg img) as [pg2 ev] eqn:EF.
  assert (Epg2 : pg2 = fst (force_submit c p pg1 ws timg img)) by (rewrite EF; reflexivity).
  assert (Eev : ev = snd (force_submit c p pg1 ws timg img)) by (rewrite EF; reflexivity).
  assert (V2 : visible pg2 = visible pg) by (rewrite Epg2, force_submit_visible; reflexivity).
  intros k G V A. cbn [fst snd sigs]. rewrite sigs_app, V2, V. cbn [sigs]. rewrite consume_app, Eev.
  pose proof (force_submit_geom c p pg1 k ws timg img G) as G1.
  set (k1 := consume k (sigs (snd (force_submit c p pg1 ws timg img)))) in *.
  destruct G1 as (G1a & G1b & G1c & G1d & G1e & G1f).
  intros r col I. cbn [consume fold_left consume1 set_canvas set_ctext ctext]. rewrite G1d.
  destruct I as [Ir Ic].
  destruct (incells start stop 1 (TW c) r col) eqn:Ein.
  - apply incells_true in Ein. rewrite tset_in by lia.
    rewrite Epg2, force_submit_fst. cbn [txt set_dirty].
    rewrite fs_loop_txt_outside.
    + unfold pg1. cbn [txt set_txt]. rewrite tset_in by lia. reflexivity.
    + intros t Ht. unfold pg1 in Ht. cbn [dirty set_px set_txt] in Ht.
      unfold no_dirty_in in Hnd. rewrite forallb_forall in Hnd. specialize (Hnd t Ht).
      apply negb_true_iff, andb_false_iff in Hnd.
      destruct Hnd as [Hn|Hn]; apply Z.leb_gt in Hn; lia.
  - apply incells_false in Ein. rewrite tset_out by exact Ein. rewrite Epg2. apply force_submit_tpoint.
    + exact V.
    + split; assumption.
    + unfold pg1. cbn [txt set_txt]. rewrite tset_out by exact Ein. apply A. split; assumption.
Qed.

(* ---- scrolling: explicit pictures of both sides *)
Ltac split_rects :=
  repeat match goal with
         | |- context [inrect ?a ?b ?c ?d ?y ?x] =>
             let E := fresh "E" in destruct (inrect a b c d y x) eqn:E
         end;
  cbn [andb]; rect_hyps.

Lemma scroll_up_px : forall c m a b f back sy0 sy1 sx0 sx1 ty0 tx0 fy0 fy1 fx0 fx1 y x,
  inb c y x -> 0 < f -> a <= b ->
  sy0 = a * f -> sy1 = b * f -> sx0 = 0 -> sx1 = PW c -> ty0 = (a - 1) * f -> tx0 = 0 ->
  fy0 = (b - 1) * f -> fy1 = b * f -> fx0 = 0 -> fx1 = PW c ->
  mset c (mmove c m sy0 sy1 sx0 sx1 ty0 tx0) fy0 fy1 fx0 fx1 (fun _ _ => back) y x =
  if inrect ((b - 1) * f) (b * f) 0 (PW c) y x then back
  else if inrect ((a - 1) * f) ((b - 1) * f) 0 (PW c) y x then m (y + f) x else m y x.
Proof.
  intros c m a b f back sy0 sy1 sx0 sx1 ty0 tx0 fy0 fy1 fx0 fx1 y x [Iy Ix] Hf Hab
         -> -> -> -> -> -> -> -> -> ->.
  assert (Hm : (a - 1) * f <= (b - 1) * f) by (apply Z.mul_le_mono_nonneg_r; lia).
  unfold mmove, mset, zimg. split_rects; try reflexivity; try lia; f_equal; lia.
Qed.

Lemma scroll_down_px : forall c m a b f back sy0 sy1 sx0 sx1 ty0 tx0 fy0 fy1 fx0 fx1 y x,
  inb c y x -> 0 < f -> a <= b + 1 ->
  sy0 = (a - 1) * f -> sy1 = (b - 1) * f -> sx0 = 0 -> sx1 = PW c -> ty0 = a * f -> tx0 = 0 ->
  fy0 = (a - 1) * f -> fy1 = a * f -> fx0 = 0 -> fx1 = PW c ->
  mset c (mmove c m sy0 sy1 sx0 sx1 ty0 tx0) fy0 fy1 fx0 fx1 (fun _ _ => back) y x =
  if inrect ((a - 1) * f) (a * f) 0 (PW c) y x then back
  else if inrect (a * f) (b * f) 0 (PW c) y x then m (y - f) x else m y x.
Proof.
  intros c m a b f back sy0 sy1 sx0 sx1 ty0 tx0 fy0 fy1 fx0 fx1 y x [Iy Ix] Hf Hab
         -> -> -> -> -> -> -> -> -> ->.
  assert (Hm : (a - 1) * f <= b * f) by (apply Z.mul_le_mono_nonneg_r; lia).
  unfold mmove, mset, zimg. split_rects; try reflexivity; try lia; f_equal; lia.
Qed.

Lemma scroll_up_canvas : forall k a b back y x, 0 <= y < cPH k -> 0 <= x < cPW k -> 0 < cfh k -> a <= b ->
  canvas (consume1 k (SScroll (-1) a b back)) y x =
  if inrect ((b - 1) * cfh k) (b * cfh k) 0 (cPW k) y x then back
  else if inrect ((a - 1) * cfh k) ((b - 1) * cfh k) 0 (cPW k) y x then canvas k (y + cfh k) x else canvas k y x.
Proof.
  intros k a b back y x Iy Ix Hf Hab.
  assert (Hm : (a - 1) * cfh k <= (b - 1) * cfh k) by (apply Z.mul_le_mono_nonneg_r; lia).
  unfold consume1. geo. change (-1 =? -1) with true. cbv iota.
  unfold cset, set_ctext, set_canvas. cbn [canvas cPH cPW].
  split_rects; try reflexivity; try lia; f_equal; lia.
Qed.

Lemma scroll_down_canvas : forall k a b back y x, 0 <= y < cPH k -> 0 <= x < cPW k -> 0 < cfh k -> a <= b + 1 ->
  canvas (consume1 k (SScroll 1 a b back)) y x =
  if inrect ((a - 1) * cfh k) (a * cfh k) 0 (cPW k) y x then back
  else if inrect (a * cfh k) (b * cfh k) 0 (cPW k) y x then canvas k (y - cfh k) x else canvas k y x.
Proof.
  intros k a b back y x Iy Ix Hf Hab.
  assert (Hm : (a - 1) * cfh k <= b * cfh k) by (apply Z.mul_le_mono_nonneg_r; lia).
  unfold consume1. geo. change (1 =? -1) with false. cbv iota.
  unfold cset, set_ctext, set_canvas. cbn [canvas cPH cPW].
  split_rects; try reflexivity; try lia; f_equal; lia.
Qed.

Lemma scroll_geom : forall c k d a b back, geom_ok c k -> geom_ok c (consume1 k (SScroll d a b back)).
Proof.
  intros c k d a b back G. unfold consume1. geo.
  destruct (d =? -1); exact G.
Qed.

Lemma scroll_up_ok : forall c p pg from to back ws timg img, cfg_ok c ->
  1 <= from <= to -> to * fh c <= PH c ->
  page_op_ok c pg (scroll_up c p pg from to back ws timg img).
Proof.
  intros c p pg from to back ws timg img C Hft Hto.
  unfold scroll_up.
  destruct (force_submit c p pg ws timg img) as [pg1 ev] eqn:EF. geo.
  assert (Epg1 : pg1 = fst (force_submit c p pg ws timg img)) by (rewrite EF; reflexivity).
  assert (Eev : ev = snd (force_submit c p pg ws timg img)) by (rewrite EF; reflexivity).
  assert (V1 : visible pg1 = visible pg) by (rewrite Epg1, force_submit_visible; reflexivity).
  apply mk_page_op_ok; cbn [fst snd visible set_px set_txt]; rewrite ?sigs_app.
  - exact V1.
  - intros V. rewrite V1, V. rewrite Eev, force_submit_invisible by exact V. reflexivity.
  - intros k G. rewrite !consume_app. rewrite Eev.
    pose proof (force_submit_geom c p pg k ws timg img G) as G1.
    destruct (visible pg1); cbn [sigs consume fold_left]; [apply scroll_geom|]; exact G1.
  - intros k G V A. rewrite V1, V. cbn [sigs app]. rewrite consume_app. rewrite Eev.
    pose proof (force_submit_geom c p pg k ws timg img G) as G1.
    pose proof (force_submit_agree c p pg k ws timg img G V A) as A1. rewrite <- Epg1 in A1.
    set (k1 := consume k (sigs (snd (force_submit c p pg ws timg img)))) in *.
    destruct C as (Hfw & Hfh & Htw & Hth & Hpw & Hlo & Hhi & Hlast).
    destruct G1 as (G1a & G1b & G1c & G1d & G1e & G1f).
    intros y x I. cbn [consume fold_left px set_px set_txt].
    rewrite scroll_up_canvas by (rewrite ?G1a, ?G1b, ?G1e; destruct I; lia).
    rewrite (scroll_up_px c (px pg1) from to (fh c) back) by (try exact I; lia).
    rewrite G1e, G1b. destruct I as [Iy Ix].
    assert (Hm : (from - 1) * fh c <= (to - 1) * fh c) by (apply Z.mul_le_mono_nonneg_r; lia).
    split_rects; try reflexivity; apply A1; split; lia.
Qed.

Lemma scroll_down_ok : forall c p pg from to back ws timg img, cfg_ok c ->
  1 <= from <= to + 1 -> to * fh c <= PH c ->
  page_op_ok c pg (scroll_down c p pg from to back ws timg img).
Proof.
  intros c p pg from to back ws timg img C Hft Hto.
  unfold scroll_down.
  destruct (force_submit c p pg ws timg img) as [pg1 ev] eqn:EF. geo.
  assert (Epg1 : pg1 = fst (force_submit c p pg ws timg img)) by (rewrite EF; reflexivity).
  assert (Eev : ev = snd (force_submit c p pg ws timg img)) by (rewrite EF; reflexivity).
  assert (V1 : visible pg1 = visible pg) by (rewrite Epg1, force_submit_visible; reflexivity).
  apply mk_page_op_ok; cbn [fst snd visible set_px set_txt]; rewrite ?sigs_app.
  - exact V1.
  - intros V. rewrite V1, V. rewrite Eev, force_submit_invisible by exact V. reflexivity.
  - intros k G. rewrite !consume_app. rewrite Eev.
    pose proof (force_submit_geom c p pg k ws timg img G) as G1.
    destruct (visible pg1); cbn [sigs consume fold_left]; [apply scroll_geom|]; exact G1.
  - intros k G V A. rewrite V1, V. cbn [sigs app]. rewrite consume_app. rewrite Eev.
    pose proof (force_submit_geom c p pg k ws timg img G) as G1.
    pose proof (force_submit_agree c p pg k ws timg img G V A) as A1. rewrite <- Epg1 in A1.
    set (k1 := consume k (sigs (snd (force_submit c p pg ws timg img)))) in *.
    destruct C as (Hfw & Hfh & Htw & Hth & Hpw & Hlo & Hhi & Hlast).
    destruct G1 as (G1a & G1b & G1c & G1d & G1e & G1f).
    intros y x I. cbn [consume fold_left px set_px set_txt].
    rewrite scroll_down_canvas by (rewrite ?G1a, ?G1b, ?G1e; destruct I; lia).
    rewrite (scroll_down_px c (px pg1) from to (fh c) back) by (try exact I; lia).
    rewrite G1e, G1b. destruct I as [Iy Ix].
    assert (Hm : (from - 1) * fh c <= to * fh c) by (apply Z.mul_le_mono_nonneg_r; lia).
    assert (Hone : 1 * fh c <= from * fh c) by (apply Z.mul_le_mono_nonneg_r; lia).
    split_rects; try reflexivity; apply A1; split; lia.
Qed.

Lemma scroll_up_tok : forall c p pg from to back ws timg img, 1 <= from <= to -> to <= TH c ->
  page_op_tok c pg (scroll_up c p pg from to back ws timg img).
Proof.
  intros c p pg from to back ws timg img Hft Hto.
  unfold scroll_up.
  destruct (force_submit c p pg ws timg img) as [pg1 ev] eqn:EF. geo.
  assert (Epg1 : pg1 = fst (force_submit c p pg ws timg img)) by (rewrite EF; reflexivity).
  assert (Eev : ev = snd (force_submit c p pg ws timg img)) by (rewrite EF; reflexivity).
  assert (V1 : visible pg1 = visible pg) by (rewrite Epg1, force_submit_visible; reflexivity).
  intros k G V A. cbn [fst snd]. rewrite !sigs_app, V1, V. cbn [sigs app]. rewrite consume_app, Eev.
  pose proof (force_submit_geom c p pg k ws timg img G) as G1.
  pose proof (force_submit_tagree c p pg k ws timg img V A) as A1. rewrite <- Epg1 in A1.
  set (k1 := consume k (sigs (snd (force_submit c p pg ws timg img)))) in *.
  destruct G1 as (G1a & G1b & G1c & G1d & G1e & G1f).
  intros r col I. cbn [consume fold_left txt set_px set_txt].
  unfold consume1. geo.
  match goal with |- context [?d =? -1] => change (d =? -1) with (Z.eqb d (-1)); cbv [Z.eqb Pos.eqb]; cbv iota end.
  unfold set_ctext, set_canvas. cbn [ctext cTW]. rewrite G1d.
  destruct I as [Ir Ic].
  unfold tset. repeat match goal with
         | |- context [incells ?a ?b ?c0 ?d ?x ?y] =>
             let E := fresh "E" in destruct (incells a b c0 d x y) eqn:E
         end;
  repeat match goal with
         | H : incells _ _ _ _ _ _ = true |- _ => apply incells_true in H
         | H : incells _ _ _ _ _ _ = false |- _ => apply incells_false in H
         end; try reflexivity; try lia; apply A1; split; lia.
Qed.

Lemma scroll_down_tok : forall c p pg from to back ws timg img, 1 <= from <= to + 1 -> to <= TH c ->
  page_op_tok c pg (scroll_down c p pg from to back ws timg img).
Proof.
  intros c p pg from to back ws timg img Hft Hto.
  unfold scroll_down.
  destruct (force_submit c p pg ws timg img) as [pg1 ev] eqn:EF. geo.
  assert (Epg1 : pg1 = fst (force_submit c p pg ws timg img)) by (rewrite EF; reflexivity).
  assert (Eev : ev = snd (force_submit c p pg ws timg img)) by (rewrite EF; reflexivity).
  assert (V1 : visible pg1 = visible pg) by (rewrite Epg1, force_submit_visible; reflexivity).
  intros k G V A. cbn [fst snd]. rewrite !sigs_app, V1, V. cbn [sigs app]. rewrite consume_app, Eev.
  pose proof (force_submit_geom c p pg k ws timg img G) as G1.
  pose proof (force_submit_tagree c p pg k ws timg img V A) as A1. rewrite <- Epg1 in A1.
  set (k1 := consume k (sigs (snd (force_submit c p pg ws timg img)))) in *.
  destruct G1 as (G1a & G1b & G1c & G1d & G1e & G1f).
  intros r col I. cbn [consume fold_left txt set_px set_txt].
  unfold consume1. geo.
  match goal with |- context [?d =? -1] => change (d =? -1) with (Z.eqb d (-1)); cbv [Z.eqb Pos.eqb]; cbv iota end.
  unfold set_ctext, set_canvas. cbn [ctext cTW]. rewrite G1d.
  destruct I as [Ir Ic].
  unfold tset. repeat match goal with
         | |- context [incells ?a ?b ?c0 ?d ?x ?y] =>
             let E := fresh "E" in destruct (incells a b c0 d x y) eqn:E
         end;
  repeat match goal with
         | H : incells _ _ _ _ _ _ = true |- _ => apply incells_true in H
         | H : incells _ _ _ _ _ _ = false |- _ => apply incells_false in H
         end; try reflexivity; try lia; apply A1; split; lia.
Qed.

(* ---- the bookkeeping invariant for every page operation *)
Lemma pix_set_lk : forall c p pg y0 y1 x0 x1 v img, page_op_lk pg (pix_set c p pg y0 y1 x0 x1 v img).
Proof.
  intros. unfold pix_set. destruct (text_area c x0 y0 (x1 - 1) (y1 - 1)) as [[[row0 col0] row1] col1].
  intros H. exact H.
Qed.

Lemma update_lk : forall c p pg row s e ws timg img, page_op_lk pg (update c p pg row s e ws timg img).
Proof.
  intros. unfold update. cbn [locked set_dirty]. destruct (locked pg) eqn:L.
  - intros _ H. cbn [fst locked set_dirty] in H. congruence.
  - intros _. apply force_submit_lk.
Qed.

Lemma lock_lk : forall pg, page_op_lk pg (set_locked pg true, []).
Proof. intros pg _ H. cbn in H. discriminate H. Qed.

Lemma unlock_lk : forall c p pg ws timg img, page_op_lk pg (unlock c p pg ws timg img).
Proof. intros. intros _. unfold unlock. apply force_submit_lk. Qed.

Lemma clear_rows_lk : forall c p pg a b back ws timg img, page_op_lk pg (clear_rows c p pg a b back ws timg img).
Proof.
  intros. unfold clear_rows. geo.
  match goal with |- context [force_submit c p ?q ws timg img] =>
    pose proof (force_submit_dirty c p q ws timg img) as D; destruct (force_submit c p q ws timg img) as [pg2 ev] end.
  intros _ _. exact D.
Qed.

Lemma scroll_up_lk : forall c p pg a b back ws timg img, page_op_lk pg (scroll_up c p pg a b back ws timg img).
Proof.
  intros. unfold scroll_up.
  pose proof (force_submit_dirty c p pg ws timg img) as D.
  destruct (force_submit c p pg ws timg img) as [pg1 ev]. geo. intros _ _. exact D.
Qed.

Lemma scroll_down_lk : forall c p pg a b back ws timg img, page_op_lk pg (scroll_down c p pg a b back ws timg img).
Proof.
  intros. unfold scroll_down.
  pose proof (force_submit_dirty c p pg ws timg img) as D.
  destruct (force_submit c p pg ws timg img) as [pg1 ev]. geo. intros _ _. exact D.
Qed.

Lemma copy_from_lk : forall c dst pg m t,
  page_op_lk pg (let pg1 := set_txt (set_px pg (mset c (px pg) 0 (PH c) 0 (PW c) m)) t in
                 (pg1, EWrite dst 0 (PH c) 0 (PW c) (-1) :: resubmit c pg1)).
Proof. intros c dst pg m t H. exact H. Qed.

(* ------------------------------------------------------------------------------------------------ *)
(* the display: list plumbing *)
Lemma upd_nth_length : forall A (f : A -> A) l n, length (upd_nth n f l) = length l.
Proof. induction l as [|a l IH]; intros [|n]; simpl; auto. Qed.

Lemma nth_upd_same : forall A (f : A -> A) d l n, (n < length l)%nat -> nth n (upd_nth n f l) d = f (nth n l d).
Proof. induction l as [|a l IH]; intros [|n] H; simpl in *; try lia; auto. apply IH. lia. Qed.

Lemma nth_upd_other : forall A (f : A -> A) d l n m, n <> m -> nth m (upd_nth n f l) d = nth m l d.
Proof. induction l as [|a l IH]; intros [|n] [|m] H; simpl; auto; try congruence. Qed.

Lemma get_put_same : forall s p pg, (p < length (pages s))%nat -> get_page (put_page s p pg) p = pg.
Proof. intros. unfold get_page, put_page. cbn [pages]. rewrite nth_upd_same by assumption. reflexivity. Qed.

Lemma get_put_other : forall s p q pg, p <> q -> get_page (put_page s p pg) q = get_page s q.
Proof. intros. unfold get_page, put_page. cbn [pages]. apply nth_upd_other. assumption. Qed.

Lemma put_length : forall s p pg, length (pages (put_page s p pg)) = length (pages s).
Proof. intros. unfold put_page. cbn [pages]. apply upd_nth_length. Qed.

Lemma consume_nil : forall k, consume k [] = k.
Proof. reflexivity. Qed.

(* ------------------------------------------------------------------------------------------------ *)
(* well-formed display state and the invariant *)
Definition wf (s : st) : Prop :=
  cfg_ok (scfg s) /\
  (forall p, (p < length (pages s))%nat -> (visible (get_page s p) = true <-> vis s = Some p)) /\
  (forall v, vis s = Some v -> (v < length (pages s))%nat) /\
  (forall p, (p < length (pages s))%nat -> clean (get_page s p)).

(* THE INVARIANT: the consumer has the geometry of the current mode and its canvas equals, pixel for pixel,
   the matrix of the visible page *)
Definition Inv (s : st) (k : cons) : Prop :=
  wf s /\ geom_ok (scfg s) k /\
  (forall v, vis s = Some v -> agree (scfg s) (get_page s v) k /\ tagree (scfg s) (get_page s v) k).

Lemma on_page_eq : forall s p f,
  on_page s p f = (put_page s p (fst (f (get_page s p))), snd (f (get_page s p))).
Proof. intros. unfold on_page. destruct (f (get_page s p)). reflexivity. Qed.

Lemma on_page_inv : forall s k p f, Inv s k -> (p < length (pages s))%nat ->
  page_op_ok (scfg s) (get_page s p) (f (get_page s p)) ->
  page_op_tok (scfg s) (get_page s p) (f (get_page s p)) ->
  page_op_lk (get_page s p) (f (get_page s p)) ->
  Inv (fst (on_page s p f)) (consume k (sigs (snd (on_page s p f)))).
Proof.
  intros s k p f ((C & Hfl & Hv & Hcl) & G & A) Hp (P1 & P2 & P3 & P4) P5 P6.
  rewrite on_page_eq. cbn [fst snd].
  set (pg := get_page s p) in *. set (r := f pg) in *.
  split; [|split].
  - split; [exact C|]. split.
    + intros q Hq. rewrite put_length in Hq. cbn [vis put_page].
      destruct (Nat.eq_dec p q) as [->|Hne].
      * rewrite get_put_same by assumption. fold pg. rewrite P1. apply Hfl. assumption.
      * rewrite get_put_other by assumption. apply Hfl. assumption.
    + split.
      * intros v Hvv. rewrite put_length. apply Hv. exact Hvv.
      * intros q Hq. rewrite put_length in Hq.
        destruct (Nat.eq_dec p q) as [->|Hne].
        -- rewrite get_put_same by assumption. apply P6. apply Hcl. assumption.
        -- rewrite get_put_other by assumption. apply Hcl. assumption.
  - apply P3. exact G.
  - intros v Hvv. cbn [vis put_page] in Hvv. cbn [scfg put_page].
    destruct (A v Hvv) as [Ap At].
    destruct (Nat.eq_dec p v) as [->|Hne].
    + rewrite get_put_same by assumption. fold pg.
      assert (V : visible pg = true) by (apply Hfl; assumption).
      split; [apply P4 | apply P5]; assumption.
    + rewrite get_put_other by assumption.
      assert (V : visible pg = false).
      { destruct (visible pg) eqn:E; [|reflexivity]. apply Hfl in E; [|assumption]. congruence. }
      rewrite P2 by exact V. rewrite consume_nil. split; assumption.
Qed.

(* ---- copy_from *)
Lemma copy_from_ok : forall c dst pg m t, cfg_ok c ->
  page_op_ok c pg (let pg1 := set_txt (set_px pg (mset c (px pg) 0 (PH c) 0 (PW c) m)) t in
                   (pg1, EWrite dst 0 (PH c) 0 (PW c) (-1) :: resubmit c pg1)).
Proof.
  intros c dst pg m t C. cbv zeta. apply mk_page_op_ok; cbn [fst snd sigs].
  - reflexivity.
  - intros V. unfold resubmit. rewrite submit_invisible by exact V. reflexivity.
  - intros k G. apply resubmit_geom. exact G.
  - intros k G V A. apply resubmit_agree; assumption.
Qed.

Lemma copy_from_tok : forall c dst pg m t,
  page_op_tok c pg (let pg1 := set_txt (set_px pg (mset c (px pg) 0 (PH c) 0 (PW c) m)) t in
                    (pg1, EWrite dst 0 (PH c) 0 (PW c) (-1) :: resubmit c pg1)).
Proof. intros c dst pg m t k G V A. cbv zeta. cbn [fst snd sigs]. apply resubmit_tagree. exact V. Qed.

(* ---- set_visible *)
Lemma set_vis_false : forall c pg, set_vis c pg false = (set_visible_flag pg false, []) \/ set_vis c pg false = (pg, []).
Proof.
  intros. unfold set_vis. destruct (visible pg) eqn:E; cbn [Bool.eqb]; [left | right]; reflexivity.
Qed.

Lemma set_vis_false_fst : forall c pg,
  visible (fst (set_vis c pg false)) = false /\ px (fst (set_vis c pg false)) = px pg
  /\ snd (set_vis c pg false) = [].
Proof.
  intros. unfold set_vis. destruct (visible pg) eqn:E; cbn [Bool.eqb fst snd visible px set_visible_flag]; auto.
Qed.

Lemma set_vis_clean : forall c pg b, clean pg -> clean (fst (set_vis c pg b)).
Proof. intros c pg b H. unfold set_vis. destruct (Bool.eqb (visible pg) b); cbn [fst]; exact H. Qed.

Lemma set_vis_true_of_false : forall c pg, visible pg = false ->
  set_vis c pg true = (set_visible_flag pg true, resubmit c (set_visible_flag pg true)).
Proof. intros c pg E. unfold set_vis. rewrite E. reflexivity. Qed.

(* ---- rebuild: every page is resubmitted, only the visible one reaches the queue *)
Lemma resubmit_all_spec : forall c l k pgv, cfg_ok c -> geom_ok c k ->
  (forall pg, In pg l -> visible pg = true -> pg = pgv) ->
  ((agree c pgv k /\ tagree c pgv k) \/ (In pgv l /\ visible pgv = true)) ->
  agree c pgv (consume k (sigs (resubmit_all c l))) /\ tagree c pgv (consume k (sigs (resubmit_all c l)))
  /\ geom_ok c (consume k (sigs (resubmit_all c l))).
Proof.
  intros c l. induction l as [|pg l IH]; intros k pgv C G U H.
  - cbn [resubmit_all sigs]. rewrite consume_nil.
    destruct H as [[H1 H2]|[[] _]]. split; [exact H1|]. split; [exact H2 | exact G].
  - cbn [resubmit_all]. rewrite sigs_app, consume_app.
    destruct (visible pg) eqn:V.
    + assert (pg = pgv) by (apply U; [left; reflexivity | exact V]). subst pgv.
      apply IH; auto.
      * apply resubmit_geom. exact G.
      * intros pg' Hin Hv. apply U; [right; exact Hin | exact Hv].
      * left. split; [apply resubmit_agree; assumption | apply resubmit_tagree; assumption].
    + assert (E : resubmit c pg = []) by (unfold resubmit; apply submit_invisible; exact V).
      rewrite E. cbn [sigs]. rewrite consume_nil.
      apply IH; auto.
      * intros pg' Hin Hv. apply U; [right; exact Hin | exact Hv].
      * destruct H as [H|[[H|H] Hv]]; [left; exact H | subst; congruence | right; split; assumption].
Qed.

Lemma setmode_geom : forall c k, cfg_ok c -> geom_ok c (consume1 k (SSetMode (PH c) (PW c) (TH c) (TW c))).
Proof.
  intros c k C. unfold consume1. rewrite sdl_font_size_ok by exact C. unfold geom_ok. cbn. tauto.
Qed.

Lemma nth_repeat_blank : forall n p, nth p (repeat blank_page n) default_page = blank_page.
Proof. induction n as [|n IH]; intros [|p]; simpl; auto. Qed.

(* resume: the rebuild signals alone reproduce the state in ANY consumer (a freshly started display) *)
Theorem rebuild_any_consumer : forall s k, wf s ->
  Inv (fst (step s ORebuild)) (consume k (sigs (snd (step s ORebuild)))).
Proof.
  intros s k (C & Hfl & Hvis & Hcl).
  cbn [step fst snd sigs].
  change (consume k (SSetMode (PH (scfg s)) (PW (scfg s)) (TH (scfg s)) (TW (scfg s))
                     :: sigs (resubmit_all (scfg s) (pages s))))
    with (consume (consume1 k (SSetMode (PH (scfg s)) (PW (scfg s)) (TH (scfg s)) (TW (scfg s))))
                  (sigs (resubmit_all (scfg s) (pages s)))).
  pose proof (setmode_geom (scfg s) k C) as G0.
  set (k0 := consume1 k (SSetMode (PH (scfg s)) (PW (scfg s)) (TH (scfg s)) (TW (scfg s)))) in *.
  split; [split; [exact C | split; [assumption | split; assumption]]|].
  destruct (vis s) as [v|] eqn:Ev.
  - pose proof (Hvis v eq_refl) as Hv.
    assert (Vv : visible (get_page s v) = true) by (apply Hfl; auto).
    destruct (resubmit_all_spec (scfg s) (pages s) k0 (get_page s v) C G0) as (R1 & R1t & R2).
    + intros pg Hin Hvp. destruct (In_nth _ _ default_page Hin) as (q & Hq & Eq).
      assert (E : Some v = Some q) by (apply Hfl; [exact Hq | unfold get_page; rewrite Eq; exact Hvp]).
      inversion E; subst q. unfold get_page. symmetry. exact Eq.
    + right. split; [apply nth_In; exact Hv | exact Vv].
    + split; [exact R2|]. intros v' E. inversion E; subst v'. split; [exact R1 | exact R1t].
  - split.
    + assert (R : forall l k', geom_ok (scfg s) k' -> geom_ok (scfg s) (consume k' (sigs (resubmit_all (scfg s) l)))).
      { induction l as [|pg l IH]; intros k' G'; cbn [resubmit_all sigs]; [exact G'|].
        rewrite sigs_app, consume_app. apply IH. apply resubmit_geom. exact G'. }
      apply R. exact G0.
    + intros v E. discriminate E.
Qed.

(* ------------------------------------------------------------------------------------------------ *)
(* the step lemma: every operation inside the envelope preserves the invariant *)
Ltac okb_hyps :=
  repeat match goal with
         | H : andb _ _ = true |- _ => apply andb_true_iff in H; destruct H
         | H : (_ <=? _) = true |- _ => apply Z.leb_le in H
         | H : (_ <? _) = true |- _ => apply Z.ltb_lt in H
         | H : Nat.ltb _ _ = true |- _ => apply Nat.ltb_lt in H
         end.

Lemma step_inv : forall s k o, Inv s k -> op_okb s o = true ->
  Inv (fst (step s o)) (consume k (sigs (snd (step s o)))).
Proof.
  intros s k o HI Hok.
  assert (C : cfg_ok (scfg s)) by (destruct HI as ((C & _) & _); exact C).
  destruct o as [p y0 y1 x0 x1 v img | p row a b ws timg img | p | p ws timg img | p a b back ws timg img
                | p a b back ws timg img | p a b back ws timg img | dst src | v | c' n | ];
    cbn [step]; cbn [op_okb] in Hok; unfold has_page, in_rows, in_cols in Hok.
  - okb_hyps. apply on_page_inv; auto; [apply pix_set_ok; auto; lia | apply pix_set_tok | apply pix_set_lk].
  - okb_hyps. apply on_page_inv; auto; [apply update_ok | apply update_tok | apply update_lk].
  - okb_hyps. apply on_page_inv; auto; [apply lock_ok | apply lock_tok | apply lock_lk].
  - okb_hyps. apply on_page_inv; auto; [apply unlock_ok | apply unlock_tok | apply unlock_lk].
  - okb_hyps.
    assert (Hnd : no_dirty_in (dirty (get_page s p)) a b = true).
    { destruct HI as ((_ & _ & _ & Hcl) & _).
      rewrite (Hcl p) by first [assumption | (apply negb_true_iff; assumption)]. reflexivity. }
    apply on_page_inv; auto; [apply clear_rows_ok; auto; lia | apply clear_rows_tok; auto | apply clear_rows_lk].
  - okb_hyps. apply on_page_inv; auto; [apply scroll_up_ok; auto; lia | apply scroll_up_tok; lia | apply scroll_up_lk].
  - okb_hyps. apply on_page_inv; auto; [apply scroll_down_ok; auto; lia | apply scroll_down_tok; lia | apply scroll_down_lk].
  - okb_hyps. apply on_page_inv; auto; [apply copy_from_ok; auto | apply copy_from_tok | apply copy_from_lk].
  - (* set_page *)
    apply Nat.ltb_lt in Hok. rename Hok into Hv.
    destruct HI as ((_ & Hfl & Hvis & Hcl) & G & A).
    (* state after making the old visible page invisible *)
    set (r1 := match vis s with
               | Some o => on_page s o (fun pg => set_vis (scfg s) pg false)
               | None => (s, [])
               end).
    assert (R1 : scfg (fst r1) = scfg s /\ length (pages (fst r1)) = length (pages s) /\ sigs (snd r1) = []
                 /\ (forall q, (q < length (pages s))%nat ->
                       visible (get_page (fst r1) q) = false /\ px (get_page (fst r1) q) = px (get_page s q)
                       /\ clean (get_page (fst r1) q))).
    { unfold r1. destruct (vis s) as [o|] eqn:Eo.
      - rewrite on_page_eq. cbn [fst snd]. pose proof (Hvis o eq_refl) as Ho.
        destruct (set_vis_false_fst (scfg s) (get_page s o)) as (S1 & S2 & S3).
        split; [reflexivity|]. split; [apply put_length|]. split; [rewrite S3; reflexivity|].
        intros q Hq. destruct (Nat.eq_dec o q) as [->|Hne].
        + rewrite get_put_same by assumption. split; [exact S1|]. split; [exact S2|].
          apply set_vis_clean. apply Hcl. assumption.
        + rewrite get_put_other by assumption. split; [|split; [reflexivity | apply Hcl; assumption]].
          destruct (visible (get_page s q)) eqn:E; [|reflexivity]. apply Hfl in E; [|assumption]. congruence.
      - cbn [fst snd]. split; [reflexivity|]. split; [reflexivity|]. split; [reflexivity|].
        intros q Hq. split; [|split; [reflexivity | apply Hcl; assumption]].
        destruct (visible (get_page s q)) eqn:E; [|reflexivity]. apply Hfl in E; [|assumption]. congruence. }
    destruct R1 as (Rc & Rl & Rs & Rq).
    destruct r1 as [s1 ev1] eqn:Er1. cbn [fst snd] in Rc, Rl, Rs, Rq.
    rewrite on_page_eq.
    destruct (Rq v Hv) as (Vv & Pv & Cv).
    rewrite set_vis_true_of_false by exact Vv. cbn [fst snd scfg pages put_page]. rewrite Rc.
    rewrite sigs_app, Rs. cbn [app].
    set (pgv := set_visible_flag (get_page s1 v) true).
    split; [|split].
    + split; [exact C|]. split.
      * intros q Hq. cbn [pages vis] in *. rewrite upd_nth_length, Rl in Hq.
        unfold get_page. cbn [pages].
        destruct (Nat.eq_dec v q) as [->|Hne].
        -- rewrite nth_upd_same by lia. cbn [visible set_visible_flag]. tauto.
        -- rewrite nth_upd_other by assumption. destruct (Rq q Hq) as (Vq & _). unfold get_page in Vq.
           rewrite Vq. split; [discriminate | intros E; inversion E; congruence].
      * split.
        -- intros v' E. cbn [vis] in E. inversion E; subst v'. cbn [pages]. rewrite upd_nth_length, Rl. exact Hv.
        -- intros q Hq. cbn [pages] in Hq. rewrite upd_nth_length, Rl in Hq. unfold get_page. cbn [pages].
           destruct (Nat.eq_dec v q) as [->|Hne].
           ++ rewrite nth_upd_same by lia. exact Cv.
           ++ rewrite nth_upd_other by assumption. destruct (Rq q Hq) as (_ & _ & Cq). exact Cq.
    + cbn [scfg]. apply resubmit_geom. exact G.
    + intros v' E. cbn [vis] in E. inversion E; subst v'. cbn [scfg].
      unfold get_page. cbn [pages]. rewrite !nth_upd_same by lia. fold (get_page s1 v). fold pgv.
      split; [apply resubmit_agree; auto | apply resubmit_tagree; reflexivity].
  - (* _set_mode *)
    apply andb_true_iff in Hok. destruct Hok as [H Hn]. apply cfg_okb_ok in H.
    cbn [fst snd sigs].
    change (consume k [SSetMode (PH c') (PW c') (TH c') (TW c')]) with
           (consume1 k (SSetMode (PH c') (PW c') (TH c') (TW c'))).
    split; [|split].
    + split; [exact H|]. split.
      * intros p Hp. unfold get_page. cbn [pages vis]. rewrite nth_repeat_blank. cbn [visible blank_page].
        split; discriminate.
      * split; [intros v E; discriminate E|].
        intros p Hp. unfold get_page. cbn [pages]. rewrite nth_repeat_blank. intros _. reflexivity.
    + cbn [scfg]. apply setmode_geom. exact H.
    + intros v E. discriminate E.
  - (* rebuild *)
    apply rebuild_any_consumer. destruct HI as (W & _). exact W.
Qed.

(* ------------------------------------------------------------------------------------------------ *)
(* THE INVARIANT OVER ALL OPERATION SEQUENCES *)
Lemma run_cons : forall s o r,
  run s (o :: r) = (fst (run (fst (step s o)) r), snd (step s o) ++ snd (run (fst (step s o)) r)).
Proof. intros. cbn [run]. destruct (step s o) as [s1 ev1]. cbn [fst snd]. destruct (run s1 r). reflexivity. Qed.

Theorem run_inv : forall ops s k, Inv s k -> ops_okb s ops = true ->
  Inv (fst (run s ops)) (consume k (sigs (snd (run s ops)))).
Proof.
  induction ops as [|o r IH]; intros s k HI Hok.
  - cbn [run fst snd sigs]. rewrite consume_nil. exact HI.
  - cbn [ops_okb] in Hok. apply andb_true_iff in Hok. destruct Hok as [Ho Hr].
    rewrite run_cons. cbn [fst snd]. rewrite sigs_app, consume_app.
    apply IH; [|exact Hr]. apply step_inv; assumption.
Qed.


(* ------------------------------------------------------------------------------------------------ *)
(* a whole session: attach (rebuild) to any consumer, then any operations inside the envelope *)
Theorem session_picture : forall s k0 ops, wf s ->
  ops_okb (fst (step s ORebuild)) ops = true ->
  let r := run s (ORebuild :: ops) in
  let k := consume k0 (sigs (snd r)) in
  forall v, vis (fst r) = Some v ->
  forall y x, 0 <= y < PH (scfg (fst r)) -> 0 <= x < PW (scfg (fst r)) ->
  canvas k y x = px (get_page (fst r) v) y x.
Proof.
  intros s k0 ops W Hok r k v Hv y x Hy Hx.
  assert (HI : Inv (fst r) k).
  { unfold k, r. rewrite run_cons. cbn [fst snd]. rewrite sigs_app, consume_app.
    apply run_inv; [|exact Hok]. apply rebuild_any_consumer. exact W. }
  destruct HI as (_ & _ & A). apply (A v Hv). split; assumption.
Qed.

(* ... and holds exactly the unicode character cells get_chars(as_type=unicode) reports for the visible page *)
Theorem session_text : forall s k0 ops, wf s ->
  ops_okb (fst (step s ORebuild)) ops = true ->
  let r := run s (ORebuild :: ops) in
  let k := consume k0 (sigs (snd r)) in
  forall v, vis (fst r) = Some v ->
  forall row col, 1 <= row <= TH (scfg (fst r)) -> 1 <= col <= TW (scfg (fst r)) ->
  ctext k row col = txt (get_page (fst r) v) row col.
Proof.
  intros s k0 ops W Hok r k v Hv row col Hr Hc.
  assert (HI : Inv (fst r) k).
  { unfold k, r. rewrite run_cons. cbn [fst snd]. rewrite sigs_app, consume_app.
    apply run_inv; [|exact Hok]. apply rebuild_any_consumer. exact W. }
  destruct HI as (_ & _ & A). apply (A v Hv). split; assumption.
Qed.

Lemma init_st_wf : forall c n v, cfg_ok c -> (v < n)%nat -> wf (init_st c n v).
Proof.
  intros c n v C Hv. unfold init_st. split; [exact C|]. split; [|split].
  - intros p Hp. cbn [pages vis] in *. rewrite upd_nth_length, repeat_length in Hp.
    unfold get_page. cbn [pages].
    destruct (Nat.eq_dec v p) as [->|Hne].
    + rewrite nth_upd_same by (rewrite repeat_length; exact Hp). cbn [visible set_visible_flag]. tauto.
    + rewrite nth_upd_other by assumption. rewrite nth_repeat_blank. cbn [visible blank_page].
      split; [discriminate | intros E; inversion E; congruence].
  - intros v' E. cbn [vis] in E. inversion E; subst v'. cbn [pages]. rewrite upd_nth_length, repeat_length. exact Hv.
  - intros p Hp. cbn [pages] in Hp. rewrite upd_nth_length, repeat_length in Hp. unfold get_page. cbn [pages].
    destruct (Nat.eq_dec v p) as [->|Hne].
    + rewrite nth_upd_same by (rewrite repeat_length; exact Hp). rewrite nth_repeat_blank. intros _. reflexivity.
    + rewrite nth_upd_other by assumption. rewrite nth_repeat_blank. intros _. reflexivity.
Qed.

(* ------------------------------------------------------------------------------------------------ *)
(* D11: the code before fixes/D11.patch - scroll_up without the fill of the vacated row - breaks the
   invariant as soon as the background is not 0 *)
Definition scroll_up_unfixed (c : cfg) (p : nat) (pg : page) (from to back : Z) (ws : list (Z * Z * Z)) (img : mat)
  : page * list event :=
  let '(pg1, ev) := force_submit c p pg ws tblank img in
  let sg := if visible pg1 then [ESig (SScroll (-1) from to back)] else [] in
  let '(sx0, sy0, sx1, sy1) := area c (from + 1) 1 to (TW c) in
  let '(tx0, ty0) := pos c from 1 in
  let m1 := mmove c (px pg1) sy0 (sy1 + 1) sx0 (sx1 + 1) ty0 tx0 in
  (set_px pg1 m1, ev ++ sg ++ [EMove p sy0 (sy1 + 1) sx0 (sx1 + 1) ty0 tx0]).

Definition d11_cfg : cfg := mkCfg 2 1 2 1 1 1.            (* two text rows of one 1x1 cell *)
Definition d11_page : page := mkPage (fun _ _ => 1) tblank true false [].   (* after COLOR ,1: CLS *)
Definition d11_cons : cons := mkCons 2 1 2 1 1 1 (fun _ _ => 1) tblank.

Lemma d11_start_agrees : cfg_ok d11_cfg /\ geom_ok d11_cfg d11_cons /\ agree d11_cfg d11_page d11_cons.
Proof.
  split; [apply cfg_okb_ok; reflexivity|]. split; [unfold geom_ok; cbn; tauto|].
  intros y x _. reflexivity.
Qed.

Lemma scroll_unfixed_refuted :
  let r := scroll_up_unfixed d11_cfg 0 d11_page 1 2 1 [] zimg in
  canvas (consume d11_cons (sigs (snd r))) 1 0 = 1 /\ px (fst r) 1 0 = 0.
Proof. vm_compute. split; reflexivity. Qed.

Lemma scroll_fixed_same_witness :
  let r := scroll_up d11_cfg 0 d11_page 1 2 1 [] tblank zimg in
  canvas (consume d11_cons (sigs (snd r))) 1 0 = 1 /\ px (fst r) 1 0 = 1.
Proof. vm_compute. split; reflexivity. Qed.

(* ------------------------------------------------------------------------------------------------ *)
(* the Hercules exclusion, exactly: inside the text screen the scroll condition `to*fh <= PH` fails only for a
   scroll that includes the last text row of a mode whose last row is cut off (PH < TH*fh) *)
Lemma scroll_range_exact : forall c a b, cfg_ok c -> 1 <= a -> a <= b -> b <= TH c ->
  (b * fh c <= PH c <-> ~ (b = TH c /\ PH c < TH c * fh c)).
Proof.
  intros c a b (Hfw & Hfh & Htw & Hth & Hpw & Hlo & Hhi & Hlast) Ha Hab Hb. split.
  - intros H [E L]. subst b. lia.
  - intros H. destruct (Z.eq_dec b (TH c)) as [E|E].
    + subst b. lia.
    + assert (b * fh c <= (TH c - 1) * fh c) by (apply Z.mul_le_mono_nonneg_r; lia). lia.
Qed.

(* the only mode with a cut-off last row is 720x348 (Hercules SCREEN 3); every mode has 25 text rows *)
Lemma cut_off_modes :
  filter (fun t => let c := cfg_of_tuple t in PH c <? TH c * fh c) mode_table = [(348, 720, 25, 80, 14, 9)]
  /\ forallb (fun t => TH (cfg_of_tuple t) =? 25) mode_table = true
  /\ forallb (fun t => let c := cfg_of_tuple t in (PH c =? TH c * fh c) && cfg_okb c) tandy_mode_table = true.
Proof. vm_compute. repeat split; reflexivity. Qed.

(* ------------------------------------------------------------------------------------------------ *)
(* callers: the scroll area stays inside the screen, and below the last row except on Tandy/PCjr *)
Definition sa_ok (tandy : bool) (a : sarea) : Prop :=
  sa_height a = 25 /\ 1 <= sa_top a <= sa_bottom a /\ sa_bottom a <= 25 /\ (tandy = false -> sa_bottom a <= 24).

Definition sa_op_ok (tandy : bool) (o : sa_op) : Prop :=
  match o with
  | SaUnset => True
  | SaViewPrint _ _ nobar => nobar = true -> tandy = true      (* _tandytext and not bottom_bar.visible *)
  | SaInitMode h => h = 25                                     (* every mode has 25 rows: cut_off_modes *)
  end.

Lemma sa_step_ok : forall tandy a o, sa_ok tandy a -> sa_op_ok tandy o -> sa_ok tandy (sa_step a o).
Proof.
  intros tandy a o (Hh & Ht & Hb & Hn) Ho. destruct o as [|start stop nobar|h]; cbn [sa_step sa_op_ok] in *.
  - unfold sa_ok, sa_unset. cbn. rewrite Hh. repeat split; lia.
  - destruct ((1 <=? start) && (start <=? (if nobar then 25 else 24)) && (1 <=? stop)
              && (stop <=? (if nobar then 25 else 24)) && (start <=? stop)) eqn:E.
    + repeat (apply andb_true_iff in E; destruct E as [E ?]).
      repeat match goal with H : (_ <=? _) = true |- _ => apply Z.leb_le in H end.
      unfold sa_ok. cbn. destruct nobar.
      * repeat split; try lia. intros T. rewrite Ho in T by reflexivity. discriminate T.
      * repeat split; lia.
    + unfold sa_ok. auto.
  - subst h. destruct (sa_bottom a =? 25) eqn:E.
    + apply Z.eqb_eq in E. unfold sa_ok. cbn. repeat split; try lia. intros T. specialize (Hn T). lia.
    + unfold sa_ok, sa_unset. cbn. repeat split; lia.
Qed.

Theorem sa_inv : forall tandy ops a, sa_ok tandy a -> Forall (sa_op_ok tandy) ops ->
  sa_ok tandy (fold_left sa_step ops a).
Proof.
  intros tandy ops. induction ops as [|o r IH]; intros a Ha Hops; [exact Ha|].
  inversion Hops; subst. cbn [fold_left]. apply IH; [apply sa_step_ok; assumption | assumption].
Qed.

(* hence the calls clear_view -> clear_rows(top, bottom), clear -> clear_rows(1, height),
   redraw_bar -> clear_rows(height, height), scroll() -> scroll_up(top, bottom) have arguments inside the
   envelope in every mode (on Tandy/PCjr: in every mode of those adapters) *)
Theorem scroll_area_calls_in_envelope : forall tandy a c, sa_ok tandy a -> cfg_ok c -> TH c = 25 ->
  (tandy = true -> PH c = TH c * fh c) ->
  in_rows c (sa_top a) (sa_bottom a) = true /\ in_rows c 1 (sa_height a) = true
  /\ in_rows c (sa_height a) (sa_height a) = true /\ (sa_bottom a * fh c <=? PH c) = true.
Proof.
  intros tandy a c (Hh & Ht & Hb & Hn) C H25 Htd.
  destruct C as (Hfw & Hfh & Htw & Hth & Hpw & Hlo & Hhi & Hlast).
  unfold in_rows. rewrite Hh, H25. split; [|split; [|split]].
  - rewrite !andb_true_iff, !Z.leb_le. lia.
  - reflexivity.
  - reflexivity.
  - apply Z.leb_le. destruct tandy.
    + rewrite (Htd eq_refl), H25. apply Z.mul_le_mono_nonneg_r; lia.
    + specialize (Hn eq_refl). rewrite H25 in Hlast.
      assert (sa_bottom a * fh c <= 24 * fh c) by (apply Z.mul_le_mono_nonneg_r; lia). lia.
Qed.

(* ------------------------------------------------------------------------------------------------ *)
(* _refresh_dbcs: the range it returns contains the range it was given and every cell it changed - for all rows,
   all contents, all lengths.  This is what `refresh_row` (cells change only inside (s, e)) assumes. *)
Lemma first_true_spec : forall l i,
  match first_true l i with
  | Some f => i <= f /\ forall k, Z.of_nat k + i < f -> nth k l false = false
  | None => forall k, nth k l false = false
  end.
Proof.
  induction l as [|b r IH]; intros i; cbn [first_true].
  - intros k. destruct k; reflexivity.
  - destruct b.
    + split; [lia|]. intros k Hk. lia.
    + specialize (IH (i + 1)). destruct (first_true r (i + 1)) as [f|].
      * destruct IH as [Hf Hall]. split; [lia|]. intros k Hk. destruct k as [|k]; [reflexivity|].
        cbn [nth]. apply Hall. lia.
      * intros k. destruct k as [|k]; [reflexivity | apply IH].
Qed.

Lemma last_true_spec : forall l i,
  match last_true l i with
  | Some j => i <= j /\ forall k, j < Z.of_nat k + i -> nth k l false = false
  | None => forall k, nth k l false = false
  end.
Proof.
  induction l as [|b r IH]; intros i; cbn [last_true].
  - intros k. destruct k; reflexivity.
  - specialize (IH (i + 1)). destruct (last_true r (i + 1)) as [j|].
    + destruct IH as [Hj Hall]. split; [lia|]. intros k Hk. destruct k as [|k]; [lia|].
      cbn [nth]. apply Hall. lia.
    + destruct b.
      * split; [lia|]. intros k Hk. destruct k as [|k]; [lia | cbn [nth]; apply IH].
      * intros k. destruct k as [|k]; [reflexivity | apply IH].
Qed.

Lemma updated_false : forall o n k d, length o = length n -> (k < length n)%nat ->
  nth k (updated o n) false = false -> nth k n d = nth k o d.
Proof.
  induction o as [|a o IH]; intros n k d Hl Hk H; destruct n as [|b n]; cbn in Hl, Hk; try lia.
  destruct k as [|k]; cbn [updated nth] in *.
  - apply negb_false_iff, Z.eqb_eq in H. congruence.
  - apply IH; [lia | lia | exact H].
Qed.

Lemma updated_length : forall o n, length o = length n -> length (updated o n) = length n.
Proof. induction o as [|a o IH]; intros [|b n] H; cbn in *; try lia. rewrite IH; lia. Qed.

Theorem refresh_range_covers : forall o n os oe s e d, length o = length n ->
  refresh_range o n os oe = (s, e) ->
  s <= os /\ oe <= e /\
  forall k, (k < length n)%nat -> ~ (s <= Z.of_nat k + 1 <= e) -> nth k n d = nth k o d.
Proof.
  intros o n os oe s e d Hl H. unfold refresh_range in H. cbv zeta in H.
  pose proof (first_true_spec (updated o n) 1) as F. pose proof (last_true_spec (updated o n) 1) as L.
  destruct (first_true (updated o n) 1) as [f|]; [destruct (last_true (updated o n) 1) as [l|]|].
  - inversion H; subst s e. split; [lia|]. split; [lia|].
    destruct F as [_ F]. destruct L as [_ L]. intros k Hk Hout.
    apply updated_false; [exact Hl | exact Hk |].
    destruct (Z_lt_le_dec (Z.of_nat k + 1) f) as [Hlt|Hge]; [apply F; exact Hlt|].
    apply L. lia.
  - inversion H; subst s e. split; [lia|]. split; [lia|]. intros k Hk _.
    apply updated_false; [exact Hl | exact Hk | apply L].
  - inversion H; subst s e. split; [lia|]. split; [lia|]. intros k Hk _.
    apply updated_false; [exact Hl | exact Hk | apply F].
Qed.

(* hence replacing the whole unicode row (what the code does) is the model's `refresh_row` on that range *)
Theorem refresh_row_is_whole_row : forall pg r o n os oe s e, length o = length n ->
  refresh_range o n os oe = (s, e) ->
  (forall col, 1 <= col <= zlen n -> txt pg r col = row_fn o col) ->
  forall col, 1 <= col <= zlen n ->
  txt (refresh_row pg r s e (fun _ c => row_fn n c)) r col = row_fn n col.
Proof.
  intros pg r o n os oe s e Hl H Hold col Hc.
  destruct (refresh_range_covers o n os oe s e blank Hl H) as (_ & _ & Hcov).
  unfold refresh_row. cbn [txt set_txt].
  destruct (incells r r s e r col) eqn:E.
  - apply incells_true in E. rewrite tset_in by lia. reflexivity.
  - apply incells_false in E. rewrite tset_out by exact E. rewrite Hold by exact Hc.
    unfold row_fn. unfold zlen in Hc. symmetry. apply Hcov; [lia|].
    rewrite Z2Nat.id by lia. intros Hin. apply E. lia.
Qed.
