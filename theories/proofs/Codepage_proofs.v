(* C41 - proofs about the streaming Converter state machine of model/Codepage.v, for ALL parameter sets
   (lead, trail, connects, preserve, box on/off), all well-formed states and all byte strings. *)
From Coq Require Import String ZArith List Bool Lia.
From PCB Require Import lib.Result lib.PyInt lib.Harness gen.Gen_codepages gen.Gen_codepages_dbcs model.Codepage.
Import ListNotations.
Open Scope Z_scope.

Ltac break_ifs :=
  repeat match goal with
         | |- context [if ?b then _ else _] => destruct b eqn:?
         end.

Ltac z_hyps :=
  repeat match goal with
         | H : (_ =? _) = true |- _ => apply Z.eqb_eq in H
         | H : (_ =? _) = false |- _ => apply Z.eqb_neq in H
         end.

Ltac finish_step :=
  cbn [fst snd s_buf s_bset s_last concat app List.length];
  first [ exfalso; lia
        | split; [|split];
          [ reflexivity
          | unfold wf_box, wf_nobox; cbn [s_buf s_bset List.length]; lia
          | repeat constructor; unfold seq_ok; cbn [List.length]; lia ] ].

(* ---- one step, box protection on *)
Lemma process_box_step p st c : wf_box st ->
  concat (fst (process_box p st c)) ++ s_buf (snd (process_box p st c)) = s_buf st ++ [c]
  /\ wf_box (snd (process_box p st c))
  /\ Forall seq_ok (fst (process_box p st c)).
Proof.
  destruct st as [buf bset last]. unfold wf_box; cbn [s_buf s_bset]. intros H.
  destruct buf as [|b0 [|b1 [|b2 rest]]]; cbn [List.length] in H; try (exfalso; lia);
    unfold process_box, flush, flush_n, with_buf, connects_last;
    cbn [s_buf s_bset s_last nonempty List.length firstn skipn app negb];
    destruct last as [l0|]; break_ifs; z_hyps; subst; finish_step.
Qed.

(* ---- one step, no box protection *)
Lemma process_nobox_step p st c : wf_nobox st ->
  concat (fst (process_nobox p st c)) ++ s_buf (snd (process_nobox p st c)) = s_buf st ++ [c]
  /\ wf_nobox (snd (process_nobox p st c))
  /\ Forall seq_ok (fst (process_nobox p st c)).
Proof.
  destruct st as [buf bset last]. unfold wf_nobox; cbn [s_buf]. intros H.
  destruct buf as [|b0 [|b1 rest]]; cbn [List.length] in H; try (exfalso; lia);
    unfold process_nobox, flush, flush_n, with_buf;
    cbn [s_buf s_bset s_last nonempty List.length firstn skipn app negb];
    break_ifs; finish_step.
Qed.

Lemma process_step p st c : wf_state p st ->
  concat (fst (process p st c)) ++ s_buf (snd (process p st c)) = s_buf st ++ [c]
  /\ wf_state p (snd (process p st c))
  /\ Forall seq_ok (fst (process p st c)).
Proof.
  unfold wf_state, process. destruct (p_box p).
  - apply process_box_step.
  - apply process_nobox_step.
Qed.

(* ---- whole strings *)
Lemma process_all_cons p st c r :
  process_all p st (c :: r) =
  (fst (process p st c) ++ fst (process_all p (snd (process p st c)) r),
   snd (process_all p (snd (process p st c)) r)).
Proof.
  cbn [process_all]. destruct (process p st c) as [o st1]. cbn [fst snd].
  destruct (process_all p st1 r) as [o2 st2]. reflexivity.
Qed.

Lemma process_all_inv p s : forall st, wf_state p st ->
  concat (fst (process_all p st s)) ++ s_buf (snd (process_all p st s)) = s_buf st ++ s
  /\ wf_state p (snd (process_all p st s))
  /\ Forall seq_ok (fst (process_all p st s)).
Proof.
  induction s as [|c r IH]; intros st Hwf.
  - cbn. rewrite app_nil_r. repeat split; auto.
  - rewrite process_all_cons. cbn [fst snd].
    destruct (process_step p st c Hwf) as (Hc & Hw & Hs).
    destruct (IH _ Hw) as (Hc2 & Hw2 & Hs2).
    repeat split.
    + rewrite concat_app, <- app_assoc, Hc2, app_assoc, Hc, <- app_assoc. reflexivity.
    + exact Hw2.
    + apply Forall_app. split; assumption.
Qed.

(* the converter is a fold: no hypothesis on the state at all *)
Lemma process_all_app p s1 : forall s2 st,
  process_all p st (s1 ++ s2) =
  (fst (process_all p st s1) ++ fst (process_all p (snd (process_all p st s1)) s2),
   snd (process_all p (snd (process_all p st s1)) s2)).
Proof.
  induction s1 as [|c r IH]; intros s2 st.
  - cbn. destruct (process_all p st s2); reflexivity.
  - cbn [app]. rewrite !process_all_cons. cbn [fst snd]. rewrite IH. cbn [fst snd].
    rewrite app_assoc. reflexivity.
Qed.

Lemma flush_props st :
  concat (fst (flush st)) = s_buf st /\ s_buf (snd (flush st)) = []
  /\ s_bset (snd (flush st)) = s_bset st.
Proof.
  unfold flush, flush_n, with_buf. destruct st as [buf bset last]. cbn [s_buf s_bset s_last].
  destruct buf as [|a l]; cbn [nonempty fst snd s_buf s_bset concat].
  - auto.
  - rewrite app_nil_r, firstn_all, skipn_all. auto.
Qed.

Lemma flush_wf p st : wf_state p st -> wf_state p (snd (flush st)) /\
  Forall seq_ok (fst (flush st)).
Proof.
  unfold wf_state, wf_box, wf_nobox, flush, flush_n, with_buf.
  destruct st as [buf bset last]. cbn [s_buf s_bset s_last].
  destruct buf as [|b0 [|b1 [|b2 rest]]]; cbn [nonempty fst snd s_buf s_bset List.length firstn skipn];
    destruct (p_box p); intros H; split; try lia;
    repeat constructor; unfold seq_ok; cbn [List.length] in *; lia.
Qed.

(* ---- Converter._mark *)
Lemma mark_noflush p dbcs st s : wf_mark p dbcs st ->
  concat (fst (mark p dbcs st s false)) ++ s_buf (snd (mark p dbcs st s false)) = s_buf st ++ s
  /\ wf_mark p dbcs (snd (mark p dbcs st s false))
  /\ Forall seq_ok (fst (mark p dbcs st s false)).
Proof.
  unfold mark, wf_mark. destruct dbcs; cbn [negb]; intros H.
  - destruct (process_all p st s) as [o st1] eqn:E.
    pose proof (process_all_inv p s st H) as Hi. rewrite E in Hi. exact Hi.
  - cbn [fst snd]. rewrite H. cbn [app]. rewrite app_nil_r. repeat split.
    + induction s as [|c r IH]; cbn; [reflexivity | now rewrite IH].
    + induction s as [|c r IH]; cbn; constructor; auto. left; reflexivity.
Qed.

Lemma mark_flush p dbcs st s : wf_mark p dbcs st ->
  concat (fst (mark p dbcs st s true)) = s_buf st ++ s
  /\ s_buf (snd (mark p dbcs st s true)) = []
  /\ wf_mark p dbcs (snd (mark p dbcs st s true))
  /\ Forall seq_ok (fst (mark p dbcs st s true)).
Proof.
  intros H. pose proof (mark_noflush p dbcs st s H) as (Hc & Hw & Hs).
  unfold mark in *. unfold wf_mark in *. destruct dbcs; cbn [negb] in *.
  - destruct (process_all p st s) as [o st1]. cbn [fst snd] in *.
    destruct (flush st1) as [o2 st2] eqn:E. cbn [fst snd].
    pose proof (flush_props st1) as (F1 & F2 & F3). pose proof (flush_wf p st1 Hw) as (F4 & F5).
    rewrite E in *. cbn [fst snd] in *.
    repeat split; auto.
    + rewrite concat_app, F1. exact Hc.
    + apply Forall_app; split; assumption.
  - cbn [fst snd] in *. rewrite H in *. cbn [app] in *. rewrite app_nil_r in Hc. auto.
Qed.

Lemma mark_app p dbcs st s1 s2 fl :
  mark p dbcs st (s1 ++ s2) fl =
  (fst (mark p dbcs st s1 false) ++ fst (mark p dbcs (snd (mark p dbcs st s1 false)) s2 fl),
   snd (mark p dbcs (snd (mark p dbcs st s1 false)) s2 fl)).
Proof.
  unfold mark. destruct dbcs; cbn [negb].
  - rewrite process_all_app.
    destruct (process_all p st s1) as [o1 st1]. cbn [fst snd].
    destruct (process_all p st1 s2) as [o2 st2]. cbn [fst snd].
    destruct fl.
    + destruct (flush st2) as [o3 st3]. cbn [fst snd]. now rewrite app_assoc.
    + reflexivity.
  - cbn [fst snd]. now rewrite map_app.
Qed.

Lemma mark_pieces_concat p dbcs pieces : forall st,
  mark_pieces p dbcs st pieces = mark p dbcs st (concat pieces) false.
Proof.
  induction pieces as [|s r IH]; intros st.
  - cbn. unfold mark. destruct dbcs; reflexivity.
  - cbn [mark_pieces concat]. rewrite mark_app.
    destruct (mark p dbcs st s false) as [o st1]. cbn [fst snd].
    rewrite IH. destruct (mark p dbcs st1 (concat r) false); reflexivity.
Qed.

(* ---- unicode level: to_unicode_list is a map over the marked sequences *)
Lemma with_marks_app a b : with_marks (a ++ b) = with_marks a ++ with_marks b.
Proof. unfold with_marks. apply flat_map_app. Qed.

Lemma to_unicode_list_app cv st s1 s2 fl :
  to_unicode_list cv st (s1 ++ s2) fl =
  (fst (to_unicode_list cv st s1 false)
     ++ fst (to_unicode_list cv (snd (to_unicode_list cv st s1 false)) s2 fl),
   snd (to_unicode_list cv (snd (to_unicode_list cv st s1 false)) s2 fl)).
Proof.
  unfold to_unicode_list. rewrite mark_app.
  destruct (mark (params_of cv) (t_dbcs (cv_t cv)) st s1 false) as [o1 st1]. cbn [fst snd].
  destruct (mark (params_of cv) (t_dbcs (cv_t cv)) st1 s2 fl) as [o2 st2]. cbn [fst snd].
  now rewrite with_marks_app, map_app.
Qed.

Lemma unicode_pieces_concat cv pieces : forall st,
  unicode_pieces cv st pieces = to_unicode_list cv st (concat pieces) false.
Proof.
  induction pieces as [|s r IH]; intros st.
  - cbn. unfold to_unicode_list, mark. destruct (t_dbcs (cv_t cv)); reflexivity.
  - cbn [unicode_pieces concat]. rewrite to_unicode_list_app.
    destruct (to_unicode_list cv st s false) as [o st1]. cbn [fst snd].
    rewrite IH. destruct (to_unicode_list cv st1 (concat r) false); reflexivity.
Qed.

Lemma init_wf p dbcs : wf_mark p dbcs init_state.
Proof.
  unfold wf_mark, wf_state, wf_box, wf_nobox, init_state. destruct dbcs; [|reflexivity].
  destruct (p_box p); cbn; lia.
Qed.

(* converting in pieces (no flush) and flushing at the end = converting the whole string with flush *)
Lemma convert_pieces cv st pieces :
  to_unicode_list cv st (concat pieces) true =
  (fst (unicode_pieces cv st pieces)
     ++ fst (to_unicode_list cv (snd (unicode_pieces cv st pieces)) [] true),
   snd (to_unicode_list cv (snd (unicode_pieces cv st pieces)) [] true)).
Proof.
  rewrite <- (app_nil_r (concat pieces)) at 1. rewrite to_unicode_list_app.
  rewrite <- unicode_pieces_concat. reflexivity.
Qed.

Lemma mark_pieces_flush p dbcs st pieces :
  mark p dbcs st (concat pieces) true =
  (fst (mark_pieces p dbcs st pieces) ++ fst (mark p dbcs (snd (mark_pieces p dbcs st pieces)) [] true),
   snd (mark p dbcs (snd (mark_pieces p dbcs st pieces)) [] true)).
Proof.
  rewrite <- (app_nil_r (concat pieces)) at 1. rewrite mark_app.
  rewrite <- mark_pieces_concat. reflexivity.
Qed.

(* ------------------------------------------------------------------------------------------------ *)
(* unicode -> bytes direction: Codepage._split_unicode on ALL strings *)

Definition clusters_nonempty (t : tables) : Prop := Forall (fun cl => cl <> []) t.(t_clusters).

Fixpoint sorted_desc (l : list (list Z)) : bool :=
  match l with
  | a :: ((b :: _) as r) => (List.length b <=? List.length a)%nat && sorted_desc r
  | _ => true
  end.

Lemma sorted_desc_head a r y : sorted_desc (a :: r) = true -> In y r ->
  (List.length y <= List.length a)%nat.
Proof.
  revert a. induction r as [|b r IH]; intros a Hs Hy; [destruct Hy|].
  cbn [sorted_desc] in Hs. apply andb_true_iff in Hs as [H1 H2]. apply Nat.leb_le in H1.
  destruct Hy as [<-|Hy]; [exact H1|]. specialize (IH b H2 Hy). lia.
Qed.

Lemma sorted_desc_tail a r : sorted_desc (a :: r) = true -> sorted_desc r = true.
Proof. destruct r as [|b r]; [reflexivity|]. cbn [sorted_desc]. intros H. apply andb_true_iff in H. tauto. Qed.

(* the first match in a list sorted longest-first is at least as long as every other match *)
Lemma find_first_longest (f : list Z -> bool) l : sorted_desc l = true ->
  forall y, In y l -> f y = true ->
  exists x, find f l = Some x /\ In x l /\ f x = true /\ (List.length y <= List.length x)%nat.
Proof.
  induction l as [|a r IH]; intros Hs y Hy Hf; [destruct Hy|].
  cbn [find]. destruct (f a) eqn:Fa.
  - exists a. repeat split; auto; [left; reflexivity|].
    destruct Hy as [<-|Hy]; [lia|]. exact (sorted_desc_head a r y Hs Hy).
  - destruct Hy as [<-|Hy]; [congruence|].
    destruct (IH (sorted_desc_tail a r Hs) y Hy Hf) as (x & H1 & H2 & H3 & H4).
    exists x. repeat split; auto. right; exact H2.
Qed.

Lemma starts_with_firstn pre l : starts_with pre l = true -> firstn (List.length pre) l = pre.
Proof. unfold starts_with. intros H. apply list_Z_eqb_eq. exact H. Qed.

Lemma match_len_pos t ucs : clusters_nonempty t -> (1 <= match_len t ucs)%nat.
Proof.
  unfold match_len, clusters_nonempty. intros Hn.
  destruct (find (fun cl => starts_with cl ucs) (t_clusters t)) as [cl|] eqn:E; [|lia].
  apply find_some in E as [Hin _]. rewrite Forall_forall in Hn. specialize (Hn cl Hin).
  destruct cl; [congruence | cbn; lia].
Qed.

Lemma cluster_len_pos t ucs : clusters_nonempty t -> (1 <= cluster_len t ucs)%nat.
Proof.
  intros Hn. unfold cluster_len. pose proof (match_len_pos t ucs Hn).
  repeat match goal with |- context [match ?x with _ => _ end] => destruct x end; auto.
Qed.

(* nothing lost, nothing invented, never out of fuel: for every string *)
Lemma split_unicode_fuel_ok t : clusters_nonempty t -> forall fuel ucs,
  (List.length ucs <= fuel)%nat ->
  exists cls, split_unicode_fuel fuel t ucs = Ok cls /\ concat cls = ucs
              /\ Forall (fun c => c <> []) cls.
Proof.
  intros Hn. induction fuel as [|f IH]; intros ucs Hl.
  - destruct ucs; [|cbn in Hl; lia]. exists []. cbn. auto.
  - destruct ucs as [|c0 r] eqn:Eu; [exists []; cbn; auto|]. rewrite <- Eu in *.
    assert (Hne : ucs <> []) by (rewrite Eu; discriminate).
    pose proof (cluster_len_pos t ucs Hn) as Hp.
    assert (Hs : (List.length (skipn (cluster_len t ucs) ucs) <= f)%nat).
    { rewrite skipn_length. lia. }
    destruct (IH _ Hs) as (rest & H1 & H2 & H3).
    exists (firstn (cluster_len t ucs) ucs :: rest).
    replace (split_unicode_fuel (S f) t ucs) with
      (do rest <- split_unicode_fuel f t (skipn (cluster_len t ucs) ucs);
       Ok (firstn (cluster_len t ucs) ucs :: rest)) by (rewrite Eu; reflexivity).
    rewrite H1. cbn [bind]. split; [reflexivity|]. split.
    + cbn [concat]. rewrite H2. apply firstn_skipn.
    + constructor; [|exact H3]. intro Hf. apply Hne.
      destruct ucs; [reflexivity|]. destruct (cluster_len t (z :: ucs)); [lia | discriminate].
Qed.

Lemma split_unicode_ok t ucs : clusters_nonempty t ->
  exists cls, split_unicode t ucs = Ok cls /\ concat cls = ucs /\ Forall (fun c => c <> []) cls.
Proof. intros Hn. unfold split_unicode. apply split_unicode_fuel_ok; auto. Qed.

(* greedy clustering: when a table cluster cl is a prefix of the string (not led by the e-ASCII NUL), the
   first piece is a table cluster that is a prefix too and at least as long as cl - siblings that share a
   base letter (a+grave, a+acute) are each recognised *)
Lemma split_unicode_greedy t c0 rest cl : clusters_nonempty t -> sorted_desc t.(t_clusters) = true ->
  c0 <> 0 -> In cl t.(t_clusters) -> starts_with cl (c0 :: rest) = true ->
  exists cl' tail, split_unicode t (c0 :: rest) = Ok (cl' :: tail)
                   /\ In cl' t.(t_clusters) /\ starts_with cl' (c0 :: rest) = true
                   /\ (List.length cl <= List.length cl')%nat
                   /\ concat (cl' :: tail) = c0 :: rest.
Proof.
  intros Hn Hs Hc Hin Hsw.
  destruct (find_first_longest (fun x => starts_with x (c0 :: rest)) _ Hs cl Hin Hsw)
    as (cl' & Hf & Hin' & Hsw' & Hlen).
  assert (Hcl : cluster_len t (c0 :: rest) = List.length cl').
  { unfold cluster_len. assert (Hm : match_len t (c0 :: rest) = List.length cl')
      by (unfold match_len; rewrite Hf; reflexivity).
    destruct c0; [congruence | |]; destruct rest; exact Hm. }
  destruct (split_unicode_ok t (c0 :: rest) Hn) as (cls & H1 & H2 & H3).
  unfold split_unicode in H1. cbn [List.length split_unicode_fuel] in H1. rewrite Hcl in H1.
  rewrite (starts_with_firstn cl' _ Hsw') in H1.
  destruct (split_unicode_fuel (List.length rest) t (skipn (List.length cl') (c0 :: rest))) as [tail| | |] eqn:E;
    cbn [bind] in H1; try discriminate.
  injection H1 as <-. exists cl', tail. unfold split_unicode. cbn [List.length split_unicode_fuel].
  rewrite Hcl, (starts_with_firstn cl' _ Hsw'), E. cbn [bind]. repeat split; auto.
Qed.
