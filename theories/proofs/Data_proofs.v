(* C22: proofs about model/Data.v *)
From Coq Require Import ZArith List Bool Lia ZifyBool.
From PCB Require Import lib.Result lib.PyInt gen.Gen_data model.Data.
Import ListNotations.
Open Scope Z_scope.

(* ================================================================================================ *)
(* A. suffixes and positions *)

Definition sfx (s' s : list Z) : Prop := exists pre, s = pre ++ s'.

Lemma sfx_refl s : sfx s s.
Proof. exists []. reflexivity. Qed.

Lemma sfx_trans a b c : sfx a b -> sfx b c -> sfx a c.
Proof. intros [p1 ->] [p2 ->]. exists (p2 ++ p1). now rewrite app_assoc. Qed.

Lemma sfx_nil s : sfx [] s.
Proof. exists s. now rewrite app_nil_r. Qed.

Lemma sfx_cons c s : sfx s (c :: s).
Proof. exists [c]. reflexivity. Qed.

Lemma sfx_cons_r s' c s : sfx s' s -> sfx s' (c :: s).
Proof. intros H. eapply sfx_trans; [exact H | apply sfx_cons]. Qed.

Lemma sfx_tl c s' s : sfx (c :: s') s -> sfx s' s.
Proof. intros H. eapply sfx_trans; [apply sfx_cons | exact H]. Qed.

Lemma sfx_app pre s : sfx s (pre ++ s).
Proof. now exists pre. Qed.

Lemma sfx_length s' s : sfx s' s -> (length s' <= length s)%nat.
Proof. intros [pre ->]. rewrite app_length. lia. Qed.

Lemma sfx_skipn n (s : list Z) : sfx (skipn n s) s.
Proof. exists (firstn n s). now rewrite firstn_skipn. Qed.

Lemma seek_sfx p pos : sfx (seek p pos) p.
Proof. apply sfx_skipn. Qed.

Lemma seek_pos p s : sfx s p -> seek p (pos_of p s) = s.
Proof.
  intros [pre ->]. unfold seek, pos_of, zlen. rewrite app_length.
  replace (Z.to_nat (Z.of_nat (length pre + length s) - Z.of_nat (length s))) with (length pre) by lia.
  rewrite skipn_app, skipn_all, Nat.sub_diag. reflexivity.
Qed.

Lemma seek_0 p : seek p 0 = p.
Proof. reflexivity. Qed.

(* ================================================================================================ *)
(* B. character classes *)

Lemma is_end_stmt_spec c : is_end_stmt c = true <-> c = 0 \/ c = 58.
Proof. unfold is_end_stmt, memz. simpl. rewrite !orb_true_iff, !Z.eqb_eq. intuition discriminate. Qed.

Lemma is_blank_spec c : is_blank c = true <-> c = 32 \/ c = 9 \/ c = 10.
Proof. unfold is_blank, memz. simpl. rewrite !orb_true_iff, !Z.eqb_eq. intuition discriminate. Qed.

Lemma special_spec c : special c = true <-> c = 44 \/ c = 34 \/ c = 0 \/ c = 58.
Proof. unfold special, memz, COMMA, QUOTE. simpl. rewrite !orb_true_iff, !Z.eqb_eq. intuition discriminate. Qed.

(* a character class that contains none of comma, quote, NUL, colon contains no special character *)
Lemma class_not_special (P : Z -> bool) :
  P 44 = false -> P 34 = false -> P 0 = false -> P 58 = false -> forall c, P c = true -> special c = false.
Proof.
  intros H1 H2 H3 H4 c Hc. destruct (special c) eqn:E; [|reflexivity].
  apply special_spec in E. destruct E as [-> | [-> | [-> | ->]]]; congruence.
Qed.

Lemma blank_not_special c : is_blank c = true -> special c = false.
Proof. apply class_not_special; reflexivity. Qed.

Lemma special_upper c : special c = true -> upper c = c.
Proof. intros H. apply special_spec in H. destruct H as [-> | [-> | [-> | ->]]]; reflexivity. Qed.

Lemma forallb_imp {A} (P Q : A -> bool) l :
  (forall x, P x = true -> Q x = true) -> forallb P l = true -> forallb Q l = true.
Proof. intros H. rewrite !forallb_forall. auto. Qed.

Lemma forallb_firstn {A} (P : A -> bool) n l : forallb P l = true -> forallb P (firstn n l) = true.
Proof.
  revert n. induction l as [|a l IH]; intros [|n]; simpl; auto.
  intros H. apply andb_true_iff in H as [H1 H2]. rewrite H1. simpl. auto.
Qed.

Lemma all_blank_no_special b : all_blank b = true -> no_special b = true.
Proof.
  apply forallb_imp. intros x Hx. now rewrite (blank_not_special _ Hx).
Qed.

Lemma no_special_app a b : no_special (a ++ b) = no_special a && no_special b.
Proof. apply forallb_app. Qed.

(* ================================================================================================ *)
(* C. the scanners *)

Lemma skip_blank_split s : exists b, s = b ++ skip_blank s /\ all_blank b = true.
Proof.
  induction s as [|c r IH]; simpl.
  - exists []. auto.
  - destruct (is_blank c) eqn:E.
    + destruct IH as [b [Hb Hbl]]. exists (c :: b). simpl. rewrite E, Hbl. split; [congruence | reflexivity].
    + exists []. auto.
Qed.

Lemma skip_blank_sfx s : sfx (skip_blank s) s.
Proof. destruct (skip_blank_split s) as [b [Hb _]]. now exists b. Qed.

Lemma skip_blank_head s c r : skip_blank s = c :: r -> is_blank c = false.
Proof.
  induction s as [|d t IH]; simpl; [discriminate|].
  destruct (is_blank d) eqn:E; [exact IH|]. intros H. inversion H; subst. exact E.
Qed.

Lemma skip_blank_app_blank b x : all_blank b = true -> skip_blank (b ++ x) = skip_blank x.
Proof.
  induction b as [|c b IH]; simpl; [reflexivity|]. intros H. apply andb_true_iff in H as [H1 H2].
  rewrite H1. auto.
Qed.

Lemma skip_blank_nonblank c x : is_blank c = false -> skip_blank (c :: x) = c :: x.
Proof. intros H. simpl. now rewrite H. Qed.

Lemma skip_blank_idem s : skip_blank (skip_blank s) = skip_blank s.
Proof.
  destruct (skip_blank s) as [|c r] eqn:E; [reflexivity|].
  apply skip_blank_nonblank. eapply skip_blank_head. exact E.
Qed.

Lemma read_to_split stops s w s' :
  read_to stops s = (w, s') ->
  s = w ++ s' /\ forallb (fun c => negb (memz c stops)) w = true /\
  (s' = [] \/ exists c r, s' = c :: r /\ memz c stops = true).
Proof.
  revert w s'. induction s as [|c r IH]; simpl; intros w s' H.
  - inversion H; subst. auto.
  - destruct (memz c stops) eqn:E.
    + inversion H; subst. simpl. split; [reflexivity|]. split; [reflexivity|]. right. eauto.
    + destruct (read_to stops r) as [w0 s0] eqn:E0. inversion H; subst.
      destruct (IH _ _ eq_refl) as [H1 [H2 H3]]. simpl. rewrite E, H2. split; [congruence | auto].
Qed.

Lemma read_to_sfx stops s w s' : read_to stops s = (w, s') -> sfx s' s.
Proof. intros H. apply read_to_split in H as [-> _]. apply sfx_app. Qed.

Lemma read_to_app_nostop stops pre x :
  forallb (fun c => negb (memz c stops)) pre = true ->
  read_to stops (pre ++ x) = (pre ++ fst (read_to stops x), snd (read_to stops x)).
Proof.
  induction pre as [|c pre IH]; simpl; intros H.
  - now destruct (read_to stops x).
  - apply andb_true_iff in H as [H1 H2]. apply negb_true_iff in H1. rewrite H1, (IH H2). reflexivity.
Qed.

Lemma read_to_stop stops c x : memz c stops = true -> read_to stops (c :: x) = ([], c :: x).
Proof. intros H. simpl. now rewrite H. Qed.

Lemma read_to_nil stops : read_to stops [] = ([], []).
Proof. reflexivity. Qed.

Lemma read_string_sfx s w s' : read_string s = (w, s') -> sfx s' s.
Proof.
  unfold read_string. destruct s as [|c r]; [intros H; inversion H; apply sfx_refl|].
  destruct (c =? QUOTE); [|intros H; inversion H; apply sfx_refl].
  destruct (read_to (QUOTE :: data_END_LINE) r) as [w0 s1] eqn:E. apply read_to_sfx in E.
  destruct s1 as [|d s2].
  - intros H; inversion H. apply sfx_nil.
  - destruct (d =? QUOTE); intros H; inversion H; subst.
    + apply sfx_cons_r. eapply sfx_tl. exact E.
    + apply sfx_cons_r. exact E.
Qed.

Lemma take_while_split f s w s' : take_while f s = (w, s') -> s = w ++ s' /\ forallb f w = true.
Proof.
  revert w s'. induction s as [|c r IH]; simpl; intros w s' H.
  - inversion H. auto.
  - destruct (f c) eqn:E.
    + destruct (take_while f r) as [w0 s0]. inversion H; subst. destruct (IH _ _ eq_refl) as [H1 H2].
      simpl. rewrite E, H2. split; [congruence | reflexivity].
    + inversion H. auto.
Qed.

(* --- read_number consumes no special character --- *)

Lemma dec_loop_special he hp word c0 r :
  special c0 = true -> dec_loop he hp word (c0 :: r) = (word, c0 :: r).
Proof.
  intros H. apply special_spec in H. destruct H as [-> | [-> | [-> | ->]]]; reflexivity.
Qed.

Lemma dec_loop_split : forall s he hp word word' s1,
  dec_loop he hp word s = (word', s1) -> exists pre, s = pre ++ s1 /\ no_special pre = true.
Proof.
  induction s as [|c0 r IH]; intros he hp word word' s1 H.
  - simpl in H. inversion H. exists []. auto.
  - destruct (special c0) eqn:Hsp.
    + rewrite (dec_loop_special _ _ _ _ _ Hsp) in H. inversion H. exists []. auto.
    + assert (Hrec : forall he' hp' w', dec_loop he' hp' w' r = (word', s1) ->
                      exists pre, c0 :: r = pre ++ s1 /\ no_special pre = true).
      { intros he' hp' w' H'. apply IH in H' as [pre [-> Hp]]. exists (c0 :: pre). simpl.
        unfold no_special in *. simpl. now rewrite Hsp, Hp. }
      assert (Hone : r = s1 -> exists pre, c0 :: r = pre ++ s1 /\ no_special pre = true).
      { intros ->. exists [c0]. unfold no_special. simpl. now rewrite Hsp. }
      assert (Hnone : c0 :: r = s1 -> exists pre, c0 :: r = pre ++ s1 /\ no_special pre = true).
      { intros <-. exists []. auto. }
      cbn [dec_loop] in H.
      repeat (match type of H with context [if ?b then _ else _] => destruct b end);
        try (eapply Hrec; exact H); inversion H; subst; auto.
Qed.

Lemma read_dec_split s w s' : read_dec s = (w, s') -> exists pre, s = pre ++ s' /\ no_special pre = true.
Proof.
  unfold read_dec. destruct (dec_loop false false [] s) as [word s1] eqn:E.
  apply dec_loop_split in E as [pre [Hs Hp]]. intros H. inversion H; subst s'. clear H.
  set (n := (length s - length s1 - (length word - length (rstrip data_blanks word)))%nat).
  assert (Hn : (n <= length pre)%nat).
  { unfold n. rewrite Hs, app_length. lia. }
  exists (firstn n pre). split.
  - rewrite Hs at 2. rewrite skipn_app. replace (n - length pre)%nat with O by lia. simpl.
    rewrite app_assoc, firstn_skipn. exact Hs.
  - apply forallb_firstn. exact Hp.
Qed.

Lemma read_number_split s w s' : read_number s = (w, s') -> exists pre, s = pre ++ s' /\ no_special pre = true.
Proof.
  unfold read_number. destruct s as [|c r]; [intros H; inversion H; exists []; auto|].
  destruct (c =? 38) eqn:E38.
  - apply Z.eqb_eq in E38. subst c.
    destruct (match r with h :: _ => upper h =? 72 | [] => false end) eqn:EH.
    + destruct r as [|h r']; [discriminate|]. unfold read_hex. simpl tl.
      destruct (take_while (fun c => memz c data_HEXDIGITS) r') as [w0 s0] eqn:ET.
      apply take_while_split in ET as [-> Hw]. intros H; inversion H; subst.
      exists (38 :: h :: w0). split; [reflexivity|].
      unfold no_special. simpl. rewrite andb_true_iff. split.
      * destruct (special h) eqn:Es; [|reflexivity]. rewrite (special_upper _ Es) in EH.
        apply special_spec in Es. destruct Es as [-> | [-> | [-> | ->]]]; discriminate.
      * revert Hw. apply forallb_imp. intros x Hx.
        rewrite (class_not_special (fun c => memz c data_HEXDIGITS)); auto.
    + unfold read_oct.
      set (s0 := match r with c :: r0 => if upper c =? 79 then r0 else r | [] => [] end).
      destruct (take_while (fun c => memz c data_OCTDIGITS || is_blank c) s0) as [w0 s1] eqn:ET.
      apply take_while_split in ET as [Hs0 Hw]. intros H; inversion H; subst s'. clear H.
      assert (Hw' : no_special w0 = true).
      { revert Hw. apply forallb_imp. intros x Hx.
        rewrite (class_not_special (fun c => memz c data_OCTDIGITS || is_blank c)); auto. }
      destruct r as [|c r0].
      * subst s0. destruct w0; [|discriminate]. simpl in Hs0. subst s1. exists [38]. auto.
      * subst s0. destruct (upper c =? 79) eqn:EO.
        -- exists (38 :: c :: w0). split; [simpl; congruence|].
           unfold no_special in *. simpl. rewrite Hw', andb_true_r.
           destruct (special c) eqn:Es; [|reflexivity]. rewrite (special_upper _ Es) in EO.
           apply special_spec in Es. destruct Es as [-> | [-> | [-> | ->]]]; discriminate.
        -- exists (38 :: w0). split; [simpl; congruence|]. unfold no_special in *. simpl. exact Hw'.
  - destruct (memz c data_DIGITS || memz c [46; 43; 45]).
    + apply read_dec_split.
    + intros H; inversion H. exists []. auto.
Qed.

Lemma num_slot_split r1 w s2 s3 :
  num_slot r1 = (w, s2, s3) -> exists pre, r1 = pre ++ s3 /\ no_special pre = true.
Proof.
  unfold num_slot. destruct (read_number r1) as [w0 s0] eqn:E. intros H; inversion H; subst.
  apply read_number_split in E as [pre [-> Hp]].
  destruct (skip_blank_split s2) as [b [Hb Hbl]].
  exists (pre ++ b). split.
  - rewrite <- app_assoc. congruence.
  - rewrite no_special_app, Hp. simpl. now apply all_blank_no_special.
Qed.

Lemma num_slot_sfx r1 w s2 s3 : num_slot r1 = (w, s2, s3) -> sfx s3 r1.
Proof. intros H. apply num_slot_split in H as [pre [-> _]]. apply sfx_app. Qed.

(* --- one entry read as a string --- *)

Lemma stops_special c : memz c (COMMA :: QUOTE :: data_END_STATEMENT) = special c.
Proof. reflexivity. Qed.

Lemma str_slot_sfx r1 o s2 : str_slot r1 = (o, s2) -> sfx s2 r1.
Proof.
  unfold str_slot. destruct (read_to (COMMA :: QUOTE :: data_END_STATEMENT) r1) as [word t] eqn:E.
  apply read_to_sfx in E.
  destruct (match t with c :: _ => c =? QUOTE | [] => false end).
  - destruct (read_string t) as [lit s3] eqn:ES. apply read_string_sfx in ES.
    assert (H3 : sfx (skip_blank s3) r1).
    { eapply sfx_trans; [apply skip_blank_sfx|]. eapply sfx_trans; eassumption. }
    destruct (at_sep (skip_blank s3)); intros H; inversion H; subst; assumption.
  - intros H; inversion H; subst. exact E.
Qed.

Lemma str_slot_some_sep r1 v s2 : str_slot r1 = (Some v, s2) -> at_sep s2 = true.
Proof.
  unfold str_slot. destruct (read_to (COMMA :: QUOTE :: data_END_STATEMENT) r1) as [word t] eqn:E.
  apply read_to_split in E as [_ [_ Ht]].
  destruct (match t with c :: _ => c =? QUOTE | [] => false end) eqn:EQ.
  - destruct (read_string t) as [lit s3]. destruct (at_sep (skip_blank s3)) eqn:ES; intros H; inversion H; subst.
    exact ES.
  - intros H; inversion H; subst. destruct Ht as [-> | [c [r [-> Hc]]]]; [reflexivity|].
    rewrite stops_special in Hc. apply special_spec in Hc. simpl.
    destruct Hc as [-> | [-> | [-> | ->]]]; try reflexivity. discriminate.
Qed.

(* what a separator looks like *)
Lemma at_sep_cases s : at_sep s = true -> s = [] \/ exists c r, s = c :: r /\ (c = 0 \/ c = 58 \/ c = 44).
Proof.
  destruct s as [|c r]; [auto|]. simpl. intros H. right. exists c, r. split; [reflexivity|].
  apply orb_true_iff in H as [H | H].
  - apply is_end_stmt_spec in H. tauto.
  - apply Z.eqb_eq in H. auto.
Qed.

Lemma at_sep_not_comma_at_end c r : at_sep (c :: r) = true -> (c =? COMMA) = false -> at_end (c :: r) = true.
Proof. simpl. intros H E. rewrite E, orb_false_r in H. exact H. Qed.

(* agreement: an entry that reads as a number ends, as a string, at the same place *)
Lemma num_str_agree r1 w s2 s3 :
  num_slot r1 = (w, s2, s3) -> at_sep s3 = true -> exists v, str_slot r1 = (Some v, s3).
Proof.
  intros Hn Hs. apply num_slot_split in Hn as [pre [-> Hp]].
  unfold str_slot. rewrite read_to_app_nostop by exact Hp.
  apply at_sep_cases in Hs as [-> | [c [r [-> Hc]]]].
  - simpl. eauto.
  - assert (Hst : memz c (COMMA :: QUOTE :: data_END_STATEMENT) = true).
    { rewrite stops_special. apply special_spec. tauto. }
    rewrite (read_to_stop _ _ _ Hst). simpl fst. simpl snd. rewrite app_nil_r.
    assert (c =? QUOTE = false) as -> by (destruct Hc as [-> | [-> | ->]]; reflexivity).
    eauto.
Qed.

Lemma str_bad_not_numeric r1 w s2 s3 s4 :
  str_slot r1 = (None, s4) -> num_slot r1 = (w, s2, s3) -> at_sep s3 = false.
Proof.
  intros Hs Hn. destruct (at_sep s3) eqn:E; [|reflexivity].
  destruct (num_str_agree _ _ _ _ Hn E) as [v Hv]. congruence.
Qed.

(* the numeric reading never runs past the end of the entry *)
Lemma num_within_str r1 w s2n s3 o s2 :
  num_slot r1 = (w, s2n, s3) -> str_slot r1 = (o, s2) -> (length s2 <= length s3)%nat.
Proof.
  intros Hn Hs. apply num_slot_split in Hn as [pre [-> Hp]].
  unfold str_slot in Hs. rewrite read_to_app_nostop in Hs by exact Hp.
  destruct (read_to (COMMA :: QUOTE :: data_END_STATEMENT) s3) as [w0 t] eqn:E. simpl fst in Hs. simpl snd in Hs.
  apply read_to_sfx in E.
  assert (sfx s2 t).
  { destruct (match t with c :: _ => c =? QUOTE | [] => false end).
    - destruct (read_string t) as [lit s5] eqn:ES. apply read_string_sfx in ES.
      assert (H5 : sfx (skip_blank s5) t) by (eapply sfx_trans; [apply skip_blank_sfx | exact ES]).
      destruct (at_sep (skip_blank s5)); inversion Hs; subst; assumption.
    - inversion Hs; subst. apply sfx_refl. }
  apply sfx_length. eapply sfx_trans; eassumption.
Qed.

(* --- skip_to and find_data --- *)

Lemma skip_to_sfx stop : forall s k lit rem, sfx (skip_to stop k lit rem s) s.
Proof.
  induction s as [|c r IH]; intros k lit rem; simpl; [apply sfx_refl|].
  destruct k; [|apply sfx_cons_r, IH].
  match goal with |- context [if ?b then _ else _] => destruct b end; [apply sfx_cons_r, IH|].
  destruct (stop c); [apply sfx_refl | apply sfx_cons_r, IH].
Qed.

Lemma after_sep_sfx ln c r :
  match after_sep ln c r with inl s' => sfx s' r | inr (_, r2) => sfx r2 r end.
Proof.
  unfold after_sep. destruct (c =? 0); [|apply sfx_refl].
  destruct r as [|a [|b [|x [|y r']]]]; try apply sfx_nil.
  destruct ((a =? 0) && (b =? 0)); exists [a; b; x; y]; reflexivity.
Qed.

Lemma find_data_ok : forall f ln s, (length s < f)%nat ->
  exists ln' s', find_data f ln s = Ok (ln', s') /\ sfx s' s.
Proof.
  induction f as [|f IH]; intros ln s Hf; [lia|]. simpl.
  pose proof (skip_to_sfx is_end_stmt s 0%nat false false) as Hs.
  destruct (skip_to is_end_stmt 0 false false s) as [|c r]; [eexists _, _; split; [reflexivity | apply sfx_nil]|].
  pose proof (after_sep_sfx ln c r) as Ha.
  destruct (after_sep ln c r) as [s' | [ln' r2]].
  - eexists _, _; split; [reflexivity|]. eapply sfx_trans; [exact Ha|]. eapply sfx_tl; exact Hs.
  - unfold stmt_start. pose proof (skip_blank_sfx r2) as Hb.
    assert (H3 : sfx (skip_blank r2) s).
    { eapply sfx_trans; [exact Hb|]. eapply sfx_trans; [exact Ha|]. eapply sfx_tl; exact Hs. }
    destruct (skip_blank r2) as [|t r3] eqn:E3; [eexists _, _; split; [reflexivity | apply sfx_nil]|].
    destruct (t =? data_tk_DATA); [eexists _, _; split; [reflexivity | exact H3]|].
    assert (Hl : (length (t :: r3) < f)%nat).
    { apply sfx_length in Hb, Ha, Hs. simpl in *. lia. }
    destruct (IH ln' (t :: r3) Hl) as [l2 [s2 [H1 H2]]]. eexists _, _; split; [exact H1|].
    eapply sfx_trans; eassumption.
Qed.

Lemma find_data_fuel : forall f1 f2 ln s, (length s < f1)%nat -> (length s < f2)%nat ->
  find_data f1 ln s = find_data f2 ln s.
Proof.
  induction f1 as [|f1 IH]; intros f2 ln s H1 H2; [lia|]. destruct f2 as [|f2]; [lia|]. simpl.
  pose proof (skip_to_sfx is_end_stmt s 0%nat false false) as Hs.
  destruct (skip_to is_end_stmt 0 false false s) as [|c r]; [reflexivity|].
  pose proof (after_sep_sfx ln c r) as Ha.
  destruct (after_sep ln c r) as [s' | [ln' r2]]; [reflexivity|].
  unfold stmt_start. pose proof (skip_blank_sfx r2) as Hb.
  destruct (skip_blank r2) as [|t r3]; [reflexivity|].
  destruct (t =? data_tk_DATA); [reflexivity|].
  apply sfx_length in Hb, Ha, Hs. simpl in *. apply IH; simpl; lia.
Qed.

Definition fd (ln : Z) (s : list Z) : res (Z * list Z) := find_data (S (length s)) ln s.

Lemma fd_eq ln s :
  fd ln s = match skip_to is_end_stmt 0 false false s with
            | [] => Ok (ln, [])
            | c :: r => match after_sep ln c r with
                        | inl s' => Ok (ln, s')
                        | inr (ln', r2) => stmt_start fd ln' r2
                        end
            end.
Proof.
  unfold fd at 1. simpl.
  pose proof (skip_to_sfx is_end_stmt s 0%nat false false) as Hs.
  destruct (skip_to is_end_stmt 0 false false s) as [|c r]; [reflexivity|].
  pose proof (after_sep_sfx ln c r) as Ha.
  destruct (after_sep ln c r) as [s' | [ln' r2]]; [reflexivity|].
  unfold stmt_start. pose proof (skip_blank_sfx r2) as Hb.
  destruct (skip_blank r2) as [|t r3]; [reflexivity|].
  destruct (t =? data_tk_DATA); [reflexivity|].
  apply sfx_length in Hb, Ha, Hs. simpl in *. unfold fd. apply find_data_fuel; simpl; lia.
Qed.

Lemma fd_ok ln s : exists ln' s', fd ln s = Ok (ln', s') /\ sfx s' s.
Proof. apply find_data_ok. lia. Qed.

(* the line number argument does not influence where the scan stops *)
Lemma find_data_stream : forall f ln1 ln2 s,
  rmap snd (find_data f ln1 s) = rmap snd (find_data f ln2 s).
Proof.
  induction f as [|f IH]; intros ln1 ln2 s; [reflexivity|]. simpl.
  destruct (skip_to is_end_stmt 0 false false s) as [|c r]; [reflexivity|].
  unfold after_sep. destruct (c =? 0).
  - destruct r as [|a [|b [|x [|y r']]]]; try reflexivity.
    destruct ((a =? 0) && (b =? 0)); [reflexivity|].
    unfold stmt_start. destruct (skip_blank r') as [|t r3]; [reflexivity|].
    destruct (t =? data_tk_DATA); reflexivity.
  - unfold stmt_start. destruct (skip_blank r) as [|t r3]; [reflexivity|].
    destruct (t =? data_tk_DATA); [reflexivity | apply IH].
Qed.

Lemma fd_stream ln1 ln2 s ln' s' : fd ln1 s = Ok (ln', s') -> exists l2, fd ln2 s = Ok (l2, s').
Proof.
  intros H. pose proof (find_data_stream (S (length s)) ln1 ln2 s) as E. fold (fd ln1 s) (fd ln2 s) in E.
  rewrite H in E. destruct (fd ln2 s) as [[l2 s2] | | |]; simpl in E; try discriminate.
  inversion E; subst. eauto.
Qed.

(* ================================================================================================ *)
(* D. the specification functions without fuel *)

Lemma stmt_items_end_sfx : forall f ln r its s', stmt_items f ln r = (its, inl s') -> sfx s' r.
Proof.
  induction f as [|f IH]; intros ln r its s' H; [discriminate|]. simpl in H.
  destruct (num_slot (skip_blank r)) as [[w s2n] s3].
  destruct (str_slot (skip_blank r)) as [[v|] s2] eqn:ES; [|discriminate].
  apply str_slot_sfx in ES. pose proof (skip_blank_sfx r) as Hb.
  assert (H2 : sfx s2 r) by (eapply sfx_trans; eassumption).
  destruct s2 as [|c r'].
  - inversion H; subst. apply sfx_nil.
  - destruct (c =? COMMA).
    + destruct (stmt_items f ln r') as [its0 e0] eqn:E0. inversion H; subst.
      eapply sfx_trans; [eapply IH; exact E0|]. eapply sfx_tl; exact H2.
    + inversion H; subst. exact H2.
Qed.

Lemma stmt_items_fuel : forall f1 f2 ln r, (length r < f1)%nat -> (length r < f2)%nat ->
  stmt_items f1 ln r = stmt_items f2 ln r.
Proof.
  induction f1 as [|f1 IH]; intros f2 ln r H1 H2; [lia|]. destruct f2 as [|f2]; [lia|]. simpl.
  destruct (num_slot (skip_blank r)) as [[w s2n] s3].
  destruct (str_slot (skip_blank r)) as [[v|] s2] eqn:ES; [|reflexivity].
  apply str_slot_sfx in ES. pose proof (skip_blank_sfx r) as Hb.
  destruct s2 as [|c r']; [reflexivity|].
  destruct (c =? COMMA); [|reflexivity].
  apply sfx_length in ES, Hb. simpl in *. rewrite (IH f2 ln r') by lia. reflexivity.
Qed.

Definition si (ln : Z) (r : list Z) : list item * (list Z + ending) := stmt_items (S (length r)) ln r.

Lemma si_eq ln r :
  si ln r =
  let r1 := skip_blank r in
  match num_slot r1 with
  | (w, s2n, s3) =>
      match str_slot r1 with
      | (None, s4) => ([], inr (BadEntry ln w s3 s4))
      | (Some v, s2) =>
          let it := {| it_line := ln; it_str := v; it_word := w; it_numeric := at_sep s3;
                       it_after := s2n; it_rest := s3 |} in
          match s2 with
          | c :: r' => if c =? COMMA then let (its, e) := si ln r' in (it :: its, e) else ([it], inl s2)
          | [] => ([it], inl [])
          end
      end
  end.
Proof.
  unfold si at 1. simpl.
  destruct (num_slot (skip_blank r)) as [[w s2n] s3].
  destruct (str_slot (skip_blank r)) as [[v|] s2] eqn:ES; [|reflexivity].
  apply str_slot_sfx in ES. pose proof (skip_blank_sfx r) as Hb.
  destruct s2 as [|c r']; [reflexivity|].
  destruct (c =? COMMA); [|reflexivity].
  apply sfx_length in ES, Hb. simpl in *. unfold si. rewrite (stmt_items_fuel (length r) (S (length r')) ln r') by lia.
  reflexivity.
Qed.

Lemma si_end_sfx ln r its s' : si ln r = (its, inl s') -> sfx s' r.
Proof. apply stmt_items_end_sfx. Qed.

Lemma si_nonempty ln r its s' : si ln r = (its, inl s') -> its <> [].
Proof.
  rewrite si_eq. cbv zeta.
  destruct (num_slot (skip_blank r)) as [[w s2n] s3].
  destruct (str_slot (skip_blank r)) as [[v|] s2]; [|discriminate].
  destruct s2 as [|c r']; [intros H; inversion H; discriminate|].
  destruct (c =? COMMA).
  - destruct (si ln r'). intros H; inversion H; discriminate.
  - intros H; inversion H; discriminate.
Qed.

(* the stream a READ looks at *)
Definition look (ln : Z) (s : list Z) : res (Z * list Z) := if at_end s then fd ln s else Ok (ln, s).

Lemma look_ok ln s : exists ln' s', look ln s = Ok (ln', s') /\ sfx s' s.
Proof.
  unfold look. destruct (at_end s); [apply fd_ok|]. eexists _, _; split; [reflexivity | apply sfx_refl].
Qed.

Lemma items_at_S f ln s :
  items_at (S f) ln s =
  match look ln s with
  | Ok (ln', c :: r) =>
      if (c =? data_tk_DATA) || (c =? COMMA) then
        match si ln' r with
        | (its, inl s') => let (more, e) := items_at f ln' s' in (its ++ more, e)
        | (its, inr e) => (its, e)
        end
      else ([], EndOfData)
  | _ => ([], EndOfData)
  end.
Proof. reflexivity. Qed.

Lemma items_at_fuel : forall f1 f2 ln s, (length s < f1)%nat -> (length s < f2)%nat ->
  items_at f1 ln s = items_at f2 ln s.
Proof.
  induction f1 as [|f1 IH]; intros f2 ln s H1 H2; [lia|]. destruct f2 as [|f2]; [lia|].
  rewrite !items_at_S.
  destruct (look_ok ln s) as [ln' [s1 [HL Hs1]]]. rewrite HL.
  destruct s1 as [|c r]; [reflexivity|].
  destruct ((c =? data_tk_DATA) || (c =? COMMA)); [|reflexivity].
  destruct (si ln' r) as [its [s'|e]] eqn:E; [|reflexivity].
  apply si_end_sfx in E. apply sfx_length in E, Hs1. simpl in *.
  rewrite (IH f2 ln' s') by lia. reflexivity.
Qed.

Definition ia (ln : Z) (s : list Z) : list item * ending := items_at (S (length s)) ln s.

Lemma ia_eq ln s :
  ia ln s = match look ln s with
            | Ok (ln', c :: r) =>
                if (c =? data_tk_DATA) || (c =? COMMA) then
                  match si ln' r with
                  | (its, inl s') => let (more, e) := ia ln' s' in (its ++ more, e)
                  | (its, inr e) => (its, e)
                  end
                else ([], EndOfData)
            | _ => ([], EndOfData)
            end.
Proof.
  unfold ia at 1. rewrite items_at_S.
  destruct (look_ok ln s) as [ln' [s1 [HL Hs1]]]. rewrite HL.
  destruct s1 as [|c r]; [reflexivity|].
  destruct ((c =? data_tk_DATA) || (c =? COMMA)); [|reflexivity].
  destruct (si ln' r) as [its [s'|e]] eqn:E; [|reflexivity].
  apply si_end_sfx in E. apply sfx_length in E, Hs1. simpl in *.
  unfold ia. rewrite (items_at_fuel (length s) (S (length s')) ln' s') by lia. reflexivity.
Qed.

Lemma data_items_ia p : data_items p = ia (-1) p.
Proof. reflexivity. Qed.

(* ================================================================================================ *)
(* E. READ against the list of entries (all byte codes) *)

Lemma stmt_items_inr : forall f ln r its e, (length r < f)%nat ->
  stmt_items f ln r = (its, inr e) -> exists l w a b, e = BadEntry l w a b.
Proof.
  induction f as [|f IH]; intros ln r its e Hf H; [lia|]. simpl in H.
  destruct (num_slot (skip_blank r)) as [[w s2n] s3].
  destruct (str_slot (skip_blank r)) as [[v|] s2] eqn:ES; [|inversion H; eauto].
  apply str_slot_sfx in ES. pose proof (skip_blank_sfx r) as Hb.
  destruct s2 as [|c r']; [discriminate|].
  destruct (c =? COMMA); [|discriminate].
  destruct (stmt_items f ln r') as [its0 e0] eqn:E0. inversion H; subst.
  apply sfx_length in ES, Hb. simpl in *. eapply IH; [|exact E0]. lia.
Qed.

Lemma si_inr ln r its e : si ln r = (its, inr e) -> exists l w a b, e = BadEntry l w a b.
Proof. apply stmt_items_inr. lia. Qed.

Lemma look_stream ln1 ln2 s ln' s' : look ln1 s = Ok (ln', s') -> exists l2, look ln2 s = Ok (l2, s').
Proof.
  unfold look. destruct (at_end s); [apply fd_stream|]. intros H; inversion H; subst. eauto.
Qed.

Lemma look_sfx ln s ln' s' : look ln s = Ok (ln', s') -> sfx s' s.
Proof. intros H. destruct (look_ok ln s) as [l [s1 [H1 H2]]]. congruence. Qed.

Lemma test_comma : (COMMA =? data_tk_DATA) || (COMMA =? COMMA) = true.
Proof. reflexivity. Qed.

Lemma ia_comma ln r' :
  ia ln (COMMA :: r') = match si ln r' with
                        | (its, inl s') => let (more, e) := ia ln s' in (its ++ more, e)
                        | (its, inr e) => (its, e)
                        end.
Proof. rewrite ia_eq. unfold look. change (at_end (COMMA :: r')) with false. cbv iota. now rewrite test_comma. Qed.

(* the first entry reachable from a position, as READ finds it *)
Lemma ia_step ln s it its e :
  ia ln s = (it :: its, e) ->
  exists c r s2,
    look ln s = Ok (it_line it, c :: r) /\ (c =? data_tk_DATA) || (c =? COMMA) = true /\
    str_slot (skip_blank r) = (Some (it_str it), s2) /\
    num_slot (skip_blank r) = (it_word it, it_after it, it_rest it) /\
    it_numeric it = at_sep (it_rest it) /\
    ia (it_line it) s2 = (its, e).
Proof.
  intros H. rewrite ia_eq in H.
  destruct (look ln s) as [[ln' [|c r]] | | |] eqn:HL; try discriminate.
  destruct ((c =? data_tk_DATA) || (c =? COMMA)) eqn:HT; [|discriminate].
  rewrite si_eq in H. cbv zeta in H.
  destruct (num_slot (skip_blank r)) as [[w s2n] s3] eqn:EN.
  destruct (str_slot (skip_blank r)) as [[v|] s2] eqn:ES; [|discriminate].
  destruct s2 as [|c2 r'].
  - destruct (ia ln' []) as [more e0] eqn:EI. inversion H; subst. simpl.
    exists c, r, []. repeat split; auto.
  - destruct (c2 =? COMMA) eqn:EC.
    + apply Z.eqb_eq in EC. subst c2.
      destruct (si ln' r') as [its1 [s'|e1]] eqn:E1.
      * destruct (ia ln' s') as [more e0] eqn:EI. inversion H; subst. simpl.
        exists c, r, (COMMA :: r'). repeat split; auto.
        rewrite ia_comma, E1, EI. reflexivity.
      * inversion H; subst. simpl. exists c, r, (COMMA :: r'). repeat split; auto.
        rewrite ia_comma, E1. reflexivity.
    + destruct (ia ln' (c2 :: r')) as [more e0] eqn:EI. inversion H; subst. simpl.
      exists c, r, (c2 :: r'). repeat split; auto.
Qed.

Lemma ia_nil_end ln s :
  ia ln s = ([], EndOfData) ->
  exists ln' s1, look ln s = Ok (ln', s1) /\
    (s1 = [] \/ exists c r, s1 = c :: r /\ (c =? data_tk_DATA) || (c =? COMMA) = false).
Proof.
  intros H. rewrite ia_eq in H. destruct (look_ok ln s) as [ln' [s1 [HL _]]]. rewrite HL in H.
  exists ln', s1. split; [exact HL|]. destruct s1 as [|c r]; [auto|]. right. exists c, r. split; [reflexivity|].
  destruct ((c =? data_tk_DATA) || (c =? COMMA)); [|reflexivity].
  destruct (si ln' r) as [its [s'|e1]] eqn:E1.
  - apply si_nonempty in E1. destruct (ia ln' s'). inversion H. destruct its; [congruence | discriminate].
  - apply si_inr in E1 as [l [w [a [b ->]]]]. inversion H.
Qed.

Lemma ia_nil_bad ln s l w nrest srest :
  ia ln s = ([], BadEntry l w nrest srest) ->
  exists c r s2n, look ln s = Ok (l, c :: r) /\ (c =? data_tk_DATA) || (c =? COMMA) = true /\
    str_slot (skip_blank r) = (None, srest) /\ num_slot (skip_blank r) = (w, s2n, nrest).
Proof.
  intros H. rewrite ia_eq in H.
  destruct (look ln s) as [[ln' [|c r]] | | |] eqn:HL; try discriminate.
  destruct ((c =? data_tk_DATA) || (c =? COMMA)) eqn:HT; [|discriminate].
  destruct (si ln' r) as [its [s'|e1]] eqn:E1.
  - apply si_nonempty in E1. destruct (ia ln' s'). inversion H. destruct its; [congruence | discriminate].
  - inversion H; subst. rewrite si_eq in E1. cbv zeta in E1.
    destruct (num_slot (skip_blank r)) as [[w0 s2n] s3] eqn:EN.
    destruct (str_slot (skip_blank r)) as [[v|] s2] eqn:ES.
    + destruct s2 as [|c2 r']; [discriminate|]. destruct (c2 =? COMMA); [|discriminate].
      destruct (si ln' r'); discriminate.
    + inversion E1; subst. exists c, r, s2n. auto.
Qed.

Section Machine.
  Variable numok : list Z -> res unit.
  Variable setvar : Z -> val -> res unit.

  Lemma read_one_eq p cur dp tgt :
    read_one numok setvar p cur dp tgt =
    match look (-1) (seek p dp) with
    | Ok (_, s1) =>
        match s1 with
        | c :: r =>
            if (c =? data_tk_DATA) || (c =? COMMA) then
              let r1 := skip_blank r in
              if is_str tgt then
                match str_slot r1 with
                | (Some v, s2) => lift_unit (setvar tgt (VStr v)) (cur - 1) (Done (VStr v) (pos_of p s2))
                | (None, s2) => Fail data_STX (pos_of p s2 - 1) None
                end
              else
                match num_slot r1 with
                | (w, s2, s3) =>
                    lift_unit (numok w) (pos_of p s2 - 1)
                      (lift_unit (setvar tgt (VNum w)) (cur - 1)
                         (if at_sep s3 then Done (VNum w) (pos_of p s3)
                          else Fail data_STX (pos_of p s3 - 1) (Some (VNum w))))
                end
            else Fail data_OUT_OF_DATA (cur - 1) None
        | [] => Fail data_OUT_OF_DATA (cur - 1) None
        end
    | Err e => Fail e (cur - 1) None
    | Host x => HostExc x
    | OutOfFuel => NoFuel
    end.
  Proof. reflexivity. Qed.

  (* the data pointer dp stands in front of the entries its (then e) *)
  Definition Inv (p : list Z) (dp : Z) (ln : Z) (its : list item) (e : ending) : Prop :=
    ia ln (seek p dp) = (its, e).

  Lemma inv_start p : Inv p 0 (-1) (fst (data_items p)) (snd (data_items p)).
  Proof. unfold Inv. change (seek p 0) with p. change (data_items p) with (ia (-1) p). now destruct (ia (-1) p). Qed.

  Lemma read_str_step p cur dp ln it its e tgt :
    Inv p dp ln (it :: its) e -> is_str tgt = true ->
    exists dp', read_one numok setvar p cur dp tgt
                = lift_unit (setvar tgt (VStr (it_str it))) (cur - 1) (Done (VStr (it_str it)) dp')
                /\ Inv p dp' (it_line it) its e.
  Proof.
    unfold Inv. intros H Ht. apply ia_step in H as [c [r [s2 [HL [HT [HS [HN [Hnum HI]]]]]]]].
    exists (pos_of p s2). rewrite read_one_eq.
    destruct (look_stream _ (-1) _ _ _ HL) as [l2 HL2]. rewrite HL2, HT. cbv zeta.
    rewrite Ht, HS. split; [reflexivity|].
    rewrite seek_pos; [exact HI|].
    apply str_slot_sfx in HS. apply look_sfx in HL.
    eapply sfx_trans; [exact HS|]. eapply sfx_trans; [apply skip_blank_sfx|].
    eapply sfx_trans; [apply sfx_cons|]. eapply sfx_trans; [exact HL | apply seek_sfx].
  Qed.

  Lemma read_num_step p cur dp ln it its e tgt :
    Inv p dp ln (it :: its) e -> is_str tgt = false -> it_numeric it = true ->
    exists dp', read_one numok setvar p cur dp tgt
                  = lift_unit (numok (it_word it)) (pos_of p (it_after it) - 1)
                      (lift_unit (setvar tgt (VNum (it_word it))) (cur - 1) (Done (VNum (it_word it)) dp'))
                  /\ Inv p dp' (it_line it) its e.
  Proof.
    unfold Inv. intros H Ht Hn. apply ia_step in H as [c [r [s2 [HL [HT [HS [HN [Hnum HI]]]]]]]].
    rewrite Hn in Hnum. symmetry in Hnum.
    destruct (num_str_agree _ _ _ _ HN Hnum) as [v Hv]. rewrite HS in Hv. inversion Hv; subst s2.
    exists (pos_of p (it_rest it)). rewrite read_one_eq.
    destruct (look_stream _ (-1) _ _ _ HL) as [l2 HL2]. rewrite HL2, HT. cbv zeta.
    rewrite Ht, HN, Hnum. split; [reflexivity|].
    rewrite seek_pos; [exact HI|].
    apply str_slot_sfx in HS. apply look_sfx in HL.
    eapply sfx_trans; [exact HS|]. eapply sfx_trans; [apply skip_blank_sfx|].
    eapply sfx_trans; [apply sfx_cons|]. eapply sfx_trans; [exact HL | apply seek_sfx].
  Qed.

  Lemma read_num_bad p cur dp ln it its e tgt :
    Inv p dp ln (it :: its) e -> is_str tgt = false -> it_numeric it = false ->
    read_one numok setvar p cur dp tgt
              = lift_unit (numok (it_word it)) (pos_of p (it_after it) - 1)
                  (lift_unit (setvar tgt (VNum (it_word it))) (cur - 1)
                     (Fail data_STX (pos_of p (it_rest it) - 1) (Some (VNum (it_word it))))).
  Proof.
    unfold Inv. intros H Ht Hn. apply ia_step in H as [c [r [s2 [HL [HT [HS [HN [Hnum HI]]]]]]]].
    rewrite Hn in Hnum. symmetry in Hnum.
    rewrite read_one_eq.
    destruct (look_stream _ (-1) _ _ _ HL) as [l2 HL2]. rewrite HL2, HT. cbv zeta.
    rewrite Ht, HN, Hnum. reflexivity.
  Qed.

  Lemma read_exhausted p cur dp ln tgt :
    Inv p dp ln [] EndOfData -> read_one numok setvar p cur dp tgt = Fail data_OUT_OF_DATA (cur - 1) None.
  Proof.
    unfold Inv. intros H. apply ia_nil_end in H as [ln' [s1 [HL Hs1]]].
    rewrite read_one_eq. destruct (look_stream _ (-1) _ _ _ HL) as [l2 HL2]. rewrite HL2.
    destruct Hs1 as [-> | [c [r [-> HT]]]]; [reflexivity|]. now rewrite HT.
  Qed.

  Lemma read_bad_entry p cur dp ln l w nrest srest tgt :
    Inv p dp ln [] (BadEntry l w nrest srest) ->
    (is_str tgt = true -> read_one numok setvar p cur dp tgt = Fail data_STX (pos_of p srest - 1) None) /\
    (is_str tgt = false -> exists q, read_one numok setvar p cur dp tgt
                           = lift_unit (numok w) q
                               (lift_unit (setvar tgt (VNum w)) (cur - 1)
                                  (Fail data_STX (pos_of p nrest - 1) (Some (VNum w))))).
  Proof.
    unfold Inv. intros H. apply ia_nil_bad in H as [c [r [s2n [HL [HT [HS HN]]]]]].
    destruct (look_stream _ (-1) _ _ _ HL) as [l2 HL2]. split; intros Ht.
    - rewrite read_one_eq, HL2, HT. cbv zeta. rewrite Ht. now rewrite HS.
    - exists (pos_of p s2n - 1). rewrite read_one_eq, HL2, HT. cbv zeta.
      rewrite Ht, HN. now rewrite (str_bad_not_numeric _ _ _ _ _ HS HN).
  Qed.

  (* with conversions and assignments that succeed *)
  Hypothesis numok_ok : forall w, numok w = Ok tt.
  Hypothesis setvar_ok : forall t v, setvar t v = Ok tt.

  Lemma read_step_ok p cur dp ln it its e tgt :
    Inv p dp ln (it :: its) e -> readable tgt it = true ->
    exists dp', read_one numok setvar p cur dp tgt = Done (value_for tgt it) dp' /\ Inv p dp' (it_line it) its e.
  Proof.
    intros H Hr. unfold readable, value_for in *. destruct (is_str tgt) eqn:Et.
    - destruct (read_str_step p cur dp ln it its e tgt H Et) as [dp' [H1 H2]].
      exists dp'. rewrite H1, setvar_ok. auto.
    - simpl in Hr.
      destruct (read_num_step p cur dp ln it its e tgt H Et Hr) as [dp' [H1 H2]].
      exists dp'. rewrite H1, numok_ok, setvar_ok. auto.
  Qed.

  Lemma read_step_syntax p cur dp ln it its e tgt :
    Inv p dp ln (it :: its) e -> readable tgt it = false ->
    read_one numok setvar p cur dp tgt = Fail data_STX (pos_of p (it_rest it) - 1) (Some (VNum (it_word it))).
  Proof.
    intros H Hr. unfold readable in Hr. apply orb_false_iff in Hr as [Et Hn].
    rewrite (read_num_bad p cur dp ln it its e tgt H Et Hn), numok_ok, setvar_ok. reflexivity.
  Qed.

  (* READ v1, ..., vn over the next n entries *)
  Lemma read_vars_seq : forall ts its1 its2 e p cur dp ln,
    Inv p dp ln (its1 ++ its2) e -> length ts = length its1 ->
    forallb (fun ti => readable (fst ti) (snd ti)) (combine ts its1) = true ->
    exists os dp' ln',
      read_vars numok setvar p cur dp ts = (os, dp') /\
      map outcome_value os = map (fun ti => Some (value_for (fst ti) (snd ti))) (combine ts its1) /\
      Inv p dp' ln' its2 e.
  Proof.
    induction ts as [|t ts IH]; intros its1 its2 e p cur dp ln HI HL HR.
    - destruct its1; [|discriminate]. exists [], dp, ln. simpl. auto.
    - destruct its1 as [|it its1]; [discriminate|]. simpl in HL, HR, HI. injection HL as HL.
      apply andb_true_iff in HR as [HR1 HR2]. simpl in HR1.
      destruct (read_step_ok p cur dp ln it (its1 ++ its2) e t HI HR1) as [dp1 [H1 H2]].
      destruct (IH its1 its2 e p cur dp1 (it_line it) H2 HL HR2) as [os [dp' [ln' [H3 [H4 H5]]]]].
      exists (Done (value_for t it) dp1 :: os), dp', ln'. simpl. rewrite H1, H3. simpl. rewrite H4. auto.
  Qed.

  Lemma out_of_data_iff p cur dp ln its e tgt :
    Inv p dp ln its e ->
    (read_one numok setvar p cur dp tgt = Fail data_OUT_OF_DATA (cur - 1) None <-> its = [] /\ e = EndOfData).
  Proof.
    intros H. split.
    - intros HF. destruct its as [|it its].
      + split; [reflexivity|]. destruct e as [|l w a b]; [reflexivity|].
        destruct (read_bad_entry p cur dp ln l w a b tgt H) as [B1 B2].
        destruct (is_str tgt) eqn:E.
        * rewrite (B1 eq_refl) in HF. discriminate.
        * destruct (B2 eq_refl) as [q B3]. rewrite B3, numok_ok, setvar_ok in HF. discriminate.
      + destruct (readable tgt it) eqn:ER.
        * destruct (read_step_ok p cur dp ln it its e tgt H ER) as [dp' [H1 _]]. rewrite H1 in HF. discriminate.
        * rewrite (read_step_syntax p cur dp ln it its e tgt H ER) in HF. discriminate.
    - intros [-> ->]. eapply read_exhausted. exact H.
  Qed.
End Machine.

(* RESTORE *)
Lemma restore_none tbl : restore tbl None = Ok 0.
Proof. reflexivity. Qed.

Lemma restore_some tbl n :
  restore tbl (Some n) = match assocz n tbl with Some pos => Ok pos | None => Err data_UNDEFINED_LINE_NUMBER end.
Proof. reflexivity. Qed.

(* ================================================================================================ *)
(* F. the byte format: scanning over lexemes, entries, statements, lines *)

Lemma eqb_false_of_neq a b : a <> b -> (a =? b) = false.
Proof. apply Z.eqb_neq. Qed.

Lemma skip_to_payload stop pl : forall lit rem x,
  skip_to stop (length pl) lit rem (pl ++ x) = skip_to stop 0 lit rem x.
Proof. induction pl as [|a pl IH]; intros; simpl; auto. Qed.

Lemma skip_to_plain stop c x :
  (c =? QUOTE) = false -> (c =? data_tk_REM) = false -> (c =? 0) = false -> stop c = false ->
  skip_to stop 0 false false (c :: x) = skip_to stop (plus_bytes c) false false x.
Proof. intros H1 H2 H3 H4. simpl. rewrite H1, H2, H3, H4. reflexivity. Qed.

Lemma skip_to_in_lit stop b x :
  str_body_ok b = true -> stop QUOTE = false ->
  skip_to stop 0 true false (b ++ QUOTE :: x) = skip_to stop 0 false false x.
Proof.
  intros Hb Hq. induction b as [|c b IH].
  - simpl. rewrite Hq. reflexivity.
  - simpl in Hb. apply andb_true_iff in Hb as [Hc Hb]. apply andb_true_iff in Hc as [Hc1 Hc2].
    apply negb_true_iff in Hc1, Hc2. simpl. rewrite Hc1, Hc2, andb_false_r. simpl. apply IH. exact Hb.
Qed.

Lemma skip_to_open stop text x :
  str_body_ok text = true -> stop 0 = true -> skip_to stop 0 true false (text ++ 0 :: x) = 0 :: x.
Proof.
  intros Hb H0. induction text as [|c b IH].
  - simpl. rewrite H0. reflexivity.
  - simpl in Hb. apply andb_true_iff in Hb as [Hc Hb]. apply andb_true_iff in Hc as [Hc1 Hc2].
    apply negb_true_iff in Hc1, Hc2. simpl. rewrite Hc1, Hc2, andb_false_r. simpl. apply IH. exact Hb.
Qed.

Lemma skip_to_rem stop text x :
  forallb (fun c => negb (c =? 0)) text = true -> stop 0 = true ->
  forall lit, skip_to stop 0 lit true (text ++ 0 :: x) = 0 :: x.
Proof.
  intros Hb H0. induction text as [|c b IH]; intros lit.
  - simpl. rewrite H0. reflexivity.
  - simpl in Hb. apply andb_true_iff in Hb as [Hc Hb]. apply negb_true_iff in Hc.
    cbn [app skip_to]. rewrite Hc.
    destruct (c =? QUOTE); [rewrite orb_true_r; apply IH; exact Hb|].
    destruct ((c =? data_tk_REM) && negb lit); rewrite orb_true_r; apply IH; exact Hb.
Qed.

Lemma lex_ok_LCh c : lex_ok (LCh c) = true ->
  (c =? 0) = false /\ (c =? 58) = false /\ (c =? QUOTE) = false /\ (c =? data_tk_REM) = false /\ plus_bytes c = O.
Proof.
  simpl. rewrite !andb_true_iff, !negb_true_iff, Nat.eqb_eq. tauto.
Qed.

Lemma lex_ok_LTok c pl : lex_ok (LTok c pl) = true ->
  (c =? 0) = false /\ (c =? 58) = false /\ (c =? QUOTE) = false /\ (c =? data_tk_REM) = false /\
  is_blank c = false /\ length pl = plus_bytes c.
Proof.
  simpl. rewrite !andb_true_iff, !negb_true_iff, Nat.eqb_eq. tauto.
Qed.

Lemma end_stmt_false c : (c =? 0) = false -> (c =? 58) = false -> is_end_stmt c = false.
Proof. intros H1 H2. unfold is_end_stmt, memz. simpl. now rewrite H1, H2. Qed.

Lemma skip_to_lex l x :
  lex_ok l = true ->
  skip_to is_end_stmt 0 false false (enc_lex l ++ x) = skip_to is_end_stmt 0 false false x.
Proof.
  destruct l as [c | c pl | b]; intros H.
  - apply lex_ok_LCh in H as [H0 [H58 [HQ [HR HP]]]]. simpl app.
    rewrite skip_to_plain; auto using end_stmt_false. now rewrite HP.
  - apply lex_ok_LTok in H as [H0 [H58 [HQ [HR [HB HP]]]]]. simpl app.
    rewrite skip_to_plain; auto using end_stmt_false. rewrite <- HP. apply skip_to_payload.
  - simpl in H. change (enc_lex (LStr b) ++ x) with (QUOTE :: (b ++ [QUOTE]) ++ x).
    rewrite <- app_assoc. change ([QUOTE] ++ x) with (QUOTE :: x).
    change (skip_to is_end_stmt 0 false false (QUOTE :: b ++ QUOTE :: x))
      with (skip_to is_end_stmt 0 true false (b ++ QUOTE :: x)).
    apply skip_to_in_lit; [exact H | reflexivity].
Qed.

Lemma skip_to_lexemes ls x :
  forallb lex_ok ls = true ->
  skip_to is_end_stmt 0 false false (flat_map enc_lex ls ++ x) = skip_to is_end_stmt 0 false false x.
Proof.
  induction ls as [|l ls IH]; simpl; intros H; [reflexivity|].
  apply andb_true_iff in H as [H1 H2]. rewrite <- app_assoc, skip_to_lex by exact H1. auto.
Qed.

Lemma skip_to_at_sep c x : c = 0 \/ c = 58 -> skip_to is_end_stmt 0 false false (c :: x) = c :: x.
Proof. intros [-> | ->]; reflexivity. Qed.

(* a statement that is not DATA is skipped up to its separator *)
Lemma skip_to_other ls t c x :
  forallb lex_ok ls = true -> tail_ok t = true -> (t = TNone \/ c = 0) -> (c = 0 \/ c = 58) ->
  skip_to is_end_stmt 0 false false ((flat_map enc_lex ls ++ enc_tail t) ++ c :: x) = c :: x.
Proof.
  intros Hl Ht Htc Hc. rewrite <- app_assoc, skip_to_lexemes by exact Hl.
  destruct t as [|text|text].
  - simpl. apply skip_to_at_sep. exact Hc.
  - destruct Htc as [Hx | ->]; [discriminate Hx|]. simpl in Ht. simpl enc_tail. simpl app.
    change (skip_to is_end_stmt 0 false false (data_tk_REM :: text ++ 0 :: x))
      with (skip_to is_end_stmt 0 false true (text ++ 0 :: x)).
    apply skip_to_rem; [exact Ht | reflexivity].
  - destruct Htc as [Hx | ->]; [discriminate Hx|]. simpl in Ht. simpl enc_tail. simpl app.
    change (skip_to is_end_stmt 0 false false (QUOTE :: text ++ 0 :: x))
      with (skip_to is_end_stmt 0 true false (text ++ 0 :: x)).
    apply skip_to_open; [exact Ht | reflexivity].
Qed.

(* blanks are transparent for the scan *)
Lemma skip_to_skip_blank y :
  skip_to is_end_stmt 0 false false (skip_blank y) = skip_to is_end_stmt 0 false false y.
Proof.
  induction y as [|c y IH]; [reflexivity|]. simpl skip_blank. destruct (is_blank c) eqn:E; [|reflexivity].
  rewrite IH. apply is_blank_spec in E. destruct E as [-> | [-> | ->]]; reflexivity.
Qed.

Lemma skip_blank_app_nonblank a c x : is_blank c = false -> skip_blank (a ++ c :: x) = skip_blank a ++ c :: x.
Proof.
  intros Hc. induction a as [|d a IH]; simpl.
  - now rewrite Hc.
  - destruct (is_blank d); [exact IH | reflexivity].
Qed.

(* --- strip --- *)

Lemma lstrip_head cs c l : memz c cs = false -> lstrip cs (c :: l) = c :: l.
Proof. intros H. simpl. now rewrite H. Qed.

Lemma lstrip_members cs b x : forallb (fun c => memz c cs) b = true -> lstrip cs (b ++ x) = lstrip cs x.
Proof.
  induction b as [|c b IH]; simpl; [reflexivity|]. intros H. apply andb_true_iff in H as [H1 H2]. now rewrite H1, IH.
Qed.

Lemma forallb_rev {A} (P : A -> bool) l : forallb P (rev l) = forallb P l.
Proof.
  induction l as [|a l IH]; [reflexivity|]. simpl. rewrite forallb_app, IH. simpl. rewrite andb_true_r. apply andb_comm.
Qed.

Lemma rev_last_head (w : list Z) : w <> [] -> rev w = last w 0 :: rev (removelast w).
Proof.
  intros H. rewrite (@app_removelast_last Z w 0 H) at 1. rewrite rev_app_distr. reflexivity.
Qed.

(* text with non-strippable ends followed by strippable characters *)
Lemma strip_core cs c w post :
  memz c cs = false -> memz (last (c :: w) 0) cs = false -> forallb (fun d => memz d cs) post = true ->
  strip cs ((c :: w) ++ post) = c :: w.
Proof.
  intros Hc Hl Hp. unfold strip, rstrip. simpl app. rewrite lstrip_head by exact Hc.
  change (c :: w ++ post) with ((c :: w) ++ post). rewrite rev_app_distr.
  rewrite lstrip_members by (rewrite forallb_rev; exact Hp).
  rewrite (rev_last_head (c :: w)) by discriminate. rewrite lstrip_head by exact Hl.
  rewrite <- rev_last_head by discriminate. apply rev_involutive.
Qed.

Lemma strip_nil cs : strip cs [] = [].
Proof. reflexivity. Qed.

Lemma strip_quotes b : str_body_ok b = true -> strip [QUOTE] (QUOTE :: b ++ [QUOTE]) = b.
Proof.
  intros Hb. destruct b as [|c b]; [reflexivity|].
  assert (Hq : forall d, In d (c :: b) -> memz d [QUOTE] = false).
  { intros d Hd. unfold str_body_ok in Hb. rewrite forallb_forall in Hb. specialize (Hb d Hd).
    apply andb_true_iff in Hb as [H1 _]. apply negb_true_iff in H1. unfold memz. simpl. now rewrite H1. }
  change (strip [QUOTE] (QUOTE :: (c :: b) ++ [QUOTE])) with (strip [QUOTE] ((c :: b) ++ [QUOTE])).
  apply strip_core; [apply Hq; left; reflexivity | | reflexivity].
  apply Hq. destruct (@exists_last Z (c :: b)) as [l' [a E]]; [discriminate|]. rewrite E, last_last.
  apply in_or_app. right. left. reflexivity.
Qed.

(* --- entries --- *)

Definition sepc (c : Z) : Prop := c = 44 \/ c = 0 \/ c = 58.

Lemma sepc_special c : sepc c -> special c = true.
Proof. intros H. apply special_spec. unfold sepc in H. tauto. Qed.

Lemma sepc_nonblank c : sepc c -> is_blank c = false.
Proof. intros [-> | [-> | ->]]; reflexivity. Qed.

Lemma sepc_not_quote c : sepc c -> (c =? QUOTE) = false.
Proof. intros [-> | [-> | ->]]; reflexivity. Qed.

Lemma sepc_at_sep c x : sepc c -> at_sep (c :: x) = true.
Proof. intros [-> | [-> | ->]]; reflexivity. Qed.

Lemma no_special_nostop w :
  no_special w = true -> forallb (fun c => negb (memz c (COMMA :: QUOTE :: data_END_STATEMENT))) w = true.
Proof. intros H. exact H. Qed.

Lemma read_to_word w c x :
  no_special w = true -> special c = true ->
  read_to (COMMA :: QUOTE :: data_END_STATEMENT) (w ++ c :: x) = (w, c :: x).
Proof.
  intros Hw Hc. rewrite read_to_app_nostop by (apply no_special_nostop; exact Hw).
  rewrite read_to_stop by (rewrite stops_special; exact Hc). simpl. now rewrite app_nil_r.
Qed.

Lemma str_body_nostop b : str_body_ok b = true ->
  forallb (fun c => negb (memz c (QUOTE :: data_END_LINE))) b = true.
Proof.
  apply forallb_imp. intros c H. apply andb_true_iff in H as [H1 H2]. apply negb_true_iff in H1, H2.
  unfold memz. simpl. now rewrite H1, H2.
Qed.

Lemma read_string_closed b x :
  str_body_ok b = true -> read_string (QUOTE :: b ++ QUOTE :: x) = (QUOTE :: b ++ [QUOTE], x).
Proof.
  intros Hb. unfold read_string. change (QUOTE =? QUOTE) with true. cbv iota.
  rewrite read_to_app_nostop by (apply str_body_nostop; exact Hb).
  rewrite read_to_stop by reflexivity. simpl. now rewrite app_nil_r.
Qed.

Lemma enc_plain_app (pre w post y : list Z) : (pre ++ w ++ post) ++ y = pre ++ w ++ post ++ y.
Proof. now rewrite <- !app_assoc. Qed.

Lemma enc_quoted_app (pre b post y : list Z) :
  (pre ++ QUOTE :: b ++ QUOTE :: post) ++ y = pre ++ QUOTE :: b ++ QUOTE :: post ++ y.
Proof. rewrite <- app_assoc. simpl. rewrite <- app_assoc. reflexivity. Qed.

Lemma enc_mixed_app (pre w b post y : list Z) :
  (pre ++ w ++ QUOTE :: b ++ QUOTE :: post) ++ y = pre ++ w ++ QUOTE :: b ++ QUOTE :: post ++ y.
Proof. rewrite <- !app_assoc. simpl. rewrite <- app_assoc. reflexivity. Qed.

Lemma read_string_open b x :
  str_body_ok b = true -> read_string (QUOTE :: b ++ 0 :: x) = (QUOTE :: b, 0 :: x).
Proof.
  intros Hb. unfold read_string. change (QUOTE =? QUOTE) with true. cbv iota.
  rewrite read_to_app_nostop by (apply str_body_nostop; exact Hb).
  rewrite read_to_stop by reflexivity. simpl. now rewrite app_nil_r.
Qed.

Lemma strip_quote_open b : str_body_ok b = true -> strip [QUOTE] (QUOTE :: b) = b.
Proof.
  intros Hb. destruct b as [|c b]; [reflexivity|].
  assert (Hq : forall d, In d (c :: b) -> memz d [QUOTE] = false).
  { intros d Hd. unfold str_body_ok in Hb. rewrite forallb_forall in Hb. specialize (Hb d Hd).
    apply andb_true_iff in Hb as [H1 _]. apply negb_true_iff in H1. unfold memz. simpl. now rewrite H1. }
  change (strip [QUOTE] (QUOTE :: c :: b)) with (strip [QUOTE] (c :: b)).
  rewrite <- (app_nil_r (c :: b)) at 1.
  apply strip_core; [apply Hq; left; reflexivity | | reflexivity].
  apply Hq. destruct (@exists_last Z (c :: b)) as [l' [a E]]; [discriminate|]. rewrite E, last_last.
  apply in_or_app. right. left. reflexivity.
Qed.

Lemma enc_open_app (pre b y : list Z) : (pre ++ QUOTE :: b) ++ y = pre ++ QUOTE :: b ++ y.
Proof. now rewrite <- app_assoc. Qed.

Lemma enc_mixedopen_app (pre w b y : list Z) : (pre ++ w ++ QUOTE :: b) ++ y = pre ++ w ++ QUOTE :: b ++ y.
Proof. now rewrite <- !app_assoc. Qed.

Lemma str_slot_entry e c x :
  entry_ok e = true -> sepc c -> (entry_open e = true -> c = 0) ->
  str_slot (skip_blank (enc_entry e ++ c :: x)) = (Some (entry_value e), c :: x).
Proof.
  intros He Hc Hopen. pose proof (sepc_special _ Hc) as Hsp. pose proof (sepc_nonblank _ Hc) as Hnb.
  destruct e as [pre w post | pre b post | pre w b post | pre b | pre w b];
    simpl in He; simpl enc_entry; simpl entry_value.
  - apply andb_true_iff in He as [He Hends]. apply andb_true_iff in He as [He Hw].
    apply andb_true_iff in He as [Hpre Hpost].
    rewrite enc_plain_app, skip_blank_app_blank by exact Hpre.
    destruct w as [|d w].
    + simpl app. rewrite skip_blank_app_blank by exact Hpost. rewrite skip_blank_nonblank by exact Hnb.
      unfold str_slot. rewrite read_to_stop by (rewrite stops_special; exact Hsp).
      rewrite (sepc_not_quote _ Hc). reflexivity.
    + simpl in Hends. apply andb_true_iff in Hends as [Hd Hlast]. apply negb_true_iff in Hd, Hlast.
      simpl app. rewrite skip_blank_nonblank by exact Hd.
      change (d :: w ++ post ++ c :: x) with ((d :: w) ++ post ++ c :: x). rewrite app_assoc.
      unfold str_slot. rewrite read_to_word; [|rewrite no_special_app, Hw; apply all_blank_no_special; exact Hpost | exact Hsp].
      rewrite (sepc_not_quote _ Hc). f_equal. f_equal.
      apply strip_core; [exact Hd | exact Hlast | exact Hpost].
  - apply andb_true_iff in He as [He Hb]. apply andb_true_iff in He as [Hpre Hpost].
    rewrite enc_quoted_app, skip_blank_app_blank by exact Hpre.
    rewrite skip_blank_nonblank by reflexivity.
    unfold str_slot. rewrite read_to_stop by reflexivity. change (QUOTE =? QUOTE) with true. cbv iota.
    rewrite read_string_closed by exact Hb.
    rewrite skip_blank_app_blank by exact Hpost. rewrite skip_blank_nonblank by exact Hnb.
    rewrite (sepc_at_sep _ _ Hc). now rewrite strip_quotes.
  - apply andb_true_iff in He as [He Hd]. apply andb_true_iff in He as [He Hb]. apply andb_true_iff in He as [He Hw].
    apply andb_true_iff in He as [Hpre Hpost].
    destruct w as [|d w]; [discriminate|]. apply negb_true_iff in Hd.
    rewrite enc_mixed_app, skip_blank_app_blank by exact Hpre. simpl app.
    rewrite skip_blank_nonblank by exact Hd.
    change (d :: w ++ QUOTE :: b ++ QUOTE :: post ++ c :: x) with ((d :: w) ++ QUOTE :: b ++ QUOTE :: (post ++ c :: x)).
    unfold str_slot. rewrite read_to_word; [|exact Hw | reflexivity].
    change (QUOTE =? QUOTE) with true. cbv iota.
    rewrite read_string_closed by exact Hb.
    rewrite skip_blank_app_blank by exact Hpost. rewrite skip_blank_nonblank by exact Hnb.
    rewrite (sepc_at_sep _ _ Hc). reflexivity.
  - rewrite (Hopen eq_refl) in *. apply andb_true_iff in He as [Hpre Hb].
    rewrite enc_open_app, skip_blank_app_blank by exact Hpre.
    rewrite skip_blank_nonblank by reflexivity.
    unfold str_slot. rewrite read_to_stop by reflexivity. change (QUOTE =? QUOTE) with true. cbv iota.
    rewrite read_string_open by exact Hb. simpl skip_blank. simpl at_sep. cbv iota.
    now rewrite strip_quote_open.
  - rewrite (Hopen eq_refl) in *. apply andb_true_iff in He as [He Hd]. apply andb_true_iff in He as [He Hb].
    apply andb_true_iff in He as [Hpre Hw].
    destruct w as [|d w]; [discriminate|]. apply negb_true_iff in Hd.
    rewrite enc_mixedopen_app, skip_blank_app_blank by exact Hpre. simpl app.
    rewrite skip_blank_nonblank by exact Hd.
    change (d :: w ++ QUOTE :: b ++ 0 :: x) with ((d :: w) ++ QUOTE :: b ++ 0 :: x).
    unfold str_slot. rewrite read_to_word; [|exact Hw | reflexivity].
    change (QUOTE =? QUOTE) with true. cbv iota.
    rewrite read_string_open by exact Hb. simpl skip_blank. simpl at_sep. cbv iota. reflexivity.
Qed.

(* --- entries read as numbers --- *)

Lemma rstrip_core cs (w post : list Z) :
  w <> [] -> memz (last w 0) cs = false -> forallb (fun d => memz d cs) post = true -> rstrip cs (w ++ post) = w.
Proof.
  intros Hw Hl Hp. unfold rstrip. rewrite rev_app_distr.
  rewrite lstrip_members by (rewrite forallb_rev; exact Hp).
  rewrite (rev_last_head w) by exact Hw. rewrite lstrip_head by exact Hl.
  rewrite <- rev_last_head by exact Hw. apply rev_involutive.
Qed.

Lemma digit_cases d : memz d data_DIGITS = true ->
  d = 48 \/ d = 49 \/ d = 50 \/ d = 51 \/ d = 52 \/ d = 53 \/ d = 54 \/ d = 55 \/ d = 56 \/ d = 57.
Proof. unfold memz. simpl. rewrite !orb_true_iff, !Z.eqb_eq. intuition discriminate. Qed.

Lemma dec_loop_digit d he hp word rest :
  memz d data_DIGITS = true -> dec_loop he hp word (d :: rest) = dec_loop he hp (word ++ [d]) rest.
Proof.
  intros H. apply digit_cases in H.
  destruct H as [-> | [-> | [-> | [-> | [-> | [-> | [-> | [-> | [-> | ->]]]]]]]]]; reflexivity.
Qed.

Lemma dec_loop_blank d he hp word rest :
  is_blank d = true -> dec_loop he hp word (d :: rest) = dec_loop he hp (word ++ [d]) rest.
Proof. intros H. apply is_blank_spec in H. destruct H as [-> | [-> | ->]]; reflexivity. Qed.

Lemma dec_loop_digits : forall ds he hp word rest,
  all_digits ds = true -> dec_loop he hp word (ds ++ rest) = dec_loop he hp (word ++ ds) rest.
Proof.
  induction ds as [|d ds IH]; intros he hp word rest H; cbn [app].
  - now rewrite app_nil_r.
  - simpl in H. apply andb_true_iff in H as [H1 H2].
    rewrite dec_loop_digit by exact H1. rewrite IH by exact H2. now rewrite <- app_assoc.
Qed.

Lemma dec_loop_blanks : forall bl he hp word rest,
  all_blank bl = true -> dec_loop he hp word (bl ++ rest) = dec_loop he hp (word ++ bl) rest.
Proof.
  induction bl as [|d ds IH]; intros he hp word rest H; cbn [app].
  - now rewrite app_nil_r.
  - simpl in H. apply andb_true_iff in H as [H1 H2].
    rewrite dec_loop_blank by exact H1. rewrite IH by exact H2. now rewrite <- app_assoc.
Qed.

Lemma digit_nonblank d : memz d data_DIGITS = true -> is_blank d = false.
Proof.
  intros H. apply digit_cases in H.
  destruct H as [-> | [-> | [-> | [-> | [-> | [-> | [-> | [-> | [-> | ->]]]]]]]]]; reflexivity.
Qed.

Lemma all_digits_last d w : all_digits (d :: w) = true -> memz (last (d :: w) 0) data_DIGITS = true.
Proof.
  intros H. unfold all_digits in H. rewrite forallb_forall in H. apply H.
  destruct (@exists_last Z (d :: w)) as [l' [a E]]; [discriminate|]. rewrite E, last_last.
  apply in_or_app. right. left. reflexivity.
Qed.

Lemma num_slot_digits d w post c x :
  all_digits (d :: w) = true -> all_blank post = true -> sepc c ->
  num_slot ((d :: w) ++ post ++ c :: x) = (d :: w, post ++ c :: x, c :: x).
Proof.
  intros Hd Hp Hc.
  assert (Hd1 : memz d data_DIGITS = true) by (simpl in Hd; now apply andb_true_iff in Hd as [? _]).
  assert (Hlast : is_blank (last (d :: w) 0) = false) by (apply digit_nonblank, all_digits_last; exact Hd).
  unfold num_slot.
  assert (HR : read_number ((d :: w) ++ post ++ c :: x) = (d :: w, post ++ c :: x)).
  { change ((d :: w) ++ post ++ c :: x) with (d :: (w ++ post ++ c :: x)). unfold read_number.
    assert (d =? 38 = false) as ->.
    { apply digit_cases in Hd1.
      destruct Hd1 as [-> | [-> | [-> | [-> | [-> | [-> | [-> | [-> | [-> | ->]]]]]]]]]; reflexivity. }
    rewrite Hd1. cbv iota. simpl orb. cbv iota.
    change (d :: w ++ post ++ c :: x) with ((d :: w) ++ post ++ c :: x).
    unfold read_dec. rewrite dec_loop_digits by exact Hd. rewrite dec_loop_blanks by exact Hp.
    rewrite dec_loop_special by (apply sepc_special; exact Hc).
    change ([] ++ d :: w) with (d :: w).
    rewrite (rstrip_core data_blanks (d :: w) post); [|discriminate | exact Hlast | exact Hp].
    f_equal.
    - pose proof (strip_core data_blanks d w [] (digit_nonblank _ Hd1) Hlast eq_refl) as Hs.
      rewrite app_nil_r in Hs. exact Hs.
    - match goal with |- skipn ?n _ = _ => replace n with (length (d :: w)) by (rewrite !app_length; simpl; lia) end.
      rewrite skipn_app, skipn_all, Nat.sub_diag. reflexivity. }
  rewrite HR. rewrite skip_blank_app_blank by exact Hp.
  rewrite skip_blank_nonblank by (apply sepc_nonblank; exact Hc). reflexivity.
Qed.

Lemma number_start_false d : number_start d = false ->
  (d =? 38) = false /\ memz d data_DIGITS = false /\ memz d [46; 43; 45] = false.
Proof.
  unfold number_start. intros H. apply orb_false_iff in H as [H1 H2]. split; [|split; [exact H1|]].
  - unfold memz in H2. simpl in H2. rewrite !orb_false_iff in H2. tauto.
  - unfold memz in *. simpl in *. rewrite !orb_false_iff in *. tauto.
Qed.

Lemma num_view_entry e c x w s2n s3 it :
  entry_ok e = true -> sepc c -> (entry_open e = true -> c = 0) ->
  num_slot (skip_blank (enc_entry e ++ c :: x)) = (w, s2n, s3) ->
  it_word it = w -> it_numeric it = at_sep s3 -> num_view e it.
Proof.
  intros He Hc Hopen HN Hw Hnum.
  pose proof (sepc_special _ Hc) as Hsp. pose proof (sepc_nonblank _ Hc) as Hnb.
  assert (Hquote : forall A, In QUOTE A -> skip_blank (enc_entry e ++ c :: x) = A ++ c :: x -> it_numeric it = false).
  { intros A HA HE. rewrite Hnum. destruct (at_sep s3) eqn:Es; [|reflexivity]. exfalso.
    destruct (num_str_agree _ _ _ _ HN Es) as [v Hv]. rewrite (str_slot_entry e c x He Hc Hopen) in Hv.
    inversion Hv; subst s3. apply num_slot_split in HN as [pre [Hpre Hns]].
    rewrite HE in Hpre. apply app_inv_tail in Hpre. subst A.
    unfold no_special in Hns. rewrite forallb_forall in Hns. specialize (Hns _ HA). discriminate. }
  destruct e as [pre w0 post | pre b post | pre w0 b post | pre b | pre w0 b];
    simpl in He; simpl enc_entry in *; simpl num_view.
  - apply andb_true_iff in He as [He Hends]. apply andb_true_iff in He as [He Hw0].
    apply andb_true_iff in He as [Hpre Hpost].
    rewrite enc_plain_app, skip_blank_app_blank in HN by exact Hpre.
    destruct w0 as [|d w0].
    + simpl app in HN. rewrite skip_blank_app_blank in HN by exact Hpost.
      rewrite skip_blank_nonblank in HN by exact Hnb.
      assert (HE : num_slot (c :: x) = ([], c :: x, c :: x)) by (destruct Hc as [-> | [-> | ->]]; reflexivity).
      rewrite HE in HN. inversion HN; subst. rewrite Hnum, (sepc_at_sep _ _ Hc).
      split; [auto|]. split; [congruence|]. intros; discriminate.
    + simpl in Hends. apply andb_true_iff in Hends as [Hd Hlast]. apply negb_true_iff in Hd.
      simpl app in HN. rewrite skip_blank_nonblank in HN by exact Hd.
      split; [intros; discriminate|]. split.
      * intros _ Hdig. change (d :: w0 ++ post ++ c :: x) with ((d :: w0) ++ post ++ c :: x) in HN.
        rewrite (num_slot_digits d w0 post c x Hdig Hpost Hc) in HN. inversion HN; subst.
        rewrite Hnum, (sepc_at_sep _ _ Hc). auto.
      * intros c0 r0 E Hns. inversion E; subst c0 r0. apply number_start_false in Hns as [H38 [Hdg Hpm]].
        unfold num_slot, read_number in HN. rewrite H38, Hdg, Hpm in HN. simpl orb in HN. cbv iota in HN.
        rewrite skip_blank_nonblank in HN by exact Hd. inversion HN; subst.
        rewrite Hnum. split; [congruence|]. simpl at_sep.
        unfold no_special in Hw0. simpl in Hw0. apply andb_true_iff in Hw0 as [Hds _]. apply negb_true_iff in Hds.
        destruct (is_end_stmt d || (d =? COMMA)) eqn:E2; [|reflexivity].
        exfalso. apply orb_true_iff in E2 as [E2 | E2].
        -- apply is_end_stmt_spec in E2. assert (special d = true) by (apply special_spec; tauto). congruence.
        -- apply Z.eqb_eq in E2. subst d. discriminate.
  - apply andb_true_iff in He as [He Hb]. apply andb_true_iff in He as [Hpre Hpost].
    apply (Hquote (QUOTE :: b ++ QUOTE :: post)); [left; reflexivity|].
    rewrite enc_quoted_app, skip_blank_app_blank by exact Hpre.
    rewrite skip_blank_nonblank by reflexivity. simpl. rewrite <- app_assoc. reflexivity.
  - apply andb_true_iff in He as [He Hd]. apply andb_true_iff in He as [He Hb]. apply andb_true_iff in He as [He Hw0].
    apply andb_true_iff in He as [Hpre Hpost].
    destruct w0 as [|d w0]; [discriminate|]. apply negb_true_iff in Hd.
    apply (Hquote ((d :: w0) ++ QUOTE :: b ++ QUOTE :: post)); [apply in_or_app; right; left; reflexivity|].
    rewrite enc_mixed_app, skip_blank_app_blank by exact Hpre. simpl app.
    rewrite skip_blank_nonblank by exact Hd. rewrite <- !app_assoc. simpl. rewrite <- !app_assoc. reflexivity.
  - apply andb_true_iff in He as [Hpre Hb].
    apply (Hquote (QUOTE :: b)); [left; reflexivity|].
    rewrite enc_open_app, skip_blank_app_blank by exact Hpre.
    rewrite skip_blank_nonblank by reflexivity. reflexivity.
  - apply andb_true_iff in He as [He Hd]. apply andb_true_iff in He as [He Hb].
    apply andb_true_iff in He as [Hpre Hw0].
    destruct w0 as [|d w0]; [discriminate|]. apply negb_true_iff in Hd.
    apply (Hquote ((d :: w0) ++ QUOTE :: b)); [apply in_or_app; right; left; reflexivity|].
    rewrite enc_mixedopen_app, skip_blank_app_blank by exact Hpre. simpl app.
    rewrite skip_blank_nonblank by exact Hd. rewrite <- !app_assoc. reflexivity.
Qed.

(* --- the entries of a DATA statement --- *)

Lemma join_cons2 sep (a b : list Z) r : join sep (a :: b :: r) = a ++ sep :: join sep (b :: r).
Proof. reflexivity. Qed.

Lemma si_entries : forall es last n c x,
  entries_ok last es = true -> c = 0 \/ c = 58 -> (last = true -> c = 0) ->
  exists its, si n (join COMMA (map enc_entry es) ++ c :: x) = (its, inl (c :: x)) /\
              Forall2 item_rel (map (fun e => (n, e)) es) its.
Proof.
  induction es as [|e es IH]; intros last n c x Hok Hc Hlast; [discriminate|].
  destruct es as [|e2 es].
  - simpl in Hok. apply andb_true_iff in Hok as [He Hop].
    assert (Hopen : entry_open e = true -> c = 0).
    { intros Ho. rewrite Ho in Hop. simpl in Hop. auto. }
    simpl join. rewrite si_eq. cbv zeta.
    destruct (num_slot (skip_blank (enc_entry e ++ c :: x))) as [[w s2n] s3] eqn:EN.
    assert (Hs : sepc c) by (unfold sepc; tauto).
    rewrite (str_slot_entry e c x He Hs Hopen).
    assert (c =? COMMA = false) as -> by (destruct Hc as [-> | ->]; reflexivity).
    eexists. split; [reflexivity|]. constructor; [|constructor].
    split; [reflexivity|]. split; [reflexivity|]. simpl snd.
    eapply num_view_entry; [exact He | exact Hs | exact Hopen | exact EN | reflexivity | reflexivity].
  - change (entries_ok last (e :: e2 :: es)) with (entry_ok e && negb (entry_open e) && entries_ok last (e2 :: es)) in Hok.
    apply andb_true_iff in Hok as [Hok Hes]. apply andb_true_iff in Hok as [He Hcl]. apply negb_true_iff in Hcl.
    assert (Hopen : entry_open e = true -> COMMA = 0) by (rewrite Hcl; discriminate).
    change (map enc_entry (e :: e2 :: es)) with (enc_entry e :: enc_entry e2 :: map enc_entry es).
    rewrite join_cons2.
    change (enc_entry e2 :: map enc_entry es) with (map enc_entry (e2 :: es)).
    destruct (IH last n c x Hes Hc Hlast) as [its [H1 H2]].
    remember (join COMMA (map enc_entry (e2 :: es))) as J eqn:EJ.
    rewrite <- app_assoc. change ((COMMA :: J) ++ c :: x) with (COMMA :: J ++ c :: x).
    rewrite si_eq. cbv zeta.
    destruct (num_slot (skip_blank (enc_entry e ++ COMMA :: J ++ c :: x))) as [[w s2n] s3] eqn:EN.
    assert (Hs : sepc COMMA) by (left; reflexivity).
    rewrite (str_slot_entry e COMMA _ He Hs Hopen). change (COMMA =? COMMA) with true. cbv iota.
    rewrite H1. eexists. split; [reflexivity|]. constructor; [|exact H2].
    split; [reflexivity|]. split; [reflexivity|]. simpl snd.
    eapply num_view_entry; [exact He | exact Hs | exact Hopen | exact EN | reflexivity | reflexivity].
Qed.

(* --- where the numeric reading of the entries of a statement stops --- *)

Lemma num_slot_after r1 w s2n s3 :
  num_slot r1 = (w, s2n, s3) -> (length s3 <= length s2n <= length r1)%nat.
Proof.
  unfold num_slot. destruct (read_number r1) as [w0 s0] eqn:E. intros H; inversion H; subst.
  apply read_number_split in E as [pre [-> _]]. pose proof (sfx_length _ _ (skip_blank_sfx s2n)).
  rewrite app_length. lia.
Qed.

(* the two positions at which a numeric READ of an entry can fail lie between lo and hi bytes before the end *)
Definition within (lo hi : nat) (it : item) : Prop :=
  (lo <= length (it_rest it) <= hi /\ lo <= length (it_after it) <= hi)%nat.

Lemma stmt_items_rest_bounds : forall f ln r its s', (length r < f)%nat ->
  stmt_items f ln r = (its, inl s') ->
  Forall (within (length s') (length r)) its.
Proof.
  induction f as [|f IH]; intros ln r its s' Hf H; [lia|]. simpl in H.
  destruct (num_slot (skip_blank r)) as [[w s2n] s3] eqn:EN.
  destruct (str_slot (skip_blank r)) as [[v|] s2] eqn:ES; [|discriminate].
  pose proof (num_within_str _ _ _ _ _ _ EN ES) as Hw. pose proof (num_slot_after _ _ _ _ EN) as Haf.
  pose proof (sfx_length _ _ (num_slot_sfx _ _ _ _ EN)) as H3.
  pose proof (sfx_length _ _ (str_slot_sfx _ _ _ ES)) as H2.
  pose proof (sfx_length _ _ (skip_blank_sfx r)) as Hb.
  destruct s2 as [|c r'].
  - inversion H; subst. constructor; [unfold within; simpl; lia | constructor].
  - destruct (c =? COMMA).
    + destruct (stmt_items f ln r') as [its0 e0] eqn:E0. inversion H; subst.
      pose proof (sfx_length _ _ (stmt_items_end_sfx _ _ _ _ _ E0)) as He.
      simpl in *. constructor; [unfold within; simpl; lia|].
      assert (Hf' : (length r' < f)%nat) by lia.
      specialize (IH ln r' its0 s' Hf' E0). revert IH. apply Forall_impl. unfold within. intros a. lia.
    + inversion H; subst. constructor; [unfold within; simpl in *; lia | constructor].
Qed.

Lemma si_rest_bounds ln r its s' :
  si ln r = (its, inl s') -> Forall (within (length s') (length r)) its.
Proof. apply stmt_items_rest_bounds. lia. Qed.

(* --- statements --- *)

Definition cont (X : res (Z * list Z)) : list item * ending :=
  match X with
  | Ok (ln', c :: r) =>
      if (c =? data_tk_DATA) || (c =? COMMA) then
        match si ln' r with
        | (its, inl s') => let (more, e) := ia ln' s' in (its ++ more, e)
        | (its, inr e) => (its, e)
        end
      else ([], EndOfData)
  | _ => ([], EndOfData)
  end.

Lemma ia_cont ln s : ia ln s = cont (look ln s).
Proof. apply ia_eq. Qed.

Definition ss (ln : Z) (r2 : list Z) : res (Z * list Z) := stmt_start fd ln r2.

Lemma fd_at_sep ln c x : c = 0 \/ c = 58 ->
  fd ln (c :: x) = match after_sep ln c x with inl s' => Ok (ln, s') | inr (ln', r2) => ss ln' r2 end.
Proof. intros Hc. rewrite fd_eq, skip_to_at_sep by exact Hc. reflexivity. Qed.

Lemma look_at_sep ln c x : c = 0 \/ c = 58 -> look ln (c :: x) = fd ln (c :: x).
Proof. intros [-> | ->]; reflexivity. Qed.

Lemma stmt_ok_other last ls t :
  stmt_ok last (SOther ls t) = true ->
  forallb lex_ok ls = true /\ tail_ok t = true /\ (t = TNone \/ last = true) /\
  match skip_blank (flat_map enc_lex ls ++ enc_tail t) with c :: _ => (c =? data_tk_DATA) = false | [] => True end.
Proof.
  simpl. rewrite !andb_true_iff. intros [[[H1 H2] H3] H4]. repeat split; auto.
  - destruct t; auto.
  - destruct (skip_blank (flat_map enc_lex ls ++ enc_tail t)); [exact I|]. now apply negb_true_iff in H4.
Qed.

Lemma ss_other ln last ls t c x :
  stmt_ok last (SOther ls t) = true -> (t = TNone \/ c = 0) -> (c = 0 \/ c = 58) ->
  ss ln (enc_stmt (SOther ls t) ++ c :: x) = fd ln (c :: x).
Proof.
  intros Hok Htc Hc. apply stmt_ok_other in Hok as [Hl [Ht [_ Hd]]].
  assert (Hnb : is_blank c = false) by (destruct Hc as [-> | ->]; reflexivity).
  assert (Hfd : forall y, skip_blank (enc_stmt (SOther ls t) ++ c :: x) = y -> fd ln y = fd ln (c :: x)).
  { intros y <-. rewrite (fd_eq ln (skip_blank _)), (fd_eq ln (c :: x)).
    rewrite skip_to_skip_blank. simpl enc_stmt. rewrite skip_to_other by assumption.
    rewrite skip_to_at_sep by exact Hc. reflexivity. }
  unfold ss, stmt_start. simpl enc_stmt in *.
  rewrite skip_blank_app_nonblank in * by exact Hnb.
  destruct (skip_blank (flat_map enc_lex ls ++ enc_tail t)) as [|t0 r0].
  - cbn [app]. assert (c =? data_tk_DATA = false) as -> by (destruct Hc as [-> | ->]; reflexivity).
    reflexivity.
  - cbn [app] in *. rewrite Hd. apply Hfd. reflexivity.
Qed.

Lemma ss_data ln sp y : all_blank sp = true -> ss ln (sp ++ data_tk_DATA :: y) = Ok (ln, data_tk_DATA :: y).
Proof.
  intros Hsp. unfold ss, stmt_start. rewrite skip_blank_app_blank by exact Hsp.
  rewrite skip_blank_nonblank by reflexivity. now rewrite Z.eqb_refl.
Qed.

Lemma cont_data n y : cont (Ok (n, data_tk_DATA :: y)) =
  match si n y with
  | (its, inl s') => let (more, e) := ia n s' in (its ++ more, e)
  | (its, inr e) => (its, e)
  end.
Proof. unfold cont. now rewrite Z.eqb_refl. Qed.

Lemma join_stmts2 (a b : stmt) r :
  join 58 (map enc_stmt (a :: b :: r)) = enc_stmt a ++ 58 :: join 58 (map enc_stmt (b :: r)).
Proof. reflexivity. Qed.

Ltac lens := repeat first [rewrite app_length | progress cbn [length]].

Definition in_body (lo hi : nat) (it : item) : Prop := within lo hi it.

Lemma in_body_weaken lo hi lo' hi' its :
  (lo' <= lo)%nat -> (hi <= hi')%nat -> Forall (in_body lo hi) its -> Forall (in_body lo' hi') its.
Proof. intros H1 H2. apply Forall_impl. unfold in_body, within. intros a. lia. Qed.

(* the statements of one line (from the start of a statement), followed by the next line Tn *)
Lemma body_items : forall sts n Tn more e,
  stmts_ok sts = true -> (exists t, Tn = 0 :: t) -> ia n Tn = (more, e) ->
  exists A, cont (ss n (join 58 (map enc_stmt sts) ++ Tn)) = (A ++ more, e) /\
            Forall2 item_rel (map (fun en => (n, en)) (flat_map stmt_entries sts)) A /\
            Forall (in_body (length Tn) (length (join 58 (map enc_stmt sts) ++ Tn))) A.
Proof.
  induction sts as [|st sts IH]; intros n Tn more e Hok [t HT] Hia; [discriminate|].
  destruct sts as [|st2 sts].
  - (* last statement of the line *)
    simpl in Hok. simpl map. simpl join. simpl flat_map. rewrite app_nil_r.
    destruct st as [ls tl | sp es].
    + subst Tn. rewrite (ss_other n true ls tl 0 t Hok); [|right; reflexivity | left; reflexivity].
      rewrite <- look_at_sep by (left; reflexivity). rewrite <- ia_cont, Hia.
      exists []. simpl. repeat split; constructor.
    + simpl in Hok. apply andb_true_iff in Hok as [Hsp Hes].
      simpl enc_stmt. rewrite <- app_assoc. simpl app. rewrite ss_data by exact Hsp. rewrite cont_data.
      subst Tn.
      destruct (si_entries es true n 0 t) as [its [H1 H2]]; [exact Hes | left; reflexivity | reflexivity|].
      rewrite H1, Hia. exists its. split; [reflexivity|]. split; [exact H2|].
      apply si_rest_bounds in H1. revert H1. apply Forall_impl. unfold in_body, within. intros a.
      lens. lia.
  - (* a statement followed by ':' *)
    change (stmts_ok (st :: st2 :: sts)) with (stmt_ok false st && stmts_ok (st2 :: sts)) in Hok.
    apply andb_true_iff in Hok as [Hst Hrest].
    rewrite join_stmts2.
    remember (join 58 (map enc_stmt (st2 :: sts))) as J eqn:EJ.
    rewrite <- app_assoc. change ((58 :: J) ++ Tn) with (58 :: J ++ Tn).
    destruct (IH n Tn more e Hrest (ex_intro _ t HT) Hia) as [A2 [HA [HR HB]]].
    assert (Hfd58 : fd n (58 :: J ++ Tn) = ss n (J ++ Tn)) by (rewrite fd_at_sep by (right; reflexivity); reflexivity).
    destruct st as [ls tl | sp es].
    + pose proof (stmt_ok_other _ _ _ Hst) as [_ [_ [Htl _]]].
      rewrite (ss_other n false ls tl 58 (J ++ Tn) Hst); [|left; destruct Htl; [assumption | discriminate] | right; reflexivity].
      rewrite Hfd58, HA. exists A2. split; [reflexivity|]. split; [exact HR|].
      revert HB. apply in_body_weaken; [lia|]. lens. lia.
    + simpl in Hst. apply andb_true_iff in Hst as [Hsp Hes].
      simpl enc_stmt. rewrite <- app_assoc. simpl app. rewrite ss_data by exact Hsp. rewrite cont_data.
      destruct (si_entries es false n 58 (J ++ Tn)) as [its [H1 H2]]; [exact Hes | right; reflexivity | discriminate|].
      rewrite H1.
      rewrite ia_cont, look_at_sep by (right; reflexivity). rewrite Hfd58, HA.
      exists (its ++ A2). split; [now rewrite app_assoc|]. split.
      * simpl flat_map. rewrite map_app. apply Forall2_app; assumption.
      * apply Forall_app. split.
        -- apply si_rest_bounds in H1. revert H1. apply Forall_impl. unfold in_body, within. intros a.
           lens. lia.
        -- revert HB. apply in_body_weaken; [lia|]. lens. lia.
Qed.

(* --- lines and programs --- *)

Lemma enc_prog_cons l ls trailer : enc_prog (l :: ls) trailer = enc_line l ++ enc_prog ls trailer.
Proof. unfold enc_prog. simpl. now rewrite <- app_assoc. Qed.

Lemma enc_prog_app ls1 ls2 trailer :
  enc_prog (ls1 ++ ls2) trailer = flat_map enc_line ls1 ++ enc_prog ls2 trailer.
Proof. unfold enc_prog. now rewrite flat_map_app, <- app_assoc. Qed.

Lemma enc_prog_head ls trailer : exists t, enc_prog ls trailer = 0 :: t.
Proof.
  destruct ls as [|l ls].
  - eexists. reflexivity.
  - rewrite enc_prog_cons. unfold enc_line. eexists. reflexivity.
Qed.

Lemma line_ok_parts l : line_ok l = true ->
  (fst (l_link l) =? 0) && (snd (l_link l) =? 0) = false /\ stmts_ok (l_stmts l) = true /\
  0 <= l_lo l < 256 /\ 0 <= l_hi l < 256.
Proof.
  unfold line_ok. rewrite !andb_true_iff, negb_true_iff, !Z.leb_le, !Z.ltb_lt. tauto.
Qed.

(* a line: independent of the line number the scan comes from *)
Lemma ia_line_head ln l ls trailer :
  line_ok l = true ->
  ia ln (enc_prog (l :: ls) trailer) = cont (ss (l_num l) (enc_body l ++ enc_prog ls trailer)).
Proof.
  intros Hok. apply line_ok_parts in Hok as [Hlink _].
  rewrite enc_prog_cons. unfold enc_line. cbn [app].
  rewrite ia_cont, look_at_sep by (left; reflexivity). rewrite fd_at_sep by (left; reflexivity).
  unfold after_sep. change (0 =? 0) with true. cbv iota. rewrite Hlink. reflexivity.
Qed.

Lemma ia_end ln trailer : (length trailer <= 2)%nat -> ia ln (enc_prog [] trailer) = ([], EndOfData).
Proof.
  intros H. destruct trailer as [|a [|b [|c t]]]; try reflexivity. simpl in H. lia.
Qed.

Lemma ia_prog_ln ln1 ln2 ls trailer :
  forallb line_ok ls = true -> (length trailer <= 2)%nat ->
  ia ln1 (enc_prog ls trailer) = ia ln2 (enc_prog ls trailer).
Proof.
  intros Hok Ht. destruct ls as [|l ls].
  - now rewrite !ia_end.
  - simpl in Hok. apply andb_true_iff in Hok as [Hl _]. now rewrite !ia_line_head.
Qed.

(* an entry lies inside the byte range of a line of the program *)
Definition located (ls : list line) (trailer : list Z) (it : item) : Prop :=
  exists ls1 l ls2, ls = ls1 ++ l :: ls2 /\ it_line it = l_num l /\
    within (length (enc_prog ls2 trailer)) (length (enc_body l ++ enc_prog ls2 trailer)) it.

Lemma located_cons l ls trailer it : located ls trailer it -> located (l :: ls) trailer it.
Proof. intros [ls1 [l0 [ls2 [-> H]]]]. exists (l :: ls1), l0, ls2. auto. Qed.

Lemma line_items l ls trailer ln more e :
  line_ok l = true -> ia (l_num l) (enc_prog ls trailer) = (more, e) ->
  exists A, ia ln (enc_prog (l :: ls) trailer) = (A ++ more, e) /\
            Forall2 item_rel (line_entries l) A /\ Forall (located (l :: ls) trailer) A.
Proof.
  intros Hok Hia. rewrite ia_line_head by exact Hok. apply line_ok_parts in Hok as [_ [Hst _]].
  destruct (body_items (l_stmts l) (l_num l) (enc_prog ls trailer) more e Hst (enc_prog_head ls trailer) Hia)
    as [A [HA [HR HB]]].
  exists A. split; [exact HA|]. split.
  - unfold line_entries. exact HR.
  - rewrite Forall_forall in *. intros it Hit. specialize (HB it Hit).
    rewrite Forall2_forall_l in HR || idtac.
    exists [], l, ls. split; [reflexivity|]. split.
    + (* the line number of the entry *)
      clear HB. revert it Hit. 
      assert (HL : Forall (fun it => it_line it = l_num l) A).
      { clear HA. revert HR. generalize (flat_map stmt_entries (l_stmts l)). intros es HR.
        remember (map (fun en => (l_num l, en)) es) as L eqn:EL. revert es EL.
        induction HR as [|x y L' A' Hxy HR IH]; intros es EL; [constructor|].
        destruct es as [|e0 es]; [discriminate|]. simpl in EL. inversion EL; subst.
        constructor; [apply Hxy | eapply IH; reflexivity]. }
      rewrite Forall_forall in HL. exact HL.
    + exact HB.
Qed.

Lemma prog_items : forall ls trailer ln,
  forallb line_ok ls = true -> (length trailer <= 2)%nat ->
  exists its, ia ln (enc_prog ls trailer) = (its, EndOfData) /\
              Forall2 item_rel (prog_entries ls) its /\ Forall (located ls trailer) its.
Proof.
  induction ls as [|l ls IH]; intros trailer ln Hok Ht.
  - exists []. rewrite ia_end by exact Ht. split; [reflexivity|]. split; constructor.
  - simpl in Hok. apply andb_true_iff in Hok as [Hl Hls].
    destruct (IH trailer (l_num l) Hls Ht) as [its [H1 [H2 H3]]].
    destruct (line_items l ls trailer ln its EndOfData Hl H1) as [A [HA [HR HB]]].
    exists (A ++ its). split; [exact HA|]. split.
    + unfold prog_entries. simpl. apply Forall2_app; assumption.
    + apply Forall_app. split; [exact HB|]. revert H3. apply Forall_impl. intros a. apply located_cons.
Qed.

(* the entries of a program split at a line *)
Lemma prog_items_split : forall ls1 ls2 trailer ln,
  forallb line_ok (ls1 ++ ls2) = true -> (length trailer <= 2)%nat ->
  exists A B, ia ln (enc_prog (ls1 ++ ls2) trailer) = (A ++ B, EndOfData) /\
              ia ln (enc_prog ls2 trailer) = (B, EndOfData) /\
              Forall2 item_rel (prog_entries ls1) A /\ Forall2 item_rel (prog_entries ls2) B.
Proof.
  induction ls1 as [|l ls1 IH]; intros ls2 trailer ln Hok Ht.
  - simpl in *. destruct (prog_items ls2 trailer ln Hok Ht) as [its [H1 [H2 _]]].
    exists [], its. simpl. repeat split; auto; constructor.
  - simpl in Hok. apply andb_true_iff in Hok as [Hl Hls].
    destruct (IH ls2 trailer (l_num l) Hls Ht) as [A [B [H1 [H2 [H3 H4]]]]].
    destruct (line_items l (ls1 ++ ls2) trailer ln (A ++ B) EndOfData Hl H1) as [A0 [HA [HR _]]].
    exists (A0 ++ A), B. split; [simpl; rewrite HA; now rewrite app_assoc|]. split.
    + rewrite (ia_prog_ln ln (l_num l)); [exact H2 | | exact Ht].
      rewrite forallb_app in Hls. now apply andb_true_iff in Hls as [_ ?].
    + split; [|exact H4]. unfold prog_entries. simpl. apply Forall2_app; assumption.
Qed.

(* --- the line table --- *)

Definition gln_step (pos : Z) (pre : Z) (e : Z * Z) : Z :=
  if (snd e <=? pos) && (pre <? fst e) then fst e else pre.

Lemma get_line_number_fold tbl pos : get_line_number tbl pos = fold_left (gln_step pos) tbl (-1).
Proof. reflexivity. Qed.

Lemma zlen_nonneg {A} (l : list A) : 0 <= zlen l.
Proof. unfold zlen. lia. Qed.

Lemma gln_fold_skip : forall ls start pre q, q < start ->
  fold_left (gln_step q) (table_of ls start) pre = pre.
Proof.
  induction ls as [|l ls IH]; intros start pre q Hq; simpl.
  - unfold gln_step. simpl. replace (start <=? q) with false by lia. reflexivity.
  - unfold gln_step at 2. simpl. replace (start <=? q) with false by lia. simpl.
    apply IH. pose proof (zlen_nonneg (enc_line l)). lia.
Qed.

Lemma ascending_lt : forall ls1 l ls2 pre, ascending pre (ls1 ++ l :: ls2) = true -> pre < l_num l.
Proof.
  induction ls1 as [|a ls1 IH]; intros l ls2 pre H; simpl in H; apply andb_true_iff in H as [H1 H2].
  - lia.
  - specialize (IH _ _ _ H2). lia.
Qed.

Lemma gln_main : forall ls1 l ls2 start pre q,
  ascending pre (ls1 ++ l :: ls2) = true ->
  start + zlen (flat_map enc_line ls1) <= q < start + zlen (flat_map enc_line ls1) + zlen (enc_line l) ->
  fold_left (gln_step q) (table_of (ls1 ++ l :: ls2) start) pre = l_num l.
Proof.
  induction ls1 as [|a ls1 IH]; intros l ls2 start pre q Hasc Hq.
  - simpl in *. apply andb_true_iff in Hasc as [H1 H2].
    unfold gln_step at 2. simpl. unfold zlen in Hq. simpl in Hq.
    replace (start <=? q) with true by lia. replace (pre <? l_num l) with true by lia. simpl.
    apply gln_fold_skip. unfold zlen. simpl. lia.
  - simpl in Hasc. apply andb_true_iff in Hasc as [H1 H2].
    simpl app. simpl table_of. simpl fold_left. unfold gln_step at 2. simpl fst. simpl snd.
    change (flat_map enc_line (a :: ls1)) with (enc_line a ++ flat_map enc_line ls1) in Hq.
    unfold zlen in Hq. rewrite app_length in Hq.
    pose proof (zlen_nonneg (flat_map enc_line ls1)) as Hz. unfold zlen in Hz.
    replace (start <=? q) with true by lia. replace (pre <? l_num a) with true by lia. simpl.
    apply IH; [exact H2|]. unfold zlen. lia.
Qed.

Lemma assocz_table : forall ls1 l ls2 start pre,
  ascending pre (ls1 ++ l :: ls2) = true ->
  assocz (l_num l) (table_of (ls1 ++ l :: ls2) start) = Some (start + zlen (flat_map enc_line ls1)).
Proof.
  induction ls1 as [|a ls1 IH]; intros l ls2 start pre Hasc.
  - simpl. rewrite Z.eqb_refl. unfold zlen. simpl. f_equal. lia.
  - simpl in Hasc. apply andb_true_iff in Hasc as [H1 H2].
    pose proof (ascending_lt _ _ _ _ H2) as Hlt.
    cbn [app table_of assocz]. replace (l_num l =? l_num a) with false by lia.
    rewrite (IH l ls2 _ _ H2). f_equal.
    change (flat_map enc_line (a :: ls1)) with (enc_line a ++ flat_map enc_line ls1).
    unfold zlen. rewrite app_length. lia.
Qed.

Lemma assocz_table_none : forall ls start n,
  (forall l, In l ls -> l_num l <> n) -> n <> 65536 -> assocz n (table_of ls start) = None.
Proof.
  induction ls as [|a ls IH]; intros start n Hn H6; simpl.
  - replace (n =? 65536) with false by lia. reflexivity.
  - replace (n =? l_num a) with false by (specialize (Hn a (or_introl eq_refl)); lia).
    apply IH; [|exact H6]. intros l Hl. apply Hn. right. exact Hl.
Qed.

Lemma seek_line ls1 ls2 trailer :
  seek (enc_prog (ls1 ++ ls2) trailer) (zlen (flat_map enc_line ls1)) = enc_prog ls2 trailer.
Proof.
  rewrite enc_prog_app. unfold seek, zlen. rewrite Nat2Z.id, skipn_app, skipn_all, Nat.sub_diag. reflexivity.
Qed.

(* the error positions of an entry lie in the entry's line *)
Lemma mark_line ls1 l ls2 trailer (m : list Z) :
  ascending (-1) (ls1 ++ l :: ls2) = true ->
  (length (enc_prog ls2 trailer) <= length m <= length (enc_body l ++ enc_prog ls2 trailer))%nat ->
  get_line_number (table_of (ls1 ++ l :: ls2) 0) (pos_of (enc_prog (ls1 ++ l :: ls2) trailer) m - 1) = l_num l.
Proof.
  intros Hasc Hb. rewrite get_line_number_fold.
  apply gln_main; [exact Hasc|].
  unfold pos_of, zlen. rewrite enc_prog_app, enc_prog_cons, !app_length. rewrite app_length in Hb.
  unfold enc_line. cbn [length] in *. lia.
Qed.

Lemma located_line ls trailer it :
  ascending (-1) ls = true -> located ls trailer it ->
  get_line_number (table_of ls 0) (pos_of (enc_prog ls trailer) (it_rest it) - 1) = it_line it /\
  get_line_number (table_of ls 0) (pos_of (enc_prog ls trailer) (it_after it) - 1) = it_line it.
Proof.
  intros Hasc [ls1 [l [ls2 [-> [Hl [Hb1 Hb2]]]]]]. rewrite Hl. split; apply mark_line; assumption.
Qed.

(* ================================================================================================ *)
(* G. statements for props/C22.v *)

Lemma inv_ahead p dp ln its e : Inv p dp ln its e <-> data_ahead p dp ln = (its, e).
Proof. reflexivity. Qed.

Lemma combine_firstn_r {A B} : forall (a : list A) (b : list B), combine a b = combine a (firstn (length a) b).
Proof. induction a as [|x a IH]; intros [|y b]; simpl; auto. now rewrite <- IH. Qed.

Lemma read_vars_snoc_fail numok setvar p cur : forall ts dp os dp' tgt e q part,
  read_vars numok setvar p cur dp ts = (os, dp') ->
  Forall (fun o => outcome_value o <> None) os ->
  read_one numok setvar p cur dp' tgt = Fail e q part ->
  read_vars numok setvar p cur dp (ts ++ [tgt]) = (os ++ [Fail e q part], dp').
Proof.
  induction ts as [|t ts IH]; intros dp os dp' tgt e q part H1 HD HF.
  - simpl in H1. inversion H1; subst. simpl. now rewrite HF.
  - simpl in H1. simpl app. cbn [read_vars].
    destruct (read_one numok setvar p cur dp t) as [v d1 | e1 q1 p1 | x1 |] eqn:E1.
    + destruct (read_vars numok setvar p cur d1 ts) as [os1 d2] eqn:E2. inversion H1; subst.
      inversion HD; subst. rewrite (IH d1 os1 dp' tgt e q part E2 H3 HF). reflexivity.
    + inversion H1; subst. inversion HD; subst. simpl in H2. congruence.
    + inversion H1; subst. inversion HD; subst. simpl in H2. congruence.
    + inversion H1; subst. inversion HD; subst. simpl in H2. congruence.
Qed.

Lemma nth_error_skipn {A} : forall n (l : list A) a, nth_error l n = Some a -> skipn n l = a :: skipn (S n) l.
Proof.
  induction n as [|n IH]; intros [|x l] a H; try discriminate.
  - inversion H; subst. reflexivity.
  - simpl in H. simpl. apply IH. exact H.
Qed.

(* a READ statement whose variable number |ts|+1 fails: the variables before it keep their values, the data pointer
   stands behind the last entry that was read, the remaining variables are not touched (any oracles) *)
Lemma read_vars_fail_mid numok setvar p cur : forall ts dp os dp' tgt rest,
  read_vars numok setvar p cur dp ts = (os, dp') ->
  Forall (fun o => outcome_value o <> None) os ->
  outcome_value (read_one numok setvar p cur dp' tgt) = None ->
  read_vars numok setvar p cur dp (ts ++ tgt :: rest) = (os ++ [read_one numok setvar p cur dp' tgt], dp').
Proof.
  induction ts as [|t ts IH]; intros dp os dp' tgt rest H1 HD HF.
  - simpl in H1. inversion H1; subst. simpl.
    destruct (read_one numok setvar p cur dp' tgt); try reflexivity. discriminate.
  - simpl in H1. simpl app. cbn [read_vars].
    destruct (read_one numok setvar p cur dp t) as [v d1 | e1 q1 p1 | x1 |] eqn:E1.
    + destruct (read_vars numok setvar p cur d1 ts) as [os1 d2] eqn:E2. inversion H1; subst.
      inversion HD; subst. rewrite (IH d1 os1 dp' tgt rest E2 H3 HF). reflexivity.
    + inversion H1; subst. inversion HD; subst. simpl in H2. congruence.
    + inversion H1; subst. inversion HD; subst. simpl in H2. congruence.
    + inversion H1; subst. inversion HD; subst. simpl in H2. congruence.
Qed.

Lemma values_all_done os (L : list (Z * item)) :
  map outcome_value os = map (fun ti => Some (value_for (fst ti) (snd ti))) L ->
  Forall (fun o => outcome_value o <> None) os.
Proof.
  revert L. induction os as [|o os IH]; intros L H; [constructor|].
  destruct L as [|x L]; [discriminate|]. simpl in H. inversion H. constructor; [congruence | eapply IH; eassumption].
Qed.

(* direct mode *)
Lemma direct_value run o : outcome_value (direct run o) = outcome_value o.
Proof. destruct run; [reflexivity|]. destruct o; reflexivity. Qed.

Lemma direct_fail_pos o e q part : direct false o = Fail e q part -> q = -1.
Proof. destruct o; simpl; intros H; inversion H; reflexivity. Qed.

(* --- Program.line_numbers is a dictionary: only its content matters --- *)
From Coq Require Import Permutation.

Lemma gln_step_comm q a e1 e2 : gln_step q (gln_step q a e1) e2 = gln_step q (gln_step q a e2) e1.
Proof.
  unfold gln_step. destruct e1 as [n1 p1], e2 as [n2 p2]. simpl.
  destruct ((p1 <=? q) && (a <? n1)) eqn:B1; destruct ((p2 <=? q) && (a <? n2)) eqn:B2; simpl;
    rewrite ?B1, ?B2;
    repeat (match goal with |- context [if ?b then _ else _] => destruct b eqn:? end); try reflexivity; lia.
Qed.

Lemma gln_perm q : forall t1 t2, Permutation t1 t2 -> forall a,
  fold_left (gln_step q) t1 a = fold_left (gln_step q) t2 a.
Proof.
  induction 1 as [| x l l' Hp IH | x y l | l l' l'' H1 IH1 H2 IH2]; intros a; simpl.
  - reflexivity.
  - apply IH.
  - now rewrite gln_step_comm.
  - now rewrite IH1, IH2.
Qed.

Lemma get_line_number_perm t1 t2 q : Permutation t1 t2 -> get_line_number t1 q = get_line_number t2 q.
Proof. intros H. rewrite !get_line_number_fold. now apply gln_perm. Qed.

Lemma assocz_Some_In k v t : assocz k t = Some v -> In (k, v) t.
Proof.
  induction t as [|[k0 v0] t IH]; simpl; [discriminate|].
  destruct (k =? k0) eqn:E; intros H.
  - apply Z.eqb_eq in E. inversion H; subst. now left.
  - right. auto.
Qed.

Lemma assocz_In k v t : NoDup (map fst t) -> In (k, v) t -> assocz k t = Some v.
Proof.
  induction t as [|[k0 v0] t IH]; simpl; intros Hn Hi; [contradiction|].
  inversion Hn; subst. destruct Hi as [Hi | Hi].
  - inversion Hi; subst. now rewrite Z.eqb_refl.
  - destruct (k =? k0) eqn:E.
    + apply Z.eqb_eq in E. subst. exfalso. apply H1. apply (in_map fst) in Hi. exact Hi.
    + auto.
Qed.

Lemma assocz_None k t : assocz k t = None -> forall v, ~ In (k, v) t.
Proof.
  induction t as [|[k0 v0] t IH]; simpl; intros H v Hi; [contradiction|].
  destruct (k =? k0) eqn:E; [discriminate|]. destruct Hi as [Hi | Hi].
  - inversion Hi; subst. rewrite Z.eqb_refl in E. discriminate.
  - eapply IH; eassumption.
Qed.

Lemma assocz_perm k t1 t2 : Permutation t1 t2 -> NoDup (map fst t2) -> assocz k t1 = assocz k t2.
Proof.
  intros Hp Hn.
  assert (Hn1 : NoDup (map fst t1)).
  { eapply Permutation_NoDup; [|exact Hn]. apply Permutation_map. now apply Permutation_sym. }
  destruct (assocz k t2) as [v|] eqn:E2.
  - apply assocz_In; [exact Hn1|]. apply assocz_Some_In in E2. eapply Permutation_in; [apply Permutation_sym|]; eassumption.
  - destruct (assocz k t1) as [v|] eqn:E1; [|reflexivity]. exfalso.
    apply assocz_Some_In in E1. eapply (assocz_None _ _ E2 v). eapply Permutation_in; eassumption.
Qed.

Lemma table_keys : forall ls start pre,
  ascending pre ls = true -> Forall (fun l => l_num l < 65536) ls -> pre < 65536 ->
  NoDup (map fst (table_of ls start)) /\ Forall (fun k => pre < k) (map fst (table_of ls start)).
Proof.
  induction ls as [|l ls IH]; intros start pre Ha Hf Hp; simpl.
  - split; [constructor; [simpl; tauto | constructor] | constructor; [exact Hp | constructor]].
  - simpl in Ha. apply andb_true_iff in Ha as [H1 H2]. inversion Hf; subst.
    destruct (IH (start + zlen (enc_line l)) (l_num l) H2 H4 H3) as [Hn Hk]. split.
    + constructor; [|exact Hn]. intros Hin. rewrite Forall_forall in Hk. specialize (Hk _ Hin). lia.
    + constructor; [lia|]. revert Hk. apply Forall_impl. intros a. lia.
Qed.

Lemma line_ok_num l : line_ok l = true -> l_num l < 65536.
Proof. intros H. apply line_ok_parts in H as [_ [_ [H1 H2]]]. unfold l_num. lia. Qed.

Lemma table_nodup ls : forallb line_ok ls = true -> ascending (-1) ls = true -> NoDup (map fst (table_of ls 0)).
Proof.
  intros Hok Ha. apply (table_keys ls 0 (-1) Ha); [|lia].
  rewrite Forall_forall. rewrite forallb_forall in Hok. intros l Hl. apply line_ok_num. auto.
Qed.

Section Statements.
  Variable numok : list Z -> res unit.
  Variable setvar : Z -> val -> res unit.
  Hypothesis numok_ok : forall w, numok w = Ok tt.
  Hypothesis setvar_ok : forall t v, setvar t v = Ok tt.

  (* a READ statement over the next entries, from any data pointer *)
  Lemma sequence_from p cur dp ln its e ts :
    data_ahead p dp ln = (its, e) -> (length ts <= length its)%nat ->
    forallb (fun ti => readable (fst ti) (snd ti)) (combine ts its) = true ->
    exists os dp' ln',
      read_vars numok setvar p cur dp ts = (os, dp') /\
      map outcome_value os = map (fun ti => Some (value_for (fst ti) (snd ti))) (combine ts its) /\
      data_ahead p dp' ln' = (skipn (length ts) its, e).
  Proof.
    intros HI HL HR.
    assert (HI' : Inv p dp ln (firstn (length ts) its ++ skipn (length ts) its) e)
      by (rewrite firstn_skipn; exact HI).
    rewrite (combine_firstn_r ts its) in HR |- *.
    destruct (read_vars_seq numok setvar numok_ok setvar_ok ts (firstn (length ts) its) (skipn (length ts) its)
                e p cur dp ln HI') as [os [dp' [ln' [H1 [H2 H3]]]]]; [rewrite firstn_length; lia | exact HR|].
    exists os, dp', ln'. auto.
  Qed.

  (* after the entries before it have been read, a numeric READ of an entry that is not numeric; the variables
     behind it (rest) are not touched *)
  Lemma syntax_error_after p cur dp ln its e ts tgt rest it :
    data_ahead p dp ln = (its, e) -> (length ts <= length its)%nat ->
    forallb (fun ti => readable (fst ti) (snd ti)) (combine ts its) = true ->
    nth_error its (length ts) = Some it -> readable tgt it = false ->
    exists os dp' ln',
      read_vars numok setvar p cur dp (ts ++ tgt :: rest) =
        (os ++ [Fail data_STX (pos_of p (it_rest it) - 1) (Some (VNum (it_word it)))], dp') /\
      map outcome_value os = map (fun ti => Some (value_for (fst ti) (snd ti))) (combine ts its) /\
      data_ahead p dp' ln' = (skipn (length ts) its, e).
  Proof.
    intros HI HL HR Hn Hr.
    destruct (sequence_from p cur dp ln its e ts HI HL HR) as [os [dp' [ln' [H1 [H2 H3]]]]].
    exists os, dp', ln'. split; [|split; [exact H2 | exact H3]].
    rewrite (nth_error_skipn _ _ _ Hn) in H3.
    pose proof (read_step_syntax numok setvar numok_ok setvar_ok p cur dp' ln' it _ e tgt H3 Hr) as HF.
    rewrite <- HF. apply read_vars_fail_mid; [exact H1 | eapply values_all_done; exact H2 | now rewrite HF].
  Qed.

  (* a READ statement with more variables than entries are left *)
  Lemma out_of_data_after p cur dp ln its ts tgt rest :
    data_ahead p dp ln = (its, EndOfData) -> length ts = length its ->
    forallb (fun ti => readable (fst ti) (snd ti)) (combine ts its) = true ->
    exists os dp' ln',
      read_vars numok setvar p cur dp (ts ++ tgt :: rest) = (os ++ [Fail data_OUT_OF_DATA (cur - 1) None], dp') /\
      map outcome_value os = map (fun ti => Some (value_for (fst ti) (snd ti))) (combine ts its) /\
      data_ahead p dp' ln' = ([], EndOfData).
  Proof.
    intros HI HL HR.
    destruct (sequence_from p cur dp ln its EndOfData ts HI ltac:(lia) HR) as [os [dp' [ln' [H1 [H2 H3]]]]].
    rewrite HL, skipn_all in H3.
    exists os, dp', ln'. split; [|split; [exact H2 | exact H3]].
    pose proof (read_exhausted numok setvar p cur dp' ln' tgt H3) as HF.
    rewrite <- HF. apply read_vars_fail_mid; [exact H1 | eapply values_all_done; exact H2 | now rewrite HF].
  Qed.
End Statements.

(* the assembled statements of props/C22.v *)
Lemma direct_mode_thm : forall numok setvar run p cur dp ts tbl,
  let r := read_vars numok setvar p cur dp ts in
  read_stmt numok setvar run false p cur dp ts = (map (direct run) (fst r), snd r) /\
  map outcome_value (map (direct run) (fst r)) = map outcome_value (fst r) /\
  (forall o e q part, In o (map (direct false) (fst r)) -> o = Fail e q part -> q = -1 /\ erl tbl q = 65535) /\
  read_stmt numok setvar false true p cur dp ts = ([Fail 5 (-1) None], dp).
Proof.
  intros numok setvar run p cur dp ts tbl r. split; [|split; [|split]].
  - unfold read_stmt, r. simpl. now destruct (read_vars numok setvar p cur dp ts).
  - rewrite map_map. apply map_ext. intros o. apply direct_value.
  - intros o e q part Hin Ho. apply in_map_iff in Hin as [o0 [Hd0 _]]. rewrite <- Hd0 in Ho.
    apply direct_fail_pos in Ho. subst q. split; reflexivity.
  - reflexivity.
Qed.

Lemma program_order_thm : forall ls trailer,
  forallb line_ok ls = true -> (length trailer <= 2)%nat ->
  exists its, data_items (enc_prog ls trailer) = (its, EndOfData) /\ Forall2 item_rel (prog_entries ls) its.
Proof.
  intros ls trailer H1 H2. destruct (prog_items ls trailer (-1) H1 H2) as [its [Ha [Hb _]]]. eauto.
Qed.

Lemma restore_n_thm : forall ls1 l ls2 trailer tbl,
  forallb line_ok (ls1 ++ l :: ls2) = true -> (length trailer <= 2)%nat -> ascending (-1) (ls1 ++ l :: ls2) = true ->
  Permutation tbl (table_of (ls1 ++ l :: ls2) 0) ->
  let p := enc_prog (ls1 ++ l :: ls2) trailer in
  exists dp A B,
    restore tbl (Some (l_num l)) = Ok dp /\
    fst (data_items p) = A ++ B /\
    (forall ln, data_ahead p dp ln = (B, EndOfData)) /\
    (forall ln, data_ahead p dp ln = data_items (enc_prog (l :: ls2) trailer)) /\
    Forall2 item_rel (prog_entries ls1) A /\ Forall2 item_rel (prog_entries (l :: ls2)) B.
Proof.
  intros ls1 l ls2 trailer tbl Hok Ht Hasc Hperm p.
  destruct (prog_items_split ls1 (l :: ls2) trailer (-1) Hok Ht) as [A [B [H1 [H2 [H3 H4]]]]].
  assert (Hok2 : forallb line_ok (l :: ls2) = true).
  { rewrite forallb_app in Hok. now apply andb_true_iff in Hok as [_ ?]. }
  assert (Hahead : forall ln, data_ahead p (zlen (flat_map enc_line ls1)) ln = (B, EndOfData)).
  { intros ln. change (ia ln (seek (enc_prog (ls1 ++ l :: ls2) trailer) (zlen (flat_map enc_line ls1))) = (B, EndOfData)).
    rewrite seek_line. rewrite (ia_prog_ln ln (-1)); [exact H2 | exact Hok2 | exact Ht]. }
  exists (zlen (flat_map enc_line ls1)), A, B. split.
  - rewrite restore_some, (assocz_perm _ _ _ Hperm (table_nodup _ Hok Hasc)), (assocz_table ls1 l ls2 0 (-1) Hasc).
    reflexivity.
  - split; [unfold p; rewrite data_items_ia, H1; reflexivity|]. split; [exact Hahead|]. split; [|auto].
    intros ln. rewrite Hahead, data_items_ia, H2. reflexivity.
Qed.

Lemma restore_undefined_thm : forall ls n tbl,
  forallb line_ok ls = true -> ascending (-1) ls = true -> Permutation tbl (table_of ls 0) ->
  (forall l, In l ls -> l_num l <> n) -> n <> 65536 ->
  restore tbl (Some n) = Err data_UNDEFINED_LINE_NUMBER.
Proof.
  intros ls n tbl Hok Hasc Hperm H1 H2.
  rewrite restore_some, (assocz_perm _ _ _ Hperm (table_nodup _ Hok Hasc)), assocz_table_none by assumption.
  reflexivity.
Qed.

Lemma error_line_thm : forall ls trailer tbl k it,
  forallb line_ok ls = true -> (length trailer <= 2)%nat -> ascending (-1) ls = true ->
  Permutation tbl (table_of ls 0) ->
  nth_error (fst (data_items (enc_prog ls trailer))) k = Some it ->
  let p := enc_prog ls trailer in
  erl tbl (pos_of p (it_rest it) - 1) = it_line it /\ erl tbl (pos_of p (it_after it) - 1) = it_line it.
Proof.
  intros ls trailer tbl k it Hok Ht Hasc Hperm Hn p.
  destruct (prog_items ls trailer (-1) Hok Ht) as [its [Ha [_ Hloc]]].
  rewrite data_items_ia, Ha in Hn. simpl in Hn. apply nth_error_In in Hn.
  rewrite Forall_forall in Hloc. specialize (Hloc _ Hn).
  destruct (located_line ls trailer it Hasc Hloc) as [L1 L2].
  destruct Hloc as [ls1 [l [ls2 [-> [Hl [[Hb1 Hb1'] [Hb2 Hb2']]]]]]].
  assert (Hpos : forall m : list Z, (length m <= length (enc_body l ++ enc_prog ls2 trailer))%nat ->
                 4 <= pos_of (enc_prog (ls1 ++ l :: ls2) trailer) m - 1).
  { intros m Hm. unfold pos_of, zlen. rewrite enc_prog_app, enc_prog_cons, !app_length.
    rewrite app_length in Hm. unfold enc_line. cbn [length]. lia. }
  unfold erl, p. rewrite !(get_line_number_perm _ _ _ Hperm), L1, L2.
  pose proof (Hpos _ Hb1'). pose proof (Hpos _ Hb2').
  repeat match goal with |- context [?x =? ?y] => replace (x =? y) with false by lia end. auto.
Qed.

(* ================================================================================================ *)
(* H. final round: pointer on the separator, RESTORE to a missing line, empty statements *)

(* C22d: after a numeric READ the pointer stands ON the separator behind the entry (blanks behind the number are
   skipped), and in front of the next entry *)
Lemma read_num_on_sep numok setvar p cur dp ln it its e tgt :
  Inv p dp ln (it :: its) e -> is_str tgt = false -> it_numeric it = true ->
  numok (it_word it) = Ok tt -> setvar tgt (VNum (it_word it)) = Ok tt ->
  exists dp', read_one numok setvar p cur dp tgt = Done (VNum (it_word it)) dp' /\
              seek p dp' = it_rest it /\ at_sep (seek p dp') = true /\
              (seek p dp' = [] \/ exists c r, seek p dp' = c :: r /\ (c = 0 \/ c = 58 \/ c = 44)) /\
              Inv p dp' (it_line it) its e.
Proof.
  unfold Inv. intros H Ht Hn Hok1 Hok2.
  pose proof H as H0. apply ia_step in H as [c [r [s2 [HL [HT [HS [HN [Hnum HI]]]]]]]].
  rewrite Hn in Hnum. symmetry in Hnum.
  destruct (num_str_agree _ _ _ _ HN Hnum) as [v Hv]. rewrite HS in Hv. inversion Hv; subst s2.
  exists (pos_of p (it_rest it)). rewrite read_one_eq.
  destruct (look_stream _ (-1) _ _ _ HL) as [l2 HL2]. rewrite HL2, HT. cbv zeta.
  rewrite Ht, HN, Hnum, Hok1, Hok2. simpl.
  assert (Hsk : seek p (pos_of p (it_rest it)) = it_rest it).
  { apply seek_pos. apply str_slot_sfx in HS. apply look_sfx in HL.
    eapply sfx_trans; [exact HS|]. eapply sfx_trans; [apply skip_blank_sfx|].
    eapply sfx_trans; [apply sfx_cons|]. eapply sfx_trans; [exact HL | apply seek_sfx]. }
  rewrite Hsk. repeat split; auto. apply at_sep_cases. exact Hnum.
Qed.

(* the same for a string READ *)
Lemma read_str_on_sep numok setvar p cur dp ln it its e tgt :
  Inv p dp ln (it :: its) e -> is_str tgt = true -> setvar tgt (VStr (it_str it)) = Ok tt ->
  exists dp', read_one numok setvar p cur dp tgt = Done (VStr (it_str it)) dp' /\
              at_sep (seek p dp') = true /\ Inv p dp' (it_line it) its e.
Proof.
  unfold Inv. intros H Ht Hok.
  apply ia_step in H as [c [r [s2 [HL [HT [HS [HN [Hnum HI]]]]]]]].
  exists (pos_of p s2). rewrite read_one_eq.
  destruct (look_stream _ (-1) _ _ _ HL) as [l2 HL2]. rewrite HL2, HT. cbv zeta. rewrite Ht, HS, Hok. simpl.
  assert (Hsk : seek p (pos_of p s2) = s2).
  { apply seek_pos. pose proof (str_slot_sfx _ _ _ HS) as H1. apply look_sfx in HL.
    eapply sfx_trans; [exact H1|]. eapply sfx_trans; [apply skip_blank_sfx|].
    eapply sfx_trans; [apply sfx_cons|]. eapply sfx_trans; [exact HL | apply seek_sfx]. }
  rewrite Hsk. repeat split; auto. eapply str_slot_some_sep. exact HS.
Qed.

(* C22e *)
Lemma restore_stmt_missing ls n tbl dp :
  forallb line_ok ls = true -> ascending (-1) ls = true -> Permutation tbl (table_of ls 0) ->
  (forall l, In l ls -> l_num l <> n) -> n <> 65536 ->
  restore_stmt tbl dp (Some n) = (Some data_UNDEFINED_LINE_NUMBER, dp).
Proof.
  intros Hok Hasc Hperm H1 H2. unfold restore_stmt.
  now rewrite (restore_undefined_thm ls n tbl Hok Hasc Hperm H1 H2).
Qed.

Lemma restore_stmt_any tbl dp arg :
  match restore_stmt tbl dp arg with
  | (None, d) => restore tbl arg = Ok d
  | (Some e, d) => d = dp
  end.
Proof. unfold restore_stmt. destruct (restore tbl arg); auto. Qed.

(* C22c: empty statements *)
Lemma enc_blank_lexemes bl : flat_map enc_lex (map LCh bl) = bl.
Proof. induction bl as [|c bl IH]; simpl; congruence. Qed.

Lemma blank_lex_ok bl : all_blank bl = true -> forallb lex_ok (map LCh bl) = true.
Proof.
  induction bl as [|c bl IH]; simpl; [reflexivity|]. intros H. apply andb_true_iff in H as [H1 H2].
  rewrite (IH H2), andb_true_r. apply is_blank_spec in H1. destruct H1 as [-> | [-> | ->]]; reflexivity.
Qed.

Lemma empty_stmt_ok last bl : all_blank bl = true -> stmt_ok last (SOther (map LCh bl) TNone) = true.
Proof.
  intros H. simpl. rewrite (blank_lex_ok bl H). simpl. rewrite enc_blank_lexemes, app_nil_r.
  rewrite <- (app_nil_r bl), skip_blank_app_blank by exact H. reflexivity.
Qed.

Lemma stmts_ok_cons2 a b r : stmts_ok (a :: b :: r) = stmt_ok false a && stmts_ok (b :: r).
Proof. reflexivity. Qed.

Lemma stmts_ok_cons_ne x y : y <> [] -> stmts_ok (x :: y) = stmt_ok false x && stmts_ok y.
Proof. destruct y; [congruence | reflexivity]. Qed.

Lemma stmts_ok_insert e : forall a b, b <> [] -> stmt_ok false e = true ->
  stmts_ok (a ++ b) = true -> stmts_ok (a ++ e :: b) = true.
Proof.
  induction a as [|x a IH]; intros b Hb He H.
  - cbn [app] in *. rewrite stmts_ok_cons_ne by exact Hb. now rewrite He.
  - cbn [app] in *.
    assert (N1 : a ++ b <> []) by (intros E; apply app_eq_nil in E as [_ E]; congruence).
    assert (N2 : a ++ e :: b <> []) by (intros E; apply app_eq_nil in E as [_ E]; discriminate).
    rewrite stmts_ok_cons_ne in H by exact N1. apply andb_true_iff in H as [H1 H2].
    rewrite stmts_ok_cons_ne by exact N2. rewrite H1. simpl. apply IH; assumption.
Qed.

Lemma with_empty_ok l i bl :
  line_ok l = true -> all_blank bl = true -> (i < length (l_stmts l))%nat -> line_ok (with_empty l i bl) = true.
Proof.
  intros Hok Hbl Hi. unfold line_ok in *. simpl.
  apply andb_true_iff in Hok as [Hok B4]. apply andb_true_iff in Hok as [Hok B3].
  apply andb_true_iff in Hok as [Hok B2]. apply andb_true_iff in Hok as [Hok B1].
  apply andb_true_iff in Hok as [Hlk Hst]. rewrite Hlk, B1, B2, B3, B4, !andb_true_r. simpl.
  apply stmts_ok_insert.
  - intros E. apply (f_equal (@length stmt)) in E. rewrite skipn_length in E. simpl in E. lia.
  - apply empty_stmt_ok. exact Hbl.
  - rewrite firstn_skipn. exact Hst.
Qed.

Lemma with_empty_entries l i bl : line_entries (with_empty l i bl) = line_entries l.
Proof.
  unfold line_entries, with_empty, l_num. simpl. f_equal.
  rewrite flat_map_app. simpl. rewrite <- flat_map_app, firstn_skipn. reflexivity.
Qed.

Lemma empty_statement_thm ls1 l ls2 trailer i bl :
  forallb line_ok (ls1 ++ l :: ls2) = true -> (length trailer <= 2)%nat ->
  all_blank bl = true -> (i < length (l_stmts l))%nat ->
  forallb line_ok (ls1 ++ with_empty l i bl :: ls2) = true /\
  prog_entries (ls1 ++ with_empty l i bl :: ls2) = prog_entries (ls1 ++ l :: ls2) /\
  exists its, data_items (enc_prog (ls1 ++ with_empty l i bl :: ls2) trailer) = (its, EndOfData) /\
              Forall2 item_rel (prog_entries (ls1 ++ l :: ls2)) its.
Proof.
  intros Hok Ht Hbl Hi.
  assert (Hok' : forallb line_ok (ls1 ++ with_empty l i bl :: ls2) = true).
  { rewrite forallb_app in *. simpl in *. apply andb_true_iff in Hok as [H1 H2]. apply andb_true_iff in H2 as [H2 H3].
    rewrite H1, H3, (with_empty_ok l i bl H2 Hbl Hi). reflexivity. }
  assert (Hent : prog_entries (ls1 ++ with_empty l i bl :: ls2) = prog_entries (ls1 ++ l :: ls2)).
  { unfold prog_entries. rewrite !flat_map_app. simpl. now rewrite with_empty_entries. }
  split; [exact Hok'|]. split; [exact Hent|].
  rewrite <- Hent. apply program_order_thm; assumption.
Qed.
