(* C23 - proofs, part 10-13 (extension): the dictionary invariant, OPTION BASE over CHAIN, memory accounting
   of the restore loop, special cases of CHAIN *)
From Coq Require Import ZArith List Bool String Lia Permutation.
From RecordUpdate Require Import RecordSet.
From PCB Require Import lib.Result lib.PyInt lib.Harness lib.ClearTable gen.Gen_clear model.ClearChain
  proofs.ClearChain_reset proofs.ClearChain_closed proofs.ClearChain_proofs.
Import ListNotations RecordSetNotations.
Open Scope Z_scope.

(* ------------------------------------------------------------------------------------------------ *)
(* Part 10: wf is an invariant *)

Lemma wf_empty s : sc_vars s = [] -> ar_dims s = [] -> wf s.
Proof.
  intros H1 H2. unfold wf, dims_ok. rewrite H1, H2. cbn.
  repeat split; try constructor; intros; contradiction.
Qed.

Lemma wf_init t k c p : wf (init_state t k c p).
Proof. apply wf_empty; reflexivity. Qed.

Lemma is_reset_wf s : is_reset s -> wf s.
Proof.
  unfold is_reset, view_of. intro H.
  injection H as H1 _ _ H4 _ _ _ _ _ _ _ _ _ _ _ _ _ _ _ _ _ _ _ _ _ _ _ _ _.
  apply wf_empty; assumption.
Qed.

Lemma map_fst_areplace {V} n (v : V) l : map fst (areplace n v l) = map fst l.
Proof.
  induction l as [|[k w] l IH]; [reflexivity|]. cbn [areplace].
  destruct (list_Z_eqb n k); cbn [map fst]; [reflexivity | rewrite IH; reflexivity].
Qed.

Lemma scalars_set_vars n v s s' : scalars_set n v s = Done s' ->
  sc_vars s' = match alookup n (sc_vars s) with
               | Some _ => areplace n v (sc_vars s)
               | None => sc_vars s ++ [(n, v)]
               end.
Proof.
  unfold scalars_set, lift. intro H.
  destruct (nmem n (sc_mem s)); [|destruct (scalar_size n); [destruct (check_free_held _ _ _)|..]];
    cbn -[Z.add Z.max Z.leb] in H; try discriminate;
    destruct (alookup n (sc_vars s)) as [old|]; try discriminate;
    try (destruct (Nat.eqb (List.length old) (List.length v)); try discriminate);
    injection H as <-; reflexivity.
Qed.

Lemma wf_scalars_set n v s s' : wf s -> scalars_set n v s = Done s' -> wf s'.
Proof.
  intros (W1 & W2 & W3 & W4) H.
  destruct (scalars_set_frame n v s s') as [_ Ha]; [rewrite H; reflexivity|].
  unfold array_part in Ha. injection Ha as A1 _ _ _ A5 _.
  pose proof (scalars_set_vars _ _ _ _ H) as Hv.
  unfold wf, dims_ok. rewrite A1, A5. split; [|repeat split; assumption].
  rewrite Hv. destruct (alookup n (sc_vars s)) eqn:E.
  - rewrite map_fst_areplace. exact W1.
  - rewrite map_app. apply NoDup_app_intro; [exact W1 | repeat constructor; intros [] |].
    intros x Hx [<-|[]]. exact (alookup_none_notin _ _ E Hx).
Qed.

Lemma any_lt_false x l : any_lt x l = false -> Forall (fun d => x <= d) l.
Proof.
  unfold any_lt. induction l as [|d l IH]; cbn [existsb]; intro H; [constructor|].
  apply orb_false_iff in H as [H1 H2]. constructor; [lia | apply IH, H2].
Qed.

(* what a successful Arrays.allocate has checked and done *)
Lemma arrays_restore_done n d b s s' : arrays_restore n d b s = Done s' ->
  amem n (ar_dims s) = false /\ any_lt 0 d = false
  /\ (forall b0, ar_base s = Some b0 -> any_lt b0 d = false)
  /\ ar_dims s' = ar_dims s ++ [(n, d)]
  /\ ar_base s' = (match ar_base s with None => Some 0 | Some b0 => Some b0 end)
  /\ ar_base_by_dim s' = (match ar_base s with None => true | Some _ => ar_base_by_dim s end)
  /\ scalar_part s' = scalar_part s.
Proof.
  unfold arrays_restore, lift. destruct d as [|d0 d]; [discriminate|].
  destruct (amem n (ar_dims s)); [discriminate|].
  destruct (any_lt 0 (d0 :: d)); [discriminate|].
  destruct (ar_base s) as [b0|] eqn:Eb.
  - destruct (any_lt b0 (d0 :: d)) eqn:El; [discriminate|].
    repeat match goal with |- context [match ?x with _ => _ end] => destruct x end;
      intro H; try discriminate; injection H as <-; cbn; rewrite ?Eb;
      repeat split; try reflexivity; try (intros ? [= <-]; assumption).
  - repeat match goal with |- context [match ?x with _ => _ end] => destruct x end;
      intro H; try discriminate; injection H as <-; cbn; rewrite ?Eb;
      repeat split; try reflexivity; try (intros ? [=]).
Qed.

Lemma wf_arrays_restore n d b s s' : wf s -> arrays_restore n d b s = Done s' -> wf s'.
Proof.
  intros (W1 & W2 & W3 & W4) H.
  destruct (arrays_restore_done _ _ _ _ _ H) as (Hm & H0 & Hb & Hd & Hbase & _ & Hs).
  unfold scalar_part in Hs. injection Hs as S1 _ _.
  unfold wf, dims_ok. rewrite S1, Hd, Hbase. split; [exact W1|]. split; [|split].
  - rewrite map_app. apply NoDup_app_intro; [exact W2 | repeat constructor; intros [] |].
    intros x Hx [<-|[]]. cbn [fst] in Hx. apply (proj2 (amem_in _ _)) in Hx. rewrite Hx in Hm. discriminate.
  - intros n0 d0 Hin. apply in_app_iff in Hin as [Hin|[Heq|[]]]; [exact (W3 _ _ Hin)|].
    injection Heq as <- <-. apply any_lt_false, H0.
  - intros n0 d0 b1 Hin Hb1. apply in_app_iff in Hin as [Hin|[Heq|[]]].
    + destruct (ar_base s) as [b0|] eqn:Eb.
      * injection Hb1 as <-. exact (W4 _ _ _ Hin Eb).
      * injection Hb1 as <-. exact (W3 _ _ Hin).
    + injection Heq as <- <-. destruct (ar_base s) as [b0|] eqn:Eb.
      * injection Hb1 as <-. apply any_lt_false, Hb. reflexivity.
      * injection Hb1 as <-. apply any_lt_false, H0.
Qed.

Lemma wf_restore_scalars l : forall s s', wf s -> restore_scalars l s = Done s' -> wf s'.
Proof.
  induction l as [|[n v] l IH]; intros s s' W H; cbn [restore_scalars] in H; [injection H as <-; exact W|].
  destruct (scalars_set n v s) as [s1| | | |] eqn:E; try discriminate.
  eapply IH; [eapply wf_scalars_set; eassumption | exact H].
Qed.
Lemma wf_restore_arrays l : forall s s', wf s -> restore_arrays l s = Done s' -> wf s'.
Proof.
  induction l as [|[n [d b]] l IH]; intros s s' W H; cbn [restore_arrays] in H; [injection H as <-; exact W|].
  destruct (arrays_restore n d b s) as [s1| | | |] eqn:E; try discriminate.
  eapply IH; [eapply wf_arrays_restore; eassumption | exact H].
Qed.

Theorem wf_chain a s s' : cmd_chain a s = Done s' -> wf s'.
Proof.
  intro H.
  destruct (chain_done_inv _ _ _ H) as (gs & ga & sv & sz & s6 & _ & _ & _ & _ & _ & _ & Hrest).
  cbv zeta in Hrest. destruct Hrest as (_ & _ & _ & Hr & ->).
  unfold restore_all in Hr.
  match type of Hr with context [restore_scalars ?l ?z] => destruct (restore_scalars l z) as [s5a| | | |] eqn:Ers end;
    try discriminate.
  assert (wf s6) as (W1 & W2 & W3 & W4).
  { eapply wf_restore_arrays; [|exact Hr]. eapply wf_restore_scalars; [|exact Ers]. apply wf_empty; reflexivity. }
  repeat split; assumption.
Qed.

(* ------------------------------------------------------------------------------------------------ *)
(* Part 11: OPTION BASE over CHAIN *)

Lemma restore_arrays_base l : forall s s' b, ar_base s = Some b -> restore_arrays l s = Done s' ->
  ar_base s' = Some b /\ ar_base_by_dim s' = ar_base_by_dim s.
Proof.
  induction l as [|[n [d bb]] l IH]; intros s s' b Hb H; cbn [restore_arrays] in H.
  - injection H as <-. split; [assumption | reflexivity].
  - destruct (arrays_restore n d bb s) as [s1| | | |] eqn:E; try discriminate.
    destruct (arrays_restore_done _ _ _ _ _ E) as (_ & _ & _ & _ & Hbase & Hbd & _). rewrite Hb in Hbase, Hbd.
    destruct (IH _ _ _ Hbase H) as [I1 I2]. split; [assumption | congruence].
Qed.

Theorem chain_base a s s' : cmd_chain a s = Done s' ->
  let kept := c_all a || (nonempty (c_cs_order a) || nonempty (c_ca_order a)) in
  (kept = false -> ar_base s' = None /\ ar_base_by_dim s' = false)
  /\ (kept = true -> forall b, ar_base s = Some b -> ar_base s' = Some b /\ ar_base_by_dim s' = ar_base_by_dim s).
Proof.
  intro H.
  destruct (chain_done_inv _ _ _ H) as (gs & ga & sv & sz & s6 & _ & _ & _ & Hn0 & _ & Hn1 & Hrest).
  cbv zeta in Hrest. destruct Hrest as (Hm & _ & _ & Hr & ->). cbv zeta.
  unfold restore_all in Hr.
  match type of Hr with context [restore_scalars ?l ?z] => destruct (restore_scalars l z) as [s5a| | | |] eqn:Ers end;
    try discriminate.
  destruct (restore_scalars_spec _ _ _ _ Ers eq_refl) as [_ Ar]. unfold array_part in Ar.
  injection Ar as _ _ _ _ A5 A6. cbn in A5, A6.
  split.
  - intro Hk. rewrite Hk in A5, A6.
    apply orb_false_iff in Hk as [Hall Hk]. apply orb_false_iff in Hk as [_ Hca].
    rewrite Hall in Hm.
    destruct (c_ca_order a) as [|c ca]; [|discriminate].
    destruct (migrate_commons_spec _ _ _ _ (nodupb_NoDup _ Hn0) (NoDup_nil _) Hm) as (arrs & Hpa & _ & _ & HF2).
    cbn in Hpa. injection Hpa as <-. destruct (sv_arrays sv); [|inversion HF2]. cbn in Hr. injection Hr as <-.
    change (ar_base (gc_on s5a)) with (ar_base s5a). change (ar_base_by_dim (gc_on s5a)) with (ar_base_by_dim s5a).
    split; assumption.
  - intros Hk b Hb. rewrite Hk in A5, A6. cbn in A5, A6.
    assert (ar_base s5a = Some b) as Hb5 by congruence.
    destruct (restore_arrays_base _ _ _ _ Hb5 Hr) as [R1 R2].
    change (ar_base (gc_on s6)) with (ar_base s6). change (ar_base_by_dim (gc_on s6)) with (ar_base_by_dim s6).
    split; congruence.
Qed.

(* ------------------------------------------------------------------------------------------------ *)
(* Part 12: once the memory check of preserve_commons has passed, the restore loop cannot run out of memory.
   Accounting: get_free = ss_current - var_start - sc_current - ar_current; every Scalars.set of a new name
   takes scalar_size, every Arrays.allocate array_size, exactly the summands of the check. *)

Definition no_oom (o : out) : Prop :=
  match o with Raised e _ => e <> err_OUT_OF_MEMORY | _ => True end.

Lemma scalars_set_acct n v s z : scalar_size n = Ok z -> z < get_free s -> m_allow_collect s = false ->
  match scalars_set n v s with
  | Done s' => get_free s - z <= get_free s' /\ m_allow_collect s' = false /\ ar_base s' = ar_base s
  | Raised _ _ => False
  | _ => True
  end.
Proof.
  intros Hz Hf Ha. unfold scalars_set, lift. rewrite Hz. unfold check_free_held. rewrite Ha.
  pose proof (size_bytes_pos n) as Hp. unfold scalar_size in Hz.
  destruct (size_bytes n) as [sz| | |] eqn:Es; try discriminate. cbn [bind] in Hz. injection Hz as <-.
  specialize (Hp _ eq_refl). pose proof (zlen_nonneg n) as Hn.
  destruct (nmem n (sc_mem s)).
  - destruct (alookup n (sc_vars s)) as [old|]; [destruct (Nat.eqb _ _)|]; cbn; try exact I;
      unfold get_free, var_current, var_start in *; cbn; repeat split; try assumption; lia.
  - replace (get_free s <=? Z.max 3 (zlen n) + 1 + sz) with false by lia.
    cbn -[Z.add Z.max]. destruct (alookup n (sc_vars s)) as [old|]; [destruct (Nat.eqb _ _)|];
      cbn -[Z.add Z.max]; try exact I;
      unfold get_free, var_current, var_start in *; cbn -[Z.add Z.max]; repeat split; try assumption; lia.
Qed.

Lemma restore_scalars_acct l : forall s z extra, sum_scalar_sizes l = Ok z -> 0 <= extra ->
  z + extra < get_free s -> m_allow_collect s = false ->
  match restore_scalars l s with
  | Done s' => get_free s - z <= get_free s' /\ m_allow_collect s' = false /\ ar_base s' = ar_base s
  | Raised _ _ => False
  | _ => True
  end.
Proof.
  induction l as [|[n v] l IH]; intros s z extra Hz He Hf Ha; cbn [sum_scalar_sizes restore_scalars] in *.
  - injection Hz as <-. repeat split; [lia | assumption].
  - destruct (scalar_size n) as [a| | |] eqn:Ea; try discriminate. cbn [bind] in Hz.
    destruct (sum_scalar_sizes l) as [t| | |] eqn:Et; try discriminate. cbn [bind] in Hz. injection Hz as <-.
    pose proof (sum_scalar_sizes_nonneg _ _ Et) as Ht.
    pose proof (scalars_set_acct n v s a Ea ltac:(lia) Ha) as Hs.
    destruct (scalars_set n v s) as [s1| | | |]; try exact I; try contradiction.
    destruct Hs as (H1 & H2 & H3).
    pose proof (IH s1 t extra eq_refl He ltac:(lia) H2) as Hr.
    destruct (restore_scalars l s1) as [s2| | | |]; try exact I; try contradiction.
    destruct Hr as (R1 & R2 & R3). repeat split; [lia | assumption | congruence].
Qed.

Lemma arrays_restore_acct n d b s bb z : ar_base s = Some bb -> array_size (Some bb) n d = Ok z ->
  z < get_free s -> m_allow_collect s = false ->
  match arrays_restore n d b s with
  | Done s' => get_free s' = get_free s - z /\ m_allow_collect s' = false /\ ar_base s' = Some bb
  | o => no_oom o
  end.
Proof.
  intros Hb Hz Hf Ha. unfold arrays_restore, lift. destruct d as [|d0 d]; [exact I|].
  destruct (amem n (ar_dims s)); [cbn; discriminate|].
  destruct (any_lt 0 (d0 :: d)); [cbn; discriminate|].
  rewrite Hb. cbv beta iota zeta. rewrite ?Hb. destruct (any_lt bb (d0 :: d)); [cbn; discriminate|].
  unfold array_size in Hz.
  destruct (array_buffer_size (Some bb) n (d0 :: d)) as [ab| | |] eqn:Eab; try discriminate.
  cbn [bind] in Hz. assert (z = array_record_size n (d0 :: d) + ab) as -> by congruence.
  unfold check_free_held. rewrite Ha.
  replace (get_free s <=? array_record_size n (d0 :: d) + ab) with false by lia.
  destruct (zlen b =? ab); [|exact I].
  unfold get_free, var_current, var_start in *. cbn -[Z.add]. repeat split; try assumption; lia.
Qed.

Lemma restore_arrays_acct l : forall s z, sum_array_sizes (ar_base s) l = Ok z ->
  (forall n d b0, In (n, (d, b0)) l -> forall b, ar_base s = Some b -> Forall (fun x => b <= x) d) ->
  z < get_free s -> m_allow_collect s = false -> no_oom (restore_arrays l s).
Proof.
  induction l as [|[n [d b0]] l IH]; intros s z Hz Hd Hf Ha; cbn [sum_array_sizes restore_arrays] in *; [exact I|].
  destruct (array_size (ar_base s) n d) as [a| | |] eqn:Ea; try discriminate. cbn [bind] in Hz.
  destruct (sum_array_sizes (ar_base s) l) as [t| | |] eqn:Et; try discriminate. cbn [bind] in Hz. injection Hz as <-.
  destruct d as [|d0 d]; [cbn; exact I|].
  destruct (ar_base s) as [bb|] eqn:Eb; [|discriminate].
  assert (0 <= t) as Ht.
  { eapply sum_array_sizes_nonneg; [exact Et|]. intros n1 d1 b1 Hin b Hbb. injection Hbb as <-.
    eapply Hd; [right; exact Hin | reflexivity]. }
  pose proof (arrays_restore_acct n (d0 :: d) b0 s bb a Eb Ea ltac:(lia) Ha) as Hs.
  destruct (arrays_restore n (d0 :: d) b0 s) as [s1| | | |]; try exact Hs.
  destruct Hs as (H1 & H2 & H3). eapply IH; [rewrite H3; exact Et | | lia | exact H2].
  intros n1 d1 b1 Hin b Hbb. rewrite H3 in Hbb. eapply Hd; [right; exact Hin | exact Hbb].
Qed.

Lemma saved_array_dims cs ca s sv : NoDup cs -> NoDup ca -> migrate_commons cs ca s = Ok sv ->
  forall n d b0, In (n, (d, b0)) (sv_arrays sv) -> In (n, d) (ar_dims s).
Proof.
  intros Hcs Hca Hm n d b0 Hin.
  destruct (migrate_commons_spec _ _ _ _ Hcs Hca Hm) as (arrs & Hpa & _ & _ & HF2).
  destruct (Forall2_in_r _ _ _ _ HF2 Hin) as ([n' [d' b']] & Hin' & Hf & Hok). cbn [fst snd] in *. subst n'.
  destruct Hok as [Hdd _]. cbn [fst snd] in Hdd. subst d'.
  apply (proj2 (pick_arrays_spec _ _ _ Hpa)) in Hin' as (_ & Hd & _). apply alookup_some_in, Hd.
Qed.

(* Out of memory in CHAIN, exactly: either while the COMMON strings are copied (nothing touched) or at the
   memory check (program replaced, everything cleared, no variable at all) - never half-way *)
Theorem chain_oom_exact a s s' : cmd_chain a s = Raised err_OUT_OF_MEMORY s' -> wf s ->
  s' = s <| m_allow_collect := true |>
  \/ (sc_vars s' = [] /\ ar_dims s' = [] /\ ar_bufs s' = [] /\ ss_strs s' = []
      /\ m_prog_size s' = c_new_prog_size a /\ run_mode s' = true /\ m_allow_collect s' = true).
Proof.
  rewrite chain_closed. unfold chain_spec. cbn [h_gather h_setok h_migrate h_sizes h_restore real_handlers].
  intros H (W1 & W2 & W3 & W4).
  destruct (c_delete a && c_to_line_missing a); [discriminate|].
  destruct (c_merge a && c_protected a); [discriminate|].
  destruct (gather (deftype s) 0 (c_decls a) []); try discriminate.
  destruct (gather (deftype s) 1 (c_decls a) []); try discriminate.
  match type of H with context [if ?c then _ else _] => destruct c eqn:Eset end; [|discriminate].
  apply andb_true_iff in Eset as [E1 E2].
  apply andb_true_iff in E1 as [_ E1']. apply andb_true_iff in E2 as [_ E2'].
  set (kb := c_all a || (nonempty (c_cs_order a) || nonempty (c_ca_order a))) in *.
  set (cs' := if c_all a then map fst (sc_vars s) else c_cs_order a) in *.
  set (ca' := if c_all a then map fst (ar_dims s) else c_ca_order a) in *.
  set (s1 := s <| m_allow_collect := false |>) in *.
  assert (NoDup cs') as Hndcs by (unfold cs'; destruct (c_all a); [assumption | apply nodupb_NoDup; assumption]).
  assert (NoDup ca') as Hndca by (unfold ca'; destruct (c_all a); [assumption | apply nodupb_NoDup; assumption]).
  destruct (migrate_commons cs' ca' s1) as [sv| | |] eqn:Em; try discriminate.
  - destruct (c_file_missing a); [discriminate|].
    destruct (match c_jumpnum a with Some _ => c_jump_missing a | None => false end); [discriminate|].
    set (s4 := (chain_loaded a kb s1) <| run_mode := true |>) in *.
    destruct (sizes_of sv s4) as [sz| | |] eqn:Es; try discriminate.
    + destruct (st_cur (sv_store sv) <=? var_start s4 + sz) eqn:Efit.
      * injection H as <-. right. repeat split.
      * exfalso.
        match type of H with context [restore_all sv ?z] => set (s5 := z) in * end.
        unfold sizes_of in Es.
        destruct (sum_scalar_sizes (sv_scalars sv)) as [z1| | |] eqn:E1; try discriminate. cbn [bind] in Es.
        destruct (sum_array_sizes (ar_base s4) (sv_arrays sv)) as [z2| | |] eqn:E2; try discriminate.
        cbn [bind] in Es. injection Es as <-.
        assert (forall n d b0, In (n, (d, b0)) (sv_arrays sv) ->
                  forall b, ar_base s4 = Some b -> Forall (fun x => b <= x) d) as Hdims.
        { intros n d b0 Hin b Hb.
          pose proof (saved_array_dims _ _ _ _ Hndcs Hndca Em _ _ _ Hin) as Hd0.
          change (ar_dims s1) with (ar_dims s) in Hd0. eapply W4; [exact Hd0|].
          change (ar_base s4) with (if kb then ar_base s else None) in Hb. destruct kb; [exact Hb | discriminate]. }
        pose proof (sum_array_sizes_nonneg _ _ _ E2 Hdims) as Hz2.
        assert (get_free s5 = st_cur (sv_store sv) - var_start s4) as Hfree by (unfold get_free, var_current, var_start; cbn; lia).
        assert (m_allow_collect s5 = false) as Hal by reflexivity.
        pose proof (restore_scalars_acct (sv_scalars sv) s5 z1 z2 E1 Hz2 ltac:(lia) Hal) as Hs.
        unfold restore_all in H.
        destruct (restore_scalars (sv_scalars sv) s5) as [s5a| | | |] eqn:Ers; try discriminate; try contradiction.
        destruct Hs as (G1 & G2 & G3).
        assert (ar_base s5a = ar_base s4) as Hb5.
        { change (ar_base s5) with (if kb then ar_base s else None) in G3.
          change (ar_base s4) with (if kb then ar_base s else None). exact G3. }
        pose proof (restore_arrays_acct (sv_arrays sv) s5a z2 ltac:(rewrite Hb5; exact E2)
                      ltac:(intros n d b0 Hin b Hb; rewrite Hb5 in Hb; eapply Hdims; eassumption)
                      ltac:(lia) G2) as Hr.
        destruct (restore_arrays (sv_arrays sv) s5a) as [s6|e s6| | |]; try discriminate.
        injection H as -> _. apply Hr. reflexivity.
    + injection H as _ <-. right. repeat split.
  - injection H as _ <-. left. reflexivity.
Qed.

(* ------------------------------------------------------------------------------------------------ *)
(* Part 13: special cases *)

(* CHAIN MERGE ...,DELETE a-b with a range whose last line does not exist: Illegal function call, nothing
   touched (the check precedes everything) *)
Theorem chain_bad_delete_range a s : c_delete a = true -> c_to_line_missing a = true ->
  cmd_chain a s = Raised err_IFC s.
Proof. intros H1 H2. rewrite chain_closed. unfold chain_spec. rewrite H1, H2. reflexivity. Qed.

(* CHAIN ...,line with a line that is not in the resulting program never succeeds; it raises Illegal function
   call after the program was replaced and everything cleared *)
Theorem chain_missing_line a s j : c_jumpnum a = Some j -> c_jump_missing a = true ->
  match cmd_chain a s with
  | Done _ => False
  | Raised e s' => e <> err_IFC \/ s' = s \/ s' = s <| m_allow_collect := true |> \/
       (sc_vars s' = [] /\ ar_dims s' = [] /\ m_prog_size s' = c_new_prog_size a /\ m_allow_collect s' = true)
  | _ => True
  end.
Proof.
  intros H1 H2. rewrite chain_closed. unfold chain_spec. rewrite H1, H2.
  cbn [h_gather h_setok h_migrate h_sizes h_restore real_handlers]. cbv beta iota.
  destruct (c_delete a && c_to_line_missing a); [right; left; reflexivity|].
  destruct (c_merge a && c_protected a); [right; left; reflexivity|].
  destruct (gather (deftype s) 0 (c_decls a) []); try exact I.
  destruct (gather (deftype s) 1 (c_decls a) []); try exact I.
  match goal with |- context [if ?c then _ else _] => destruct c end; [|exact I].
  match goal with |- context [migrate_commons ?x ?y ?z] => destruct (migrate_commons x y z) end; try exact I.
  - destruct (c_file_missing a); [left; vm_compute; discriminate|].
    right; right; right. repeat split.
  - right; right; left. reflexivity.
Qed.

(* a COMMON string that lives in a FIELD buffer or is a literal in program code (a pointer below the variables,
   read through `foreign`) arrives with the content it had when CHAIN was executed *)
Theorem chain_field_string a s s' n l lo hi b commons : cmd_chain a s = Done s' -> wf s ->
  gather (deftype s) 0 (c_decls a) [] = Ok commons -> c_all a || nmem n commons = true ->
  is_str_scalar n = true -> alookup n (sc_vars s) = Some [l; lo; hi] ->
  l <> 0 -> lo + 256 * hi < var_start s -> plookup (lo + 256 * hi) l (foreign s) = Some b ->
  scalar_value s' n = Some (Ok b).
Proof.
  intros H (W1 & W2 & W3 & W4) Hg Hc Hs Hv Hl Ha Hf.
  destruct (chain_scalars_exact _ _ _ H W1 W2 W4) as (gs & Hg' & Hx).
  rewrite Hg in Hg'. injection Hg' as <-. rewrite Hx, Hc.
  unfold scalar_value. rewrite Hv, Hs. unfold str_of. cbn [unpack3 bind fst snd]. unfold view.
  replace (l =? 0) with false by lia. replace (var_start s <=? lo + 256 * hi) with false by lia.
  rewrite Hf. reflexivity.
Qed.

(* DEF SEG is none of the four commands' business *)
Lemma reset_keeps_def_seg s :
  (forall i m k s', cmd_clear i m k s = Done s' -> def_seg s' = def_seg s)
  /\ (forall s', cmd_new s = Done s' -> def_seg s' = def_seg s)
  /\ (forall j jm f s', cmd_run j jm f s = Done s' -> def_seg s' = def_seg s).
Proof.
  split; [|split].
  - intros i m k s' H. destruct i as [i|], m as [m|], k as [k|]; run_table_in H;
    repeat match type of H with
           | context [if ?c then _ else _] => destruct c; try discriminate H
           end; injection H as H; subst s'; reflexivity.
  - intros s' H. run_table_in H. injection H as <-. reflexivity.
  - intros j jm f s' H. destruct j as [j|], jm, f as [[[fm fr] fn]|]; try destruct fm; try destruct fr;
      run_table_in H; try discriminate H; injection H as H; subst s'; reflexivity.
Qed.

(* ------------------------------------------------------------------------------------------------ *)
(* Part 14: after the memory check the restore loop cannot fail at all *)

Lemma forall_any_lt x l : Forall (fun d => x <= d) l -> any_lt x l = false.
Proof.
  unfold any_lt. induction 1 as [|d l H _ IH]; [reflexivity|]. cbn [existsb]. rewrite IH.
  replace (d <? x) with false by lia. reflexivity.
Qed.

Lemma scalars_set_total n v s z : scalar_size n = Ok z -> z < get_free s -> m_allow_collect s = false ->
  alookup n (sc_vars s) = None ->
  exists s', scalars_set n v s = Done s' /\ sc_vars s' = sc_vars s ++ [(n, v)]
    /\ get_free s - z <= get_free s' /\ m_allow_collect s' = false /\ array_part s' = array_part s.
Proof.
  intros Hz Hf Ha Hn.
  pose proof (scalars_set_acct n v s z Hz Hf Ha) as Hacct.
  unfold scalars_set, lift in *. rewrite Hz in *. unfold check_free_held in *. rewrite Ha in *.
  destruct (nmem n (sc_mem s)).
  - rewrite Hn in *. eexists. split; [reflexivity|]. destruct Hacct as (A1 & A2 & _).
    repeat split; assumption.
  - destruct (get_free s <=? z) eqn:E; [lia|]. cbn -[Z.add] in *. rewrite Hn in *. cbn -[Z.add] in *.
    eexists. split; [reflexivity|]. destruct Hacct as (A1 & A2 & _). repeat split; assumption.
Qed.

Lemma restore_scalars_total l : forall s z extra, sum_scalar_sizes l = Ok z -> 0 <= extra ->
  z + extra < get_free s -> m_allow_collect s = false -> NoDup (map fst l) ->
  (forall n, In n (map fst l) -> alookup n (sc_vars s) = None) ->
  exists s', restore_scalars l s = Done s' /\ get_free s - z <= get_free s'
    /\ m_allow_collect s' = false /\ array_part s' = array_part s.
Proof.
  induction l as [|[n v] l IH]; intros s z extra Hz He Hf Ha Hnd Hfresh; cbn [sum_scalar_sizes restore_scalars] in *.
  - injection Hz as <-. exists s. repeat split; [lia | assumption].
  - destruct (scalar_size n) as [a| | |] eqn:Ea; try discriminate. cbn [bind] in Hz.
    destruct (sum_scalar_sizes l) as [t| | |] eqn:Et; try discriminate. cbn [bind] in Hz. injection Hz as <-.
    pose proof (sum_scalar_sizes_nonneg _ _ Et) as Ht.
    cbn [map fst] in Hnd. inversion Hnd as [|? ? Hk Hnd']; subst.
    destruct (scalars_set_total n v s a Ea ltac:(lia) Ha (Hfresh n (or_introl eq_refl)))
      as (s1 & E1 & Hv & Hg & Ha1 & Hp1).
    rewrite E1.
    destruct (IH s1 t extra eq_refl He ltac:(lia) Ha1 Hnd') as (s2 & E2 & Hg2 & Ha2 & Hp2).
    { intros n0 Hin. rewrite Hv, alookup_app, (Hfresh n0 (or_intror Hin)). cbn [alookup].
      rewrite bytes_eqb_neq; [reflexivity | intros ->; contradiction]. }
    exists s2. repeat split; [assumption | lia | assumption | congruence].
Qed.

Lemma arrays_restore_total n d b s bb : ar_base s = Some bb -> d <> [] -> amem n (ar_dims s) = false ->
  any_lt 0 d = false -> any_lt bb d = false -> array_buffer_size (Some bb) n d = Ok (zlen b) ->
  array_record_size n d + zlen b < get_free s -> m_allow_collect s = false ->
  exists s', arrays_restore n d b s = Done s'
    /\ get_free s' = get_free s - (array_record_size n d + zlen b) /\ m_allow_collect s' = false
    /\ ar_base s' = Some bb /\ ar_dims s' = ar_dims s ++ [(n, d)].
Proof.
  intros Hb Hd Hm H0 Hbb Hsz Hf Ha. unfold arrays_restore, lift. destruct d as [|d0 d]; [contradiction|].
  rewrite Hm, H0, Hb. cbv beta iota zeta. rewrite ?Hb, Hbb, Hsz. unfold check_free_held. rewrite Ha.
  replace (get_free s <=? array_record_size n (d0 :: d) + zlen b) with false by lia.
  rewrite Z.eqb_refl. eexists. split; [reflexivity|].
  unfold get_free, var_current, var_start in *. cbn -[Z.add]. repeat split; try assumption; lia.
Qed.

(* what the loop needs to know about one saved array *)
Definition arr_ready (bb : Z) (x : bytes * (list Z * bytes)) : Prop :=
  fst (snd x) <> [] /\ Forall (fun v => 0 <= v) (fst (snd x)) /\ Forall (fun v => bb <= v) (fst (snd x))
  /\ array_buffer_size (Some bb) (fst x) (fst (snd x)) = Ok (zlen (snd (snd x))).

Lemma restore_arrays_total l : forall s bb z, ar_base s = Some bb -> Forall (arr_ready bb) l ->
  sum_array_sizes (Some bb) l = Ok z -> z < get_free s -> m_allow_collect s = false ->
  NoDup (map fst l) -> (forall n, In n (map fst l) -> amem n (ar_dims s) = false) ->
  exists s', restore_arrays l s = Done s'.
Proof.
  induction l as [|[n [d b]] l IH]; intros s bb z Hb Hr Hz Hf Ha Hnd Hfresh; cbn [sum_array_sizes restore_arrays] in *.
  - exists s. reflexivity.
  - inversion Hr as [|? ? (R1 & R2 & R3 & R4) Hr']; subst. cbn [fst snd] in *.
    unfold array_size in Hz. rewrite R4 in Hz. cbn [bind] in Hz.
    destruct (sum_array_sizes (Some bb) l) as [t| | |] eqn:Et; try discriminate. cbn [bind] in Hz. injection Hz as <-.
    assert (0 <= t) as Ht.
    { eapply sum_array_sizes_nonneg; [exact Et|]. intros n1 d1 b1 Hin b0 Hb0. injection Hb0 as <-.
      rewrite Forall_forall in Hr'. destruct (Hr' _ Hin) as (_ & _ & Q & _). exact Q. }
    cbn [map fst] in Hnd. inversion Hnd as [|? ? Hk Hnd']; subst.
    destruct (arrays_restore_total n d b s bb Hb R1 (Hfresh n (or_introl eq_refl))
                (forall_any_lt _ _ R2) (forall_any_lt _ _ R3) R4 ltac:(lia) Ha)
      as (s1 & E1 & Hg & Ha1 & Hb1 & Hd1).
    rewrite E1. eapply IH; try eassumption; [lia|].
    intros n0 Hin. destruct (amem n0 (ar_dims s1)) eqn:Em; [|reflexivity]. exfalso.
    apply amem_in in Em. rewrite Hd1, map_app in Em. apply in_app_iff in Em as [Em|[<-|[]]].
    + apply (proj2 (amem_in _ _)) in Em. rewrite (Hfresh n0 (or_intror Hin)) in Em. discriminate.
    + contradiction.
Qed.

Lemma buf_moved_len s d b b' : buf_moved s d b b' -> zlen b' = zlen b.
Proof.
  induction 1 as [|l lo hi r p' c r' x _ Hp _ _ _ _ IH]; [reflexivity|].
  destruct p' as [l' a']. unfold pack3 in Hp.
  destruct ((0 <=? l') && (l' <=? 255) && (0 <=? a') && (a' <=? 65535)); [|discriminate].
  injection Hp as <-. unfold zlen in *. cbn [app List.length]. lia.
Qed.

(* CHAIN can fail only through: a bad DELETE range, MERGE into a protected program, a missing file or line,
   an error while the COMMON strings are copied, or the memory check; once that has passed it completes *)
Theorem chain_succeeds a s gs ga sv sz : wf s -> bufs_ok s ->
  c_delete a && c_to_line_missing a = false -> c_merge a && c_protected a = false ->
  c_file_missing a = false -> (match c_jumpnum a with Some _ => c_jump_missing a | None => false end) = false ->
  gather (deftype s) 0 (c_decls a) [] = Ok gs -> gather (deftype s) 1 (c_decls a) [] = Ok ga ->
  same_set gs (c_cs_order a) && nodupb (c_cs_order a) && (same_set ga (c_ca_order a) && nodupb (c_ca_order a)) = true ->
  let kb := c_all a || (nonempty (c_cs_order a) || nonempty (c_ca_order a)) in
  let cs' := if c_all a then map fst (sc_vars s) else c_cs_order a in
  let ca' := if c_all a then map fst (ar_dims s) else c_ca_order a in
  let s1 := s <| m_allow_collect := false |> in
  let s4 := (chain_loaded a kb s1) <| run_mode := true |> in
  migrate_commons cs' ca' s1 = Ok sv -> sizes_of sv s4 = Ok sz ->
  var_start s4 + sz < st_cur (sv_store sv) ->
  exists s', cmd_chain a s = Done s'.
Proof.
  intros (W1 & W2 & W3 & W4) Hbufs F1 F2 F3 F4 Hg0 Hg1 Hset kb cs' ca' s1 s4 Hm Hsz Hfit.
  rewrite chain_closed. unfold chain_spec. cbn [h_gather h_setok h_migrate h_sizes h_restore real_handlers].
  rewrite F1, F2, Hg0, Hg1, Hset. fold kb cs' ca' s1. rewrite Hm, F3, F4. fold s4. rewrite Hsz.
  replace (st_cur (sv_store sv) <=? var_start s4 + sz) with false by lia.
  match goal with |- context [restore_all sv ?z] => set (s5 := z) end.
  apply andb_true_iff in Hset as [E1 E2].
  apply andb_true_iff in E1 as [_ E1']. apply andb_true_iff in E2 as [_ E2'].
  assert (NoDup cs') as Hndcs by (unfold cs'; destruct (c_all a); [assumption | apply nodupb_NoDup; assumption]).
  assert (NoDup ca') as Hndca by (unfold ca'; destruct (c_all a); [assumption | apply nodupb_NoDup; assumption]).
  destruct (migrate_commons_spec _ _ _ _ Hndcs Hndca Hm) as (arrs & Hpa & _ & HF1 & HF2).
  rewrite (pick_scalars_same cs' s1 s eq_refl) in HF1.
  rewrite (pick_arrays_same ca' s1 s eq_refl eq_refl) in Hpa.
  assert (map fst (sv_scalars sv) = map fst (pick_scalars cs' s)) as Hk1
    by (eapply Forall2_map_fst; [exact HF1 | intros x y [E _]; exact E]).
  assert (map fst (sv_arrays sv) = map fst arrs) as Hk2
    by (eapply Forall2_map_fst; [exact HF2 | intros x y [E _]; exact E]).
  assert (NoDup (map fst (sv_scalars sv))) as Hnd1.
  { rewrite Hk1, (proj1 (pick_scalars_spec cs' s)). apply NoDup_filter, Hndcs. }
  assert (NoDup (map fst (sv_arrays sv))) as Hnd2.
  { rewrite Hk2, (proj1 (pick_arrays_spec _ _ _ Hpa)). apply NoDup_filter, Hndca. }
  unfold sizes_of in Hsz.
  destruct (sum_scalar_sizes (sv_scalars sv)) as [z1| | |] eqn:Ez1; try discriminate. cbn [bind] in Hsz.
  destruct (sum_array_sizes (ar_base s4) (sv_arrays sv)) as [z2| | |] eqn:Ez2; try discriminate.
  cbn [bind] in Hsz. injection Hsz as <-.
  (* what is known about every saved array *)
  assert (forall y, In y (sv_arrays sv) ->
            fst (snd y) <> [] /\ In (fst y, fst (snd y)) (ar_dims s)
            /\ forall bb, ar_base s = Some bb -> array_buffer_size (Some bb) (fst y) (fst (snd y)) = Ok (zlen (snd (snd y))))
    as Hinfo.
  { intros [n [d b']] Hin. cbn [fst snd].
    destruct (Forall2_in_r _ _ _ _ HF2 Hin) as ([n0 [d0 b]] & Hin' & Hf & Hok). cbn [fst snd] in *. subst n0.
    destruct Hok as [Hdd Hbb]. cbn [fst snd] in *. subst d0.
    apply (proj2 (pick_arrays_spec _ _ _ Hpa)) in Hin' as (_ & Hd & Hb).
    destruct (Hbufs _ _ _ Hd Hb) as [Hne Hsize].
    assert (zlen b' = zlen b) as Hlen.
    { destruct (is_str_name n); [eapply buf_moved_len; exact Hbb | congruence]. }
    split; [exact Hne|]. split; [apply alookup_some_in, Hd|]. intros bb Hbase. rewrite Hlen. exact (Hsize bb Hbase). }
  assert (forall bb, ar_base s4 = Some bb -> ar_base s = Some bb) as Hbase4.
  { intros bb Hb. change (ar_base s4) with (if kb then ar_base s else None) in Hb. destruct kb; [exact Hb | discriminate]. }
  assert (forall n d b0, In (n, (d, b0)) (sv_arrays sv) ->
            forall b, ar_base s4 = Some b -> Forall (fun x => b <= x) d) as Hdims.
  { intros n d b0 Hin b Hb. destruct (Hinfo _ Hin) as (_ & Hd & _). cbn [fst snd] in Hd.
    exact (W4 _ _ _ Hd (Hbase4 _ Hb)). }
  pose proof (sum_array_sizes_nonneg _ _ _ Ez2 Hdims) as Hz2.
  assert (get_free s5 = st_cur (sv_store sv) - var_start s4) as Hfree
    by (unfold get_free, var_current, var_start; cbn; lia).
  destruct (restore_scalars_total (sv_scalars sv) s5 z1 z2 Ez1 Hz2 ltac:(lia) eq_refl Hnd1 (fun n _ => eq_refl))
    as (s5a & Ers & Hg5 & Ha5 & Hp5).
  unfold restore_all. rewrite Ers.
  unfold array_part in Hp5. injection Hp5 as P1 _ _ _ P5 _.
  assert (exists s6, restore_arrays (sv_arrays sv) s5a = Done s6) as (s6 & Er).
  { destruct (sv_arrays sv) as [|y l] eqn:Esv; [exists s5a; reflexivity|]. rewrite <- Esv in *.
    (* the first array has dimensions, so the sizes could only be added up with an OPTION BASE *)
    assert (exists bb, ar_base s4 = Some bb) as (bb & Hb4).
    { destruct (ar_base s4) as [bb|] eqn:Eb; [exists bb; reflexivity|]. exfalso.
      rewrite Esv in Ez2. destruct y as [n [d b]]. cbn [sum_array_sizes] in Ez2.
      destruct (Hinfo (n, (d, b))) as (Hne & _); [rewrite Esv; left; reflexivity|]. cbn [fst snd] in Hne.
      unfold array_size, array_buffer_size, flat_length in Ez2. destruct d; [contradiction | discriminate]. }
    assert (ar_base s5a = Some bb) as Hb5.
    { rewrite P5. change (ar_base s5) with (if kb then ar_base s else None).
      change (ar_base s4) with (if kb then ar_base s else None) in Hb4. exact Hb4. }
    eapply (restore_arrays_total (sv_arrays sv) s5a bb z2 Hb5); [| rewrite <- Hb4; exact Ez2 | lia | exact Ha5 | exact Hnd2 |].
    - apply Forall_forall. intros [n [d b]] Hin. destruct (Hinfo _ Hin) as (Hne & Hd & Hsize). cbn [fst snd] in *.
      unfold arr_ready. cbn [fst snd]. repeat split; [exact Hne | exact (W3 _ _ Hd) | exact (W4 _ _ _ Hd (Hbase4 _ Hb4)) |
        exact (Hsize _ (Hbase4 _ Hb4))].
    - intros n _. rewrite P1. reflexivity. }
  rewrite Er. eexists. reflexivity.
Qed.
