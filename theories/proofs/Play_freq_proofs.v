(* C42: the regenerated NOTE_FREQ table against 440 * 2^((i-33)/12).

   |f - 440*2^(k/12)| <= 2^-40 * f   <=>   (f*(1-2^-40)/440)^12 <= 2^k <= (f*(1+2^-40)/440)^12
   so each of the 84 entries is decided by ONE exact integer comparison (`freq_ok`, numbers of ~1100 bits, by
   vm_compute) and a general soundness lemma (`freq_ok_sound`) carries it to the real-number statement with
   Rpower.  This is the only file of C42 that mentions real numbers: the theorems here depend on the three
   axioms of Coq's standard real numbers (reported by Print Assumptions in props/C42.v) and on nothing else.
   (proofs/Play_freq_interval.v proves the same 84 inequalities with the `interval` tactic as a cross-check; it
   is not part of the closure of props/C42.v because `coqchk` on the Interval/Flocq/Coquelicot libraries takes
   longer than the thorough tier allows.) *)
From Coq Require Import ZArith List Reals Lia Lra Bool.
From PCB Require Import gen.Gen_play.
Import ListNotations.

(* ---------- the integer criterion (no real numbers, no axioms) ---------- *)
Open Scope Z_scope.

Definition freq_ok (i : nat) (p : Z * positive) : bool :=
  let n := fst p in
  let d := Zpos (snd p) in
  let A := (n * (2 ^ 40 - 1)) ^ 12 in
  let B := (d * 2 ^ 40 * 440) ^ 12 in
  let C := (n * (2 ^ 40 + 1)) ^ 12 in
  (0 <? n) &&
  (if (33 <=? i)%nat
   then let t := 2 ^ Z.of_nat (i - 33) in (A <=? B * t) && (B * t <=? C)
   else let t := 2 ^ Z.of_nat (33 - i) in (A * t <=? B) && (B <=? C * t)).

Fixpoint freq_ok_from (i : nat) (t : list (Z * positive)) : bool :=
  match t with
  | [] => true
  | p :: r => freq_ok i p && freq_ok_from (S i) r
  end.

(* the whole regenerated table satisfies the criterion, and has 84 entries *)
Lemma freq_table_ok : freq_ok_from 0 play_note_freq = true /\ length play_note_freq = 84%nat.
Proof. vm_compute. split; reflexivity. Qed.

Lemma freq_ok_from_nth t : forall i j d,
  freq_ok_from i t = true -> (j < length t)%nat -> freq_ok (i + j) (nth j t d) = true.
Proof.
  induction t as [|p r IH]; intros i j d H Hj; simpl in Hj; [lia|].
  simpl in H. apply andb_true_iff in H as [H1 H2].
  destruct j as [|j]; simpl.
  - rewrite Nat.add_0_r. exact H1.
  - rewrite <- plus_n_Sm. apply (IH (S i) j d H2). lia.
Qed.

(* ---------- soundness of the criterion in R ---------- *)
Open Scope R_scope.

Lemma pow_lt_strict x y n : 0 <= x < y -> x ^ S n < y ^ S n.
Proof.
  intros [H0 H1]. induction n as [|n IH].
  - simpl. lra.
  - change (x ^ S (S n)) with (x * x ^ S n). change (y ^ S (S n)) with (y * y ^ S n).
    apply Rmult_le_0_lt_compat; try assumption. apply pow_le. exact H0.
Qed.

Lemma pow12_le_inv x y : 0 <= x -> 0 <= y -> x ^ 12 <= y ^ 12 -> x <= y.
Proof.
  intros Hx Hy H. destruct (Rle_or_lt x y) as [L|L]; [exact L|].
  exfalso. pose proof (pow_lt_strict y x 11 (conj Hy L)) as Hs. lra.
Qed.

Definition semitones (q : R) : R := Rpower 2 (q / 12).

Lemma semitones_pos q : 0 < semitones q.
Proof. unfold semitones, Rpower. apply exp_pos. Qed.

Lemma semitones_pow12 q : semitones q ^ 12 = Rpower 2 q.
Proof.
  unfold semitones. rewrite <- Rpower_pow by (unfold Rpower; apply exp_pos).
  rewrite Rpower_mult. f_equal. replace (INR 12) with 12 by (simpl; lra). field.
Qed.

Lemma INR_33 : INR 33 = 33.
Proof. simpl. lra. Qed.

Lemma semitones_up (i m : nat) : i = (33 + m)%nat -> semitones (IZR (Z.of_nat i) - 33) ^ 12 = 2 ^ m.
Proof.
  intros ->. rewrite semitones_pow12, <- INR_IZR_INZ, plus_INR, INR_33.
  replace (33 + INR m - 33) with (INR m) by lra. apply Rpower_pow. lra.
Qed.

Lemma semitones_down (i m : nat) : (i + m)%nat = 33%nat -> semitones (IZR (Z.of_nat i) - 33) ^ 12 = / 2 ^ m.
Proof.
  intros H. rewrite semitones_pow12, <- INR_IZR_INZ.
  assert (E : INR i + INR m = 33) by (rewrite <- plus_INR, H; exact INR_33).
  replace (INR i - 33) with (- INR m) by lra.
  rewrite Rpower_Ropp, Rpower_pow by lra. reflexivity.
Qed.

(* from the two product inequalities to the relative error bound *)
Lemma bound_from_products N D r :
  0 < N -> 0 < D ->
  N * (2 ^ 40 - 1) <= D * 2 ^ 40 * 440 * r -> D * 2 ^ 40 * 440 * r <= N * (2 ^ 40 + 1) ->
  Rabs (N / D - 440 * r) <= / 2 ^ 40 * (N / D).
Proof.
  intros HN HD H1 H2. set (u := N / D).
  assert (EN : N = u * D) by (unfold u; field; lra).
  assert (K1 : u * (2 ^ 40 - 1) <= 2 ^ 40 * 440 * r).
  { apply Rmult_le_reg_l with D; [exact HD|]. rewrite EN in H1. lra. }
  assert (K2 : 2 ^ 40 * 440 * r <= u * (2 ^ 40 + 1)).
  { apply Rmult_le_reg_l with D; [exact HD|]. rewrite EN in H2. lra. }
  apply Rabs_le. lra.
Qed.

Definition ratioR (p : Z * positive) : R := IZR (fst p) / IZR (Zpos (snd p)).

Lemma IZR_pow12 z : IZR (z ^ 12) = IZR z ^ 12.
Proof. change 12%Z with (Z.of_nat 12). rewrite <- pow_IZR. reflexivity. Qed.

Lemma IZR_pow2 m : IZR (2 ^ Z.of_nat m) = 2 ^ m.
Proof. rewrite <- pow_IZR. reflexivity. Qed.

Lemma IZR_2_40 : IZR (2 ^ 40) = 2 ^ 40.
Proof. change 40%Z with (Z.of_nat 40). rewrite <- pow_IZR. reflexivity. Qed.

Lemma IZR_A n : IZR ((n * (2 ^ 40 - 1)) ^ 12) = (IZR n * (2 ^ 40 - 1)) ^ 12.
Proof. rewrite IZR_pow12, mult_IZR, minus_IZR, IZR_2_40. reflexivity. Qed.

Lemma IZR_B d : IZR ((d * 2 ^ 40 * 440) ^ 12) = (IZR d * 2 ^ 40 * 440) ^ 12.
Proof. rewrite IZR_pow12, !mult_IZR, IZR_2_40. reflexivity. Qed.

Lemma IZR_C n : IZR ((n * (2 ^ 40 + 1)) ^ 12) = (IZR n * (2 ^ 40 + 1)) ^ 12.
Proof. rewrite IZR_pow12, mult_IZR, plus_IZR, IZR_2_40. reflexivity. Qed.

Lemma freq_ok_sound (i : nat) (p : Z * positive) :
  freq_ok i p = true ->
  Rabs (ratioR p - 440 * Rpower 2 ((IZR (Z.of_nat i) - 33) / 12)) <= / 2 ^ 40 * ratioR p.
Proof.
  destruct p as [n d]. unfold freq_ok, ratioR. cbn [fst snd]. intros H.
  apply andb_true_iff in H as [Hn H]. apply Z.ltb_lt in Hn.
  set (N := IZR n). set (D := IZR (Z.pos d)).
  assert (HN : 0 < N) by (apply IZR_lt; exact Hn).
  assert (HD : 0 < D) by (apply IZR_lt; reflexivity).
  fold (semitones (IZR (Z.of_nat i) - 33)). set (r := semitones (IZR (Z.of_nat i) - 33)).
  assert (Hr : 0 < r) by apply semitones_pos.
  assert (Hone : 1 < 2 ^ 40) by (apply Rlt_pow_R1; [lra|lia]).
  assert (Ha : 0 <= N * (2 ^ 40 - 1)) by (apply Rmult_le_pos; lra).
  assert (Hc : 0 <= N * (2 ^ 40 + 1)) by (apply Rmult_le_pos; lra).
  assert (Hb : 0 <= D * 2 ^ 40 * 440 * r).
  { apply Rmult_le_pos; [|lra]. apply Rmult_le_pos; [|lra]. apply Rmult_le_pos; lra. }
  assert (T1 : 0 < 2 ^ (33 - i)) by (apply pow_lt; lra).
  apply bound_from_products; try assumption.
  - (* lower side *)
    apply pow12_le_inv; [exact Ha|exact Hb|].
    rewrite (Rpow_mult_distr _ r).
    destruct (33 <=? i)%nat eqn:E.
    + apply Nat.leb_le in E. apply andb_true_iff in H as [H1 _]. apply Z.leb_le in H1.
      apply IZR_le in H1. rewrite mult_IZR, IZR_A, IZR_B, IZR_pow2 in H1.
      unfold r. rewrite (semitones_up i (i - 33)) by (clear H1; lia). exact H1.
    + apply Nat.leb_gt in E. apply andb_true_iff in H as [H1 _]. apply Z.leb_le in H1.
      apply IZR_le in H1. rewrite mult_IZR, IZR_A, IZR_B, IZR_pow2 in H1.
      unfold r. rewrite (semitones_down i (33 - i)) by (clear H1; lia).
      apply Rmult_le_reg_r with (2 ^ (33 - i)); [exact T1|].
      rewrite Rmult_assoc, Rinv_l, Rmult_1_r by (apply Rgt_not_eq; exact T1). exact H1.
  - (* upper side *)
    apply pow12_le_inv; [exact Hb|exact Hc|].
    rewrite (Rpow_mult_distr _ r).
    destruct (33 <=? i)%nat eqn:E.
    + apply Nat.leb_le in E. apply andb_true_iff in H as [_ H2]. apply Z.leb_le in H2.
      apply IZR_le in H2. rewrite mult_IZR, IZR_C, IZR_B, IZR_pow2 in H2.
      unfold r. rewrite (semitones_up i (i - 33)) by (clear H2; lia). exact H2.
    + apply Nat.leb_gt in E. apply andb_true_iff in H as [_ H2]. apply Z.leb_le in H2.
      apply IZR_le in H2. rewrite mult_IZR, IZR_C, IZR_B, IZR_pow2 in H2.
      unfold r. rewrite (semitones_down i (33 - i)) by (clear H2; lia).
      apply Rmult_le_reg_r with (2 ^ (33 - i)); [exact T1|].
      rewrite Rmult_assoc, Rinv_l, Rmult_1_r by (apply Rgt_not_eq; exact T1). exact H2.
Qed.

(* ---------- the table ---------- *)
(* the exact binary64 value of NOTE_FREQ[i] *)
Definition note_freq (i : nat) : R := ratioR (nth i play_note_freq (0%Z, 1%positive)).

(* 12-tone equal temperament, A = 440 Hz at index 33 (octave 2, A) *)
Definition ideal_freq (i : nat) : R := 440 * Rpower 2 ((IZR (Z.of_nat i) - 33) / 12).

Theorem freq_table : forall i : nat, (i < 84)%nat ->
  Rabs (note_freq i - ideal_freq i) <= / 2 ^ 40 * note_freq i.
Proof.
  intros i Hi. destruct freq_table_ok as [Hok Hlen].
  unfold note_freq, ideal_freq. apply freq_ok_sound.
  apply (freq_ok_from_nth play_note_freq 0 i). exact Hok. rewrite Hlen. exact Hi.
Qed.

Theorem freq_A440 : note_freq 33 = 440.
Proof. unfold note_freq, ratioR. cbv [nth play_note_freq fst snd]. lra. Qed.

Lemma ideal_A440 : ideal_freq 33 = 440.
Proof.
  unfold ideal_freq. cbv [Z.of_nat Pos.of_succ_nat Pos.succ].
  replace ((33 - 33) / 12) with 0 by lra. rewrite Rpower_O by lra. lra.
Qed.

(* one semitone up multiplies the ideal frequency by 2^(1/12): the ratio structure of the scale *)
Lemma ideal_semitone i : ideal_freq (S i) = ideal_freq i * Rpower 2 (1 / 12).
Proof.
  unfold ideal_freq. rewrite Nat2Z.inj_succ, succ_IZR.
  replace ((IZR (Z.of_nat i) + 1 - 33) / 12) with ((IZR (Z.of_nat i) - 33) / 12 + 1 / 12) by lra.
  rewrite Rpower_plus. ring.
Qed.
