(* Decimal_todec.v - Float.to_decimal (gen/Gen_dec.v mbf_to_decimal_core): the two scaling loops
   terminate within their fuel, keep the mantissa normalised, and leave the exponent within two of the
   upper limit's; the final rounding to an integer. *)
From Coq Require Import ZArith List Bool Lia ZifyBool.
From PCB Require Import lib.Result lib.PyInt lib.Harness lib.MBFPrims gen.Gen_mbf gen.Gen_dec model.MBF
  model.Decimal proofs.MBF_base proofs.MBF_round proofs.MBF_convert proofs.Decimal_den.
Import ListNotations.
Open Scope Z_scope.
Ltac Zify.zify_post_hook ::= Z.to_euclidean_division_equations.

Definition den_exp (d : Z * Z * bool) : Z := fst (fst d).
Definition den_man (d : Z * Z * bool) : Z := snd (fst d).
Definition den_neg (d : Z * Z * bool) : bool := snd d.

(* the order used by the loops: lexicographic on (exp, man) *)
Lemma abs_gt_den_spec C le lm ln re rm rn :
  mbf_abs_gt_den C (le, lm, ln) (re, rm, rn) = (re <? le) || ((re =? le) && (rm <? lm)).
Proof.
  unfold mbf_abs_gt_den. destruct (Z.eqb_spec le re), (Z.gtb_spec le re), (Z.ltb_spec re le),
    (Z.eqb_spec re le), (Z.gtb_spec lm rm), (Z.ltb_spec rm lm); cbn; try reflexivity; lia.
Qed.

(* the final statements of to_decimal: shift to an integer with 8 fraction bits, round half up *)
Definition tail_num (C : fconst) (e m : Z) (neg : bool) : Z :=
  let sh := e - c_bias C in
  let M := if sh >? 0 then Z.shiftl m sh else Z.shiftr m (- sh) in
  let M' := if z2b (Z.land M 128) then M + 128 else M in
  if neg then - Z.shiftr M' 8 else Z.shiftr M' 8.

Section ToDec.
Variable C : fconst.
Hypothesis HC : fmt_ok C.
Hypothesis Hten : mbf_denormalise C (c_ten C) = (132, 320 * hb C, false).
Variables texp tman bexp bman : Z.
Hypothesis Htop : mbf_denormalise C (c_lim_top C) = (texp, tman, false).
Hypothesis Hbot : mbf_denormalise C (c_lim_bot C) = (bexp, bman, false).
Hypothesis Hlims : den_norm C tman /\ den_norm C bman /\ 1 <= bexp /\ bexp + 4 <= texp /\ texp <= 255.

Lemma loop103_S f buf lb lt tden bden den e10 :
  mbf_to_decimal_core_loop_103 (S f) C buf lb lt tden bden den e10 =
    if mbf_abs_gt_den C den tden
    then bind (mbf_div10_den C den) (fun den' => mbf_to_decimal_core_loop_103 f C buf lb lt tden bden den' (e10 + 1))
    else Ok (den, e10).
Proof. reflexivity. Qed.

Lemma loop104_S f buf lb lt tden bden den e10 :
  mbf_to_decimal_core_loop_104 (S f) C buf lb lt tden bden den e10 =
    if mbf_abs_gt_den C bden den
    then mbf_to_decimal_core_loop_104 f C buf lb lt tden bden (mbf_mul10_den C den) (e10 - 1)
    else Ok (den, e10).
Proof. reflexivity. Qed.

(* the dividing loop, with an invariant *)
Lemma loop103_inv (Inv : Z * Z * bool -> Z -> Prop) buf lb lt bden tm tn :
  (forall den e10, Inv den e10 -> mbf_abs_gt_den C den (texp, tm, tn) = true ->
     exists den', mbf_div10_den C den = Ok den' /\ Inv den' (e10 + 1) /\ den_exp den' <= den_exp den - 3) ->
  forall (k fuel : nat) den e10, (k < fuel)%nat -> Inv den e10 -> den_exp den <= texp - 1 + 3 * Z.of_nat k ->
  exists den' e10', mbf_to_decimal_core_loop_103 fuel C buf lb lt (texp, tm, tn) bden den e10 = Ok (den', e10')
    /\ Inv den' e10' /\ mbf_abs_gt_den C den' (texp, tm, tn) = false.
Proof.
  intros Hstep. induction k as [|k IH]; intros fuel den e10 Hf HI Hm.
  - destruct fuel as [|f]; [lia|]. rewrite loop103_S.
    destruct den as [[e m] n]. cbn [den_exp fst] in Hm.
    assert (Hgt : mbf_abs_gt_den C (e, m, n) (texp, tm, tn) = false).
    { rewrite abs_gt_den_spec. destruct (Z.ltb_spec texp e), (Z.eqb_spec texp e); cbn; try reflexivity; lia. }
    rewrite Hgt. exists (e, m, n), e10. auto.
  - destruct fuel as [|f]; [lia|]. rewrite loop103_S.
    destruct (mbf_abs_gt_den C den (texp, tm, tn)) eqn:Hgt.
    + destruct (Hstep den e10 HI Hgt) as (den' & Hd & HI' & He). rewrite Hd. cbn [bind].
      apply IH; [lia | exact HI' | lia].
    + exists den, e10. auto.
Qed.

(* the multiplying loop, with an invariant *)
Lemma loop104_inv (Inv : Z * Z * bool -> Z -> Prop) buf lb lt tden bm bn :
  (forall den e10, Inv den e10 -> mbf_abs_gt_den C (bexp, bm, bn) den = true ->
     Inv (mbf_mul10_den C den) (e10 - 1) /\ den_exp den + 3 <= den_exp (mbf_mul10_den C den)) ->
  forall (k fuel : nat) den e10, (k < fuel)%nat -> Inv den e10 -> bexp + 1 - den_exp den <= 3 * Z.of_nat k ->
  exists den' e10', mbf_to_decimal_core_loop_104 fuel C buf lb lt tden (bexp, bm, bn) den e10 = Ok (den', e10')
    /\ Inv den' e10' /\ mbf_abs_gt_den C (bexp, bm, bn) den' = false.
Proof.
  intros Hstep. induction k as [|k IH]; intros fuel den e10 Hf HI Hm.
  - destruct fuel as [|f]; [lia|]. rewrite loop104_S.
    destruct den as [[e m] n]. cbn [den_exp fst] in Hm.
    assert (Hgt : mbf_abs_gt_den C (bexp, bm, bn) (e, m, n) = false).
    { rewrite abs_gt_den_spec. destruct (Z.ltb_spec e bexp), (Z.eqb_spec e bexp); cbn; try reflexivity; lia. }
    rewrite Hgt. exists (e, m, n), e10. auto.
  - destruct fuel as [|f]; [lia|]. rewrite loop104_S.
    destruct (mbf_abs_gt_den C (bexp, bm, bn) den) eqn:Hgt.
    + destruct (Hstep den e10 HI Hgt) as (HI' & He). apply IH; [lia | exact HI' | lia].
    + exists den, e10. auto.
Qed.

(* ------------------------------------------------------------------------------------------------ *)
(* to_decimal: totality and the shape of the result *)

Definition inv1 (neg : bool) (e0 : Z) (d : Z * Z * bool) (x : Z) : Prop :=
  den_norm C (den_man d) /\ den_neg d = neg /\ 1 <= den_exp d /\
  0 <= x /\ 3 * x + den_exp d <= e0 /\ (x = 0 \/ texp - 4 <= den_exp d).
Definition inv2 (neg : bool) (x1 e2 : Z) (d : Z * Z * bool) (x : Z) : Prop :=
  den_norm C (den_man d) /\ den_neg d = neg /\ 1 <= den_exp d <= texp + 1 /\
  x <= x1 /\ 3 * (x1 - x) <= den_exp d - e2.

Lemma inv1_step neg e0 den e10 : inv1 neg e0 den e10 -> mbf_abs_gt_den C den (texp, tman, false) = true ->
  exists den', mbf_div10_den C den = Ok den' /\ inv1 neg e0 den' (e10 + 1) /\ den_exp den' <= den_exp den - 3.
Proof.
  destruct den as [[e m] n]. unfold inv1. cbn [den_exp den_man den_neg fst snd].
  intros (Hn & Hs & He & Hx & Hsum & Hlow) Hgt. rewrite abs_gt_den_spec in Hgt.
  destruct (div10_spec C HC Hten e m n Hn) as (e' & m' & Hd & Hn' & Hcase).
  exists (e', m', n). cbn [den_exp den_man den_neg fst snd].
  split; [exact Hd|]. destruct Hlims as (_ & _ & Hb1 & Hb2 & _).
  assert (texp <= e) by (destruct (Z.ltb_spec texp e), (Z.eqb_spec texp e); cbn in Hgt; try discriminate; lia).
  unfold den_norm in *. repeat split; try assumption; lia.
Qed.

Lemma inv2_step neg x1 e2 den e10 : inv2 neg x1 e2 den e10 -> mbf_abs_gt_den C (bexp, bman, false) den = true ->
  inv2 neg x1 e2 (mbf_mul10_den C den) (e10 - 1) /\ den_exp den + 3 <= den_exp (mbf_mul10_den C den).
Proof.
  destruct den as [[e m] n]. unfold inv2. cbn [den_exp den_man den_neg fst snd].
  intros (Hn & Hs & He & Hx & Hsum) Hgt. rewrite abs_gt_den_spec in Hgt.
  destruct (mul10_spec C HC e m n ltac:(lia) Hn) as (e' & m' & Hd & Hn' & Hcase).
  rewrite Hd. cbn [den_exp den_man den_neg fst snd].
  destruct Hlims as (_ & _ & Hb1 & Hb2 & _).
  assert (e <= bexp) by (destruct (Z.ltb_spec e bexp), (Z.eqb_spec e bexp); cbn in Hgt; try discriminate; lia).
  unfold den_norm in *. repeat split; try assumption; lia.
Qed.

(* shape of to_decimal's result: tail_num of a normalised den whose exponent is at most texp + 2;
   the decimal exponent (= the numbers of passes through the two loops) is bounded by the exponent range *)
Theorem to_decimal_shape b : buf_ok C b -> f_zero b = false ->
  exists e m e10, f_to_decimal C b = Ok (tail_num C e m (f_neg C b), e10)
    /\ den_norm C m /\ 1 <= e <= texp + 2 /\ - texp <= 3 * e10 <= 259 - texp.
Proof.
  intros Hb Hz. destruct Hlims as (Htn & Hbn & Hb1 & Hb2 & Ht255).
  unfold f_to_decimal, mbf_to_decimal_core. rewrite Htop, Hbot, (denormalise_spec C b HC Hb).
  pose proof (f_man_bound C b HC) as Hfm. pose proof (f_exp_bound C b HC Hb) as Hfe.
  unfold f_zero in Hz. apply Z.eqb_neq in Hz.
  assert (HI1 : inv1 (f_neg C b) (f_exp b) (f_exp b, 256 * f_man C b, f_neg C b) 0).
  { unfold inv1, den_norm, hb. cbn [den_exp den_man den_neg fst snd].
    pose proof (mbits_ge C HC). rewrite (pow2_pred (mbits C)) in Hfm by lia.
    split; [lia | split; [reflexivity | lia]]. }
  destruct (loop103_inv (inv1 (f_neg C b) (f_exp b)) b (c_lim_bot C) (c_lim_top C) (bexp, bman, false) tman false
              (inv1_step (f_neg C b) (f_exp b)) 90 1000 _ 0 ltac:(lia) HI1) as (d1 & x1 & Hl1 & HI1' & Hgt1).
  { cbn [den_exp fst]. lia. }
  rewrite Hl1. cbn [bind]. cbv beta iota.
  destruct d1 as [[e1 m1] n1]. destruct HI1' as (Hn1 & Hs1 & He1 & Hx1 & Hsum1 & Hlow1).
  cbn [den_exp den_man den_neg fst snd] in *.
  rewrite abs_gt_den_spec in Hgt1.
  assert (He1t : e1 <= texp) by (destruct (Z.ltb_spec texp e1), (Z.eqb_spec texp e1); cbn in Hgt1; try discriminate; lia).
  destruct (apply_carry_spec C HC e1 m1 n1 Hn1) as (e2 & m2 & Hc2 & Hn2 & Hm2 & Hcase2).
  rewrite Hc2.
  assert (HI2 : inv2 (f_neg C b) x1 e2 (e2, m2, n1) x1).
  { unfold inv2. cbn [den_exp den_man den_neg fst snd]. split; [exact Hn2 | split; [exact Hs1 | lia]]. }
  destruct (loop104_inv (inv2 (f_neg C b) x1 e2) b (c_lim_bot C) (c_lim_top C) (texp, tman, false) bman false
              (inv2_step (f_neg C b) x1 e2) 90 1000 _ x1 ltac:(lia) HI2) as (d3 & x3 & Hl3 & HI3 & Hgt3).
  { cbn [den_exp fst]. lia. }
  rewrite Hl3. cbn [bind]. cbv beta iota.
  destruct d3 as [[e3 m3] n3]. destruct HI3 as (Hn3 & Hs3 & He3 & Hx3 & Hsum3). cbn [den_exp den_man den_neg fst snd] in *.
  destruct (apply_carry_spec C HC e3 m3 n3 Hn3) as (e4 & m4 & Hc4 & Hn4 & Hm4 & Hcase4).
  rewrite Hc4. cbv beta iota.
  exists e4, m4, x3. split.
  - unfold tail_num. cbv zeta. subst n3.
    destruct (e4 - c_bias C >? 0); cbn [bind]; cbv beta iota;
      destruct (z2b (Z.land _ 128)); cbn [bind]; cbv beta iota; reflexivity.
  - split; [exact Hn4 | lia].
Qed.

(* ------------------------------------------------------------------------------------------------ *)
(* the final integer is small *)

Lemma tail_num_bound e m neg S : den_norm C m -> 0 <= S -> e - c_bias C <= S ->
  Z.abs (tail_num C e m neg) <= 2 * hb C * 2 ^ S.
Proof.
  unfold den_norm. intros Hm HS He. pose proof (hb_pos C HC) as Hp.
  assert (HP : 1 <= 2 ^ S) by (pose proof (pow2_pos S HS); lia).
  unfold tail_num. cbv zeta. set (sh := e - c_bias C) in *.
  set (M := if sh >? 0 then Z.shiftl m sh else Z.shiftr m (- sh)).
  assert (HM : 0 <= M <= 512 * hb C * 2 ^ S - 1).
  { unfold M. destruct (Z.gtb_spec sh 0) as [Hs|Hs].
    - rewrite Z.shiftl_mul_pow2 by lia.
      assert (Hsh : 1 <= 2 ^ sh <= 2 ^ S) by (split; [pose proof (pow2_pos sh ltac:(lia)); lia | apply pow2_le; lia]).
      assert (m * 2 ^ sh <= (512 * hb C - 1) * 2 ^ sh) by (apply Z.mul_le_mono_nonneg_r; lia).
      assert ((512 * hb C) * 2 ^ sh <= (512 * hb C) * 2 ^ S) by (apply Z.mul_le_mono_nonneg_l; lia).
      assert (0 <= m * 2 ^ sh) by (apply Z.mul_nonneg_nonneg; lia).
      lia.
    - rewrite Z.shiftr_div_pow2 by lia. assert (Hq : 0 < 2 ^ (- sh)) by (apply pow2_pos; lia).
      set (p := 2 ^ (- sh)) in *.
      assert (0 <= m / p <= m).
      { split; [apply Z.div_pos; lia | apply Z.div_le_upper_bound; [lia |]].
        rewrite <- (Z.mul_1_l m) at 1. apply Z.mul_le_mono_nonneg_r; lia. }
      assert (512 * hb C * 1 <= 512 * hb C * 2 ^ S) by (apply Z.mul_le_mono_nonneg_l; lia).
      lia. }
  set (M' := if z2b (Z.land M 128) then M + 128 else M).
  assert (HM' : 0 <= M' <= M + 128) by (unfold M'; destruct (z2b (Z.land M 128)); lia).
  rewrite Z.shiftr_div_pow2 by lia. change (2 ^ 8) with 256.
  assert (0 <= M' / 256 <= 2 * hb C * 2 ^ S).
  { split; [apply Z.div_pos; lia|].
    assert (M' / 256 < 2 * hb C * 2 ^ S + 1) by (apply Z.div_lt_upper_bound; lia). lia. }
  destruct neg; lia.
Qed.

(* mantissa and exponent used by to_str: fewer than `digits` digits after the carry renormalisation *)
Theorem decimal_bound b S : buf_ok C b -> f_zero b = false ->
  0 <= S -> texp + 2 - c_bias C <= S -> 2 * hb C * 2 ^ S <= 10 * 10 ^ c_digits C - 10 ->
  exists num e10, f_decimal C b = Ok (num, e10) /\ Z.abs num < 10 ^ c_digits C /\
                  - texp <= 3 * e10 <= 262 - texp.
Proof.
  intros Hb Hz HS HtS Hbig.
  destruct (to_decimal_shape b Hb Hz) as (e & m & e10 & Hd & Hn & He & Hx).
  pose proof (tail_num_bound e m (f_neg C b) S Hn HS ltac:(lia)) as Hbound.
  unfold f_decimal. rewrite Hd. cbn [bind fst snd]. unfold mbf_to_str_carry.
  set (num := tail_num C e m (f_neg C b)) in *. set (D := 10 ^ c_digits C) in *.
  destruct (Z.geb_spec (Z.abs num) D) as [Hc|Hc].
  - exists (num / 10), (e10 + 1). split; [reflexivity|]. lia.
  - exists num, e10. split; [reflexivity|]. lia.
Qed.

(* ------------------------------------------------------------------------------------------------ *)
(* integer values: every step is exact *)

Lemma den_order e1 M1 n1 e2 M2 n2 : den_norm C M1 -> den_norm C M2 -> 0 <= e1 -> 0 <= e2 ->
  mbf_abs_gt_den C (e1, M1, n1) (e2, M2, n2) = (M2 * 2 ^ e2 <? M1 * 2 ^ e1).
Proof.
  unfold den_norm. intros H1 H2 He1 He2. pose proof (hb_pos C HC) as Hp. rewrite abs_gt_den_spec.
  assert (Hp1 : 0 < 2 ^ e1) by (apply pow2_pos; lia). assert (Hp2 : 0 < 2 ^ e2) by (apply pow2_pos; lia).
  destruct (Z.lt_trichotomy e2 e1) as [Hlt|[Heq|Hgt]].
  - assert (Hq : 2 * 2 ^ e2 <= 2 ^ e1) by (rewrite <- pow2_S by lia; apply pow2_le; lia).
    assert (M2 * 2 ^ e2 < M1 * 2 ^ e1) by nia.
    destruct (Z.ltb_spec e2 e1), (Z.ltb_spec (M2 * 2 ^ e2) (M1 * 2 ^ e1)); cbn; try reflexivity; lia.
  - subst e2. destruct (Z.ltb_spec e1 e1); [lia|]. rewrite Z.eqb_refl. cbn [orb andb].
    destruct (Z.ltb_spec M2 M1), (Z.ltb_spec (M2 * 2 ^ e1) (M1 * 2 ^ e1)); try reflexivity; nia.
  - assert (Hq : 2 * 2 ^ e1 <= 2 ^ e2) by (rewrite <- pow2_S by lia; apply pow2_le; lia).
    assert (M1 * 2 ^ e1 < M2 * 2 ^ e2) by nia.
    destruct (Z.ltb_spec e2 e1), (Z.eqb_spec e2 e1), (Z.ltb_spec (M2 * 2 ^ e2) (M1 * 2 ^ e1)); cbn; try reflexivity; lia.
Qed.

(* (e, M) is the normalised den of the positive integer V *)
Definition den_int (V : Z) (d : Z * Z * bool) : Prop :=
  den_norm C (den_man d) /\ 1 <= den_exp d <= c_bias C /\ den_man d * 2 ^ den_exp d = 256 * V * 2 ^ c_bias C.

Lemma bias_pos : 144 <= c_bias C.
Proof. rewrite (ok_bias C HC). pose proof (mbits_ge C HC). lia. Qed.

Lemma den_int_man V e M n : den_int V (e, M, n) -> M = 256 * V * 2 ^ (c_bias C - e).
Proof.
  unfold den_int. cbn [den_exp den_man fst snd]. intros (Hn & He & Hv).
  assert (Hp : 0 < 2 ^ e) by (apply pow2_pos; lia).
  replace (c_bias C) with ((c_bias C - e) + e) in Hv at 1 by lia. rewrite pow2_split in Hv by lia.
  apply (Z.mul_reg_r _ _ (2 ^ e)); lia.
Qed.

(* den_int only needs the value equation when V < 2^mbits *)
Lemma den_int_intro V e M : den_norm C M -> 1 <= e -> 0 < V < 2 * hb C ->
  M * 2 ^ e = 256 * V * 2 ^ c_bias C -> forall n, den_int V (e, M, n).
Proof.
  unfold den_norm, den_int. intros Hn He HV Hv n. cbn [den_exp den_man fst snd].
  split; [exact Hn|]. split; [|exact Hv]. split; [exact He|].
  destruct (Z.le_gt_cases e (c_bias C)) as [|Hgt]; [assumption|exfalso].
  pose proof bias_pos. pose proof (hb_pos C HC).
  assert (Hq : 2 * 2 ^ c_bias C <= 2 ^ e) by (rewrite <- pow2_S by lia; apply pow2_le; lia).
  assert (0 < 2 ^ c_bias C) by (apply pow2_pos; lia). nia.
Qed.

Lemma mul10_int V e M n : den_int V (e, M, n) -> 0 < V -> 10 * V < 2 * hb C ->
  exists e' M', mbf_mul10_den C (e, M, n) = (e', M', n) /\ den_int (10 * V) (e', M', n) /\ e + 3 <= e'.
Proof.
  intros Hi HV0 HV. pose proof (den_int_man V e M n Hi) as HM.
  destruct Hi as (Hn & He & Hv). cbn [den_exp den_man fst snd] in *.
  pose proof (hb_pos C HC) as Hp. destruct (hb_even C HC) as (Hh2 & Hh4 & Hh).
  assert (Hpe : 0 < 2 ^ e) by (apply pow2_pos; lia).
  assert (Hpk : 0 < 2 ^ (c_bias C - e)) by (apply pow2_pos; lia).
  assert (H8 : M mod 8 = 0).
  { rewrite HM. replace (256 * V * 2 ^ (c_bias C - e)) with (32 * V * 2 ^ (c_bias C - e) * 8) by lia. apply Z.mod_mul. lia. }
  rewrite (mul10_exact C HC e M n ltac:(lia) Hn H8). unfold den_norm in Hn.
  assert (HM8 : M = 8 * (M / 8)) by lia.
  destruct (Z.ltb_spec (5 * (M / 8)) (256 * hb C)) as [Hq|Hq].
  - exists (e + 3), (10 * (M / 8)). split; [reflexivity|]. split; [|lia].
    apply den_int_intro; [unfold den_norm; lia | lia | lia |].
    replace (e + 3) with (3 + e) by lia. rewrite pow2_split by lia. change (2 ^ 3) with 8.
    replace (10 * (M / 8) * (8 * 2 ^ e)) with (10 * (8 * (M / 8)) * 2 ^ e) by lia. rewrite <- HM8. lia.
  - exists (e + 4), (5 * (M / 8)). split; [reflexivity|]. split; [|lia].
    apply den_int_intro; [unfold den_norm; lia | lia | lia |].
    replace (e + 4) with (4 + e) by lia. rewrite pow2_split by lia. change (2 ^ 4) with 16.
    replace (5 * (M / 8) * (16 * 2 ^ e)) with (10 * (8 * (M / 8)) * 2 ^ e) by lia. rewrite <- HM8. lia.
Qed.

(* on the den of an integer the final rounding returns the integer *)
Lemma tail_num_int V e M n : den_int V (e, M, n) -> 0 <= V -> tail_num C e M n = if n then - V else V.
Proof.
  intros Hi HV. pose proof (den_int_man V e M n Hi) as HM. destruct Hi as (Hn & He & Hv).
  cbn [den_exp den_man fst snd] in *. unfold tail_num. cbv zeta.
  destruct (Z.gtb_spec (e - c_bias C) 0) as [|_]; [lia|].
  replace (- (e - c_bias C)) with (c_bias C - e) by lia.
  rewrite (Z.shiftr_div_pow2 M) by lia.
  assert (Hpk : 0 < 2 ^ (c_bias C - e)) by (apply pow2_pos; lia).
  rewrite HM, Z.div_mul by lia.
  assert (Hl : Z.land (256 * V) 128 = 0).
  { change 128 with (2 ^ 7). rewrite land_pow2_testbit by lia. replace (256 * V) with (V * 2 ^ 8) by lia.
    rewrite Z.mul_pow2_bits_low by lia. reflexivity. }
  rewrite Hl. change (z2b 0) with false. cbv iota.
  rewrite !Z.shiftr_div_pow2 by lia. change (2 ^ 8) with 256.
  replace (256 * V / 256) with V by lia. reflexivity.
Qed.

(* to_decimal as the composition of its parts *)
Lemma to_decimal_unfold b :
  f_to_decimal C b =
    bind (mbf_to_decimal_core_loop_103 1000 C b (c_lim_bot C) (c_lim_top C) (texp, tman, false) (bexp, bman, false)
            (mbf_denormalise C b) 0) (fun r1 =>
    bind (mbf_to_decimal_core_loop_104 1000 C b (c_lim_bot C) (c_lim_top C) (texp, tman, false) (bexp, bman, false)
            (mbf_apply_carry_den C (fst r1)) (snd r1)) (fun r3 =>
    let d4 := mbf_apply_carry_den C (fst r3) in
    Ok (tail_num C (den_exp d4) (den_man d4) (den_neg d4), snd r3))).
Proof.
  unfold f_to_decimal, mbf_to_decimal_core. rewrite Htop, Hbot.
  destruct (mbf_to_decimal_core_loop_103 _ _ _ _ _ _ _ _ _) as [[d1 x1]| | |]; cbn [bind fst snd]; try reflexivity.
  destruct (mbf_to_decimal_core_loop_104 _ _ _ _ _ _ _ _ _) as [[d3 x3]| | |]; cbn [bind fst snd]; try reflexivity.
  cbv zeta. destruct (mbf_apply_carry_den C d3) as [[e m] n]. cbn [den_exp den_man den_neg fst snd].
  unfold tail_num. cbv zeta.
  destruct (e - c_bias C >? 0); cbn [bind]; cbv beta iota;
    destruct (z2b (Z.land _ 128)); cbn [bind]; cbv beta iota; reflexivity.
Qed.

Hypothesis Hdig : 1 <= c_digits C.
Hypothesis HD2 : 10 ^ c_digits C <= 2 * hb C.
Hypothesis Htv : forall V, 0 < V < 10 ^ c_digits C -> 256 * V * 2 ^ c_bias C <= tman * 2 ^ texp.
Hypothesis Hbv : forall V, 0 < V -> (256 * V * 2 ^ c_bias C < bman * 2 ^ bexp <-> V < 10 ^ (c_digits C - 1)).

Definition inv_int (V0 : Z) (neg : bool) (d : Z * Z * bool) (e10 : Z) : Prop :=
  exists j, 0 <= j /\ e10 = - j /\ den_int (V0 * 10 ^ j) d /\ den_neg d = neg /\ V0 * 10 ^ j < 10 ^ c_digits C.

Lemma pow10_S j : 0 <= j -> 10 ^ (j + 1) = 10 * 10 ^ j.
Proof. intros. rewrite Z.pow_add_r by lia. lia. Qed.

Lemma inv_int_step V0 neg den e10 : 0 < V0 -> inv_int V0 neg den e10 ->
  mbf_abs_gt_den C (bexp, bman, false) den = true ->
  inv_int V0 neg (mbf_mul10_den C den) (e10 - 1) /\ den_exp den + 3 <= den_exp (mbf_mul10_den C den).
Proof.
  intros HV0 (j & Hj & He10 & Hi & Hneg & Hlt) Hgt. destruct den as [[e M] n].
  destruct Hlims as (_ & Hbn & Hb1 & _).
  pose proof Hi as (Hn & He & Hv). cbn [den_exp den_man den_neg fst snd] in *.
  rewrite den_order in Hgt by (try assumption; lia). apply Z.ltb_lt in Hgt. rewrite Hv in Hgt.
  assert (Hpj : 0 < 10 ^ j) by (apply Z.pow_pos_nonneg; lia).
  assert (HVj : 0 < V0 * 10 ^ j) by (apply Z.mul_pos_pos; lia).
  apply (Hbv _ HVj) in Hgt.
  assert (Hd10 : 10 ^ c_digits C = 10 * 10 ^ (c_digits C - 1)).
  { replace (c_digits C) with ((c_digits C - 1) + 1) at 1 by lia. apply pow10_S. lia. }
  destruct (mul10_int (V0 * 10 ^ j) e M n Hi HVj ltac:(lia)) as (e' & M' & Hm & Hi' & He').
  rewrite Hm. cbn [den_exp fst]. split; [|exact He'].
  exists (j + 1). rewrite pow10_S by lia.
  replace (V0 * (10 * 10 ^ j)) with (10 * (V0 * 10 ^ j)) by lia.
  split; [lia|]. split; [lia|]. split; [exact Hi'|]. split; [exact Hneg | lia].
Qed.

Theorem to_decimal_int b n : buf_ok C b -> f_sval C b = n * 2 ^ c_bias C -> n <> 0 ->
  Z.abs n < 10 ^ c_digits C ->
  exists j, 0 <= j /\ f_to_decimal C b = Ok (n * 10 ^ j, - j) /\
            10 ^ (c_digits C - 1) <= Z.abs n * 10 ^ j < 10 ^ c_digits C.
Proof.
  intros Hb Hval Hn0 Hnd. destruct Hlims as (Htn & Hbn & Hb1 & Hb2 & Ht255).
  pose proof bias_pos as Hbias. assert (Hpb : 0 < 2 ^ c_bias C) by (apply pow2_pos; lia).
  pose proof (hb_pos C HC) as Hhb.
  pose proof (f_man_bound C b HC) as Hfm. pose proof (f_exp_bound C b HC Hb) as Hfe.
  pose proof (mbits_ge C HC) as Hmb. rewrite (pow2_pred (mbits C)) in Hfm by lia. fold (hb C) in Hfm.
  (* sign, mantissa, exponent of the integer *)
  assert (Hz : f_zero b = false).
  { destruct (f_zero b) eqn:E; [|reflexivity]. unfold f_sval in Hval. rewrite E in Hval. nia. }
  unfold f_sval in Hval. rewrite Hz in Hval. unfold f_zero in Hz. apply Z.eqb_neq in Hz.
  assert (Hpe : 0 < 2 ^ f_exp b) by (apply pow2_pos; lia).
  assert (Hsign : f_neg C b = (n <? 0) /\ f_man C b * 2 ^ f_exp b = Z.abs n * 2 ^ c_bias C).
  { destruct (f_neg C b); destruct (Z.ltb_spec n 0); split; try reflexivity; try nia. }
  destruct Hsign as [Hneg Habs]. set (V0 := Z.abs n) in *. assert (HV0 : 0 < V0) by (unfold V0; lia).
  assert (Hi0 : den_int V0 (f_exp b, 256 * f_man C b, f_neg C b)).
  { apply den_int_intro; [unfold den_norm; lia | lia | lia | lia]. }
  rewrite to_decimal_unfold, (denormalise_spec C b HC Hb).
  (* the dividing loop does not run *)
  change 1000%nat with (S 999). rewrite loop103_S.
  rewrite den_order by (try assumption; try (unfold den_norm; lia); lia).
  destruct Hi0 as (Hn0' & He0 & Hv0). cbn [den_exp den_man fst snd] in *.
  pose proof (Htv V0 ltac:(lia)) as Htop'.
  destruct (Z.ltb_spec (tman * 2 ^ texp) (256 * f_man C b * 2 ^ f_exp b)) as [Hbad|_]; [lia|].
  cbn [bind fst snd].
  rewrite apply_carry_id by (try assumption; rewrite Z.mul_comm; apply Z.mod_mul; lia).
  (* the multiplying loop *)
  assert (HI : inv_int V0 (f_neg C b) (f_exp b, 256 * f_man C b, f_neg C b) 0).
  { exists 0. change (10 ^ 0) with 1. rewrite Z.mul_1_r.
    split; [lia|]. split; [reflexivity|]. split; [split; [exact Hn0' | split; [exact He0 | exact Hv0]]|].
    split; [reflexivity | lia]. }
  destruct (loop104_inv (inv_int V0 (f_neg C b)) b (c_lim_bot C) (c_lim_top C) (texp, tman, false) bman false
              (fun den e10 => inv_int_step V0 (f_neg C b) den e10 HV0) 90 (S 999) _ 0 ltac:(lia) HI)
    as (d3 & x3 & Hl3 & (j & Hj & Hx3 & Hi3 & Hneg3 & Hlt3) & Hgt3).
  { cbn [den_exp fst]. lia. }
  rewrite Hl3. cbn [bind fst snd]. cbv zeta.
  destruct d3 as [[e3 M3] n3]. pose proof (den_int_man _ _ _ _ Hi3) as HM3.
  pose proof Hi3 as (Hn3 & He3 & Hv3). cbn [den_exp den_man den_neg fst snd] in *.
  assert (Hpj : 0 < 10 ^ j) by (apply Z.pow_pos_nonneg; lia).
  assert (HVj : 0 < V0 * 10 ^ j) by (apply Z.mul_pos_pos; lia).
  rewrite den_order in Hgt3 by (try assumption; lia). apply Z.ltb_ge in Hgt3. rewrite Hv3 in Hgt3.
  assert (Hge : 10 ^ (c_digits C - 1) <= V0 * 10 ^ j).
  { destruct (Z.le_gt_cases (10 ^ (c_digits C - 1)) (V0 * 10 ^ j)) as [|Hlt]; [assumption|].
    apply (Hbv _ HVj) in Hlt. lia. }
  rewrite (apply_carry_id C HC e3 M3 n3 Hn3).
  2: { rewrite HM3. replace (256 * (V0 * 10 ^ j) * 2 ^ (c_bias C - e3)) with (V0 * 10 ^ j * 2 ^ (c_bias C - e3) * 256) by lia.
       apply Z.mod_mul. lia. }
  cbn [den_exp den_man den_neg fst snd].
  rewrite (tail_num_int (V0 * 10 ^ j) e3 M3 n3 Hi3 ltac:(lia)).
  exists j. split; [exact Hj|]. split; [|lia].
  subst x3 n3. rewrite Hneg. f_equal. f_equal. unfold V0. destruct (Z.ltb_spec n 0); lia.
Qed.

End ToDec.
