(* C40: load_session rejects every single-byte alteration of every file it accepts *)
From Coq Require Import ZArith List Bool Lia.
From PCB Require Import lib.Result lib.PyInt gen.Gen_state model.Crc32 model.StateFile proofs.Crc32_proofs.
Import ListNotations.
Open Scope Z_scope.

(* ---------- the regenerated checks, as a proposition ---------- *)
Definition header_matches (c h0 h1 h2 h3 h4 h5 : Z) : Prop :=
  c = h0 /\ h1 = state_HEADER_format_version /\ h2 = state_HEADER_python_major
  /\ h3 = state_HEADER_python_minor /\ h4 = state_HEADER_pcbasic_major /\ h5 = state_HEADER_pcbasic_minor.

Ltac split_eqb :=
  repeat match goal with
         | |- context [Z.eqb ?a ?b] => destruct (Z.eqb_spec a b)
         end.

Lemma load_check_ok_iff c h0 h1 h2 h3 h4 h5 :
  state_load_check c h0 h1 h2 h3 h4 h5 = Ok tt <-> header_matches c h0 h1 h2 h3 h4 h5.
Proof.
  unfold state_load_check, header_matches. split_eqb; simpl; split; intros H;
    try discriminate; try reflexivity; try (repeat split; congruence);
    try (exfalso; destruct H as (?&?&?&?&?&?); congruence).
Qed.

Lemma load_check_cases c h0 h1 h2 h3 h4 h5 :
  state_load_check c h0 h1 h2 h3 h4 h5 = Ok tt \/
  state_load_check c h0 h1 h2 h3 h4 h5 = Host host_ValueError.
Proof. unfold state_load_check. split_eqb; simpl; auto. Qed.

(* ---------- list plumbing ---------- *)
Lemma firstn_set_nth_ge n i b l : (n <= i)%nat -> firstn n (set_nth i b l) = firstn n l.
Proof.
  revert n i; induction l as [|x r IH]; intros [|n] [|i] H; simpl; try reflexivity; try lia.
  rewrite IH by lia. reflexivity.
Qed.

Lemma firstn_set_nth_lt n i b l : (i < n)%nat -> firstn n (set_nth i b l) = set_nth i b (firstn n l).
Proof.
  revert n i; induction l as [|x r IH]; intros [|n] [|i] H; simpl; try reflexivity; try lia.
  rewrite IH by lia. reflexivity.
Qed.

Lemma skipn_set_nth_ge n i b l : (n <= i)%nat -> skipn n (set_nth i b l) = set_nth (i - n) b (skipn n l).
Proof.
  revert n i; induction l as [|x r IH]; intros [|n] [|i] H; simpl; try reflexivity; try lia.
  - destruct (i - n)%nat; reflexivity.
  - apply IH. lia.
Qed.

Lemma skipn_set_nth_lt n i b l : (i < n)%nat -> skipn n (set_nth i b l) = skipn n l.
Proof.
  revert n i; induction l as [|x r IH]; intros [|n] [|i] H; simpl; try reflexivity; try lia.
  apply IH. lia.
Qed.

Lemma nth_firstn_lt {A} n i (l : list A) d : (i < n)%nat -> nth i (firstn n l) d = nth i l d.
Proof.
  revert n i; induction l as [|x r IH]; intros [|n] [|i] H; simpl; try reflexivity; try lia.
  apply IH. lia.
Qed.

Lemma nth_skipn_add {A} n i (l : list A) d : nth i (skipn n l) d = nth (n + i) l d.
Proof.
  revert n; induction l as [|x r IH]; intros [|n]; simpl; try reflexivity.
  - destruct i; reflexivity.
  - apply IH.
Qed.

Lemma bytes_ok_firstn n l : bytes_ok l -> bytes_ok (firstn n l).
Proof.
  unfold bytes_ok. rewrite !Forall_forall. intros H x Hx. apply H.
  rewrite <- (firstn_skipn n l). apply in_or_app. left. exact Hx.
Qed.

Lemma bytes_ok_skipn n l : bytes_ok l -> bytes_ok (skipn n l).
Proof.
  unfold bytes_ok. rewrite !Forall_forall. intros H x Hx. apply H.
  rewrite <- (firstn_skipn n l). apply in_or_app. right. exact Hx.
Qed.

(* little-endian decoding separates byte strings that differ in one position *)
Lemma le_decode_set_nth_neq l : forall j b', bytes_ok l -> byte_ok b' -> (j < length l)%nat ->
  nth j l 0 <> b' -> le_decode (set_nth j b' l) <> le_decode l.
Proof.
  induction l as [|x r IH]; intros j b' Hl Hb' Hj Hne; [simpl in Hj; lia|].
  inversion Hl as [|x0 r0 Hx Hr]; subst. unfold byte_ok in *.
  destruct j as [|j]; cbn [set_nth le_decode nth] in *.
  - lia.
  - specialize (IH j b' Hr Hb' ltac:(simpl in Hj; lia) Hne). lia.
Qed.

(* ---------- header fields under a single-byte change ---------- *)
Lemma header_len_24 : header_len = 24%nat.
Proof. reflexivity. Qed.

Lemma field_changed k i b' f : bytes_ok f -> byte_ok b' -> (24 <= length f)%nat ->
  (4 * k <= i < 4 * k + 4)%nat -> (4 * k + 4 <= 24)%nat -> nth i f 0 <> b' ->
  field k (file_header (set_nth i b' f)) <> field k (file_header f).
Proof.
  intros Hf Hb' Hlen Hi Hk Hne. unfold field, file_header. rewrite header_len_24.
  rewrite firstn_set_nth_lt by lia.
  rewrite skipn_set_nth_ge by lia.
  rewrite firstn_set_nth_lt by lia.
  apply le_decode_set_nth_neq.
  - apply bytes_ok_firstn, bytes_ok_skipn, bytes_ok_firstn, Hf.
  - exact Hb'.
  - rewrite firstn_length, skipn_length, firstn_length. lia.
  - rewrite nth_firstn_lt by lia. rewrite nth_skipn_add. rewrite nth_firstn_lt by lia.
    replace (4 * k + (i - 4 * k))%nat with i by lia. exact Hne.
Qed.

Lemma header_unchanged i b' f : (24 <= i)%nat -> file_header (set_nth i b' f) = file_header f.
Proof. intros Hi. unfold file_header. rewrite header_len_24. apply firstn_set_nth_ge, Hi. Qed.

Lemma blob_unchanged i b' f : (i < 24)%nat -> file_blob (set_nth i b' f) = file_blob f.
Proof. intros Hi. unfold file_blob. rewrite header_len_24. apply skipn_set_nth_lt, Hi. Qed.

Lemma blob_changed i b' f : (24 <= i)%nat ->
  file_blob (set_nth i b' f) = set_nth (i - 24) b' (file_blob f).
Proof. intros Hi. unfold file_blob. rewrite header_len_24. apply skipn_set_nth_ge, Hi. Qed.

Lemma load_check_ok_inv f : load_check f = Ok tt ->
  (24 <= length f)%nat /\
  header_matches (crc32 (file_blob f)) (field 0 (file_header f)) (field 1 (file_header f))
    (field 2 (file_header f)) (field 3 (file_header f)) (field 4 (file_header f)) (field 5 (file_header f)).
Proof.
  unfold load_check. destruct (Nat.ltb_spec (length (file_header f)) header_len) as [Hs|Hs]; [discriminate|].
  intros H. apply load_check_ok_iff in H. split; [|exact H].
  unfold file_header in Hs. rewrite firstn_length, header_len_24 in Hs. lia.
Qed.

Lemma load_check_not_ok_rejected f : (24 <= length f)%nat -> load_check f <> Ok tt ->
  load_check f = Host host_ValueError.
Proof.
  unfold load_check. intros Hlen.
  destruct (Nat.ltb_spec (length (file_header f)) header_len) as [Hs|Hs]; [reflexivity|].
  intros H. match goal with |- ?t = _ => destruct (load_check_cases
    (crc32 (file_blob f)) (field 0 (file_header f)) (field 1 (file_header f)) (field 2 (file_header f))
    (field 3 (file_header f)) (field 4 (file_header f)) (field 5 (file_header f))) as [E|E] end;
    [contradiction | exact E].
Qed.

(* ---------- main: every byte position of an accepted file is checked ---------- *)
Theorem any_byte_rejected f i b' : bytes_ok f -> load_check f = Ok tt ->
  (i < length f)%nat -> byte_ok b' -> nth i f 0 <> b' ->
  load_check (set_nth i b' f) = Host host_ValueError.
Proof.
  intros Hf Hok Hi Hb' Hne.
  destruct (load_check_ok_inv f Hok) as [Hlen (M0 & M1 & M2 & M3 & M4 & M5)].
  apply load_check_not_ok_rejected; [rewrite set_nth_length; exact Hlen|].
  intros Hok'. destruct (load_check_ok_inv _ Hok') as [_ (N0 & N1 & N2 & N3 & N4 & N5)].
  destruct (Nat.lt_ge_cases i 24) as [Hlt|Hge].
  - (* header byte: the blob and hence the computed checksum are unchanged *)
    rewrite blob_unchanged in N0 by exact Hlt.
    assert (Hk : (4 * 0 <= i < 4 * 0 + 4 \/ 4 * 1 <= i < 4 * 1 + 4 \/ 4 * 2 <= i < 4 * 2 + 4 \/
                  4 * 3 <= i < 4 * 3 + 4 \/ 4 * 4 <= i < 4 * 4 + 4 \/ 4 * 5 <= i < 4 * 5 + 4)%nat) by lia.
    destruct Hk as [Hk|[Hk|[Hk|[Hk|[Hk|Hk]]]]].
    + apply (field_changed 0 i b' f Hf Hb' Hlen Hk ltac:(lia) Hne). congruence.
    + apply (field_changed 1 i b' f Hf Hb' Hlen Hk ltac:(lia) Hne). congruence.
    + apply (field_changed 2 i b' f Hf Hb' Hlen Hk ltac:(lia) Hne). congruence.
    + apply (field_changed 3 i b' f Hf Hb' Hlen Hk ltac:(lia) Hne). congruence.
    + apply (field_changed 4 i b' f Hf Hb' Hlen Hk ltac:(lia) Hne). congruence.
    + apply (field_changed 5 i b' f Hf Hb' Hlen Hk ltac:(lia) Hne). congruence.
  - (* payload byte: the header is unchanged, the CRC-32 of the payload is not *)
    rewrite header_unchanged in N0 by exact Hge. rewrite blob_changed in N0 by exact Hge.
    assert (Hcrc : crc32 (set_nth (i - 24) b' (file_blob f)) = crc32 (file_blob f)) by congruence.
    revert Hcrc. apply crc32_detects_byte.
    + apply bytes_ok_skipn, Hf.
    + exact Hb'.
    + unfold file_blob. rewrite skipn_length, header_len_24. lia.
    + unfold file_blob. rewrite nth_skipn_add, header_len_24.
      replace (24 + (i - 24))%nat with i by lia. exact Hne.
Qed.

(* ---------- save_session writes files that load_session accepts ---------- *)
Definition u32 (v : Z) : Prop := 0 <= v < 4294967296.

Lemma field_flat_map vs : forall k rest, Forall u32 vs -> (k < length vs)%nat ->
  field k (flat_map (le_encode 4) vs ++ rest) = nth k vs 0.
Proof.
  induction vs as [|v vs IH]; intros k rest Hvs Hk; [simpl in Hk; lia|].
  inversion Hvs as [|v0 vs0 Hv Hvs']; subst.
  cbn [flat_map]. rewrite <- app_assoc. unfold field.
  destruct k as [|k].
  - change (4 * 0)%nat with 0%nat. cbn [skipn]. rewrite firstn_app, le_encode_length, Nat.sub_diag, firstn_O.
    rewrite app_nil_r, firstn_all2 by (rewrite le_encode_length; lia).
    apply le_decode_encode. exact Hv.
  - replace (4 * S k)%nat with (length (le_encode 4 v) + 4 * k)%nat by (rewrite le_encode_length; lia).
    rewrite skipn_app, Nat.add_comm, Nat.add_sub.
    rewrite skipn_all2 by lia. cbn [app nth].
    apply (IH k rest Hvs'). simpl in Hk. lia.
Qed.

Lemma header_values_u32 : Forall u32 state_header_values.
Proof.
  apply Forall_forall. intros v Hv.
  assert (H : forallb (fun v => (0 <=? v) && (v <? 4294967296)) state_header_values = true) by reflexivity.
  rewrite forallb_forall in H. specialize (H v Hv). apply andb_true_iff in H as [H1 H2].
  apply Z.leb_le in H1. apply Z.ltb_lt in H2. split; assumption.
Qed.

Lemma save_header_length blob : length (save_header blob) = 24%nat.
Proof. unfold save_header. rewrite app_length, le_encode_length. reflexivity. Qed.

Lemma file_header_save blob : file_header (save_file blob) = save_header blob.
Proof.
  unfold file_header, save_file. rewrite header_len_24, firstn_app, save_header_length, Nat.sub_diag.
  rewrite firstn_O, app_nil_r. apply firstn_all2. rewrite save_header_length. lia.
Qed.

Lemma file_blob_save blob : file_blob (save_file blob) = blob.
Proof.
  unfold file_blob, save_file. rewrite header_len_24, skipn_app, save_header_length, Nat.sub_diag.
  rewrite skipn_O, skipn_all2 by (rewrite save_header_length; lia). reflexivity.
Qed.

Lemma save_header_field k blob : (k < 6)%nat ->
  field k (save_header blob) = nth k (crc32 blob :: state_header_values) 0.
Proof.
  intros Hk. change (save_header blob) with (flat_map (le_encode 4) (crc32 blob :: state_header_values)).
  rewrite <- (app_nil_r (flat_map _ _)). apply field_flat_map.
  - constructor; [exact (crc32_range blob) | exact header_values_u32].
  - exact Hk.
Qed.

Theorem saved_file_accepted blob : load_check (save_file blob) = Ok tt.
Proof.
  unfold load_check. rewrite file_header_save, file_blob_save, save_header_length.
  change (Nat.ltb 24 header_len) with false. cbv iota.
  rewrite !save_header_field by lia. apply load_check_ok_iff.
  repeat split.
Qed.

Lemma save_file_bytes blob : bytes_ok blob -> bytes_ok (save_file blob).
Proof.
  intros Hb. unfold save_file, save_header, bytes_ok. rewrite !Forall_app. repeat split.
  - apply le_encode_bytes.
  - apply Forall_forall. intros x Hx. apply in_flat_map in Hx as (v & _ & Hx).
    pose proof (le_encode_bytes 4 v) as H. unfold bytes_ok in H. rewrite Forall_forall in H. apply H, Hx.
  - exact Hb.
Qed.

Section Session.
  Variable obj : Type.
  Variable decompress : list Z -> res (list Z).
  Variable unpickle : list Z -> res obj.
  Variable compress : list Z -> list Z.
  Variable pickle : obj -> list Z.

  (* whatever decompress / unpickle do: a file that fails the checks is rejected with ValueError *)
  Lemma load_session_rejects f :
    load_check f = Host host_ValueError -> load_session obj decompress unpickle f = Host host_ValueError.
  Proof. intros H. unfold load_session. rewrite H. reflexivity. Qed.

  Theorem session_any_byte_rejected f i b' : bytes_ok f -> load_check f = Ok tt ->
    (i < length f)%nat -> byte_ok b' -> nth i f 0 <> b' ->
    load_session obj decompress unpickle (set_nth i b' f) = Host host_ValueError.
  Proof. intros. apply load_session_rejects, any_byte_rejected; assumption. Qed.

  Theorem saved_session_any_byte_rejected o i b' : bytes_ok (compress (pickle o)) ->
    (i < length (save_session obj compress pickle o))%nat -> byte_ok b' ->
    nth i (save_session obj compress pickle o) 0 <> b' ->
    load_session obj decompress unpickle (set_nth i b' (save_session obj compress pickle o))
    = Host host_ValueError.
  Proof.
    intros Hb Hi Hb' Hne. apply session_any_byte_rejected; try assumption.
    - apply save_file_bytes, Hb.
    - apply saved_file_accepted.
  Qed.

  (* round trip, given that zlib and pickle invert each other on the object (runtime behaviour, not modelled) *)
  Hypothesis zlib_roundtrip : forall x, decompress (compress x) = Ok x.
  Hypothesis pickle_roundtrip : forall o, unpickle (pickle o) = Ok o.

  Theorem save_load_roundtrip o :
    load_session obj decompress unpickle (save_session obj compress pickle o) = Ok o.
  Proof.
    unfold load_session, save_session. rewrite saved_file_accepted. cbn [bind].
    rewrite file_blob_save, zlib_roundtrip. cbn [bind]. apply pickle_roundtrip.
  Qed.
End Session.

(* ---------- any alteration of the header (any number of bytes, any values) ---------- *)
Lemma le_decode_inj l1 : forall l2, length l1 = length l2 -> bytes_ok l1 -> bytes_ok l2 ->
  le_decode l1 = le_decode l2 -> l1 = l2.
Proof.
  induction l1 as [|a l1 IH]; intros [|b l2] Hlen H1 H2 E; try discriminate; [reflexivity|].
  inversion H1 as [|a0 r0 Ha Hr1]; subst. inversion H2 as [|b0 r1 Hb Hr2]; subst.
  unfold byte_ok in Ha, Hb. cbn [le_decode] in E. simpl in Hlen.
  assert (Hab : a = b) by lia. assert (Ed : le_decode l1 = le_decode l2) by lia.
  subst b. f_equal. apply IH; try assumption. lia.
Qed.

Lemma skipn_skipn' {A} x : forall y (l : list A), skipn x (skipn y l) = skipn (x + y) l.
Proof.
  intros y; revert x; induction y as [|y IH]; intros x l.
  - rewrite Nat.add_0_r. reflexivity.
  - destruct l as [|a l]; [rewrite !skipn_nil; reflexivity|].
    replace (x + S y)%nat with (S (x + y)) by lia. cbn [skipn]. apply IH.
Qed.

Lemma chunks_eq n : forall h h' : list Z, length h = (4 * n)%nat -> length h' = (4 * n)%nat ->
  (forall k, (k < n)%nat -> firstn 4 (skipn (4 * k) h) = firstn 4 (skipn (4 * k) h')) -> h = h'.
Proof.
  induction n as [|n IH]; intros h h' Hl Hl' Hc.
  - destruct h, h'; simpl in *; try lia. reflexivity.
  - rewrite <- (firstn_skipn 4 h), <- (firstn_skipn 4 h'). f_equal.
    + exact (Hc O ltac:(lia)).
    + apply IH.
      * rewrite skipn_length. lia.
      * rewrite skipn_length. lia.
      * intros k Hk. rewrite !skipn_skipn'.
        replace (4 * k + 4)%nat with (4 * S k)%nat by lia. apply Hc. lia.
Qed.

Lemma field_eq_chunk k h h' : bytes_ok h -> bytes_ok h' ->
  (4 * k + 4 <= length h)%nat -> (4 * k + 4 <= length h')%nat ->
  field k h = field k h' -> firstn 4 (skipn (4 * k) h) = firstn 4 (skipn (4 * k) h').
Proof.
  intros Hb Hb' Hl Hl' E. unfold field in E. apply le_decode_inj; try exact E.
  - rewrite !firstn_length, !skipn_length. lia.
  - apply bytes_ok_firstn, bytes_ok_skipn, Hb.
  - apply bytes_ok_firstn, bytes_ok_skipn, Hb'.
Qed.

Lemma header_matches_same_header c f f' : bytes_ok f -> bytes_ok f' ->
  (24 <= length f)%nat -> (24 <= length f')%nat ->
  header_matches c (field 0 (file_header f)) (field 1 (file_header f)) (field 2 (file_header f))
    (field 3 (file_header f)) (field 4 (file_header f)) (field 5 (file_header f)) ->
  header_matches c (field 0 (file_header f')) (field 1 (file_header f')) (field 2 (file_header f'))
    (field 3 (file_header f')) (field 4 (file_header f')) (field 5 (file_header f')) ->
  file_header f = file_header f'.
Proof.
  intros Hb Hb' Hl Hl' (M0 & M1 & M2 & M3 & M4 & M5) (N0 & N1 & N2 & N3 & N4 & N5).
  assert (L : length (file_header f) = (4 * 6)%nat)
    by (unfold file_header; rewrite firstn_length, header_len_24; lia).
  assert (L' : length (file_header f') = (4 * 6)%nat)
    by (unfold file_header; rewrite firstn_length, header_len_24; lia).
  assert (B : bytes_ok (file_header f)) by (apply bytes_ok_firstn, Hb).
  assert (B' : bytes_ok (file_header f')) by (apply bytes_ok_firstn, Hb').
  apply (chunks_eq 6 _ _ L L'). intros k Hk.
  apply field_eq_chunk; try assumption; try lia.
  assert (Hk6 : (k = 0 \/ k = 1 \/ k = 2 \/ k = 3 \/ k = 4 \/ k = 5)%nat) by lia.
  destruct Hk6 as [->|[->|[->|[->|[->| ->]]]]]; congruence.
Qed.

(* a file that differs from an accepted file only inside the 24 header bytes - in any number of bytes, by any
   values - is rejected *)
Theorem header_tamper_rejected f f' : bytes_ok f -> bytes_ok f' -> load_check f = Ok tt ->
  length f' = length f -> file_blob f' = file_blob f -> f' <> f ->
  load_check f' = Host host_ValueError.
Proof.
  intros Hb Hb' Hok Hlen Hblob Hne.
  destruct (load_check_ok_inv f Hok) as [Hl M].
  apply load_check_not_ok_rejected; [lia|].
  intros Hok'. destruct (load_check_ok_inv f' Hok') as [Hl' N].
  rewrite Hblob in N.
  pose proof (header_matches_same_header _ f f' Hb Hb' Hl Hl' M N) as Hh.
  apply Hne. unfold file_header, file_blob in *.
  rewrite <- (firstn_skipn header_len f'), <- (firstn_skipn header_len f). congruence.
Qed.
