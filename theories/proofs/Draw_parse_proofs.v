(* C33: the macro-language reader reads back what the printer of the concrete syntax writes
   (every spacing / case / sign / leading-zero / =var; / omitted-count variant of Draw.ccmd). *)
From Coq Require Import ZArith List Bool Lia ZifyBool.
From PCB Require Import lib.Result lib.PyInt lib.Harness gen.Gen_draw model.Draw.
Import ListNotations.
Open Scope Z_scope.

Arguments parse_number : simpl never.
Arguments parse_magnitude : simpl never.
Arguments parse_string : simpl never.
Arguments parse_variable : simpl never.
Arguments parse_number_or_semicolon : simpl never.
Arguments read_name : simpl never.
Arguments require_semicolon : simpl never.

(* ------------------------------------------------------------------------------------------------ *)
(** * Character classes (from the regenerated tables) *)

Lemma is_blank_spec c : is_blank c = (c =? 32).
Proof. unfold is_blank, memb, ml_blanks. cbn [existsb]. apply orb_false_r. Qed.

Lemma is_digit_range c : is_digit c = true -> 48 <= c <= 57.
Proof. unfold is_digit, memb, ml_digits. cbn [existsb]. lia. Qed.

Lemma is_letter_range c : is_letter c = true -> 65 <= c <= 90 \/ 97 <= c <= 122.
Proof. unfold is_letter, memb, ml_letters. cbn [existsb]. lia. Qed.

Lemma is_sigil_cases c : is_sigil c = true -> c = 35 \/ c = 33 \/ c = 37 \/ c = 36.
Proof. unfold is_sigil, memb, ml_sigils. cbn [existsb]. lia. Qed.

Lemma is_name_char_cases c : is_name_char c = true ->
  65 <= c <= 90 \/ 97 <= c <= 122 \/ 48 <= c <= 57 \/ c = 46.
Proof. unfold is_name_char, memb, ml_name_chars. cbn [existsb]. lia. Qed.

Lemma sigil_not_name_char c : is_sigil c = true -> is_name_char c = false.
Proof.
  intros H. destruct (is_sigil_cases c H) as [->|[->|[->| ->]]]; reflexivity.
Qed.

Lemma digit_not_blank c : is_digit c = true -> is_blank c = false.
Proof. intros H. apply is_digit_range in H. rewrite is_blank_spec. lia. Qed.

Lemma letter_not_blank c : is_letter c = true -> is_blank c = false.
Proof. intros H. apply is_letter_range in H. rewrite is_blank_spec. lia. Qed.

Lemma letter_not_digit c : is_letter c = true -> is_digit c = false.
Proof.
  intros H. apply is_letter_range in H. destruct (is_digit c) eqn:E; [|reflexivity].
  apply is_digit_range in E. lia.
Qed.

(* ------------------------------------------------------------------------------------------------ *)
(** * Blanks *)

Lemma skip_blank_blanks n s : skip_blank (blanks n ++ s) = skip_blank s.
Proof. induction n as [|n IH]; [reflexivity|]. cbn [blanks repeat app skip_blank]. exact IH. Qed.

Lemma skip_blank_nb c r : is_blank c = false -> skip_blank (c :: r) = c :: r.
Proof. intros H. cbn [skip_blank]. rewrite H. reflexivity. Qed.

Lemma skip_blank_head s c r : skip_blank s = c :: r -> is_blank c = false.
Proof.
  induction s as [|a s IH]; cbn [skip_blank]; [discriminate|].
  destruct (is_blank a) eqn:E; [exact IH|]. intros H. inversion H; subst. exact E.
Qed.

Lemma skip_blank_idem s : skip_blank (skip_blank s) = skip_blank s.
Proof.
  destruct (skip_blank s) as [|c r] eqn:E; [reflexivity|].
  apply skip_blank_nb. eapply skip_blank_head. exact E.
Qed.

(* what may follow a command: nothing, or (after blanks) a command letter or a semicolon *)
Definition starts (rest : list Z) : Prop :=
  match skip_blank rest with
  | [] => True
  | c :: _ => is_letter c = true \/ c = 59
  end.

(* what may follow a literal: no further digit *)
Definition stops (rest : list Z) : Prop :=
  match skip_blank rest with
  | [] => True
  | c :: _ => is_digit c = false
  end.

Lemma starts_stops rest : starts rest -> stops rest.
Proof.
  unfold starts, stops. destruct (skip_blank rest) as [|c r]; [auto|].
  intros [H| ->]; [apply letter_not_digit; exact H | reflexivity].
Qed.

Lemma starts_skip rest rest' : skip_blank rest' = skip_blank rest -> starts rest -> starts rest'.
Proof. unfold starts. intros ->. auto. Qed.

(* ------------------------------------------------------------------------------------------------ *)
(** * Literals *)

Lemma lit_blanks n acc s : lit acc (blanks n ++ s) = lit acc s.
Proof. induction n as [|n IH]; [reflexivity|]. cbn [blanks repeat app lit]. exact IH. Qed.

Lemma lit_stops rest : forall acc, stops rest -> lit acc rest = (acc, skip_blank rest).
Proof.
  induction rest as [|a rest IH]; intros acc H; [reflexivity|].
  unfold stops in H. cbn [lit skip_blank] in *.
  destruct (is_blank a) eqn:E; [apply IH; exact H|]. rewrite H. reflexivity.
Qed.

Definition dec_step (a : Z) (d : Z * nat) : Z := 10 * a + (fst d - 48).

Lemma lit_digits ds : forallb (fun d => is_digit (fst d)) ds = true ->
  forall acc rest, lit acc (digits_bytes ds ++ rest) = lit (fold_left dec_step ds acc) rest.
Proof.
  induction ds as [|[c g] ds IH]; intros H acc rest; [reflexivity|].
  cbn [forallb fst] in H. apply andb_true_iff in H as [Hc H].
  cbn [digits_bytes app lit fold_left]. rewrite (digit_not_blank c Hc), Hc.
  rewrite <- app_assoc, lit_blanks. rewrite IH by exact H. reflexivity.
Qed.

Lemma dec_value_fold ds : dec_value ds = fold_left dec_step ds 0.
Proof. reflexivity. Qed.

(* ------------------------------------------------------------------------------------------------ *)
(** * Names and variables *)

Lemma take_name_app base c tail :
  forallb is_name_char base = true -> is_name_char c = false ->
  take_name (base ++ c :: tail) = (base, c :: tail).
Proof.
  intros Hb Hc. induction base as [|a base IH]; cbn [app take_name].
  - rewrite Hc. reflexivity.
  - cbn [forallb] in Hb. apply andb_true_iff in Hb as [Ha Hb]. rewrite Ha, IH by exact Hb. reflexivity.
Qed.

Lemma vname_ok_inv nm : vname_ok nm = true ->
  exists c r, v_base nm = c :: r /\ is_letter c = true /\ forallb is_name_char (c :: r) = true
              /\ (length (c :: r) <= 40)%nat
              /\ match v_sigil nm with Some g => is_sigil g = true | None => True end.
Proof.
  unfold vname_ok. destruct (v_base nm) as [|c r]; [discriminate|].
  intros H. apply andb_true_iff in H as [H Hs]. apply andb_true_iff in H as [H Hl].
  apply andb_true_iff in H as [Hc Hn]. exists c, r. repeat split; auto.
  - apply Nat.leb_le. exact Hl.
  - destruct (v_sigil nm); auto.
Qed.

(* the text after a name in our grammar: blanks, then a semicolon *)
Lemma read_name_vname b1 nm b2 rest : vname_ok nm = true ->
  read_name (blanks b1 ++ vname_bytes nm ++ blanks b2 ++ 59 :: rest)
  = Some (vname_key nm, blanks b2 ++ 59 :: rest).
Proof.
  intros Hok. destruct (vname_ok_inv nm Hok) as (c & r & Hb & Hc & Hn & Hl & Hs).
  assert (Htail : exists t tl, blanks b2 ++ 59 :: rest = t :: tl /\ is_name_char t = false /\ is_sigil t = false).
  { destruct b2 as [|b2]; cbn [blanks repeat app]; eexists; eexists; split; try reflexivity; split; reflexivity. }
  destruct Htail as (t & tl & Et & Ht1 & Ht2). rewrite Et.
  unfold read_name, vname_key, vname_bytes. rewrite skip_blank_blanks, Hb, <- app_assoc.
  destruct (v_sigil nm) as [g|]; cbn [app].
  - rewrite (skip_blank_nb c _ (letter_not_blank c Hc)), Hc.
    change (c :: r ++ g :: t :: tl) with ((c :: r) ++ g :: t :: tl).
    rewrite (take_name_app (c :: r) g (t :: tl) Hn (sigil_not_name_char g Hs)).
    rewrite firstn_all2 by exact Hl. rewrite Hs. reflexivity.
  - rewrite (skip_blank_nb c _ (letter_not_blank c Hc)), Hc.
    change (c :: r ++ t :: tl) with ((c :: r) ++ t :: tl).
    rewrite (take_name_app (c :: r) t tl Hn Ht1).
    rewrite firstn_all2 by exact Hl. rewrite Ht2, app_nil_r. reflexivity.
Qed.

Lemma parse_variable_vname e b1 nm b2 rest : vname_ok nm = true ->
  parse_variable e (blanks b1 ++ vname_bytes nm ++ blanks b2 ++ 59 :: rest)
  = POk (vname_key nm, var_value e (vname_key nm)) (59 :: rest).
Proof.
  intros Hok. unfold parse_variable. rewrite read_name_vname by exact Hok.
  rewrite skip_blank_blanks. rewrite skip_blank_nb by reflexivity. reflexivity.
Qed.

Lemma require_semicolon_59 rest : require_semicolon (59 :: rest) = Some rest.
Proof. reflexivity. Qed.

(* the first character of  blanks ++ name ++ ...  is above 8 (not a VARPTR$ reference) *)
Lemma name_head_gt8 b1 nm tail : vname_ok nm = true ->
  exists c3 r3, blanks b1 ++ vname_bytes nm ++ tail = c3 :: r3 /\ (c3 >? 8) = true.
Proof.
  intros Hok. destruct (vname_ok_inv nm Hok) as (c & r & Hb & Hc & _).
  destruct b1 as [|b1]; cbn [blanks repeat app].
  - unfold vname_bytes. rewrite Hb. cbn [app]. eexists; eexists; split; [reflexivity|].
    apply is_letter_range in Hc. lia.
  - eexists; eexists; split; reflexivity.
Qed.

Lemma parse_string_vname e b1 nm b2 rest str :
  vname_ok nm = true -> var_value e (vname_key nm) = VStr str ->
  parse_string e (blanks b1 ++ vname_bytes nm ++ blanks b2 ++ 59 :: rest) = POk (vname_key nm, str) rest.
Proof.
  intros Hn Hv. unfold parse_string. rewrite skip_blank_blanks.
  destruct (name_head_gt8 O nm (blanks b2 ++ 59 :: rest) Hn) as (c3 & r3 & E3 & G3).
  cbn [blanks repeat app] in E3.
  assert (Hb3 : is_blank c3 = false).
  { destruct (vname_ok_inv nm Hn) as (c & r & Hb & Hc & _). unfold vname_bytes in E3. rewrite Hb in E3.
    rewrite <- app_assoc in E3. cbn [app] in E3. inversion E3; subst. apply letter_not_blank. exact Hc. }
  rewrite E3, (skip_blank_nb c3 r3 Hb3). cbv beta iota. rewrite G3, <- E3.
  change (vname_bytes nm ++ blanks b2 ++ 59 :: rest) with (blanks 0 ++ vname_bytes nm ++ blanks b2 ++ 59 :: rest).
  rewrite parse_variable_vname by exact Hn. rewrite require_semicolon_59, Hv. reflexivity.
Qed.

(* ------------------------------------------------------------------------------------------------ *)
(** * Numbers *)

Lemma parse_magnitude_lit e dflt ds rest :
  ds <> [] -> forallb (fun d => is_digit (fst d)) ds = true -> stops rest ->
  parse_magnitude e dflt (digits_bytes ds ++ rest) = POk (dec_value ds) (skip_blank rest).
Proof.
  intros Hne Hd Hst. pose proof (lit_digits ds Hd 0 rest) as Hl.
  destruct ds as [|[c g] ds']; [congruence|]. clear Hne.
  cbn [forallb fst] in Hd. apply andb_true_iff in Hd as [Hc _].
  unfold parse_magnitude. cbn [digits_bytes app] in *.
  assert (E61 : (c =? 61) = false) by (apply is_digit_range in Hc; lia).
  rewrite E61, Hc, Hl, (lit_stops rest _ Hst). reflexivity.
Qed.

Lemma parse_magnitude_var e dflt b1 nm b2 rest v :
  vname_ok nm = true -> var_value e (vname_key nm) = VNum v ->
  parse_magnitude e dflt (61 :: blanks b1 ++ vname_bytes nm ++ blanks b2 ++ 59 :: rest) = POk v rest.
Proof.
  intros Hok Hv. unfold parse_magnitude. cbn [Z.eqb Pos.eqb].
  destruct (name_head_gt8 b1 nm (blanks b2 ++ 59 :: rest) Hok) as (c3 & r3 & E3 & G3).
  rewrite E3, G3, <- E3. rewrite parse_variable_vname by exact Hok. rewrite Hv, require_semicolon_59.
  reflexivity.
Qed.

Definition num_rest_ok (n : numc) (rest : list Z) : Prop :=
  match n with NLit _ _ _ => stops rest | NVar _ _ _ _ _ => True end.

Lemma num_ok_lit e pre sg ds : num_ok e (NLit pre sg ds) = true ->
  ds <> [] /\ forallb (fun d => is_digit (fst d)) ds = true.
Proof.
  cbn [num_ok]. intros H. apply andb_true_iff in H as [H1 H2]. split; [|exact H2].
  destruct ds; [discriminate|congruence].
Qed.

Lemma num_ok_var e pre sg b1 nm b2 : num_ok e (NVar pre sg b1 nm b2) = true ->
  vname_ok nm = true /\ exists v, var_value e (vname_key nm) = VNum v.
Proof.
  cbn [num_ok]. intros H. apply andb_true_iff in H as [H1 H2]. split; [exact H1|].
  destruct (var_value e (vname_key nm)) as [v|s|d c]; [exists v; reflexivity|discriminate|discriminate].
Qed.

(* the magnitude part of a written number *)
Definition mag_bytes (n : numc) : list Z :=
  match n with
  | NLit _ _ ds => digits_bytes ds
  | NVar _ _ b1 nm b2 => [61] ++ blanks b1 ++ vname_bytes nm ++ blanks b2 ++ [59]
  end.
Definition mag_value (e : env) (n : numc) : Z :=
  match n with
  | NLit _ _ ds => dec_value ds
  | NVar _ _ _ nm _ => match var_value e (vname_key nm) with VNum v => v | _ => 0 end
  end.
Definition num_pre (n : numc) : nat := match n with NLit pre _ _ => pre | NVar pre _ _ _ _ => pre end.

Lemma num_bytes_split n : num_bytes n = blanks (num_pre n) ++ sign_bytes (num_sign n) ++ mag_bytes n.
Proof. destruct n; reflexivity. Qed.

Lemma num_value_split e n : num_value e n = sign_apply (num_sign n) (mag_value e n).
Proof. destruct n; reflexivity. Qed.

Lemma parse_magnitude_mag e dflt n rest : num_ok e n = true -> num_rest_ok n rest ->
  exists rest', parse_magnitude e dflt (mag_bytes n ++ rest) = POk (mag_value e n) rest'
                /\ skip_blank rest' = skip_blank rest.
Proof.
  intros Hok Hr. destruct n as [pre sg ds | pre sg b1 nm b2]; cbn [mag_bytes mag_value].
  - destruct (num_ok_lit _ _ _ _ Hok) as [Hne Hd]. cbn [num_rest_ok] in Hr.
    exists (skip_blank rest). split; [apply parse_magnitude_lit; assumption | apply skip_blank_idem].
  - destruct (num_ok_var _ _ _ _ _ _ Hok) as [Hn [v Hv]]. exists rest. split; [|reflexivity].
    rewrite Hv. repeat rewrite <- app_assoc. cbn [app].
    apply parse_magnitude_var; assumption.
Qed.

(* the first character of a magnitude is a digit or = : not blank, not a sign *)
Lemma mag_head e n rest : num_ok e n = true ->
  exists c r, mag_bytes n ++ rest = c :: r /\ is_blank c = false /\ (c =? 43) = false /\ (c =? 45) = false
              /\ (c =? 59) = false.
Proof.
  intros Hok. destruct n as [pre sg ds | pre sg b1 nm b2]; cbn [mag_bytes].
  - destruct (num_ok_lit _ _ _ _ Hok) as [Hne Hd]. destruct ds as [|[c g] ds]; [congruence|].
    cbn [forallb fst] in Hd. apply andb_true_iff in Hd as [Hc _]. cbn [digits_bytes app].
    eexists; eexists; split; [reflexivity|]. pose proof (is_digit_range c Hc). rewrite is_blank_spec. lia.
  - cbn [app]. eexists; eexists; split; [reflexivity|]. repeat split; reflexivity.
Qed.

Theorem parse_number_num e dflt n rest : num_ok e n = true -> num_rest_ok n rest ->
  exists rest', parse_number e dflt (num_bytes n ++ rest) = POk (num_value e n) rest'
                /\ skip_blank rest' = skip_blank rest.
Proof.
  intros Hok Hr. rewrite num_bytes_split, num_value_split. rewrite <- !app_assoc.
  unfold parse_number. rewrite skip_blank_blanks.
  destruct (mag_head e n rest Hok) as (c & r & Ec & Hb & H43 & H45 & _).
  destruct (num_sign n); cbn [sign_bytes app sign_apply].
  - rewrite Ec, (skip_blank_nb c r Hb), H43, H45. cbn [orb]. rewrite <- Ec.
    apply parse_magnitude_mag; assumption.
  - rewrite skip_blank_nb by reflexivity. cbn [Z.eqb Pos.eqb orb].
    destruct (parse_magnitude_mag e None n rest Hok Hr) as (rest' & Hp & Hs).
    rewrite Hp. exists rest'. split; [reflexivity|exact Hs].
  - rewrite skip_blank_nb by reflexivity. cbn [Z.eqb Pos.eqb orb].
    destruct (parse_magnitude_mag e None n rest Hok Hr) as (rest' & Hp & Hs).
    rewrite Hp. exists rest'. split; [reflexivity|exact Hs].
Qed.

(* a count that is left out: the default is taken when a command (or nothing) follows *)
Lemma parse_number_default e v rest : starts rest ->
  parse_number e (Some v) rest = POk v (skip_blank rest).
Proof.
  unfold starts, parse_number. destruct (skip_blank rest) as [|c r] eqn:E; [reflexivity|].
  intros H.
  assert (Hc : (c =? 43) = false /\ (c =? 45) = false /\ (c =? 61) = false /\ is_digit c = false).
  { destruct H as [H| ->]; [|repeat split; reflexivity].
    pose proof (letter_not_digit c H). apply is_letter_range in H. repeat split; auto; lia. }
  destruct Hc as (H43 & H45 & H61 & Hd). rewrite H43, H45. cbn [orb].
  unfold parse_magnitude. rewrite H61, Hd. reflexivity.
Qed.

(* C / A / TA: a number, or nothing when a semicolon follows (which is left in the stream) *)
Lemma parse_nos_num e n rest : num_ok e n = true -> num_rest_ok n rest ->
  exists rest', parse_number_or_semicolon e (num_bytes n ++ rest) = POk (num_value e n) rest'
                /\ skip_blank rest' = skip_blank rest.
Proof.
  intros Hok Hr. unfold parse_number_or_semicolon.
  assert (E : exists c r, skip_blank (num_bytes n ++ rest) = c :: r /\ (c =? 59) = false).
  { rewrite num_bytes_split, <- !app_assoc, skip_blank_blanks.
    destruct (mag_head e n rest Hok) as (c & r & Ec & Hb & _ & _ & H59).
    destruct (num_sign n); cbn [sign_bytes app].
    - rewrite Ec, (skip_blank_nb c r Hb). eauto.
    - rewrite skip_blank_nb by reflexivity. eexists; eexists; split; reflexivity.
    - rewrite skip_blank_nb by reflexivity. eexists; eexists; split; reflexivity. }
  destruct E as (c & r & E & H59). rewrite E, H59. apply parse_number_num; assumption.
Qed.

Lemma parse_nos_semi e b rest :
  parse_number_or_semicolon e (blanks b ++ 59 :: rest) = POk 0 (59 :: rest).
Proof.
  unfold parse_number_or_semicolon. rewrite skip_blank_blanks, skip_blank_nb by reflexivity. reflexivity.
Qed.

(* ------------------------------------------------------------------------------------------------ *)
(** * One command *)

Lemma loop_skip sub e f s s' : skip_blank s' = skip_blank s -> loop sub e f s' = loop sub e f s.
Proof. intros H. destruct f; cbn [loop]; [reflexivity|]. rewrite H. reflexivity. Qed.

Lemma upper_letter (low : bool) L : 65 <= L <= 90 -> upper (if low then L + 32 else L) = L.
Proof.
  intros H. unfold upper. destruct low.
  - replace ((97 <=? L + 32) && (L + 32 <=? 122)) with true by lia. lia.
  - replace ((97 <=? L) && (L <=? 122)) with false by lia. reflexivity.
Qed.

Lemma loop_letter sub e f pre low L tail : 65 <= L <= 90 ->
  loop sub e (S f) (letter pre low L ++ tail) = dispatch sub e (loop sub e f) L tail.
Proof.
  intros HL. unfold letter. rewrite <- app_assoc. cbn [loop app]. rewrite skip_blank_blanks.
  rewrite skip_blank_nb by (rewrite is_blank_spec; destruct low; lia).
  rewrite upper_letter by exact HL. reflexivity.
Qed.

Lemma loop_semi sub e f pre tail :
  loop sub e (S f) (blanks pre ++ 59 :: tail) = loop sub e f tail.
Proof. cbn [loop]. rewrite skip_blank_blanks, skip_blank_nb by reflexivity. reflexivity. Qed.

Lemma loop_semi0 sub e f tail : loop sub e (S f) (59 :: tail) = loop sub e f tail.
Proof. exact (loop_semi sub e f O tail). Qed.

Definition cost (c : ccmd) : nat :=
  match c with
  | CC _ _ None _ | CA _ _ None _ | CTA _ _ _ None _ => 2
  | _ => 1
  end.

Lemma dir_byte_range d : 65 <= dir_byte d <= 90.
Proof. destruct d; cbn; lia. Qed.

Lemma dispatch_dir sub e k d r :
  dispatch sub e k (dir_byte d) r
  = with_number (parse_number e (Some 1) r) (fun v r' => Move d v :: k r').
Proof. destruct d; reflexivity. Qed.

Lemma starts_ccmd c rest : starts (ccmd_bytes c ++ rest).
Proof.
  assert (L : forall pre low ch tl, 65 <= ch <= 90 -> starts ((letter pre low ch ++ tl) ++ rest)).
  { intros pre low ch tl H. unfold starts, letter. rewrite <- !app_assoc, skip_blank_blanks. cbn [app].
    rewrite skip_blank_nb by (rewrite is_blank_spec; destruct low; lia).
    left. unfold is_letter, memb, ml_letters. cbn [existsb]. destruct low; lia. }
  destruct c; cbn [ccmd_bytes]; try (apply L; try apply dir_byte_range; lia).
  - unfold starts. rewrite <- app_assoc, skip_blank_blanks. cbn [app].
    rewrite skip_blank_nb by reflexivity. right; reflexivity.
  - rewrite <- (app_nil_r (letter pre low 66)). apply L; lia.
  - rewrite <- (app_nil_r (letter pre low 78)). apply L; lia.
Qed.

Lemma starts_nil : starts [].
Proof. exact I. Qed.

Lemma comma_after (e : env) x bc y rest :
  num_rest_ok x (blanks bc ++ [44] ++ num_bytes y ++ rest).
Proof.
  destruct x; cbn [num_rest_ok]; [|exact I].
  unfold stops. rewrite skip_blank_blanks. cbn [app]. rewrite skip_blank_nb by reflexivity. reflexivity.
Qed.

Lemma num_rest_starts n rest : starts rest -> num_rest_ok n rest.
Proof. intros H. destruct n; cbn [num_rest_ok]; [apply starts_stops; exact H | exact I]. Qed.

(* the relative test of M looks at the first character after the blanks *)
Lemma relative_test e x tail : num_ok e x = true ->
  match skip_blank (num_bytes x ++ tail) with
  | c1 :: _ => (c1 =? 43) || (c1 =? 45)
  | [] => false
  end = signed x.
Proof.
  intros Hok. rewrite num_bytes_split, <- !app_assoc, skip_blank_blanks. unfold signed.
  destruct (mag_head e x tail Hok) as (c & r & Ec & Hb & H43 & H45 & _).
  destruct (num_sign x); cbn [sign_bytes app].
  - rewrite Ec, (skip_blank_nb c r Hb), H43, H45. reflexivity.
  - rewrite skip_blank_nb by reflexivity. reflexivity.
  - rewrite skip_blank_nb by reflexivity. reflexivity.
Qed.

Lemma loop_M sub e f pre low x bc y rest :
  num_ok e x = true -> num_ok e y = true -> in_range draw_range_x (num_value e x) = true -> starts rest ->
  loop sub e (S f) ((letter pre low 77 ++ num_bytes x ++ blanks bc ++ [44] ++ num_bytes y) ++ rest)
  = (if signed x then MRel (num_value e x) (num_value e y) else MAbs (num_value e x) (num_value e y))
    :: loop sub e f rest.
Proof.
  intros Hx Hy Hr Hst. rewrite <- !app_assoc. rewrite loop_letter by lia.
  unfold dispatch. cbn [Z.eqb Pos.eqb].
  rewrite (relative_test e x _ Hx).
  destruct (parse_number_num e None x (blanks bc ++ [44] ++ num_bytes y ++ rest) Hx (comma_after e x bc y rest))
    as (r1 & Hp1 & Hs1).
  rewrite Hp1. cbn [with_number]. rewrite Hr, Hs1, skip_blank_blanks. cbn [app].
  rewrite skip_blank_nb by reflexivity. cbn [Z.eqb Pos.eqb].
  destruct (parse_number_num e None y rest Hy (num_rest_starts y rest Hst)) as (r3 & Hp3 & Hs3).
  rewrite Hp3. cbn [with_number]. rewrite (loop_skip sub e f rest r3 Hs3). reflexivity.
Qed.

Lemma loop_P sub e f pre low x bc y rest :
  num_ok e x = true -> num_ok e y = true -> in_range draw_range_fill (num_value e x) = true -> starts rest ->
  loop sub e (S f) ((letter pre low 80 ++ num_bytes x ++ blanks bc ++ [44] ++ num_bytes y) ++ rest)
  = Paint (num_value e x) (num_value e y) :: loop sub e f rest.
Proof.
  intros Hx Hy Hr Hst. rewrite <- !app_assoc. rewrite loop_letter by lia.
  unfold dispatch. cbn [Z.eqb Pos.eqb].
  destruct (parse_number_num e None x (blanks bc ++ [44] ++ num_bytes y ++ rest) Hx (comma_after e x bc y rest))
    as (r1 & Hp1 & Hs1).
  rewrite Hp1. cbn [with_number]. rewrite Hr, Hs1, skip_blank_blanks. cbn [app].
  rewrite skip_blank_nb by reflexivity. cbn [Z.eqb Pos.eqb].
  destruct (parse_number_num e None y rest Hy (num_rest_starts y rest Hst)) as (r3 & Hp3 & Hs3).
  rewrite Hp3. cbn [with_number]. rewrite (loop_skip sub e f rest r3 Hs3). reflexivity.
Qed.

Theorem loop_ccmd sub e c f rest : ccmd_ok sub e c -> starts rest ->
  loop sub e (cost c + f) (ccmd_bytes c ++ rest) = ccmd_abs e c ++ loop sub e f rest.
Proof.
  intros Hok Hst. destruct c; cbn [ccmd_bytes ccmd_abs cost ccmd_ok Nat.add] in *.
  - (* ; *) rewrite <- app_assoc. apply loop_semi.
  - (* B *) rewrite loop_letter by lia. reflexivity.
  - (* N *) rewrite loop_letter by lia. reflexivity.
  - (* move *)
    rewrite <- app_assoc, loop_letter by apply dir_byte_range. rewrite dispatch_dir.
    destruct n as [n|]; cbn [opt_num_ok] in Hok.
    + destruct (parse_number_num e (Some 1) n rest Hok (num_rest_starts n rest Hst)) as (r' & Hp & Hs).
      rewrite Hp. cbn [with_number]. rewrite (loop_skip sub e f rest r' Hs). reflexivity.
    + cbn [app]. rewrite parse_number_default by exact Hst. cbn [with_number].
      rewrite (loop_skip sub e f rest (skip_blank rest) (skip_blank_idem rest)). reflexivity.
  - (* M relative *)
    destruct Hok as (Hx & Hy & Hsg & Hr). rewrite loop_M by assumption. rewrite Hsg. reflexivity.
  - (* M absolute *)
    destruct Hok as (Hx & Hy & Hsg & Hr). rewrite loop_M by assumption. rewrite Hsg. reflexivity.
  - (* S *)
    rewrite <- app_assoc, loop_letter by lia. unfold dispatch. cbn [Z.eqb Pos.eqb].
    destruct (parse_number_num e None n rest Hok (num_rest_starts n rest Hst)) as (r' & Hp & Hs).
    rewrite Hp. cbn [with_number]. rewrite (loop_skip sub e f rest r' Hs). reflexivity.
  - (* C *)
    destruct n as [n|]; cbn [opt_num_ok opt_num_bytes opt_num_value Nat.add] in *.
    + rewrite <- app_assoc, loop_letter by lia. unfold dispatch. cbn [Z.eqb Pos.eqb].
      destruct (parse_nos_num e n rest Hok (num_rest_starts n rest Hst)) as (r' & Hp & Hs).
      rewrite Hp. cbn [with_number]. rewrite (loop_skip sub e f rest r' Hs). reflexivity.
    + rewrite <- app_assoc, loop_letter by lia. unfold dispatch. cbn [Z.eqb Pos.eqb].
      rewrite <- app_assoc. cbn [app]. rewrite parse_nos_semi. cbn [with_number].
      rewrite loop_semi0. reflexivity.
  - (* A *)
    destruct n as [n|]; cbn [opt_num_ok opt_num_bytes opt_num_value Nat.add] in *.
    + rewrite <- app_assoc, loop_letter by lia. unfold dispatch. cbn [Z.eqb Pos.eqb].
      destruct (parse_nos_num e n rest Hok (num_rest_starts n rest Hst)) as (r' & Hp & Hs).
      rewrite Hp. cbn [with_number]. rewrite (loop_skip sub e f rest r' Hs). reflexivity.
    + rewrite <- app_assoc, loop_letter by lia. unfold dispatch. cbn [Z.eqb Pos.eqb].
      rewrite <- app_assoc. cbn [app]. rewrite parse_nos_semi. cbn [with_number].
      rewrite loop_semi0. reflexivity.
  - (* TA *)
    destruct n as [n|]; cbn [opt_num_ok opt_num_bytes opt_num_value Nat.add] in *.
    + rewrite <- !app_assoc, loop_letter by lia. unfold dispatch. cbn [Z.eqb Pos.eqb app].
      assert (Ha : (upper (if lowa then 97 else 65) =? 65) = true) by (destruct lowa; reflexivity).
      rewrite Ha.
      destruct (parse_nos_num e n rest Hok (num_rest_starts n rest Hst)) as (r' & Hp & Hs).
      rewrite Hp. cbn [with_number]. rewrite (loop_skip sub e f rest r' Hs). reflexivity.
    + rewrite <- !app_assoc, loop_letter by lia. unfold dispatch. cbn [Z.eqb Pos.eqb app].
      assert (Ha : (upper (if lowa then 97 else 65) =? 65) = true) by (destruct lowa; reflexivity).
      rewrite Ha.
       rewrite parse_nos_semi. cbn [with_number].
      rewrite loop_semi0. reflexivity.
  - (* P *)
    destruct Hok as (Hx & Hy & Hr). rewrite loop_P by assumption. reflexivity.
  - (* X *)
    destruct Hok as (Hn & str & Hv & Hsub).
    rewrite <- !app_assoc, loop_letter by lia. unfold dispatch. cbn [Z.eqb Pos.eqb app].
    rewrite (parse_string_vname e b1 nm b2 rest str Hn Hv), Hsub. reflexivity.
Qed.

(* ------------------------------------------------------------------------------------------------ *)
(** * A whole string *)

Definition total_cost (cs : list ccmd) : nat := fold_right (fun c n => (cost c + n)%nat) O cs.

Lemma starts_print cs : starts (print cs).
Proof. destruct cs as [|c cs]; [exact I|]. cbn [print flat_map]. apply starts_ccmd. Qed.

Theorem loop_print sub e cs : Forall (ccmd_ok sub e) cs ->
  forall f, loop sub e (total_cost cs + S f) (print cs) = abstract e cs.
Proof.
  induction 1 as [|c cs Hc Hcs IH]; intros f.
  - reflexivity.
  - cbn [total_cost fold_right print abstract flat_map]. fold (total_cost cs). fold (print cs). fold (abstract e cs).
    rewrite <- Nat.add_assoc. rewrite (loop_ccmd sub e c _ (print cs) Hc (starts_print cs)).
    rewrite IH. reflexivity.
Qed.

Lemma cost_le_bytes c : (cost c <= length (ccmd_bytes c))%nat.
Proof.
  destruct c; cbn [cost ccmd_bytes]; unfold letter; rewrite ?app_length; cbn [length]; try lia;
    destruct n; cbn [opt_num_bytes]; rewrite ?app_length; cbn [length]; lia.
Qed.

Lemma total_cost_le cs : (total_cost cs <= length (print cs))%nat.
Proof.
  induction cs as [|c cs IH]; [reflexivity|].
  cbn [total_cost fold_right print flat_map]. fold (total_cost cs). fold (print cs).
  rewrite app_length. pose proof (cost_le_bytes c). lia.
Qed.

Definition sub_of (depth : nat) (e : env) : list Z -> list cmd :=
  match depth with O => fun _ => [Fail draw_OUT_OF_MEMORY] | S d => parse d e end.

Lemma parse_unfold depth e s : parse depth e s = loop (sub_of depth e) e (S (length s)) s.
Proof. destruct depth; reflexivity. Qed.

(* the reader returns exactly the commands the concrete syntax stands for *)
Theorem parse_print depth e cs : Forall (ccmd_ok (sub_of depth e) e) cs ->
  parse depth e (print cs) = abstract e cs.
Proof.
  intros H. rewrite parse_unfold.
  pose proof (total_cost_le cs) as Hle.
  replace (S (length (print cs))) with (total_cost cs + S (length (print cs) - total_cost cs))%nat by lia.
  apply loop_print. exact H.
Qed.

(* ------------------------------------------------------------------------------------------------ *)
(** * Canonical printing of a command list *)

Lemma dec_value_app ds d : dec_value (ds ++ [d]) = 10 * dec_value ds + (fst d - 48).
Proof. unfold dec_value. rewrite fold_left_app. reflexivity. Qed.

Lemma digits_fuel_S f n :
  digits_fuel (S f) n = if n <? 10 then [(48 + n, O)] else digits_fuel f (n / 10) ++ [(48 + n mod 10, O)].
Proof. reflexivity. Qed.

Lemma digits_fuel_spec fuel : forall n, 0 <= n < 2 ^ Z.of_nat (S fuel) ->
  dec_value (digits_fuel (S fuel) n) = n
  /\ digits_fuel (S fuel) n <> []
  /\ forallb (fun d => is_digit (fst d)) (digits_fuel (S fuel) n) = true.
Proof.
  induction fuel as [|fuel IH]; intros n Hn; rewrite digits_fuel_S; destruct (n <? 10) eqn:E.
  - assert (Hc : n = 0 \/ n = 1) by (cbn in Hn; lia).
    repeat split; [unfold dec_value; cbn [fold_left fst]; lia | discriminate |]. destruct Hc as [->| ->]; reflexivity.
  - cbn in Hn. lia.
  - assert (Hc : n = 0 \/ n = 1 \/ n = 2 \/ n = 3 \/ n = 4 \/ n = 5 \/ n = 6 \/ n = 7 \/ n = 8 \/ n = 9) by lia.
    repeat split; [unfold dec_value; cbn [fold_left fst]; lia | discriminate |].
    destruct Hc as [->|[->|[->|[->|[->|[->|[->|[->|[->| ->]]]]]]]]]; reflexivity.
  - rewrite (Nat2Z.inj_succ (S fuel)), Z.pow_succ_r in Hn by lia.
    assert (Hq : 0 <= n / 10 < 2 ^ Z.of_nat (S fuel)).
    { split; [apply Z.div_pos; lia|]. apply Z.div_lt_upper_bound; lia. }
    destruct (IH (n / 10) Hq) as (Hv & Hne & Hd).
    repeat split.
    + rewrite dec_value_app, Hv. cbn [fst]. pose proof (Z.div_mod n 10). lia.
    + intros Habs. apply app_eq_nil in Habs as [_ Habs]. discriminate.
    + rewrite forallb_app, Hd. cbn [forallb fst andb].
      assert (Hm : 0 <= n mod 10 < 10) by (apply Z.mod_pos_bound; lia).
      assert (Hc : n mod 10 = 0 \/ n mod 10 = 1 \/ n mod 10 = 2 \/ n mod 10 = 3 \/ n mod 10 = 4
                   \/ n mod 10 = 5 \/ n mod 10 = 6 \/ n mod 10 = 7 \/ n mod 10 = 8 \/ n mod 10 = 9) by lia.
      destruct Hc as [->|[->|[->|[->|[->|[->|[->|[->|[->| ->]]]]]]]]]; reflexivity.
Qed.

Lemma digits_spec n : 0 <= n ->
  dec_value (digits n) = n /\ digits n <> [] /\ forallb (fun d => is_digit (fst d)) (digits n) = true.
Proof.
  intros Hn. unfold digits. apply digits_fuel_spec. split; [exact Hn|].
  rewrite Nat2Z.inj_succ, Z2Nat.id by apply Z.log2_nonneg.
  destruct (Z.eq_dec n 0) as [->|Hnz]; [cbn; lia|].
  apply Z.log2_spec. lia.
Qed.

Lemma lit_num_ok e plus z : num_ok e (lit_num plus z) = true /\ num_value e (lit_num plus z) = z.
Proof.
  unfold lit_num. destruct (digits_spec (Z.abs z) (Z.abs_nonneg z)) as (Hv & Hne & Hd).
  cbn [num_ok num_value]. rewrite Hd, Hv. split.
  - destruct (digits (Z.abs z)); [congruence|reflexivity].
  - destruct (z <? 0) eqn:E; [cbn; lia|]. destruct plus; cbn; lia.
Qed.

Lemma lit_num_signed plus z : signed (lit_num plus z) = (z <? 0) || plus.
Proof. unfold signed, lit_num. cbn [num_sign]. destruct (z <? 0), plus; reflexivity. Qed.

(* the M commands whose x is within the range that the reader checks before it looks for the comma *)
Definition m_in_range (c : cmd) : bool :=
  match c with
  | MRel x _ | MAbs x _ => in_range draw_range_x x
  | Paint f _ => in_range draw_range_fill f
  | _ => true
  end.

Lemma canon_ok sub e c cc : canon c = Some cc -> m_in_range c = true ->
  ccmd_ok sub e cc /\ ccmd_abs e cc = [c].
Proof.
  intros Hc Hm. destruct c; cbn [canon] in Hc; try discriminate;
    try solve [inversion Hc; subst; clear Hc; cbn [ccmd_ok ccmd_abs opt_num_ok opt_num_value];
         repeat match goal with
                | |- context [lit_num ?p ?z] =>
                    let H1 := fresh in let H2 := fresh in
                    destruct (lit_num_ok e p z) as [H1 H2]; rewrite ?H1, ?H2; clear H1 H2
                end; auto].
  - (* MRel *)
    inversion Hc; subst; clear Hc. cbn [ccmd_ok ccmd_abs].
    cbn [m_in_range] in Hm. pose proof (lit_num_ok e true x) as [H1 H2]. pose proof (lit_num_ok e false y) as [H3 H4].
    split; [|rewrite H2, H4; reflexivity]. repeat split; auto.
    + rewrite lit_num_signed. apply orb_true_r.
    + rewrite H2. exact Hm.
  - (* MAbs *)
    destruct (x <? 0) eqn:E; [discriminate|]. inversion Hc; subst; clear Hc.
    cbn [m_in_range] in Hm. pose proof (lit_num_ok e false x) as [H1 H2]. pose proof (lit_num_ok e false y) as [H3 H4].
    cbn [ccmd_ok ccmd_abs]. split; [|rewrite H2, H4; reflexivity]. repeat split; auto.
    + rewrite lit_num_signed, E. reflexivity.
    + rewrite H2. exact Hm.
Qed.

Lemma canon_all_ok sub e : forall l cs, canon_all l = Some cs -> forallb m_in_range l = true ->
  Forall (ccmd_ok sub e) cs /\ abstract e cs = l.
Proof.
  induction l as [|c l IH]; intros cs Hc Hm.
  - inversion Hc; subst. split; [constructor|reflexivity].
  - cbn [canon_all] in Hc. destruct (canon c) as [cc|] eqn:E1; [|discriminate].
    destruct (canon_all l) as [rr|] eqn:E2; [|discriminate]. inversion Hc; subst; clear Hc.
    cbn [forallb] in Hm. apply andb_true_iff in Hm as [Hm1 Hm].
    destruct (canon_ok sub e c cc E1 Hm1) as [Hok Habs].
    destruct (IH rr eq_refl Hm) as [Hoks Habss].
    split; [constructor; assumption|]. cbn [abstract flat_map]. fold (abstract e rr). rewrite Habs, Habss. reflexivity.
Qed.

(* printing a command list in canonical form and reading it back gives the list *)
Theorem parse_canon depth e l cs : canon_all l = Some cs -> forallb m_in_range l = true ->
  parse depth e (print cs) = l.
Proof.
  intros Hc Hm. destruct (canon_all_ok (sub_of depth e) e l cs Hc Hm) as [Hok Habs].
  rewrite parse_print by exact Hok. exact Habs.
Qed.
