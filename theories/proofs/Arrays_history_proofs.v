(* C12: read-after-write refinement of the flat byte buffers to a finite map (name, tuple) -> value,
   over arbitrary histories of DIM / ERASE / OPTION BASE / CLEAR / assign / read *)
From Coq Require Import ZArith List Bool Lia.
From PCB Require Import lib.Result lib.PyInt lib.Harness lib.ArraysLib gen.Gen_arrays model.Arrays.
From PCB Require Import proofs.Arrays_index_proofs proofs.Arrays_list_proofs proofs.Arrays_proofs.
Import ListNotations.
Open Scope Z_scope.

(* well-formed operations: names end in a type sigil (Memory.complete_name), values are byte strings,
   OPTION BASE takes 0 or 1 (the parser accepts nothing else) *)
Definition aop_ok (o : aop) : Prop :=
  match o with
  | ODim _ args => Forall (fun p => sigil_ok (fst p)) args
  | OErase _ => True
  | OBase b => b = 0 \/ b = 1
  | OSet _ n _ v => sigil_ok n /\ bytes_ok v
  | OGet _ n _ => sigil_ok n
  | OClear => True
  end.

(* every array of st' is an array of st with identical contents (same base), or a fresh zero-filled
   array whose name was not declared in st *)
Definition carried (st st' : astate) : Prop :=
  forall a', In a' (a_list st') ->
    (exists a, In a (a_list st) /\ a_name a = a_name a' /\ a_dims a = a_dims a' /\ a_buf a = a_buf a' /\
               base_of st' = base_of st)
    \/ (lookup (a_list st) (a_name a') = None /\ fresh_in st' a').

Lemma NoDup_app_disjoint {A} (l r : list A) x : NoDup (l ++ r) -> In x l -> In x r -> False.
Proof.
  induction l as [|y l IH]; simpl; intros ND Hl Hr; [contradiction|].
  inversion ND as [|? ? Hy ND']; subst. destruct Hl as [E|Hl].
  - subst. apply Hy. apply in_app_iff. auto.
  - apply IH; assumption.
Qed.

Lemma extends_carried st st' : AInv st -> AInv st' -> extends st st' -> carried st st'.
Proof.
  intros I I' [(fr & L & F) B] a' Ha'. rewrite L in Ha'. apply in_app_iff in Ha' as [H|H].
  - left. exists a'. repeat split; auto.
    pose proof (AInv_base_some st a' I H) as Hb. unfold base_of at 1. rewrite (B _ Hb). reflexivity.
  - right. split; [|eapply Forall_forall; eauto].
    apply lookup_none. pose proof (inv_nodup st' I') as ND. rewrite L, map_app in ND.
    intros C. apply (NoDup_app_disjoint _ _ _ ND C). apply in_map, H.
Qed.

Definition lookup_val (m : vmap) (n idx : list Z) : list Z :=
  match vmap_get m (n, idx) with Some v => v | None => zeros (size_bytes n) end.

Definition agrees (st : astate) (m : vmap) : Prop :=
  forall a idx, In a (a_list st) -> in_bounds (base_of st) (a_dims a) idx ->
    elem_of (base_of st) a idx = lookup_val m (a_name a) idx.

Lemma vmap_get_filter keep m n idx :
  vmap_get (vmap_filter keep m) (n, idx) = if keep n then vmap_get m (n, idx) else None.
Proof.
  induction m as [|[k v] m IH]; simpl; [destruct (keep n); reflexivity|].
  unfold key_eqb at 1. simpl.
  destruct (list_Z_eqb (fst k) n) eqn:E1; simpl.
  - apply list_Z_eqb_eq in E1. rewrite E1. destruct (keep n) eqn:EK; simpl.
    + unfold key_eqb. simpl. rewrite E1, list_Z_eqb_refl. simpl.
      destruct (list_Z_eqb (snd k) idx); [reflexivity | exact IH].
    + rewrite IH. reflexivity.
  - destruct (keep (fst k)); simpl; [|exact IH].
    unfold key_eqb. simpl. rewrite E1. simpl. exact IH.
Qed.

Lemma declared_in st a : AInv st -> In a (a_list st) -> declared st (a_name a) = true.
Proof. intros I H. unfold declared. rewrite (in_lookup _ _ (inv_nodup st I) H). reflexivity. Qed.

Lemma elem_of_ext b a a' idx : a_name a = a_name a' -> a_dims a = a_dims a' -> a_buf a = a_buf a' ->
  elem_of b a idx = elem_of b a' idx.
Proof. intros E1 E2 E3. unfold elem_of, elem_lo, elem_hi. rewrite E1, E2, E3. reflexivity. Qed.

Lemma agrees_carried st st' m : AInv st -> AInv st' -> carried st st' -> agrees st m ->
  agrees st' (vmap_filter (fun n => declared st n && declared st' n) m).
Proof.
  intros I I' C A a' idx Ha' Hin. unfold lookup_val. rewrite vmap_get_filter.
  rewrite (declared_in st' a' I' Ha'), andb_true_r.
  destruct (C a' Ha') as [(a & Ha & E1 & E2 & E3 & EB)|[Hl Hf]].
  - rewrite <- E1, (declared_in st a I Ha). rewrite EB in *.
    rewrite <- (elem_of_ext _ a a' idx E1 E2 E3). rewrite E1. rewrite <- E2 in Hin.
    rewrite <- E1. apply (A a idx Ha Hin).
  - unfold declared. rewrite Hl.
    assert (Hok : arr_ok (base_of st') a') by (eapply Forall_forall; [apply inv_arrs, I' | exact Ha']).
    destruct (arr_ok_elem _ a' idx (inv_base _ I') Hok Hin) as (Hk & Hs & Hlen).
    unfold elem_of, elem_lo, elem_hi. rewrite Hf. apply elem_slice_zeros; lia.
Qed.

Lemma filter_ext_keep f g (m : vmap) : (forall n, f n = g n) -> vmap_filter f m = vmap_filter g m.
Proof. intros H. unfold vmap_filter. apply filter_ext. intros kv. apply H. Qed.

Lemma declared_set_buf st n buf n' : declared (set_buf st n buf) n' = declared st n'.
Proof.
  unfold declared, set_buf; simpl. induction (a_list st) as [|x l IH]; simpl; [reflexivity|].
  destruct (list_Z_eqb (a_name x) n) eqn:E; simpl.
  - destruct (list_Z_eqb (a_name x) n'); reflexivity.
  - destruct (list_Z_eqb (a_name x) n'); [reflexivity | exact IH].
Qed.

Lemma key_eqb_false_name n n' i i' : n <> n' -> key_eqb (n, i) (n', i') = false.
Proof. intros H. unfold key_eqb. simpl. rewrite list_Z_eqb_neq by assumption. reflexivity. Qed.

Lemma key_eqb_false_idx n n' i i' : i <> i' -> key_eqb (n, i) (n', i') = false.
Proof. intros H. unfold key_eqb. simpl. rewrite (list_Z_eqb_neq i i') by assumption. apply andb_false_r. Qed.

Lemma key_eqb_refl k : key_eqb k k = true.
Proof. unfold key_eqb. rewrite !list_Z_eqb_refl. reflexivity. Qed.

(* a successful assignment: the element holds v, every other element of every array is unchanged *)
Lemma agrees_set st m a n idx v : AInv st -> agrees st m ->
  lookup (a_list st) n = Some a -> in_bounds (base_of st) (a_dims a) idx ->
  length v = Z.to_nat (size_bytes n) ->
  agrees (set_buf st n (set_slice (a_buf a) (elem_lo (base_of st) a idx) v)) (((n, idx), v) :: m).
Proof.
  intros I A La Hin Hv a' idx' Ha' Hin'.
  change (base_of (set_buf st n (set_slice (a_buf a) (elem_lo (base_of st) a idx) v))) with (base_of st) in *.
  destruct (lookup_some _ _ _ La) as [Ha Hn]. subst n.
  simpl in Ha'. destruct (update_buf_in _ _ _ _ (inv_nodup st I) Ha') as [[H1 H2]|(y & H1 & H2 & H3)].
  - unfold lookup_val. simpl. rewrite key_eqb_false_name by congruence. apply (A a' idx' H1 Hin').
  - pose proof (in_lookup _ _ (inv_nodup st I) H1) as Ly. rewrite H2, La in Ly. inversion Ly; subst y.
    subst a'. simpl in Hin'.
    assert (Hok : arr_ok (base_of st) a) by (eapply Forall_forall; [apply inv_arrs, I | exact Ha]).
    destruct (arr_ok_elem _ a idx (inv_base _ I) Hok Hin) as (Hk & Hs & Hlen).
    destruct (arr_ok_elem _ a idx' (inv_base _ I) Hok Hin') as (Hk' & _ & _).
    unfold lookup_val. simpl.
    destruct (list_eq_dec Z.eq_dec idx idx') as [E|E].
    + subst idx'. rewrite key_eqb_refl. unfold elem_of, elem_lo, elem_hi. simpl.
      eapply elem_get_set_same; eauto; lia.
    + rewrite key_eqb_false_idx by assumption.
      unfold elem_of, elem_lo, elem_hi. simpl.
      rewrite (elem_get_set_other (a_buf a) _ _ (radix_prod (base_of st) (a_dims a))); auto; try lia.
      * apply (A a idx' Ha Hin').
      * intros C. apply E. eapply index_spec_injective; eauto.
Qed.

(* ---------- one step ---------- *)

Lemma astep_inv st o : AInv st -> aop_ok o -> AInv (fst (astep st o)).
Proof.
  intros I Hok. destruct o as [free args|names|b|free n idx v|free n idx|]; simpl in *.
  - pose proof (dim_inv st free args I Hok) as [I' _]. destruct (dim_ st free args); exact I'.
  - pose proof (erase_inv st names I) as [I' _]. destruct (erase_ st names); exact I'.
  - pose proof (option_base_inv st b I Hok) as [I' _]. destruct (option_base_ st b); exact I'.
  - destruct Hok as [Hs Hv]. pose proof (elem_set_inv st free n idx v I Hs Hv) as I'.
    destruct (elem_set st free n idx v); exact I'.
  - pose proof (check_dim_inv st free n idx I Hok) as [I' _]. rewrite elem_get_unfold.
    destruct (check_dim st free n idx) as [st1 [dims| | |]]; simpl in *; try exact I'.
    destruct (lookup (a_list st1) n); exact I'.
  - apply AInv_init.
Qed.

(* the outputs of the two runs coincide and the reference map keeps describing the buffers *)
Lemma step_refines st m o : AInv st -> agrees st m -> aop_ok o ->
  snd (rstep st m o) = snd (astep st o) /\
  fst (fst (rstep st m o)) = fst (astep st o) /\
  agrees (fst (astep st o)) (snd (fst (rstep st m o))).
Proof.
  intros I A Hok. pose proof (astep_inv st o I Hok) as I'.
  (* operations that neither read nor write a value *)
  assert (Plain : forall st' out, astep st o = (st', out) -> carried st st' ->
            (match o, out with OSet _ _ _ _, Ok _ => False | OGet _ _ _, Ok _ => False | _, _ => True end) ->
            snd (rstep st m o) = snd (astep st o) /\
            fst (fst (rstep st m o)) = fst (astep st o) /\
            agrees (fst (astep st o)) (snd (fst (rstep st m o)))).
  { intros st' out E C Hk. unfold rstep. rewrite E in *. simpl in I'.
    pose proof (agrees_carried st st' m I I' C A) as A'.
    destruct o; destruct out; simpl; try contradiction; auto. }
  destruct o as [free args|names|b|free n idx v|free n idx|].
  - destruct (astep st (ODim free args)) as [st' out] eqn:E. apply (Plain st' out eq_refl); [|constructor].
    simpl in E. pose proof (dim_inv st free args I Hok) as [_ X].
    destruct (dim_ st free args) as [s r]. inversion E; subst. simpl in *.
    apply extends_carried; assumption.
  - destruct (astep st (OErase names)) as [st' out] eqn:E. apply (Plain st' out eq_refl); [|constructor].
    simpl in E. pose proof (erase_inv st names I) as [_ X].
    destruct (erase_ st names) as [s r]. inversion E; subst. simpl in *.
    intros a' Ha'. left. destruct (X a' Ha') as [EB (a & H1 & H2 & H3 & H4)]. exists a. auto.
  - destruct (astep st (OBase b)) as [st' out] eqn:E. apply (Plain st' out eq_refl); [|constructor].
    simpl in E. pose proof (option_base_inv st b I Hok) as (_ & X1 & X2).
    destruct (option_base_ st b) as [s r]. inversion E; subst. simpl in *.
    intros a' Ha'. left. rewrite X1 in Ha'. exists a'. repeat split; auto.
    apply X2. intros C. rewrite C in Ha'. contradiction.
  - (* assignment *)
    destruct Hok as [Hs Hv].
    pose proof (check_dim_inv st free n idx I Hs) as [I1 X1].
    destruct (check_dim st free n idx) as [st1 r] eqn:EC. simpl in I1, X1.
    pose proof (extends_carried st st1 I I1 X1) as C1.
    destruct r as [dims| | |].
    2,3,4: (destruct (astep st (OSet free n idx v)) as [st' out] eqn:E;
            simpl in E; rewrite elem_set_unfold, EC in E; cbn [bindS] in E; inversion E; subst;
            apply (Plain _ _ eq_refl); [exact C1 | constructor]).
    destruct (elem_set_ok _ _ _ _ v _ _ I Hs EC) as (a & La & Hd & Hin & E).
    destruct (Nat.eqb_spec (Z.to_nat (size_bytes n)) (length v)) as [Hl|Hl].
    2:{ destruct (astep st (OSet free n idx v)) as [st' out] eqn:E'.
        simpl in E'. rewrite E in E'. inversion E'; subst.
        apply (Plain _ _ eq_refl); [exact C1 | constructor]. }
    unfold rstep. simpl. rewrite E. simpl. split; [reflexivity|]. split; [reflexivity|].
    rewrite (filter_ext_keep _ (fun n0 => declared st n0 && declared st1 n0))
      by (intros n0; rewrite declared_set_buf; reflexivity).
    apply agrees_set; auto.
    + apply agrees_carried; assumption.
    + rewrite Hd. exact Hin.
  - (* read *)
    simpl in Hok.
    pose proof (check_dim_inv st free n idx I Hok) as [I1 X1].
    destruct (check_dim st free n idx) as [st1 r] eqn:EC. simpl in I1, X1.
    pose proof (extends_carried st st1 I I1 X1) as C1.
    destruct r as [dims| | |].
    2,3,4: (destruct (astep st (OGet free n idx)) as [st' out] eqn:E;
            simpl in E; rewrite elem_get_unfold, EC in E; cbn [bindS] in E; inversion E; subst;
            apply (Plain _ _ eq_refl); [exact C1 | constructor]).
    destruct (elem_get_ok _ _ _ _ _ _ I Hok EC) as (a & La & Hd & Hin & E).
    unfold rstep. simpl. rewrite E. simpl.
    pose proof (agrees_carried st st1 m I I1 C1 A) as A1.
    split; [|split; [reflexivity | exact A1]].
    f_equal. destruct (lookup_some _ _ _ La) as [Ha Hn].
    rewrite (A1 a idx Ha ltac:(rewrite Hd; exact Hin)). unfold lookup_val. rewrite Hn. reflexivity.
  - apply (Plain a_init (Ok []) eq_refl); [|constructor]. intros a' [].
Qed.

Theorem run_refines ops : forall st m, AInv st -> agrees st m -> Forall aop_ok ops ->
  arun st ops = rrun st m ops.
Proof.
  induction ops as [|o ops IH]; intros st m I A F; [reflexivity|].
  inversion F as [|? ? Ho F']; subst.
  destruct (step_refines st m o I A Ho) as (E1 & E2 & A').
  pose proof (astep_inv st o I Ho) as I'.
  simpl. destruct (astep st o) as [s out] eqn:ES. destruct (rstep st m o) as [[s' m'] out'] eqn:ER.
  simpl in *. subst. f_equal. apply IH; assumption.
Qed.

Lemma agrees_init : agrees a_init [].
Proof. intros a idx []. Qed.

(* invariant over histories *)
Lemma afinal_inv ops : forall st, AInv st -> Forall aop_ok ops -> AInv (afinal st ops).
Proof.
  induction ops as [|o ops IH]; intros st I F; [exact I|].
  inversion F; subst. simpl. apply IH; [apply astep_inv|]; assumption.
Qed.
