(* C36: plain-text placement from an arbitrary state inside the window: stale line-continuation (wrap) flags and a
   pending overflow at the start are allowed.  The reference layout `layoutw` knows the continuation flags of the
   rows ahead (as a function of the virtual row): a character written in the last column of a flagged row moves the
   cursor to the next row at once (the window scrolls one step earlier) instead of leaving a pending overflow. *)
From Coq Require Import ZArith List Bool Lia ZifyBool Arith.
From PCB Require Import lib.Result lib.PyInt model.Cursor proofs.Cursor_lists proofs.Cursor_inv proofs.Cursor_place.
Import ListNotations.
Open Scope Z_scope.

Fixpoint layoutw (W : Z) (fl : Z -> bool) (g : vgrid) (vr vc : Z) (str : list Z) : vgrid * (Z * Z) :=
  match str with
  | [] => (g, (vr, vc))
  | ch :: t =>
      let vr1 := if vc >? W then vr + 1 else vr in
      let vc1 := if vc >? W then 1 else vc in
      let g' := fun r c => if (r =? vr1) && (c =? vc1) then ch else g r c in
      if (vc1 =? W) && fl vr1 then layoutw W fl g' (vr1 + 1) 1 t else layoutw W fl g' vr1 (vc1 + 1) t
  end.

(* ---- consuming a pending overflow, whatever the flag of the row *)
Definition after_pending (s : st) : st :=
  let s' := set_ovf (set_col s (width s + 1)) false in
  if wraps_at s (row s) then s' else set_wrap s' (row s) true.

Lemma consume_pending_gen s : ovf s = true -> col s = width s -> row s < height s ->
  consume_overflow false s = set_rc (after_pending s) (row s + 1) 1.
Proof.
  intros Ho Hc Hr. unfold consume_overflow, after_pending. rewrite Ho.
  set (s1 := set_ovf (set_col s (col s + 1)) false).
  assert (E1 : col s1 >? width s1 = true) by (unfold s1; setters; proj; lia).
  assert (E2 : row s1 <? height s1 = true) by (unfold s1; setters; proj; lia).
  assert (E3 : wraps_at s1 (row s1) = wraps_at s (row s)) by (unfold s1, wraps_at; setters; proj; reflexivity).
  rewrite E1, E2, E3. cbn [andb]. unfold s1. rewrite Hc.
  destruct (wraps_at s (row s)); cbn [negb]; setters; proj; reflexivity.
Qed.

Lemma after_pending_facts s : GG s -> 1 <= row s ->
  let s1 := set_rc (after_pending s) (row s + 1) 1 in
  GG s1 /\ bra s1 = bra s /\ col s1 = 1 /\ row s1 = row s + 1 /\ cells s1 = cells s /\ ovf s1 = false /\
  same_env s s1 /\ length (wraps s1) = length (wraps s) /\
  (forall r, 1 <= r -> r <> row s -> wraps_at s1 r = wraps_at s r).
Proof.
  intros HG Hr. cbv zeta. unfold after_pending. destruct (wraps_at s (row s)) eqn:E.
  - split; [exact HG|]. setters. proj. repeat split; try reflexivity.
  - split; [apply (GG_set_wrap s (row s) true HG)|]. unfold set_wrap. setters. proj.
    repeat split; try reflexivity.
    + apply upd_length.
    + intros r Hr1 Hne.
      change (wraps_at (set_wrap s (row s) true) r = wraps_at s r).
      apply wraps_at_set_wrap_other; lia.
Qed.

Lemma wraps_scroll_up_bottom s a b : length (wraps s) = zn (height s) -> 1 <= a <= b -> b < height s ->
  wraps_at (b_scroll_up s a b) b = false.
Proof.
  intros Hl Ha Hb. unfold wraps_at, b_scroll_up. setters. proj.
  set (w1 := insert_at (zn b) false (wraps s)).
  assert (L1 : length w1 = S (zn (height s))) by (unfold w1; rewrite insert_at_length; unfold zn in *; lia).
  set (i := zn (pyidx (a - 2) (length w1))).
  set (w2 := if nth i w1 false then upd i (nth (zn (a - 1)) w1 false) w1 else w1).
  rewrite pyidx_nonneg by lia.
  rewrite nth_delete_at.
  replace (Nat.ltb (zn (b - 1)) (zn (a - 1))) with false by (symmetry; apply Nat.ltb_ge; unfold zn; lia).
  replace (S (zn (b - 1))) with (zn b) by (unfold zn; lia).
  assert (N1 : nth (zn b) w1 false = false).
  { unfold w1. rewrite nth_insert_at by (unfold zn in *; lia).
    rewrite Nat.ltb_irrefl, Nat.eqb_refl. reflexivity. }
  assert (Hi : zn b <> i).
  { unfold i. rewrite L1. unfold pyidx. destruct (a - 2 <? 0) eqn:E; unfold zn in *; lia. }
  unfold w2. destruct (nth i w1 false); [|exact N1].
  rewrite nth_upd_other by auto. exact N1.
Qed.

(* scrolling the window by one row shifts the view on the virtual page by one *)
Lemma shifted_scroll_up (cs cs0 : list (list Z)) (g : vgrid) H W T B K : shape cs H W -> 1 <= T <= B -> B < H ->
  (forall R C, 1 <= R <= H -> 1 <= C <= W ->
     get_cell cs R C = if (T <=? R) && (R <=? B) then g (R + K) C else get_cell cs0 R C) ->
  (forall C, g (B + K + 1) C = 32) ->
  forall R C, 1 <= R <= H -> 1 <= C <= W ->
    get_cell (scroll_up_l W cs T B) R C =
      if (T <=? R) && (R <=? B) then g (R + (K + 1)) C else get_cell cs0 R C.
Proof.
  intros Hsh HT HB Hc Hb R C HR HC.
  rewrite (get_scroll_up cs H W) by (try apply Hsh; lia).
  destruct ((T <=? R) && (R <? B)) eqn:E1.
  - rewrite (Hc (R + 1) C) by lia.
    replace ((T <=? R + 1) && (R + 1 <=? B)) with true by lia.
    replace ((T <=? R) && (R <=? B)) with true by lia.
    replace (R + 1 + K) with (R + (K + 1)) by lia. reflexivity.
  - destruct (R =? B) eqn:E2.
    + assert (R = B) by lia. subst R.
      replace ((T <=? B) && (B <=? B)) with true by lia.
      replace (B + (K + 1)) with (B + K + 1) by lia. symmetry. apply Hb.
    + rewrite (Hc R C HR HC). replace ((T <=? R) && (R <=? B)) with false by lia. reflexivity.
Qed.

Section Placement.
Variable s0 : st.
Variable fl : Z -> bool.
Let W := width s0.
Let H := height s0.
Let T := top s0.
Let B := bot s0.

Hypothesis G0 : geom_ok s0.
Hypothesis Hfl : forall v, v > B -> fl v = false.

Record rel2 (s : st) (g : vgrid) (vr vc : Z) : Prop := mkrel2 {
  q_env : same_env s0 s;
  q_GG : GG s;
  q_bra : bra s = false;
  q_row : row s = vr - Z.max 0 (vr - B) /\ T <= row s <= B;
  q_col : (1 <= vc <= W /\ col s = vc /\ ovf s = false) \/ (vc = W + 1 /\ col s = W /\ ovf s = true);
  q_cells : shifted s0 s g (Z.max 0 (vr - B));
  q_below : forall r c, r > Z.max vr B -> g r c = 32;
  q_flags : forall r, row s <= r <= B -> (r = row s -> ovf s = false) ->
            wraps_at s r = fl (r + Z.max 0 (vr - B))
}.

Lemma rel2_step s g vr vc ch : rel2 s g vr vc ->
  let vr1 := if vc >? W then vr + 1 else vr in
  let vc1 := if vc >? W then 1 else vc in
  let g' := fun r c => if (r =? vr1) && (c =? vc1) then ch else g r c in
  if (vc1 =? W) && fl vr1 then rel2 (write_char false s ch) g' (vr1 + 1) 1
  else rel2 (write_char false s ch) g' vr1 (vc1 + 1).
Proof.
  intros [Henv HGG Hbra [Hrow Hrw] Hcol Hcells Hbelow Hflags].
  destruct (env_fields s0 s Henv) as (EW & EH & ET & EB). fold W H T B in EW, EH, ET, EB.
  destruct G0 as (G1 & G2 & G3 & G4 & G5 & G6). fold H W T B in G1, G2, G3, G4, G5.
  pose proof HGG as [_ (Hshape & Hwl & _)]. rewrite EH, EW in Hshape. rewrite EH in Hwl.
  destruct Hcol as [(Hvc & Hc & Ho) | (Hvc & Hc & Ho)].
  - (* the character goes to the current cell *)
    replace (vc >? W) with false by lia. cbv zeta.
    unfold write_char.
    rewrite (consume_noop false s Ho) by lia.
    rewrite (wrap_scroll_noop true s Hbra) by lia.
    set (s3 := b_put s (row s) (col s) ch).
    assert (P3 : GG s3) by (apply GG_put; auto; lia).
    assert (C3 : shifted s0 s3 (fun r c => if (r =? vr) && (c =? vc) then ch else g r c) (Z.max 0 (vr - B))).
    { intros R C HR HC. unfold s3, b_put. setters. proj.
      rewrite (get_put (cells s) H W) by (auto; lia).
      rewrite (Hcells R C HR HC). fold T B.
      destruct ((T <=? R) && (R <=? B)) eqn:EW1.
      - replace (R + Z.max 0 (vr - B) =? vr) with (R =? row s) by lia. rewrite Hc. reflexivity.
      - replace (R =? row s) with false by lia. reflexivity. }
    assert (B3 : forall r c, r > Z.max vr B -> (if (r =? vr) && (c =? vc) then ch else g r c) = 32).
    { intros r c Hr. replace (r =? vr) with false by lia. cbn [andb]. apply Hbelow; auto. }
    assert (F3 : bra s3 = false /\ col s3 = col s /\ row s3 = row s /\ width s3 = W /\ height s3 = H /\ top s3 = T
                 /\ bot s3 = B /\ ovf s3 = false /\ same_env s0 s3 /\ wraps s3 = wraps s
                 /\ cells s3 = put_l (cells s) (row s) (col s) ch)
      by (unfold s3, b_put; setters; proj; repeat split; auto; apply Henv).
    destruct F3 as (F1 & F2 & F3 & F4 & F5 & F6 & F7 & F8 & F9 & F10 & F11).
    assert (WS3 : forall r, wraps_at s3 r = wraps_at s r) by (intro; unfold wraps_at; rewrite F10; reflexivity).
    destruct (col s3 <? width s3) eqn:E4.
    + (* not in the last column *)
      assert (E4' : col s < W) by lia.
      replace (vc =? W) with false by lia. cbn [andb].
      rewrite wrap_scroll_noop by (setters; proj; try lia; auto).
      constructor.
      * exact F9.
      * exact P3.
      * exact F1.
      * setters. proj. rewrite F3. auto.
      * left. setters. proj. lia.
      * exact C3.
      * exact B3.
      * intros r Hr Hov. setters. proj. rewrite F3 in Hr. change (wraps_at s3 r = fl (r + Z.max 0 (vr - B))).
        rewrite WS3. apply Hflags; [lia|auto].
    + (* last column *)
      assert (E4' : col s = W) by lia.
      replace (vc =? W) with true by lia. cbn [andb].
      assert (E5 : wraps_at s3 (row s3) = fl vr).
      { rewrite WS3, F3. rewrite (Hflags (row s)) by (auto; lia). f_equal. lia. }
      rewrite E5. destruct (fl vr) eqn:Efl.
      * (* flagged row: straight to the next row *)
        set (s4 := set_rc s3 (row s3 + 1) 1).
        assert (F4' : bra s4 = false /\ col s4 = 1 /\ row s4 = row s + 1 /\ width s4 = W /\ height s4 = H /\ top s4 = T
                      /\ bot s4 = B /\ ovf s4 = false /\ same_env s0 s4 /\ wraps s4 = wraps s /\ cells s4 = cells s3)
          by (unfold s4; setters; proj; repeat split; auto; try lia; apply F9).
        destruct F4' as (A1 & A2 & A3 & A4 & A5 & A6 & A7 & A8 & A9 & A10 & A11).
        assert (A12 : GG s4) by exact P3.
        destruct (Z_le_gt_dec (row s + 1) B) as [Hle | Hgt].
        -- rewrite (wrap_scroll_noop true s4 A1) by lia.
           assert (K0 : Z.max 0 (vr - B) = 0 /\ Z.max 0 (vr + 1 - B) = 0) by lia.
           destruct K0 as [K0 K1].
           constructor; auto.
           ++ lia.
           ++ left. lia.
           ++ rewrite K1. rewrite K0 in C3. intros R C HR HC. rewrite A11. apply C3; auto.
           ++ intros r c Hr. apply B3. lia.
           ++ intros r Hr _. rewrite K1.
              replace (wraps_at s4 r) with (wraps_at s r) by (unfold wraps_at; rewrite A10; reflexivity).
              rewrite (Hflags r) by (try lia; auto). rewrite K0. reflexivity.
        -- assert (Hrb : row s = B) by lia.
           rewrite (wrap_scroll_scrolls s4 A1) by lia.
           set (s5 := set_row (b_scroll_up s4 (top s4) (bot s4)) (bot s4)).
           assert (P5 : GG s5) by (apply (GG_scroll_up s4 (top s4) (bot s4) A12); lia).
           assert (F5' : bra s5 = false /\ col s5 = 1 /\ width s5 = W /\ height s5 = H /\ top s5 = T /\ bot s5 = B
                         /\ row s5 = B /\ ovf s5 = false /\ same_env s0 s5
                         /\ cells s5 = scroll_up_l W (cells s3) T B).
           { unfold s5, b_scroll_up. setters. proj. rewrite A4, A6, A7, A11. repeat split; auto; apply A9. }
           destruct F5' as (D1 & D2 & D3 & D4 & D5 & D6 & D7 & D8 & D9 & D10).
           assert (HvB : vr = B + Z.max 0 (vr - B)) by (clear - Hrow Hrb; lia).
           assert (KK : Z.max 0 (vr + 1 - B) = Z.max 0 (vr - B) + 1) by (clear - HvB; lia).
           assert (WS5 : wraps_at s5 B = false).
           { change (wraps_at (b_scroll_up s4 (top s4) (bot s4)) B = false).
             rewrite A6, A7. apply wraps_scroll_up_bottom; [rewrite A5, A10; exact Hwl | clear - G3 G4; lia | rewrite A5; exact G5]. }
           assert (Hsh3 : shape (cells s3) H W) by (rewrite F11; apply shape_put; auto).
           clearbody s5 s4 s3.
           constructor.
           ++ exact D9.
           ++ exact P5.
           ++ exact D1.
           ++ clear - D7 HvB KK G4. lia.
           ++ left. split; [clear - G2; lia | auto].
           ++ rewrite KK. intros R C HR HC. rewrite D10.
              apply (shifted_scroll_up (cells s3) (cells s0) (fun r c => if (r =? vr) && (c =? vc) then ch else g r c)
                       H W T B (Z.max 0 (vr - B))); auto.
Show.
